(** Proofs about the SECS-I block layer model (Secs1/Block.v). *)
From Coq Require Import ZArith Bool List Lia ZifyBool.
From GoSecs Require Import Secs1.Block.
Import ListNotations.
Open Scope Z_scope.

Ltac Zify.zify_post_hook ::= Z.div_mod_to_equations.

(** ** Small list facts *)
Lemma zlen_app {A} (a b : list A) : zlen (a ++ b) = zlen a + zlen b.
Proof. unfold zlen. rewrite app_length. lia. Qed.

Lemma zlen_nonneg {A} (l : list A) : 0 <= zlen l.
Proof. unfold zlen. lia. Qed.

Lemma zlen_cons {A} (x : A) l : zlen (x :: l) = 1 + zlen l.
Proof. unfold zlen. cbn [length]. lia. Qed.

Lemma list_eqb_refl l : list_eqb l l = true.
Proof. induction l; cbn; [reflexivity|]. rewrite Z.eqb_refl, IHl. reflexivity. Qed.

Lemma list_eqb_eq a : forall b, list_eqb a b = true <-> a = b.
Proof.
  induction a as [|x a IH]; intros [|y b]; cbn; split; intros H; try congruence; try discriminate.
  - apply andb_true_iff in H as [H1 H2]. apply Z.eqb_eq in H1. apply IH in H2. congruence.
  - inversion H; subst. rewrite Z.eqb_refl. cbn. apply IH. reflexivity.
Qed.

Lemma mheader_eqb_eq a b : mheader_eqb a b = true <-> a = b.
Proof.
  unfold mheader_eqb. destruct a, b; cbn. split; intros H.
  - repeat (apply andb_true_iff in H as [H ?]).
    apply Z.eqb_eq in H. apply eqb_prop in H4. apply Z.eqb_eq in H3. apply Z.eqb_eq in H2.
    apply eqb_prop in H1. apply list_eqb_eq in H0. congruence.
  - inversion H; subst. rewrite !Z.eqb_refl, !eqb_reflx, list_eqb_refl. reflexivity.
Qed.

Lemma mheader_eqb_refl a : mheader_eqb a a = true.
Proof. apply mheader_eqb_eq. reflexivity. Qed.

(** ** Sums *)
Lemma sum_bytes_app a b : sum_bytes (a ++ b) = sum_bytes a + sum_bytes b.
Proof. induction a; cbn; [reflexivity|]. unfold sum_bytes in *. lia. Qed.

Lemma sum_bytes_bounds l : bytes_ok l -> 0 <= sum_bytes l <= 255 * zlen l.
Proof.
  induction 1 as [|x l Hx Hl IH].
  - unfold zlen; cbn; lia.
  - rewrite zlen_cons. change (sum_bytes (x :: l)) with (x + sum_bytes l). unfold byte_ok in Hx. lia.
Qed.

Lemma bytes_ok_app a b : bytes_ok (a ++ b) <-> bytes_ok a /\ bytes_ok b.
Proof. unfold bytes_ok. apply Forall_app. Qed.

Lemma bytes_ok_firstn n l : bytes_ok l -> bytes_ok (firstn n l).
Proof.
  unfold bytes_ok. rewrite !Forall_forall. intros H x Hx. apply H.
  rewrite <- (firstn_skipn n l). apply in_or_app. left. exact Hx.
Qed.

Lemma bytes_ok_skipn n l : bytes_ok l -> bytes_ok (skipn n l).
Proof.
  unfold bytes_ok. rewrite !Forall_forall. intros H x Hx. apply H.
  rewrite <- (firstn_skipn n l). apply in_or_app. right. exact Hx.
Qed.

(** ** buildHeader and the accessors are mutually inverse *)
Lemma build_header_length h num last :
  length (h_sys h) = 4%nat -> length (build_header h num last) = 10%nat.
Proof. intros H. unfold build_header. rewrite app_length, H. reflexivity. Qed.

Lemma hi_flag_byte v f : byte_ok (hi_flag v f).
Proof. unfold hi_flag, byte_ok. destruct f; lia. Qed.

Lemma build_header_bytes h num last : bytes_ok (h_sys h) -> bytes_ok (build_header h num last).
Proof.
  intros H. unfold build_header. apply bytes_ok_app. split; [|exact H].
  repeat constructor; try apply hi_flag_byte; unfold byte_ok; try lia;
  destruct (h_wbit h); lia.
Qed.

Lemma build_header_fields h num last :
  wf_mheader h -> 0 <= num <= 32767 ->
  msg_header (build_header h num last) = h /\
  hdr_num (build_header h num last) = num /\
  hdr_ebit (build_header h num last) = last.
Proof.
  intros (Hd & Hs & Hf & Hl & Hb) Hn. destruct h as [dev r st fn w sys]; cbn in *.
  unfold msg_header, hdr_dev, hdr_rbit, hdr_stream, hdr_wbit, hdr_func, hdr_num, hdr_ebit, hdr_sys,
    hb, build_header, hi_flag; cbn [nth app h_dev h_rbit h_stream h_func h_wbit h_sys skipn].
  split; [|split].
  - f_equal.
    + destruct r; lia.
    + destruct r; lia.
    + destruct w; lia.
    + lia.
    + destruct w; lia.
    + destruct sys as [|a [|b [|c [|d [|e sys]]]]]; cbn in Hl; try discriminate. reflexivity.
  - destruct last; lia.
  - destruct last; lia.
Qed.

(** ** parse . append = id *)
Lemma wf_block_data_bounds b :
  wf_block b -> 0 <= sum_bytes (b_hdr b ++ b_body b) <= 64770.
Proof.
  intros (Hl & Hh & Hb & Hn).
  pose proof (sum_bytes_bounds (b_hdr b ++ b_body b)) as S.
  rewrite bytes_ok_app in S. specialize (S (conj Hh Hb)).
  rewrite zlen_app in S. unfold zlen in *. rewrite Hl in S. unfold max_block_body in Hn. lia.
Qed.

Lemma firstn_app_exact {A} (a b : list A) n : n = length a -> firstn n (a ++ b) = a.
Proof.
  intros ->. rewrite firstn_app, Nat.sub_diag, firstn_all. cbn. apply app_nil_r.
Qed.

Lemma nth_app_exact {A} (a b : list A) n d k : n = length a -> nth (n + k) (a ++ b) d = nth k b d.
Proof. intros ->. rewrite app_nth2 by lia. f_equal. lia. Qed.

Lemma skipn_app_exact {A} (a b : list A) n : n = length a -> skipn n (a ++ b) = b.
Proof. intros ->. rewrite skipn_app, Nat.sub_diag, skipn_all. reflexivity. Qed.

Definition wire_rest (b : block) : list Z :=
  let cs := checksum (b_hdr b ++ b_body b) in
  b_hdr b ++ b_body b ++ [(cs / 256) mod 256; cs mod 256].
Definition wire_len (b : block) : Z := block_header_size + zlen (b_body b).

Lemma append_block_shape b :
  wf_block b -> append_block b = wire_len b :: wire_rest b /\ 10 <= wire_len b <= 254.
Proof.
  intros (Hl & Hh & Hb & Hn). unfold append_block, wire_len, wire_rest, block_header_size, max_block_body in *.
  pose proof (zlen_nonneg (b_body b)). split; [|lia].
  f_equal. apply Z.mod_small. lia.
Qed.

Theorem parse_append b :
  wf_block b -> parse_block (wire_len b) (wire_rest b) = Ok b.
Proof.
  intros W. pose proof W as (Hl & Hh & Hb & Hn).
  pose proof (append_block_shape b W) as [_ Hr].
  pose proof (wf_block_data_bounds b W) as Hs.
  unfold parse_block, min_block_length, max_block_length, checksum_size.
  replace ((wire_len b <? 10) || (wire_len b >? 254)) with false by lia.
  unfold wire_rest. set (cs := checksum (b_hdr b ++ b_body b)).
  assert (Hlen : zlen (b_hdr b ++ b_body b ++ [(cs / 256) mod 256; cs mod 256]) = wire_len b + 2).
  { rewrite !zlen_app. unfold wire_len, block_header_size, zlen. rewrite Hl. cbn [length]. lia. }
  rewrite Hlen, Z.eqb_refl. cbn [negb].
  assert (Hn' : Z.to_nat (wire_len b) = length (b_hdr b ++ b_body b)).
  { unfold wire_len, block_header_size, zlen. rewrite app_length, Hl. lia. }
  rewrite app_assoc.
  rewrite (firstn_app_exact _ _ _ Hn').
  replace (nth (Z.to_nat (wire_len b)) _ 0) with ((cs / 256) mod 256).
  2:{ rewrite <- (Nat.add_0_r (Z.to_nat (wire_len b))). rewrite (nth_app_exact _ _ _ _ _ Hn'). reflexivity. }
  replace (nth (S (Z.to_nat (wire_len b))) _ 0) with (cs mod 256).
  2:{ replace (S (Z.to_nat (wire_len b))) with (Z.to_nat (wire_len b) + 1)%nat by lia.
      rewrite (nth_app_exact _ _ _ _ _ Hn'). reflexivity. }
  fold cs.
  assert (Hcs : 0 <= cs < 65536) by (unfold cs, checksum; lia).
  replace (cs =? (cs / 256) mod 256 * 256 + cs mod 256) with true by lia. cbn [negb].
  f_equal. destruct b as [hdr body]; cbn [b_hdr b_body] in *. f_equal.
  - rewrite <- app_assoc. apply firstn_app_exact. lia.
  - apply skipn_app_exact. lia.
Qed.

Corollary parse_append_wire b :
  wf_block b ->
  exists lb rest, append_block b = lb :: rest /\ parse_block lb rest = Ok b.
Proof.
  intros W. exists (wire_len b), (wire_rest b). split.
  - apply append_block_shape, W.
  - apply parse_append, W.
Qed.

(** ** Single-character corruption *)
Definition replace_nth (i : nat) (v : Z) (l : list Z) : list Z := firstn i l ++ v :: skipn (S i) l.

Lemma replace_nth_length i v l : (i < length l)%nat -> length (replace_nth i v l) = length l.
Proof.
  intros H. unfold replace_nth. rewrite app_length, firstn_length. cbn [length]. rewrite skipn_length. lia.
Qed.

Lemma split_nth (l : list Z) i : (i < length l)%nat -> l = firstn i l ++ nth i l 0 :: skipn (S i) l.
Proof.
  revert i. induction l as [|x l IH]; intros i H; cbn in H; [lia|].
  destruct i; cbn; [reflexivity|]. f_equal. apply IH. lia.
Qed.

Lemma sum_replace_nth i v l :
  (i < length l)%nat -> sum_bytes (replace_nth i v l) = sum_bytes l - nth i l 0 + v.
Proof.
  intros H. rewrite (split_nth l i H) at 2. unfold replace_nth.
  rewrite !sum_bytes_app. cbn. unfold sum_bytes. lia.
Qed.

Lemma bytes_ok_nth l i : bytes_ok l -> (i < length l)%nat -> byte_ok (nth i l 0).
Proof. intros H Hi. unfold bytes_ok in H. rewrite Forall_forall in H. apply H, nth_In, Hi. Qed.

Lemma firstn_replace_lt i v l n : (i < n)%nat -> (n <= length l)%nat ->
  firstn n (replace_nth i v l) = replace_nth i v (firstn n l).
Proof.
  intros Hi Hn. unfold replace_nth.
  rewrite firstn_app, firstn_firstn, firstn_length.
  replace (Nat.min n i) with i by lia. replace (Nat.min i (length l)) with i by lia.
  replace (Nat.min i n) with i by lia.
  f_equal.
  - rewrite firstn_firstn. f_equal. lia.
  - destruct (n - i)%nat as [|k] eqn:E; [lia|]. cbn [firstn]. f_equal.
    rewrite firstn_skipn_comm. f_equal. f_equal. lia.
Qed.

Lemma firstn_replace_ge i v l n : (n <= i)%nat -> (i < length l)%nat ->
  firstn n (replace_nth i v l) = firstn n l.
Proof.
  intros H Hi. unfold replace_nth. rewrite firstn_app, firstn_firstn, firstn_length.
  replace (Nat.min n i) with n by lia.
  replace (n - Nat.min i (length l))%nat with 0%nat by lia. cbn. apply app_nil_r.
Qed.

Lemma nth_replace_nth i v l j : (i < length l)%nat ->
  nth j (replace_nth i v l) 0 = if Nat.eqb j i then v else nth j l 0.
Proof.
  intros Hi. unfold replace_nth.
  assert (Hf : length (firstn i l) = i) by (rewrite firstn_length; lia).
  destruct (Nat.eqb_spec j i) as [->|Hne].
  - rewrite app_nth2 by lia. rewrite Hf, Nat.sub_diag. reflexivity.
  - destruct (Nat.lt_ge_cases j i).
    + rewrite app_nth1 by lia. rewrite (split_nth l i Hi) at 2. rewrite app_nth1 by lia. reflexivity.
    + rewrite app_nth2 by lia. rewrite Hf. rewrite (split_nth l i Hi) at 2. rewrite app_nth2 by lia.
      rewrite Hf. destruct (j - i)%nat eqn:E; [lia|]. reflexivity.
Qed.

Lemma nth_tail0 (a : list Z) x y : nth (length a) (a ++ [x; y]) 0 = x.
Proof. rewrite app_nth2 by lia. rewrite Nat.sub_diag. reflexivity. Qed.
Lemma nth_tail1 (a : list Z) x y : nth (S (length a)) (a ++ [x; y]) 0 = y.
Proof. rewrite app_nth2 by lia. replace (S (length a) - length a)%nat with 1%nat by lia. reflexivity. Qed.

Theorem corrupt_rejected b i v :
  wf_block b -> (i < length (wire_rest b))%nat -> byte_ok v -> v <> nth i (wire_rest b) 0 ->
  parse_block (wire_len b) (replace_nth i v (wire_rest b)) = Err EChecksum.
Proof.
  intros W Hi Hv Hne. pose proof W as (Hl & Hh & Hb & Hn).
  pose proof (append_block_shape b W) as [_ Hr].
  pose proof (wf_block_data_bounds b W) as Hs.
  unfold parse_block, min_block_length, max_block_length, checksum_size.
  replace ((wire_len b <? 10) || (wire_len b >? 254)) with false by lia.
  revert Hi Hne. unfold wire_rest. set (data := b_hdr b ++ b_body b) in *.
  set (cs := checksum data). rewrite app_assoc. fold data. intros Hi Hne.
  assert (Hcs : cs = sum_bytes data) by (unfold cs, checksum; apply Z.mod_small; lia).
  assert (Hn' : Z.to_nat (wire_len b) = length data).
  { unfold data, wire_len, block_header_size, zlen. rewrite app_length, Hl. lia. }
  assert (Hlen : length (data ++ [(cs / 256) mod 256; cs mod 256]) = (length data + 2)%nat).
  { rewrite app_length. reflexivity. }
  unfold zlen. rewrite replace_nth_length by exact Hi. rewrite Hlen.
  replace (Z.of_nat (length data + 2) =? wire_len b + 2) with true by lia. cbn [negb].
  rewrite Hn'.
  assert (Hd : bytes_ok data) by (apply bytes_ok_app; split; assumption).
  destruct (Nat.lt_ge_cases i (length data)) as [Hlt|Hge].
  - (* a header or body byte was replaced *)
    rewrite firstn_replace_lt by lia.
    rewrite (firstn_app_exact _ _ _ eq_refl).
    rewrite !nth_replace_nth by exact Hi.
    replace (Nat.eqb (length data) i) with false by (symmetry; apply Nat.eqb_neq; lia).
    replace (Nat.eqb (S (length data)) i) with false by (symmetry; apply Nat.eqb_neq; lia).
    rewrite nth_tail0, nth_tail1.
    rewrite app_nth1 in Hne by exact Hlt.
    pose proof (bytes_ok_nth data i Hd Hlt) as Ho. unfold byte_ok in Ho, Hv.
    unfold checksum. rewrite sum_replace_nth by exact Hlt.
    replace ((sum_bytes data - nth i data 0 + v) mod 65536) with (sum_bytes data - nth i data 0 + v).
    2:{ symmetry. apply Z.mod_small.
        pose proof (sum_bytes_bounds _ Hd). 
        assert (nth i data 0 <= sum_bytes data).
        { rewrite (split_nth data i Hlt) at 2. rewrite sum_bytes_app.
          change (sum_bytes (nth i data 0 :: skipn (S i) data)) with (nth i data 0 + sum_bytes (skipn (S i) data)).
          pose proof (sum_bytes_bounds _ (bytes_ok_firstn i _ Hd)).
          pose proof (sum_bytes_bounds _ (bytes_ok_skipn (S i) _ Hd)).
          pose proof (zlen_nonneg (firstn i data)). pose proof (zlen_nonneg (skipn (S i) data)). lia. }
        lia. }
    replace (sum_bytes data - nth i data 0 + v =? (cs / 256) mod 256 * 256 + cs mod 256) with false by lia.
    reflexivity.
  - (* a checksum byte was replaced *)
    rewrite firstn_replace_ge by lia.
    rewrite (firstn_app_exact _ _ _ eq_refl).
    rewrite !nth_replace_nth by exact Hi.
    rewrite nth_tail0, nth_tail1. fold cs. unfold byte_ok in Hv.
    assert (Hi2 : i = length data \/ i = S (length data)) by lia.
    destruct Hi2 as [->| ->].
    + rewrite Nat.eqb_refl. replace (Nat.eqb (S (length data)) (length data)) with false by (symmetry; apply Nat.eqb_neq; lia).
      rewrite nth_tail0 in Hne.
      replace (cs =? v * 256 + cs mod 256) with false by lia. reflexivity.
    + rewrite Nat.eqb_refl. replace (Nat.eqb (length data) (S (length data))) with false by (symmetry; apply Nat.eqb_neq; lia).
      rewrite nth_tail1 in Hne.
      replace (cs =? (cs / 256) mod 256 * 256 + v) with false by lia. reflexivity.
Qed.

(** A replaced length byte is rejected whenever the receiver still hands the whole transmission
    to [parse_block]. (On the line the receiver reads [lb' + 2] characters instead; a LONGER
    length runs into T1, a SHORTER one checks a prefix against two data bytes, which the 16-bit
    sum cannot exclude: see [short_length_undetected].) *)
Theorem corrupt_length_rejected b lb' :
  wf_block b -> lb' <> wire_len b -> parse_block lb' (wire_rest b) = Err EInvalidLength.
Proof.
  intros W Hne. pose proof W as (Hl & Hh & Hb & Hn).
  unfold parse_block, min_block_length, max_block_length, checksum_size.
  destruct ((lb' <? 10) || (lb' >? 254)); [reflexivity|].
  assert (Hlen : zlen (wire_rest b) = wire_len b + 2).
  { unfold wire_rest. rewrite !zlen_app. unfold wire_len, block_header_size, zlen. rewrite Hl. cbn [length]. lia. }
  rewrite Hlen. replace (wire_len b + 2 =? lb' + 2) with false by lia. reflexivity.
Qed.

(** ** splitBody *)
Inductive numbered (h : mheader) : Z -> list block -> Prop :=
| numbered_last num b : b_hdr b = build_header h num true -> numbered h num [b]
| numbered_cons num b bs :
    b_hdr b = build_header h num false -> numbered h (num + 1) bs -> numbered h num (b :: bs).

Lemma numbered_nonempty h num bs : numbered h num bs -> (1 <= length bs)%nat.
Proof. destruct 1; cbn; lia. Qed.

Definition dflt_block : block := {| b_hdr := []; b_body := [] |}.

Lemma numbered_nth h bs : forall num, numbered h num bs ->
  forall k, (k < length bs)%nat ->
  b_hdr (nth k bs dflt_block) = build_header h (num + Z.of_nat k) (Nat.eqb (S k) (length bs)).
Proof.
  induction bs as [|b bs IH]; intros num Hn k Hk; [cbn in Hk; lia|].
  inversion Hn as [n0 b0 Hh0|n0 b0 bs0 Hh0 H3]; subst.
  - destruct k; [|cbn in Hk; lia]. cbn. rewrite Z.add_0_r. assumption.
  - pose proof (numbered_nonempty _ _ _ H3).
    destruct k.
    + cbn [nth length]. rewrite Z.add_0_r.
      replace (Nat.eqb 1 (S (length bs))) with false by (symmetry; apply Nat.eqb_neq; lia). assumption.
    + cbn [nth length]. rewrite (IH _ H3 k) by (cbn in Hk; lia).
      replace (num + 1 + Z.of_nat k) with (num + Z.of_nat (S k)) by lia. reflexivity.
Qed.

Lemma skipn_nonempty_length {A} (l : list A) n : skipn n l <> [] -> (n < length l)%nat.
Proof.
  intros H. destruct (Nat.lt_ge_cases n (length l)); [assumption|].
  exfalso. apply H. apply skipn_all2. lia.
Qed.

Lemma max_body_nat_val : max_body_nat = 244%nat.
Proof. reflexivity. Qed.

Lemma split_go_ok h : forall fuel num rest, (length rest < fuel)%nat ->
  let bs := split_go h fuel num rest in
  numbered h num bs /\ concat (map b_body bs) = rest /\
  Forall (fun b => (length (b_body b) <= max_body_nat)%nat) bs /\
  (length bs = 1%nat \/ (max_body_nat * (length bs - 1) < length rest)%nat).
Proof.
  induction fuel as [|f IH]; intros num rest Hf; [lia|].
  pose proof max_body_nat_val as MB.
  cbn [split_go]. destruct (skipn max_body_nat rest) as [|x rest'] eqn:E.
  - cbn zeta. repeat split.
    + constructor. reflexivity.
    + cbn. rewrite app_nil_r. rewrite <- (firstn_skipn max_body_nat rest) at 2. rewrite E. symmetry. apply app_nil_r.
    + constructor; [|constructor]. cbn. apply firstn_le_length.
    + left. reflexivity.
  - assert (Hlt : (max_body_nat < length rest)%nat) by (apply skipn_nonempty_length; rewrite E; discriminate).
    assert (Hr : length (x :: rest') = (length rest - max_body_nat)%nat) by (rewrite <- E; apply skipn_length).
    specialize (IH (num + 1) (x :: rest')).
    assert (Hf' : (length (x :: rest') < f)%nat) by (rewrite Hr; lia).
    specialize (IH Hf'). cbn zeta in IH. destruct IH as (I1 & I2 & I3 & I4).
    cbn zeta. repeat split.
    + constructor; [reflexivity|exact I1].
    + cbn [map concat b_body]. rewrite I2. rewrite <- E. apply firstn_skipn.
    + constructor; [|exact I3]. cbn. apply firstn_le_length.
    + right. cbn [length]. pose proof (numbered_nonempty _ _ _ I1).
      replace (S (length (split_go h f (num + 1) (x :: rest'))) - 1)%nat
        with (S (length (split_go h f (num + 1) (x :: rest')) - 1)) by lia.
      destruct I4 as [I4|I4]; [rewrite I4; cbn in Hr; lia|]. lia.
Qed.

Lemma split_body_ok body h :
  wf_mheader h -> zlen body <= max_block_body * max_block_number ->
  exists bs, split_body body h = Ok bs /\ numbered h 1 bs /\ concat (map b_body bs) = body /\
    Forall (fun b => zlen (b_body b) <= max_block_body) bs /\
    1 <= zlen bs <= max_block_number /\
    (body = [] -> bs = [ {| b_hdr := build_header h 1 true; b_body := [] |} ]).
Proof.
  intros (Hd & Hs & _) Hlen. unfold split_body.
  replace (h_dev h >? 32767) with false by lia. replace (h_stream h >? 127) with false by lia.
  replace (zlen body >? max_block_body * max_block_number) with false by lia.
  eexists. split; [reflexivity|].
  pose proof (split_go_ok h (S (length body)) 1 body (Nat.lt_succ_diag_r _)) as (I1 & I2 & I3 & I4).
  cbn zeta in *. rewrite max_body_nat_val in *. repeat split; try assumption.
  - eapply Forall_impl; [|exact I3]. intros b Hb. cbv beta in Hb. unfold zlen, max_block_body. lia.
  - pose proof (numbered_nonempty _ _ _ I1). unfold zlen. lia.
  - unfold zlen, max_block_body, max_block_number in *.
    destruct I4 as [I4|I4]; [rewrite I4; lia|]. lia.
  - intros ->. reflexivity.
Qed.

Lemma split_body_errors body h :
  (h_dev h > 32767 \/ h_stream h > 127 -> split_body body h = Err EInvalidHeader) /\
  (h_dev h <= 32767 -> h_stream h <= 127 -> zlen body > max_block_body * max_block_number ->
   split_body body h = Err ETooLarge).
Proof.
  unfold split_body. split.
  - intros [H|H].
    + replace (h_dev h >? 32767) with true by lia. reflexivity.
    + destruct (h_dev h >? 32767); [reflexivity|]. replace (h_stream h >? 127) with true by lia. reflexivity.
  - intros. replace (h_dev h >? 32767) with false by lia. replace (h_stream h >? 127) with false by lia.
    replace (zlen body >? max_block_body * max_block_number) with true by lia. reflexivity.
Qed.

(** Pointwise reading of [numbered] through the header accessors. *)
Lemma numbered_fields h bs :
  wf_mheader h -> numbered h 1 bs -> zlen bs <= max_block_number ->
  forall k, (k < length bs)%nat ->
  let hdr := b_hdr (nth k bs dflt_block) in
  length hdr = 10%nat /\ bytes_ok hdr /\ msg_header hdr = h /\
  hdr_num hdr = 1 + Z.of_nat k /\ hdr_ebit hdr = Nat.eqb (S k) (length bs).
Proof.
  intros W Hn Hmax k Hk. cbn zeta. rewrite (numbered_nth _ _ _ Hn k Hk).
  pose proof W as (_ & _ & _ & Hl & Hb).
  assert (R : 0 <= 1 + Z.of_nat k <= 32767) by (unfold zlen, max_block_number in Hmax; lia).
  pose proof (build_header_fields h (1 + Z.of_nat k) (Nat.eqb (S k) (length bs)) W R) as (F1 & F2 & F3).
  repeat split; try assumption.
  - apply build_header_length, Hl.
  - apply build_header_bytes, Hb.
Qed.

Lemma split_blocks_wf body h bs :
  wf_mheader h -> bytes_ok body -> split_body body h = Ok bs -> Forall wf_block bs.
Proof.
  intros W Hb Hs.
  assert (Hlen : zlen body <= max_block_body * max_block_number).
  { unfold split_body in Hs. destruct (h_dev h >? 32767); [discriminate|].
    destruct (h_stream h >? 127); [discriminate|].
    destruct (zlen body >? max_block_body * max_block_number) eqn:E; [discriminate|]. lia. }
  destruct (split_body_ok body h W Hlen) as (bs' & E & Hn & Hc & Hf & Hr & _).
  rewrite E in Hs. inversion Hs; subst bs'.
  apply Forall_forall. intros b Hin.
  destruct (In_nth _ _ dflt_block Hin) as (k & Hk & <-).
  pose proof (numbered_fields h bs W Hn (proj2 Hr) k Hk) as (F1 & F2 & _). cbn zeta in *.
  rewrite Forall_forall in Hf.
  repeat split; try assumption.
  - assert (Hbb : bytes_ok (concat (map b_body bs))) by (rewrite Hc; exact Hb).
    unfold bytes_ok in *. rewrite Forall_forall in *. intros x Hx. apply Hbb.
    apply in_concat. exists (b_body (nth k bs dflt_block)). split; [|exact Hx].
    apply in_map, nth_In, Hk.
  - apply Hf, nth_In, Hk.
Qed.

(** ** assembleFrame inverts splitBody *)
Lemma check_blocks_numbered h total : forall bs i,
  wf_mheader h -> numbered h (i + 1) bs -> total = i + zlen bs -> 0 <= i -> total <= max_block_number ->
  check_blocks h false total i bs = None.
Proof.
  induction bs as [|b bs IH]; intros i W Hn Ht Hi Hmax; [reflexivity|].
  cbn [check_blocks]. rewrite zlen_cons in Ht. pose proof (zlen_nonneg bs).
  assert (R : 0 <= i + 1 <= 32767) by (unfold max_block_number in Hmax; lia).
  inversion Hn as [n0 b0 Hh0|n0 b0 bs0 Hh0 Hn0]; subst.
  - pose proof (build_header_fields h (i + 1) true W R) as (F1 & F2 & F3).
    rewrite Hh0, F1, F2, F3, Z.eqb_refl, mheader_eqb_refl. cbn [negb].
    unfold zlen at 1. cbn [length]. replace (i =? i + (1 + Z.of_nat 0) - 1) with true by lia.
    reflexivity.
  - pose proof (build_header_fields h (i + 1) false W R) as (F1 & F2 & F3).
    rewrite Hh0, F1, F2, F3, Z.eqb_refl, mheader_eqb_refl. cbn [negb].
    pose proof (numbered_nonempty _ _ _ Hn0). unfold zlen in *.
    replace (i =? i + (1 + Z.of_nat (length bs)) - 1) with false by lia. cbn [Bool.eqb negb].
    apply IH; try assumption; lia.
Qed.

Theorem assemble_split body h bs :
  wf_mheader h -> split_body body h = Ok bs ->
  assemble_frame bs = Ok (hsms_header_of h ++ body).
Proof.
  intros W Hs.
  assert (Hlen : zlen body <= max_block_body * max_block_number).
  { unfold split_body in Hs. destruct (h_dev h >? 32767); [discriminate|].
    destruct (h_stream h >? 127); [discriminate|].
    destruct (zlen body >? max_block_body * max_block_number) eqn:E; [discriminate|]. lia. }
  destruct (split_body_ok body h W Hlen) as (bs' & E & Hn & Hc & Hf & Hr & _).
  rewrite E in Hs. inversion Hs; subst bs'. clear Hs.
  pose proof (numbered_nonempty _ _ _ Hn) as Hne.
  destruct bs as [|b0 bs0] eqn:Ebs; [cbn in Hne; lia|]. rewrite <- Ebs in *.
  unfold assemble_frame. rewrite Ebs at 1.
  pose proof (numbered_fields h bs W Hn (proj2 Hr) 0%nat ltac:(lia)) as (_ & _ & F1 & F2 & _).
  cbn zeta in F1, F2. rewrite Ebs in F1, F2 at 1. cbn [nth] in F1, F2. rewrite F1, F2.
  replace (1 + Z.of_nat 0 =? 0) with false by lia. rewrite andb_false_r.
  rewrite (check_blocks_numbered h (zlen bs) bs 0 W Hn) by lia.
  rewrite Hc. reflexivity.
Qed.

(** ** The statement of C17 (transmit side) in one theorem *)
Definition block_on_line_ok (b : block) : Prop :=
  let cs := sum_bytes (b_hdr b ++ b_body b) mod 65536 in
  append_block b =
    (10 + zlen (b_body b)) :: b_hdr b ++ b_body b ++ [(cs / 256) mod 256; cs mod 256] /\
  parse_block (10 + zlen (b_body b)) (b_hdr b ++ b_body b ++ [(cs / 256) mod 256; cs mod 256]) = Ok b.

Theorem split_spec body h :
  wf_mheader h -> bytes_ok body -> zlen body <= max_block_body * max_block_number ->
  exists bs, split_body body h = Ok bs /\
    1 <= zlen bs <= max_block_number /\
    concat (map b_body bs) = body /\
    (body = [] -> bs = [ {| b_hdr := build_header h 1 true; b_body := [] |} ]) /\
    (forall k, (k < length bs)%nat ->
       let b := nth k bs dflt_block in
       length (b_hdr b) = 10%nat /\ zlen (b_body b) <= 244 /\
       hdr_num (b_hdr b) = 1 + Z.of_nat k /\
       hdr_ebit (b_hdr b) = Nat.eqb (S k) (length bs) /\
       msg_header (b_hdr b) = h /\
       block_on_line_ok b) /\
    assemble_frame bs = Ok (hsms_header_of h ++ body).
Proof.
  intros W Hb Hlen.
  destruct (split_body_ok body h W Hlen) as (bs & E & Hn & Hc & Hf & Hr & He).
  exists bs. split; [exact E|]. split; [exact Hr|]. split; [exact Hc|]. split; [exact He|].
  split; [|apply assemble_split; assumption].
  intros k Hk. cbn zeta.
  pose proof (numbered_fields h bs W Hn (proj2 Hr) k Hk) as (F1 & F2 & F3 & F4 & F5). cbn zeta in *.
  pose proof (split_blocks_wf body h bs W Hb E) as Hwf.
  rewrite Forall_forall in Hwf, Hf.
  pose proof (Hwf _ (nth_In bs dflt_block Hk)) as Wb.
  pose proof (Hf _ (nth_In bs dflt_block Hk)) as Lb. unfold max_block_body in Lb.
  repeat split; try assumption.
  - apply (append_block_shape _ Wb).
  - apply (parse_append _ Wb).
Qed.

Lemma wf_mheader_of_hsms dev equip hh :
  0 <= dev <= 32767 -> length hh = 10%nat -> bytes_ok hh -> wf_mheader (mheader_of_hsms dev equip hh).
Proof.
  intros Hd Hl Hb. unfold wf_mheader, mheader_of_hsms; cbn.
  do 10 (destruct hh as [|? hh]; [discriminate|]). destruct hh; [|discriminate].
  unfold bytes_ok in Hb. repeat match goal with H : Forall _ (_ :: _) |- _ => inversion H; clear H; subst end.
  unfold hb, byte_ok in *; cbn. repeat split; try lia.
  repeat constructor; unfold byte_ok; lia.
Qed.

Theorem split_frame_spec dev equip hh body :
  0 <= dev <= 32767 -> length hh = 10%nat -> bytes_ok hh -> bytes_ok body ->
  zlen body <= max_block_body * max_block_number ->
  let h := mheader_of_hsms dev equip hh in
  h_dev h = dev /\ h_rbit h = equip /\ h_stream h = hb hh 2 mod 128 /\ h_func h = hb hh 3 /\
  h_wbit h = (128 <=? hb hh 2) /\ h_sys h = firstn 4 (skipn 6 hh) /\
  exists bs, split_frame dev equip hh body = Ok bs /\
    1 <= zlen bs <= max_block_number /\
    concat (map b_body bs) = body /\
    (forall k, (k < length bs)%nat ->
       let b := nth k bs dflt_block in
       zlen (b_body b) <= 244 /\ hdr_num (b_hdr b) = 1 + Z.of_nat k /\
       hdr_ebit (b_hdr b) = Nat.eqb (S k) (length bs) /\ msg_header (b_hdr b) = h /\
       block_on_line_ok b) /\
    assemble_frame bs =
      Ok ([dev / 256; dev mod 256; hb hh 2; hb hh 3; 0; 0] ++ firstn 4 (skipn 6 hh) ++ body).
Proof.
  intros Hd Hl Hb Hbody Hlen h.
  repeat (split; [reflexivity|]).
  pose proof (wf_mheader_of_hsms dev equip hh Hd Hl Hb) as W.
  destruct (split_spec body h W Hbody Hlen) as (bs & E & Hr & Hc & _ & Hk & Ha).
  exists bs. split; [exact E|]. split; [exact Hr|]. split; [exact Hc|]. split.
  - intros k Hlt. specialize (Hk k Hlt). cbn zeta in *. tauto.
  - rewrite Ha. f_equal. unfold hsms_header_of, h, mheader_of_hsms; cbn [h_dev h_stream h_wbit h_func h_sys].
    assert (B : byte_ok (hb hh 2)) by (apply bytes_ok_nth; [assumption|lia]).
    unfold byte_ok in B.
    replace ((dev / 256) mod 256) with (dev / 256) by (symmetry; apply Z.mod_small; lia).
    replace ((hb hh 2 mod 128) mod 128 + (if 128 <=? hb hh 2 then 128 else 0)) with (hb hh 2)
      by (destruct (128 <=? hb hh 2) eqn:C; lia).
    rewrite <- app_assoc. reflexivity.
Qed.

(** The corruption the 16-bit sum cannot exclude: the length character replaced by a smaller
    value, so that the receiver checks a prefix against two data bytes. Here the header bytes sum
    to 0x0105 and the body happens to start with 01 05. *)
Definition undetected_block : block :=
  {| b_hdr := [0; 1; 129; 1; 128; 1; 0; 0; 0; 1]; b_body := [1; 5; 177; 2] |}.

Lemma short_length_undetected :
  wf_block undetected_block /\ wire_len undetected_block = 14 /\
  parse_block 10 (firstn 12 (wire_rest undetected_block)) =
    Ok {| b_hdr := b_hdr undetected_block; b_body := [] |}.
Proof.
  split; [|split; reflexivity].
  unfold wf_block, undetected_block, bytes_ok, max_block_body, zlen; cbn [b_hdr b_body length].
  repeat split; try lia; repeat (constructor; [unfold byte_ok; lia|]); constructor.
Qed.
