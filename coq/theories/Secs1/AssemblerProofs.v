(** Proofs about the assembler model (Secs1/Assembler.v): it refines the reading of SEMI E4 §9.4
    given there ([spec_deliveries]), never returns an error, and the reading itself has the
    declarative soundness / completeness / exclusion properties the property text asks for. *)
From Coq Require Import ZArith Bool List Lia ZifyBool.
From GoSecs Require Import Secs1.Block Secs1.BlockProofs Secs1.Assembler.
Import ListNotations.
Open Scope Z_scope.

(** ** Facts about [chain] / [e4_prefix] *)
Lemma last_ev_app run e : last_ev (run ++ [e]) = e.
Proof. unfold last_ev. apply last_last. Qed.

Lemma last_ev_cons a b tl : last_ev (a :: b :: tl) = last_ev (b :: tl).
Proof. reflexivity. Qed.

Lemma chain_app : forall tl a e,
  chain a (tl ++ [e]) = chain a tl && continues (last_ev (a :: tl)) e.
Proof.
  induction tl as [|b tl IH]; intros a e.
  - cbn. rewrite andb_true_r. reflexivity.
  - cbn [app chain]. rewrite IH. rewrite last_ev_cons. rewrite andb_assoc. reflexivity.
Qed.

Lemma e4_prefix_app run e :
  run <> [] -> e4_prefix (run ++ [e]) = e4_prefix run && continues (last_ev run) e.
Proof.
  destruct run as [|a tl]; [congruence|]. intros _. cbn [app e4_prefix].
  rewrite chain_app, andb_assoc. reflexivity.
Qed.

Lemma continues_header a b : continues a b = true -> msg_header (e_hdr b) = msg_header (e_hdr a).
Proof.
  unfold continues. intros H. repeat (apply andb_true_iff in H as [H ?]).
  apply mheader_eqb_eq. assumption.
Qed.

(** ** [assemble_frame] cannot fail on an accumulated run *)
Lemma check_chain first total : forall tl a i,
  msg_header (e_hdr a) = first -> hdr_num (e_hdr a) = i + 1 -> chain a tl = true ->
  hdr_ebit (e_hdr (last_ev (a :: tl))) = true -> total = i + 1 + zlen tl ->
  check_blocks first false total i (map e_blk (a :: tl)) = None.
Proof.
  induction tl as [|b tl IH]; intros a i Hh Hn Hc He Ht.
  - cbn [map check_blocks]. unfold e_hdr in *. unfold last_ev in He. cbn [last] in He.
    rewrite Hn, He, Hh, Z.eqb_refl, mheader_eqb_refl. unfold zlen in Ht. cbn [length] in Ht.
    replace (i =? total - 1) with true by lia. reflexivity.
  - cbn [chain] in Hc. apply andb_true_iff in Hc as [Hab Hc].
    pose proof (continues_header _ _ Hab) as Hhb.
    unfold continues in Hab. repeat (apply andb_true_iff in Hab as [Hab ?]).
    change (map e_blk (a :: b :: tl)) with (e_blk a :: map e_blk (b :: tl)).
    cbn [check_blocks]. unfold e_hdr in *.
    rewrite Hn, Hh, Z.eqb_refl, mheader_eqb_refl. cbn [negb].
    rewrite zlen_cons in Ht. pose proof (zlen_nonneg tl).
    replace (i =? total - 1) with false by lia.
    destruct (hdr_ebit (b_hdr (e_blk a))); [discriminate|]. cbn [Bool.eqb negb].
    apply IH; try assumption; try lia. congruence.
Qed.

Lemma assemble_run run :
  e4_prefix run = true -> hdr_ebit (e_hdr (last_ev run)) = true ->
  assemble_frame (map e_blk run) = Ok (frame_of run).
Proof.
  destruct run as [|a tl]; [discriminate|]. cbn [e4_prefix]. intros H He.
  apply andb_true_iff in H as [Hv Hc].
  unfold assemble_frame. change (map e_blk (a :: tl)) with (e_blk a :: map e_blk tl) at 1.
  cbv beta iota. unfold frame_of. rewrite map_map.
  unfold valid_first_hdr in Hv. unfold e_hdr in *.
  destruct (hdr_num (b_hdr (e_blk a)) =? 1) eqn:N1.
  - replace (hdr_num (b_hdr (e_blk a)) =? 0) with false by lia. rewrite andb_false_r.
    rewrite (check_chain (msg_header (b_hdr (e_blk a))) (zlen (map e_blk (a :: tl))) tl a 0); try assumption; try reflexivity.
    + unfold e_hdr. lia.
    + unfold zlen. rewrite map_length. cbn [length]. lia.
  - cbn [orb] in Hv. apply andb_true_iff in Hv as [N0 E0].
    destruct tl as [|b tl].
    + cbn [map]. unfold zlen. cbn [length Z.of_nat Pos.of_succ_nat]. rewrite N0. cbn [andb Z.eqb Pos.eqb].
      cbn [check_blocks]. rewrite N0, E0, mheader_eqb_refl. reflexivity.
    + cbn [chain] in Hc. unfold continues, e_hdr in Hc. rewrite E0 in Hc. discriminate.
Qed.

(** ** The simulation relation between assembler state and the state of the E4 reading *)
Definition last_rel (st : astate) (s : sstate) : Prop :=
  match s_last s with
  | Some h => a_have_last st = true /\ a_last_hdr st = h
  | None => a_have_last st = false
  end.

Definition run_rel (st : astate) (s : sstate) : Prop :=
  match s_run s with
  | [] => a_open st = false
  | _ => a_open st = true /\ e4_prefix (s_run s) = true /\
         hdr_ebit (e_hdr (last_ev (s_run s))) = false /\
         a_blocks st = map e_blk (s_run s) /\
         msg_header (e_hdr (last_ev (s_run s))) = a_hdr st /\
         a_expected st = hdr_num (e_hdr (last_ev (s_run s))) + 1 /\
         a_last_time st = e_time (last_ev (s_run s))
  end.

Definition no_error (o : list aout) : Prop := forallb (fun x => negb (is_error x)) o = true.

Lemma dup_test st s e :
  last_rel st s ->
  a_have_last st && list_eqb (e_hdr e) (a_last_hdr st) = is_retransmission (s_last s) e.
Proof.
  unfold last_rel, is_retransmission. destruct (s_last s) as [h|].
  - intros [-> ->]. reflexivity.
  - intros ->. reflexivity.
Qed.

(** Starting a message from a block (the state before it is irrelevant but for the dup record). *)
Lemma start_sim st s e notify :
  last_rel st s ->
  let '(st', o) := start_message st e notify in
  let cand := if e4_prefix [e] then Some [e] else None in
  let '(s', d) :=
    match cand with
    | None => ({| s_last := s_last s; s_run := [] |}, [])
    | Some run =>
        if hdr_ebit (e_hdr e)
        then ({| s_last := Some (e_hdr e); s_run := [] |}, [frame_of run])
        else ({| s_last := Some (e_hdr e); s_run := run |}, [])
    end in
  (a_open st = false -> last_rel st' s' /\ run_rel st' s') /\ deliveries_of o = d /\ no_error o.
Proof.
  intros HL. unfold start_message. cbn [e4_prefix chain]. rewrite andb_true_r.
  destruct (valid_first_hdr (e_hdr e)) eqn:V.
  - destruct (hdr_ebit (e_hdr e)) eqn:E.
    + unfold complete. cbn [a_blocks].
      assert (A : assemble_frame (map e_blk [e]) = Ok (frame_of [e])).
      { apply assemble_run; [cbn; rewrite V; reflexivity|]. unfold last_ev; cbn. exact E. }
      cbn [map] in A. rewrite A. cbn. repeat split; reflexivity.
    + split; [|split; reflexivity]. intros _. split; [split; reflexivity|].
      unfold run_rel, last_ev. cbn [s_run last e4_prefix chain a_open a_blocks a_hdr a_expected a_last_time map].
      rewrite V, E. repeat split; reflexivity.
  - assert (G : a_open st = false ->
                last_rel st {| s_last := s_last s; s_run := [] |} /\ run_rel st {| s_last := s_last s; s_run := [] |}).
    { intros Ho. split; [exact HL|exact Ho]. }
    destruct notify; (split; [exact G|split; reflexivity]).
Qed.

Lemma run_rel_intro st s :
  s_run s <> [] -> a_open st = true -> e4_prefix (s_run s) = true ->
  hdr_ebit (e_hdr (last_ev (s_run s))) = false -> a_blocks st = map e_blk (s_run s) ->
  msg_header (e_hdr (last_ev (s_run s))) = a_hdr st ->
  a_expected st = hdr_num (e_hdr (last_ev (s_run s))) + 1 ->
  a_last_time st = e_time (last_ev (s_run s)) -> run_rel st s.
Proof.
  unfold run_rel. destruct (s_run s); [congruence|]. intros. tauto.
Qed.

Ltac fin4 := split; [assumption|split; [assumption|split; assumption]].

Lemma core_sim st s e :
  last_rel st s -> run_rel st s ->
  (s_run s <> [] -> (e_time e - e_time (last_ev (s_run s)) <=? e_t4 e) = true) ->
  let '(st', o) := accept_core st e in
  let '(s', d) := spec_core s e in
  last_rel st' s' /\ run_rel st' s' /\ deliveries_of o = d /\ no_error o.
Proof.
  intros HL HR Hfresh. unfold accept_core, spec_core.
  rewrite (dup_test st s e HL).
  destruct (is_retransmission (s_last s) e) eqn:Dup.
  { split; [assumption|split; [assumption|split; reflexivity]]. }
  destruct (s_run s) as [|a tl] eqn:Run.
  - (* no message in progress *)
    unfold run_rel in HR. rewrite Run in HR. rewrite HR.
    cbn [app].
    pose proof (start_sim st s e true HL) as S.
    destruct (start_message st e true) as [st' o].
    destruct (e4_prefix [e]); cbn zeta in S |- *.
    + destruct (hdr_ebit (e_hdr e)); destruct S as (S1 & S2 & S3); destruct (S1 HR); fin4.
    + destruct S as (S1 & S2 & S3); destruct (S1 HR); fin4.
  - (* a message is in progress *)
    unfold run_rel in HR. rewrite Run in HR.
    destruct HR as (Ho & Hp & He & Hb & Hh & Hx & Ht). rewrite Ho.
    specialize (Hfresh ltac:(discriminate)).
    rewrite e4_prefix_app by discriminate. rewrite Hp. cbn [andb].
    assert (C : continues (last_ev (a :: tl)) e =
                (hdr_num (e_hdr e) =? a_expected st) && mheader_eqb (msg_header (e_hdr e)) (a_hdr st)).
    { unfold continues. rewrite He, Hfresh, Hx, Hh. cbn [negb andb]. rewrite andb_true_r. reflexivity. }
    rewrite C.
    destruct ((hdr_num (e_hdr e) =? a_expected st) && mheader_eqb (msg_header (e_hdr e)) (a_hdr st)) eqn:K.
    + (* the expected block *)
      unfold append_blk. destruct (hdr_ebit (e_hdr e)) eqn:E.
      * unfold complete. cbn [a_blocks]. rewrite Hb.
        assert (A : assemble_frame (map e_blk ((a :: tl) ++ [e])) = Ok (frame_of ((a :: tl) ++ [e]))).
        { apply assemble_run.
          - rewrite e4_prefix_app by discriminate. rewrite Hp, C. reflexivity.
          - rewrite last_ev_app. exact E. }
        rewrite map_app in A. change (map e_blk [e]) with [e_blk e] in A. rewrite A.
        split; [split; reflexivity|split; [reflexivity|split; reflexivity]].
      * split; [split; reflexivity|]. split; [|split; reflexivity].
        apply run_rel_intro; cbn [s_run a_open a_blocks a_hdr a_expected a_last_time]; rewrite ?last_ev_app; try reflexivity; try assumption.
        -- destruct tl; discriminate.
        -- rewrite e4_prefix_app by discriminate. rewrite Hp, C. reflexivity.
        -- rewrite Hb, map_app. reflexivity.
        -- apply andb_true_iff in K as [_ K]. apply mheader_eqb_eq in K. exact K.
    + (* not the expected block: abort, re-evaluate as a first block *)
      assert (HL' : last_rel (reset st) s).
      { unfold last_rel, reset in *. destruct (s_last s); cbn; assumption. }
      pose proof (start_sim (reset st) s e false HL') as S.
      destruct (start_message (reset st) e false) as [st' o].
      destruct (e4_prefix [e]); cbn zeta in S |- *.
      * destruct (hdr_ebit (e_hdr e)); destruct S as (S1 & S2 & S3); destruct (S1 eq_refl); fin4.
      * destruct S as (S1 & S2 & S3); destruct (S1 eq_refl); fin4.
Qed.

Lemma step_sim cfg st s e :
  last_rel st s -> run_rel st s ->
  let '(st', o) := accept cfg st e in
  let '(s', d) := spec_step cfg s e in
  last_rel st' s' /\ run_rel st' s' /\ deliveries_of o = d /\ no_error o.
Proof.
  intros HL HR. unfold accept, spec_step, addressed.
  destruct (hdr_dev (e_hdr e) =? c_dev cfg); cbn [negb andb].
  2:{ cbn. repeat split; assumption. }
  destruct (Bool.eqb (hdr_rbit (e_hdr e)) (c_equip cfg)); cbn [negb].
  { cbn. repeat split; assumption. }
  set (to := a_open st && (e_time e - a_last_time st >? e_t4 e)).
  assert (Hto : to = stale (s_run s) e).
  { unfold to, stale, run_rel in *. destruct (s_run s) as [|a tl].
    - rewrite HR. reflexivity.
    - destruct HR as (Ho & _ & _ & _ & _ & _ & Ht). rewrite Ho, Ht. reflexivity. }
  set (st1 := if to then reset st else st).
  set (s1 := {| s_last := s_last s; s_run := if stale (s_run s) e then [] else s_run s |}).
  assert (HL1 : last_rel st1 s1).
  { unfold st1, s1, last_rel, reset in *. cbn [s_last]. destruct to; destruct (s_last s); cbn; assumption. }
  assert (HR1 : run_rel st1 s1).
  { unfold st1, s1. rewrite <- Hto. destruct to; [reflexivity|]. unfold run_rel in *. cbn [s_run]. exact HR. }
  assert (HF : s_run s1 <> [] -> (e_time e - e_time (last_ev (s_run s1)) <=? e_t4 e) = true).
  { unfold s1. cbn [s_run]. unfold stale. destruct (s_run s) as [|a tl]; [congruence|].
    destruct (e_time e - e_time (last_ev (a :: tl)) >? e_t4 e) eqn:G; [congruence|]. intros _. lia. }
  pose proof (core_sim st1 s1 e HL1 HR1 HF) as S.
  destruct (accept_core st1 e) as [st' o]. destruct (spec_core s1 e) as [s' d].
  destruct S as (S1 & S2 & S3 & S4). repeat split; try assumption.
  - unfold deliveries_of in *. rewrite flat_map_app. rewrite S3. destruct to; reflexivity.
  - unfold no_error in *. rewrite forallb_app, S4. destruct to; reflexivity.
Qed.

Lemma run_sim cfg : forall seq st s,
  last_rel st s -> run_rel st s ->
  flat_map deliveries_of (run_from cfg st seq) = spec_from cfg s seq /\
  Forall no_error (run_from cfg st seq).
Proof.
  induction seq as [|e tl IH]; intros st s HL HR; [split; [reflexivity|constructor]|].
  cbn [run_from spec_from].
  pose proof (step_sim cfg st s e HL HR) as S.
  destruct (accept cfg st e) as [st' o]. destruct (spec_step cfg s e) as [s' d].
  destruct S as (S1 & S2 & S3 & S4). destruct (IH st' s' S1 S2) as [I1 I2].
  cbn [flat_map]. rewrite S3, I1. split; [reflexivity|]. constructor; assumption.
Qed.

Theorem assembler_refines_spec cfg seq : deliveries cfg seq = spec_deliveries cfg seq.
Proof.
  unfold deliveries, spec_deliveries. apply run_sim; reflexivity.
Qed.

Theorem assembler_never_errors cfg seq :
  Forall (fun o => forallb (fun x => negb (is_error x)) o = true) (run_from cfg astate0 seq).
Proof. apply (run_sim cfg seq astate0 sstate0); reflexivity. Qed.

(** ** Exclusions stated directly on the assembler model *)
Lemma not_addressed_ignored cfg st e :
  addressed cfg e = false ->
  fst (accept cfg st e) = st /\ deliveries_of (snd (accept cfg st e)) = [] /\
  forallb (fun x => negb (is_error x)) (snd (accept cfg st e)) = true.
Proof.
  unfold addressed, accept. intros H.
  destruct (hdr_dev (e_hdr e) =? c_dev cfg); cbn [negb andb] in *; [|repeat split; reflexivity].
  destruct (Bool.eqb (hdr_rbit (e_hdr e)) (c_equip cfg)); [repeat split; reflexivity|discriminate].
Qed.

Lemma retransmission_dropped cfg st e :
  a_have_last st = true -> e_hdr e = a_last_hdr st ->
  deliveries_of (snd (accept cfg st e)) = [] /\
  a_last_hdr (fst (accept cfg st e)) = a_last_hdr st /\ a_have_last (fst (accept cfg st e)) = true /\
  (a_open (fst (accept cfg st e)) = true -> fst (accept cfg st e) = st).
Proof.
  intros Hh He. unfold accept.
  destruct (negb (hdr_dev (e_hdr e) =? c_dev cfg)); [cbn; tauto|].
  destruct (Bool.eqb (hdr_rbit (e_hdr e)) (c_equip cfg)); [cbn; tauto|].
  set (to := a_open st && (e_time e - a_last_time st >? e_t4 e)).
  unfold accept_core.
  assert (D : a_have_last (if to then reset st else st) &&
              list_eqb (e_hdr e) (a_last_hdr (if to then reset st else st)) = true).
  { destruct to; cbn [reset a_have_last a_last_hdr]; rewrite Hh, He, list_eqb_refl; reflexivity. }
  rewrite D. cbn [fst snd]. destruct to; cbn; repeat split; try assumption; try reflexivity; discriminate.
Qed.

(** ** Pairwise form => global (property-text) form of a complete message *)
Lemma chain_global : forall tl a, chain a tl = true ->
  forall k, (k <= length tl)%nat ->
    msg_header (e_hdr (nth k (a :: tl) dflt_ev)) = msg_header (e_hdr a) /\
    hdr_num (e_hdr (nth k (a :: tl) dflt_ev)) = hdr_num (e_hdr a) + Z.of_nat k /\
    ((k < length tl)%nat -> hdr_ebit (e_hdr (nth k (a :: tl) dflt_ev)) = false /\
       e_time (nth (S k) (a :: tl) dflt_ev) - e_time (nth k (a :: tl) dflt_ev)
         <= e_t4 (nth (S k) (a :: tl) dflt_ev)).
Proof.
  induction tl as [|b tl IH]; intros a Hc k Hk.
  - cbn in Hk. replace k with 0%nat by lia. cbn. repeat split; try lia.
  - cbn [chain] in Hc. apply andb_true_iff in Hc as [Hab Hc].
    pose proof (continues_header _ _ Hab) as Hh.
    unfold continues in Hab. repeat (apply andb_true_iff in Hab as [Hab ?]).
    destruct k.
    + cbn [nth]. split; [reflexivity|]. split; [lia|]. intros _. split.
      * destruct (hdr_ebit (e_hdr a)); [discriminate|reflexivity].
      * lia.
    + cbn [length] in Hk. destruct (IH b Hc k ltac:(lia)) as (I1 & I2 & I3).
      change (nth (S k) (a :: b :: tl) dflt_ev) with (nth k (b :: tl) dflt_ev).
      split; [congruence|]. split; [lia|]. intros Hlt. cbn [length] in Hlt.
      change (nth (S (S k)) (a :: b :: tl) dflt_ev) with (nth (S k) (b :: tl) dflt_ev).
      apply I3. lia.
Qed.

Lemma last_ev_nth run : run <> [] -> last_ev run = nth (length run - 1) run dflt_ev.
Proof.
  intros H. unfold last_ev. destruct (exists_last H) as (l & x & ->).
  rewrite last_last, app_length. cbn [length].
  replace (length l + 1 - 1)%nat with (length l) by lia.
  rewrite app_nth2 by lia. rewrite Nat.sub_diag. reflexivity.
Qed.

Theorem e4_prefix_global run :
  e4_prefix run = true -> hdr_ebit (e_hdr (last_ev run)) = true -> e4_message run.
Proof.
  destruct run as [|a tl]; [discriminate|]. cbn [e4_prefix]. intros H He.
  apply andb_true_iff in H as [Hv Hc].
  pose proof (chain_global tl a Hc) as G.
  rewrite last_ev_nth in He by discriminate. cbn [length] in He.
  replace (S (length tl) - 1)%nat with (length tl) in He by lia.
  split; [discriminate|]. split.
  - intros k Hk. cbn [length] in Hk. cbn zeta. cbn [hd].
    destruct (G k ltac:(lia)) as (G1 & G2 & G3). split; [exact G1|]. split.
    + destruct (Nat.eqb_spec (S k) (length (a :: tl))) as [E|E]; cbn [length] in E.
      * replace k with (length tl) by lia. exact He.
      * apply G3. lia.
    + unfold valid_first_hdr in Hv. destruct (hdr_num (e_hdr a) =? 1) eqn:N1.
      * left. lia.
      * cbn [orb] in Hv. apply andb_true_iff in Hv as [N0 E0].
        destruct tl as [|b tl].
        -- right. cbn in Hk. replace k with 0%nat by lia. cbn. split; [reflexivity|lia].
        -- cbn [chain] in Hc. unfold continues in Hc. rewrite E0 in Hc. discriminate.
  - intros k Hk. cbn [length] in Hk. apply (G k ltac:(lia)). lia.
Qed.

(** ** Soundness of the E4 reading: every delivery is a complete message taken from the input *)
Inductive subseq {A} : list A -> list A -> Prop :=
| subseq_nil : subseq [] []
| subseq_skip x l1 l2 : subseq l1 l2 -> subseq l1 (x :: l2)
| subseq_take x l1 l2 : subseq l1 l2 -> subseq (x :: l1) (x :: l2).

Lemma subseq_nil_l {A} (l : list A) : subseq [] l.
Proof. induction l; constructor; assumption. Qed.

Lemma subseq_app_one {A} (l1 l2 : list A) x : subseq l1 l2 -> subseq (l1 ++ [x]) (l2 ++ [x]).
Proof.
  induction 1; cbn; [apply subseq_take, subseq_nil|apply subseq_skip; assumption|apply subseq_take; assumption].
Qed.

Lemma subseq_app_skip {A} (l1 l2 : list A) x : subseq l1 l2 -> subseq l1 (l2 ++ [x]).
Proof.
  induction 1; cbn; [apply subseq_skip, subseq_nil|apply subseq_skip; assumption|apply subseq_take; assumption].
Qed.

Lemma subseq_app_r {A} (l1 l2 l3 : list A) : subseq l1 l2 -> subseq l1 (l2 ++ l3).
Proof.
  intros H. induction l3 as [|x l3 IH] using rev_ind; [rewrite app_nil_r; exact H|].
  rewrite app_assoc. apply subseq_app_skip, IH.
Qed.

(** State invariant of the reading: the run in progress is a well-formed, still open message
    prefix made of blocks addressed to us, taken in order from the processed input. *)
Definition sinv (cfg : acfg) (s : sstate) (pre : list ev) : Prop :=
  subseq (s_run s) pre /\ Forall (fun e => addressed cfg e = true) (s_run s) /\
  (s_run s = [] \/ (e4_prefix (s_run s) = true /\ hdr_ebit (e_hdr (last_ev (s_run s))) = false)).

Lemma e4_prefix_single_or_app run e :
  (if e4_prefix (run ++ [e]) then Some (run ++ [e]) else if e4_prefix [e] then Some [e] else None) = None \/
  exists r, (if e4_prefix (run ++ [e]) then Some (run ++ [e]) else if e4_prefix [e] then Some [e] else None) = Some r /\
            e4_prefix r = true /\ (r = run ++ [e] \/ r = [e]).
Proof.
  destruct (e4_prefix (run ++ [e])) eqn:A.
  - right. exists (run ++ [e]). auto.
  - destruct (e4_prefix [e]) eqn:B; [right; exists [e]; auto|left; reflexivity].
Qed.

Lemma spec_step_inv cfg s e pre :
  sinv cfg s pre ->
  sinv cfg (fst (spec_step cfg s e)) (pre ++ [e]) /\
  (forall f, In f (snd (spec_step cfg s e)) ->
     exists run, subseq run (pre ++ [e]) /\ Forall (fun x => addressed cfg x = true) run /\
                 e4_prefix run = true /\ hdr_ebit (e_hdr (last_ev run)) = true /\ f = frame_of run).
Proof.
  intros (I1 & I2 & I3). unfold spec_step.
  destruct (addressed cfg e) eqn:Ad; cbn [negb].
  2:{ cbn [fst snd]. split; [|intros f []]. repeat split; try assumption. apply subseq_app_skip, I1. }
  set (run0 := if stale (s_run s) e then [] else s_run s).
  assert (J1 : subseq run0 pre) by (unfold run0; destruct (stale (s_run s) e); [apply subseq_nil_l|exact I1]).
  assert (J2 : Forall (fun e => addressed cfg e = true) run0) by (unfold run0; destruct (stale (s_run s) e); [constructor|exact I2]).
  assert (J3 : run0 = [] \/ (e4_prefix run0 = true /\ hdr_ebit (e_hdr (last_ev run0)) = false))
    by (unfold run0; destruct (stale (s_run s) e); [left; reflexivity|exact I3]).
  unfold spec_core. cbn [s_last s_run].
  destruct (is_retransmission (s_last s) e).
  { cbn [fst snd]. split; [|intros f []]. repeat split; try assumption. apply subseq_app_skip, J1. }
  destruct (e4_prefix_single_or_app run0 e) as [N|(r & Hr & Pr & Cr)]; rewrite ?N, ?Hr.
  { cbn [fst snd]. split; [|intros f []]. repeat split; [apply subseq_nil_l|constructor|left; reflexivity]. }
  assert (K1 : subseq r (pre ++ [e])).
  { destruct Cr as [->| ->]; [apply subseq_app_one, J1|].
    replace [e] with ([] ++ [e]) by reflexivity. apply subseq_app_one, subseq_nil_l. }
  assert (K2 : Forall (fun x => addressed cfg x = true) r).
  { destruct Cr as [->| ->]; [apply Forall_app; split; [exact J2|]|]; repeat constructor; exact Ad. }
  assert (K3 : last_ev r = e) by (destruct Cr as [->| ->]; [apply last_ev_app|reflexivity]).
  destruct (hdr_ebit (e_hdr e)) eqn:E; cbn [fst snd].
  - split; [repeat split; [apply subseq_nil_l|constructor|left; reflexivity]|].
    intros f [<-|[]]. exists r. rewrite K3. repeat split; assumption.
  - split; [|intros f []]. unfold sinv. cbn [s_run]. split; [exact K1|]. split; [exact K2|].
    right. rewrite K3. split; assumption.
Qed.

Lemma spec_from_sound cfg : forall seq s pre,
  sinv cfg s pre ->
  forall f, In f (spec_from cfg s seq) ->
  exists run, subseq run (pre ++ seq) /\ Forall (fun x => addressed cfg x = true) run /\
              e4_prefix run = true /\ hdr_ebit (e_hdr (last_ev run)) = true /\ f = frame_of run.
Proof.
  induction seq as [|e tl IH]; intros s pre I f Hf; [destruct Hf|].
  cbn [spec_from] in Hf. pose proof (spec_step_inv cfg s e pre I) as [S1 S2].
  destruct (spec_step cfg s e) as [s' d]. cbn [fst snd] in *.
  apply in_app_or in Hf as [Hf|Hf].
  - destruct (S2 f Hf) as (run & R1 & R2). exists run. split; [|exact R2].
    replace (pre ++ e :: tl) with ((pre ++ [e]) ++ tl) by (rewrite <- app_assoc; reflexivity).
    apply subseq_app_r, R1.
  - destruct (IH s' (pre ++ [e]) S1 f Hf) as (run & R1 & R2). exists run. split; [|exact R2].
    rewrite <- app_assoc in R1. exact R1.
Qed.

Theorem deliveries_sound cfg seq f :
  In f (deliveries cfg seq) ->
  exists run, subseq run seq /\ Forall (fun x => addressed cfg x = true) run /\
              e4_message run /\ f = frame_of run.
Proof.
  rewrite assembler_refines_spec. intros H.
  destruct (spec_from_sound cfg seq sstate0 [] ltac:(repeat split; [constructor|constructor|left; reflexivity]) f H)
    as (run & R1 & R2 & R3 & R4 & R5).
  exists run. split; [exact R1|]. split; [exact R2|]. split; [|exact R5].
  apply e4_prefix_global; assumption.
Qed.

(** ** Completeness: a cleanly transmitted message is delivered exactly once, whatever came before

    [interleave cfg p seg run]: the segment [seg] consists of the blocks of [run] in order, with
    any number of blocks NOT addressed to us anywhere, and — after a block of [run] has been sent
    — retransmissions of that block (same header, arriving within T4 of it). *)
Inductive interleave (cfg : acfg) : option ev -> list ev -> list ev -> Prop :=
| il_nil p : interleave cfg p [] []
| il_run p e seg run : interleave cfg (Some e) seg run -> interleave cfg p (e :: seg) (e :: run)
| il_foreign p x seg run :
    addressed cfg x = false -> interleave cfg p seg run -> interleave cfg p (x :: seg) run
| il_dup p x seg run :
    addressed cfg x = true -> e_hdr x = e_hdr p -> e_time x - e_time p <= e_t4 x ->
    interleave cfg (Some p) seg run -> interleave cfg (Some p) (x :: seg) run.

Fixpoint spec_state (cfg : acfg) (s : sstate) (seq : list ev) : sstate :=
  match seq with
  | [] => s
  | e :: tl => spec_state cfg (fst (spec_step cfg s e)) tl
  end.

Lemma spec_from_app cfg : forall a b s,
  spec_from cfg s (a ++ b) = spec_from cfg s a ++ spec_from cfg (spec_state cfg s a) b.
Proof.
  induction a as [|e a IH]; intros b s; [reflexivity|].
  cbn [app spec_from spec_state]. destruct (spec_step cfg s e) as [s' d]. cbn [fst].
  rewrite IH, app_assoc. reflexivity.
Qed.

Lemma sstate_eta s : {| s_last := s_last s; s_run := s_run s |} = s.
Proof. destruct s; reflexivity. Qed.

Lemma list_eqb_neq a b : a <> b -> list_eqb a b = false.
Proof. intros H. destruct (list_eqb a b) eqn:E; [|reflexivity]. apply list_eqb_eq in E. contradiction. Qed.

Lemma spec_after cfg p seg run : interleave cfg p seg run ->
  forall pe s, p = Some pe -> run = [] -> s_last s = Some (e_hdr pe) -> s_run s = [] ->
  spec_from cfg s seg = [].
Proof.
  induction 1 as [p|p e seg run H IH|p x seg run Hx H IH|p x seg run Hx Hh Ht H IH];
    intros pe s Hp Hr Hl Hs; try discriminate.
  - reflexivity.
  - cbn [spec_from]. unfold spec_step. rewrite Hx. cbn [negb]. apply (IH pe); assumption.
  - inversion Hp; subst pe. cbn [spec_from]. unfold spec_step. rewrite Hx. cbn [negb].
    rewrite Hs. cbn [stale]. unfold spec_core. cbn [s_last s_run].
    unfold is_retransmission. rewrite Hl, Hh, list_eqb_refl. cbn [app].
    apply (IH p); try assumption; reflexivity.
Qed.

Lemma e4_prefix_app_l l1 l2 : l1 <> [] -> e4_prefix (l1 ++ l2) = true -> e4_prefix l1 = true.
Proof.
  revert l1. induction l2 as [|x l2 IH] using rev_ind; intros l1 Hn H; [rewrite app_nil_r in H; exact H|].
  rewrite app_assoc in H. rewrite e4_prefix_app in H by (destruct l1; [congruence|discriminate]).
  apply andb_true_iff in H as [H _]. apply IH; assumption.
Qed.

Lemma continues_hdr_neq a b : continues a b = true -> e_hdr b <> e_hdr a.
Proof.
  intros H E. unfold continues in H. rewrite E in H.
  destruct (hdr_num (e_hdr a) =? hdr_num (e_hdr a) + 1) eqn:Q; [lia|].
  rewrite andb_false_r in H. discriminate.
Qed.

Lemma spec_mid cfg p seg rest : interleave cfg p seg rest ->
  forall pe done s, p = Some pe -> rest <> [] ->
  s_last s = Some (e_hdr pe) -> s_run s = done -> done <> [] -> last_ev done = pe ->
  e4_prefix (done ++ rest) = true -> hdr_ebit (e_hdr (last_ev (done ++ rest))) = true ->
  Forall (fun e => addressed cfg e = true) rest ->
  spec_from cfg s seg = [frame_of (done ++ rest)].
Proof.
  induction 1 as [p|p e seg run H IH|p x seg run Hx H IH|p x seg run Hx Hh Ht H IH];
    intros pe done s Hp Hr Hl Hs Hd Hlast Hpre Heb Had.
  - congruence.
  - (* the next block of the message *)
    subst p. inversion Had as [|? ? Hae Had']; subst.
    assert (P1 : e4_prefix (s_run s ++ [e]) = true).
    { apply (e4_prefix_app_l _ run); [destruct (s_run s); discriminate|]. rewrite <- app_assoc. exact Hpre. }
    pose proof P1 as P1'. rewrite e4_prefix_app in P1' by assumption.
    apply andb_true_iff in P1' as [_ C].
    cbn [spec_from]. unfold spec_step. rewrite Hae. cbn [negb].
    assert (St : stale (s_run s) e = false).
    { unfold stale. destruct (s_run s); [reflexivity|]. unfold continues in C.
      repeat (apply andb_true_iff in C as [C ?]). lia. }
    rewrite St. unfold spec_core. cbn [s_last s_run].
    unfold is_retransmission. rewrite Hl. rewrite (list_eqb_neq _ _ (continues_hdr_neq _ _ C)).
    rewrite P1.
    destruct (hdr_ebit (e_hdr e)) eqn:E.
    + (* last block: the message completes; nothing may follow it in [run] *)
      assert (run = []).
      { destruct run as [|b run]; [reflexivity|]. exfalso.
        replace (s_run s ++ e :: b :: run) with ((s_run s ++ [e]) ++ b :: run) in Hpre by (rewrite <- app_assoc; reflexivity).
        assert (P2 : e4_prefix ((s_run s ++ [e]) ++ [b]) = true).
        { apply (e4_prefix_app_l _ run); [destruct (s_run s); discriminate|]. rewrite <- app_assoc. exact Hpre. }
        rewrite e4_prefix_app in P2 by (destruct (s_run s); discriminate).
        apply andb_true_iff in P2 as [_ C2]. rewrite last_ev_app in C2. unfold continues in C2. rewrite E in C2. discriminate. }
      subst run. rewrite (spec_after cfg _ _ _ H e) by reflexivity. reflexivity.
    + assert (run <> []).
      { intros ->. rewrite last_ev_app in Heb. congruence. }
      cbn [app].
      replace (s_run s ++ e :: run) with ((s_run s ++ [e]) ++ run) by (rewrite <- app_assoc; reflexivity).
      apply (IH e (s_run s ++ [e])); try reflexivity; try assumption.
      * destruct (s_run s); discriminate.
      * apply last_ev_app.
      * rewrite <- app_assoc. exact Hpre.
      * rewrite <- app_assoc. exact Heb.
  - cbn [spec_from]. unfold spec_step. rewrite Hx. cbn [negb]. apply (IH pe done); assumption.
  - (* a retransmission of the previous block *)
    injection Hp as Hpe. rewrite <- Hpe in *. clear Hpe.
    cbn [spec_from]. unfold spec_step. rewrite Hx. cbn [negb].
    assert (St : stale (s_run s) x = false).
    { unfold stale. rewrite Hs. destruct done; [congruence|]. rewrite Hlast. lia. }
    rewrite St. unfold spec_core. cbn [s_last s_run].
    unfold is_retransmission. rewrite Hl, Hh, list_eqb_refl. cbn [app].
    apply (IH p done); try assumption; reflexivity.
Qed.

Lemma open_run_num r :
  e4_prefix r = true -> hdr_ebit (e_hdr (last_ev r)) = false -> 1 <= hdr_num (e_hdr (last_ev r)).
Proof.
  destruct r as [|a tl]; [discriminate|]. cbn [e4_prefix]. intros H He.
  apply andb_true_iff in H as [Hv Hc].
  pose proof (chain_global tl a Hc (length tl) (le_n _)) as (_ & G2 & _).
  rewrite last_ev_nth in * by discriminate. cbn [length] in *.
  replace (S (length tl) - 1)%nat with (length tl) in * by lia.
  rewrite G2. unfold valid_first_hdr in Hv.
  destruct (hdr_num (e_hdr a) =? 1) eqn:N1; [lia|]. cbn [orb] in Hv.
  apply andb_true_iff in Hv as [N0 E0].
  destruct tl as [|b tl]; [cbn in He; congruence|].
  cbn [chain] in Hc. unfold continues in Hc. rewrite E0 in Hc. discriminate.
Qed.

Lemma spec_top cfg p seg run : interleave cfg p seg run ->
  forall s, p = None -> run <> [] ->
  (s_run s = [] \/ (e4_prefix (s_run s) = true /\ hdr_ebit (e_hdr (last_ev (s_run s))) = false)) ->
  e4_prefix run = true -> hdr_ebit (e_hdr (last_ev run)) = true ->
  Forall (fun e => addressed cfg e = true) run ->
  is_retransmission (s_last s) (hd dflt_ev run) = false ->
  spec_from cfg s seg = [frame_of run].
Proof.
  induction 1 as [p|p e seg run H IH|p x seg run Hx H IH|p x seg run Hx Hh Ht H IH];
    intros s Hp Hr Hinv Hpre Heb Had Hnr; try discriminate.
  - clear IH. inversion Had as [|? ? Hae Had']; subst. cbn [hd] in Hnr.
    cbn [spec_from]. unfold spec_step. rewrite Hae. cbn [negb].
    set (run0 := if stale (s_run s) e then [] else s_run s).
    assert (J : run0 = [] \/ (e4_prefix run0 = true /\ hdr_ebit (e_hdr (last_ev run0)) = false))
      by (unfold run0; destruct (stale (s_run s) e); [left; reflexivity|exact Hinv]).
    unfold spec_core. cbn [s_last s_run]. rewrite Hnr.
    assert (V : e4_prefix [e] = true).
    { apply (e4_prefix_app_l [e] run); [discriminate|exact Hpre]. }
    assert (Cand : (if e4_prefix (run0 ++ [e]) then Some (run0 ++ [e]) else if e4_prefix [e] then Some [e] else None) = Some [e]).
    { destruct J as [->|[J1 J2]]; [cbn [app]; rewrite V; reflexivity|].
      destruct run0 as [|r0 rl] eqn:R0; [cbn [app]; rewrite V; reflexivity|].
      rewrite e4_prefix_app by discriminate. rewrite J1. cbn [andb].
      assert (C : continues (last_ev (r0 :: rl)) e = false).
      { pose proof (open_run_num _ J1 J2) as N.
        cbn [e4_prefix chain] in V. rewrite andb_true_r in V. unfold valid_first_hdr in V.
        unfold continues. destruct (hdr_num (e_hdr e) =? hdr_num (e_hdr (last_ev (r0 :: rl))) + 1) eqn:Q;
          [|rewrite andb_false_r; reflexivity]. exfalso. lia. }
      rewrite C, V. reflexivity. }
    rewrite Cand.
    destruct (hdr_ebit (e_hdr e)) eqn:E.
    + assert (run = []).
      { destruct run as [|b run]; [reflexivity|]. exfalso.
        assert (P2 : e4_prefix ([e] ++ [b]) = true) by (apply (e4_prefix_app_l _ run); [discriminate|exact Hpre]).
        cbn [app e4_prefix chain] in P2. unfold continues in P2. rewrite E in P2.
        cbn [negb andb] in P2. rewrite andb_false_r in P2. discriminate. }
      subst run. rewrite (spec_after cfg _ _ _ H e) by reflexivity. reflexivity.
    + assert (run <> []) by (intros ->; unfold last_ev in Heb; cbn in Heb; congruence).
      cbn [app]. apply (spec_mid cfg _ _ _ H e [e]); try reflexivity; try assumption. discriminate.
  - cbn [spec_from]. unfold spec_step. rewrite Hx. cbn [negb]. apply IH; assumption.
Qed.

Lemma spec_state_inv cfg : forall seq s pre, sinv cfg s pre -> sinv cfg (spec_state cfg s seq) (pre ++ seq).
Proof.
  induction seq as [|e tl IH]; intros s pre I; [rewrite app_nil_r; exact I|].
  cbn [spec_state]. replace (pre ++ e :: tl) with ((pre ++ [e]) ++ tl) by (rewrite <- app_assoc; reflexivity).
  apply IH. apply spec_step_inv, I.
Qed.

(** The header of the block accepted last while processing [pre] (the duplicate-detection record). *)
Definition last_accepted (cfg : acfg) (pre : list ev) : option (list Z) := s_last (spec_state cfg sstate0 pre).

Theorem clean_transmission_delivered cfg pre seg run :
  interleave cfg None seg run -> e4_prefix run = true -> hdr_ebit (e_hdr (last_ev run)) = true ->
  Forall (fun e => addressed cfg e = true) run ->
  is_retransmission (last_accepted cfg pre) (hd dflt_ev run) = false ->
  deliveries cfg (pre ++ seg) = deliveries cfg pre ++ [frame_of run].
Proof.
  intros Hil Hp He Ha Hn. rewrite !assembler_refines_spec. unfold spec_deliveries.
  rewrite spec_from_app. f_equal.
  assert (I : sinv cfg (spec_state cfg sstate0 pre) ([] ++ pre)).
  { apply spec_state_inv. repeat split; [constructor|constructor|left; reflexivity]. }
  destruct I as (_ & _ & I3).
  apply (spec_top cfg None seg run Hil); try assumption; try reflexivity.
  destruct run; [discriminate|discriminate].
Qed.
