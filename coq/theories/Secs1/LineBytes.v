(** Byte-level justification of the block-transmission fault classes of the line model
    (Secs1/Line.v: [ABlk] = intact, [ABad] = rejected with NAK, nothing = T2 then NAK).

    [recv_bytes l] is receiveBlock applied to the characters [l] that arrive after the receiver's
    EOT before the line falls silent: no character -> T2 -> NAK; a length outside 10..254 ->
    drain -> NAK; fewer than length+2 further characters -> T1 -> NAK; otherwise parseBlock on
    exactly length+2 characters (checksum) -> ACK + block, or drain -> NAK. [None] = NAK. *)
From Coq Require Import ZArith Bool List Lia ZifyBool.
From GoSecs Require Import Secs1.Block Secs1.BlockProofs.
Import ListNotations.
Open Scope Z_scope.

Definition recv_bytes (l : list Z) : option block :=
  match l with
  | [] => None
  | lb :: rest =>
      if (lb <? min_block_length) || (lb >? max_block_length) then None
      else if zlen rest <? lb + checksum_size then None
      else match parse_block lb (firstn (Z.to_nat (lb + checksum_size)) rest) with
           | Ok b => Some b
           | Err _ => None
           end
  end.

Lemma wire_rest_len b : wf_block b -> zlen (wire_rest b) = wire_len b + 2.
Proof.
  intros (Hl & _). unfold wire_rest. rewrite !zlen_app. unfold wire_len, block_header_size, zlen.
  rewrite Hl. cbn [length]. lia.
Qed.

(** An intact transmission is ACK'd with exactly the block sent. *)
Theorem recv_intact b : wf_block b -> recv_bytes (append_block b) = Some b.
Proof.
  intros W. destruct (append_block_shape b W) as [-> R]. unfold recv_bytes.
  unfold min_block_length, max_block_length, checksum_size.
  replace ((wire_len b <? 10) || (wire_len b >? 254)) with false by lia.
  rewrite (wire_rest_len b W). replace (wire_len b + 2 <? wire_len b + 2) with false by lia.
  rewrite firstn_all2 by (pose proof (wire_rest_len b W); unfold zlen in *; lia).
  rewrite (parse_append b W). reflexivity.
Qed.

(** One replaced character of header, body or checksum: NAK. *)
Theorem recv_corrupt b i v :
  wf_block b -> (i < length (wire_rest b))%nat -> byte_ok v -> v <> nth i (wire_rest b) 0 ->
  recv_bytes (wire_len b :: replace_nth i v (wire_rest b)) = None.
Proof.
  intros W Hi Hv Hne. destruct (append_block_shape b W) as [_ R]. unfold recv_bytes.
  unfold min_block_length, max_block_length, checksum_size.
  replace ((wire_len b <? 10) || (wire_len b >? 254)) with false by lia.
  assert (L : zlen (replace_nth i v (wire_rest b)) = wire_len b + 2).
  { unfold zlen. rewrite replace_nth_length by exact Hi. apply (wire_rest_len b W). }
  rewrite L. replace (wire_len b + 2 <? wire_len b + 2) with false by lia.
  rewrite firstn_all2 by (unfold zlen in L; lia).
  rewrite (corrupt_rejected b i v W Hi Hv Hne). reflexivity.
Qed.

(** A truncated transmission (any proper prefix, including nothing at all): NAK. *)
Theorem recv_truncated b n :
  wf_block b -> (n < length (append_block b))%nat -> recv_bytes (firstn n (append_block b)) = None.
Proof.
  intros W Hn. destruct (append_block_shape b W) as [E R]. rewrite E in *.
  destruct n as [|n]; [reflexivity|]. cbn [firstn]. unfold recv_bytes.
  unfold min_block_length, max_block_length, checksum_size.
  replace ((wire_len b <? 10) || (wire_len b >? 254)) with false by lia.
  cbn [length] in Hn. pose proof (wire_rest_len b W) as L. unfold zlen in *.
  rewrite firstn_length.
  replace (Z.of_nat (Nat.min n (length (wire_rest b))) <? wire_len b + 2) with true by lia.
  reflexivity.
Qed.

(** The length character replaced by a larger or an invalid one: NAK. *)
Theorem recv_length_up b lb' :
  wf_block b -> (lb' > wire_len b \/ lb' < 10) ->
  recv_bytes (lb' :: wire_rest b) = None.
Proof.
  intros W H. unfold recv_bytes. unfold min_block_length, max_block_length, checksum_size.
  destruct ((lb' <? 10) || (lb' >? 254)) eqn:Q; [reflexivity|].
  rewrite (wire_rest_len b W). replace (wire_len b + 2 <? lb' + 2) with true by lia. reflexivity.
Qed.

(** The line-control characters of the model as bytes (bridged to the source constants in
    Gen/BridgeSecs1.v). [Noise] stands for every other byte. *)
From GoSecs Require Import Secs1.Line.
Definition ch_code (c : ch) : option Z :=
  match c with ENQ => Some 5 | EOT => Some 4 | ACK => Some 6 | NAK => Some 21 | Noise => None end.
Definition ch_of_byte (b : Z) : ch :=
  if b =? 5 then ENQ else if b =? 4 then EOT else if b =? 6 then ACK else if b =? 21 then NAK else Noise.
