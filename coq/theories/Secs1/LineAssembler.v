(** The receiver of the line model (Secs1/Line.v, [hand]) is the abstract image of the C17
    assembler: for any encoding of abstract blocks (token, index, last) as real blocks whose
    message header is determined injectively by the token and addressed to us, [hand] and the E4
    reading of the assembler ([spec_step], equal to [accept] on deliveries by C17_assembler) move
    in lockstep: same duplicate decisions, same message in progress, a frame is delivered exactly
    when a token is. Times are constant (C18 leaves T4 to C17). *)
From Coq Require Import ZArith Bool List Lia ZifyBool.
From GoSecs Require Import Secs1.Block Secs1.BlockProofs Secs1.Assembler Secs1.AssemblerProofs Secs1.Line.
Import ListNotations.
Open Scope Z_scope.

Section Encoding.
Variable cfg : acfg.
Variable hdr_of_tok : nat -> mheader.
Variable body_of : bid -> list Z.
Hypothesis hdr_wf : forall t, wf_mheader (hdr_of_tok t).
Hypothesis hdr_addr : forall t, h_dev (hdr_of_tok t) = c_dev cfg /\ h_rbit (hdr_of_tok t) = negb (c_equip cfg).
Hypothesis hdr_inj : forall t t', hdr_of_tok t = hdr_of_tok t' -> t = t'.

Definition bnum (b : bid) : Z := Z.of_nat (S (b_idx b)).
Definition bhdr (b : bid) : list Z := build_header (hdr_of_tok (b_tok b)) (bnum b) (b_last b).
Definition enc (b : bid) : ev :=
  {| e_time := 0; e_t4 := 0; e_blk := {| b_hdr := bhdr b; b_body := body_of b |} |}.
Definition small (b : bid) : Prop := Z.of_nat (b_idx b) < 32767.

Lemma bhdr_fields b : small b ->
  msg_header (bhdr b) = hdr_of_tok (b_tok b) /\ hdr_num (bhdr b) = bnum b /\ hdr_ebit (bhdr b) = b_last b.
Proof.
  intros S. unfold bhdr. apply build_header_fields; [apply hdr_wf|]. unfold bnum, small in *. lia.
Qed.

Lemma bhdr_inj a b : small a -> small b -> bhdr a = bhdr b -> a = b.
Proof.
  intros Sa Sb E.
  destruct (bhdr_fields a Sa) as (A1 & A2 & A3). destruct (bhdr_fields b Sb) as (B1 & B2 & B3).
  rewrite E in A1, A2, A3. rewrite A1 in B1. rewrite A2 in B2. rewrite A3 in B3.
  apply hdr_inj in B1. unfold bnum in B2. destruct a, b; cbn in *. f_equal; [congruence|lia|congruence].
Qed.

Lemma enc_addressed b : small b -> addressed cfg (enc b) = true.
Proof.
  intros S. unfold addressed, enc, e_hdr; cbn [e_blk b_hdr].
  destruct (bhdr_fields b S) as (F & _). destruct (hdr_addr (b_tok b)) as [D R].
  assert (Hd : hdr_dev (bhdr b) = c_dev cfg) by (change (hdr_dev (bhdr b)) with (h_dev (msg_header (bhdr b))); rewrite F; exact D).
  assert (Hr : hdr_rbit (bhdr b) = negb (c_equip cfg)) by (change (hdr_rbit (bhdr b)) with (h_rbit (msg_header (bhdr b))); rewrite F; exact R).
  rewrite Hd, Hr, Z.eqb_refl. destruct (c_equip cfg); reflexivity.
Qed.

Lemma enc_dup a b : small a -> small b -> list_eqb (e_hdr (enc b)) (bhdr a) = bid_eqb b a.
Proof.
  intros Sa Sb. unfold e_hdr, enc; cbn [e_blk b_hdr].
  destruct (bid_eqb b a) eqn:Q.
  - assert (b = a).
    { destruct a, b; unfold bid_eqb in Q; cbn in Q. apply andb_true_iff in Q as [Q Q3].
      apply andb_true_iff in Q as [Q1 Q2]. apply Nat.eqb_eq in Q1, Q2. apply eqb_prop in Q3. congruence. }
    subst. apply list_eqb_refl.
  - destruct (list_eqb (bhdr b) (bhdr a)) eqn:L; [|reflexivity].
    apply list_eqb_eq in L. apply bhdr_inj in L; try assumption. subst.
    assert (bid_eqb a a = true).
    { destruct a; unfold bid_eqb; cbn. rewrite !Nat.eqb_refl, eqb_reflx. reflexivity. }
    congruence.
Qed.

Lemma enc_valid_first b : small b -> valid_first_hdr (e_hdr (enc b)) = Nat.eqb (b_idx b) 0.
Proof.
  intros S. unfold valid_first_hdr, e_hdr, enc; cbn [e_blk b_hdr].
  destruct (bhdr_fields b S) as (_ & N & _). rewrite N. unfold bnum.
  destruct (b_idx b); cbn [Nat.eqb]; lia.
Qed.

Lemma enc_continues a b : small a -> small b ->
  continues (enc a) (enc b) =
  negb (b_last a) && Nat.eqb (b_idx b) (S (b_idx a)) && Nat.eqb (b_tok b) (b_tok a).
Proof.
  intros Sa Sb. unfold continues, e_hdr, enc; cbn [e_blk b_hdr e_time e_t4].
  destruct (bhdr_fields a Sa) as (A1 & A2 & A3). destruct (bhdr_fields b Sb) as (B1 & B2 & B3).
  rewrite A1, A2, A3, B1, B2. unfold bnum.
  replace (0 - 0 <=? 0) with true by lia. rewrite andb_true_r.
  f_equal; [f_equal|].
  - destruct (Nat.eqb_spec (b_idx b) (S (b_idx a))); lia.
  - destruct (Nat.eqb_spec (b_tok b) (b_tok a)) as [E|E].
    + rewrite E. apply mheader_eqb_refl.
    + destruct (mheader_eqb (hdr_of_tok (b_tok b)) (hdr_of_tok (b_tok a))) eqn:M; [|reflexivity].
      apply mheader_eqb_eq, hdr_inj in M. contradiction.
Qed.

Definition mkb (t i : nat) (l : bool) : bid := {| b_tok := t; b_idx := i; b_last := l |}.
Definition crun (t k : nat) : list ev := map (fun i => enc (mkb t i false)) (seq 0 k).

Lemma crun_S t k : crun t (S k) = crun t k ++ [enc (mkb t k false)].
Proof. unfold crun. rewrite seq_S, map_app. reflexivity. Qed.

Lemma crun_last t k : last_ev (crun t (S k)) = enc (mkb t k false).
Proof. rewrite crun_S. apply last_ev_app. Qed.

Lemma crun_prefix t : forall k, Z.of_nat k < 32767 -> e4_prefix (crun t (S k)) = true.
Proof.
  induction k as [|k IH]; intros Hk.
  - cbn [crun seq map e4_prefix chain]. rewrite andb_true_r. rewrite enc_valid_first by (unfold small; cbn; lia). reflexivity.
  - rewrite crun_S. rewrite e4_prefix_app by (rewrite crun_S; destruct (crun t k); discriminate).
    rewrite IH by lia. rewrite crun_last.
    rewrite enc_continues by (unfold small; cbn; lia). cbn. rewrite !Nat.eqb_refl. reflexivity.
Qed.

(** The abstraction relation between the line model's receiver data and the E4 reading's state. *)
Definition abs_rel (e : endst) (s : sstate) : Prop :=
  match e_last e with
  | None => s_last s = None
  | Some l => small l /\ s_last s = Some (bhdr l)
  end /\
  match e_open e with
  | None => s_run s = []
  | Some (t, k) => (1 <= Z.of_nat k <= 32767) /\ s_run s = crun t k
  end.

Theorem hand_is_assembler e s b :
  abs_rel e s -> small b ->
  let e' := hand e b in
  let '(s', d) := spec_step cfg s (enc b) in
  abs_rel e' s' /\
  ((d = [] /\ e_deliv e' = e_deliv e) \/
   (exists run, d = [frame_of run] /\ last_ev run = enc b /\ e_deliv e' = e_deliv e ++ [b_tok b])).
Proof.
  intros [RL RO] Sb. cbv zeta. unfold spec_step. rewrite (enc_addressed b Sb). cbn [negb].
  assert (NS : stale (s_run s) (enc b) = false).
  { unfold stale. destruct (e_open e) as [[t k]|].
    - destruct RO as [Hk ->]. destruct k as [|k]; [lia|].
      destruct (crun t (S k)) eqn:Q; [reflexivity|]. rewrite <- Q, crun_last. cbn [enc e_time e_t4]. lia.
    - rewrite RO. reflexivity. }
  rewrite NS. unfold spec_core. cbn [s_last s_run]. unfold hand.
  (* duplicate decision *)
  assert (DUP : is_retransmission (s_last s) (enc b) =
                match e_last e with Some l => bid_eqb b l | None => false end).
  { destruct (e_last e) as [l|]; [destruct RL as [Sl ->]|rewrite RL; reflexivity].
    cbn [is_retransmission]. apply enc_dup; assumption. }
  rewrite DUP.
  destruct (match e_last e with Some l => bid_eqb b l | None => false end) eqn:D.
  { split; [split; cbn; assumption|]. left. split; reflexivity. }
  (* candidate run *)
  assert (CAND : (if e4_prefix (s_run s ++ [enc b]) then Some (s_run s ++ [enc b])
                  else if e4_prefix [enc b] then Some [enc b] else None) =
                 let continues := match e_open e with
                                  | Some (t, n) => Nat.eqb (b_tok b) t && Nat.eqb (b_idx b) n
                                  | None => false
                                  end in
                 if continues then Some (s_run s ++ [enc b])
                 else if Nat.eqb (b_idx b) 0 then Some [enc b] else None).
  { cbv zeta. assert (V : e4_prefix [enc b] = Nat.eqb (b_idx b) 0).
    { cbn [e4_prefix chain]. rewrite andb_true_r. apply enc_valid_first, Sb. }
    destruct (e_open e) as [[t k]|].
    - destruct RO as [Hk ->]. destruct k as [|k]; [lia|].
      rewrite e4_prefix_app by (rewrite crun_S; destruct (crun t k); discriminate).
      rewrite crun_prefix by lia. rewrite crun_last. cbn [andb].
      rewrite enc_continues by (try assumption; unfold small; cbn; lia). cbn [mkb b_last b_idx b_tok negb andb].
      rewrite V. rewrite (andb_comm (Nat.eqb (b_idx b) (S k))). reflexivity.
    - rewrite RO. cbn [app]. rewrite V. destruct (Nat.eqb (b_idx b) 0); reflexivity. }
  rewrite CAND. cbv zeta.
  assert (EB : hdr_ebit (e_hdr (enc b)) = b_last b) by (apply (bhdr_fields b Sb)).
  destruct (match e_open e with
            | Some (t, n) => Nat.eqb (b_tok b) t && Nat.eqb (b_idx b) n
            | None => false
            end) eqn:C.
  - (* continues the message in progress *)
    destruct (e_open e) as [[t k]|] eqn:O; [|discriminate].
    apply andb_true_iff in C as [C1 C2]. apply Nat.eqb_eq in C1, C2.
    destruct RO as [Hk RO]. cbn [orb]. rewrite EB.
    destruct (b_last b) eqn:L.
    + split; [split; cbn; [split; [exact Sb|reflexivity]|reflexivity]|].
      right. exists (s_run s ++ [enc b]). split; [reflexivity|]. split; [apply last_ev_app|]. cbn. reflexivity.
    + split.
      * split; cbn [e_last e_open s_last s_run]; [split; [exact Sb|reflexivity]|].
        unfold small in Sb. split; [lia|]. rewrite RO.
        destruct b as [bt bi bl]; cbn [b_tok b_idx b_last] in *. subst bl bt bi. rewrite crun_S. reflexivity.
      * left. split; reflexivity.
  - (* not the expected block *)
    destruct (Nat.eqb (b_idx b) 0) eqn:Z.
    + cbn [orb]. rewrite EB. apply Nat.eqb_eq in Z.
      destruct (b_last b) eqn:L.
      * split; [split; cbn; [split; [exact Sb|reflexivity]|reflexivity]|].
        right. exists [enc b]. split; [reflexivity|]. split; [reflexivity|]. cbn. reflexivity.
      * split.
        -- split; cbn [e_last e_open s_last s_run]; [split; [exact Sb|reflexivity]|].
           split; [lia|]. destruct b as [bt bi bl]; cbn [b_tok b_idx b_last] in *. subst bi bl. reflexivity.
        -- left. split; reflexivity.
    + cbn [orb andb]. split; [split; cbn [e_last e_open s_last s_run]; [exact RL|reflexivity]|].
      left. split; reflexivity.
Qed.

End Encoding.
