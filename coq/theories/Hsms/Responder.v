(** Model of the HSMS-SS responder: what the library does with each frame a peer sends on an
    established link (hsmsss/transport_recv.go dispatchFrame, transport_control.go,
    transport_active.go runSelectProcedure, hsms/connection_runtime.go DeliverOwnedFrame /
    checkSessionID / RouteReply, hsms/control_msg.go factories).

    [respond] follows the control flow of the code, branch by branch and in the code's order:

      dispatchFrame:   pType != 0 || !IsValidSType(sType)        -> sendReject
                       msgType != Data && len(frame) != 10        -> sendReject
                       switch msgType
                         Data:        State() != Selected         -> sendRejectNotSelected
                                      else DeliverOwnedFrame      (checkSessionID, RouteReply, RouteData)
                         *.rsp / Reject.req:  RouteReply hit      -> waiter completes (H2 commit on Select.rsp 0)
                                              miss                -> sendRejectTransactionNotOpen unless Reject.req
                         Select/Deselect/Linktest.req             -> handleControlReq
                         Separate.req                             -> handleSeparateReq

    The state is what those branches read and write: the logical Selected flag (supervisor
    state), the system bytes of the control transactions this side has open (the reply registry;
    on an HSMS-SS link with the auto-linktest off the only control transaction the library ever
    opens is the active side's Select.req), and the system-bytes counter (sysBytesGen).

    Atomicity: one frame = one step. The recv goroutine is sequential, CommitSelected /
    CommitSelectLost are synchronous on it, the async sender is FIFO. A transaction is closed in
    the step in which its response is routed (the waiter's deferred deregister runs on another
    goroutine shortly after; the e2e harness fences it with a probe). *)
From Coq Require Import ZArith Bool List Lia.
Import ListNotations.
Open Scope Z_scope.

(** * Frames *)

Record frame := {
  f_sid : Z;          (* header bytes 0-1, big endian *)
  f_b2 : Z;           (* header byte 2: W-bit + stream, or the reject type byte *)
  f_b3 : Z;           (* header byte 3: function, or status / reason *)
  f_pt : Z;           (* PType *)
  f_st : Z;           (* SType *)
  f_sys : Z;          (* system bytes, big endian *)
  f_body : list Z     (* bytes after the 10-byte header *)
}.

Definition byte_ok (b : Z) : Prop := 0 <= b < 256.
Definition frame_ok (f : frame) : Prop :=
  0 <= f_sid f < 65536 /\ byte_ok (f_b2 f) /\ byte_ok (f_b3 f) /\ byte_ok (f_pt f) /\
  byte_ok (f_st f) /\ 0 <= f_sys f < 4294967296 /\ Forall byte_ok (f_body f).

Definition header_bytes (f : frame) : list Z :=
  [f_sid f / 256; f_sid f mod 256; f_b2 f; f_b3 f; f_pt f; f_st f;
   f_sys f / 16777216; (f_sys f / 65536) mod 256; (f_sys f / 256) mod 256; f_sys f mod 256].

(** header || body: the bytes on the wire after the 4-byte length prefix *)
Definition wire (f : frame) : list Z := header_bytes f ++ f_body f.

Definition has_body (f : frame) : bool := match f_body f with [] => false | _ => true end.

(** * Constants (bridged to the regenerated [Gen.hsms] values in Gen/BridgeResponder.v) *)

Definition st_data : Z := 0.
Definition st_select_req : Z := 1.
Definition st_select_rsp : Z := 2.
Definition st_deselect_req : Z := 3.
Definition st_deselect_rsp : Z := 4.
Definition st_linktest_req : Z := 5.
Definition st_linktest_rsp : Z := 6.
Definition st_reject_req : Z := 7.
Definition st_separate_req : Z := 9.

Definition select_ok : Z := 0.
Definition select_already : Z := 1.
Definition deselect_ok : Z := 0.
Definition deselect_not_established : Z := 1.

Definition reason_stype : Z := 1.
Definition reason_ptype : Z := 2.
Definition reason_txn_not_open : Z := 3.
Definition reason_not_selected : Z := 4.

(** hsms.IsValidSType: 0..7 and 9 *)
Definition valid_stype (b : Z) : bool :=
  (b =? 0) || (b =? 1) || (b =? 2) || (b =? 3) || (b =? 4) || (b =? 5) || (b =? 6) || (b =? 7) || (b =? 9).

(** * Configuration, state, results *)

Record cfg := {
  c_active : bool;    (* active (dials, initiates Select) / passive *)
  c_sid : Z;          (* configured session id *)
  c_validate : bool;  (* WithSessionIDValidation *)
  c_equip : bool      (* equipment / host role (WithAutoS9F9): read by no responder branch *)
}.

Record rstate := {
  selected : bool;    (* supervisor state = Selected *)
  opens : list Z;     (* system bytes with a registered waiter *)
  ctr : Z             (* last value handed out by sysBytesGen *)
}.

Inductive effect := Keep | Down.

Inductive out :=
| Send (f : frame)      (* a frame queued for the peer (rt.SendAsync), in order *)
| Deliver (f : frame).  (* the frame handed to the session's data handlers *)

Definition set_selected (s : rstate) (b : bool) : rstate :=
  {| selected := b; opens := opens s; ctr := ctr s |}.

Fixpoint mem (x : Z) (l : list Z) : bool :=
  match l with [] => false | y :: r => (x =? y) || mem x r end.

Fixpoint remove (x : Z) (l : list Z) : list Z :=
  match l with [] => [] | y :: r => if x =? y then remove x r else y :: remove x r end.

Definition close_txn (s : rstate) (sys : Z) : rstate :=
  {| selected := selected s; opens := remove sys (opens s); ctr := ctr s |}.

Definition next_sys (n : Z) : Z := (n + 1) mod 4294967296.

(** * Frame constructors (hsms/control_msg.go) *)

Definition ctrl (sid b2 b3 st sys : Z) : frame :=
  {| f_sid := sid; f_b2 := b2; f_b3 := b3; f_pt := 0; f_st := st; f_sys := sys; f_body := [] |}.

(** NewRejectReqRaw: byte 2 is the PType for reason 2, the SType otherwise *)
Definition reject_raw (sid pt st sys reason : Z) : frame :=
  ctrl sid (if reason =? reason_ptype then pt else st) reason st_reject_req sys.

(** NewSelectRsp / NewDeselectRsp: session id and system bytes copied from the request *)
Definition select_rsp (req : frame) (status : Z) : frame :=
  ctrl (f_sid req) 0 status st_select_rsp (f_sys req).
Definition deselect_rsp (req : frame) (status : Z) : frame :=
  ctrl (f_sid req) 0 status st_deselect_rsp (f_sys req).
(** NewLinktestRsp: session id fixed at 0xFFFF *)
Definition linktest_rsp (req : frame) : frame :=
  ctrl 65535 0 0 st_linktest_rsp (f_sys req).
(** NewSelectReq *)
Definition select_req (sid sys : Z) : frame := ctrl sid 0 0 st_select_req sys.

(** checkSessionID's S9F1: own session id, fresh system bytes, body <B mhead> *)
Definition s9f1 (own_sid sys : Z) (offending : frame) : frame :=
  {| f_sid := own_sid; f_b2 := 9; f_b3 := 1; f_pt := 0; f_st := st_data; f_sys := sys;
     f_body := 33 :: 10 :: header_bytes offending |}.

(** * The responder *)

(** transport.sendReject *)
Definition send_reject (f : frame) : frame :=
  let reason := if negb (f_pt f =? 0) then reason_ptype else reason_stype in
  reject_raw (f_sid f) (f_pt f) (f_st f) (f_sys f) reason.

Definition is_s9f1 (f : frame) : bool := (f_b2 f mod 128 =? 9) && (f_b3 f =? 1).
(** isSecondaryReply: W-bit clear and even function *)
Definition is_secondary (f : frame) : bool := (f_b2 f <? 128) && (f_b3 f mod 2 =? 0).

(** hsms.connection.DeliverOwnedFrame, reached only while Selected *)
Definition deliver_owned (c : cfg) (s : rstate) (f : frame) : rstate * list out * effect :=
  if c_validate c && negb (is_s9f1 f || (f_sid f =? c_sid c)) then
    let n := next_sys (ctr s) in
    ({| selected := selected s; opens := opens s; ctr := n |}, [Send (s9f1 (c_sid c) n f)], Keep)
  else if is_secondary f && mem (f_sys f) (opens s) then
    (* the data message is handed to the waiter of a CONTROL transaction (the only kind in this
       model): runSelectProcedure sees a non-Select.rsp answer and calls TCPDown *)
    (close_txn s (f_sys f), [], Down)
  else (s, [Deliver f], Keep).

(** the response-routing case of dispatchFrame + the waiter's reaction (runSelectProcedure) *)
Definition on_response (s : rstate) (f : frame) : rstate * list out * effect :=
  if mem (f_sys f) (opens s) then
    let s1 := close_txn s (f_sys f) in
    if f_st f =? st_select_rsp then
      if f_b3 f =? select_ok then (set_selected s1 true, [], Keep)
      else if f_b3 f =? select_already then (s1, [], Keep)
      else (s1, [], Down)
    else (s1, [], Down)
  else if f_st f =? st_reject_req then (s, [], Keep)
  else (s, [Send (reject_raw (f_sid f) 0 (f_st f) (f_sys f) reason_txn_not_open)], Keep).

(** handleSelectReq: CommitSelected (CAS) first, then the rsp *)
Definition on_select_req (s : rstate) (f : frame) : rstate * list out * effect :=
  let status := if selected s then select_already else select_ok in
  (set_selected s true, [Send (select_rsp f status)], Keep).

(** handleDeselectReq *)
Definition on_deselect_req (s : rstate) (f : frame) : rstate * list out * effect :=
  let status := if selected s then deselect_ok else deselect_not_established in
  (if status =? deselect_ok then set_selected s false else s, [Send (deselect_rsp f status)], Keep).

Definition on_linktest_req (s : rstate) (f : frame) : rstate * list out * effect :=
  (s, [Send (linktest_rsp f)], Keep).

(** handleSeparateReq *)
Definition on_separate_req (s : rstate) : rstate * list out * effect :=
  if selected s then (s, [], Down) else (s, [], Keep).

Definition respond (c : cfg) (s : rstate) (f : frame) : rstate * list out * effect :=
  if negb (f_pt f =? 0) || negb (valid_stype (f_st f)) then (s, [Send (send_reject f)], Keep)
  else if negb (f_st f =? st_data) && has_body f then (s, [Send (send_reject f)], Keep)
  else if f_st f =? st_data then
    if negb (selected s) then
      (s, [Send (reject_raw (f_sid f) 0 0 (f_sys f) reason_not_selected)], Keep)
    else deliver_owned c s f
  else if (f_st f =? st_select_rsp) || (f_st f =? st_deselect_rsp) || (f_st f =? st_linktest_rsp)
          || (f_st f =? st_reject_req) then on_response s f
  else if f_st f =? st_select_req then on_select_req s f
  else if f_st f =? st_linktest_req then on_linktest_req s f
  else if f_st f =? st_deselect_req then on_deselect_req s f
  else if f_st f =? st_separate_req then on_separate_req s
  else (s, [], Keep).   (* unreachable: valid_stype *)

(** * Link start and runs *)

(** TCPUp commits NotSelected; the active side then sends Select.req with fresh system bytes and
    waits (T6) with a registered waiter; the passive side sends nothing. [ctr0] is the counter
    value the connection object carries into this TCP generation. *)
Definition start (c : cfg) (ctr0 : Z) : rstate * list out :=
  if c_active c then
    let n := next_sys ctr0 in
    ({| selected := false; opens := [n]; ctr := n |}, [Send (select_req (c_sid c) n)])
  else ({| selected := false; opens := []; ctr := ctr0 |}, []).

Record step_obs := {
  so_frame : frame; so_outs : list out; so_eff : effect; so_state : rstate
}.

(** The link ends at the first [Down]: later frames reach nobody. *)
Fixpoint run (c : cfg) (s : rstate) (fs : list frame) : list step_obs :=
  match fs with
  | [] => []
  | f :: r =>
    let '(s', o, e) := respond c s f in
    {| so_frame := f; so_outs := o; so_eff := e; so_state := s' |} ::
    match e with Keep => run c s' r | Down => [] end
  end.

Definition outputs (c : cfg) (s : rstate) (fs : list frame) : list out :=
  flat_map so_outs (run c s fs).

(** everything the peer and the application see on one TCP generation *)
Definition link_outputs (c : cfg) (ctr0 : Z) (fs : list frame) : list out :=
  snd (start c ctr0) ++ outputs c (fst (start c ctr0)) fs.

Definition sent_frames (os : list out) : list frame :=
  flat_map (fun o => match o with Send f => [f] | Deliver _ => [] end) os.

(** * Passive endpoint: one session at a time (transport_passive.go acceptLoop) *)

Inductive pevent :=
| PAccept (k : Z)                (* a peer connects; k identifies the TCP connection *)
| PFrame (k : Z) (f : frame).    (* a frame written by the peer on connection k *)

Inductive pout :=
| PAdopted (k : Z)               (* first connection: TCPUp + recv loop *)
| PRefused (k : Z)               (* later connection: accepted and closed at once *)
| POut (k : Z) (o : out)         (* responder output on the live connection *)
| PDown (k : Z).                 (* the live connection ended *)

Record pstate := { live : option Z; ended : bool; rs : rstate }.

Definition pstart (ctr0 : Z) : pstate :=
  {| live := None; ended := false; rs := {| selected := false; opens := []; ctr := ctr0 |} |}.

(** One listener generation: the first accept is adopted, every later one refused; frames are
    only ever read from the adopted connection, and only until it ends. *)
Definition pstep (c : cfg) (p : pstate) (e : pevent) : pstate * list pout :=
  match e with
  | PAccept k =>
    match live p with
    | None => ({| live := Some k; ended := false; rs := rs p |}, [PAdopted k])
    | Some _ => (p, [PRefused k])
    end
  | PFrame k f =>
    match live p with
    | Some k0 =>
      if (k =? k0) && negb (ended p) then
        let '(s', o, e) := respond c (rs p) f in
        ({| live := live p; ended := match e with Down => true | Keep => false end; rs := s' |},
         map (POut k) o ++ match e with Down => [PDown k] | Keep => [] end)
      else (p, [])
    | None => (p, [])
    end
  end.

Fixpoint prun (c : cfg) (p : pstate) (es : list pevent) : list pout :=
  match es with
  | [] => []
  | e :: r => let '(p', o) := pstep c p e in o ++ prun c p' r
  end.
