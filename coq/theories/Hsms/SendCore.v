(** SendCore — executable LTS of the HSMS send core and receive dispatcher (kind R model).

    Source read (pinned tree): hsms/connection_send.go (sendWaitReply, sendNoReply, SendAsync,
    writeFrame, drainSendCh), hsms/connection_runtime.go (DeliverOwnedFrame, isSecondaryReply,
    RouteReply, RouteData), hsms/reply_registry.go, hsms/session.go (Send*/Forward*/Reply*,
    recvDataMsg), hsms/sysbytes.go, hsmsss/transport_recv.go (dispatchFrame),
    hsmsss/transport_control.go (responders, rejects).  Atomic actions: DESIGN.md Appendix A.2.

    One LTS action = one atomic step of the code:
      AStart      session-level entry: build the message; library entry points draw system bytes
      AStep id c  one step of call [id]: Enter (cur.Load) / B1 gate (one read of st) / Register /
                  write-boundary check under writeMu (conn, ctx, B2 read of st) / Write ok|fail /
                  Complete via {registry channel, timer, generation ctx, caller ctx} / Exit
                  (deferred deregister) / Enqueue on the async queue
      ACancel     the caller's ctx is cancelled
      ADrain ok   the per-generation sender pops one request and runs writeFrame on it
      APeer f     the peer writes one complete frame
      ADispatch   the recv goroutine takes the next frame through dispatchFrame
      ATick d     time passes
      ANewGen / AConnUp / ASupDown / ATeardown / AFault   lifecycle environment (over-approximated:
                  enabled whenever structurally possible; the Lifecycle model restricts them)
      ABarrier / ACond / AMetric   harness observation points (quiescence, declared condition,
                  drop-counter snapshot)

    Abstractions (sound for safety = supersets of behaviours): writeMu is not modelled (check and
    write of different calls may interleave more freely than in the code); the async queue is
    unbounded (a full queue only blocks); Dispatch is one step (the recv goroutine is sequential
    and its intermediate states are not observable through the log); session-id validation,
    decode-error handlers, autoS9F9 and channel handlers are off (defaults).  Three step functions:
    the ORIGINAL one ([fx = false], [DW p = false]); the FIRST repair af6ced9 ([fx = true],
    [DW p = false]: the sender ignores a routed control response); the CURRENT one ([fx = true],
    [DW p = true]: in addition the registry refuses non-data, non-error results for data
    transactions, fixes/C06-ctrl-rsp-shadows-reply.diff). *)
From Coq Require Import ZArith Bool List Lia.
Import ListNotations.
Open Scope Z_scope.

(** * Frames (header fields + body bytes) *)
Record frame := mkF {
  f_sid : Z;          (* header bytes 0-1 *)
  f_b2 : Z;           (* header byte 2: W-bit|stream for data, echoed SType/PType for Reject *)
  f_b3 : Z;           (* header byte 3: function for data, status / reason for control *)
  f_pt : Z;           (* PType *)
  f_st : Z;           (* SType *)
  f_sys : Z;          (* system bytes as uint32 *)
  f_body : list Z     (* body bytes *)
}.

Fixpoint zlist_eqb (a b : list Z) : bool :=
  match a, b with
  | [], [] => true
  | x :: a', y :: b' => (x =? y) && zlist_eqb a' b'
  | _, _ => false
  end.

Definition frame_eqb (a b : frame) : bool :=
  (f_sid a =? f_sid b) && (f_b2 a =? f_b2 b) && (f_b3 a =? f_b3 b) && (f_pt a =? f_pt b) &&
  (f_st a =? f_st b) && (f_sys a =? f_sys b) && zlist_eqb (f_body a) (f_body b).

Definition wbit (f : frame) : bool := 128 <=? f_b2 f.
Definition is_dataframe (f : frame) : bool := (f_pt f =? 0) && (f_st f =? 0).
(* hsms/connection_runtime.go isSecondaryReply: !W && function%2 == 0 *)
Definition is_secondary (f : frame) : bool := negb (wbit f) && Z.even (f_b3 f).
(* hsms/message.go IsValidSType (bridged to Gen.hsms.IsValidSType in Gen/BridgeSendCore.v) *)
Definition valid_stype (s : Z) : bool :=
  (s =? 0) || (s =? 1) || (s =? 2) || (s =? 3) || (s =? 4) || (s =? 5) || (s =? 6) || (s =? 7) || (s =? 9).

(* hsms/control_msg.go NewRejectReqRaw / NewSelectRsp / NewDeselectRsp / NewLinktestRsp *)
Definition mk_reject (sid pt st sys reason : Z) : frame :=
  mkF sid (if reason =? 2 then pt else st) reason 0 7 sys [].
Definition reject_unsupported (f : frame) : frame :=
  mk_reject (f_sid f) (f_pt f) (f_st f) (f_sys f) (if f_pt f =? 0 then 1 else 2).
Definition reject_not_selected (f : frame) : frame := mk_reject (f_sid f) 0 0 (f_sys f) 4.
Definition reject_not_open (f : frame) : frame := mk_reject (f_sid f) 0 (f_st f) (f_sys f) 3.
Definition select_rsp (req : frame) (status : Z) : frame := mkF (f_sid req) 0 status 0 2 (f_sys req) [].
Definition deselect_rsp (req : frame) (status : Z) : frame := mkF (f_sid req) 0 status 0 4 (f_sys req) [].
Definition linktest_rsp (req : frame) : frame := mkF 65535 0 0 0 6 (f_sys req) [].

(** * Connection state, call kinds, results *)
Inductive cstate := NC | NS | SEL.
Definition cstate_eqb (a b : cstate) : bool :=
  match a, b with NC, NC | NS, NS | SEL, SEL => true | _, _ => false end.

Inductive kind :=
  | KSync          (* SendDataMessage / SendSECS2Message -> sendWaitReply, library system bytes *)
  | KAsync         (* SendDataMessageAsync -> SendAsync, library system bytes *)
  | KReply         (* ReplyDataMessage -> SendAsync, the primary's system bytes *)
  | KForward       (* ForwardDataMessage -> sendNoReply, caller's system bytes *)
  | KForwardAsync  (* ForwardDataMessageAsync -> SendAsync, caller's system bytes *)
  | KCtl.          (* control transaction (Select.req, Linktest.req) -> sendWaitReply, T6 *)
Definition kind_eqb (a b : kind) : bool :=
  match a, b with
  | KSync, KSync | KAsync, KAsync | KReply, KReply | KForward, KForward
  | KForwardAsync, KForwardAsync | KCtl, KCtl => true
  | _, _ => false
  end.

Inductive result :=
  | ROk (reply : option (Z * frame))  (* nil error; Some (serial, frame) = a *DataMessage reply *)
  | RRejected (reason : Z)
  | RT3 | RT6 | RConnClosed | RCtxErr | RNotSelected | RNotOpen | RWriteErr.

(* what the receiver put into a waiter's channel *)
Inductive cres := CMsg (n : Z) (f : frame) | CRej (reason : Z).

Inductive pc :=
  | PEnter | PGate | PReg | PCheck | PWrite | PWait | PEnq
  | PExit (r : result)     (* result fixed, deferred deregister still to run *)
  | PDone (r : result).

Record call := mkCall {
  c_id : Z; c_kind : kind; c_msg : frame; c_gen : Z; c_pc : pc;
  c_chan : option cres; c_ctx : bool; c_t0 : Z
}.

Definition set_pc (c : call) (p : pc) : call :=
  mkCall (c_id c) (c_kind c) (c_msg c) (c_gen c) p (c_chan c) (c_ctx c) (c_t0 c).
Definition set_gen (c : call) (g : Z) : call :=
  mkCall (c_id c) (c_kind c) (c_msg c) g (c_pc c) (c_chan c) (c_ctx c) (c_t0 c).
Definition set_chan (c : call) (ch : option cres) : call :=
  mkCall (c_id c) (c_kind c) (c_msg c) (c_gen c) (c_pc c) ch (c_ctx c) (c_t0 c).
Definition set_ctx (c : call) (b : bool) : call :=
  mkCall (c_id c) (c_kind c) (c_msg c) (c_gen c) (c_pc c) (c_chan c) b (c_t0 c).
Definition set_t0 (c : call) (t : Z) : call :=
  mkCall (c_id c) (c_kind c) (c_msg c) (c_gen c) (c_pc c) (c_chan c) (c_ctx c) t.

Fixpoint get (id : Z) (cs : list call) : option call :=
  match cs with
  | [] => None
  | c :: r => if c_id c =? id then Some c else get id r
  end.
Fixpoint put (c : call) (cs : list call) : list call :=
  match cs with
  | [] => []
  | d :: r => if c_id d =? c_id c then c :: r else d :: put c r
  end.

(** Registry: per-generation map system bytes -> waiting call (xsync.MapOf; Store overwrites,
    Delete removes the key whoever stored it). *)
Definition regent := (Z * Z * Z)%type.   (* generation, key, call id *)
Definition reg_match (g k : Z) (e : regent) : bool := (fst (fst e) =? g) && (snd (fst e) =? k).
Fixpoint reg_get (g k : Z) (r : list regent) : option Z :=
  match r with
  | [] => None
  | e :: r' => if reg_match g k e then Some (snd e) else reg_get g k r'
  end.
Definition reg_del (g k : Z) (r : list regent) : list regent := filter (fun e => negb (reg_match g k e)) r.
Definition reg_put (g k id : Z) (r : list regent) : list regent := (g, k, id) :: reg_del g k r.

(** * Observables (DESIGN.md Appendix B) *)
Inductive obs :=
  | OStart (id : Z) (k : kind) (f : frame)       (* the message as built (system bytes included) *)
  | ORet (id : Z) (r : result) (elapsed : Z)     (* elapsed since the primary was written (0 if never) *)
  | OPeerRecv (g origin : Z) (f : frame)         (* a frame reached socket g; origin = call id, -1 = internal *)
  | OPeerSent (n : Z) (f : frame)                (* the peer's n-th frame *)
  | OHandler (h n : Z)                           (* handler h invoked with the peer's n-th frame *)
  | OAsyncErr (origin : Z) (r : result)          (* async sender could not write a queued frame *)
  | OBarrier                                     (* quiescence: every frame sent so far was dispatched and answered *)
  | OCond (s : cstate) (opened : bool)           (* declared stable condition (quiescent point) *)
  | OMetric (drops : Z)                          (* DataMsgDropNotSelectedCount snapshot *)
  | OGenUp (g : Z)                               (* TCP up for generation g *)
  | OGenDown (g : Z).                            (* drop / teardown / fault of generation g began *)

(* timers, number of registered handlers, and DW: data transactions register data-only (the
   registry hands them only data messages and errors; fix "a control response reusing an open data
   transaction's system bytes no longer occupies the sender's reply slot") *)
Record cfg := mkCfg { T3 : Z; T6 : Z; NH : Z; DW : bool }.

Record state := mkS {
  st : cstate; opened : bool; gen : Z; sock : bool; gcancel : bool; fault : bool;
  calls : list call; reg : list regent;
  ctr : Z;                      (* system-bytes counter (unbounded ghost; key = ctr mod 2^32) *)
  drops : Z;                    (* DataMsgDropNotSelectedCount *)
  sendq : list (Z * frame);     (* async queue of the current generation: (origin, frame) *)
  inq : list (Z * frame);       (* frames written by the peer, not yet dispatched: (serial, frame) *)
  nsent : Z; now : Z;
  sent : list (Z * frame)       (* ghost: everything the peer ever wrote, newest first *)
}.

Definition init (ctr0 : Z) : state :=
  mkS NC false 0 false false false [] [] ctr0 0 [] [] 0 0 [].

(* functional updates *)
Definition w_st (s : state) (x : cstate) := mkS x (opened s) (gen s) (sock s) (gcancel s) (fault s) (calls s) (reg s) (ctr s) (drops s) (sendq s) (inq s) (nsent s) (now s) (sent s).
Definition w_calls (s : state) (x : list call) := mkS (st s) (opened s) (gen s) (sock s) (gcancel s) (fault s) x (reg s) (ctr s) (drops s) (sendq s) (inq s) (nsent s) (now s) (sent s).
Definition w_reg (s : state) (x : list regent) := mkS (st s) (opened s) (gen s) (sock s) (gcancel s) (fault s) (calls s) x (ctr s) (drops s) (sendq s) (inq s) (nsent s) (now s) (sent s).
Definition w_ctr (s : state) (x : Z) := mkS (st s) (opened s) (gen s) (sock s) (gcancel s) (fault s) (calls s) (reg s) x (drops s) (sendq s) (inq s) (nsent s) (now s) (sent s).
Definition w_drops (s : state) (x : Z) := mkS (st s) (opened s) (gen s) (sock s) (gcancel s) (fault s) (calls s) (reg s) (ctr s) x (sendq s) (inq s) (nsent s) (now s) (sent s).
Definition w_sendq (s : state) (x : list (Z * frame)) := mkS (st s) (opened s) (gen s) (sock s) (gcancel s) (fault s) (calls s) (reg s) (ctr s) (drops s) x (inq s) (nsent s) (now s) (sent s).
Definition w_inq (s : state) (x : list (Z * frame)) := mkS (st s) (opened s) (gen s) (sock s) (gcancel s) (fault s) (calls s) (reg s) (ctr s) (drops s) (sendq s) x (nsent s) (now s) (sent s).
Definition w_now (s : state) (x : Z) := mkS (st s) (opened s) (gen s) (sock s) (gcancel s) (fault s) (calls s) (reg s) (ctr s) (drops s) (sendq s) (inq s) (nsent s) x (sent s).

Definition upd (s : state) (c : call) : state := w_calls s (put c (calls s)).

(* system bytes drawn by sysBytesGen.next: v = n.Add(1) as uint32 *)
Definition key_of (ctr : Z) : Z := ctr mod 4294967296.

Definition libkey (k : kind) : bool := match k with KSync | KAsync | KCtl => true | _ => false end.
(* sendWaitReply registers unless the message is a W-clear data message *)
Definition needs_reg (c : call) : bool :=
  match c_kind c with KSync => wbit (c_msg c) | KCtl => true | _ => false end.
Definition isdata (c : call) : bool := f_st (c_msg c) =? 0.
Definition timeout_of (p : cfg) (c : call) : Z := if isdata c then T3 p else T6 p.
Definition timeout_res (c : call) : result := if isdata c then RT3 else RT6.

(* writeFrame: conn captured non-nil and generation ctx live *)
Definition wr_ok (s : state) (g : Z) : bool := (g =? gen s) && sock s && negb (gcancel s).
(* generation ctx of g not cancelled *)
Definition glive (s : state) (g : Z) : bool := (g =? gen s) && negb (gcancel s).
Definition selected (s : state) : bool := cstate_eqb (st s) SEL.

Inductive choice :=
  | CGo | CWriteOk | CWriteFail | CChan | CTimer | CGenDone | CCtx | CEnqOk | CEnqClosed | CEnqCtx.

Inductive action :=
  | AStart (id : Z) (k : kind) (f : frame)
  | AStep (id : Z) (c : choice)
  | ACancel (id : Z)
  | ADrain (ok : bool)
  | APeer (f : frame)
  | ADispatch
  | ATick (d : Z)
  | ANewGen | AConnUp | ASupDown | ATeardown | AFault
  | ABarrier | ACond | AMetric.

(* session.go: the result a data caller sees for a routed message: a non-*DataMessage
   type-asserts to nil.  The repaired sendWaitReply ignores such a result for a data
   transaction (None = keep waiting). *)
Definition chan_result (fx : bool) (c : call) (r : cres) : option result :=
  match r with
  | CRej reason => Some (RRejected reason)
  | CMsg n f =>
      match c_kind c with
      | KCtl => Some (ROk (Some (n, f)))
      | _ => if f_st f =? 0 then Some (ROk (Some (n, f)))
             else if fx then None else Some (ROk None)
      end
  end.

Definition finish (s : state) (c : call) (r : result) (el : Z) : option (state * list obs) :=
  Some (upd s (set_pc c (PDone r)), [ORet (c_id c) r el]).

Definition after_gate (c : call) : pc :=
  match c_kind c with
  | KSync | KCtl => if needs_reg c then PReg else PCheck
  | KForward => PCheck
  | KAsync | KReply | KForwardAsync => PEnq
  end.

Definition step_call (fx : bool) (p : cfg) (s : state) (c : call) (ch : choice) : option (state * list obs) :=
  let g := c_gen c in
  let m := c_msg c in
  match c_pc c, ch with
  | PEnter, CGo =>
      (* e := c.cur.Load(); nil => ErrNotOpen *)
      if opened s then Some (upd s (set_pc (set_gen c (gen s)) PGate), [])
      else finish s c RNotOpen 0
  | PGate, CGo =>
      (* B1: one read of st; data && !Selected => drop++ , ErrNotSelectedState *)
      if isdata c && negb (selected s) then finish (w_drops s (drops s + 1)) c RNotSelected 0
      else Some (upd s (set_pc c (after_gate c)), [])
  | PReg, CGo =>
      (* ch = e.replies.register(key); defer deregister *)
      Some (w_reg (upd s (set_pc (set_chan c None) PCheck)) (reg_put g (f_sys m) (c_id c) (reg s)), [])
  | PCheck, CGo =>
      (* under writeMu: conn nil / ctx done => ErrConnClosed; B2 read of st *)
      if negb (wr_ok s g) then Some (upd s (set_pc c (PExit RConnClosed)), [])
      else if isdata c && negb (selected s) then Some (upd (w_drops s (drops s + 1)) (set_pc c (PExit RNotSelected)), [])
      else Some (upd s (set_pc c PWrite), [])
  | PWrite, CWriteOk =>
      if wr_ok s g then
        Some (upd s (if needs_reg c then set_pc (set_t0 c (now s)) PWait else set_pc c (PExit (ROk None))),
              [OPeerRecv g (c_id c) m])
      else None
  | PWrite, CWriteFail =>
      if fault s || negb (wr_ok s g) then Some (upd s (set_pc c (PExit RWriteErr)), []) else None
  | PWait, CChan =>
      match c_chan c with
      | Some r =>
          match chan_result fx c r with
          | Some res => Some (upd s (set_pc (set_chan c None) (PExit res)), [])
          | None => Some (upd s (set_chan c None), [])
          end
      | None => None
      end
  | PWait, CTimer =>
      if c_t0 c + timeout_of p c <=? now s then Some (upd s (set_pc c (PExit (timeout_res c))), []) else None
  | PWait, CGenDone =>
      if negb (glive s g) then Some (upd s (set_pc c (PExit RConnClosed)), []) else None
  | PWait, CCtx =>
      if c_ctx c then Some (upd s (set_pc c (PExit RCtxErr)), []) else None
  | PExit r, CGo =>
      (* deferred e.replies.deregister(key) then return *)
      let s1 := if needs_reg c then w_reg s (reg_del g (f_sys m) (reg s)) else s in
      finish s1 c r (match r with RT3 | RT6 => now s - c_t0 c | _ => 0 end)
  | PEnq, CEnqOk =>
      (* select { case e.sendCh <- req } : a superseded generation's queue is never drained *)
      finish (if g =? gen s then w_sendq s (sendq s ++ [(c_id c, m)]) else s) c (ROk None) 0
  | PEnq, CEnqClosed => if negb (glive s g) then finish s c RConnClosed 0 else None
  | PEnq, CEnqCtx => if c_ctx c then finish s c RCtxErr 0 else None
  | _, _ => None
  end.

(* the receiver's non-blocking offer into the waiter's cap-1 channel *)
Definition offer (s : state) (id : Z) (r : cres) : state :=
  match get id (calls s) with
  | Some c => match c_chan c with None => upd s (set_chan c (Some r)) | Some _ => s end
  | None => s
  end.

Definition enq_int (s : state) (f : frame) : state := w_sendq s (sendq s ++ [(-1, f)]).

Fixpoint handler_obs (k : nat) (h n : Z) : list obs :=
  match k with O => [] | S k' => OHandler h n :: handler_obs k' (h + 1) n end.

(* replyRegistry.route for a control response: a key registered by a DATA transaction (registerData)
   is a miss for anything that is neither a data message nor an error *)
Definition data_waiter (s : state) (id : Z) : bool :=
  match get id (calls s) with Some c => kind_eqb (c_kind c) KSync | None => false end.
Definition route_ctl (p : cfg) (s : state) (f : frame) : option Z :=
  match reg_get (gen s) (f_sys f) (reg s) with
  | Some id => if DW p && data_waiter s id then None else Some id
  | None => None
  end.

(* hsmsss/transport_recv.go dispatchFrame + hsms DeliverOwnedFrame / RouteReply / RouteData *)
Definition dispatch (p : cfg) (s : state) (n : Z) (f : frame) : state * list obs :=
  if negb (f_pt f =? 0) || negb (valid_stype (f_st f)) then (enq_int s (reject_unsupported f), [])
  else if negb (f_st f =? 0) && negb (match f_body f with [] => true | _ => false end) then
    (enq_int s (reject_unsupported f), [])
  else if f_st f =? 0 then
    if negb (selected s) then (enq_int s (reject_not_selected f), [])
    else
      match (if is_secondary f then reg_get (gen s) (f_sys f) (reg s) else None) with
      | Some id => (offer s id (CMsg n f), [])
      | None => if gcancel s then (s, []) else (s, handler_obs (Z.to_nat (NH p)) 0 n)
      end
  else if f_st f =? 7 then
    match reg_get (gen s) (f_sys f) (reg s) with
    | Some id => (offer s id (CRej (f_b3 f)), [])
    | None => (s, [])
    end
  else if (f_st f =? 2) || (f_st f =? 4) || (f_st f =? 6) then
    match route_ctl p s f with
    | Some id =>
        let s1 := offer s id (CMsg n f) in
        if (f_st f =? 2) && (f_b3 f =? 0) && cstate_eqb (st s1) NS then (w_st s1 SEL, []) else (s1, [])
    | None => (enq_int s (reject_not_open f), [])
    end
  else if f_st f =? 1 then
    if cstate_eqb (st s) NS then (enq_int (w_st s SEL) (select_rsp f 0), [])
    else (enq_int s (select_rsp f 1), [])
  else if f_st f =? 5 then (enq_int s (linktest_rsp f), [])
  else if f_st f =? 3 then
    if selected s then (w_st (enq_int s (deselect_rsp f 0)) NS, [])
    else (enq_int s (deselect_rsp f 1), [])
  else (s, []).   (* Separate.req: TCPDown is injected; the drop itself is ASupDown/ATeardown *)

Definition exec (fx : bool) (p : cfg) (s : state) (a : action) : option (state * list obs) :=
  match a with
  | AStart id k f =>
      match get id (calls s) with
      | Some _ => None
      | None =>
          if id <? 0 then None   (* call ids are non-negative; origin -1 marks library-internal frames *)
          else if negb (Z.eqb (f_st f) 0) && negb (kind_eqb k KCtl) then None
          else if (f_st f =? 0) && kind_eqb k KCtl then None
          else
            let s1 := if libkey k then w_ctr s (ctr s + 1) else s in
            let m := if libkey k then mkF (f_sid f) (f_b2 f) (f_b3 f) (f_pt f) (f_st f) (key_of (ctr s + 1)) (f_body f) else f in
            Some (w_calls s1 (mkCall id k m 0 PEnter None false 0 :: calls s1), [OStart id k m])
      end
  | AStep id ch =>
      match get id (calls s) with
      | Some c => step_call fx p s c ch
      | None => None
      end
  | ACancel id =>
      match get id (calls s) with
      | Some c => Some (upd s (set_ctx c true), [])
      | None => None
      end
  | ADrain ok =>
      match sendq s with
      | [] => None
      | (o, f) :: q =>
          let s1 := w_sendq s q in
          if negb (wr_ok s (gen s)) then (Some (s1, [OAsyncErr o RConnClosed]))
          else if (f_st f =? 0) && negb (selected s) then Some (w_drops s1 (drops s + 1), [OAsyncErr o RNotSelected])
          else if ok then Some (s1, [OPeerRecv (gen s) o f])
          else if fault s then Some (s1, [OAsyncErr o RWriteErr]) else None
      end
  | APeer f =>
      if sock s then
        let n := nsent s + 1 in
        Some (mkS (st s) (opened s) (gen s) (sock s) (gcancel s) (fault s) (calls s) (reg s) (ctr s) (drops s)
                  (sendq s) (inq s ++ [(n, f)]) n (now s) ((n, f) :: sent s), [OPeerSent n f])
      else None
  | ADispatch =>
      match inq s with
      | [] => None
      | (n, f) :: q => Some (dispatch p (w_inq s q) n f)
      end
  | ATick d => if 0 <=? d then Some (w_now s (now s + d), []) else None
  | ANewGen =>
      if cstate_eqb (st s) NC && (negb (opened s) || gcancel s) then
        Some (mkS NC true (gen s + 1) false false false (calls s) (reg s) (ctr s) (drops s) [] [] (nsent s) (now s) (sent s), [OGenDown (gen s)])
      else None
  | AConnUp =>
      if opened s && negb (sock s) && negb (gcancel s) && cstate_eqb (st s) NC then
        Some (mkS NS (opened s) (gen s) true (gcancel s) (fault s) (calls s) (reg s) (ctr s) (drops s) (sendq s) (inq s) (nsent s) (now s) (sent s),
              [OGenUp (gen s)])
      else None
  | ASupDown => if opened s then Some (w_st s NC, [OGenDown (gen s)]) else None
  | ATeardown =>
      if opened s then
        Some (mkS (st s) (opened s) (gen s) false true (fault s) (calls s) (reg s) (ctr s) (drops s) (sendq s) (inq s) (nsent s) (now s) (sent s),
              [OGenDown (gen s)])
      else None
  | AFault =>
      if sock s then
        Some (mkS (st s) (opened s) (gen s) (sock s) (gcancel s) true (calls s) (reg s) (ctr s) (drops s) (sendq s) (inq s) (nsent s) (now s) (sent s),
              [OGenDown (gen s)])
      else None
  | ABarrier => match inq s, sendq s with [], [] => Some (s, [OBarrier]) | _, _ => None end
  | ACond => match inq s, sendq s with [], [] => Some (s, [OCond (st s) (opened s)]) | _, _ => None end
  | AMetric =>
      match sendq s with
      | [] => if forallb (fun c => match c_pc c with PDone _ => true | _ => false end) (calls s)
              then Some (s, [OMetric (drops s)]) else None
      | _ => None
      end
  end.

Fixpoint run (fx : bool) (p : cfg) (s : state) (acts : list action) : option (state * list obs) :=
  match acts with
  | [] => Some (s, [])
  | a :: r =>
      match exec fx p s a with
      | None => None
      | Some (s1, o1) =>
          match run fx p s1 r with
          | None => None
          | Some (s2, o2) => Some (s2, o1 ++ o2)
          end
      end
  end.
