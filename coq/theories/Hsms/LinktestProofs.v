From Coq Require Import ZArith Bool List Lia ZifyBool.
From GoSecs Require Import Hsms.Linktest.
Import ListNotations.
Open Scope Z_scope.

(** * Vocabulary of the property *)

(** The iteration probed (was not skipped by suppression rule 1 or 2). *)
Definition probes (suppress : bool) (o : obs) : bool :=
  negb (suppress && (o_active o || (o_pre_inflight o >? 0))).

(** A probe that timed out while the peer showed no life around it. With suppression off every
    timeout counts. *)
Definition dead (suppress : bool) (o : obs) : Prop :=
  o_fail o = true /\
  (suppress = true -> o_recv_now o <= o_sent_at o /\ o_inflight o <= 0).

(** The re-check taken just before disconnecting also saw no life. *)
Definition dead_final (suppress : bool) (o : obs) : Prop :=
  suppress = true -> o_recv_final o <= o_sent_at o /\ o_inflight_final o <= 0.

(** Most-recent-first list of probes: no receive stamp moved forward between two consecutive ones. *)
Fixpoint quiet (l : list obs) : Prop :=
  match l with
  | a :: ((b :: _) as t) => o_recv_now a <= o_recv_now b /\ quiet t
  | _ => True
  end.

Definition is_prefix {A} (l h : list A) : Prop := exists rest, h = l ++ rest.

(** [h] = the probing iterations processed so far, most recent first. *)
Definition Inv (suppress : bool) (s : lstate) (h : list obs) : Prop :=
  exists l, is_prefix l h /\ Z.of_nat (length l) = fails s /\ Forall (dead suppress) l /\
            (suppress = true -> quiet l) /\
            (forall a t, l = a :: t -> recv_at_last_fail s = o_recv_now a).

Lemma Inv_init suppress s h : fails s = 0 -> Inv suppress s h.
Proof.
  intros H. exists []. split; [exists h; reflexivity|]. split; [now rewrite H|].
  split; [constructor|]. split; [intros _; exact I|]. intros a t E; discriminate E.
Qed.

Lemma prefix_cons {A} (a : A) l h : is_prefix l h -> is_prefix (a :: l) (a :: h).
Proof. intros [r ->]. exists r. reflexivity. Qed.

Lemma prefix_nil {A} (h : list A) : is_prefix [] h.
Proof. exists h; reflexivity. Qed.

(** * One iteration *)

Lemma iter_skip suppress threshold s o :
  probes suppress o = false -> iter suppress threshold s o = (s, skip_out).
Proof.
  unfold probes, iter. intros H. apply negb_false_iff in H. rewrite H. reflexivity.
Qed.

Ltac finish_nd :=
  cbn [io_suppressed io_sent io_down];
  split; [reflexivity|]; split; [reflexivity|]; split; [intros _ | intros Hx; discriminate Hx].
Ltac finish_d :=
  cbn [io_suppressed io_sent io_down];
  split; [reflexivity|]; split; [reflexivity|]; split; [intros Hx; discriminate Hx | intros _].

(** The key step lemma: a probing iteration either keeps the invariant (no disconnect) or
    disconnects with at least [threshold] dead, quiet probes ending in this one. *)
Lemma iter_probe suppress threshold s o h s' out :
  1 <= threshold ->
  Inv suppress s h ->
  probes suppress o = true ->
  iter suppress threshold s o = (s', out) ->
  io_suppressed out = false /\ io_sent out = true /\
  (io_down out = false -> Inv suppress s' (o :: h)) /\
  (io_down out = true ->
     dead_final suppress o /\
     exists l, is_prefix l (o :: h) /\ threshold <= Z.of_nat (length l) /\
               Forall (dead suppress) l /\ (suppress = true -> quiet l)).
Proof.
  intros Hth (l & Hpre & Hlen & Hdead & Hquiet & Hlast) Hp Hit.
  unfold probes in Hp. apply negb_true_iff in Hp.
  unfold iter in Hit. rewrite Hp in Hit.
  destruct (o_fail o) eqn:Ef; cbn [negb] in Hit.
  2:{ (* probe answered *)
    inversion Hit; subst; clear Hit. finish_nd. apply Inv_init. reflexivity. }
  unfold failure_step in Hit.
  destruct suppress.
  - (* suppression on *)
    cbn [andb negb] in Hit.
    destruct ((o_recv_now o >? o_sent_at o) || (o_inflight o >? 0)) eqn:Elife.
    + (* credited by the snapshot *)
      assert (0 >=? threshold = false) as E0 by lia. rewrite E0 in Hit.
      inversion Hit; subst; clear Hit. finish_nd. apply Inv_init. reflexivity.
    + apply orb_false_iff in Elife. destruct Elife as [El1 El2].
      assert (Hd : dead true o).
      { split; [exact Ef|]. intros _. lia. }
      destruct ((fails s >? 0) && (o_recv_now o >? recv_at_last_fail s)) eqn:Erestart.
      * (* life between counted failures: the run restarts at 1 *)
        destruct (1 >=? threshold) eqn:Et.
        -- unfold disconnect_recheck in Hit. cbn [negb] in Hit.
           destruct ((o_inflight_final o <=? 0) && (o_recv_final o <=? o_sent_at o)) eqn:Er;
             inversion Hit; subst; clear Hit.
           ++ finish_d. split.
              ** intros _. apply andb_true_iff in Er. lia.
              ** exists [o]. split; [apply prefix_cons, prefix_nil|]. split; [cbn; lia|].
                 split; [constructor; [exact Hd|constructor]|]. intros _. exact I.
           ++ finish_nd. apply Inv_init. reflexivity.
        -- inversion Hit; subst; clear Hit. finish_nd.
           exists [o]. split; [apply prefix_cons, prefix_nil|]. split; [reflexivity|].
           split; [constructor; [exact Hd|constructor]|]. split; [intros _; exact I|].
           intros a t E. inversion E; subst. reflexivity.
      * (* consecutive in silence: the run grows *)
        assert (Hq : quiet (o :: l)).
        { destruct l as [|b t]; [exact I|]. cbn. split.
          - specialize (Hlast b t eq_refl).
            assert (0 < fails s) by (rewrite <- Hlen; cbn [length]; lia).
            apply andb_false_iff in Erestart. destruct Erestart; lia.
          - apply Hquiet. reflexivity. }
        assert (Hl' : Z.of_nat (length (o :: l)) = fails s + 1) by (cbn [length]; lia).
        destruct (fails s + 1 >=? threshold) eqn:Et.
        -- unfold disconnect_recheck in Hit. cbn [negb] in Hit.
           destruct ((o_inflight_final o <=? 0) && (o_recv_final o <=? o_sent_at o)) eqn:Er;
             inversion Hit; subst; clear Hit.
           ++ finish_d. split.
              ** intros _. apply andb_true_iff in Er. lia.
              ** exists (o :: l). split; [apply prefix_cons; exact Hpre|]. split; [lia|].
                 split; [constructor; assumption|]. intros _. exact Hq.
           ++ finish_nd. apply Inv_init. reflexivity.
        -- inversion Hit; subst; clear Hit. finish_nd.
           exists (o :: l). split; [apply prefix_cons; exact Hpre|]. split; [cbn [fails]; lia|].
           split; [constructor; assumption|]. split; [intros _; exact Hq|].
           intros a t E. inversion E; subst. reflexivity.
  - (* suppression off: every timeout counts *)
    cbn [andb negb] in Hit.
    assert (Hd : dead false o) by (split; [exact Ef|intros H; discriminate H]).
    assert (Hl' : Z.of_nat (length (o :: l)) = fails s + 1) by (cbn [length]; lia).
    destruct (fails s + 1 >=? threshold) eqn:Et.
    + unfold disconnect_recheck in Hit. cbn [negb] in Hit.
      inversion Hit; subst; clear Hit. finish_d. split.
      * intros H; discriminate H.
      * exists (o :: l). split; [apply prefix_cons; exact Hpre|]. split; [lia|].
        split; [constructor; assumption|]. intros H; discriminate H.
    + inversion Hit; subst; clear Hit. finish_nd.
      exists (o :: l). split; [apply prefix_cons; exact Hpre|]. split; [cbn [fails]; lia|].
      split; [constructor; assumption|]. split; [intros H; discriminate H|].
      intros a t E. inversion E; subst. reflexivity.
Qed.

(** * Whole runs *)

(** Probing observations among the first [n] of [os], most recent first, on top of [h]. *)
Fixpoint hist (suppress : bool) (os : list obs) (h : list obs) : list obs :=
  match os with
  | [] => h
  | o :: os' => hist suppress os' (if probes suppress o then o :: h else h)
  end.

(** Every disconnect is justified: at the iteration that disconnects, the last [threshold] (or
    more) probes were all dead and quiet, and the final re-check saw no life either. *)
Theorem down_justified suppress threshold : 1 <= threshold ->
  forall os s h pre o post outs_pre out,
  Inv suppress s h ->
  os = pre ++ o :: post ->
  run suppress threshold s os = outs_pre ++ [out] ->
  length outs_pre = length pre ->
  io_down out = true ->
  probes suppress o = true /\ dead_final suppress o /\
  exists l, is_prefix l (o :: hist suppress pre h) /\ threshold <= Z.of_nat (length l) /\
            Forall (dead suppress) l /\ (suppress = true -> quiet l).
Proof.
  intros Hth os. induction os as [|o1 os IH]; intros s h pre o post outs_pre out HI Hos Hrun Hlen Hdown.
  - destruct pre; discriminate Hos.
  - cbn [run] in Hrun. destruct (iter suppress threshold s o1) as [s' out1] eqn:Hit.
    destruct pre as [|p pre'].
    + (* the disconnecting iteration is the head *)
      cbn in Hos. inversion Hos; subst o1 post. clear Hos.
      destruct outs_pre; [|discriminate Hlen].
      cbn in Hrun.
      assert (out1 = out).
      { destruct (io_down out1); inversion Hrun; reflexivity. }
      subst out1.
      destruct (probes suppress o) eqn:Hp.
      * destruct (iter_probe _ _ _ _ _ _ _ Hth HI Hp Hit) as (_ & _ & _ & Hd).
        destruct (Hd Hdown) as (Hf & l & ?). split; [reflexivity|]. split; [exact Hf|]. exists l. cbn [hist]. assumption.
      * rewrite (iter_skip _ _ _ _ Hp) in Hit. inversion Hit; subst. discriminate Hdown.
    + cbn in Hos. inversion Hos; subst o1 os. clear Hos.
      destruct outs_pre as [|q outs_pre']; [discriminate Hlen|].
      cbn in Hrun. inversion Hrun as [[Hq Hrest]]. subst q.
      destruct (io_down out1) eqn:Hd1.
      * (* run stopped here: impossible, outs would be a singleton *)
        destruct outs_pre'; discriminate Hrest.
      * cbn [hist].
        assert (HI' : Inv suppress s' (if probes suppress p then p :: h else h)).
        { destruct (probes suppress p) eqn:Hp.
          - destruct (iter_probe _ _ _ _ _ _ _ Hth HI Hp Hit) as (_ & _ & Hk & _). apply Hk. exact Hd1.
          - rewrite (iter_skip _ _ _ _ Hp) in Hit. inversion Hit; subst. exact HI. }
        eapply IH; eauto.
Qed.

(** A peer that answers every probe is never disconnected (for any thresholds >= 1). *)
Theorem answering_never_down suppress threshold : 1 <= threshold ->
  forall os s, Forall (fun o => o_fail o = false) os ->
  disconnected (run suppress threshold s os) = false.
Proof.
  intros Hth os. induction os as [|o os IH]; intros s Hall; [reflexivity|].
  inversion Hall as [|? ? Ho Hrest]; subst.
  cbn [run]. destruct (iter suppress threshold s o) as [s' out] eqn:Hit.
  assert (io_down out = false).
  { unfold iter in Hit. rewrite Ho in Hit. cbn [negb] in Hit.
    destruct (suppress && (o_active o || (o_pre_inflight o >? 0))); inversion Hit; reflexivity. }
  unfold disconnected. cbn [existsb]. rewrite H. cbn. apply IH. exact Hrest.
Qed.

(** * Dead peer: disconnect after exactly [threshold] consecutive probe timeouts *)

Definition dead_obs (r : Z) (o : obs) : Prop :=
  o_active o = false /\ o_pre_inflight o <= 0 /\ o_fail o = true /\
  o_recv_now o = r /\ r <= o_sent_at o /\ o_inflight o <= 0 /\
  o_recv_final o = r /\ o_inflight_final o <= 0.

Definition err_out := {| io_suppressed := false; io_sent := true; io_err := true; io_credited := 0; io_down := false |}.
Definition down_out := {| io_suppressed := false; io_sent := true; io_err := true; io_credited := 0; io_down := true |}.

Lemma dead_iter suppress threshold s o r :
  1 <= threshold -> 0 <= fails s -> dead_obs r o ->
  (0 < fails s -> recv_at_last_fail s = r) ->
  iter suppress threshold s o =
    ({| fails := fails s + 1; recv_at_last_fail := r |},
     if fails s + 1 >=? threshold then down_out else err_out).
Proof.
  intros Hth Hf (Ha & Hpi & Hfail & Hr & Hs & Hi & Hrf & Hif) Hlast.
  unfold iter. rewrite Ha, Hfail. cbn [orb negb].
  assert (E1 : o_pre_inflight o >? 0 = false) by lia. rewrite E1, andb_false_r.
  unfold failure_step.
  destruct suppress; cbn [andb negb].
  - assert (E2 : (o_recv_now o >? o_sent_at o) || (o_inflight o >? 0) = false).
    { apply orb_false_iff. lia. }
    rewrite E2.
    assert (E3 : (fails s >? 0) && (o_recv_now o >? recv_at_last_fail s) = false).
    { apply andb_false_iff. destruct (Z_lt_le_dec 0 (fails s)) as [P|P].
      - right. rewrite (Hlast P). lia.
      - left. lia. }
    rewrite E3, Hr.
    destruct (fails s + 1 >=? threshold); [|reflexivity].
    unfold disconnect_recheck. cbn [negb].
    assert (E4 : (o_inflight_final o <=? 0) && (o_recv_final o <=? o_sent_at o) = true).
    { apply andb_true_iff. lia. }
    rewrite E4. reflexivity.
  - rewrite Hr. destruct (fails s + 1 >=? threshold); reflexivity.
Qed.

(** Starting right after a success (or at session start), a peer that goes completely silent is
    disconnected at exactly the [threshold]-th consecutive probe timeout and not before. *)
Theorem dead_exact suppress (n : nat) : forall s r os,
  fails s = 0 ->
  Forall (dead_obs r) os -> length os = S n ->
  run suppress (Z.of_nat (S n)) s os = repeat err_out n ++ [down_out].
Proof.
  intros s r os Hf0 Hall Hlen.
  (* generalise: k failures already counted, m + 1 still to go *)
  assert (G : forall m k s os, fails s = Z.of_nat k -> (0 < fails s -> recv_at_last_fail s = r) ->
              Forall (dead_obs r) os -> length os = S m -> (k + S m = S n)%nat ->
              run suppress (Z.of_nat (S n)) s os = repeat err_out m ++ [down_out]).
  { clear. induction m as [|m IH]; intros k s os Hk Hlast Hall Hlen Hsum.
    - destruct os as [|o [|? ?]]; try discriminate Hlen.
      inversion Hall; subst. cbn [run].
      rewrite (dead_iter suppress _ s o r); try lia; try assumption.
      assert (E : fails s + 1 >=? Z.of_nat (S n) = true) by lia. rewrite E. reflexivity.
    - destruct os as [|o os]; [discriminate Hlen|].
      inversion Hall; subst. cbn [run].
      rewrite (dead_iter suppress _ s o r); try lia; try assumption.
      assert (E : fails s + 1 >=? Z.of_nat (S n) = false) by lia. rewrite E. cbn [io_down err_out repeat app].
      f_equal. apply (IH (S k)).
      + cbn [fails]. lia.
      + intros _. reflexivity.
      + assumption.
      + cbn [length] in Hlen. lia.
      + lia. }
  apply (G n 0%nat); try assumption; try lia.
Qed.

(** * Probe rule *)

(** A probe goes out in an iteration iff suppression does not hold it back: with suppression on,
    never while traffic flowed within the last interval or a reply is outstanding; with
    suppression off, in every iteration. *)
Theorem probe_rule suppress threshold s o :
  io_sent (snd (iter suppress threshold s o)) = probes suppress o /\
  io_suppressed (snd (iter suppress threshold s o)) = negb (probes suppress o).
Proof.
  unfold probes, iter.
  destruct (suppress && (o_active o || (o_pre_inflight o >? 0))); cbn [negb snd].
  - split; reflexivity.
  - destruct (o_fail o); cbn [negb].
    + destruct (failure_step _ _ _ _ _ _) as [[f r] c].
      destruct (f >=? threshold); [destruct (disconnect_recheck _ _ _ _)|]; split; reflexivity.
    + split; reflexivity.
Qed.

Corollary suppress_off_probes_always threshold s o :
  io_sent (snd (iter false threshold s o)) = true.
Proof. destruct (probe_rule false threshold s o) as [H _]. rewrite H. reflexivity. Qed.

(** With suppression off every timeout counts: the run grows by one, or the link is dropped. *)
Theorem suppress_off_every_timeout_counts threshold s o :
  o_fail o = true ->
  let '(s', out) := iter false threshold s o in
  fails s' = fails s + 1 /\ io_credited out = 0 /\ io_down out = (fails s + 1 >=? threshold).
Proof.
  intros Hf. unfold iter. cbn [andb negb]. rewrite Hf. cbn [negb].
  unfold failure_step. cbn [andb].
  destruct (fails s + 1 >=? threshold) eqn:E.
  - unfold disconnect_recheck. cbn [negb]. repeat split; reflexivity.
  - repeat split; reflexivity.
Qed.

(** A skipped iteration leaves the failure run untouched. *)
Theorem skip_keeps_state suppress threshold s o :
  probes suppress o = false -> fst (iter suppress threshold s o) = s.
Proof. intros H. rewrite (iter_skip _ _ _ _ H). reflexivity. Qed.
