(** Proofs about the backoff arithmetic model (Hsms/Backoff.v).

    Main results (current source, /repo commit 67dfa20)
      Backoff_next_delay_bounds   for every 0 < cur, 0 < ceil and EVERY multiplier:
                                  min cur ceil <= nextBackoffDelay cur mult ceil <= ceil
      Backoff_sleeps_ok           the sleeps of connectLoop start at min init T5, never decrease
                                  and never exceed T5 — all positive int64 init/T5, all multipliers
    About the function before the fix (regression material)
      Backoff_next_delay_old_bounds, Backoff_sleeps_old_ok   the same statements, which for the old
                                  function need 0 < cur <= 2^53, T5 <= 2^53 and a validated
                                  multiplier (this is where the Flocq reasoning is used)
      Backoff_old_refuted_beyond_2p53   beyond 2^53 the old sequence CAN decrease:
                                  old nextBackoffDelay (2^53+1) 1.0 2^62 = 2^53
      Backoff_same_as_old_in_range   on the old theorem's range the fix changes nothing

    The real-number reasoning uses Flocq's correctness theorems for [Bmult], [binary_normalize]
    and [Btrunc]; those depend on the axioms of Coq's classical real numbers, which
    [Print Assumptions] lists by name. *)
From Coq Require Import ZArith Bool List Lia Reals Lra.
From Flocq Require Import Core.Core IEEE754.BinarySingleNaN.
From GoSecs Require Import Hsms.Backoff.
Import ListNotations.
Open Scope Z_scope.

Local Notation fexp64 := (SpecFloat.fexp 53 1024).

(** ** int64 -> binary64 is exact up to 2^53 *)

Lemma Backoff_format_small : forall z, 0 < z <= Backoff_two53 ->
  generic_format radix2 fexp64 (IZR z).
Proof.
  intros z Hz.
  change fexp64 with (FLT_exp (3 - 1024 - 53) 53).
  destruct (Z.eq_dec z Backoff_two53) as [->|Hne].
  - change Backoff_two53 with (Zpower radix2 53).
    rewrite IZR_Zpower by lia.
    apply generic_format_FLT_bpow; [reflexivity|lia].
  - apply generic_format_FLT.
    exists (Float radix2 z 0).
    + unfold F2R; simpl. lra.
    + simpl. unfold Backoff_two53 in *. lia.
    + simpl. lia.
Qed.

Lemma Backoff_of_int64_exact : forall z, 0 < z <= Backoff_two53 ->
  B2R (Backoff_of_int64 z) = IZR z /\ is_finite (Backoff_of_int64 z) = true /\
  Bsign (Backoff_of_int64 z) = false.
Proof.
  intros z Hz.
  assert (HF : F2R (Float radix2 z 0) = IZR z) by (unfold F2R; simpl; lra).
  assert (Hr : round radix2 fexp64 (round_mode mode_NE) (IZR z) = IZR z).
  { apply round_generic; [apply valid_rnd_round_mode|]. now apply Backoff_format_small. }
  generalize (binary_normalize_correct 53 1024 Backoff_prec_gt_0 Backoff_prec_lt_emax mode_NE z 0 false).
  cbv zeta. rewrite HF, Hr.
  rewrite Rlt_bool_true.
  - intros (H1 & H2 & H3). unfold Backoff_of_int64. repeat split; try assumption.
    rewrite H3. rewrite Rcompare_Gt; [reflexivity|]. apply IZR_lt. lia.
  - rewrite Rabs_pos_eq by (apply IZR_le; lia).
    apply Rle_lt_trans with (IZR Backoff_two53); [apply IZR_le; lia|].
    change Backoff_two53 with (Zpower radix2 53). rewrite IZR_Zpower by lia.
    apply bpow_lt. lia.
Qed.

(** ** binary64 -> int64 *)

Lemma Backoff_to_int64_cases : forall f,
  Backoff_to_int64 f = - Backoff_two63 \/
  (is_finite f = true /\ Backoff_to_int64 f = Ztrunc (B2R f)).
Proof.
  intros f.
  assert (HT : Btrunc f = Ztrunc (B2R f)).
  { apply eq_IZR. rewrite Btrunc_correct by exact Backoff_prec_lt_emax. apply round_FIX_IZR. }
  destruct f as [s|s| |s m e H]; cbn [Backoff_to_int64]; auto.
  rewrite HT. destruct ((- Backoff_two63 <=? _) && (_ <? Backoff_two63));
    [right; split; reflexivity|left; reflexivity].
Qed.

(** ** the option validation *)

Lemma Backoff_one_exact : B2R Backoff_one = 1%R /\ is_finite Backoff_one = true.
Proof.
  destruct (Backoff_of_int64_exact 1) as (H1 & H2 & _); [unfold Backoff_two53; lia|].
  split; assumption.
Qed.

(** A multiplier accepted by the validation is NaN, +Inf, or finite with value >= 1. *)
Lemma Backoff_mult_ok_cases : forall m, Backoff_mult_ok m = true ->
  m = B754_nan \/ m = B754_infinity false \/ (is_finite m = true /\ (1 <= B2R m)%R).
Proof.
  intros m H. unfold Backoff_mult_ok in H. apply negb_true_iff in H.
  destruct Backoff_one_exact as [H1 F1].
  destruct m as [s|s| |s mm e Hb].
  - (* zero *) exfalso.
    rewrite Bltb_correct in H by (auto; reflexivity). rewrite H1 in H. simpl in H.
    rewrite Rlt_bool_true in H by lra. discriminate.
  - destruct s; [|auto].
    exfalso. unfold Bltb, SpecFloat.SFltb in H.
    remember (B2SF Backoff_one) as o. destruct o; simpl in H; discriminate.
  - auto.
  - right; right. split; [reflexivity|].
    rewrite Bltb_correct in H by (auto; reflexivity). rewrite H1 in H.
    destruct (Rlt_bool_spec (B2R (B754_finite s mm e Hb)) 1); [discriminate|assumption].
Qed.

(** ** one step *)

Theorem Backoff_next_delay_old_bounds : forall cur m ceil,
  0 < cur <= Backoff_two53 -> Backoff_mult_ok m = true -> 0 < ceil ->
  Z.min cur ceil <= Backoff_next_delay_old cur m ceil <= ceil.
Proof.
  intros cur m ceil Hcur Hm Hceil.
  unfold Backoff_next_delay_old. cbv zeta.
  set (p := Backoff_mul (Backoff_of_int64 cur) m).
  destruct (Backoff_to_int64_cases p) as [E|[Fp E]].
  - rewrite E. replace (- Backoff_two63 <=? 0) with true by reflexivity. simpl. lia.
  - (* the product is finite: its value is at least cur *)
    assert (Hge : cur <= Backoff_to_int64 p).
    { rewrite E.
      destruct (Backoff_of_int64_exact cur Hcur) as (X1 & X2 & X3).
      destruct (Backoff_mult_ok_cases m Hm) as [->|[->|[Fm Hm1]]].
      - unfold p, Backoff_mul in Fp. destruct (Backoff_of_int64 cur); discriminate.
      - unfold p, Backoff_mul in Fp. destruct (Backoff_of_int64 cur); discriminate.
      - generalize (Bmult_correct 53 1024 Backoff_prec_gt_0 Backoff_prec_lt_emax mode_NE (Backoff_of_int64 cur) m).
        fold (Backoff_mul (Backoff_of_int64 cur) m). fold p.
        destruct (Rlt_bool _ _).
        + intros (R1 & _ & _). rewrite R1, X1.
          rewrite <- (Ztrunc_IZR cur) at 1. apply Ztrunc_le.
          rewrite <- (round_generic radix2 fexp64 (round_mode mode_NE) (IZR cur)) at 1
            by (try apply valid_rnd_round_mode; now apply Backoff_format_small).
          apply round_le; [apply fexp_correct; reflexivity|apply valid_rnd_round_mode|].
          assert (0 < IZR cur)%R by (apply IZR_lt; lia). nra.
        + intros R. exfalso. rewrite X3, xorb_false_l in R.
          destruct m as [sm|sm| |sm mm em Hbm]; try discriminate.
          destruct p; discriminate. }
    destruct (Z.leb_spec (Backoff_to_int64 p) 0); [lia|].
    destruct (Z.ltb_spec ceil (Backoff_to_int64 p)); simpl; lia.
Qed.

(** ** the loop *)

Lemma Backoff_cap_min : forall d t5, Backoff_cap d t5 = Z.min d t5.
Proof. intros. unfold Backoff_cap. destruct (Z.ltb_spec t5 d); lia. Qed.

Lemma Backoff_delay_old_range : forall init m t5 k,
  0 < init <= Backoff_two53 -> Backoff_mult_ok m = true -> 0 < t5 <= Backoff_two53 ->
  0 < Backoff_delay_old init m t5 k <= Backoff_two53 /\
  (k <> O -> Backoff_delay_old init m t5 k <= t5).
Proof.
  intros init m t5 k Hi Hm Ht. induction k as [|k IH].
  - simpl. split; [assumption|congruence].
  - destruct IH as [IH _]. cbn [Backoff_delay_old].
    pose proof (Backoff_next_delay_old_bounds _ m t5 IH Hm (proj1 Ht)) as B.
    split; [|intros _]; lia.
Qed.

Theorem Backoff_sleeps_old_ok : forall init m t5,
  0 < init -> Backoff_mult_ok m = true -> 0 < t5 ->
  init <= Backoff_two53 -> t5 <= Backoff_two53 ->
  Backoff_sleep_old init m t5 0 = Z.min init t5 /\
  forall k, Backoff_sleep_old init m t5 k <= Backoff_sleep_old init m t5 (S k) <= t5.
Proof.
  intros init m t5 Hi Hm Ht Hi2 Ht2. split.
  - unfold Backoff_sleep_old. simpl. apply Backoff_cap_min.
  - intros k. unfold Backoff_sleep_old. rewrite !Backoff_cap_min. cbn [Backoff_delay_old].
    destruct (Backoff_delay_old_range init m t5 k) as [R _]; try lia; try assumption.
    pose proof (Backoff_next_delay_old_bounds _ m t5 R Hm Ht) as B. lia.
Qed.

(** The list form used by the drivers agrees with [Backoff_sleep]. *)
Lemma Backoff_sleeps_from_nth : forall n init m t5 j, (j < n)%nat ->
  nth j (Backoff_sleeps_from (Backoff_delay init m t5 0) m t5 n) 0 = Backoff_sleep init m t5 j.
Proof.
  intros n0 init m t5.
  assert (G : forall n k j, (j < n)%nat ->
    nth j (Backoff_sleeps_from (Backoff_delay init m t5 k) m t5 n) 0 = Backoff_sleep init m t5 (k + j)).
  { induction n as [|n IH]; intros k j Hj; [inversion Hj|].
    destruct j as [|j]; cbn [Backoff_sleeps_from nth].
    - rewrite Nat.add_0_r. reflexivity.
    - change (Backoff_next_delay (Backoff_delay init m t5 k) m t5) with (Backoff_delay init m t5 (S k)).
      rewrite IH by lia. f_equal. lia. }
  intros j Hj. apply (G n0 O j Hj).
Qed.

(** ** the current step (with the monotone clamp) needs no range bound and no assumption on the
    multiplier: the clamp makes the bounds hold whatever the float product is *)

Theorem Backoff_next_delay_bounds : forall cur m ceil, 0 < cur -> 0 < ceil ->
  Z.min cur ceil <= Backoff_next_delay cur m ceil <= ceil.
Proof.
  intros cur m ceil Hc Hl. unfold Backoff_next_delay. cbv zeta.
  set (n := Backoff_to_int64 _).
  destruct (Z.leb_spec n 0); [lia|].
  destruct (Z.ltb_spec n cur); [destruct (Z.ltb_spec ceil cur)|destruct (Z.ltb_spec ceil n)]; lia.
Qed.

Theorem Backoff_sleeps_ok : forall init m t5, 0 < init -> 0 < t5 ->
  Backoff_sleep init m t5 0 = Z.min init t5 /\
  forall k, Backoff_sleep init m t5 k <= Backoff_sleep init m t5 (S k) <= t5.
Proof.
  intros init m t5 Hi Ht. split.
  - unfold Backoff_sleep. simpl. apply Backoff_cap_min.
  - intros k. unfold Backoff_sleep. rewrite !Backoff_cap_min. cbn [Backoff_delay].
    assert (P : 0 < Backoff_delay init m t5 k).
    { induction k as [|k IH]; [assumption|]. cbn [Backoff_delay].
      pose proof (Backoff_next_delay_bounds _ m t5 IH Ht). lia. }
    pose proof (Backoff_next_delay_bounds _ m t5 P Ht). lia.
Qed.

(** On the range the float reasoning covers (delays up to 2^53 ns, a validated multiplier) the
    clamp never fires: the current function equals the one before commit 67dfa20. *)
Lemma Backoff_same_as_old_in_range : forall cur m ceil,
  0 < cur <= Backoff_two53 -> Backoff_mult_ok m = true -> 0 < ceil ->
  Backoff_next_delay cur m ceil = Backoff_next_delay_old cur m ceil.
Proof.
  intros cur m ceil Hc Hm Hl.
  pose proof (Backoff_next_delay_old_bounds cur m ceil Hc Hm Hl) as B.
  unfold Backoff_next_delay, Backoff_next_delay_old in *. cbv zeta in *.
  set (n := Backoff_to_int64 _) in *.
  destruct (Z.leb_spec n 0); [reflexivity|]. cbn [orb] in *.
  destruct (Z.ltb_spec n cur).
  - destruct (Z.ltb_spec ceil n); destruct (Z.ltb_spec ceil cur); lia.
  - reflexivity.
Qed.

(** ** the corner beyond 2^53 (DESIGN §5 #7) *)

Definition Backoff_one_bits : Z := 4607182418800017408. (* 0x3FF0000000000000 = 1.0 *)

Theorem Backoff_old_refuted_beyond_2p53 :
  exists init m t5, 0 < init /\ Backoff_mult_ok m = true /\ 0 < t5 /\
    Backoff_sleep_old init m t5 1 < Backoff_sleep_old init m t5 0.
Proof.
  exists (Backoff_two53 + 1), (Backoff_f64_of_bits Backoff_one_bits), (2 ^ 62).
  vm_compute. repeat split; reflexivity.
Qed.

Theorem Backoff_old_refuted_witness :
  Backoff_next_delay_old_bits (Backoff_two53 + 1) Backoff_one_bits (2 ^ 62) = Backoff_two53.
Proof. vm_compute. reflexivity. Qed.

(** the same input on the current function: no decrease *)
Theorem Backoff_regression_2p53 :
  Backoff_next_delay_bits (Backoff_two53 + 1) Backoff_one_bits (2 ^ 62) = Backoff_two53 + 1.
Proof. vm_compute. reflexivity. Qed.
