(** Model of the auto-linktest failure accounting (hsmsss/transport_procedures.go).

    [failure_step] and [disconnect_recheck] are hand-written twins of the two pure Go
    reducers; Gen/Bridge.v proves them equal to the functions REGENERATED from the source.
    [iter] is the body of one [runLinktest] loop iteration after the timer fired (suppression
    rule 1 — "line active within the interval" — is the [o_active] flag), and [run] folds it
    over a history of observations. *)
From Coq Require Import ZArith Bool List Lia.
Import ListNotations.
Open Scope Z_scope.

Definition failure_step (suppress : bool) (recvNow sentAt inflight fails recvAtLastFail : Z)
  : Z * Z * bool :=
  if suppress && ((recvNow >? sentAt) || (inflight >? 0)) then (0, recvAtLastFail, true)
  else if suppress && (fails >? 0) && (recvNow >? recvAtLastFail) then (1, recvNow, false)
  else (fails + 1, recvNow, false).

Definition disconnect_recheck (suppress : bool) (inflight recvNow sentAt : Z) : bool :=
  if negb suppress then true else (inflight <=? 0) && (recvNow <=? sentAt).

(** One observation = everything the loop reads from its environment in one iteration. *)
Record obs := {
  o_active : bool;        (* rule 1: a frame moved within the last interval *)
  o_pre_inflight : Z;     (* rule 2: replies outstanding before probing *)
  o_fail : bool;          (* the probe's round trip failed (T6 / write error) *)
  o_sent_at : Z;          (* monotonic stamp taken just before the probe was written *)
  o_recv_now : Z;         (* last-receive stamp at the failure snapshot *)
  o_inflight : Z;         (* replies outstanding at the failure snapshot *)
  o_recv_final : Z;       (* last-receive stamp at the final re-check *)
  o_inflight_final : Z    (* replies outstanding at the final re-check *)
}.

Record lstate := { fails : Z; recv_at_last_fail : Z }.
Definition lstate0 := {| fails := 0; recv_at_last_fail := 0 |}.

(** What an iteration did, in the vocabulary of the control metrics. *)
Record iter_out := {
  io_suppressed : bool;  (* probe skipped by rule 1 or 2 *)
  io_sent : bool;        (* a Linktest.req was written *)
  io_err : bool;         (* the probe failed *)
  io_credited : Z;       (* times the "credited" counter moved (0, 1) *)
  io_down : bool         (* TCPDown(linktest failed) *)
}.

Definition skip_out := {| io_suppressed := true; io_sent := false; io_err := false; io_credited := 0; io_down := false |}.

Definition iter (suppress : bool) (threshold : Z) (s : lstate) (o : obs) : lstate * iter_out :=
  if suppress && (o_active o || (o_pre_inflight o >? 0)) then (s, skip_out)
  else if negb (o_fail o) then
    ({| fails := 0; recv_at_last_fail := recv_at_last_fail s |},
     {| io_suppressed := false; io_sent := true; io_err := false; io_credited := 0; io_down := false |})
  else
    let inflight := if suppress then o_inflight o else 0 in
    let '(f, r, credited) := failure_step suppress (o_recv_now o) (o_sent_at o) inflight (fails s) (recv_at_last_fail s) in
    let c1 := if credited then 1 else 0 in
    if f >=? threshold then
      let inflight_final := if suppress then o_inflight_final o else 0 in
      let recv_final := if suppress then o_recv_final o else o_recv_now o in
      if disconnect_recheck suppress inflight_final recv_final (o_sent_at o) then
        ({| fails := f; recv_at_last_fail := r |},
         {| io_suppressed := false; io_sent := true; io_err := true; io_credited := c1; io_down := true |})
      else
        ({| fails := 0; recv_at_last_fail := recv_at_last_fail s |},
         {| io_suppressed := false; io_sent := true; io_err := true; io_credited := c1 + 1; io_down := false |})
    else
      ({| fails := f; recv_at_last_fail := r |},
       {| io_suppressed := false; io_sent := true; io_err := true; io_credited := c1; io_down := false |}).

(** The loop: stops at the first disconnect. *)
Fixpoint run (suppress : bool) (threshold : Z) (s : lstate) (os : list obs) : list iter_out :=
  match os with
  | [] => []
  | o :: os' =>
      let '(s', out) := iter suppress threshold s o in
      out :: (if io_down out then [] else run suppress threshold s' os')
  end.

(** State after a prefix that did not disconnect. *)
Fixpoint run_state (suppress : bool) (threshold : Z) (s : lstate) (os : list obs) : lstate :=
  match os with
  | [] => s
  | o :: os' => run_state suppress threshold (fst (iter suppress threshold s o)) os'
  end.

Definition disconnected (outs : list iter_out) : bool := existsb io_down outs.
