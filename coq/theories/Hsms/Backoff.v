(** Backoff — executable model of the reconnect backoff arithmetic of
    /repo/hsms/connection_lifecycle.go (nextBackoffDelay and the sleep computation of connectLoop).

    Go source (the function is written with float64, which the translator does not cover, so this
    model is written by hand with Flocq's binary64 and tied to the code by the hook differential
    of harness/cmd/c11):

      func nextBackoffDelay(cur time.Duration, multiplier float64, ceil time.Duration) time.Duration {
          next := time.Duration(float64(cur) * multiplier)
          if next <= 0 { return ceil }
          if next < cur { next = cur }        // added by /repo commit 67dfa20 (see below)
          if next > ceil { return ceil }
          return next
      }

    Before commit 67dfa20 the function read [if next <= 0 || next > ceil { return ceil }; return next]
    ([Backoff_next_delay_old]); that version could shrink a delay above 2^53 ns (DESIGN §5 #7, kept
    as a regression witness).

    float64(cur)        int64 -> binary64, round to nearest even       [Backoff_of_int64]
    a * b               binary64 multiply, round to nearest even       [Bmult mode_NE]
    time.Duration(f)    binary64 -> int64, truncation toward zero; for NaN, infinities and values
                        outside int64 the Go spec leaves the result to the implementation: on amd64
                        (CVTTSD2SQ) it is the "integer indefinite" value -2^63   [Backoff_to_int64]

    No proofs in this file. *)
From Coq Require Import ZArith Bool List.
From Flocq Require Import Core.Core IEEE754.BinarySingleNaN IEEE754.Binary IEEE754.Bits.
Import ListNotations.
Open Scope Z_scope.

#[global] Instance Backoff_prec_gt_0 : FLX.Prec_gt_0 53 := eq_refl.
#[global] Instance Backoff_prec_lt_emax : Prec_lt_emax 53 1024 := eq_refl.

(** binary64 with a single NaN (Go's arithmetic here never inspects a NaN payload). *)
Definition Backoff_f64 := BinarySingleNaN.binary_float 53 1024.

Definition Backoff_two63 : Z := 9223372036854775808.
Definition Backoff_two53 : Z := 9007199254740992.

(** float64(z) for an int64 z. *)
Definition Backoff_of_int64 (z : Z) : Backoff_f64 :=
  BinarySingleNaN.binary_normalize 53 1024 _ _ mode_NE z 0 false.

(** int64(f) as compiled for amd64. *)
Definition Backoff_to_int64 (f : Backoff_f64) : Z :=
  match f with
  | BinarySingleNaN.B754_nan => - Backoff_two63
  | BinarySingleNaN.B754_infinity _ => - Backoff_two63
  | _ => let t := BinarySingleNaN.Btrunc f in
         if (- Backoff_two63 <=? t) && (t <? Backoff_two63) then t else - Backoff_two63
  end.

Definition Backoff_mul (a b : Backoff_f64) : Backoff_f64 :=
  BinarySingleNaN.Bmult mode_NE a b.

(** nextBackoffDelay (current source: after the overflow test, a product that rounded below [cur]
    is raised back to [cur] before the ceiling clamp). *)
Definition Backoff_next_delay (cur : Z) (mult : Backoff_f64) (ceil : Z) : Z :=
  let next := Backoff_to_int64 (Backoff_mul (Backoff_of_int64 cur) mult) in
  if next <=? 0 then ceil else
  let next' := if next <? cur then cur else next in
  if ceil <? next' then ceil else next'.

(** nextBackoffDelay as it was before /repo commit 67dfa20. *)
Definition Backoff_next_delay_old (cur : Z) (mult : Backoff_f64) (ceil : Z) : Z :=
  let next := Backoff_to_int64 (Backoff_mul (Backoff_of_int64 cur) mult) in
  if (next <=? 0) || (ceil <? next) then ceil else next.

(** The option validation of WithReconnectBackoff: [multiplier < 1.0] is refused (so a NaN
    multiplier passes the validation — the comparison is false). *)
Definition Backoff_one : Backoff_f64 := Backoff_of_int64 1.
Definition Backoff_mult_ok (mult : Backoff_f64) : bool :=
  negb (BinarySingleNaN.Bltb mult Backoff_one).

(** connectLoop with a fixed configuration: [delay_0 = initial]; each iteration sleeps
    [min delay T5] and then advances [delay := nextBackoffDelay delay mult T5]. *)
Fixpoint Backoff_delay (init : Z) (mult : Backoff_f64) (t5 : Z) (k : nat) : Z :=
  match k with
  | O => init
  | S k' => Backoff_next_delay (Backoff_delay init mult t5 k') mult t5
  end.

Fixpoint Backoff_delay_old (init : Z) (mult : Backoff_f64) (t5 : Z) (k : nat) : Z :=
  match k with
  | O => init
  | S k' => Backoff_next_delay_old (Backoff_delay_old init mult t5 k') mult t5
  end.

Definition Backoff_cap (d t5 : Z) : Z := if t5 <? d then t5 else d.

Definition Backoff_sleep (init : Z) (mult : Backoff_f64) (t5 : Z) (k : nat) : Z :=
  Backoff_cap (Backoff_delay init mult t5 k) t5.

Definition Backoff_sleep_old (init : Z) (mult : Backoff_f64) (t5 : Z) (k : nat) : Z :=
  Backoff_cap (Backoff_delay_old init mult t5 k) t5.

(** The first [n] sleeps, for the drivers. *)
Fixpoint Backoff_sleeps_from (delay : Z) (mult : Backoff_f64) (t5 : Z) (n : nat) : list Z :=
  match n with
  | O => []
  | S n' => Backoff_cap delay t5 :: Backoff_sleeps_from (Backoff_next_delay delay mult t5) mult t5 n'
  end.

(** Bit-level interface for the correspondence driver: the multiplier travels as the 64-bit
    pattern of the Go float64 (never as text). *)
Definition Backoff_f64_of_bits (bits : Z) : Backoff_f64 := B2BSN 53 1024 (b64_of_bits bits).

Definition Backoff_next_delay_bits (cur bits ceil : Z) : Z :=
  Backoff_next_delay cur (Backoff_f64_of_bits bits) ceil.
Definition Backoff_next_delay_old_bits (cur bits ceil : Z) : Z :=
  Backoff_next_delay_old cur (Backoff_f64_of_bits bits) ceil.
