(** A small verified refutation procedure for propositional goals over [bool]:
    unit propagation + splitting on reified formulas, run by [vm_compute]. *)
From Coq Require Import Bool List Arith Lia.
Import ListNotations.

Inductive bf := BT | BF | BV (n : nat) | BN (f : bf) | BA (f g : bf) | BO (f g : bf).

Fixpoint beval (r : nat -> bool) (f : bf) : bool :=
  match f with
  | BT => true | BF => false | BV n => r n | BN g => negb (beval r g)
  | BA f g => beval r f && beval r g | BO f g => beval r f || beval r g
  end.

Definition mkN (f : bf) : bf := match f with BT => BF | BF => BT | BN g => g | _ => BN f end.
Definition mkA (f g : bf) : bf :=
  match f, g with BF, _ => BF | _, BF => BF | BT, _ => g | _, BT => f | _, _ => BA f g end.
Definition mkO (f g : bf) : bf :=
  match f, g with BT, _ => BT | _, BT => BT | BF, _ => g | _, BF => f | _, _ => BO f g end.

Lemma mkN_ok : forall r f, beval r (mkN f) = negb (beval r f).
Proof. intros r f; destruct f; simpl; try reflexivity. now rewrite negb_involutive. Qed.
Lemma mkA_ok : forall r f g, beval r (mkA f g) = beval r f && beval r g.
Proof. intros r f g; destruct f, g; simpl; rewrite ?andb_true_r, ?andb_false_r; reflexivity. Qed.
Lemma mkO_ok : forall r f g, beval r (mkO f g) = beval r f || beval r g.
Proof. intros r f g; destruct f, g; simpl; rewrite ?orb_true_r, ?orb_false_r; reflexivity. Qed.

(** negation normal form with constant folding: [nnf true f] is [f], [nnf false f] is its negation *)
Fixpoint nnf (pol : bool) (f : bf) : bf :=
  match f with
  | BT => if pol then BT else BF
  | BF => if pol then BF else BT
  | BV n => if pol then BV n else BN (BV n)
  | BN g => nnf (negb pol) g
  | BA f g => if pol then mkA (nnf true f) (nnf true g) else mkO (nnf false f) (nnf false g)
  | BO f g => if pol then mkO (nnf true f) (nnf true g) else mkA (nnf false f) (nnf false g)
  end.

Lemma nnf_ok : forall r f pol, beval r (nnf pol f) = if pol then beval r f else negb (beval r f).
Proof.
  intros r f; induction f; intros pol; simpl.
  - destruct pol; reflexivity.
  - destruct pol; reflexivity.
  - destruct pol; reflexivity.
  - rewrite IHf. destruct pol; simpl; [reflexivity|now rewrite negb_involutive].
  - destruct pol; rewrite ?mkA_ok, ?mkO_ok, IHf1, IHf2; [reflexivity|now rewrite negb_andb].
  - destruct pol; rewrite ?mkA_ok, ?mkO_ok, IHf1, IHf2; [reflexivity|now rewrite negb_orb].
Qed.

(** substitute a value for a variable, folding constants *)
Fixpoint simp (v : nat) (b : bool) (f : bf) : bf :=
  match f with
  | BV n => if n =? v then (if b then BT else BF) else f
  | BN g => mkN (simp v b g)
  | BA f g => mkA (simp v b f) (simp v b g)
  | BO f g => mkO (simp v b f) (simp v b g)
  | c => c
  end.

Lemma simp_ok : forall r v b f, r v = b -> beval r (simp v b f) = beval r f.
Proof.
  intros r v b f H; induction f; simpl; try reflexivity.
  - destruct (Nat.eqb_spec n v); [subst; destruct (r v); reflexivity|reflexivity].
  - now rewrite mkN_ok, IHf.
  - now rewrite mkA_ok, IHf1, IHf2.
  - now rewrite mkO_ok, IHf1, IHf2.
Qed.

(** flatten top-level conjunctions, drop [BT] *)
Fixpoint flat1 (f : bf) (acc : list bf) : list bf :=
  match f with
  | BT => acc
  | BA f g => flat1 f (flat1 g acc)
  | _ => f :: acc
  end.
Definition flatten (fs : list bf) : list bf := fold_right flat1 [] fs.

Lemma flat1_ok : forall r f acc, forallb (beval r) (flat1 f acc) = beval r f && forallb (beval r) acc.
Proof.
  intros r f; induction f; intros acc; simpl; try reflexivity.
  rewrite IHf1, IHf2. now rewrite andb_assoc.
Qed.
Lemma flatten_ok : forall r fs, forallb (beval r) (flatten fs) = forallb (beval r) fs.
Proof. intros r fs; induction fs; simpl; [reflexivity|]. unfold flatten in *; simpl. now rewrite flat1_ok, IHfs. Qed.

Definition is_false (f : bf) : bool := match f with BF => true | _ => false end.
Fixpoint find_unit (fs : list bf) : option (nat * bool) :=
  match fs with
  | [] => None
  | BV v :: _ => Some (v, true)
  | BN (BV v) :: _ => Some (v, false)
  | _ :: r => find_unit r
  end.
Fixpoint first_var (f : bf) : option nat :=
  match f with
  | BV n => Some n
  | BN g => first_var g
  | BA f g | BO f g => match first_var f with Some n => Some n | None => first_var g end
  | _ => None
  end.
Fixpoint pick (fs : list bf) : option nat :=
  match fs with
  | [] => None
  | f :: r => match first_var f with Some n => Some n | None => pick r end
  end.

(** [solve fuel fs = true]: the conjunction of [fs] is unsatisfiable *)
Fixpoint solve (fuel : nat) (fs : list bf) : bool :=
  match fuel with
  | O => false
  | S k =>
    let fs := flatten fs in
    if existsb is_false fs then true else
    match find_unit fs with
    | Some (v, b) => solve k (map (simp v b) fs)
    | None =>
      match pick fs with
      | None => false
      | Some v => solve k (map (simp v true) fs) && solve k (map (simp v false) fs)
      end
    end
  end.

Lemma find_unit_ok : forall r fs v b, find_unit fs = Some (v, b) -> forallb (beval r) fs = true -> r v = b.
Proof.
  intros r fs; induction fs as [|f fs IH]; intros v b H Hall; simpl in *; [discriminate|].
  apply andb_true_iff in Hall; destruct Hall as [Hf Hall].
  destruct f; try (now apply IH).
  - inversion H; subst. exact Hf.
  - destruct f; try (now apply IH). inversion H; subst. simpl in Hf. now apply negb_true_iff in Hf.
Qed.

Lemma map_simp_ok : forall r v b fs, r v = b -> forallb (beval r) (map (simp v b) fs) = forallb (beval r) fs.
Proof. intros r v b fs H; induction fs; simpl; [reflexivity|]. now rewrite simp_ok, IHfs. Qed.

Lemma existsb_false_ok : forall r fs, existsb is_false fs = true -> forallb (beval r) fs = false.
Proof.
  intros r fs; induction fs as [|f fs IH]; simpl; intros H; [discriminate|].
  apply orb_true_iff in H; destruct H as [H|H].
  - destruct f; try discriminate. reflexivity.
  - rewrite IH by assumption. apply andb_false_r.
Qed.

Theorem solve_sound : forall fuel fs, solve fuel fs = true -> forall r, forallb (beval r) fs = false.
Proof.
  induction fuel as [|k IH]; intros fs H r; simpl in H; [discriminate|].
  rewrite <- (flatten_ok r fs).
  destruct (existsb is_false (flatten fs)) eqn:E; [now apply existsb_false_ok|].
  destruct (find_unit (flatten fs)) as [[v b]|] eqn:U.
  - destruct (forallb (beval r) (flatten fs)) eqn:A; [|reflexivity].
    pose proof (find_unit_ok r _ _ _ U A) as Hv.
    rewrite <- (map_simp_ok r v b _ Hv) in A. rewrite (IH _ H r) in A. discriminate.
  - destruct (pick (flatten fs)) as [v|]; [|discriminate].
    apply andb_true_iff in H; destruct H as [H1 H2].
    destruct (r v) eqn:Hv.
    + rewrite <- (map_simp_ok r v true _ Hv). now apply IH.
    + rewrite <- (map_simp_ok r v false _ Hv). now apply IH.
Qed.

(** hypotheses [hs] (all true under [r]) entail [g] *)
Theorem sat_entails : forall fuel r hs g,
  solve fuel (nnf false g :: map (nnf true) hs) = true ->
  forallb (beval r) hs = true -> beval r g = true.
Proof.
  intros fuel r hs g H Hhs. pose proof (solve_sound _ _ H r) as S. simpl in S.
  rewrite nnf_ok in S.
  assert (forallb (beval r) (map (nnf true) hs) = true) as M.
  { clear S H. induction hs; simpl in *; [reflexivity|].
    apply andb_true_iff in Hhs; destruct Hhs. rewrite nnf_ok, IHhs by assumption. now rewrite H. }
  rewrite M, andb_true_r in S. now apply negb_false_iff in S.
Qed.

(** ** reification *)
Ltac bs_index x env :=   (* position of atom x in the list env, counting from the END so env can grow at the head *)
  lazymatch env with
  | x :: ?r => let n := constr:(length r) in n
  | _ :: ?r => bs_index x r
  end.
Ltac bs_mem x env :=
  lazymatch env with
  | @nil _ => constr:(false)
  | x :: _ => constr:(true)
  | _ :: ?r => bs_mem x r
  end.
Ltac bs_atoms t env :=
  lazymatch t with
  | true => env | false => env
  | negb ?a => bs_atoms a env
  | andb ?a ?b => let e := bs_atoms a env in bs_atoms b e
  | orb ?a ?b => let e := bs_atoms a env in bs_atoms b e
  | _ => lazymatch bs_mem t env with true => env | false => constr:(t :: env) end
  end.
Ltac bs_reify t env :=
  lazymatch t with
  | true => constr:(BT) | false => constr:(BF)
  | negb ?a => let a' := bs_reify a env in constr:(BN a')
  | andb ?a ?b => let a' := bs_reify a env in let b' := bs_reify b env in constr:(BA a' b')
  | orb ?a ?b => let a' := bs_reify a env in let b' := bs_reify b env in constr:(BO a' b')
  | _ => let n := bs_index t env in let n' := eval vm_compute in n in constr:(BV n')
  end.

Definition bs_env (l : list bool) (n : nat) : bool := nth n (rev l) false.


Fixpoint bs_arrows (r : nat -> bool) (hs : list bf) (g : bf) : Prop :=
  match hs with
  | [] => beval r g = true
  | h :: rest => beval r h = true -> bs_arrows r rest g
  end.

Theorem sat_arrows : forall fuel r hs g,
  solve fuel (nnf false g :: map (nnf true) hs) = true -> bs_arrows r hs g.
Proof.
  intros fuel r hs g H.
  assert (forall done, forallb (beval r) done = true ->
            (forallb (beval r) (done ++ hs) = true -> beval r g = true) -> bs_arrows r hs g) as G.
  { clear H. induction hs as [|h hs IH]; intros done Hd K; simpl.
    - apply K. now rewrite app_nil_r.
    - intros Hh. apply (IH (done ++ [h])).
      + rewrite forallb_app, Hd. simpl. now rewrite Hh.
      + rewrite <- app_assoc. exact K. }
  apply (G []); [reflexivity|]. simpl. intros A. exact (sat_entails fuel r hs g H A).
Qed.

Ltac bs_collect G env :=
  lazymatch G with
  | (?h = true) -> ?rest => let e := bs_atoms h env in bs_collect rest e
  | ?g = true => bs_atoms g env
  end.
Ltac bs_hyps G env :=
  lazymatch G with
  | (?h = true) -> ?rest => let h' := bs_reify h env in let r := bs_hyps rest env in constr:(h' :: r)
  | _ => constr:(@nil bf)
  end.
Ltac bs_goal G env :=
  lazymatch G with
  | _ -> ?rest => bs_goal rest env
  | ?g = true => bs_reify g env
  end.

(** Proves [h1 = true -> ... -> hn = true -> g = true] (all [bool]) when it is a propositional
    consequence; every non-connective subterm is an atom. *)
Ltac bool_sat_arrows :=
  lazymatch goal with
  | |- ?G =>
    let env := bs_collect G (@nil bool) in
    let hs := bs_hyps G env in
    let g := bs_goal G env in
    refine (sat_arrows 200 (bs_env env) hs g _); vm_compute; reflexivity
  end.

(** Same, taking the hypotheses of the form [_ = true] / [_ = false] from the context. *)
Ltac bool_sat :=
  repeat match goal with
         | H : _ = false |- _ => apply negb_true_iff in H
         end;
  repeat match goal with
         | H : @eq bool _ true |- _ => revert H
         end;
  bool_sat_arrows.

Goal forall a b c d : bool, (negb a || b) = true -> (negb b || (c && d)) = true -> a = true -> d = true.
Proof. intros a b c d. bool_sat_arrows. Qed.
Goal forall a b c d : bool, (negb a || b) = true -> (negb b || (c && d)) = true -> a = true -> negb d = false.
Proof. intros a b c d H1 H2 H3. apply negb_false_iff. bool_sat. Qed.
