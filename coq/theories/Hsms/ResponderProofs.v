(** Proofs about the HSMS-SS responder model (Responder.v) against the E37 table (ResponderSpec.v).

    - [table_*]: one lemma per row of the property statement, stated directly on [respond] with
      the prescribed frame written out;
    - [respond_spec] / [all_sequences]: the code-shaped [respond] equals the table-shaped
      [spec_step] on every frame in every state, hence (induction over the frame list with the
      state relation [R] as invariant) on every sequence, in every configuration;
    - [down_cases] / [never_disconnects_except_separate]: what can end the link;
    - [echo_sysbytes], [outputs_ok], [equip_irrelevant];
    - [second_connection]: a passive endpoint adopts the first connection of a listener
      generation, refuses every later one, and the live session's outputs are those of the same
      frames with all other connections erased. *)
From Coq Require Import ZArith Bool List Lia.
From GoSecs Require Import Hsms.Responder Hsms.ResponderSpec Hsms.ResponderRefine.
Import ListNotations.
Open Scope Z_scope.

(** * What the classes of the table mean *)

(** a header-only control frame of SType [st] *)
Definition ctrl_frame (f : frame) (st : Z) : Prop := f_pt f = 0 /\ f_st f = st /\ f_body f = [].

Definition session_ok (c : cfg) (f : frame) : Prop :=
  c_validate c = false \/ f_sid f = c_sid c \/ is_s9f1 f = true.

Lemma classify_cases c f :
  match classify c f with
  | KBadPType => f_pt f <> 0
  | KBadSType => f_pt f = 0 /\ valid_stype (f_st f) = false
  | KCtrlBody => f_pt f = 0 /\ valid_stype (f_st f) = true /\ f_st f <> 0 /\ f_body f <> []
  | KSelectReq => ctrl_frame f 1
  | KDeselectReq => ctrl_frame f 3
  | KLinktestReq => ctrl_frame f 5
  | KSeparateReq => ctrl_frame f 9
  | KSelectRspAccept => ctrl_frame f 2 /\ f_b3 f = 0
  | KSelectRspActive => ctrl_frame f 2 /\ f_b3 f = 1
  | KSelectRspRefuse => ctrl_frame f 2 /\ f_b3 f <> 0 /\ f_b3 f <> 1
  | KOtherRsp => ctrl_frame f 4 \/ ctrl_frame f 6
  | KRejectReq => ctrl_frame f 7
  | KDataForeign => f_pt f = 0 /\ f_st f = 0 /\ c_validate c = true /\ f_sid f <> c_sid c /\ is_s9f1 f = false
  | KDataReply => f_pt f = 0 /\ f_st f = 0 /\ session_ok c f /\ is_secondary f = true
  | KDataPrimary => f_pt f = 0 /\ f_st f = 0 /\ session_ok c f /\ is_secondary f = false
  end.
Proof.
  destruct f as [sid b2 b3 pt st sys body]. unfold classify, ctrl_frame, session_ok, is_s9f1, is_secondary, has_body; projs.
  destruct (Z.eqb_spec pt 0) as [->|Hpt]; cbn [negb]; [|exact Hpt].
  destruct (Z.eqb_spec st 0) as [->|H0].
  { destruct (c_validate c); cbn [andb].
    - destruct (Z.eqb_spec sid (c_sid c)) as [->|Hs]; cbn [negb andb].
      + destruct ((b2 <? 128) && (b3 mod 2 =? 0)); intuition congruence.
      + destruct ((b2 mod 128 =? 9) && (b3 =? 1)) eqn:E; cbn [negb]; [|intuition congruence].
        destruct ((b2 <? 128) && (b3 mod 2 =? 0)); intuition congruence.
    - destruct ((b2 <? 128) && (b3 mod 2 =? 0)); intuition congruence. }
  destruct ((1 <=? st) && (st <=? 7) || (st =? 9)) eqn:V.
  - assert (Hv : valid_stype st = true).
    { unfold valid_stype. apply orb_true_iff in V. rewrite andb_true_iff, !Z.leb_le, Z.eqb_eq in V.
      rewrite !orb_true_iff, !Z.eqb_eq. lia. }
    destruct body as [|x body].
    2: { repeat split; auto. discriminate. }
    destruct (Z.eqb_spec st 1) as [->|H1]; [auto|].
    destruct (Z.eqb_spec st 2) as [->|H2].
    { destruct (Z.eqb_spec b3 0); [auto|]. destruct (Z.eqb_spec b3 1); auto. }
    destruct (Z.eqb_spec st 3) as [->|H3]; [auto|].
    destruct (Z.eqb_spec st 4) as [->|H4]; [auto|].
    destruct (Z.eqb_spec st 5) as [->|H5]; [auto|].
    destruct (Z.eqb_spec st 6) as [->|H6]; [auto|].
    destruct (Z.eqb_spec st 7) as [->|H7]; [auto|].
    apply orb_true_iff in V. rewrite andb_true_iff, !Z.leb_le, Z.eqb_eq in V.
    assert (st = 9) by lia. subst. auto.
  - split; [reflexivity|]. unfold valid_stype. apply orb_false_iff in V. rewrite andb_false_iff, !Z.leb_gt, Z.eqb_neq in V.
    rewrite !orb_false_iff, !Z.eqb_neq. lia.
Qed.

Definition obs_of (st : step_obs) : spec_obs :=
  {| sp_outs := so_outs st; sp_eff := so_eff st; sp_sel := selected (so_state st) |}.

Lemma run_refines c : forall fs s ss, R s ss -> spec_run c ss fs = map obs_of (run c s fs).
Proof.
  induction fs as [|f fs IH]; intros s ss HR; [reflexivity|].
  cbn [run spec_run]. destruct (respond c s f) as [[s' o] e] eqn:E.
  destruct (step_refines _ _ _ _ _ _ _ HR E) as (ss' & Hs & HR'). rewrite Hs.
  cbn [map obs_of so_outs so_eff so_state].
  assert (Hsel : s_sel ss' = selected s') by apply HR'. rewrite Hsel. f_equal.
  destruct e; [apply IH; exact HR'|reflexivity].
Qed.

Lemma start_refines c ctr0 :
  R (fst (start c ctr0)) (fst (spec_start c ctr0)) /\ snd (spec_start c ctr0) = snd (start c ctr0).
Proof.
  unfold start, spec_start, next_sys, select_req, ctrl, hdr; consts. destruct (c_active c); cbn; repeat split.
Qed.

Lemma flat_map_map {A B C} (g : A -> B) (h : B -> list C) l :
  flat_map h (map g l) = flat_map (fun x => h (g x)) l.
Proof. induction l; cbn; [reflexivity|]. rewrite IHl. reflexivity. Qed.

Theorem all_sequences : forall c ctr0 fs, link_outputs c ctr0 fs = spec_outputs c ctr0 fs.
Proof.
  intros c ctr0 fs. unfold link_outputs, spec_outputs, outputs.
  destruct (start_refines c ctr0) as (HR & Ho). rewrite Ho. f_equal.
  rewrite (run_refines c fs _ _ HR), flat_map_map. reflexivity.
Qed.

(** per-frame version: outputs, link effect and selected state agree at every position *)
Theorem all_sequences_stepwise : forall c ctr0 fs,
  spec_run c (fst (spec_start c ctr0)) fs = map obs_of (run c (fst (start c ctr0)) fs).
Proof. intros. apply run_refines, start_refines. Qed.

(** * The table, row by row, on [respond] itself *)


Ltac row :=
  match goal with
  | [ f : frame, s : rstate |- _ ] =>
    destruct f as [sid b2 b3 pt st sys body]; destruct s as [sel op ct]; unfold ctrl_frame in *; projs;
    intuition (subst; try discriminate); unf; consts; projs; cbn -[Z.modulo Z.div header_bytes]
  end.

Lemma table_select_first c s f : ctrl_frame f 1 -> selected s = false ->
  respond c s f = (set_selected s true, [Send (ctrl (f_sid f) 0 0 2 (f_sys f))], Keep).
Proof. row. reflexivity. Qed.

Lemma table_select_again c s f : ctrl_frame f 1 -> selected s = true ->
  respond c s f = (s, [Send (ctrl (f_sid f) 0 1 2 (f_sys f))], Keep).
Proof. row. reflexivity. Qed.

Lemma table_deselect_selected c s f : ctrl_frame f 3 -> selected s = true ->
  respond c s f = (set_selected s false, [Send (ctrl (f_sid f) 0 0 4 (f_sys f))], Keep).
Proof. row. reflexivity. Qed.

Lemma table_deselect_not_selected c s f : ctrl_frame f 3 -> selected s = false ->
  respond c s f = (s, [Send (ctrl (f_sid f) 0 1 4 (f_sys f))], Keep).
Proof. row. reflexivity. Qed.

Lemma table_linktest c s f : ctrl_frame f 5 ->
  respond c s f = (s, [Send (ctrl 65535 0 0 6 (f_sys f))], Keep).
Proof. row. reflexivity. Qed.

(** PType <> 0, whatever the rest of the header says: Reject.req reason 2 carrying the PType *)
Lemma table_ptype c s f : f_pt f <> 0 ->
  respond c s f = (s, [Send (ctrl (f_sid f) (f_pt f) 2 7 (f_sys f))], Keep).
Proof.
  destruct f as [sid b2 b3 pt st sys body]; projs; intros H. unf; consts; projs.
  destruct (Z.eqb_spec pt 0); [contradiction|]. reflexivity.
Qed.

(** undefined SType (with or without a body): Reject.req reason 1 carrying the SType *)
Lemma table_stype c s f : f_pt f = 0 -> valid_stype (f_st f) = false ->
  respond c s f = (s, [Send (ctrl (f_sid f) (f_st f) 1 7 (f_sys f))], Keep).
Proof.
  destruct f as [sid b2 b3 pt st sys body]; projs; intros -> H. unf; consts; projs.
  rewrite H. reflexivity.
Qed.

(** a control frame with a body: Reject.req reason 1 carrying the SType *)
Lemma table_ctrl_body c s f : f_pt f = 0 -> valid_stype (f_st f) = true -> f_st f <> 0 -> f_body f <> [] ->
  respond c s f = (s, [Send (ctrl (f_sid f) (f_st f) 1 7 (f_sys f))], Keep).
Proof.
  destruct f as [sid b2 b3 pt st sys body]; projs; intros -> H H0 Hb. unf; consts; projs.
  rewrite H. destruct (Z.eqb_spec st 0); [contradiction|]. destruct body; [contradiction|]. reflexivity.
Qed.

(** a response with no open transaction: Reject.req reason 3 carrying its SType *)
Lemma table_orphan_response c s f st : ctrl_frame f st -> st = 2 \/ st = 4 \/ st = 6 ->
  mem (f_sys f) (opens s) = false ->
  respond c s f = (s, [Send (ctrl (f_sid f) st 3 7 (f_sys f))], Keep).
Proof.
  destruct f as [sid b2 b3 pt st0 sys body]; destruct s as [sel op ct]; unfold ctrl_frame; projs.
  intros (-> & -> & ->) Hst Hm. unf; consts; projs.
  destruct Hst as [->|[->| ->]]; cbn; rewrite Hm; reflexivity.
Qed.

Lemma table_orphan_reject c s f : ctrl_frame f 7 -> mem (f_sys f) (opens s) = false ->
  respond c s f = (s, [], Keep).
Proof.
  destruct f as [sid b2 b3 pt st0 sys body]; destruct s as [sel op ct]; unfold ctrl_frame; projs.
  intros (-> & -> & ->) Hm. unf; consts; projs. cbn; rewrite Hm; reflexivity.
Qed.

(** Separate.req while Selected: the connection ends and NOTHING is sent back *)
Lemma table_separate_selected c s f : ctrl_frame f 9 -> selected s = true ->
  respond c s f = (s, [], Down).
Proof. row. reflexivity. Qed.

Lemma table_separate_not_selected c s f : ctrl_frame f 9 -> selected s = false ->
  respond c s f = (s, [], Keep).
Proof. row. reflexivity. Qed.

(** data while not selected: Reject.req reason 4 (C07's row; kept so that the fold is total) *)
Lemma table_data_not_selected c s f : f_pt f = 0 -> f_st f = 0 -> selected s = false ->
  respond c s f = (s, [Send (ctrl (f_sid f) 0 4 7 (f_sys f))], Keep).
Proof. row. reflexivity. Qed.

(** data while selected *)
Lemma table_data_foreign_session c s f : f_pt f = 0 -> f_st f = 0 -> selected s = true ->
  c_validate c = true -> f_sid f <> c_sid c -> is_s9f1 f = false ->
  respond c s f =
  ({| selected := true; opens := opens s; ctr := next_sys (ctr s) |},
   [Send {| f_sid := c_sid c; f_b2 := 9; f_b3 := 1; f_pt := 0; f_st := 0; f_sys := next_sys (ctr s);
            f_body := 33 :: 10 :: header_bytes f |}], Keep).
Proof.
  destruct f as [sid b2 b3 pt st sys body]; destruct s as [sel op ct]; projs.
  intros -> -> -> Hv Hs H9. unfold respond, deliver_owned; consts; projs. cbn [valid_stype Z.eqb negb orb andb].
  rewrite Hv, H9. apply Z.eqb_neq in Hs; rewrite Hs. reflexivity.
Qed.

Lemma table_data_delivered c s f : f_pt f = 0 -> f_st f = 0 -> selected s = true ->
  (c_validate c = false \/ f_sid f = c_sid c \/ is_s9f1 f = true) ->
  (is_secondary f = false \/ mem (f_sys f) (opens s) = false) ->
  respond c s f = (s, [Deliver f], Keep).
Proof.
  destruct f as [sid b2 b3 pt st sys body]; destruct s as [sel op ct]; projs.
  intros -> -> -> Hv Hm. unfold respond, deliver_owned; consts; projs. cbn [valid_stype Z.eqb negb orb andb].
  replace (c_validate c && negb (is_s9f1 _ || (sid =? c_sid c))) with false.
  2: { symmetry. destruct Hv as [->|[->| ->]]; [reflexivity| |].
       - rewrite Z.eqb_refl, orb_true_r. apply andb_false_r.
       - apply andb_false_r. }
  replace (is_secondary _ && mem sys op) with false.
  2: { symmetry. destruct Hm as [->| Hm]; [reflexivity|]. projs. rewrite Hm. apply andb_false_r. }
  reflexivity.
Qed.

(** the answer to this side's own open Select.req *)
Lemma table_own_select_accepted c s f : ctrl_frame f 2 -> f_b3 f = 0 -> mem (f_sys f) (opens s) = true ->
  respond c s f = (set_selected (close_txn s (f_sys f)) true, [], Keep).
Proof.
  destruct f as [sid b2 b3 pt st0 sys body]; destruct s as [sel op ct]; unfold ctrl_frame; projs.
  intros (-> & -> & ->) -> Hm. unf; consts; projs. cbn; rewrite Hm; reflexivity.
Qed.

Lemma table_own_select_already_active c s f : ctrl_frame f 2 -> f_b3 f = 1 -> mem (f_sys f) (opens s) = true ->
  respond c s f = (close_txn s (f_sys f), [], Keep).
Proof.
  destruct f as [sid b2 b3 pt st0 sys body]; destruct s as [sel op ct]; unfold ctrl_frame; projs.
  intros (-> & -> & ->) -> Hm. unf; consts; projs. cbn; rewrite Hm; reflexivity.
Qed.

(** * What ends the link *)

Definition separate_while_selected (s : rstate) (f : frame) : Prop :=
  ctrl_frame f 9 /\ selected s = true.

(** a frame carrying the system bytes of a transaction this side has open, which is not an
    acceptance of it: the failure of this side's OWN procedure (the active Select) *)
Definition own_transaction_failed (s : rstate) (f : frame) : Prop :=
  mem (f_sys f) (opens s) = true /\ f_pt f = 0 /\
  ((f_st f = 2 /\ f_body f = [] /\ f_b3 f <> 0 /\ f_b3 f <> 1) \/
   ((f_st f = 4 \/ f_st f = 6 \/ f_st f = 7) /\ f_body f = []) \/
   (f_st f = 0 /\ selected s = true /\ is_secondary f = true)).

Lemma to_spec_inj a b : to_spec a = to_spec b -> a = b.
Proof. destruct a, b; unfold to_spec; cbn; intros H; inversion H; reflexivity. Qed.

Lemma down_cases c s f s' o :
  respond c s f = (s', o, Down) ->
  o = [] /\ selected s' = selected s /\
  (separate_while_selected s f /\ s' = s \/ own_transaction_failed s f).
Proof.
  intros H. pose proof (respond_spec c s f) as Hs. rewrite H in Hs. unfold spec_step in Hs.
  pose proof (classify_cases c f) as Hc.
  unfold separate_while_selected, own_transaction_failed.
  destruct s as [sel op ct], s' as [sel' op' ct']. unfold to_spec in Hs. projs.
  destruct (classify c f), sel, (mem (f_sys f) op) eqn:Hm;
    cbn in Hs; inversion Hs; subst; clear Hs; (split; [reflexivity|split; [reflexivity|]]).
  all: unfold ctrl_frame in Hc.
  1,2: left; split; [split; [exact Hc|reflexivity]|reflexivity].
  all: right; split; [reflexivity|]; intuition.
Qed.

Lemma mem_remove y : forall l x, mem x (remove y l) = true -> mem x l = true.
Proof.
  induction l as [|z l IH]; cbn; intros x H; [discriminate|].
  destruct (y =? z); [rewrite (IH _ H); apply orb_true_r|].
  cbn in H. apply orb_true_iff in H. destruct H as [->|H]; [reflexivity|]. rewrite (IH _ H). apply orb_true_r.
Qed.

(** no frame from the peer ever opens a transaction on this side *)
Lemma opens_shrink c s f s' o e : respond c s f = (s', o, e) ->
  forall x, mem x (opens s') = true -> mem x (opens s) = true.
Proof.
  intros H x. pose proof (respond_spec c s f) as Hs. rewrite H in Hs. unfold spec_step in Hs.
  destruct s as [sel op ct], s' as [sel' op' ct']. unfold to_spec in Hs. projs.
  injection Hs as Hsel Hop Hctr Ho He. subst op'.
  destruct (r_completes _); [apply mem_remove|auto].
Qed.

Lemma run_opens c : forall fs s st, In st (run c s fs) ->
  forall x, mem x (opens (so_state st)) = true -> mem x (opens s) = true.
Proof.
  induction fs as [|f fs IH]; intros s st Hin x Hx; [contradiction|].
  cbn [run] in Hin. destruct (respond c s f) as [[s' o] e] eqn:E.
  destruct Hin as [<-|Hin].
  - cbn in Hx. eapply opens_shrink; eauto.
  - destruct e; [|contradiction]. eapply opens_shrink; eauto.
Qed.

(** every step of a run, with the state it started from *)
Lemma run_step_inv c : forall fs s st, In st (run c s fs) ->
  exists s0, respond c s0 (so_frame st) = (so_state st, so_outs st, so_eff st) /\
             (forall x, mem x (opens s0) = true -> mem x (opens s) = true).
Proof.
  induction fs as [|f fs IH]; intros s st Hin; [contradiction|].
  cbn [run] in Hin. destruct (respond c s f) as [[s' o] e] eqn:E.
  destruct Hin as [<-|Hin].
  - exists s. cbn. split; [exact E|auto].
  - destruct e; [|contradiction]. destruct (IH _ _ Hin) as (s0 & H1 & H2).
    exists s0. split; [exact H1|]. intros x Hx. eapply opens_shrink; eauto.
Qed.

(** The link ends only (a) on a Separate.req received while Selected, with nothing sent back, or
    (b) when the peer answers THIS side's own open Select.req with something that is not an
    acceptance. In particular no PType / SType / body / orphan-response frame ever ends it. *)
Theorem never_disconnects_except_separate : forall c ctr0 fs st,
  In st (run c (fst (start c ctr0)) fs) -> so_eff st = Down ->
  so_outs st = [] /\
  ((ctrl_frame (so_frame st) 9 /\ selected (so_state st) = true) \/
   (c_active c = true /\ f_sys (so_frame st) = next_sys ctr0 /\
    exists s0, own_transaction_failed s0 (so_frame st))).
Proof.
  intros c ctr0 fs st Hin Hd. destruct (run_step_inv _ _ _ _ Hin) as (s0 & Hr & Hop).
  rewrite Hd in Hr. destruct (down_cases _ _ _ _ _ Hr) as (Ho & Hsel & [[[Hc Hs] Heq]|Hown]).
  - split; [exact Ho|]. left. split; [exact Hc|]. rewrite Hsel. exact Hs.
  - split; [exact Ho|]. right. destruct Hown as (Hm & Hrest). specialize (Hop _ Hm).
    unfold start in Hop. destruct (c_active c); cbn in Hop; [|discriminate].
    rewrite orb_false_r in Hop. apply Z.eqb_eq in Hop. repeat split; [exact Hop|].
    exists s0. split; assumption.
Qed.

(** the passive side opens no transaction: only Separate-while-Selected ends its link *)
Corollary passive_never_disconnects_except_separate : forall c ctr0 fs st,
  c_active c = false -> In st (run c (fst (start c ctr0)) fs) -> so_eff st = Down ->
  so_outs st = [] /\ ctrl_frame (so_frame st) 9 /\ selected (so_state st) = true.
Proof.
  intros c ctr0 fs st Hp Hin Hd.
  destruct (never_disconnects_except_separate _ _ _ _ Hin Hd) as (Ho & [H|(Ha & _)]).
  - split; [exact Ho|exact H].
  - rewrite Hp in Ha. discriminate.
Qed.

(** the four Reject classes of the statement never end the link and never move the state *)
Definition reject_class (s : rstate) (f : frame) : Prop :=
  f_pt f <> 0 \/ valid_stype (f_st f) = false \/
  (valid_stype (f_st f) = true /\ f_st f <> 0 /\ f_body f <> []) \/
  (ctrl_frame f (f_st f) /\ (f_st f = 2 \/ f_st f = 4 \/ f_st f = 6) /\ mem (f_sys f) (opens s) = false).

Theorem reject_classes_keep c s f : reject_class s f ->
  exists reason tybyte, respond c s f = (s, [Send (ctrl (f_sid f) tybyte reason 7 (f_sys f))], Keep) /\
    (reason = 1 \/ reason = 2 \/ reason = 3) /\ (tybyte = f_pt f \/ tybyte = f_st f).
Proof.
  intros [H|H].
  { exists 2, (f_pt f). rewrite (table_ptype c s f H). auto. }
  destruct (Z.eq_dec (f_pt f) 0) as [Hp|Hp].
  2: { exists 2, (f_pt f). rewrite (table_ptype c s f Hp). auto. }
  destruct H as [H|[(H1 & H2 & H3)|((_ & _ & Hb) & Hst & Hm)]].
  - exists 1, (f_st f). rewrite (table_stype c s f Hp H). auto.
  - exists 1, (f_st f). rewrite (table_ctrl_body c s f Hp H1 H2 H3). auto.
  - exists 3, (f_st f). rewrite (table_orphan_response c s f (f_st f)); auto. repeat split; auto.
Qed.

(** * Echoing, well-formedness, role *)

Definition echoes (s' : rstate) (f : frame) (x : out) : Prop :=
  match x with
  | Send g => f_sys g = f_sys f \/ (f_st g = 0 /\ f_sys g = ctr s')
  | Deliver g => g = f
  end.

(** every frame sent back carries the system bytes of the frame it answers; the one exception is
    the S9F1 notification, a new primary with fresh system bytes *)
Lemma echo_sysbytes c s f s' o e : respond c s f = (s', o, e) -> Forall (echoes s' f) o.
Proof.
  intros H. pose proof (respond_spec c s f) as Hs. rewrite H in Hs. unfold spec_step in Hs.
  inversion Hs as [[Hsel Hop Hctr Ho He]]. clear Hs.
  destruct (r_reply _) as [r|]; [|constructor].
  constructor; [|constructor]. destruct r; cbn; auto.
Qed.

Definition cfg_ok (c : cfg) : Prop := 0 <= c_sid c < 65536.
Definition state_ok (s : rstate) : Prop := 0 <= ctr s < 4294967296.

Lemma header_bytes_ok f : frame_ok f -> Forall byte_ok (header_bytes f).
Proof.
  unfold frame_ok, byte_ok, header_bytes. intros (Hs & H2 & H3 & Hp & Ht & Hy & _).
  repeat constructor; try lia.
  all: try (apply Z.div_pos; lia).
  all: try (apply Z.div_lt_upper_bound; lia).
  all: try (apply Z.mod_pos_bound; lia).
Qed.

Definition out_ok (x : out) : Prop := match x with Send g => frame_ok g | Deliver g => frame_ok g end.

Lemma next_sys_ok n : 0 <= next_sys n < 4294967296.
Proof. unfold next_sys. apply Z.mod_pos_bound. lia. Qed.

(** outputs are frames of bytes, and the counter stays a 32-bit value *)
Lemma outputs_ok c s f s' o e : cfg_ok c -> state_ok s -> frame_ok f ->
  respond c s f = (s', o, e) -> Forall out_ok o /\ state_ok s'.
Proof.
  intros Hc Hst Hf H. pose proof (respond_spec c s f) as Hs. rewrite H in Hs. unfold spec_step in Hs.
  destruct s as [sel op ct], s' as [sel' op' ct']. unfold to_spec in Hs; projs. unfold state_ok, cfg_ok in *; projs.
  pose proof (header_bytes_ok f Hf) as Hh. pose proof Hf as Hf'.
  destruct Hf' as (Hs1 & H2 & H3 & Hp & Ht & Hy & Hb). unfold byte_ok in *.
  assert (Hn : 0 <= (ct + 1) mod 4294967296 < 4294967296) by (apply Z.mod_pos_bound; lia).
  destruct (classify c f), sel, (mem (f_sys f) op); cbn -[header_bytes] in Hs; injection Hs as ? ? ? ? ?; subst;
    (split; [|assumption]).
  all: try (constructor; fail).
  all: (constructor; [|constructor]); cbn [out_ok]; try exact Hf.
  all: unfold frame_ok, byte_ok, hdr; cbn [f_sid f_b2 f_b3 f_pt f_st f_sys f_body].
  all: repeat match goal with |- _ /\ _ => split end; try lia.
  all: try (constructor; fail).
  all: constructor; [lia|constructor; [lia|exact Hh]].
Qed.

Definition with_equip (c : cfg) (b : bool) : cfg :=
  {| c_active := c_active c; c_sid := c_sid c; c_validate := c_validate c; c_equip := b |}.

(** the equipment / host role is read by no responder branch; the active / passive role only
    decides who initiates Select *)
Lemma equip_irrelevant c b s f : respond (with_equip c b) s f = respond c s f.
Proof. reflexivity. Qed.

Definition with_active (c : cfg) (b : bool) : cfg :=
  {| c_active := b; c_sid := c_sid c; c_validate := c_validate c; c_equip := c_equip c |}.

Lemma active_irrelevant c b s f : respond (with_active c b) s f = respond c s f.
Proof. reflexivity. Qed.

(** * Second connection to a passive endpoint *)

Definition frames_of (k : Z) (es : list pevent) : list frame :=
  flat_map (fun e => match e with PFrame k' f => if k' =? k then [f] else [] | PAccept _ => [] end) es.
Definition accepts_of (es : list pevent) : list Z :=
  flat_map (fun e => match e with PAccept k => [k] | PFrame _ _ => [] end) es.
Definition live_outs (ps : list pout) : list out :=
  flat_map (fun p => match p with POut _ o => [o] | _ => [] end) ps.
Definition refusals (ps : list pout) : list Z :=
  flat_map (fun p => match p with PRefused k => [k] | _ => [] end) ps.
Definition adoptions (ps : list pout) : list Z :=
  flat_map (fun p => match p with PAdopted k => [k] | _ => [] end) ps.

Lemma live_outs_app a b : live_outs (a ++ b) = live_outs a ++ live_outs b.
Proof. apply flat_map_app. Qed.
Lemma refusals_app a b : refusals (a ++ b) = refusals a ++ refusals b.
Proof. apply flat_map_app. Qed.
Lemma adoptions_app a b : adoptions (a ++ b) = adoptions a ++ adoptions b.
Proof. apply flat_map_app. Qed.

Lemma live_outs_map k o : live_outs (map (POut k) o) = o.
Proof. induction o; cbn; [reflexivity|]. f_equal. exact IHo. Qed.
Lemma refusals_map k o : refusals (map (POut k) o) = [].
Proof. induction o; cbn; auto. Qed.
Lemma adoptions_map k o : adoptions (map (POut k) o) = [].
Proof. induction o; cbn; auto. Qed.

(** once a connection is live: every accept is refused, nothing else is adopted, and the live
    session sees exactly its own frames (until it ends) *)
Lemma prun_live c k0 : forall es s,
  let ps := prun c {| live := Some k0; ended := false; rs := s |} es in
  live_outs ps = outputs c s (frames_of k0 es) /\ refusals ps = accepts_of es /\ adoptions ps = [].
Proof.
  assert (Hend : forall es s, let ps := prun c {| live := Some k0; ended := true; rs := s |} es in
            live_outs ps = [] /\ refusals ps = accepts_of es /\ adoptions ps = []).
  { induction es as [|e es IH]; intros s; cbn [prun]; [repeat split|].
    destruct e as [k|k f]; cbn [pstep live ended rs].
    - destruct (IH s) as (A & B & C). cbn zeta in *. rewrite live_outs_app, refusals_app, adoptions_app, A, B, C. repeat split.
    - rewrite andb_false_r. cbn [app]. apply IH. }
  induction es as [|e es IH]; intros s; cbn [prun]; [repeat split|].
  destruct e as [k|k f]; cbn [pstep live ended rs].
  - destruct (IH s) as (A & B & C). cbn zeta in *. rewrite live_outs_app, refusals_app, adoptions_app, A, B, C. repeat split.
  - cbn [frames_of flat_map]. destruct (k =? k0); cbn [andb negb app].
    + destruct (respond c s f) as [[s' o] e] eqn:E. unfold outputs. cbn [run app]. rewrite E.
      cbn [flat_map so_outs]. rewrite live_outs_app, refusals_app, adoptions_app, live_outs_app, refusals_app, adoptions_app,
        live_outs_map, refusals_map, adoptions_map.
      destruct e.
      * destruct (IH s') as (A & B & C). cbn zeta in *. fold (frames_of k0 es). unfold outputs in A. rewrite A, B, C. cbn. rewrite app_nil_r. repeat split.
      * destruct (Hend es s') as (A & B & C). cbn zeta in *. rewrite A, B, C. cbn. rewrite app_nil_r. repeat split.
    + apply IH.
Qed.

(** One listener generation of a passive endpoint: the first connection is adopted, EVERY later
    one is refused, and what the live session sends and delivers is exactly what it would with
    all other connections erased from the history. *)
Theorem second_connection : forall c ctr0 k0 es,
  let ps := prun c (pstart ctr0) (PAccept k0 :: es) in
  adoptions ps = [k0] /\
  refusals ps = accepts_of es /\
  live_outs ps = outputs c (fst (start (with_active c false) ctr0)) (frames_of k0 es).
Proof.
  intros c ctr0 k0 es. cbn zeta. unfold pstart. cbn [prun pstep live rs].
  destruct (prun_live c k0 es {| selected := false; opens := []; ctr := ctr0 |}) as (A & B & C). cbn zeta in *.
  rewrite adoptions_app, refusals_app, live_outs_app, A, B, C. repeat split.
Qed.

(** * Every request is answered exactly once, by its own response type, on the same system bytes *)
Theorem requests_answered c s f st : ctrl_frame f st -> st = 1 \/ st = 3 \/ st = 5 ->
  exists s' sid status,
    respond c s f = (s', [Send (ctrl sid 0 status (st + 1) (f_sys f))], Keep) /\
    opens s' = opens s /\ ctr s' = ctr s.
Proof.
  intros Hc [->|[->| ->]]; destruct (selected s) eqn:Hsel.
  - exists s, (f_sid f), 1. rewrite (table_select_again c s f Hc Hsel). auto.
  - exists (set_selected s true), (f_sid f), 0. rewrite (table_select_first c s f Hc Hsel). auto.
  - exists (set_selected s false), (f_sid f), 0. rewrite (table_deselect_selected c s f Hc Hsel). auto.
  - exists s, (f_sid f), 1. rewrite (table_deselect_not_selected c s f Hc Hsel). auto.
  - exists s, 65535, 0. rewrite (table_linktest c s f Hc). auto.
  - exists s, 65535, 0. rewrite (table_linktest c s f Hc). auto.
Qed.
