(** SendCoreGate — the send gate (B1 / B2), inbound data while not selected, and pipelined data
    behind the select, as exact statements about single steps and about whole runs of the LTS. *)
From Coq Require Import ZArith Bool List Lia.
From GoSecs Require Import Hsms.SendCore.
Import ListNotations.
Open Scope Z_scope.

Section Gate.
Variable fx : bool.
Variable p : cfg.

(** * The gate, step by step *)

(* never opened: ErrNotOpen, no counter change, nothing else happens *)
Lemma gate_not_open : forall s c, c_pc c = PEnter -> opened s = false ->
  forall ch s' os, step_call fx p s c ch = Some (s', os) ->
    ch = CGo /\ s' = upd s (set_pc c (PDone RNotOpen)) /\ os = [ORet (c_id c) RNotOpen 0] /\ drops s' = drops s.
Proof.
  intros s c PC O ch s' os H. unfold step_call in H. rewrite PC in H.
  destruct ch; try discriminate. rewrite O in H. unfold finish in H. inversion H; subst. auto.
Qed.

(* B1: the one read of st saw not-Selected: drop++ exactly once, ErrNotSelectedState, no write *)
Lemma gate_B1 : forall s c, c_pc c = PGate -> isdata c = true -> selected s = false ->
  forall ch s' os, step_call fx p s c ch = Some (s', os) ->
    ch = CGo /\ s' = upd (w_drops s (drops s + 1)) (set_pc c (PDone RNotSelected)) /\
    os = [ORet (c_id c) RNotSelected 0] /\ drops s' = drops s + 1.
Proof.
  intros s c PC D S ch s' os H. unfold step_call in H. rewrite PC in H.
  destruct ch; try discriminate. rewrite D, S in H. cbn in H. unfold finish in H. inversion H; subst. auto.
Qed.

(* B2: the re-read under the write lock saw not-Selected: drop++ exactly once, nothing written,
   the only continuation is the deferred deregister + return of ErrNotSelectedState *)
Lemma gate_B2 : forall s c, c_pc c = PCheck -> wr_ok s (c_gen c) = true -> isdata c = true -> selected s = false ->
  forall ch s' os, step_call fx p s c ch = Some (s', os) ->
    ch = CGo /\ s' = upd (w_drops s (drops s + 1)) (set_pc c (PExit RNotSelected)) /\ os = [] /\ drops s' = drops s + 1.
Proof.
  intros s c PC W D S ch s' os H. unfold step_call in H. rewrite PC in H.
  destruct ch; try discriminate. rewrite W, D, S in H. cbn in H. inversion H; subst. auto.
Qed.

Lemma exit_only_returns : forall s c r, c_pc c = PExit r ->
  forall ch s' os, step_call fx p s c ch = Some (s', os) ->
    ch = CGo /\ (exists el, os = [ORet (c_id c) r el]) /\ drops s' = drops s /\
    exists c', calls s' = put c' (calls s) /\ c_pc c' = PDone r.
Proof.
  intros s c r PC ch s' os H. unfold step_call in H. rewrite PC in H.
  destruct ch; try discriminate. unfold finish in H. inversion H; subst.
  split; [reflexivity|]. split; [eauto|]. split; [destruct (needs_reg c); reflexivity|].
  exists (set_pc c (PDone r)). split; [destruct (needs_reg c); reflexivity | reflexivity].
Qed.

Lemma done_terminal : forall s c r ch, c_pc c = PDone r -> step_call fx p s c ch = None.
Proof. intros s c r ch PC. unfold step_call. rewrite PC. destruct ch; reflexivity. Qed.

(* control messages are not gated: whatever the connection state *)
Lemma control_not_gated_B1 : forall s c, c_pc c = PGate -> isdata c = false ->
  step_call fx p s c CGo = Some (upd s (set_pc c (after_gate c)), []).
Proof. intros s c PC D. unfold step_call. rewrite PC, D. reflexivity. Qed.

Lemma control_not_gated_B2 : forall s c, c_pc c = PCheck -> isdata c = false -> wr_ok s (c_gen c) = true ->
  step_call fx p s c CGo = Some (upd s (set_pc c PWrite), []).
Proof. intros s c PC D W. unfold step_call. rewrite PC, D, W. reflexivity. Qed.

(* a data message that is Selected at both reads proceeds to the write *)
Lemma data_passes_when_selected : forall s c, isdata c = true -> selected s = true ->
  (c_pc c = PGate -> step_call fx p s c CGo = Some (upd s (set_pc c (after_gate c)), [])) /\
  (c_pc c = PCheck -> wr_ok s (c_gen c) = true -> step_call fx p s c CGo = Some (upd s (set_pc c PWrite), [])).
Proof.
  intros s c D S. split; intros PC; [|intros W]; unfold step_call; rewrite PC, ?W, D, S; reflexivity.
Qed.

(* the drop counter moves only at the two gates, by exactly one, and only for data seen not-Selected *)
Lemma drops_step : forall s c ch s' os, step_call fx p s c ch = Some (s', os) ->
  drops s' = drops s \/
  (drops s' = drops s + 1 /\ isdata c = true /\ selected s = false /\ (c_pc c = PGate \/ c_pc c = PCheck) /\
   forall g o f, ~ In (OPeerRecv g o f) os).
Proof.
  intros s c ch s' os H. unfold step_call, finish in H.
  destruct (c_pc c) eqn:PC; destruct ch; try discriminate;
    repeat match type of H with
           | (if ?b then _ else _) = _ => destruct b eqn:?
           | match ?x with _ => _ end = _ => destruct x eqn:?
           end; try discriminate; inversion H; subst; clear H; cbn; auto.
  - right. apply andb_true_iff in Heqb. destruct Heqb as [A B]. apply negb_true_iff in B.
    repeat split; auto. intros g o f [X|[]]. discriminate.
  - right. apply andb_true_iff in Heqb0. destruct Heqb0 as [A B]. apply negb_true_iff in B.
    repeat split; auto.
  - destruct (c_gen c =? gen s); auto.
  - destruct (needs_reg c); auto.
Qed.

(* a frame reaches a socket only from the write step of a call that passed both gates, or from the
   async sender *)
Lemma write_only_at_PWrite : forall s c ch s' os g o f, step_call fx p s c ch = Some (s', os) ->
  In (OPeerRecv g o f) os -> c_pc c = PWrite /\ ch = CWriteOk /\ o = c_id c /\ f = c_msg c /\ g = c_gen c /\ wr_ok s g = true.
Proof.
  intros s c ch s' os g o f H IN. unfold step_call, finish in H.
  destruct (c_pc c) eqn:PC; destruct ch; try discriminate;
    repeat match type of H with
           | (if ?b then _ else _) = _ => destruct b eqn:?
           | match ?x with _ => _ end = _ => destruct x eqn:?
           end; try discriminate; inversion H; subst; clear H; cbn in IN;
    try contradiction; try (destruct IN as [IN|[]]; try discriminate).
  inversion IN; subst. repeat split; auto.
Qed.

(** * Inbound data while not selected *)

(* exactly one Reject.req, reason 4, echoing session id and system bytes; no handler call; no
   waiter is offered anything; the link (socket, generation ctx, state) is untouched *)
Theorem inbound_not_selected : forall s n f, f_pt f = 0 -> f_st f = 0 -> selected s = false ->
  dispatch p s n f = (enq_int s (reject_not_selected f), []) /\
  f_st (reject_not_selected f) = 7 /\ f_b3 (reject_not_selected f) = 4 /\ f_pt (reject_not_selected f) = 0 /\
  f_sid (reject_not_selected f) = f_sid f /\ f_sys (reject_not_selected f) = f_sys f /\
  f_body (reject_not_selected f) = [] /\
  calls (enq_int s (reject_not_selected f)) = calls s /\ st (enq_int s (reject_not_selected f)) = st s /\
  sock (enq_int s (reject_not_selected f)) = sock s /\ gcancel (enq_int s (reject_not_selected f)) = gcancel s /\
  sendq (enq_int s (reject_not_selected f)) = sendq s ++ [(-1, reject_not_selected f)].
Proof.
  intros s n f PT ST S. split; [|repeat split; reflexivity].
  unfold dispatch. rewrite PT, ST. cbn. rewrite S. reflexivity.
Qed.

(* conversely: while Selected a data frame is never answered with a reject *)
Theorem inbound_selected : forall s n f, f_pt f = 0 -> f_st f = 0 -> selected s = true ->
  sendq (fst (dispatch p s n f)) = sendq s /\ st (fst (dispatch p s n f)) = st s.
Proof.
  intros s n f PT ST S. unfold dispatch. rewrite PT, ST. cbn. rewrite S. cbn.
  destruct (if is_secondary f then reg_get (gen s) (f_sys f) (reg s) else None) as [id|].
  - cbn. unfold offer. destruct (get id (calls s)) as [c|]; [destruct (c_chan c)|]; split; reflexivity.
  - destruct (gcancel s); split; reflexivity.
Qed.

(** * The synchronous Selected commit *)
Definition is_select_req (f : frame) : bool := (f_pt f =? 0) && (f_st f =? 1) && match f_body f with [] => true | _ => false end.

(* responder (passive, or simultaneous select): Selected is committed in the same dispatch step that
   queues Select.rsp, i.e. before the recv goroutine can look at the next frame *)
Theorem select_req_commits : forall s n f, is_select_req f = true -> st s <> NC ->
  st (fst (dispatch p s n f)) = SEL /\
  exists status, sendq (fst (dispatch p s n f)) = sendq s ++ [(-1, select_rsp f status)] /\
                 (st s = NS -> status = 0).
Proof.
  intros s n f IS NNC. unfold is_select_req in IS.
  apply andb_true_iff in IS. destruct IS as [IS B]. apply andb_true_iff in IS. destruct IS as [PT ST].
  apply Z.eqb_eq in PT. apply Z.eqb_eq in ST.
  unfold dispatch. rewrite PT, ST. cbn. destruct (f_body f); [|discriminate]. cbn.
  destruct (st s) eqn:E; cbn.
  - contradiction.
  - split; [reflexivity|]. exists 0. auto.
  - split; [exact E|]. exists 1. split; [reflexivity | discriminate].
Qed.

(* initiator (active): a Select.rsp with status 0 that hits our pending Select transaction commits
   Selected in the same dispatch step that routes it *)
Theorem select_rsp_commits : forall s n f id, f_pt f = 0 -> f_st f = 2 -> f_b3 f = 0 -> f_body f = [] ->
  route_ctl p s f = Some id -> st s = NS ->
  st (fst (dispatch p s n f)) = SEL.
Proof.
  intros s n f id PT ST B3 BD RG NSs. unfold dispatch. rewrite PT, ST, BD, RG. cbn. rewrite B3. cbn.
  assert (E : st (offer s id (CMsg n f)) = NS).
  { unfold offer. destruct (get id (calls s)) as [c|]; [destruct (c_chan c)|]; exact NSs. }
  rewrite E. reflexivity.
Qed.

(* the registry hit of a control response: an entry under its system bytes in the current generation
   that — with the data-only registry — does not belong to a data transaction *)
Lemma route_ctl_spec : forall s f id, route_ctl p s f = Some id <->
  reg_get (gen s) (f_sys f) (reg s) = Some id /\ DW p && data_waiter s id = false.
Proof.
  intros s f id. unfold route_ctl. destruct (reg_get (gen s) (f_sys f) (reg s)) as [j|].
  - destruct (DW p && data_waiter s j) eqn:E; split.
    + discriminate.
    + intros [X Y]. inversion X; subst. congruence.
    + intros X. inversion X; subst. auto.
    + intros [X Y]. exact X.
  - split; [discriminate | intros [X _]; discriminate].
Qed.

(** * Who changes the connection state *)
Definition changes_state (a : action) : bool :=
  match a with ANewGen | AConnUp | ASupDown | ATeardown | AFault => true | _ => false end.

Lemma step_call_st : forall s c ch s' os, step_call fx p s c ch = Some (s', os) ->
  st s' = st s /\ opened s' = opened s /\ gen s' = gen s /\ sock s' = sock s /\ gcancel s' = gcancel s /\ inq s' = inq s.
Proof.
  intros s c ch s' os H. unfold step_call, finish in H.
  destruct (c_pc c) eqn:PC; destruct ch; try discriminate;
    repeat match type of H with
           | (if ?b then _ else _) = _ => destruct b eqn:?
           | match ?x with _ => _ end = _ => destruct x eqn:?
           end; try discriminate; inversion H; subst; clear H; cbn; repeat split; auto.
  all: try (destruct (c_gen c =? gen s); reflexivity); try (destruct (needs_reg c); reflexivity).
Qed.

Lemma dispatch_data_st : forall s n f, f_st f = 0 -> st (fst (dispatch p s n f)) = st s.
Proof.
  intros s n f ST. unfold dispatch.
  destruct (negb (f_pt f =? 0) || negb (valid_stype (f_st f))); [reflexivity|].
  rewrite ST. cbn. destruct (negb (selected s)); [reflexivity|].
  destruct (if is_secondary f then reg_get (gen s) (f_sys f) (reg s) else None) as [id|].
  - cbn. unfold offer. destruct (get id (calls s)) as [c|]; [destruct (c_chan c)|]; reflexivity.
  - destruct (gcancel s); reflexivity.
Qed.

End Gate.

(** * Pipelining: data behind the establishing select is dispatched while Selected

    [select_req_commits] / [select_rsp_commits]: the dispatch step of the establishing select leaves
    st = Selected.  [selected_stays]: from then on, while senders, the async sender, timers, harness
    observation points and more peer DATA frames interleave arbitrarily ([quiet]: no lifecycle
    action, no further control frame from the peer), EVERY state of the run — in particular the
    state in which each data frame is dispatched — has st = Selected, so by [inbound_selected] no
    Reject(not selected) is queued for it.  How the peer's bytes are grouped into writes/reads is
    invisible here: the recv loop hands dispatchFrame whole frames in stream order (readFrame,
    C04_segmentation); the e2e check cuts the byte string at every offset. *)
Section Pipeline.
Variable fx : bool.
Variable p : cfg.

Definition quiet (a : action) : bool :=
  match a with
  | ANewGen | AConnUp | ASupDown | ATeardown | AFault => false
  | APeer f => (f_pt f =? 0) && (f_st f =? 0)
  | _ => true
  end.

Definition all_data (q : list (Z * frame)) : Prop := forall n f, In (n, f) q -> f_pt f = 0 /\ f_st f = 0.

Lemma quiet_step : forall s a s' os, exec fx p s a = Some (s', os) -> quiet a = true ->
  st s = SEL -> all_data (inq s) -> st s' = SEL /\ all_data (inq s').
Proof.
  intros s a s' os E Q S AD. destruct a; cbn in Q; try discriminate; cbn in E.
  - destruct (get id (calls s)); [discriminate|].
    destruct (id <? 0); [discriminate|].
    destruct (negb (f_st f =? 0) && negb (kind_eqb k KCtl)); [discriminate|].
    destruct ((f_st f =? 0) && kind_eqb k KCtl); [discriminate|].
    inversion E; subst. destruct (libkey k); cbn; auto.
  - destruct (get id (calls s)) as [c0|]; [|discriminate].
    destruct (step_call_st fx p _ _ _ _ _ E) as (A1 & _ & _ & _ & _ & A6). rewrite A1, A6. auto.
  - destruct (get id (calls s)); [|discriminate]. inversion E; subst. cbn. auto.
  - destruct (sendq s) as [|[o f] q]; [discriminate|].
    destruct (negb (wr_ok s (gen s))); [inversion E; subst; cbn; auto|].
    destruct ((f_st f =? 0) && negb (selected s)); [inversion E; subst; cbn; auto|].
    destruct ok; [inversion E; subst; cbn; auto|].
    destruct (fault s); [inversion E; subst; cbn; auto | discriminate].
  - destruct (sock s); [|discriminate]. inversion E; subst. cbn. split; [exact S|].
    intros n g IN. apply in_app_or in IN. destruct IN as [IN|[IN|[]]]; [eapply AD; eauto|].
    inversion IN; subst. apply andb_true_iff in Q. destruct Q as [Q1 Q2].
    apply Z.eqb_eq in Q1. apply Z.eqb_eq in Q2. auto.
  - destruct (inq s) as [|[n f] q] eqn:EQ; [discriminate|].
    assert (DF : f_pt f = 0 /\ f_st f = 0) by (apply (AD n f); left; reflexivity).
    destruct (dispatch p (w_inq s q) n f) as [s1 o1] eqn:D. inversion E; subst s' os.
    assert (F : s1 = fst (dispatch p (w_inq s q) n f)) by (rewrite D; reflexivity). rewrite F. clear F D.
    split.
    + rewrite (dispatch_data_st p _ _ _ (proj2 DF)). exact S.
    + assert (IQ : inq (fst (dispatch p (w_inq s q) n f)) = q).
      { unfold dispatch. destruct DF as [PT ST]. rewrite PT, ST. cbn.
        destruct (negb (selected (w_inq s q))); [reflexivity|].
        destruct (if is_secondary f then reg_get (gen s) (f_sys f) (reg s) else None) as [id|].
        - cbn. unfold offer. cbn. destruct (get id (calls s)) as [c|]; [destruct (c_chan c)|]; reflexivity.
        - cbn. destruct (gcancel s); reflexivity. }
      rewrite IQ. intros n0 g IN. apply (AD n0 g). right. exact IN.
  - destruct (0 <=? d); [|discriminate]. inversion E; subst. cbn. auto.
  - destruct (inq s) eqn:EI, (sendq s); try discriminate. inversion E; subst. split; [exact S | rewrite EI; intros ? ? []].
  - destruct (inq s) eqn:EI, (sendq s); try discriminate. inversion E; subst. split; [exact S | rewrite EI; intros ? ? []].
  - destruct (sendq s); [|discriminate]. destruct (forallb _ (calls s)); [|discriminate]. inversion E; subst. auto.
Qed.

Theorem selected_stays : forall acts s s' os,
  run fx p s acts = Some (s', os) -> forallb quiet acts = true ->
  st s = SEL -> all_data (inq s) -> st s' = SEL /\ all_data (inq s').
Proof.
  induction acts as [|a r IH]; cbn; intros s s' os H Q S AD.
  - inversion H; subst. auto.
  - apply andb_true_iff in Q. destruct Q as [Qa Qr].
    destruct (exec fx p s a) as [[s1 o1]|] eqn:E; [|discriminate].
    destruct (run fx p s1 r) as [[s2 o2]|] eqn:R; [|discriminate].
    inversion H; subst. destruct (quiet_step _ _ _ _ E Qa S AD) as [S1 AD1]. eapply IH; eauto.
Qed.

(* every prefix of a run is a run: the state in which the k-th action fires *)
Lemma run_prefix : forall pre post s s' os,
  run fx p s (pre ++ post) = Some (s', os) -> exists s1 o1, run fx p s pre = Some (s1, o1).
Proof.
  induction pre as [|a r IH]; cbn; intros post s s' os H; [eauto|].
  destruct (exec fx p s a) as [[s1 o1]|]; [|discriminate].
  destruct (run fx p s1 (r ++ post)) as [[s2 o2]|] eqn:R; [|discriminate].
  destruct (IH _ _ _ _ R) as (s3 & o3 & E). rewrite E. eauto.
Qed.

(* the pipelining statement: whenever a frame is dispatched after the establishing select (state s:
   Selected, only data queued), it is a data frame, the connection is Selected, no reject is queued
   and the state stays Selected *)
Theorem pipeline_dispatch_selected : forall pre post s s' os,
  st s = SEL -> all_data (inq s) ->
  run fx p s (pre ++ ADispatch :: post) = Some (s', os) -> forallb quiet (pre ++ ADispatch :: post) = true ->
  exists s1 o1 n f q, run fx p s pre = Some (s1, o1) /\ inq s1 = (n, f) :: q /\
    f_pt f = 0 /\ f_st f = 0 /\ selected s1 = true /\
    sendq (fst (dispatch p (w_inq s1 q) n f)) = sendq s1 /\ st (fst (dispatch p (w_inq s1 q) n f)) = SEL.
Proof.
  intros pre post s s' os S AD H Q.
  destruct (run_prefix _ _ _ _ _ H) as (s1 & o1 & R1).
  rewrite forallb_app in Q. apply andb_true_iff in Q. destruct Q as [Q1 _].
  destruct (selected_stays _ _ _ _ R1 Q1 S AD) as [S1 AD1].
  (* the dispatch is enabled in s1 *)
  assert (EN : exists n f q, inq s1 = (n, f) :: q).
  { clear -H R1. revert s s' os s1 o1 H R1. induction pre as [|a r IH]; cbn; intros s s' os s1 o1 H R1.
    - inversion R1; subst. destruct (inq s1) as [|[n f] q]; [discriminate | eauto].
    - destruct (exec fx p s a) as [[s2 o2]|]; [|discriminate].
      destruct (run fx p s2 (r ++ ADispatch :: post)) as [[s3 o3]|] eqn:R; [|discriminate].
      destruct (run fx p s2 r) as [[s4 o4]|] eqn:R'; [|discriminate].
      inversion R1; subst. eapply IH; eauto. }
  destruct EN as (n & f & q & EQ).
  destruct (AD1 n f) as [PT ST]; [rewrite EQ; left; reflexivity|].
  assert (SL : selected s1 = true) by (unfold selected; rewrite S1; reflexivity).
  exists s1, o1, n, f, q. repeat split; auto.
  - apply (inbound_selected p (w_inq s1 q) n f PT ST SL).
  - rewrite (dispatch_data_st p _ _ _ ST). exact S1.
Qed.

End Pipeline.

(** An ORPHAN control response (no open transaction under its system bytes in the current generation)
    is answered Reject(reason 3) and changes nothing else: in particular a Select.rsp(0) commits
    Selected only on a registry hit. *)
Theorem orphan_rsp_no_commit : forall p s n f, f_pt f = 0 -> f_body f = [] ->
  (f_st f = 2 \/ f_st f = 4 \/ f_st f = 6) -> route_ctl p s f = None ->
  dispatch p s n f = (enq_int s (reject_not_open f), []) /\
  st (enq_int s (reject_not_open f)) = st s /\ calls (enq_int s (reject_not_open f)) = calls s /\
  f_st (reject_not_open f) = 7 /\ f_b3 (reject_not_open f) = 3 /\ f_b2 (reject_not_open f) = f_st f /\
  f_sys (reject_not_open f) = f_sys f.
Proof.
  intros p s n f PT BD ST RG. split; [|repeat split; reflexivity].
  unfold dispatch. rewrite PT, BD, RG. destruct ST as [E|[E|E]]; rewrite E; reflexivity.
Qed.

(* with the data-only registry a control response that reuses an OPEN DATA transaction's system bytes
   is such a miss: Reject(3) to the peer, the sender (its channel, its registration) untouched *)
Theorem colliding_ctl_rsp_is_miss : forall p s f id c, DW p = true ->
  reg_get (gen s) (f_sys f) (reg s) = Some id -> get id (calls s) = Some c -> c_kind c = KSync ->
  route_ctl p s f = None.
Proof.
  intros p s f id c D RG G K. unfold route_ctl. rewrite RG. unfold data_waiter. rewrite G, K, D. reflexivity.
Qed.
