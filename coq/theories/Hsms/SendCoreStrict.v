(** SendCoreStrict — when no control response is routed into a data waiter (the behaviour class of
    the registry-level repair fixes/C06-ctrl-rsp-shadows-reply.diff), the one-slot channel of a data
    transaction only ever holds a reply of that transaction or a peer reject: a secondary that finds
    the slot occupied IS a duplicate reply (or follows a reject), so discarding it is the exception
    the property allows. *)
From Coq Require Import ZArith Bool List Lia.
From GoSecs Require Import Hsms.SendCore Hsms.SendCoreInv Hsms.SendCoreInvSteps.
Import ListNotations.
Open Scope Z_scope.

Section Strict.
Variable fx : bool.
Variable p : cfg.

(* the general form: whenever collisions are excluded — by hypothesis on the run (original code) or
   by the data-only registry (current code) *)
Lemma channel_only_replies_gen : forall acts c0 s os id c r,
  (fx = false \/ DW p = true) ->
  all_benign fx p (init c0) acts = true ->
  run fx p (init c0) acts = Some (s, os) ->
  get id (calls s) = Some c -> c_kind c = KSync -> c_chan c = Some r ->
  match r with
  | CRej reason => exists n f, In (n, f) (sent s) /\ f_st f = 7 /\ f_sys f = f_sys (c_msg c) /\ f_b3 f = reason
  | CMsg n f => In (n, f) (sent s) /\ f_pt f = 0 /\ f_st f = 0 /\ is_secondary f = true /\ f_sys f = f_sys (c_msg c)
  end.
Proof.
  intros acts c0 s os id c r NC B H G K CH.
  pose proof (run_inv fx p acts (init c0) s os (Inv_init fx p c0) B H) as I.
  pose proof (i_calls _ _ _ I _ _ G) as OK.
  pose proof (ck_chan _ _ _ _ OK _ CH) as CR.
  destruct r as [n f|reason]; cbn in CR.
  - destruct CR as (A1 & A2 & A3 & A4 & _).
    pose proof (ck_nil _ _ _ _ OK NC K n f CH) as ST. repeat split; auto.
  - destruct CR as (n & f & A1 & A2 & _ & A4 & A5). exists n, f. auto.
Qed.

End Strict.

(* the CURRENT step function (data-only registry): unconditionally, for all runs *)
Theorem channel_only_replies : forall fx p acts c0 s os id c r,
  DW p = true ->
  run fx p (init c0) acts = Some (s, os) ->
  get id (calls s) = Some c -> c_kind c = KSync -> c_chan c = Some r ->
  match r with
  | CRej reason => exists n f, In (n, f) (sent s) /\ f_st f = 7 /\ f_sys f = f_sys (c_msg c) /\ f_b3 f = reason
  | CMsg n f => In (n, f) (sent s) /\ f_pt f = 0 /\ f_st f = 0 /\ is_secondary f = true /\ f_sys f = f_sys (c_msg c)
  end.
Proof.
  intros fx p acts c0 s os id c r D H. eapply channel_only_replies_gen; eauto. apply all_benign_dw. exact D.
Qed.

(* the original step function under the no-collision hypothesis *)
Theorem channel_only_replies_original : forall p acts c0 s os id c r,
  all_benign false p (init c0) acts = true ->
  run false p (init c0) acts = Some (s, os) ->
  get id (calls s) = Some c -> c_kind c = KSync -> c_chan c = Some r ->
  match r with
  | CRej reason => exists n f, In (n, f) (sent s) /\ f_st f = 7 /\ f_sys f = f_sys (c_msg c) /\ f_b3 f = reason
  | CMsg n f => In (n, f) (sent s) /\ f_pt f = 0 /\ f_st f = 0 /\ is_secondary f = true /\ f_sys f = f_sys (c_msg c)
  end.
Proof. intros p acts c0 s os id c r B H. eapply channel_only_replies_gen; eauto. Qed.
