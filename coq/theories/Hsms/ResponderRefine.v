(** The step refinement: the code-shaped [Responder.respond] equals the table-shaped
    [ResponderSpec.spec_step] on every frame in every state (a finite case analysis over the SType
    and the boolean tests both sides make). Kept in its own file because it is the one slow proof. *)
From Coq Require Import ZArith Bool List Lia.
From GoSecs Require Import Hsms.Responder Hsms.ResponderSpec.
Import ListNotations.
Open Scope Z_scope.

Ltac consts := unfold st_data, st_select_req, st_select_rsp, st_deselect_req, st_deselect_rsp,
  st_linktest_req, st_linktest_rsp, st_reject_req, st_separate_req, select_ok, select_already,
  deselect_ok, deselect_not_established, reason_stype, reason_ptype, reason_txn_not_open,
  reason_not_selected in *.

Ltac unf := unfold respond, spec_step, classify, send_reject, reject_raw, deliver_owned,
  on_response, on_select_req, on_deselect_req, on_linktest_req, on_separate_req, is_s9f1, is_secondary,
  select_rsp, deselect_rsp, linktest_rsp, s9f1, ctrl, hdr, set_selected, close_txn, next_sys, has_body, keep in *.

Ltac projs := cbn [f_sid f_b2 f_b3 f_pt f_st f_sys f_body selected opens ctr s_sel s_open s_ctr] in *.

Lemma valid_cases st : valid_stype st = true ->
  st = 0 \/ st = 1 \/ st = 2 \/ st = 3 \/ st = 4 \/ st = 5 \/ st = 6 \/ st = 7 \/ st = 9.
Proof. unfold valid_stype. rewrite !orb_true_iff, !Z.eqb_eq. tauto. Qed.

Lemma invalid_cases st : valid_stype st = false ->
  st <> 0 /\ st <> 1 /\ st <> 2 /\ st <> 3 /\ st <> 4 /\ st <> 5 /\ st <> 6 /\ st <> 7 /\ st <> 9.
Proof. unfold valid_stype. rewrite !orb_false_iff, !Z.eqb_neq. tauto. Qed.

(** * The state relation and the step refinement *)

Definition R (s : rstate) (ss : sstate) : Prop :=
  s_sel ss = selected s /\ s_open ss = opens s /\ s_ctr ss = ctr s.

Definition to_spec (s : rstate) : sstate := {| s_sel := selected s; s_open := opens s; s_ctr := ctr s |}.

Lemma R_to_spec s : R s (to_spec s).
Proof. repeat split. Qed.

Lemma R_eq s ss : R s ss -> ss = to_spec s.
Proof. destruct ss; unfold R, to_spec; cbn; intros (-> & -> & ->); reflexivity. Qed.

Lemma respond_spec c s f :
  spec_step c (to_spec s) f = (let '(s', o, e) := respond c s f in (to_spec s', o, e)).
Proof.
  destruct f as [sid b2 b3 pt st sys body]. destruct s as [sel op ct].
  unfold to_spec; unf; consts; projs.
  destruct (Z.eqb_spec pt 0) as [->|Hpt]; cbn [negb orb andb].
  2: { cbn. destruct sel; reflexivity. }
  destruct (valid_stype st) eqn:V; cbn [negb orb andb].
  - apply valid_cases in V. destruct V as [->|V].
    { destruct (mem sys op), sel, body as [|x body], (c_validate c), (sid =? c_sid c), (b2 mod 128 =? 9),
        (b3 =? 1), (b2 <? 128), (b3 mod 2 =? 0); reflexivity. }
    destruct (mem sys op), sel, body as [|x body], (b3 =? 1), (b3 =? 0);
    destruct V as [->|[->|[->|[->|[->|[->|[->| ->]]]]]]]; reflexivity.
  - apply invalid_cases in V.
    replace (st =? 0) with false by (symmetry; apply Z.eqb_neq; lia).
    replace ((1 <=? st) && (st <=? 7) || (st =? 9)) with false.
    2: { symmetry. rewrite orb_false_iff, andb_false_iff, !Z.leb_gt, Z.eqb_neq. lia. }
    cbn. destruct sel; reflexivity.
Qed.

(** the refinement with the relation as an explicit invariant *)
Lemma step_refines c s ss f s' o e :
  R s ss -> respond c s f = (s', o, e) ->
  exists ss', spec_step c ss f = (ss', o, e) /\ R s' ss'.
Proof.
  intros HR H. apply R_eq in HR; subst ss. exists (to_spec s'). split; [|apply R_to_spec].
  rewrite respond_spec, H. reflexivity.
Qed.

