(** SendCoreC06 — the three clauses of ok_C06 together. *)
From Coq Require Import ZArith Bool List Lia.
From GoSecs Require Import Hsms.SendCore Hsms.SendCoreMon Hsms.SendCoreInvSteps Hsms.SendCoreMonProofs
  Hsms.SendCoreUniq Hsms.SendCoreRecipMon.
Import ListNotations.
Open Scope Z_scope.

Lemma mon_run_and3 : forall (a b c : mon -> obs -> bool) os m,
  mon_run (fun m o => a m o && b m o && c m o) m os = mon_run a m os && mon_run b m os && mon_run c m os.
Proof.
  induction os as [|o r IH]; cbn; intros m; [reflexivity|]. rewrite IH.
  destruct (a m o), (b m o), (c m o), (mon_run a (mon_upd m o) r), (mon_run b (mon_upd m o) r), (mon_run c (mon_upd m o) r); reflexivity.
Qed.

(* the repaired step function: every run with a non-negative handler count and fewer than 2^32
   system-bytes draws is accepted by the whole monitor *)
Theorem ok_C06_all_runs_fixed : forall p acts c0 s os,
  0 <= NH p -> run true p (init c0) acts = Some (s, os) -> ctr s - c0 < 4294967296 ->
  ok_C06 p os = true.
Proof.
  intros p acts c0 s os NHpos H B. unfold ok_C06, chk_C06. rewrite mon_run_and3.
  rewrite (outcome_all_runs_fixed p acts c0 s os H).
  rewrite (uniq_all_runs true p acts c0 s os H B).
  rewrite (recip_all_runs true p acts c0 s os NHpos (all_benign_fixed p acts (init c0)) H). reflexivity.
Qed.

(* the current step function, whenever no control response is routed into a data waiter *)
Theorem ok_C06_all_runs_current : forall p acts c0 s os,
  0 <= NH p -> all_benign false p (init c0) acts = true ->
  run false p (init c0) acts = Some (s, os) -> ctr s - c0 < 4294967296 ->
  ok_C06 p os = true.
Proof.
  intros p acts c0 s os NHpos BN H B. unfold ok_C06, chk_C06. rewrite mon_run_and3.
  rewrite (outcome_all_runs_current p acts c0 s os BN H).
  rewrite (uniq_all_runs false p acts c0 s os H B).
  rewrite (recip_all_runs false p acts c0 s os NHpos BN H). reflexivity.
Qed.
