(** SendCoreMon — executable monitors over observable logs (DESIGN.md Appendix B).

    The SAME functions judge (a) the logs produced by the model (theorems in SendCoreMonProofs.v:
    every run is accepted) and (b) after extraction, the logs recorded from the real
    implementation by the e2e harnesses.  A monitor is a total state update [mon_upd] shared by
    all clauses plus one boolean check per clause; a log is accepted when every entry passes the
    check in the monitor state reached by the entries before it.

    Conventions a log must follow (model and harness alike): [OPeerSent] is appended BEFORE the
    peer writes the frame; [OPeerRecv] after the peer has read it; [OStart] before the call,
    [ORet] after it returned; [OHandler] inside the callback; [OGenDown] BEFORE the harness makes
    any lifecycle move (Open, Close, closing or breaking the pipe); [OBarrier]/[OCond]/[OMetric]
    only at quiescent points (every frame sent so far dispatched and answered; for [OMetric] no
    call in flight). *)
From Coq Require Import ZArith Bool List Lia.
From GoSecs Require Import Hsms.SendCore.
Import ListNotations.
Open Scope Z_scope.

Definition cond := option (cstate * bool).

Record mcall := mkMC {
  mc_id : Z; mc_kind : kind; mc_msg : frame;
  mc_open : bool;
  mc_closed_at : Z;        (* serial of the last peer frame sent before the call returned *)
  mc_res : option result;
  mc_cond : cond;          (* declared stable condition when the call started ... *)
  mc_cseq : Z              (* ... and its sequence number *)
}.

Record mfr := mkMF {
  mf_n : Z; mf_f : frame;
  mf_used : bool;          (* returned to a caller as its reply *)
  mf_h : Z;                (* number of handlers that received it so far *)
  mf_rej : bool;           (* answered with Reject(not selected) *)
  mf_settled : bool;       (* judged at a barrier, or unconstrained (sent around a drop) *)
  mf_cond : cond;          (* declared stable condition when it was sent *)
  mf_cseq : Z;
  mf_pipe : bool           (* sent behind the select that establishes the session *)
}.

Record mon := mkM {
  m_calls : list mcall;
  m_frames : list mfr;           (* newest first *)
  m_last : Z;                    (* serial of the last peer frame *)
  m_hlast : list (Z * Z);        (* handler -> serial of the last frame it received (newest first) *)
  m_up : bool;                   (* between OGenUp and OGenDown *)
  m_stable : cond;               (* declared condition, valid until something may change it *)
  m_cseq : Z;                    (* bumped whenever m_stable is set or cleared *)
  m_psel : bool;                 (* the peer has sent the establishing select in this generation *)
  m_selreq : list (Z * Z);       (* (origin, key) of our Select.req frames the peer has read, call still open *)
  m_recv : list (Z * frame * Z); (* (origin, frame, serial of the last peer frame at that time) seen by the peer *)
  m_metric : option Z;           (* last drop-counter snapshot *)
  m_refused : Z                  (* not-selected refusals since that snapshot *)
}.

Definition mon0 : mon := mkM [] [] 0 [] false None 0 false [] [] None 0.

Fixpoint mc_get (id : Z) (l : list mcall) : option mcall :=
  match l with [] => None | c :: r => if mc_id c =? id then Some c else mc_get id r end.
Fixpoint mc_put (c : mcall) (l : list mcall) : list mcall :=
  match l with [] => [] | d :: r => if mc_id d =? mc_id c then c :: r else d :: mc_put c r end.
Fixpoint mf_get (n : Z) (l : list mfr) : option mfr :=
  match l with [] => None | c :: r => if mf_n c =? n then Some c else mf_get n r end.
Fixpoint mf_put (c : mfr) (l : list mfr) : list mfr :=
  match l with [] => [] | d :: r => if mf_n d =? mf_n c then c :: r else d :: mf_put c r end.
Fixpoint assoc (k : Z) (l : list (Z * Z)) : option Z :=
  match l with [] => None | (a, b) :: r => if a =? k then Some b else assoc k r end.

Definition mf_with (x : mfr) (used : bool) (h : Z) (rej settled : bool) : mfr :=
  mkMF (mf_n x) (mf_f x) used h rej settled (mf_cond x) (mf_cseq x) (mf_pipe x).
Definition settle (x : mfr) : mfr := mf_with x (mf_used x) (mf_h x) (mf_rej x) true.

Definition empty_body (f : frame) : bool := match f_body f with [] => true | _ => false end.
Definition is_reject4 (f : frame) : bool := (f_st f =? 7) && (f_b3 f =? 4) && (f_pt f =? 0).
(* frames whose dispatch may change the connection state *)
Definition may_change_state (f : frame) : bool :=
  (f_pt f =? 0) && ((f_st f =? 1) || (f_st f =? 2) || (f_st f =? 3)).

(* the oldest not yet rejected, undelivered data frame a Reject(not selected) can answer *)
Fixpoint rej_target (sid sys : Z) (l : list mfr) : option mfr :=
  match l with
  | [] => None
  | x :: r =>
      match rej_target sid sys r with
      | Some y => Some y
      | None =>
          if is_dataframe (mf_f x) && (f_sid (mf_f x) =? sid) && (f_sys (mf_f x) =? sys) &&
             negb (mf_rej x) && negb (mf_used x) && (mf_h x =? 0)
          then Some x else None
      end
  end.

Definition registering (k : kind) (f : frame) : bool :=
  match k with KSync => wbit f | KCtl => true | _ => false end.

Definition refusal (r : result) : bool := match r with RNotSelected => true | _ => false end.

(* does the peer's frame establish the session, as far as the log can tell: a Select.req, or a
   Select.rsp(0) answering a Select.req of ours that the peer has read in this generation *)
Definition establishes (m : mon) (f : frame) : bool :=
  (f_pt f =? 0) && empty_body f &&
  ((f_st f =? 1) || ((f_st f =? 2) && (f_b3 f =? 0) && existsb (fun e => snd e =? f_sys f) (m_selreq m))).

Definition mon_upd (m : mon) (o : obs) : mon :=
  match o with
  | OStart id k f =>
      mkM (mkMC id k f true 0 None (m_stable m) (m_cseq m) :: m_calls m) (m_frames m) (m_last m) (m_hlast m)
          (m_up m) (m_stable m) (m_cseq m) (m_psel m) (m_selreq m) (m_recv m) (m_metric m) (m_refused m)
  | ORet id r el =>
      let cs := match mc_get id (m_calls m) with
                | Some c => mc_put (mkMC id (mc_kind c) (mc_msg c) false (m_last m) (Some r) (mc_cond c) (mc_cseq c)) (m_calls m)
                | None => m_calls m
                end in
      let fs := match r with
                | ROk (Some (n, _)) =>
                    match mf_get n (m_frames m) with
                    | Some x => mf_put (mf_with x true (mf_h x) (mf_rej x) (mf_settled x)) (m_frames m)
                    | None => m_frames m
                    end
                | _ => m_frames m
                end in
      mkM cs fs (m_last m) (m_hlast m) (m_up m) (m_stable m) (m_cseq m) (m_psel m)
          (filter (fun e => negb (fst e =? id)) (m_selreq m)) (m_recv m) (m_metric m)
          (if refusal r then m_refused m + 1 else m_refused m)
  | OPeerSent n f =>
      let isd := (f_st f =? 0) && (f_pt f =? 0) in
      let psel := if establishes m f then m_up m else if isd then m_psel m else false in
      mkM (m_calls m)
          (mkMF n f false 0 false (negb (m_up m)) (m_stable m) (m_cseq m) (m_psel m && isd) :: m_frames m)
          n (m_hlast m) (m_up m)
          (if may_change_state f then None else m_stable m)
          (if may_change_state f then m_cseq m + 1 else m_cseq m)
          psel (m_selreq m) (m_recv m) (m_metric m) (m_refused m)
  | OHandler h n =>
      let fs := match mf_get n (m_frames m) with
                | Some x => mf_put (mf_with x (mf_used x) (mf_h x + 1) (mf_rej x) (mf_settled x)) (m_frames m)
                | None => m_frames m
                end in
      mkM (m_calls m) fs (m_last m) ((h, n) :: m_hlast m) (m_up m) (m_stable m) (m_cseq m) (m_psel m)
          (m_selreq m) (m_recv m) (m_metric m) (m_refused m)
  | OPeerRecv g origin f =>
      let fs := if is_reject4 f && (origin =? -1) then
                  match rej_target (f_sid f) (f_sys f) (m_frames m) with
                  | Some x => mf_put (mf_with x (mf_used x) (mf_h x) true (mf_settled x)) (m_frames m)
                  | None => m_frames m
                  end
                else m_frames m in
      let sr := if (f_st f =? 1) && (f_pt f =? 0) && negb (origin =? -1) && m_up m
                then (origin, f_sys f) :: m_selreq m else m_selreq m in
      mkM (m_calls m) fs (m_last m) (m_hlast m) (m_up m) (m_stable m) (m_cseq m) (m_psel m)
          sr ((origin, f, m_last m) :: m_recv m) (m_metric m) (m_refused m)
  | OAsyncErr origin r =>
      mkM (m_calls m) (m_frames m) (m_last m) (m_hlast m) (m_up m) (m_stable m) (m_cseq m) (m_psel m)
          (m_selreq m) (m_recv m) (m_metric m) (if refusal r then m_refused m + 1 else m_refused m)
  | OBarrier =>
      mkM (m_calls m) (map settle (m_frames m)) (m_last m) (m_hlast m) (m_up m) (m_stable m) (m_cseq m) (m_psel m)
          (m_selreq m) (m_recv m) (m_metric m) (m_refused m)
  | OCond s op =>
      mkM (m_calls m) (m_frames m) (m_last m) (m_hlast m) (m_up m) (Some (s, op)) (m_cseq m + 1) (m_psel m)
          (m_selreq m) (m_recv m) (m_metric m) (m_refused m)
  | OMetric d =>
      mkM (m_calls m) (m_frames m) (m_last m) (m_hlast m) (m_up m) (m_stable m) (m_cseq m) (m_psel m)
          (m_selreq m) (m_recv m) (Some d) 0
  | OGenUp g =>
      mkM (m_calls m) (m_frames m) (m_last m) (m_hlast m) true None (m_cseq m + 1) false [] (m_recv m) (m_metric m) (m_refused m)
  | OGenDown g =>
      mkM (m_calls m) (map settle (m_frames m)) (m_last m) (m_hlast m) false None (m_cseq m + 1) false []
          (m_recv m) (m_metric m) (m_refused m)
  end.

Fixpoint mon_run (chk : mon -> obs -> bool) (m : mon) (os : list obs) : bool :=
  match os with
  | [] => true
  | o :: r => chk m o && mon_run chk (mon_upd m o) r
  end.

(** * C06, clause 1: the result of every reply-expected data send *)
Definition reply_ok (key : Z) (m : mon) (n : Z) (rf : frame) : bool :=
  match mf_get n (m_frames m) with
  | Some x => frame_eqb (mf_f x) rf && negb (mf_used x) && is_dataframe rf && is_secondary rf && (f_sys rf =? key)
  | None => false
  end.

Definition reject_seen (key reason : Z) (m : mon) : bool :=
  existsb (fun x => (f_st (mf_f x) =? 7) && (f_pt (mf_f x) =? 0) && (f_sys (mf_f x) =? key) && (f_b3 (mf_f x) =? reason)) (m_frames m).

Definition chk_outcome (p : cfg) (m : mon) (o : obs) : bool :=
  match o with
  | ORet id r el =>
      match mc_get id (m_calls m) with
      | None => false
      | Some c =>
          mc_open c &&
          match mc_kind c with
          | KSync =>
              if wbit (mc_msg c) then
                match r with
                | ROk (Some (n, rf)) => reply_ok (f_sys (mc_msg c)) m n rf
                | ROk None => false
                | RRejected reason => reject_seen (f_sys (mc_msg c)) reason m
                | RT3 => T3 p <=? el
                | RT6 => false
                | RConnClosed | RCtxErr | RNotSelected | RNotOpen | RWriteErr => true
                end
              else
                match r with
                | ROk None | RConnClosed | RNotSelected | RNotOpen | RWriteErr => true
                | _ => false
                end
          | _ => true
          end
      end
  | _ => true
  end.

(** * C06, clause 3: library system bytes are unique among concurrently open transactions *)
Definition chk_uniq (m : mon) (o : obs) : bool :=
  match o with
  | OStart id k f =>
      if libkey k && registering k f then
        negb (existsb (fun c => mc_open c && libkey (mc_kind c) && registering (mc_kind c) (mc_msg c) &&
                                (f_sys (mc_msg c) =? f_sys f)) (m_calls m))
      else true
  | _ => true
  end.

(** * C06, clause 2: each inbound data message reaches exactly one recipient *)
Definition absorbed (m : mon) (x : mfr) : bool :=
  is_secondary (mf_f x) &&
  existsb (fun c => registering (mc_kind c) (mc_msg c) && (f_sys (mc_msg c) =? f_sys (mf_f x)) &&
                    (mc_open c || (mf_n x <=? mc_closed_at c))) (m_calls m).

(* some Reject(not selected) echoing the frame's session id and system bytes was read by the peer
   after the frame was sent (which reject answers which frame is judged by C07's clause) *)
Definition reject4_after (m : mon) (x : mfr) : bool :=
  existsb (fun e => is_reject4 (snd (fst e)) && (fst (fst e) =? -1) &&
                    (f_sid (snd (fst e)) =? f_sid (mf_f x)) && (f_sys (snd (fst e)) =? f_sys (mf_f x)) &&
                    (mf_n x <=? snd e)) (m_recv m).

Definition settle_ok (p : cfg) (m : mon) (x : mfr) : bool :=
  mf_settled x || negb (is_dataframe (mf_f x)) ||
  (mf_used x && (mf_h x =? 0)) ||
  (negb (mf_used x) && (mf_h x =? NH p)) ||
  (negb (mf_used x) && (mf_h x =? 0) && (reject4_after m x || absorbed m x)).

Definition chk_recip (p : cfg) (m : mon) (o : obs) : bool :=
  match o with
  | OHandler h n =>
      match mf_get n (m_frames m) with
      | None => false
      | Some x =>
          is_dataframe (mf_f x) && negb (mf_used x) && (mf_h x =? h) && (0 <=? h) && (h <? NH p) &&
          match assoc h (m_hlast m) with Some l => l <? n | None => true end
      end
  | ORet id (ROk (Some (n, _))) _ =>
      match mf_get n (m_frames m) with
      | None => false
      | Some x => mf_h x =? 0
      end
  | OBarrier => forallb (settle_ok p m) (m_frames m)
  | _ => true
  end.

Definition chk_C06 (p : cfg) (m : mon) (o : obs) : bool :=
  chk_outcome p m o && chk_uniq m o && chk_recip p m o.
Definition ok_C06 (p : cfg) (os : list obs) : bool := mon_run (chk_C06 p) mon0 os.

(** * C07, clause 1: the send gate *)
Definition data_kind (k : kind) : bool := negb (kind_eqb k KCtl).
Definition cond_eqb (a b : cstate * bool) : bool := cstate_eqb (fst a) (fst b) && Bool.eqb (snd a) (snd b).

Definition refused_res (r : option result) : bool :=
  match r with Some RNotSelected | Some RNotOpen => true | _ => false end.

Definition chk_gate (m : mon) (o : obs) : bool :=
  match o with
  | OPeerRecv g origin f =>
      (* no byte of a refused send reaches any socket *)
      negb (existsb (fun c => (mc_id c =? origin) && refused_res (mc_res c)) (m_calls m))
  | ORet id r el =>
      match mc_get id (m_calls m) with
      | None => false
      | Some c =>
          match r with
          | RNotSelected | RNotOpen => negb (existsb (fun e => fst (fst e) =? id) (m_recv m))
          | _ => true
          end
      end
  | OMetric d =>
      (* the drop counter grew by exactly the number of not-selected refusals *)
      match m_metric m with
      | Some d0 => d =? d0 + m_refused m
      | None => true
      end
  | _ => true
  end.

(* declared not-selected (resp. never opened) throughout the call => refused with that error
   (a harness-side clause: it needs the harness to declare the condition at a quiescent point) *)
Definition chk_declared (m : mon) (o : obs) : bool :=
  match o with
  | ORet id r el =>
      match mc_get id (m_calls m) with
      | None => false
      | Some c =>
          match mc_cond c with
          | Some (s0, op0) =>
              if data_kind (mc_kind c) && (mc_cseq c =? m_cseq m) && negb (cstate_eqb s0 SEL) then
                match r with
                | RNotSelected => op0
                | RNotOpen => negb op0
                | _ => false
                end
              else true
          | None => true
          end
      end
  | _ => true
  end.

(** * C07, clauses 2 and 3: inbound data while not selected; pipelined data *)
Definition inbound_ok (m : mon) (x : mfr) : bool :=
  mf_settled x || negb (is_dataframe (mf_f x)) ||
  ((* sent under a declared, still valid not-selected condition: rejected exactly once, not delivered *)
   match mf_cond x with
   | Some (s0, true) =>
       if (mf_cseq x =? m_cseq m) && negb (cstate_eqb s0 SEL) then mf_rej x && (mf_h x =? 0) && negb (mf_used x) else true
   | _ => true
   end &&
   (* pipelined behind the establishing select: never rejected *)
   (if mf_pipe x then negb (mf_rej x) else true)).

Definition chk_inbound (m : mon) (o : obs) : bool :=
  match o with
  | OPeerRecv g origin f =>
      if is_reject4 f && (origin =? -1) then
        match rej_target (f_sid f) (f_sys f) (m_frames m) with
        | Some x => negb (mf_pipe x)      (* pipelined data is never rejected *)
        | None => false                   (* every Reject(4) answers exactly one data frame *)
        end
      else true
  | OHandler h n =>
      match mf_get n (m_frames m) with Some x => negb (mf_rej x) | None => true end
  | ORet id (ROk (Some (n, _))) _ =>
      match mf_get n (m_frames m) with Some x => negb (mf_rej x) | None => true end
  | OBarrier => forallb (inbound_ok m) (m_frames m)
  | _ => true
  end.

Definition chk_C07 (m : mon) (o : obs) : bool := chk_gate m o && chk_declared m o && chk_inbound m o.
Definition ok_C07 (os : list obs) : bool := mon_run chk_C07 mon0 os.
