(** The SEMI E37 / E37.1 prescription for an HSMS-SS entity answering a peer, as a TABLE:
    (frame class) x (selected?) x (does the frame carry the system bytes of a transaction this
    entity has open?) -> (reply, new selected state, link up/down, transaction completed?).

    Written from the statement of property C08 and the standard (E37 §7.4 Select, §7.7 Deselect,
    §7.8 Linktest, §7.9 Separate, §7.10 Reject; E37.1: single session), NOT from the code: the
    classification below is a flat case list by message type, the table is one row per line, and
    rendering a reply into header bytes is a separate function. [Responder.respond] follows the
    code's nested branches instead; ResponderProofs.v proves the two equal on every frame in
    every state, hence on every sequence. *)
From Coq Require Import ZArith Bool List Lia.
From GoSecs Require Import Hsms.Responder.
Import ListNotations.
Open Scope Z_scope.

(** * Frame classes *)

Inductive fclass :=
| KBadPType          (* PType <> 0: not SECS-II encoded, nothing else in the header can be trusted *)
| KBadSType          (* SType outside {0..7, 9} *)
| KCtrlBody          (* a control message (SType 1..7, 9) with bytes after the header *)
| KSelectReq | KDeselectReq | KLinktestReq | KSeparateReq
| KSelectRspAccept   (* Select.rsp, status 0: communication established *)
| KSelectRspActive   (* Select.rsp, status 1: communication already active *)
| KSelectRspRefuse   (* Select.rsp, any other status *)
| KOtherRsp          (* Deselect.rsp, Linktest.rsp *)
| KRejectReq
| KDataForeign       (* data for another session id (validation on), not an S9F1 *)
| KDataReply         (* data, secondary: W-bit clear, even function *)
| KDataPrimary.      (* any other data message *)

Definition classify (c : cfg) (f : frame) : fclass :=
  if negb (f_pt f =? 0) then KBadPType
  else if f_st f =? 0 then
    if c_validate c && negb (f_sid f =? c_sid c) && negb ((f_b2 f mod 128 =? 9) && (f_b3 f =? 1))
    then KDataForeign
    else if (f_b2 f <? 128) && (f_b3 f mod 2 =? 0) then KDataReply else KDataPrimary
  else if (1 <=? f_st f) && (f_st f <=? 7) || (f_st f =? 9) then
    if has_body f then KCtrlBody
    else if f_st f =? 1 then KSelectReq
    else if f_st f =? 2 then
      (if f_b3 f =? 0 then KSelectRspAccept else if f_b3 f =? 1 then KSelectRspActive else KSelectRspRefuse)
    else if f_st f =? 3 then KDeselectReq
    else if f_st f =? 4 then KOtherRsp
    else if f_st f =? 5 then KLinktestReq
    else if f_st f =? 6 then KOtherRsp
    else if f_st f =? 7 then KRejectReq
    else KSeparateReq
  else KBadSType.

(** * The table *)

Inductive reply :=
| RSelectRsp (status : Z)
| RDeselectRsp (status : Z)
| RLinktestRsp
| RReject (reason : Z) (use_ptype : bool)   (* byte 2 = the offending PType / SType *)
| RRejectData (reason : Z)                   (* byte 2 = 0: the rejected message is a data message *)
| RS9F1                                      (* S9F1 Unrecognized Device ID with MHEAD *)
| RDeliver.                                  (* no frame: the message goes to the application *)

Record row := {
  r_reply : option reply;
  r_selected : bool;      (* selected state afterwards *)
  r_link : effect;
  r_completes : bool      (* the open transaction with these system bytes is completed *)
}.

Definition keep (sel : bool) (r : option reply) : row :=
  {| r_reply := r; r_selected := sel; r_link := Keep; r_completes := false |}.

(** [sel]: selected before the frame. [opn]: the frame's system bytes are those of a transaction
    this entity opened and that is still waiting for its answer. *)
Definition table (k : fclass) (sel opn : bool) : row :=
  match k, sel, opn with
  (* malformed: Reject.req, link and state untouched *)
  | KBadPType, _, _            => keep sel (Some (RReject 2 true))
  | KBadSType, _, _            => keep sel (Some (RReject 1 false))
  | KCtrlBody, _, _            => keep sel (Some (RReject 1 false))
  (* Select *)
  | KSelectReq, false, _       => keep true (Some (RSelectRsp 0))
  | KSelectReq, true, _        => keep true (Some (RSelectRsp 1))
  (* Deselect *)
  | KDeselectReq, true, _      => keep false (Some (RDeselectRsp 0))
  | KDeselectReq, false, _     => keep false (Some (RDeselectRsp 1))
  (* Linktest *)
  | KLinktestReq, _, _         => keep sel (Some RLinktestRsp)
  (* Separate: ends the connection when selected, no Separate is sent back; ignored otherwise *)
  | KSeparateReq, true, _      => {| r_reply := None; r_selected := true; r_link := Down; r_completes := false |}
  | KSeparateReq, false, _     => keep false None
  (* a response with no open transaction: Reject.req reason 3 carrying its SType *)
  | KSelectRspAccept, _, false => keep sel (Some (RReject 3 false))
  | KSelectRspActive, _, false => keep sel (Some (RReject 3 false))
  | KSelectRspRefuse, _, false => keep sel (Some (RReject 3 false))
  | KOtherRsp, _, false        => keep sel (Some (RReject 3 false))
  (* a Reject.req that rejects nothing this entity has open: dropped *)
  | KRejectReq, _, false       => keep sel None
  (* the answer to this entity's own open transaction (on HSMS-SS: its Select.req) *)
  | KSelectRspAccept, _, true  => {| r_reply := None; r_selected := true; r_link := Keep; r_completes := true |}
  | KSelectRspActive, _, true  => {| r_reply := None; r_selected := sel; r_link := Keep; r_completes := true |}
  | KSelectRspRefuse, _, true  => {| r_reply := None; r_selected := sel; r_link := Down; r_completes := true |}
  | KOtherRsp, _, true         => {| r_reply := None; r_selected := sel; r_link := Down; r_completes := true |}
  | KRejectReq, _, true        => {| r_reply := None; r_selected := sel; r_link := Down; r_completes := true |}
  (* data *)
  | KDataForeign, false, _     => keep false (Some (RRejectData 4))
  | KDataReply, false, _       => keep false (Some (RRejectData 4))
  | KDataPrimary, false, _     => keep false (Some (RRejectData 4))
  | KDataForeign, true, _      => keep true (Some RS9F1)
  | KDataReply, true, true     => {| r_reply := None; r_selected := true; r_link := Down; r_completes := true |}
  | KDataReply, true, false    => keep true (Some RDeliver)
  | KDataPrimary, true, _      => keep true (Some RDeliver)
  end.

(** * Rendering a reply into bytes (E37 §8.3: header layouts) *)

Record sstate := { s_sel : bool; s_open : list Z; s_ctr : Z }.

Definition hdr (sid b2 b3 st sys : Z) : frame :=
  {| f_sid := sid; f_b2 := b2; f_b3 := b3; f_pt := 0; f_st := st; f_sys := sys; f_body := [] |}.

Definition render (c : cfg) (ctr' : Z) (f : frame) (r : reply) : out :=
  match r with
  | RSelectRsp status   => Send (hdr (f_sid f) 0 status 2 (f_sys f))
  | RDeselectRsp status => Send (hdr (f_sid f) 0 status 4 (f_sys f))
  | RLinktestRsp        => Send (hdr 65535 0 0 6 (f_sys f))
  | RReject reason use_ptype =>
      Send (hdr (f_sid f) (if use_ptype then f_pt f else f_st f) reason 7 (f_sys f))
  | RRejectData reason  => Send (hdr (f_sid f) 0 reason 7 (f_sys f))
  | RS9F1 =>
      Send {| f_sid := c_sid c; f_b2 := 9; f_b3 := 1; f_pt := 0; f_st := 0; f_sys := ctr';
              f_body := 33 :: 10 :: header_bytes f |}
  | RDeliver => Deliver f
  end.

Definition uses_sysbytes (r : option reply) : bool :=
  match r with Some RS9F1 => true | _ => false end.

Definition spec_step (c : cfg) (s : sstate) (f : frame) : sstate * list out * effect :=
  let opn := mem (f_sys f) (s_open s) in
  let r := table (classify c f) (s_sel s) opn in
  let ctr' := if uses_sysbytes (r_reply r) then (s_ctr s + 1) mod 4294967296 else s_ctr s in
  ({| s_sel := r_selected r;
      s_open := if r_completes r then remove (f_sys f) (s_open s) else s_open s;
      s_ctr := ctr' |},
   match r_reply r with Some x => [render c ctr' f x] | None => [] end,
   r_link r).

(** On connect: the active entity initiates Select (fresh system bytes, configured session id)
    and has that transaction open; the passive entity waits. *)
Definition spec_start (c : cfg) (ctr0 : Z) : sstate * list out :=
  if c_active c then
    let n := (ctr0 + 1) mod 4294967296 in
    ({| s_sel := false; s_open := [n]; s_ctr := n |}, [Send (hdr (c_sid c) 0 0 1 n)])
  else ({| s_sel := false; s_open := []; s_ctr := ctr0 |}, []).

Record spec_obs := { sp_outs : list out; sp_eff : effect; sp_sel : bool }.

Fixpoint spec_run (c : cfg) (s : sstate) (fs : list frame) : list spec_obs :=
  match fs with
  | [] => []
  | f :: r =>
    let '(s', o, e) := spec_step c s f in
    {| sp_outs := o; sp_eff := e; sp_sel := s_sel s' |} ::
    match e with Keep => spec_run c s' r | Down => [] end
  end.

Definition spec_outputs (c : cfg) (ctr0 : Z) (fs : list frame) : list out :=
  snd (spec_start c ctr0) ++ flat_map sp_outs (spec_run c (fst (spec_start c ctr0)) fs).
