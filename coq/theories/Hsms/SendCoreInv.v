(** SendCoreInv — the inductive invariant of the send-core LTS (all interleavings, all peers).

    [Inv fx p s] collects: per-call facts (what a waiter's channel / pending result can contain),
    the registry invariant (an entry always points at a live registering call of that generation
    with that key), uniqueness of the holder of every inbound frame, and well-formedness of the
    inbound queue.  [exec_inv] : every enabled action preserves it — for the repaired step function
    unconditionally, for the original one under [benign] (no control response is routed into a data
    waiter; this is exactly the defect class of DESIGN.md §5 #2). *)
From Coq Require Import ZArith Bool List Lia.
From GoSecs Require Import Hsms.SendCore.
Import ListNotations.
Open Scope Z_scope.

Lemma NoDup_app_r : forall (A : Type) (l l' : list A), NoDup (l ++ l') -> NoDup l'.
Proof. induction l as [|a l IH]; cbn; intros l' H; [exact H|]. inversion H; subst. eauto. Qed.

Lemma NoDup_snoc : forall (A : Type) (l : list A) a, NoDup l -> ~ In a l -> NoDup (l ++ [a]).
Proof.
  induction l as [|b l IH]; cbn; intros a H N.
  - constructor; [intros []|constructor].
  - inversion H; subst. constructor.
    + intro X. apply in_app_or in X. destruct X as [X|[X|[]]]; [auto|]. subst. apply N. auto.
    + apply IH; auto.
Qed.

(** * call list / registry lemmas *)
Lemma get_id : forall cs id c, get id cs = Some c -> c_id c = id.
Proof.
  induction cs as [|d r IH]; cbn; intros id c H; [discriminate|].
  destruct (c_id d =? id) eqn:E; [inversion H; subst; lia | eauto].
Qed.

Lemma get_put_same : forall cs c d, get (c_id c) cs = Some d -> get (c_id c) (put c cs) = Some c.
Proof.
  induction cs as [|e r IH]; cbn; intros c d H; [discriminate|].
  destruct (c_id e =? c_id c) eqn:E; cbn.
  - rewrite Z.eqb_refl. reflexivity.
  - rewrite E. eauto.
Qed.

Lemma get_put_other : forall cs c id, id <> c_id c -> get id (put c cs) = get id cs.
Proof.
  induction cs as [|e r IH]; cbn; intros c id H; [reflexivity|].
  destruct (c_id e =? c_id c) eqn:E; cbn.
  - destruct (c_id c =? id) eqn:E1; [lia|]. destruct (c_id e =? id) eqn:E2; [lia | reflexivity].
  - destruct (c_id e =? id); [reflexivity | eauto].
Qed.

Lemma get_put_inv : forall cs c d0 id d, get (c_id c) cs = Some d0 -> get id (put c cs) = Some d ->
  (id = c_id c /\ d = c) \/ (id <> c_id c /\ get id cs = Some d).
Proof.
  intros cs c d0 id d H0 H. destruct (Z.eq_dec id (c_id c)) as [->|N].
  - rewrite (get_put_same _ _ _ H0) in H. inversion H. auto.
  - rewrite get_put_other in H by exact N. auto.
Qed.

Lemma reg_match_true : forall g k e, reg_match g k e = true <-> fst (fst e) = g /\ snd (fst e) = k.
Proof. intros g k [[a b] c]; unfold reg_match; cbn. rewrite andb_true_iff, !Z.eqb_eq. tauto. Qed.

Lemma reg_get_del_same : forall r g k, reg_get g k (reg_del g k r) = None.
Proof.
  induction r as [|e r IH]; cbn; intros g k; [reflexivity|].
  destruct (reg_match g k e) eqn:E; cbn; [eauto | rewrite E; eauto].
Qed.

Lemma reg_get_del_other : forall r g k g' k', (g' <> g \/ k' <> k) -> reg_get g' k' (reg_del g k r) = reg_get g' k' r.
Proof.
  induction r as [|e r IH]; cbn; intros g k g' k' N; [reflexivity|].
  destruct (reg_match g k e) eqn:E; cbn.
  - destruct (reg_match g' k' e) eqn:E'; [|eauto].
    apply reg_match_true in E. apply reg_match_true in E'. destruct E, E'. lia.
  - destruct (reg_match g' k' e); [reflexivity | eauto].
Qed.

Lemma reg_get_del_some : forall r g k g' k' id, reg_get g' k' (reg_del g k r) = Some id ->
  (g' <> g \/ k' <> k) /\ reg_get g' k' r = Some id.
Proof.
  intros r g k g' k' id H.
  destruct (Z.eq_dec g' g) as [->|Ng].
  - destruct (Z.eq_dec k' k) as [->|Nk].
    + rewrite reg_get_del_same in H. discriminate.
    + split; [auto|]. rewrite reg_get_del_other in H; auto.
  - split; [auto|]. rewrite reg_get_del_other in H; auto.
Qed.

(** * the invariant *)
Section Invariant.
Variable fx : bool.
Variable p : cfg.

Definition frame_ok (s : state) (key n : Z) (f : frame) : Prop :=
  In (n, f) (sent s) /\ f_sys f = key /\ f_pt f = 0 /\ (f_st f = 0 -> is_secondary f = true) /\
  ~ In n (map fst (inq s)).

Definition rej_ok (s : state) (key r : Z) : Prop :=
  exists n f, In (n, f) (sent s) /\ f_st f = 7 /\ f_pt f = 0 /\ f_sys f = key /\ f_b3 f = r.

Definition cres_ok (s : state) (key : Z) (r : cres) : Prop :=
  match r with CMsg n f => frame_ok s key n f | CRej x => rej_ok s key x end.

Definition res_ok (s : state) (c : call) (r : result) : Prop :=
  match r with
  | ROk (Some (n, f)) => frame_ok s (f_sys (c_msg c)) n f /\ (c_kind c <> KCtl -> f_st f = 0) /\ needs_reg c = true
  | ROk None => needs_reg c = true -> c_kind c <> KSync
  | RRejected x => rej_ok s (f_sys (c_msg c)) x /\ needs_reg c = true
  | RT3 => isdata c = true /\ c_t0 c + T3 p <= now s /\ needs_reg c = true
  | RT6 => isdata c = false /\ needs_reg c = true
  | RCtxErr => needs_reg c = true
  | _ => True
  end.

Record CallOK (s : state) (c : call) : Prop := mkCallOK {
  ck_kind : c_kind c = KCtl <-> f_st (c_msg c) <> 0;
  ck_wait : c_pc c = PWait -> needs_reg c = true;
  ck_reg : c_pc c = PReg -> needs_reg c = true;
  ck_enq : c_pc c = PEnq -> c_kind c <> KSync;
  ck_chan : forall r, c_chan c = Some r -> cres_ok s (f_sys (c_msg c)) r;
  ck_nil : (fx = false \/ DW p = true) -> c_kind c = KSync -> forall n f, c_chan c = Some (CMsg n f) -> f_st f = 0;
  ck_exit : forall r, c_pc c = PExit r -> res_ok s c r
}.

Definition registered (q : pc) : Prop := q = PCheck \/ q = PWrite \/ q = PWait \/ exists r, q = PExit r.

Definition RegOK (s : state) : Prop :=
  forall g k id, reg_get g k (reg s) = Some id ->
    exists c, get id (calls s) = Some c /\ c_gen c = g /\ f_sys (c_msg c) = k /\ needs_reg c = true /\ registered (c_pc c).

Definition chan_holds (c : call) (n : Z) : Prop := exists f, c_chan c = Some (CMsg n f).
Definition exit_holds (c : call) (n : Z) : Prop := exists f, c_pc c = PExit (ROk (Some (n, f))).

Record HeldOK (s : state) : Prop := mkHeldOK {
  hu_chan : forall i j ci cj n, get i (calls s) = Some ci -> get j (calls s) = Some cj ->
            chan_holds ci n -> chan_holds cj n -> i = j;
  hu_exit : forall i j ci cj n, get i (calls s) = Some ci -> get j (calls s) = Some cj ->
            exit_holds ci n -> exit_holds cj n -> i = j;
  hu_both : forall i j ci cj n, get i (calls s) = Some ci -> get j (calls s) = Some cj ->
            chan_holds ci n -> exit_holds cj n -> False
}.

Record QOK (s : state) : Prop := mkQOK {
  q_sub : forall n f, In (n, f) (inq s) -> In (n, f) (sent s);
  q_nodup : NoDup (map fst (inq s));
  q_range : forall n f, In (n, f) (sent s) -> 0 < n <= nsent s;
  q_sent_nodup : NoDup (map fst (sent s));
  q_nsent : 0 <= nsent s
}.

Record Inv (s : state) : Prop := mkInv {
  i_calls : forall id c, get id (calls s) = Some c -> CallOK s c;
  i_reg : RegOK s;
  i_held : HeldOK s;
  i_q : QOK s;
  i_now : 0 <= now s
}.

Lemma Inv_init : forall c0, Inv (init c0).
Proof.
  intros c0. constructor; cbn.
  - intros id c H. discriminate.
  - intros g k id H. discriminate.
  - constructor; cbn; intros; discriminate.
  - constructor; cbn; intros; try contradiction; try constructor; lia.
  - lia.
Qed.

(** monotonicity of the environment-dependent facts *)
Definition env_le (s s' : state) : Prop :=
  (forall x, In x (sent s) -> In x (sent s')) /\
  (forall n, In n (map fst (inq s')) -> In n (map fst (inq s))) /\
  now s <= now s'.

Lemma env_le_refl : forall s, env_le s s.
Proof. intros s. repeat split; auto; lia. Qed.

Lemma frame_ok_mono : forall s s' k n f, env_le s s' -> frame_ok s k n f -> frame_ok s' k n f.
Proof. intros s s' k n f (A & B & C) (H1 & H2 & H3 & H4 & H5). repeat split; auto. Qed.

Lemma rej_ok_mono : forall s s' k r, env_le s s' -> rej_ok s k r -> rej_ok s' k r.
Proof. intros s s' k r (A & B & C) (n & f & H & R). exists n, f. split; auto. Qed.

Lemma cres_ok_mono : forall s s' k r, env_le s s' -> cres_ok s k r -> cres_ok s' k r.
Proof. intros s s' k [n f|x] E H; cbn in *; eauto using frame_ok_mono, rej_ok_mono. Qed.

Lemma res_ok_mono : forall s s' c r, env_le s s' -> res_ok s c r -> res_ok s' c r.
Proof.
  intros s s' c r E H. destruct r as [[[n f]|]| | | | | | | |]; cbn in *; auto.
  - destruct H as (A & B & C). split; eauto using frame_ok_mono.
  - destruct H as (A & B). split; eauto using rej_ok_mono.
  - destruct H as (A & B & C). destruct E as (_ & _ & L). repeat split; auto; lia.
Qed.

Lemma CallOK_mono : forall s s' c, env_le s s' -> CallOK s c -> CallOK s' c.
Proof.
  intros s s' c E [K W W2 Q C N X]. constructor; auto.
  - intros r H. eapply cres_ok_mono; eauto.
  - intros r H. eapply res_ok_mono; eauto.
Qed.


(** Inv reads only these components *)
Lemma Inv_ext : forall s s',
  calls s' = calls s -> reg s' = reg s -> sent s' = sent s -> inq s' = inq s -> nsent s' = nsent s -> now s' = now s ->
  Inv s -> Inv s'.
Proof.
  intros s s' E1 E2 E3 E4 E5 E6 [C R H Q N].
  assert (EL : env_le s s') by (unfold env_le; rewrite E3, E4, E6; repeat split; auto; lia).
  constructor.
  - intros id c G. rewrite E1 in G. eapply CallOK_mono; eauto.
  - intros g k id G. rewrite E2 in G. rewrite E1. eauto.
  - destruct H as [H1 H2 H3]. constructor; rewrite E1; eauto.
  - destruct Q as [Q1 Q2 Q3 Q4 Q5]. constructor; rewrite ?E3, ?E4, ?E5; auto.
  - lia.
Qed.

Lemma upd_inv' : forall s c c' rg,
  Inv s -> get (c_id c) (calls s) = Some c -> c_id c' = c_id c ->
  CallOK s c' ->
  (forall n, chan_holds c' n \/ exit_holds c' n -> (chan_holds c n \/ exit_holds c n) \/
             (forall j cj, get j (calls s) = Some cj -> ~ (chan_holds cj n \/ exit_holds cj n))) ->
  (forall n, chan_holds c' n -> exit_holds c' n -> False) ->
  RegOK (w_reg (upd s c') rg) ->
  Inv (w_reg (upd s c') rg).
Proof.
  intros s c c' rg [C R H Q N] G E OK HH HB HR.
  assert (G' : get (c_id c') (calls s) = Some c) by (rewrite E; exact G).
  assert (EL : env_le s (w_reg (upd s c') rg)) by (unfold env_le; cbn; repeat split; auto; lia).
  assert (OLD : forall n, chan_holds c n \/ exit_holds c n -> forall j cj, j <> c_id c' -> get j (calls s) = Some cj ->
                 (chan_holds cj n \/ exit_holds cj n) -> False).
  { intros n Hn j cj Nj Gj Hj. destruct H as [H1 H2 H3].
    destruct Hn as [Hn|Hn], Hj as [Hj|Hj].
    - apply Nj. rewrite E. eapply (H1 j (c_id c)); eauto.
    - eapply (H3 (c_id c) j); eauto.
    - eapply (H3 j (c_id c)); eauto.
    - apply Nj. rewrite E. eapply (H2 j (c_id c)); eauto. }
  constructor.
  - intros id d Gd. cbn in Gd. destruct (get_put_inv _ _ _ _ _ G' Gd) as [[-> ->]|[Ne Gd']].
    + eapply CallOK_mono; eauto.
    + eapply CallOK_mono; eauto.
  - exact HR.
  - assert (NEW : forall n, chan_holds c' n \/ exit_holds c' n -> forall j cj, j <> c_id c' -> get j (calls s) = Some cj ->
                 (chan_holds cj n \/ exit_holds cj n) -> False).
    { intros n Hn j cj Nj Gj Hj. destruct (HH n Hn) as [Ho|Fr]; [exact (OLD n Ho j cj Nj Gj Hj) | exact (Fr j cj Gj Hj)]. }
    constructor; cbn; intros i j ci cj n Gi Gj Hi Hj.
    + destruct (get_put_inv _ _ _ _ _ G' Gi) as [[-> ->]|[Ni Gi']], (get_put_inv _ _ _ _ _ G' Gj) as [[-> ->]|[Nj Gj']].
      * reflexivity.
      * exfalso. exact (NEW n (or_introl Hi) j cj Nj Gj' (or_introl Hj)).
      * exfalso. exact (NEW n (or_introl Hj) i ci Ni Gi' (or_introl Hi)).
      * destruct H as [H1 _ _]. eauto.
    + destruct (get_put_inv _ _ _ _ _ G' Gi) as [[-> ->]|[Ni Gi']], (get_put_inv _ _ _ _ _ G' Gj) as [[-> ->]|[Nj Gj']].
      * reflexivity.
      * exfalso. exact (NEW n (or_intror Hi) j cj Nj Gj' (or_intror Hj)).
      * exfalso. exact (NEW n (or_intror Hj) i ci Ni Gi' (or_intror Hi)).
      * destruct H as [_ H2 _]. eauto.
    + destruct (get_put_inv _ _ _ _ _ G' Gi) as [[-> ->]|[Ni Gi']], (get_put_inv _ _ _ _ _ G' Gj) as [[-> ->]|[Nj Gj']].
      * eauto.
      * exact (NEW n (or_introl Hi) j cj Nj Gj' (or_intror Hj)).
      * exact (NEW n (or_intror Hj) i ci Ni Gi' (or_introl Hi)).
      * destruct H as [_ _ H3]. eauto.
  - destruct Q as [Q1 Q2 Q3 Q4 Q5]. constructor; cbn; auto.
  - exact N.
Qed.


Lemma upd_inv_g : forall s c c',
  Inv s -> get (c_id c) (calls s) = Some c -> c_id c' = c_id c ->
  CallOK s c' ->
  (registered (c_pc c) -> c_gen c' = c_gen c /\ c_msg c' = c_msg c /\ c_kind c' = c_kind c /\ registered (c_pc c')) ->
  (forall n, chan_holds c' n \/ exit_holds c' n -> (chan_holds c n \/ exit_holds c n) \/
             (forall j cj, get j (calls s) = Some cj -> ~ (chan_holds cj n \/ exit_holds cj n))) ->
  (forall n, chan_holds c' n -> exit_holds c' n -> False) ->
  Inv (upd s c').
Proof.
  intros s c c' I G E OK HR HH HB.
  assert (G' : get (c_id c') (calls s) = Some c) by (rewrite E; exact G).
  eapply (Inv_ext (w_reg (upd s c') (reg s))); try reflexivity.
  eapply upd_inv'; eauto.
  intros g k id Gr. cbn in Gr. destruct (i_reg _ I g k id Gr) as (d & Gd & D1 & D2 & D3 & D4). cbn.
  destruct (Z.eq_dec id (c_id c')) as [->|Ne].
  - rewrite G' in Gd. inversion Gd; subst d. destruct (HR D4) as (A1 & A2 & A3 & A4).
    exists c'. rewrite (get_put_same _ _ _ G'). repeat split; auto; try congruence.
    unfold needs_reg in *. rewrite A2, A3. exact D3.
  - exists d. rewrite get_put_other by exact Ne. auto.
Qed.

Lemma upd_inv : forall s c c',
  Inv s -> get (c_id c) (calls s) = Some c -> c_id c' = c_id c ->
  CallOK s c' ->
  (registered (c_pc c) -> c_gen c' = c_gen c /\ c_msg c' = c_msg c /\ c_kind c' = c_kind c /\ registered (c_pc c')) ->
  (forall n, chan_holds c' n \/ exit_holds c' n -> chan_holds c n \/ exit_holds c n) ->
  (forall n, chan_holds c' n -> exit_holds c' n -> False) ->
  Inv (upd s c').
Proof. intros s c c' I G E OK HR HH HB. eapply upd_inv_g; eauto. Qed.

Lemma Inv_env : forall s s' pre,
  calls s' = calls s -> reg s' = reg s -> sent s' = sent s -> nsent s' = nsent s ->
  now s <= now s' -> inq s = pre ++ inq s' -> Inv s -> Inv s'.
Proof.
  intros s s' pre E1 E2 E3 E5 L EQ [C R H Q N].
  assert (EL : env_le s s').
  { unfold env_le. rewrite E3, EQ. repeat split; auto. intros n Hn. rewrite map_app. apply in_or_app. auto. }
  constructor.
  - intros id c G. rewrite E1 in G. eapply CallOK_mono; eauto.
  - intros g k id G. rewrite E2 in G. rewrite E1. eauto.
  - destruct H as [H1 H2 H3]. constructor; rewrite E1; eauto.
  - destruct Q as [Q1 Q2 Q3 Q4 Q5]. constructor; rewrite ?E3, ?E5; auto.
    + intros n f Hn. apply Q1. rewrite EQ. apply in_or_app. auto.
    + rewrite EQ, map_app in Q2. eapply NoDup_app_r; eauto.
  - lia.
Qed.

Lemma CallOK_set_pc : forall s c q, CallOK s c ->
  (q = PWait -> needs_reg c = true) -> (q = PReg -> needs_reg c = true) -> (q = PEnq -> c_kind c <> KSync) ->
  (forall r, q = PExit r -> res_ok s c r) ->
  CallOK s (set_pc c q).
Proof. intros s c q [K W W2 Q C N X] H1 H1' H2 H3. constructor; cbn; auto. Qed.

Lemma holds_set_pc_plain : forall c q n, (forall r, q <> PExit r) ->
  chan_holds (set_pc c q) n \/ exit_holds (set_pc c q) n -> chan_holds c n \/ exit_holds c n.
Proof.
  intros c q n Hq [H|[f H]]; [left; exact H|]. cbn in H. exfalso. eapply Hq; eauto.
Qed.

End Invariant.
