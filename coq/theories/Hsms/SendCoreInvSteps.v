(** SendCoreInvSteps — every enabled action preserves [Inv] (see SendCoreInv.v). *)
From Coq Require Import ZArith Bool List Lia.
From GoSecs Require Import Hsms.SendCore Hsms.SendCoreInv.
Import ListNotations.
Open Scope Z_scope.

(** No control response is routed into a waiting DATA transaction (the defect class of
    DESIGN.md §5 #2).  The repaired step function needs no such hypothesis. *)
Definition benign (fx : bool) (p : cfg) (s : state) (a : action) : bool :=
  fx || DW p ||
  match a with
  | ADispatch =>
      match inq s with
      | (n, f) :: _ =>
          if (f_st f =? 2) || (f_st f =? 4) || (f_st f =? 6) then
            match reg_get (gen s) (f_sys f) (reg s) with
            | Some id => match get id (calls s) with
                         | Some c => negb (kind_eqb (c_kind c) KSync)
                         | None => true
                         end
            | None => true
            end
          else true
      | [] => true
      end
  | _ => true
  end.

Section Steps.
Variable fx : bool.
Variable p : cfg.

Notation Inv := (Inv fx p).
Notation CallOK := (CallOK fx p).

Lemma CallOK_set_gen : forall s c g, CallOK s c -> CallOK s (set_gen c g).
Proof. intros s c g [K W W2 Q C N X]. constructor; cbn; auto. Qed.

Lemma CallOK_set_ctx : forall s c b, CallOK s c -> CallOK s (set_ctx c b).
Proof. intros s c b [K W W2 Q C N X]. constructor; cbn; auto. Qed.

Lemma CallOK_set_t0_wait : forall s c t, CallOK s c -> needs_reg c = true -> CallOK s (set_pc (set_t0 c t) PWait).
Proof.
  intros s c t [K W W2 Q C N X] NR. constructor; cbn; auto; try discriminate.
Qed.

Lemma CallOK_chan_none : forall s c q, CallOK s c ->
  (q = PWait -> needs_reg c = true) -> (q = PReg -> needs_reg c = true) -> (q = PEnq -> c_kind c <> KSync) ->
  (forall r, q = PExit r -> res_ok p s c r) ->
  CallOK s (set_pc (set_chan c None) q).
Proof.
  intros s c q [K W W2 Q C N X] H1 H1' H2 H3. constructor; cbn; auto; try discriminate.
Qed.

Lemma registered_not : forall q, registered q -> q <> PEnter /\ q <> PGate /\ q <> PReg /\ q <> PEnq /\ (forall r, q <> PDone r).
Proof.
  intros q [H|[H|[H|[r H]]]]; subst; repeat split; try discriminate; intros; discriminate.
Qed.

Ltac plain_holds :=
  let n := fresh "n" in let H := fresh "H" in
  intros n H; destruct H as [H|[? H]]; [left; exact H | cbn in H; try discriminate].

(* a call moves to a pc that holds nothing new; channel untouched *)
Lemma move_inv : forall s c q,
  Inv s -> get (c_id c) (calls s) = Some c ->
  (q = PWait -> needs_reg c = true) -> (q = PReg -> needs_reg c = true) -> (q = PEnq -> c_kind c <> KSync) ->
  (forall r, q = PExit r -> res_ok p s c r /\ forall n f, r <> ROk (Some (n, f))) ->
  (registered (c_pc c) -> registered q) ->
  Inv (upd s (set_pc c q)).
Proof.
  intros s c q I G H1 H1' H2 H3 HR.
  pose proof (i_calls _ _ _ I _ _ G) as OK.
  apply (upd_inv fx p s c (set_pc c q) I G eq_refl).
  - apply CallOK_set_pc; auto. intros r E. apply (H3 r E).
  - intros R. cbn. repeat split; auto.
  - intros n [Hc|[f Hx]]; [left; exact Hc|]. cbn in Hx. destruct (H3 _ Hx) as [_ N]. exfalso. eapply N; eauto.
  - intros n _ [f Hx]. cbn in Hx. destruct (H3 _ Hx) as [_ N]. eapply N; eauto.
Qed.

Lemma Inv_drops : forall s d, Inv s -> Inv (w_drops s d).
Proof. intros s d I. apply (Inv_ext fx p s); auto. Qed.

Lemma Inv_sendq : forall s q, Inv s -> Inv (w_sendq s q).
Proof. intros s q I. apply (Inv_ext fx p s); auto. Qed.

Lemma Inv_st : forall s x, Inv s -> Inv (w_st s x).
Proof. intros s x I. apply (Inv_ext fx p s); auto. Qed.

(* the deferred deregister + return *)
Lemma exit_inv : forall s c r,
  Inv s -> get (c_id c) (calls s) = Some c -> c_pc c = PExit r ->
  Inv (upd (if needs_reg c then w_reg s (reg_del (c_gen c) (f_sys (c_msg c)) (reg s)) else s) (set_pc c (PDone r))).
Proof.
  intros s c r I G PC.
  pose proof (i_calls _ _ _ I _ _ G) as OK.
  set (rg := if needs_reg c then reg_del (c_gen c) (f_sys (c_msg c)) (reg s) else reg s).
  eapply (Inv_ext fx p (w_reg (upd s (set_pc c (PDone r))) rg)).
  1-6: unfold rg; destruct (needs_reg c); reflexivity.
  eapply upd_inv'; eauto.
  - apply CallOK_set_pc; auto; discriminate.
  - intros n [Hc|[f Hx]]; [left; left; exact Hc | cbn in Hx; discriminate].
  - intros n _ [f Hx]. cbn in Hx. discriminate.
  - intros g k id Gr. cbn in Gr. cbn.
    assert (OLD : reg_get g k (reg s) = Some id /\ (needs_reg c = true -> g <> c_gen c \/ k <> f_sys (c_msg c))).
    { unfold rg in Gr. destruct (needs_reg c) eqn:NR.
      - apply reg_get_del_some in Gr. destruct Gr as [N Gr]. split; auto.
      - split; [exact Gr | discriminate]. }
    destruct OLD as [Gr' NE].
    destruct (i_reg _ _ _ I g k id Gr') as (d & Gd & D1 & D2 & D3 & D4).
    destruct (Z.eq_dec id (c_id c)) as [->|Ne].
    + rewrite G in Gd. inversion Gd; subst d. specialize (NE D3). lia.
    + exists d. rewrite get_put_other by (cbn; exact Ne). auto.
Qed.

Lemma reg_inv : forall s c,
  Inv s -> get (c_id c) (calls s) = Some c -> c_pc c = PReg ->
  Inv (w_reg (upd s (set_pc (set_chan c None) PCheck)) (reg_put (c_gen c) (f_sys (c_msg c)) (c_id c) (reg s))).
Proof.
  intros s c I G PC.
  pose proof (i_calls _ _ _ I _ _ G) as OK.
  eapply upd_inv'; eauto.
  - apply CallOK_chan_none; auto; discriminate.
  - intros n [[f Hc]|[f Hx]]; cbn in *; discriminate.
  - intros n [f Hc]. cbn in Hc. discriminate.
  - intros g k id Gr. cbn in Gr. cbn.
    assert (G' : get (c_id (set_pc (set_chan c None) PCheck)) (calls s) = Some c) by exact G.
    destruct (reg_match g k (c_gen c, f_sys (c_msg c), c_id c)) eqn:M.
    + inversion Gr; subst id. apply reg_match_true in M. cbn in M. destruct M as [<- <-].
      exists (set_pc (set_chan c None) PCheck).
      pose proof (get_put_same (calls s) (set_pc (set_chan c None) PCheck) c G') as GP. cbn in GP. rewrite GP.
      repeat split; auto.
      * cbn. apply (ck_reg _ _ _ _ OK PC).
      * left. reflexivity.
    + assert (N : g <> c_gen c \/ k <> f_sys (c_msg c)).
      { destruct (Z.eq_dec g (c_gen c)), (Z.eq_dec k (f_sys (c_msg c))); auto.
        subst. unfold reg_match in M. cbn in M. rewrite !Z.eqb_refl in M. discriminate. }
      rewrite reg_get_del_other in Gr by exact N.
      destruct (i_reg _ _ _ I g k id Gr) as (d & Gd & D1 & D2 & D3 & D4).
      destruct (Z.eq_dec id (c_id c)) as [->|Ne].
      * rewrite G in Gd. inversion Gd; subst d. exfalso. apply registered_not in D4. rewrite PC in D4. tauto.
      * exists d. rewrite get_put_other by (cbn; exact Ne). auto.
Qed.

Lemma chan_result_msg : forall c n f res, chan_result fx c (CMsg n f) = Some res ->
  (res = ROk (Some (n, f)) /\ (c_kind c = KCtl \/ f_st f = 0)) \/
  (res = ROk None /\ fx = false /\ c_kind c <> KCtl /\ f_st f <> 0).
Proof.
  intros c n f res H. unfold chan_result in H.
  destruct (c_kind c) eqn:K;
    try (inversion H; subst; left; split; [reflexivity | left; reflexivity]);
    (destruct (f_st f =? 0) eqn:ST;
     [ inversion H; subst; left; split; [reflexivity | right; apply Z.eqb_eq; exact ST]
     | destruct fx; [discriminate|]; inversion H; subst; right; repeat split; auto;
       [discriminate | apply Z.eqb_neq; exact ST] ]).
Qed.

Lemma step_call_inv : forall s c ch s' os,
  Inv s -> get (c_id c) (calls s) = Some c ->
  step_call fx p s c ch = Some (s', os) -> Inv s'.
Proof.
  intros s c ch s' os I G H.
  pose proof (i_calls _ _ _ I _ _ G) as OK.
  unfold step_call in H.
  destruct (c_pc c) eqn:PC; destruct ch; try discriminate.
  - (* PEnter *)
    destruct (opened s).
    + inversion H; subst; clear H.
      apply (upd_inv fx p s c (set_pc (set_gen c (gen s)) PGate) I G eq_refl).
      * apply CallOK_set_pc; try discriminate. apply CallOK_set_gen; auto.
      * intros R. exfalso. rewrite PC in R. apply registered_not in R. tauto.
      * plain_holds.
      * intros n _ [f Hx]; cbn in Hx; discriminate.
    + unfold finish in H. inversion H; subst; clear H.
      apply move_inv; auto; try discriminate.
      intros R. exfalso. rewrite PC in R. apply registered_not in R. tauto.
  - (* PGate *)
    assert (NR : registered (c_pc c) -> False) by (intros R; rewrite PC in R; apply registered_not in R; tauto).
    destruct (isdata c && negb (selected s)).
    + unfold finish in H. inversion H; subst; clear H.
      apply (move_inv (w_drops s (drops s + 1))); auto using Inv_drops; try discriminate.
      intros R. exfalso. apply NR. exact R.
    + inversion H; subst; clear H.
      apply move_inv; auto; try (intros; exfalso; apply NR; assumption).
      * unfold after_gate. destruct (c_kind c); try destruct (needs_reg c); discriminate.
      * unfold after_gate. destruct (c_kind c); try destruct (needs_reg c) eqn:E; try discriminate; auto.
      * unfold after_gate. destruct (c_kind c); try destruct (needs_reg c); try discriminate; intros _ X; discriminate.
      * unfold after_gate. destruct (c_kind c); try destruct (needs_reg c); discriminate.
  - (* PReg *)
    inversion H; subst; clear H. apply reg_inv; auto.
  - (* PCheck *)
    assert (RG : registered (c_pc c) -> forall r, registered (PExit r)) by (intros _ r; right; right; right; eauto).
    destruct (negb (wr_ok s (c_gen c))).
    + inversion H; subst; clear H. apply move_inv; auto; try discriminate.
      intros r E; inversion E; subst. split; [cbn; trivial | discriminate].
    + destruct (isdata c && negb (selected s)).
      * inversion H; subst; clear H.
        apply (move_inv (w_drops s (drops s + 1))); auto using Inv_drops; try discriminate.
        intros r E; inversion E; subst. split; [cbn; trivial | discriminate].
      * inversion H; subst; clear H. apply move_inv; auto; try discriminate.
        intros _. right. left. reflexivity.
  - (* PWrite, ok *)
    destruct (wr_ok s (c_gen c)); [|discriminate].
    inversion H; subst; clear H.
    destruct (needs_reg c) eqn:NR.
    + apply (upd_inv fx p s c (set_pc (set_t0 c (now s)) PWait) I G eq_refl).
      * apply CallOK_set_t0_wait; auto.
      * intros _. cbn. repeat split; auto. right. right. left. reflexivity.
      * plain_holds.
      * intros n _ [f Hx]; cbn in Hx; discriminate.
    + apply move_inv; auto; try discriminate.
      * intros r E; inversion E; subst. split; [|discriminate]. cbn. intros X. rewrite NR in X. discriminate.
      * intros _. right; right; right; eauto.
  - (* PWrite, fail *)
    destruct (fault s || negb (wr_ok s (c_gen c))); [|discriminate].
    inversion H; subst; clear H. apply move_inv; auto; try discriminate.
    + intros r E; inversion E; subst. split; [cbn; trivial | discriminate].
    + intros _. right; right; right; eauto.
  - (* PWait, chan *)
    destruct (c_chan c) as [cr|] eqn:CH; [|discriminate].
    pose proof (ck_chan _ _ _ _ OK _ CH) as CR.
    pose proof (ck_wait _ _ _ _ OK PC) as NR.
    destruct (chan_result fx c cr) as [res|] eqn:RES.
    + inversion H; subst; clear H.
      apply (upd_inv fx p s c (set_pc (set_chan c None) (PExit res)) I G eq_refl).
      * apply CallOK_chan_none; auto; try discriminate.
        intros r E; inversion E; subst r; clear E.
        destruct cr as [n f|x].
        -- destruct (chan_result_msg _ _ _ _ RES) as [[-> KF]|[-> [FX [NK NS]]]]; cbn.
           ++ repeat split; auto; try apply CR. intros NKC. destruct KF as [KF|KF]; [contradiction | exact KF].
           ++ intros _ KS. pose proof (ck_nil _ _ _ _ OK (or_introl FX) KS n f CH) as Z0. contradiction.
        -- cbn in RES. inversion RES; subst; cbn. split; auto.
      * intros _. cbn. repeat split; auto. right; right; right; eauto.
      * intros n [[f Hc]|[f Hx]]; cbn in *; [discriminate|].
        inversion Hx; subst res.
        destruct cr as [n0 f0|x]; [|cbn in RES; discriminate].
        left. exists f0.
        destruct (chan_result_msg _ _ _ _ RES) as [[E KF]|[E _]]; inversion E; subst; exact CH.
      * intros n [f Hc]. cbn in Hc. discriminate.
    + inversion H; subst; clear H.
      apply (upd_inv fx p s c (set_chan c None) I G eq_refl).
      * destruct OK as [K W W2 Q C N X]. constructor; cbn; auto; try discriminate.
      * intros _. cbn. repeat split; auto. rewrite PC. right; right; left; reflexivity.
      * intros n [[f Hc]|[f Hx]]; cbn in *; [discriminate|]. right. exists f. exact Hx.
      * intros n [f Hc]. cbn in Hc. discriminate.
  - (* PWait, timer *)
    pose proof (ck_wait _ _ _ _ OK PC) as NR.
    destruct (c_t0 c + timeout_of p c <=? now s) eqn:T; [|discriminate].
    inversion H; subst; clear H. apply move_inv; auto; try discriminate.
    + intros r E; inversion E; subst r. split.
      * unfold timeout_res, timeout_of in *. destruct (isdata c) eqn:D; cbn; repeat split; auto. lia.
      * unfold timeout_res. destruct (isdata c); discriminate.
    + intros _. right; right; right; eauto.
  - (* PWait, gen *)
    pose proof (ck_wait _ _ _ _ OK PC) as NR.
    destruct (negb (glive s (c_gen c))); [|discriminate].
    inversion H; subst; clear H. apply move_inv; auto; try discriminate.
    + intros r E; inversion E; subst r. split; [cbn; trivial | discriminate].
    + intros _. right; right; right; eauto.
  - (* PWait, ctx *)
    pose proof (ck_wait _ _ _ _ OK PC) as NR.
    destruct (c_ctx c); [|discriminate].
    inversion H; subst; clear H. apply move_inv; auto; try discriminate.
    + intros r E; inversion E; subst r. split; [exact NR | discriminate].
    + intros _. right; right; right; eauto.
  - (* PEnq, ok *)
    assert (NR : registered (c_pc c) -> False) by (intros R; rewrite PC in R; apply registered_not in R; tauto).
    unfold finish in H. inversion H; subst; clear H.
    destruct (c_gen c =? gen s).
    + apply (move_inv (w_sendq s (sendq s ++ [(c_id c, c_msg c)]))); auto using Inv_sendq; try discriminate.
      intros R; exfalso; auto.
    + apply move_inv; auto; try discriminate. intros R; exfalso; auto.
  - (* PEnq, closed *)
    assert (NR : registered (c_pc c) -> False) by (intros R; rewrite PC in R; apply registered_not in R; tauto).
    destruct (negb (glive s (c_gen c))); [|discriminate].
    unfold finish in H. inversion H; subst; clear H.
    apply move_inv; auto; try discriminate. intros R; exfalso; auto.
  - (* PEnq, ctx *)
    assert (NR : registered (c_pc c) -> False) by (intros R; rewrite PC in R; apply registered_not in R; tauto).
    destruct (c_ctx c); [|discriminate].
    unfold finish in H. inversion H; subst; clear H.
    apply move_inv; auto; try discriminate. intros R; exfalso; auto.
  - (* PExit *)
    unfold finish in H. inversion H; subst; clear H.
    apply exit_inv; auto.
Qed.

(** ** the other actions *)

Lemma start_inv : forall s id k f s' os,
  Inv s -> exec fx p s (AStart id k f) = Some (s', os) -> Inv s'.
Proof.
  intros s id k f s' os I H. cbn in H.
  destruct (get id (calls s)) eqn:G; [discriminate|].
  destruct (id <? 0) eqn:E0; [discriminate|].
  destruct (negb (f_st f =? 0) && negb (kind_eqb k KCtl)) eqn:E1; [discriminate|].
  destruct ((f_st f =? 0) && kind_eqb k KCtl) eqn:E2; [discriminate|].
  inversion H; subst; clear H.
  set (m := if libkey k then mkF (f_sid f) (f_b2 f) (f_b3 f) (f_pt f) (f_st f) (key_of (ctr s + 1)) (f_body f) else f).
  set (nc := mkCall id k m 0 PEnter None false 0).
  assert (ST : f_st m = f_st f) by (unfold m; destruct (libkey k); reflexivity).
  assert (CS : calls (if libkey k then w_ctr s (ctr s + 1) else s) = calls s) by (destruct (libkey k); reflexivity).
  assert (NOK : CallOK s nc).
  { constructor; cbn; try discriminate.
    rewrite ST. destruct (f_st f =? 0) eqn:Z0; cbn in E1, E2.
    - apply Z.eqb_eq in Z0. split; [intros ->; cbn in E2; discriminate | intros X; contradiction].
    - apply Z.eqb_neq in Z0. split; [auto|]. intros _. destruct k; cbn in E1; try discriminate; reflexivity. }
  destruct I as [C R Hd Q N].
  assert (GN : forall j d, get j (nc :: calls s) = Some d -> (j = id /\ d = nc) \/ (j <> id /\ get j (calls s) = Some d)).
  { intros j d Gj. cbn in Gj. destruct (id =? j) eqn:Ej.
    - apply Z.eqb_eq in Ej. inversion Gj. auto.
    - apply Z.eqb_neq in Ej. right. split; [lia | exact Gj]. }
  assert (NH : forall n, ~ (chan_holds nc n \/ exit_holds nc n)).
  { intros n [[g Hc]|[g Hx]]; cbn in *; discriminate. }
  match goal with |- SendCoreInv.Inv _ _ ?S => assert (EL : env_le s S) by (unfold env_le; destruct (libkey k); cbn; repeat split; auto; lia) end.
  constructor.
  - intros j d Gj. cbn [calls w_calls] in Gj. rewrite CS in Gj.
    destruct (GN _ _ Gj) as [[-> ->]|[Nj Gj']]; eapply CallOK_mono; eauto.
  - intros g kk j Gr. assert (Gr' : reg_get g kk (reg s) = Some j) by (destruct (libkey k); exact Gr).
    destruct (R g kk j Gr') as (d & Gd & D). exists d. split; [|exact D].
    cbn [calls w_calls]. rewrite CS. cbn. destruct (id =? j) eqn:Ej; [|exact Gd].
    apply Z.eqb_eq in Ej. subst j. rewrite G in Gd. discriminate.
  - destruct Hd as [H1 H2 H3].
    constructor; cbn [calls w_calls]; rewrite CS; intros i j ci cj n Gi Gj Hi Hj;
      destruct (GN _ _ Gi) as [[-> ->]|[Ni Gi']], (GN _ _ Gj) as [[-> ->]|[Nj Gj']];
      try reflexivity; try (exfalso; eapply NH; eauto; fail); eauto.
  - destruct Q as [Q1 Q2 Q3 Q4 Q5]. destruct (libkey k); constructor; cbn; auto.
  - destruct (libkey k); cbn; exact N.
Qed.

Lemma cancel_inv : forall s id s' os,
  Inv s -> exec fx p s (ACancel id) = Some (s', os) -> Inv s'.
Proof.
  intros s id s' os I H. cbn in H. destruct (get id (calls s)) as [c|] eqn:G; [|discriminate].
  inversion H; subst; clear H.
  pose proof (get_id _ _ _ G) as E. subst id.
  apply (upd_inv fx p s c (set_ctx c true) I G eq_refl).
  - apply CallOK_set_ctx. apply (i_calls _ _ _ I _ _ G).
  - intros R. cbn. repeat split; auto.
  - intros n Hn. exact Hn.
  - intros n [f Hc] [g Hx]. cbn in *. eapply (hu_both _ (i_held _ _ _ I) (c_id c) (c_id c) c c n); eauto; [exists f|exists g]; eauto.
Qed.

Lemma peer_inv : forall s f s' os,
  Inv s -> exec fx p s (APeer f) = Some (s', os) -> Inv s'.
Proof.
  intros s f s' os I H. cbn in H. destruct (sock s); [|discriminate].
  inversion H; subst; clear H.
  destruct I as [C R Hd Q N]. destruct Q as [Q1 Q2 Q3 Q4 Q5].
  assert (FR : forall m g, In (m, g) (sent s) -> m <> nsent s + 1) by (intros m g Hm; apply Q3 in Hm; lia).
  assert (FO : forall s2 k n g, sent s2 = (nsent s + 1, f) :: sent s -> inq s2 = inq s ++ [(nsent s + 1, f)] ->
     frame_ok s k n g -> frame_ok s2 k n g).
  { intros s2 k n g E1 E2 (A & B & D & E & F). unfold frame_ok. rewrite E1, E2. repeat split; auto; [right; exact A|].
    rewrite map_app. intro X. apply in_app_or in X. destruct X as [X|[X|[]]]; [auto|]. cbn in X. eapply FR; eauto. }
  assert (RO : forall s2 k r, sent s2 = (nsent s + 1, f) :: sent s -> rej_ok s k r -> rej_ok s2 k r).
  { intros s2 k r E1 (n & g & A & B). exists n, g. rewrite E1. split; [right; exact A | exact B]. }
  constructor; cbn.
  - intros id c G. destruct (C id c G) as [K W W2 E CH NL X]. constructor; auto.
    + intros r Hr. specialize (CH r Hr). destruct r; cbn in *; [eapply FO | eapply RO]; eauto.
    + intros r Hr. specialize (X r Hr). destruct r as [[[n g]|]| | | | | | | |]; cbn in *; auto.
      * destruct X as (A & B & D). split; [eapply FO; eauto | split; auto].
      * destruct X as (A & B). split; [eapply RO; eauto | exact B].
  - exact R.
  - destruct Hd as [H1 H2 H3]. constructor; cbn; eauto.
  - constructor; cbn.
    + intros n g X. apply in_app_or in X. destruct X as [X|[X|[]]]; [right; auto | left; exact X].
    + rewrite map_app. cbn. apply NoDup_snoc; auto. intro X. apply in_map_iff in X.
      destruct X as ([m g] & E & X). cbn in E. subst m. apply Q1 in X. eapply FR; eauto.
    + intros n g [X|X]; [inversion X; subst; lia|]. apply Q3 in X. lia.
    + constructor; auto. intro X. apply in_map_iff in X. destruct X as ([m g] & E & X). cbn in E. subst m. eapply FR; eauto.
    + lia.
  - exact N.
Qed.

Lemma offer_inv : forall s id r,
  Inv s ->
  (forall c, get id (calls s) = Some c -> cres_ok s (f_sys (c_msg c)) r) ->
  (forall c n f, get id (calls s) = Some c -> r = CMsg n f -> (fx = false \/ DW p = true) -> c_kind c = KSync -> f_st f = 0) ->
  (forall n f, r = CMsg n f -> forall j cj, get j (calls s) = Some cj -> ~ (chan_holds cj n \/ exit_holds cj n)) ->
  Inv (offer s id r).
Proof.
  intros s id r I HC HN HF. unfold offer.
  destruct (get id (calls s)) as [c|] eqn:G; [|exact I].
  destruct (c_chan c) eqn:CH; [exact I|].
  pose proof (get_id _ _ _ G) as E. subst id.
  pose proof (i_calls _ _ _ I _ _ G) as OK.
  apply (upd_inv_g fx p s c (set_chan c (Some r)) I G eq_refl).
  - destruct OK as [K W W2 Q C N X]. constructor; cbn; auto.
    + intros r0 E. inversion E; subst. apply HC. reflexivity.
    + intros FX KS n f E. inversion E; subst. eapply HN; eauto.
  - intros R. cbn. repeat split; auto.
  - intros n [[f Hc]|[f Hx]]; cbn in *.
    + inversion Hc; subst. right. eapply HF; eauto.
    + left. right. exists f. exact Hx.
  - intros n [f Hc] [g Hx]. cbn in *. inversion Hc; subst.
    eapply (HF n f eq_refl (c_id c) c G). right. exists g. exact Hx.
Qed.

Lemma Inv_pop : forall s n f q, Inv s -> inq s = (n, f) :: q ->
  Inv (w_inq s q) /\ In (n, f) (sent s) /\ ~ In n (map fst q) /\
  (forall j cj, get j (calls s) = Some cj -> ~ (chan_holds cj n \/ exit_holds cj n)).
Proof.
  intros s n f q I E. split; [|split; [|split]].
  - apply (Inv_env fx p s (w_inq s q) [(n, f)]); auto. cbn. lia.
  - apply (q_sub _ (i_q _ _ _ I)). rewrite E. left. reflexivity.
  - pose proof (q_nodup _ (i_q _ _ _ I)) as ND. rewrite E in ND. cbn in ND. inversion ND; auto.
  - intros j cj G [[g Hc]|[g Hx]].
    + pose proof (ck_chan _ _ _ _ (i_calls _ _ _ I _ _ G) _ Hc) as (_ & _ & _ & _ & NI). apply NI. rewrite E. left. reflexivity.
    + pose proof (ck_exit _ _ _ _ (i_calls _ _ _ I _ _ G) _ Hx) as ((_ & _ & _ & _ & NI) & _). apply NI. rewrite E. left. reflexivity.
Qed.

Lemma dispatch_inv : forall s n f q,
  Inv s -> inq s = (n, f) :: q -> benign fx p s ADispatch = true ->
  Inv (fst (dispatch p (w_inq s q) n f)).
Proof.
  intros s n f q I E B.
  destruct (Inv_pop _ _ _ _ I E) as (I0 & SN & NQ & FR).
  set (s0 := w_inq s q) in *.
  assert (FR0 : forall j cj, get j (calls s0) = Some cj -> ~ (chan_holds cj n \/ exit_holds cj n)) by exact FR.
  assert (SN0 : In (n, f) (sent s0)) by exact SN.
  assert (NQ0 : ~ In n (map fst (inq s0))) by exact NQ.
  assert (OFF : forall id, reg_get (gen s0) (f_sys f) (reg s0) = Some id -> f_pt f = 0 ->
                (f_st f = 0 -> is_secondary f = true) ->
                ((fx = false \/ DW p = true) -> forall c, get id (calls s0) = Some c -> c_kind c = KSync -> f_st f = 0) ->
                Inv (offer s0 id (CMsg n f))).
  { intros id RG PT SEC NIL. apply offer_inv; auto.
    - intros c G. destruct (i_reg _ _ _ I0 _ _ _ RG) as (d & Gd & D1 & D2 & D3 & D4).
      rewrite G in Gd. inversion Gd; subst d. cbn. repeat split; auto.
    - intros c n0 f0 G Eq FX KS. inversion Eq; subst. eapply NIL; eauto.
    - intros n0 f0 Eq. inversion Eq; subst. exact FR0. }
  unfold dispatch.
  destruct (negb (f_pt f =? 0) || negb (valid_stype (f_st f))) eqn:C1; [cbn; apply Inv_sendq; exact I0|].
  apply orb_false_iff in C1. destruct C1 as [PT _]. apply negb_false_iff in PT. apply Z.eqb_eq in PT.
  destruct (negb (f_st f =? 0) && negb match f_body f with [] => true | _ :: _ => false end); [cbn; apply Inv_sendq; exact I0|].
  destruct (f_st f =? 0) eqn:ST0.
  { apply Z.eqb_eq in ST0.
    destruct (negb (selected s0)); [cbn; apply Inv_sendq; exact I0|].
    destruct (is_secondary f) eqn:SEC.
    - destruct (reg_get (gen s0) (f_sys f) (reg s0)) as [id|] eqn:RG.
      + cbn. apply OFF; auto.
      + destruct (gcancel s0); cbn; exact I0.
    - destruct (gcancel s0); cbn; exact I0. }
  destruct (f_st f =? 7) eqn:ST7.
  { apply Z.eqb_eq in ST7.
    destruct (reg_get (gen s0) (f_sys f) (reg s0)) as [id|] eqn:RG; [|cbn; exact I0].
    cbn. apply offer_inv; auto.
    - intros c G. destruct (i_reg _ _ _ I0 _ _ _ RG) as (d & Gd & D1 & D2 & D3 & D4).
      rewrite G in Gd. inversion Gd; subst d. cbn. exists n, f. repeat split; auto.
    - intros c n0 f0 G Eq. discriminate.
    - intros n0 f0 Eq. discriminate. }
  destruct ((f_st f =? 2) || (f_st f =? 4) || (f_st f =? 6)) eqn:ST246.
  { destruct (route_ctl p s0 f) as [id|] eqn:RC; [|cbn; apply Inv_sendq; exact I0].
    assert (RG : reg_get (gen s0) (f_sys f) (reg s0) = Some id /\ DW p && data_waiter s0 id = false).
    { unfold route_ctl in RC. destruct (reg_get (gen s0) (f_sys f) (reg s0)) as [j|]; [|discriminate].
      destruct (DW p && data_waiter s0 j) eqn:DWJ; [discriminate|]. inversion RC; subst. auto. }
    destruct RG as [RG NDW].
    assert (IO : Inv (offer s0 id (CMsg n f))).
    { apply OFF; auto.
      - intros Z0. rewrite Z0 in ST0. cbn in ST0. discriminate.
      - intros NC c G KS. exfalso.
        assert (DWK : data_waiter s0 id = true) by (unfold data_waiter; rewrite G, KS; reflexivity).
        rewrite DWK, andb_true_r in NDW.
        destruct NC as [FX|DT]; [|congruence].
        unfold benign in B. rewrite FX, NDW, E in B. cbn in B.
        rewrite ST246 in B. change (gen s) with (gen s0) in B. change (reg s) with (reg s0) in B.
        rewrite RG in B. change (calls s) with (calls s0) in B. rewrite G, KS in B. cbn in B. discriminate. }
    destruct ((f_st f =? 2) && (f_b3 f =? 0) && cstate_eqb (st (offer s0 id (CMsg n f))) NS); cbn; [apply Inv_st|]; exact IO. }
  destruct (f_st f =? 1).
  { destruct (cstate_eqb (st s0) NS); cbn; apply Inv_sendq; [apply Inv_st|]; exact I0. }
  destruct (f_st f =? 5); [cbn; apply Inv_sendq; exact I0|].
  destruct (f_st f =? 3).
  { destruct (selected s0); cbn; [apply Inv_st|]; apply Inv_sendq; exact I0. }
  cbn. exact I0.
Qed.

Theorem exec_inv : forall s a s' os,
  Inv s -> benign fx p s a = true -> exec fx p s a = Some (s', os) -> Inv s'.
Proof.
  intros s a s' os I B H. destruct a.
  - eapply start_inv; eauto.
  - cbn in H. destruct (get id (calls s)) as [c0|] eqn:G; [|discriminate].
    pose proof (get_id _ _ _ G) as E. subst id. eapply step_call_inv; eauto.
  - eapply cancel_inv; eauto.
  - cbn in H. destruct (sendq s) as [|[o f] q]; [discriminate|].
    destruct (negb (wr_ok s (gen s))); [inversion H; subst; apply Inv_sendq; exact I|].
    destruct ((f_st f =? 0) && negb (selected s)); [inversion H; subst; apply Inv_drops; apply Inv_sendq; exact I|].
    destruct ok; [inversion H; subst; apply Inv_sendq; exact I|].
    destruct (fault s); [inversion H; subst; apply Inv_sendq; exact I | discriminate].
  - eapply peer_inv; eauto.
  - cbn in H. destruct (inq s) as [|[n f] q] eqn:E; [discriminate|].
    pose proof (dispatch_inv s n f q I E B) as D.
    destruct (dispatch p (w_inq s q) n f) as [s1 o1]. inversion H; subst. exact D.
  - cbn in H. destruct (0 <=? d) eqn:D; [|discriminate]. inversion H; subst.
    apply (Inv_env fx p s (w_now s (now s + d)) []); auto. cbn. lia.
  - cbn in H. destruct (cstate_eqb (st s) NC && (negb (opened s) || gcancel s)); [|discriminate].
    inversion H; subst.
    apply (Inv_env fx p s (mkS NC true (gen s + 1) false false false (calls s) (reg s) (ctr s) (drops s) [] [] (nsent s) (now s) (sent s)) (inq s));
      cbn; auto; try lia. rewrite app_nil_r. reflexivity.
  - cbn in H. destruct (opened s && negb (sock s) && negb (gcancel s) && cstate_eqb (st s) NC); [|discriminate].
    inversion H; subst. apply (Inv_ext fx p s); auto.
  - cbn in H. destruct (opened s); [|discriminate]. inversion H; subst. apply Inv_st; exact I.
  - cbn in H. destruct (opened s); [|discriminate]. inversion H; subst. apply (Inv_ext fx p s); auto.
  - cbn in H. destruct (sock s); [|discriminate]. inversion H; subst. apply (Inv_ext fx p s); auto.
  - cbn in H. destruct (inq s), (sendq s); try discriminate. inversion H; subst. exact I.
  - cbn in H. destruct (inq s), (sendq s); try discriminate. inversion H; subst. exact I.
  - cbn in H. destruct (sendq s); [|discriminate].
    destruct (forallb _ (calls s)); [|discriminate]. inversion H; subst. exact I.
Qed.

(* all actions of a run are benign *)
Fixpoint all_benign (s : state) (acts : list action) : bool :=
  match acts with
  | [] => true
  | a :: r => benign fx p s a &&
              match exec fx p s a with
              | Some (s1, _) => all_benign s1 r
              | None => true
              end
  end.

Theorem run_inv : forall acts s s' os,
  Inv s -> all_benign s acts = true -> run fx p s acts = Some (s', os) -> Inv s'.
Proof.
  induction acts as [|a r IH]; cbn; intros s s' os I B H.
  - inversion H; subst. exact I.
  - apply andb_true_iff in B. destruct B as [B1 B2].
    destruct (exec fx p s a) as [[s1 o1]|] eqn:E; [|discriminate].
    destruct (run fx p s1 r) as [[s2 o2]|] eqn:R; [|discriminate].
    inversion H; subst. apply (IH s1 s' o2); auto. eapply exec_inv; eauto.
Qed.

End Steps.

Lemma benign_fixed : forall p s a, benign true p s a = true.
Proof. reflexivity. Qed.

Lemma all_benign_fixed : forall p acts s, all_benign true p s acts = true.
Proof.
  induction acts as [|a r IH]; cbn; intros s; [reflexivity|].
  destruct (exec true p s a) as [[s1 o1]|]; auto.
Qed.

(* with the data-only registry no control response can reach a data waiter: every action is benign *)
Lemma all_benign_dw : forall fx p acts s, DW p = true -> all_benign fx p s acts = true.
Proof.
  intros fx p. induction acts as [|a r IH]; cbn; intros s D; [reflexivity|].
  unfold benign. rewrite D, orb_true_r. cbn. destruct (exec fx p s a) as [[s1 o1]|]; auto.
Qed.
