(** Proofs about the [Generations] LTS: the generation discipline (at most one open socket, the
    recv loop that holds a frame is the current generation's), reply provenance, and the theorem
    that EVERY action sequence is accepted by the monitor [ok_C09]. *)
From Coq Require Import ZArith Bool List Lia Arith.
From GoSecs Require Import Hsms.Generations.
Import ListNotations.

(** * Plumbing *)

Lemma mon9_run_app m l1 l2 :
  mon9_run m (l1 ++ l2) = match mon9_run m l1 with Some m' => mon9_run m' l2 | None => None end.
Proof.
  revert m. induction l1 as [|o l1 IH]; intros m; cbn [mon9_run app]; [reflexivity|].
  destruct (mon9_step m o); [apply IH|reflexivity].
Qed.

Lemma upd_same {A} (f : nat -> A) k v : upd f k v k = v.
Proof. unfold upd. rewrite Nat.eqb_refl. reflexivity. Qed.

Lemma upd_other {A} (f : nat -> A) k v x : x <> k -> upd f k v x = f x.
Proof. intros H. unfold upd. destruct (Nat.eqb_spec x k); [contradiction|reflexivity]. Qed.

Lemma kind_eqb_refl k : kind_eqb k k = true.
Proof. destruct k; reflexivity. Qed.

(** Destruct every [match]/[if] scrutinee in hypothesis [H] (an equation [exec s a = (s', o)]). *)
Ltac dmatch H :=
  repeat match type of H with
  | context [match ?x with _ => _ end] => let E := fresh "E" in destruct x eqn:E
  | context [if ?x then _ else _] => let E := fresh "E" in destruct x eqn:E
  end.

Ltac unfold_exec H :=
  unfold exec, fail_write, finish_wait, route_cur, new_gen, ph, when in H; cbv zeta in H.

Ltac st_simpl :=
  cbn [cur ngen gens calls ids st shut lsp lrun wire mx set_call set_gen set_mx set_st set_loops
       c_kind c_gen c_phase c_reg with_phase with_reg g_sock g_up g_cancel g_joined g_inbox g_rbuf fst snd] in *.

(** * Generation discipline *)

Definition is_some {A} (o : option A) : bool := match o with Some _ => true | None => false end.

Definition cur_is (s : state) (g : nat) : bool :=
  match cur s with Some x => Nat.eqb x g | None => false end.

(** Per generation: an open socket belongs to the current, un-cancelled generation; a recv loop
    that holds an un-routed frame belongs to the current generation; a joined generation is
    cancelled and its recv loop holds nothing. *)
Definition genok (ic : bool) (y : gen) : bool :=
  implb (g_sock y) (ic && negb (g_cancel y)) && implb (is_some (g_rbuf y)) ic
  && implb (g_joined y) (g_cancel y && negb (is_some (g_rbuf y))).

Definition GI (s : state) : Prop := forall g, genok (cur_is s g) (gens s g) = true.

Lemma GI_init : GI init.
Proof. intros g. reflexivity. Qed.

(** Actions that touch neither [cur] nor [gens]. *)
Definition call_action (a : action) : bool :=
  match a with
  | Enter _ _ | B1 _ | Register _ | Enqueue _ | EnqueueClosed _ | EnqueueCtx _ | Drain _ | Capture _
  | Check _ | WriteOk _ | WriteFail _ | Arm _ | CompleteReply _ | CompleteTimer _ | CompleteClosed _
  | CompleteCtx _ | Select | Deselect | Drop | CloseReq | LoopSpawn | LoopBegin | LoopEnd _ | Snap => true
  | _ => false
  end.

Lemma call_action_frame s a s' o :
  call_action a = true -> exec s a = (s', o) -> cur s' = cur s /\ gens s' = gens s.
Proof.
  intros Ha H. destruct a; try discriminate Ha; unfold_exec H; dmatch H;
    inversion H; subst; st_simpl; split; first [reflexivity | congruence].
Qed.

Lemma cur_is_eq s g : cur s = Some g -> cur_is s g = true.
Proof. intros H. unfold cur_is. rewrite H. apply Nat.eqb_refl. Qed.

Lemma cur_is_neq s g g0 : cur s = Some g -> g0 <> g -> cur_is s g0 = false.
Proof. intros H Hn. unfold cur_is. rewrite H. destruct (Nat.eqb_spec g g0); congruence. Qed.

(** Updating one generation in place ([cur] unchanged). *)
Lemma GI_set_gen s s' g y' :
  GI s -> cur s' = cur s -> gens s' = upd (gens s) g y' ->
  (genok (cur_is s g) (gens s g) = true -> genok (cur_is s g) y' = true) -> GI s'.
Proof.
  intros G Hc Hg Hy g0. unfold cur_is. rewrite Hc, Hg. unfold upd.
  destruct (Nat.eqb_spec g0 g) as [->|Hn]; [apply Hy|]; apply G.
Qed.

Ltac gen_bits y :=
  let so := fresh "so" in let up := fresh "up" in let ca := fresh "ca" in
  let jo := fresh "jo" in let ib := fresh "ib" in let rb := fresh "rb" in
  destruct y as [so up ca jo ib rb]; cbn [g_sock g_up g_cancel g_joined g_inbox g_rbuf] in *.

Ltac bool_crush :=
  unfold genok in *; cbn [g_sock g_up g_cancel g_joined g_inbox g_rbuf is_some] in *;
  repeat match goal with
  | b : bool |- _ => destruct b
  | o : option pframe |- _ => destruct o
  end; cbn in *; try discriminate; try reflexivity; try congruence.

Lemma GI_new_gen s sh : GI s ->
  (forall g, cur s = Some g -> g_joined (gens s g) = true) -> GI (new_gen s sh).
Proof.
  intros G Hj g0. unfold new_gen, cur_is. st_simpl. unfold upd.
  destruct (Nat.eqb_spec g0 (ngen s)) as [->|Hn].
  - rewrite Nat.eqb_refl. reflexivity.
  - destruct (Nat.eqb_spec (ngen s) g0) as [Heq|_]; [congruence|].
    specialize (G g0). unfold cur_is in G.
    destruct (cur s) as [gc|] eqn:Ec.
    + destruct (Nat.eqb_spec gc g0) as [->|_]; [|exact G].
      specialize (Hj _ eq_refl). revert G Hj. generalize (gens s g0). intros y. gen_bits y. intros G Hj.
      subst jo. revert G. unfold genok. cbn [g_sock g_up g_cancel g_joined g_inbox g_rbuf].
      destruct so, ca, rb; cbn; intros; try discriminate; reflexivity.
    + exact G.
Qed.

Lemma GI_step s a s' o : GI s -> exec s a = (s', o) -> GI s'.
Proof.
  intros G H.
  destruct (call_action a) eqn:Ha.
  { destruct (call_action_frame _ _ _ _ Ha H) as [Hc Hg].
    intros g. unfold cur_is. rewrite Hc, Hg. apply G. }
  destruct a; try discriminate Ha; clear Ha; unfold_exec H; dmatch H; inversion H; subst; clear H;
    try assumption;
    try (apply GI_new_gen; [assumption|]; intros g0 Hg0;
         repeat match goal with Hx : _ && _ = true |- _ => apply andb_prop in Hx; destruct Hx end;
         congruence);
    try (eapply GI_set_gen; [eassumption|st_simpl; reflexivity|st_simpl; reflexivity|];
         first [ rewrite (cur_is_eq _ _ ltac:(eassumption))
               | match goal with |- genok ?ic _ = true -> _ => generalize ic; intros ? end ];
         match goal with |- genok _ (gens ?s ?g) = true -> _ => generalize dependent (gens s g) end;
         intros y; gen_bits y; intros; subst; bool_crush).
Qed.

(** * Frames on the wire: only on the socket of the generation the call is pinned to *)

Definition wire_ok (s : state) : Prop :=
  forall g c k, In (g, c, k) (wire s) -> c_gen (calls s c) = g /\ c_phase (calls s c) <> PNone.

Lemma wire_ok_init : wire_ok init.
Proof. intros g c k H. destruct H. Qed.

(** A call's pinned generation never changes once it entered; a used id stays used. *)
Lemma pinned_stable s a s' o c :
  exec s a = (s', o) -> c_phase (calls s c) <> PNone ->
  c_gen (calls s' c) = c_gen (calls s c) /\ c_kind (calls s' c) = c_kind (calls s c) /\ c_phase (calls s' c) <> PNone.
Proof.
  intros H Hp. destruct a; unfold_exec H; dmatch H; inversion H; subst; clear H; st_simpl;
    try (repeat split; first [reflexivity | assumption]);
    unfold upd; repeat match goal with |- context [Nat.eqb ?a ?b] => destruct (Nat.eqb_spec a b); subst end;
    st_simpl; repeat split; try reflexivity; try assumption; try congruence; try discriminate.
Qed.

Lemma wire_step s a s' o :
  exec s a = (s', o) ->
  wire s' = wire s \/ exists c, a = WriteOk c /\ c_phase (calls s c) = PWriting /\
      wire s' = (c_gen (calls s c), c, c_kind (calls s c)) :: wire s /\
      g_sock (gens s (c_gen (calls s c))) = true /\
      o <> [] /\ hd_error o = Some (OWire (c_gen (calls s c)) c (c_kind (calls s c))).
Proof.
  intros H. destruct a; unfold_exec H; dmatch H; inversion H; subst; clear H; st_simpl;
    try (left; reflexivity); right; eexists; repeat split; try reflexivity; try assumption; discriminate.
Qed.

Lemma wire_ok_step s a s' o : wire_ok s -> exec s a = (s', o) -> wire_ok s'.
Proof.
  intros W H g c k Hin.
  destruct (wire_step _ _ _ _ H) as [Hw|(c0 & -> & Hp & Hw & _)]; rewrite Hw in Hin.
  - destruct (W _ _ _ Hin) as [Hg Hn].
    destruct (pinned_stable _ _ _ _ c H Hn) as (H1 & _ & H3). split; congruence.
  - assert (Hn0 : c_phase (calls s c0) <> PNone) by (rewrite Hp; discriminate).
    destruct Hin as [Heq|Hin].
    + inversion Heq; subst. destruct (pinned_stable _ _ _ _ c H Hn0) as (H1 & _ & H3). split; congruence.
    + destruct (W _ _ _ Hin) as [Hg Hn].
      destruct (pinned_stable _ _ _ _ c H Hn) as (H1 & _ & H3). split; congruence.
Qed.

(** Reachability. *)
Lemma run_app s l1 l2 :
  run s (l1 ++ l2) = let '(s1, o1) := run s l1 in let '(s2, o2) := run s1 l2 in (s2, o1 ++ o2).
Proof.
  revert s. induction l1 as [|a l1 IH]; intros s; cbn [run app].
  - destruct (run s l2); reflexivity.
  - destruct (exec s a) as [s1 o1]. rewrite IH. destruct (run s1 l1) as [s2 o2].
    destruct (run s2 l2) as [s3 o3]. rewrite app_assoc. reflexivity.
Qed.

Lemma run_inv (P : state -> Prop) :
  P init -> (forall s a s' o, P s -> exec s a = (s', o) -> P s') ->
  forall acts, P (fst (run init acts)).
Proof.
  intros H0 Hs acts.
  assert (G : forall s, P s -> P (fst (run s acts))).
  { induction acts as [|a r IH]; intros s Hp; cbn [run]; [exact Hp|].
    destruct (exec s a) as [s1 o1] eqn:E. specialize (IH s1 (Hs _ _ _ _ Hp E)).
    destruct (run s1 r); exact IH. }
  apply G, H0.
Qed.

Theorem GI_reachable acts : GI (fst (run init acts)).
Proof. apply run_inv; [exact GI_init|]. intros; eapply GI_step; eassumption. Qed.

Theorem wire_ok_reachable acts : wire_ok (fst (run init acts)).
Proof. apply run_inv; [exact wire_ok_init|]. intros; eapply wire_ok_step; eassumption. Qed.

(** * Freshness of unpublished generation slots *)

Definition FI (s : state) : Prop :=
  (forall g, cur s = Some g -> g < ngen s) /\ (forall g, ngen s <= g -> gens s g = gen0).

Lemma FI_init : FI init.
Proof. split; intros; [discriminate|reflexivity]. Qed.

Lemma FI_set_gen s s' g y :
  FI s -> cur s' = cur s -> ngen s' = ngen s -> gens s' = upd (gens s) g y ->
  (ngen s <= g -> gens s g = gen0 -> y = gen0) -> FI s'.
Proof.
  intros [F1 F2] Hc Hn Hg Hy. split; rewrite ?Hc, ?Hn, ?Hg; [assumption|].
  intros g0 Hg0. unfold upd. destruct (Nat.eqb_spec g0 g) as [->|]; [|apply F2; assumption].
  apply Hy; [assumption|apply F2; assumption].
Qed.

Lemma FI_step s a s' o : FI s -> exec s a = (s', o) -> FI s'.
Proof.
  intros F H.
  destruct (call_action a) eqn:Ha.
  { assert (Hn : ngen s' = ngen s).
    { destruct a; try discriminate Ha; unfold_exec H; dmatch H; inversion H; subst; reflexivity. }
    destruct (call_action_frame _ _ _ _ Ha H) as [Hc Hg]. destruct F as [F1 F2].
    split; rewrite ?Hc, ?Hg, ?Hn; assumption. }
  destruct a; try discriminate Ha; clear Ha; unfold_exec H; dmatch H; inversion H; subst; clear H;
    try assumption;
    try (eapply FI_set_gen; [eassumption|st_simpl; reflexivity|st_simpl; reflexivity|st_simpl; reflexivity|];
         intros Hle Hz;
         try (exfalso; destruct F as [F1 _];
              match goal with Hr : cur _ = Some _ |- _ => specialize (F1 _ Hr); lia end);
         rewrite Hz in *; cbn in *; congruence);
    try (destruct F as [F1 F2]; unfold new_gen; split; st_simpl;
         [intros g0 Hg0; inversion Hg0; subst; lia
         |intros g0 Hg0; unfold upd; destruct (Nat.eqb_spec g0 (ngen s)); [reflexivity|apply F2; lia]]).
Qed.

(** * Per-call invariant *)

Definition wired (s : state) (c : nat) : bool := existsb (fun e => Nat.eqb (snd (fst e)) c) (wire s).

Definition callok (w : bool) (x : call) : bool :=
  match c_phase x with
  | PWritten | PWait => w && registers (c_kind x)
  | PDone _ => true
  | _ => negb w
  end
  && match c_reg x with
     | RegFull (RReply f) | RegFull (RReject f) => Nat.eqb f (c_gen x)
     | RegFull _ => false
     | _ => true
     end.

Definition CI (s : state) : Prop := forall c, callok (wired s c) (calls s c) = true.

Lemma CI_init : CI init.
Proof. intros c. reflexivity. Qed.

Definition nocall_action (a : action) : bool :=
  match a with
  | PeerSend _ _ | Read _ | Open | Publish | TCPUp | Select | Deselect | Drop | CloseReq | Teardown | Join _
  | LoopSpawn | LoopBegin | LoopEnd _ | Snap => true
  | _ => false
  end.

Lemma nocall_frame s a s' o :
  nocall_action a = true -> exec s a = (s', o) -> calls s' = calls s /\ wire s' = wire s.
Proof.
  intros Ha H. destruct a; try discriminate Ha; unfold_exec H; dmatch H;
    inversion H; subst; st_simpl; split; reflexivity.
Qed.

Ltac call_bits x :=
  let k := fresh "k" in let g := fresh "g" in let p := fresh "p" in let r := fresh "r" in
  destruct x as [k g p r]; cbn [c_kind c_gen c_phase c_reg] in *.

Lemma wired_cons s g c k c1 w :
  wire s = (g, c, k) :: w -> wired s c1 = Nat.eqb c c1 || existsb (fun e => Nat.eqb (snd (fst e)) c1) w.
Proof. intros H. unfold wired. rewrite H. reflexivity. Qed.

Ltac ci_same G C s c :=
  specialize (C c); unfold wired in C; rewrite ?Nat.eqb_refl;
  try match goal with Hr : cur _ = Some ?gc, Hb : g_rbuf (gens _ ?g) = Some _ |- _ =>
        let Q := fresh "Q" in pose proof (G g) as Q; unfold genok, cur_is in Q; rewrite Hr, Hb in Q;
        cbn [is_some] in Q; apply andb_prop in Q; destruct Q as [Q _]; apply andb_prop in Q;
        destruct Q as [_ Q]; apply Nat.eqb_eq in Q; subst end;
  match type of C with callok ?w _ = true => generalize dependent w end; intros w C;
  call_bits (calls s c); subst;
  unfold callok, with_phase, with_reg in *; cbn [c_kind c_gen c_phase c_reg] in *;
  repeat match goal with
         | Hx : Nat.eqb _ _ = true |- _ => apply Nat.eqb_eq in Hx; subst
         end;
  rewrite ?Nat.eqb_refl;
  repeat match goal with
         | b : bool |- _ => destruct b
         | k : kind |- _ => destruct k
         | r : rstate |- _ => destruct r
         | r : result |- _ => destruct r
         end; cbn in *; try reflexivity; try discriminate; try congruence.

Lemma CI_step s a s' o : GI s -> CI s -> exec s a = (s', o) -> CI s'.
Proof.
  intros G C H.
  destruct (nocall_action a) eqn:Ha.
  { destruct (nocall_frame _ _ _ _ Ha H) as [Hc Hw]. intros c. unfold wired. rewrite Hc, Hw. apply C. }
  destruct a; try discriminate Ha; clear Ha;
    unfold_exec H; dmatch H; inversion H; subst; clear H; try assumption;
    intros c1; unfold wired; st_simpl; unfold upd; cbn [existsb fst snd];
    match goal with |- context [if Nat.eqb ?a ?b then _ else _] => destruct (Nat.eqb_spec a b) as [->|Hne] end.
  all: try (match goal with Hne : _ <> _ |- _ =>
              try (match goal with |- context [Nat.eqb ?x ?y || _] => destruct (Nat.eqb_spec x y) as [Hx|_]; [congruence|] end);
              cbn [orb]; apply C end).
  all: match goal with
       | |- callok _ (_ (calls ?s0 ?c) _) = true => ci_same G C s0 c
       | E : c_phase (calls ?s0 ?c) = _ |- _ => ci_same G C s0 c
       end.
Qed.

(** * The monitor state as a function of the model state *)

Definition acc_of (x : call) : option nat :=
  match c_phase x with PNone | PDone RNotOpen => None | _ => Some (c_gen x) end.
Definition done_of (x : call) : bool :=
  match c_phase x with PNone | PEntered | PGated => false | PDone _ => true | _ => is_async (c_kind x) end.
Definition mview (s : state) (c : nat) : mcall :=
  let x := calls s c in
  match c_phase x with
  | PNone => mcall0
  | _ => mkMC (acc_of x) (c_kind x) (wired s c) (done_of x)
  end.
Definition view (s : state) : mon9 := mkMon9 (mview s) (fun g => g_cancel (gens s g)).

Definition meq (a b : mon9) : Prop := (forall c, mc a c = mc b c) /\ (forall g, mt a g = mt b g).

Lemma meq_refl a : meq a a.
Proof. split; reflexivity. Qed.

Lemma meq_trans a b c : meq a b -> meq b c -> meq a c.
Proof. intros [H1 H2] [H3 H4]. split; intros; congruence. Qed.

Lemma mon9_step_meq a b o : meq a b ->
  match mon9_step a o, mon9_step b o with
  | Some a', Some b' => meq a' b'
  | None, None => True
  | _, _ => False
  end.
Proof.
  intros [Hc Hg]. destruct o; cbn [mon9_step]; rewrite <- ?Hc, <- ?Hg;
    repeat match goal with
    | |- context [match ?x with _ => _ end] =>
        lazymatch x with
        | context [match _ with _ => _ end] => fail
        | _ => destruct x eqn:?
        end
    end; try exact I; try (split; assumption);
    split; cbn [mc mt]; intros x; unfold upd;
    try match goal with |- context [Nat.eqb ?p ?q] => destruct (Nat.eqb p q) end; auto.
Qed.

Lemma mon9_run_meq l : forall a b, meq a b ->
  match mon9_run a l, mon9_run b l with
  | Some a', Some b' => meq a' b'
  | None, None => True
  | _, _ => False
  end.
Proof.
  induction l as [|o r IH]; intros a b H; cbn [mon9_run]; [exact H|].
  pose proof (mon9_step_meq a b o H) as Hs.
  destruct (mon9_step a o), (mon9_step b o); try contradiction; [apply IH; exact Hs|exact I].
Qed.

Lemma registers_not_async k : registers k = true -> is_async k = false.
Proof. destruct k; cbn; congruence. Qed.

Lemma mview_frame s s' :
  calls s' = calls s -> wire s' = wire s -> forall c, mview s' c = mview s c.
Proof. intros Hc Hw c. unfold mview, wired. rewrite Hc, Hw. reflexivity. Qed.

(** Steps that do not touch the calls. *)
Lemma mon_nocall s a s' o :
  GI s -> FI s -> nocall_action a = true -> exec s a = (s', o) ->
  exists m', mon9_run (view s) o = Some m' /\ meq m' (view s').
Proof.
  intros G F Ha H.
  destruct (nocall_frame _ _ _ _ Ha H) as [Hc Hw].
  pose proof (mview_frame _ _ Hc Hw) as Hm. clear Hc Hw.
  destruct a; try discriminate Ha; clear Ha; unfold_exec H; dmatch H; inversion H; subst; clear H;
    cbn [mon9_run mon9_step];
    try (eexists; split; [reflexivity|]; split; [intros c0; cbn [view mc]; symmetry; apply Hm|];
         intros g0; cbn [view mt]; st_simpl; unfold upd;
         try match goal with |- context [if Nat.eqb ?p ?q then _ else _] => destruct (Nat.eqb_spec p q) as [->|] end;
         cbn [g_cancel]; try reflexivity;
         try (destruct F as [_ F2]; rewrite (F2 (ngen s) (le_n _)); reflexivity);
         repeat match goal with Hx : _ && _ = true |- _ => apply andb_prop in Hx; destruct Hx end;
         repeat match goal with Hx : negb _ = true |- _ => apply negb_true_iff in Hx end;
         congruence).
  (* Teardown *)
  cbn [view mt].
  repeat match goal with Hx : _ && _ = true |- _ => apply andb_prop in Hx; destruct Hx end.
  match goal with Hx : negb _ = true |- _ => apply negb_true_iff in Hx; rewrite Hx end.
  eexists; split; [reflexivity|]. split; [intros c0; cbn [view mc]; symmetry; apply Hm|].
  intros g0; cbn [view mt]; st_simpl; unfold upd. destruct (Nat.eqb_spec g0 n); reflexivity.
Qed.

Lemma mon_route s g s' o :
  exec s (Route g) = (s', o) ->
  exists m', mon9_run (view s) o = Some m' /\ meq m' (view s').
Proof.
  intros H. unfold_exec H; dmatch H; inversion H; subst; clear H; cbn [mon9_run mon9_step];
    (eexists; split; [reflexivity|]; split;
     [ intros c0; cbn [view mc]; unfold mview, wired; st_simpl; unfold upd;
       try match goal with |- context [if Nat.eqb ?p ?q then _ else _] => destruct (Nat.eqb_spec p q) as [->|] end;
       unfold with_reg; cbn [c_kind c_gen c_phase c_reg]; reflexivity
     | intros g0; cbn [view mt]; st_simpl; unfold upd;
       try match goal with |- context [if Nat.eqb ?p ?q then _ else _] => destruct (Nat.eqb_spec p q) as [->|] end;
       reflexivity ]).
Qed.

(** Steps of one call. *)
Ltac mon_call G C s c :=
  let Cc := fresh "Cc" in
  pose proof (C c) as Cc; unfold wired in Cc;
  try match goal with Hs : g_sock (gens _ ?g) = true |- _ =>
        let Q := fresh "Q" in pose proof (G g) as Q; unfold genok in Q; rewrite Hs in Q;
        cbn [implb] in Q; apply andb_prop in Q; destruct Q as [Q _]; apply andb_prop in Q; destruct Q as [Q _];
        apply andb_prop in Q; destruct Q as [_ Q]; apply negb_true_iff in Q end;
  unfold view; cbn [mon9_run mon9_step mc mt]; unfold mview, wired; st_simpl;
  let Hw := fresh "Hw" in
  match type of Cc with callok ?w _ = true => destruct w eqn:Hw end;
  let Ec := fresh "Ec" in
  let k := fresh "k" in let g := fresh "g" in let p := fresh "p" in let r := fresh "r" in
  destruct (calls s c) as [k g p r] eqn:Ec; cbn [c_kind c_gen c_phase c_reg] in *; subst;
  unfold callok, with_phase, with_reg, acc_of, done_of in *; cbn [c_kind c_gen c_phase c_reg] in *;
  repeat match goal with Hx : _ && _ = true |- _ => apply andb_prop in Hx; destruct Hx end;
  repeat match goal with
         | b : bool |- _ => destruct b
         | k : kind |- _ => destruct k
         end; cbn in *; try discriminate; try congruence;
  try match goal with r : result |- _ => destruct r; cbn in *; try discriminate end;
  repeat match goal with Hx : Nat.eqb _ _ = true |- _ => rewrite Hx end;
  repeat match goal with Hq : g_cancel _ = false |- _ => rewrite Hq end;
  rewrite ?Nat.eqb_refl; cbn [andb negb];
  unfold upd; rewrite ?Nat.eqb_refl; cbn; rewrite ?Nat.eqb_refl; cbn;
  eexists; (split; [reflexivity|]);
  (split;
   [ let x := fresh "x" in
     intros x; cbn [mc]; st_simpl; unfold upd; cbn [existsb fst snd];
     destruct (Nat.eqb_spec x c) as [->|Hne];
     [ rewrite ?Nat.eqb_refl, ?Ec; cbn [c_kind c_gen c_phase c_reg orb is_async]; rewrite ?Hw; reflexivity
     | try (destruct (Nat.eqb_spec c x); [congruence|]); cbn [orb]; reflexivity ]
   | intros g0; cbn [mt]; st_simpl; reflexivity ]).

Lemma mon_step9 s a s' o :
  GI s -> FI s -> CI s -> exec s a = (s', o) ->
  exists m', mon9_run (view s) o = Some m' /\ meq m' (view s').
Proof.
  intros G F C H.
  destruct (nocall_action a) eqn:Ha; [eapply mon_nocall; eassumption|].
  destruct a; try discriminate Ha; clear Ha; try (eapply mon_route; eassumption);
    unfold_exec H; dmatch H; inversion H; subst; clear H;
    try (eexists; split; [reflexivity|apply meq_refl]).
  all: match goal with E : c_phase (calls ?s0 ?c) = _ |- _ => mon_call G C s0 c end.
Qed.

Lemma view_init : meq mon9_0 (view init).
Proof. split; intros; reflexivity. Qed.

Lemma run_ok9 acts : forall s m,
  GI s -> FI s -> CI s -> meq m (view s) ->
  exists m', mon9_run m (snd (run s acts)) = Some m' /\ meq m' (view (fst (run s acts))).
Proof.
  induction acts as [|a r IH]; intros s m G F C Hm; cbn [run].
  - exists m. split; [reflexivity|exact Hm].
  - destruct (exec s a) as [s1 o1] eqn:E.
    destruct (mon_step9 _ _ _ _ G F C E) as (m1 & Hr1 & Hm1).
    pose proof (mon9_run_meq o1 _ _ Hm) as Ht. rewrite Hr1 in Ht.
    destruct (mon9_run m o1) as [m1'|] eqn:Hr1'; [|contradiction].
    assert (Hm1' : meq m1' (view s1)) by (eapply meq_trans; eassumption).
    specialize (IH s1 m1' (GI_step _ _ _ _ G E) (FI_step _ _ _ _ F E) (CI_step _ _ _ _ G C E) Hm1').
    destruct (run s1 r) as [s2 o2]. cbn [fst snd] in *.
    destruct IH as (m2 & Hr2 & Hm2). exists m2. split; [|exact Hm2].
    rewrite mon9_run_app, Hr1'. exact Hr2.
Qed.

(** Every action sequence is accepted by the monitor. *)
Theorem all_runs_ok9 acts : ok_C09 (snd (run init acts)) = true.
Proof.
  destruct (run_ok9 acts init mon9_0 GI_init FI_init CI_init view_init) as (m & Hm & _).
  unfold ok_C09. rewrite Hm. reflexivity.
Qed.

Theorem CI_reachable acts : CI (fst (run init acts)).
Proof.
  assert (H : GI (fst (run init acts)) /\ CI (fst (run init acts))).
  { apply (run_inv (fun s => GI s /\ CI s)); [split; [exact GI_init|exact CI_init]|].
    intros s a s' o [G C] E. split; [eapply GI_step|eapply CI_step]; eassumption. }
  exact (proj2 H).
Qed.
