(** Proofs about the [Generations] LTS: the generation discipline (at most one open socket, the
    recv loop that holds a frame is the current generation's), reply provenance, and the theorem
    that EVERY action sequence is accepted by the monitor [ok_C09]. *)
From Coq Require Import ZArith Bool List Lia Arith.
From GoSecs Require Import Hsms.Generations.
Import ListNotations.

(** * Plumbing *)

Lemma mon9_run_app m l1 l2 :
  mon9_run m (l1 ++ l2) = match mon9_run m l1 with Some m' => mon9_run m' l2 | None => None end.
Proof.
  revert m. induction l1 as [|o l1 IH]; intros m; cbn [mon9_run app]; [reflexivity|].
  destruct (mon9_step m o); [apply IH|reflexivity].
Qed.

Lemma upd_same {A} (f : nat -> A) k v : upd f k v k = v.
Proof. unfold upd. rewrite Nat.eqb_refl. reflexivity. Qed.

Lemma upd_other {A} (f : nat -> A) k v x : x <> k -> upd f k v x = f x.
Proof. intros H. unfold upd. destruct (Nat.eqb_spec x k); [contradiction|reflexivity]. Qed.

Lemma kind_eqb_refl k : kind_eqb k k = true.
Proof. destruct k; reflexivity. Qed.

(** Destruct every [match]/[if] scrutinee in hypothesis [H] (an equation [exec s a = (s', o)]). *)
Ltac dmatch H :=
  repeat match type of H with
  | context [match ?x with _ => _ end] => let E := fresh "E" in destruct x eqn:E
  | context [if ?x then _ else _] => let E := fresh "E" in destruct x eqn:E
  end.

Ltac unfold_exec H :=
  unfold exec, fail_write, finish_wait, route_cur, new_gen, ph, when in H; cbv zeta in H.

Ltac st_simpl :=
  cbn [cur ngen gens calls ids st shut lsp lrun wire mx set_call set_gen set_mx set_st set_loops
       c_kind c_gen c_phase c_reg with_phase with_reg g_sock g_up g_cancel g_joined g_inbox g_rbuf fst snd] in *.

(** * Generation discipline *)

Definition is_some {A} (o : option A) : bool := match o with Some _ => true | None => false end.

Definition cur_is (s : state) (g : nat) : bool :=
  match cur s with Some x => Nat.eqb x g | None => false end.

(** Per generation: an open socket belongs to the current, un-cancelled generation; a recv loop
    that holds an un-routed frame belongs to the current generation; a joined generation is
    cancelled and its recv loop holds nothing. *)
Definition genok (ic : bool) (y : gen) : bool :=
  implb (g_sock y) (ic && negb (g_cancel y)) && implb (is_some (g_rbuf y)) ic
  && implb (g_joined y) (g_cancel y && negb (is_some (g_rbuf y))).

Definition GI (s : state) : Prop := forall g, genok (cur_is s g) (gens s g) = true.

Lemma GI_init : GI init.
Proof. intros g. reflexivity. Qed.

(** Actions that touch neither [cur] nor [gens]. *)
Definition call_action (a : action) : bool :=
  match a with
  | Enter _ _ | B1 _ | Register _ | Enqueue _ | EnqueueClosed _ | EnqueueCtx _ | Drain _ | Capture _
  | Check _ | WriteOk _ | WriteFail _ | Arm _ | CompleteReply _ | CompleteTimer _ | CompleteClosed _
  | CompleteCtx _ | Select | Deselect | Drop | CloseReq | LoopSpawn | LoopBegin | LoopEnd _ | Snap => true
  | _ => false
  end.

Lemma call_action_frame s a s' o :
  call_action a = true -> exec s a = (s', o) -> cur s' = cur s /\ gens s' = gens s.
Proof.
  intros Ha H. destruct a; try discriminate Ha; unfold_exec H; dmatch H;
    inversion H; subst; st_simpl; split; first [reflexivity | congruence].
Qed.

Lemma cur_is_eq s g : cur s = Some g -> cur_is s g = true.
Proof. intros H. unfold cur_is. rewrite H. apply Nat.eqb_refl. Qed.

Lemma cur_is_neq s g g0 : cur s = Some g -> g0 <> g -> cur_is s g0 = false.
Proof. intros H Hn. unfold cur_is. rewrite H. destruct (Nat.eqb_spec g g0); congruence. Qed.

(** Updating one generation in place ([cur] unchanged). *)
Lemma GI_set_gen s s' g y' :
  GI s -> cur s' = cur s -> gens s' = upd (gens s) g y' ->
  (genok (cur_is s g) (gens s g) = true -> genok (cur_is s g) y' = true) -> GI s'.
Proof.
  intros G Hc Hg Hy g0. unfold cur_is. rewrite Hc, Hg. unfold upd.
  destruct (Nat.eqb_spec g0 g) as [->|Hn]; [apply Hy|]; apply G.
Qed.

Ltac gen_bits y :=
  let so := fresh "so" in let up := fresh "up" in let ca := fresh "ca" in
  let jo := fresh "jo" in let ib := fresh "ib" in let rb := fresh "rb" in
  destruct y as [so up ca jo ib rb]; cbn [g_sock g_up g_cancel g_joined g_inbox g_rbuf] in *.

Ltac bool_crush :=
  unfold genok in *; cbn [g_sock g_up g_cancel g_joined g_inbox g_rbuf is_some] in *;
  repeat match goal with
  | b : bool |- _ => destruct b
  | o : option pframe |- _ => destruct o
  end; cbn in *; try discriminate; try reflexivity; try congruence.

Lemma GI_new_gen s sh : GI s ->
  (forall g, cur s = Some g -> g_joined (gens s g) = true) -> GI (new_gen s sh).
Proof.
  intros G Hj g0. unfold new_gen, cur_is. st_simpl. unfold upd.
  destruct (Nat.eqb_spec g0 (ngen s)) as [->|Hn].
  - rewrite Nat.eqb_refl. reflexivity.
  - destruct (Nat.eqb_spec (ngen s) g0) as [Heq|_]; [congruence|].
    specialize (G g0). unfold cur_is in G.
    destruct (cur s) as [gc|] eqn:Ec.
    + destruct (Nat.eqb_spec gc g0) as [->|_]; [|exact G].
      specialize (Hj _ eq_refl). revert G Hj. generalize (gens s g0). intros y. gen_bits y. intros G Hj.
      subst jo. revert G. unfold genok. cbn [g_sock g_up g_cancel g_joined g_inbox g_rbuf].
      destruct so, ca, rb; cbn; intros; try discriminate; reflexivity.
    + exact G.
Qed.

Lemma GI_step s a s' o : GI s -> exec s a = (s', o) -> GI s'.
Proof.
  intros G H.
  destruct (call_action a) eqn:Ha.
  { destruct (call_action_frame _ _ _ _ Ha H) as [Hc Hg].
    intros g. unfold cur_is. rewrite Hc, Hg. apply G. }
  destruct a; try discriminate Ha; clear Ha; unfold_exec H; dmatch H; inversion H; subst; clear H;
    try assumption;
    try (apply GI_new_gen; [assumption|]; intros g0 Hg0;
         repeat match goal with Hx : _ && _ = true |- _ => apply andb_prop in Hx; destruct Hx end;
         congruence);
    try (eapply GI_set_gen; [eassumption|st_simpl; reflexivity|st_simpl; reflexivity|];
         first [ rewrite (cur_is_eq _ _ ltac:(eassumption))
               | match goal with |- genok ?ic _ = true -> _ => generalize ic; intros ? end ];
         match goal with |- genok _ (gens ?s ?g) = true -> _ => generalize dependent (gens s g) end;
         intros y; gen_bits y; intros; subst; bool_crush).
Qed.

(** * Frames on the wire: only on the socket of the generation the call is pinned to *)

Definition wire_ok (s : state) : Prop :=
  forall g c k, In (g, c, k) (wire s) -> c_gen (calls s c) = g /\ c_phase (calls s c) <> PNone.

Lemma wire_ok_init : wire_ok init.
Proof. intros g c k H. destruct H. Qed.

(** A call's pinned generation never changes once it entered; a used id stays used. *)
Lemma pinned_stable s a s' o c :
  exec s a = (s', o) -> c_phase (calls s c) <> PNone ->
  c_gen (calls s' c) = c_gen (calls s c) /\ c_kind (calls s' c) = c_kind (calls s c) /\ c_phase (calls s' c) <> PNone.
Proof.
  intros H Hp. destruct a; unfold_exec H; dmatch H; inversion H; subst; clear H; st_simpl;
    try (repeat split; first [reflexivity | assumption]);
    unfold upd; repeat match goal with |- context [Nat.eqb ?a ?b] => destruct (Nat.eqb_spec a b); subst end;
    st_simpl; repeat split; try reflexivity; try assumption; try congruence; try discriminate.
Qed.

Lemma wire_step s a s' o :
  exec s a = (s', o) ->
  wire s' = wire s \/ exists c, a = WriteOk c /\ c_phase (calls s c) = PWriting /\
      wire s' = (c_gen (calls s c), c, c_kind (calls s c)) :: wire s /\
      g_sock (gens s (c_gen (calls s c))) = true /\
      o <> [] /\ hd_error o = Some (OWire (c_gen (calls s c)) c (c_kind (calls s c))).
Proof.
  intros H. destruct a; unfold_exec H; dmatch H; inversion H; subst; clear H; st_simpl;
    try (left; reflexivity); right; eexists; repeat split; try reflexivity; try assumption; discriminate.
Qed.

Lemma wire_ok_step s a s' o : wire_ok s -> exec s a = (s', o) -> wire_ok s'.
Proof.
  intros W H g c k Hin.
  destruct (wire_step _ _ _ _ H) as [Hw|(c0 & -> & Hp & Hw & _)]; rewrite Hw in Hin.
  - destruct (W _ _ _ Hin) as [Hg Hn].
    destruct (pinned_stable _ _ _ _ c H Hn) as (H1 & _ & H3). split; congruence.
  - assert (Hn0 : c_phase (calls s c0) <> PNone) by (rewrite Hp; discriminate).
    destruct Hin as [Heq|Hin].
    + inversion Heq; subst. destruct (pinned_stable _ _ _ _ c H Hn0) as (H1 & _ & H3). split; congruence.
    + destruct (W _ _ _ Hin) as [Hg Hn].
      destruct (pinned_stable _ _ _ _ c H Hn) as (H1 & _ & H3). split; congruence.
Qed.

(** Reachability. *)
Lemma run_app s l1 l2 :
  run s (l1 ++ l2) = let '(s1, o1) := run s l1 in let '(s2, o2) := run s1 l2 in (s2, o1 ++ o2).
Proof.
  revert s. induction l1 as [|a l1 IH]; intros s; cbn [run app].
  - destruct (run s l2); reflexivity.
  - destruct (exec s a) as [s1 o1]. rewrite IH. destruct (run s1 l1) as [s2 o2].
    destruct (run s2 l2) as [s3 o3]. rewrite app_assoc. reflexivity.
Qed.

Lemma run_inv (P : state -> Prop) :
  P init -> (forall s a s' o, P s -> exec s a = (s', o) -> P s') ->
  forall acts, P (fst (run init acts)).
Proof.
  intros H0 Hs acts.
  assert (G : forall s, P s -> P (fst (run s acts))).
  { induction acts as [|a r IH]; intros s Hp; cbn [run]; [exact Hp|].
    destruct (exec s a) as [s1 o1] eqn:E. specialize (IH s1 (Hs _ _ _ _ Hp E)).
    destruct (run s1 r); exact IH. }
  apply G, H0.
Qed.

Theorem GI_reachable acts : GI (fst (run init acts)).
Proof. apply run_inv; [exact GI_init|]. intros; eapply GI_step; eassumption. Qed.

Theorem wire_ok_reachable acts : wire_ok (fst (run init acts)).
Proof. apply run_inv; [exact wire_ok_init|]. intros; eapply wire_ok_step; eassumption. Qed.
