(** Lifecycle — executable LTS model of the connection lifecycle of /repo/hsms
    (connection_lifecycle.go: Open, Close, react, startConnectLoop/connectLoop; epoch.go: spawn,
    teardown, join; supervisor.go: step for evDisconnect/evT7Timeout/evClose and the TCP-up commit echo (pendingUps), stop; and the
    transport contract of hsmsss/transport*.go: ArmStart, Start = dial|listen + start gate, Stop =
    seal + close + bounded join). One action = one atomic step of the code (DESIGN.md Appendix A.3):
    an atomic load/store/CAS, a critical section of publishMu / startGate, a channel operation, or
    a blocking wait that is enabled only when its condition holds. lifeMu is the program counter
    [lc_api]: at most one Open or Close is past its Lock, every other caller is blocked — which is
    exactly why a blocking Open excludes Close (DESIGN §5 #9; see [Lifecycle_close_blocked_witness]).

    The model follows ONE current generation ([cur], the lc_e* / lc_g* fields), ONE reconnect loop
    that has not yet finished its Start ([lc_hasloop]) and any number of loops in their tail (after
    a successful Start). Where the code could in principle do something this shape cannot follow
    (overwrite a generation that is not fully joined, spawn a second loop while one is still before
    its Start, react on a generation other than the current one, process evClose without the
    shutdown fence) the model sets the sticky flag [lc_err]; the theorem [Lifecycle_no_err] proves
    the flag is never set, so the model is faithful on every run.

    Not modelled (assumptions of every theorem): close-timeout expiry of the bounded joins (handlers
    return, so every join completes — the ErrCloseTimeout path deliberately abandons goroutines);
    the courtesy Separate; the content of frames; timer values (a timer may fire at any time).
    Environment actions (peer connects/drops, dial results, T7/linktest expiry, write errors) are
    enabled whenever structurally possible: a superset of the real behaviours, sound for safety.

    No proofs in this file. *)
From Coq Require Import Bool List Arith.
Import ListNotations.

Inductive lc_cstate := LcNC | LcNS | LcSEL.
Inductive lc_suplife := LcSupNone | LcSupAlive | LcSupStopped.
Inductive lc_omode := LcWaitSel | LcBackground.
(** Inside transport.Start: before the dial/listen call; after it succeeded, holding the fresh
    socket/listener, before the start gate (startGate.RLock section). *)
Inductive lc_start_pc := LcSP0 | LcSP1.

Inductive lc_api_pc :=
| LcIdle                                  (* lifeMu free *)
| LcO1 (m : lc_omode)                     (* guard passed: reconnectGen++, shutdown := false *)
| LcO2 (m : lc_omode)                     (* connectLoopWg.Wait *)
| LcO3 (m : lc_omode)                     (* fresh cancel channel, epoch, supervisor, sender, ArmStart *)
| LcOStart (m : lc_omode) (p : lc_start_pc)    (* tr.Start *)
| LcOWait                                 (* waitSelected (lifeMu still held) *)
| LcOCold1 | LcOCold2                     (* background cold start: e.wait ; startConnectLoop *)
| LcOFail1 | LcOFail2 | LcOFail3 | LcOFail4 (* rollback: requestClose ; e.wait ; s.stop ; supWg.Wait *)
| LcC1 | LcC2 | LcC3 | LcC4 | LcC5 | LcC6 | LcC7.
(* Close: publishMu fence ; close reconnectCancel ; requestClose ; e.wait ; s.stop ; supWg.Wait ; connectLoopWg.Wait *)

Inductive lc_sup_pc := LcSupIdle | LcReact1 | LcReact2 | LcReact3.
(* react: load shutdown ; load reconnectGen + spawn loop ; teardown *)

Inductive lc_loop_pc :=
| LcLWaitPrev | LcLSleep | LcLFence | LcLBuild | LcLPublished | LcLStart (p : lc_start_pc) | LcLFailWait.

Record Lifecycle_state := LcState {
  lc_active : bool;
  lc_api : lc_api_pc;
  lc_oeid : nat;
  lc_shutdown : bool;
  lc_rgen : nat;
  lc_cancelled : bool;
  lc_stopping : bool;
  lc_sup : lc_suplife;
  lc_st : lc_cstate;
  lc_latch : bool;
  lc_spc : lc_sup_pc;
  lc_reid : nat;
  lc_pdisc : nat;
  lc_pt7 : nat;
  lc_pups : bool;
  lc_pbehind : nat;
  lc_pclose : bool;
  lc_stopreq : bool;
  lc_gnotif : bool;
  lc_hascur : bool;
  lc_eid : nat;
  lc_etd : bool;
  lc_edone : bool;
  lc_esock : bool;
  lc_elis : bool;
  lc_eup : bool;
  lc_estop1 : bool;
  lc_estop2 : bool;
  lc_ahold : bool;
  lc_gsender : bool;
  lc_grecv : bool;
  lc_gproc : bool;
  lc_gaccept : bool;
  lc_glt : nat;
  lc_gt7 : nat;
  lc_gjoin : bool;
  lc_hasloop : bool;
  lc_lgen : nat;
  lc_lcount : bool;
  lc_lpc : lc_loop_pc;
  lc_lprev : nat;
  lc_lown : nat;
  lc_tailc : nat;
  lc_tailn : nat;
  lc_err : bool;
  lc_reconnects : nat;
  lc_redials : nat;
  lc_ndials : nat;
  lc_npub : nat
}.

Definition set_active (v : bool) (s : Lifecycle_state) : Lifecycle_state :=
  LcState v (lc_api s) (lc_oeid s) (lc_shutdown s) (lc_rgen s) (lc_cancelled s) (lc_stopping s) (lc_sup s) (lc_st s) (lc_latch s) (lc_spc s) (lc_reid s) (lc_pdisc s) (lc_pt7 s) (lc_pups s) (lc_pbehind s) (lc_pclose s) (lc_stopreq s) (lc_gnotif s) (lc_hascur s) (lc_eid s) (lc_etd s) (lc_edone s) (lc_esock s) (lc_elis s) (lc_eup s) (lc_estop1 s) (lc_estop2 s) (lc_ahold s) (lc_gsender s) (lc_grecv s) (lc_gproc s) (lc_gaccept s) (lc_glt s) (lc_gt7 s) (lc_gjoin s) (lc_hasloop s) (lc_lgen s) (lc_lcount s) (lc_lpc s) (lc_lprev s) (lc_lown s) (lc_tailc s) (lc_tailn s) (lc_err s) (lc_reconnects s) (lc_redials s) (lc_ndials s) (lc_npub s).
Definition set_api (v : lc_api_pc) (s : Lifecycle_state) : Lifecycle_state :=
  LcState (lc_active s) v (lc_oeid s) (lc_shutdown s) (lc_rgen s) (lc_cancelled s) (lc_stopping s) (lc_sup s) (lc_st s) (lc_latch s) (lc_spc s) (lc_reid s) (lc_pdisc s) (lc_pt7 s) (lc_pups s) (lc_pbehind s) (lc_pclose s) (lc_stopreq s) (lc_gnotif s) (lc_hascur s) (lc_eid s) (lc_etd s) (lc_edone s) (lc_esock s) (lc_elis s) (lc_eup s) (lc_estop1 s) (lc_estop2 s) (lc_ahold s) (lc_gsender s) (lc_grecv s) (lc_gproc s) (lc_gaccept s) (lc_glt s) (lc_gt7 s) (lc_gjoin s) (lc_hasloop s) (lc_lgen s) (lc_lcount s) (lc_lpc s) (lc_lprev s) (lc_lown s) (lc_tailc s) (lc_tailn s) (lc_err s) (lc_reconnects s) (lc_redials s) (lc_ndials s) (lc_npub s).
Definition set_oeid (v : nat) (s : Lifecycle_state) : Lifecycle_state :=
  LcState (lc_active s) (lc_api s) v (lc_shutdown s) (lc_rgen s) (lc_cancelled s) (lc_stopping s) (lc_sup s) (lc_st s) (lc_latch s) (lc_spc s) (lc_reid s) (lc_pdisc s) (lc_pt7 s) (lc_pups s) (lc_pbehind s) (lc_pclose s) (lc_stopreq s) (lc_gnotif s) (lc_hascur s) (lc_eid s) (lc_etd s) (lc_edone s) (lc_esock s) (lc_elis s) (lc_eup s) (lc_estop1 s) (lc_estop2 s) (lc_ahold s) (lc_gsender s) (lc_grecv s) (lc_gproc s) (lc_gaccept s) (lc_glt s) (lc_gt7 s) (lc_gjoin s) (lc_hasloop s) (lc_lgen s) (lc_lcount s) (lc_lpc s) (lc_lprev s) (lc_lown s) (lc_tailc s) (lc_tailn s) (lc_err s) (lc_reconnects s) (lc_redials s) (lc_ndials s) (lc_npub s).
Definition set_shutdown (v : bool) (s : Lifecycle_state) : Lifecycle_state :=
  LcState (lc_active s) (lc_api s) (lc_oeid s) v (lc_rgen s) (lc_cancelled s) (lc_stopping s) (lc_sup s) (lc_st s) (lc_latch s) (lc_spc s) (lc_reid s) (lc_pdisc s) (lc_pt7 s) (lc_pups s) (lc_pbehind s) (lc_pclose s) (lc_stopreq s) (lc_gnotif s) (lc_hascur s) (lc_eid s) (lc_etd s) (lc_edone s) (lc_esock s) (lc_elis s) (lc_eup s) (lc_estop1 s) (lc_estop2 s) (lc_ahold s) (lc_gsender s) (lc_grecv s) (lc_gproc s) (lc_gaccept s) (lc_glt s) (lc_gt7 s) (lc_gjoin s) (lc_hasloop s) (lc_lgen s) (lc_lcount s) (lc_lpc s) (lc_lprev s) (lc_lown s) (lc_tailc s) (lc_tailn s) (lc_err s) (lc_reconnects s) (lc_redials s) (lc_ndials s) (lc_npub s).
Definition set_rgen (v : nat) (s : Lifecycle_state) : Lifecycle_state :=
  LcState (lc_active s) (lc_api s) (lc_oeid s) (lc_shutdown s) v (lc_cancelled s) (lc_stopping s) (lc_sup s) (lc_st s) (lc_latch s) (lc_spc s) (lc_reid s) (lc_pdisc s) (lc_pt7 s) (lc_pups s) (lc_pbehind s) (lc_pclose s) (lc_stopreq s) (lc_gnotif s) (lc_hascur s) (lc_eid s) (lc_etd s) (lc_edone s) (lc_esock s) (lc_elis s) (lc_eup s) (lc_estop1 s) (lc_estop2 s) (lc_ahold s) (lc_gsender s) (lc_grecv s) (lc_gproc s) (lc_gaccept s) (lc_glt s) (lc_gt7 s) (lc_gjoin s) (lc_hasloop s) (lc_lgen s) (lc_lcount s) (lc_lpc s) (lc_lprev s) (lc_lown s) (lc_tailc s) (lc_tailn s) (lc_err s) (lc_reconnects s) (lc_redials s) (lc_ndials s) (lc_npub s).
Definition set_cancelled (v : bool) (s : Lifecycle_state) : Lifecycle_state :=
  LcState (lc_active s) (lc_api s) (lc_oeid s) (lc_shutdown s) (lc_rgen s) v (lc_stopping s) (lc_sup s) (lc_st s) (lc_latch s) (lc_spc s) (lc_reid s) (lc_pdisc s) (lc_pt7 s) (lc_pups s) (lc_pbehind s) (lc_pclose s) (lc_stopreq s) (lc_gnotif s) (lc_hascur s) (lc_eid s) (lc_etd s) (lc_edone s) (lc_esock s) (lc_elis s) (lc_eup s) (lc_estop1 s) (lc_estop2 s) (lc_ahold s) (lc_gsender s) (lc_grecv s) (lc_gproc s) (lc_gaccept s) (lc_glt s) (lc_gt7 s) (lc_gjoin s) (lc_hasloop s) (lc_lgen s) (lc_lcount s) (lc_lpc s) (lc_lprev s) (lc_lown s) (lc_tailc s) (lc_tailn s) (lc_err s) (lc_reconnects s) (lc_redials s) (lc_ndials s) (lc_npub s).
Definition set_stopping (v : bool) (s : Lifecycle_state) : Lifecycle_state :=
  LcState (lc_active s) (lc_api s) (lc_oeid s) (lc_shutdown s) (lc_rgen s) (lc_cancelled s) v (lc_sup s) (lc_st s) (lc_latch s) (lc_spc s) (lc_reid s) (lc_pdisc s) (lc_pt7 s) (lc_pups s) (lc_pbehind s) (lc_pclose s) (lc_stopreq s) (lc_gnotif s) (lc_hascur s) (lc_eid s) (lc_etd s) (lc_edone s) (lc_esock s) (lc_elis s) (lc_eup s) (lc_estop1 s) (lc_estop2 s) (lc_ahold s) (lc_gsender s) (lc_grecv s) (lc_gproc s) (lc_gaccept s) (lc_glt s) (lc_gt7 s) (lc_gjoin s) (lc_hasloop s) (lc_lgen s) (lc_lcount s) (lc_lpc s) (lc_lprev s) (lc_lown s) (lc_tailc s) (lc_tailn s) (lc_err s) (lc_reconnects s) (lc_redials s) (lc_ndials s) (lc_npub s).
Definition set_sup (v : lc_suplife) (s : Lifecycle_state) : Lifecycle_state :=
  LcState (lc_active s) (lc_api s) (lc_oeid s) (lc_shutdown s) (lc_rgen s) (lc_cancelled s) (lc_stopping s) v (lc_st s) (lc_latch s) (lc_spc s) (lc_reid s) (lc_pdisc s) (lc_pt7 s) (lc_pups s) (lc_pbehind s) (lc_pclose s) (lc_stopreq s) (lc_gnotif s) (lc_hascur s) (lc_eid s) (lc_etd s) (lc_edone s) (lc_esock s) (lc_elis s) (lc_eup s) (lc_estop1 s) (lc_estop2 s) (lc_ahold s) (lc_gsender s) (lc_grecv s) (lc_gproc s) (lc_gaccept s) (lc_glt s) (lc_gt7 s) (lc_gjoin s) (lc_hasloop s) (lc_lgen s) (lc_lcount s) (lc_lpc s) (lc_lprev s) (lc_lown s) (lc_tailc s) (lc_tailn s) (lc_err s) (lc_reconnects s) (lc_redials s) (lc_ndials s) (lc_npub s).
Definition set_st (v : lc_cstate) (s : Lifecycle_state) : Lifecycle_state :=
  LcState (lc_active s) (lc_api s) (lc_oeid s) (lc_shutdown s) (lc_rgen s) (lc_cancelled s) (lc_stopping s) (lc_sup s) v (lc_latch s) (lc_spc s) (lc_reid s) (lc_pdisc s) (lc_pt7 s) (lc_pups s) (lc_pbehind s) (lc_pclose s) (lc_stopreq s) (lc_gnotif s) (lc_hascur s) (lc_eid s) (lc_etd s) (lc_edone s) (lc_esock s) (lc_elis s) (lc_eup s) (lc_estop1 s) (lc_estop2 s) (lc_ahold s) (lc_gsender s) (lc_grecv s) (lc_gproc s) (lc_gaccept s) (lc_glt s) (lc_gt7 s) (lc_gjoin s) (lc_hasloop s) (lc_lgen s) (lc_lcount s) (lc_lpc s) (lc_lprev s) (lc_lown s) (lc_tailc s) (lc_tailn s) (lc_err s) (lc_reconnects s) (lc_redials s) (lc_ndials s) (lc_npub s).
Definition set_latch (v : bool) (s : Lifecycle_state) : Lifecycle_state :=
  LcState (lc_active s) (lc_api s) (lc_oeid s) (lc_shutdown s) (lc_rgen s) (lc_cancelled s) (lc_stopping s) (lc_sup s) (lc_st s) v (lc_spc s) (lc_reid s) (lc_pdisc s) (lc_pt7 s) (lc_pups s) (lc_pbehind s) (lc_pclose s) (lc_stopreq s) (lc_gnotif s) (lc_hascur s) (lc_eid s) (lc_etd s) (lc_edone s) (lc_esock s) (lc_elis s) (lc_eup s) (lc_estop1 s) (lc_estop2 s) (lc_ahold s) (lc_gsender s) (lc_grecv s) (lc_gproc s) (lc_gaccept s) (lc_glt s) (lc_gt7 s) (lc_gjoin s) (lc_hasloop s) (lc_lgen s) (lc_lcount s) (lc_lpc s) (lc_lprev s) (lc_lown s) (lc_tailc s) (lc_tailn s) (lc_err s) (lc_reconnects s) (lc_redials s) (lc_ndials s) (lc_npub s).
Definition set_spc (v : lc_sup_pc) (s : Lifecycle_state) : Lifecycle_state :=
  LcState (lc_active s) (lc_api s) (lc_oeid s) (lc_shutdown s) (lc_rgen s) (lc_cancelled s) (lc_stopping s) (lc_sup s) (lc_st s) (lc_latch s) v (lc_reid s) (lc_pdisc s) (lc_pt7 s) (lc_pups s) (lc_pbehind s) (lc_pclose s) (lc_stopreq s) (lc_gnotif s) (lc_hascur s) (lc_eid s) (lc_etd s) (lc_edone s) (lc_esock s) (lc_elis s) (lc_eup s) (lc_estop1 s) (lc_estop2 s) (lc_ahold s) (lc_gsender s) (lc_grecv s) (lc_gproc s) (lc_gaccept s) (lc_glt s) (lc_gt7 s) (lc_gjoin s) (lc_hasloop s) (lc_lgen s) (lc_lcount s) (lc_lpc s) (lc_lprev s) (lc_lown s) (lc_tailc s) (lc_tailn s) (lc_err s) (lc_reconnects s) (lc_redials s) (lc_ndials s) (lc_npub s).
Definition set_reid (v : nat) (s : Lifecycle_state) : Lifecycle_state :=
  LcState (lc_active s) (lc_api s) (lc_oeid s) (lc_shutdown s) (lc_rgen s) (lc_cancelled s) (lc_stopping s) (lc_sup s) (lc_st s) (lc_latch s) (lc_spc s) v (lc_pdisc s) (lc_pt7 s) (lc_pups s) (lc_pbehind s) (lc_pclose s) (lc_stopreq s) (lc_gnotif s) (lc_hascur s) (lc_eid s) (lc_etd s) (lc_edone s) (lc_esock s) (lc_elis s) (lc_eup s) (lc_estop1 s) (lc_estop2 s) (lc_ahold s) (lc_gsender s) (lc_grecv s) (lc_gproc s) (lc_gaccept s) (lc_glt s) (lc_gt7 s) (lc_gjoin s) (lc_hasloop s) (lc_lgen s) (lc_lcount s) (lc_lpc s) (lc_lprev s) (lc_lown s) (lc_tailc s) (lc_tailn s) (lc_err s) (lc_reconnects s) (lc_redials s) (lc_ndials s) (lc_npub s).
Definition set_pdisc (v : nat) (s : Lifecycle_state) : Lifecycle_state :=
  LcState (lc_active s) (lc_api s) (lc_oeid s) (lc_shutdown s) (lc_rgen s) (lc_cancelled s) (lc_stopping s) (lc_sup s) (lc_st s) (lc_latch s) (lc_spc s) (lc_reid s) v (lc_pt7 s) (lc_pups s) (lc_pbehind s) (lc_pclose s) (lc_stopreq s) (lc_gnotif s) (lc_hascur s) (lc_eid s) (lc_etd s) (lc_edone s) (lc_esock s) (lc_elis s) (lc_eup s) (lc_estop1 s) (lc_estop2 s) (lc_ahold s) (lc_gsender s) (lc_grecv s) (lc_gproc s) (lc_gaccept s) (lc_glt s) (lc_gt7 s) (lc_gjoin s) (lc_hasloop s) (lc_lgen s) (lc_lcount s) (lc_lpc s) (lc_lprev s) (lc_lown s) (lc_tailc s) (lc_tailn s) (lc_err s) (lc_reconnects s) (lc_redials s) (lc_ndials s) (lc_npub s).
Definition set_pt7 (v : nat) (s : Lifecycle_state) : Lifecycle_state :=
  LcState (lc_active s) (lc_api s) (lc_oeid s) (lc_shutdown s) (lc_rgen s) (lc_cancelled s) (lc_stopping s) (lc_sup s) (lc_st s) (lc_latch s) (lc_spc s) (lc_reid s) (lc_pdisc s) v (lc_pups s) (lc_pbehind s) (lc_pclose s) (lc_stopreq s) (lc_gnotif s) (lc_hascur s) (lc_eid s) (lc_etd s) (lc_edone s) (lc_esock s) (lc_elis s) (lc_eup s) (lc_estop1 s) (lc_estop2 s) (lc_ahold s) (lc_gsender s) (lc_grecv s) (lc_gproc s) (lc_gaccept s) (lc_glt s) (lc_gt7 s) (lc_gjoin s) (lc_hasloop s) (lc_lgen s) (lc_lcount s) (lc_lpc s) (lc_lprev s) (lc_lown s) (lc_tailc s) (lc_tailn s) (lc_err s) (lc_reconnects s) (lc_redials s) (lc_ndials s) (lc_npub s).
Definition set_pups (v : bool) (s : Lifecycle_state) : Lifecycle_state :=
  LcState (lc_active s) (lc_api s) (lc_oeid s) (lc_shutdown s) (lc_rgen s) (lc_cancelled s) (lc_stopping s) (lc_sup s) (lc_st s) (lc_latch s) (lc_spc s) (lc_reid s) (lc_pdisc s) (lc_pt7 s) v (lc_pbehind s) (lc_pclose s) (lc_stopreq s) (lc_gnotif s) (lc_hascur s) (lc_eid s) (lc_etd s) (lc_edone s) (lc_esock s) (lc_elis s) (lc_eup s) (lc_estop1 s) (lc_estop2 s) (lc_ahold s) (lc_gsender s) (lc_grecv s) (lc_gproc s) (lc_gaccept s) (lc_glt s) (lc_gt7 s) (lc_gjoin s) (lc_hasloop s) (lc_lgen s) (lc_lcount s) (lc_lpc s) (lc_lprev s) (lc_lown s) (lc_tailc s) (lc_tailn s) (lc_err s) (lc_reconnects s) (lc_redials s) (lc_ndials s) (lc_npub s).
Definition set_pbehind (v : nat) (s : Lifecycle_state) : Lifecycle_state :=
  LcState (lc_active s) (lc_api s) (lc_oeid s) (lc_shutdown s) (lc_rgen s) (lc_cancelled s) (lc_stopping s) (lc_sup s) (lc_st s) (lc_latch s) (lc_spc s) (lc_reid s) (lc_pdisc s) (lc_pt7 s) (lc_pups s) v (lc_pclose s) (lc_stopreq s) (lc_gnotif s) (lc_hascur s) (lc_eid s) (lc_etd s) (lc_edone s) (lc_esock s) (lc_elis s) (lc_eup s) (lc_estop1 s) (lc_estop2 s) (lc_ahold s) (lc_gsender s) (lc_grecv s) (lc_gproc s) (lc_gaccept s) (lc_glt s) (lc_gt7 s) (lc_gjoin s) (lc_hasloop s) (lc_lgen s) (lc_lcount s) (lc_lpc s) (lc_lprev s) (lc_lown s) (lc_tailc s) (lc_tailn s) (lc_err s) (lc_reconnects s) (lc_redials s) (lc_ndials s) (lc_npub s).
Definition set_pclose (v : bool) (s : Lifecycle_state) : Lifecycle_state :=
  LcState (lc_active s) (lc_api s) (lc_oeid s) (lc_shutdown s) (lc_rgen s) (lc_cancelled s) (lc_stopping s) (lc_sup s) (lc_st s) (lc_latch s) (lc_spc s) (lc_reid s) (lc_pdisc s) (lc_pt7 s) (lc_pups s) (lc_pbehind s) v (lc_stopreq s) (lc_gnotif s) (lc_hascur s) (lc_eid s) (lc_etd s) (lc_edone s) (lc_esock s) (lc_elis s) (lc_eup s) (lc_estop1 s) (lc_estop2 s) (lc_ahold s) (lc_gsender s) (lc_grecv s) (lc_gproc s) (lc_gaccept s) (lc_glt s) (lc_gt7 s) (lc_gjoin s) (lc_hasloop s) (lc_lgen s) (lc_lcount s) (lc_lpc s) (lc_lprev s) (lc_lown s) (lc_tailc s) (lc_tailn s) (lc_err s) (lc_reconnects s) (lc_redials s) (lc_ndials s) (lc_npub s).
Definition set_stopreq (v : bool) (s : Lifecycle_state) : Lifecycle_state :=
  LcState (lc_active s) (lc_api s) (lc_oeid s) (lc_shutdown s) (lc_rgen s) (lc_cancelled s) (lc_stopping s) (lc_sup s) (lc_st s) (lc_latch s) (lc_spc s) (lc_reid s) (lc_pdisc s) (lc_pt7 s) (lc_pups s) (lc_pbehind s) (lc_pclose s) v (lc_gnotif s) (lc_hascur s) (lc_eid s) (lc_etd s) (lc_edone s) (lc_esock s) (lc_elis s) (lc_eup s) (lc_estop1 s) (lc_estop2 s) (lc_ahold s) (lc_gsender s) (lc_grecv s) (lc_gproc s) (lc_gaccept s) (lc_glt s) (lc_gt7 s) (lc_gjoin s) (lc_hasloop s) (lc_lgen s) (lc_lcount s) (lc_lpc s) (lc_lprev s) (lc_lown s) (lc_tailc s) (lc_tailn s) (lc_err s) (lc_reconnects s) (lc_redials s) (lc_ndials s) (lc_npub s).
Definition set_gnotif (v : bool) (s : Lifecycle_state) : Lifecycle_state :=
  LcState (lc_active s) (lc_api s) (lc_oeid s) (lc_shutdown s) (lc_rgen s) (lc_cancelled s) (lc_stopping s) (lc_sup s) (lc_st s) (lc_latch s) (lc_spc s) (lc_reid s) (lc_pdisc s) (lc_pt7 s) (lc_pups s) (lc_pbehind s) (lc_pclose s) (lc_stopreq s) v (lc_hascur s) (lc_eid s) (lc_etd s) (lc_edone s) (lc_esock s) (lc_elis s) (lc_eup s) (lc_estop1 s) (lc_estop2 s) (lc_ahold s) (lc_gsender s) (lc_grecv s) (lc_gproc s) (lc_gaccept s) (lc_glt s) (lc_gt7 s) (lc_gjoin s) (lc_hasloop s) (lc_lgen s) (lc_lcount s) (lc_lpc s) (lc_lprev s) (lc_lown s) (lc_tailc s) (lc_tailn s) (lc_err s) (lc_reconnects s) (lc_redials s) (lc_ndials s) (lc_npub s).
Definition set_hascur (v : bool) (s : Lifecycle_state) : Lifecycle_state :=
  LcState (lc_active s) (lc_api s) (lc_oeid s) (lc_shutdown s) (lc_rgen s) (lc_cancelled s) (lc_stopping s) (lc_sup s) (lc_st s) (lc_latch s) (lc_spc s) (lc_reid s) (lc_pdisc s) (lc_pt7 s) (lc_pups s) (lc_pbehind s) (lc_pclose s) (lc_stopreq s) (lc_gnotif s) v (lc_eid s) (lc_etd s) (lc_edone s) (lc_esock s) (lc_elis s) (lc_eup s) (lc_estop1 s) (lc_estop2 s) (lc_ahold s) (lc_gsender s) (lc_grecv s) (lc_gproc s) (lc_gaccept s) (lc_glt s) (lc_gt7 s) (lc_gjoin s) (lc_hasloop s) (lc_lgen s) (lc_lcount s) (lc_lpc s) (lc_lprev s) (lc_lown s) (lc_tailc s) (lc_tailn s) (lc_err s) (lc_reconnects s) (lc_redials s) (lc_ndials s) (lc_npub s).
Definition set_eid (v : nat) (s : Lifecycle_state) : Lifecycle_state :=
  LcState (lc_active s) (lc_api s) (lc_oeid s) (lc_shutdown s) (lc_rgen s) (lc_cancelled s) (lc_stopping s) (lc_sup s) (lc_st s) (lc_latch s) (lc_spc s) (lc_reid s) (lc_pdisc s) (lc_pt7 s) (lc_pups s) (lc_pbehind s) (lc_pclose s) (lc_stopreq s) (lc_gnotif s) (lc_hascur s) v (lc_etd s) (lc_edone s) (lc_esock s) (lc_elis s) (lc_eup s) (lc_estop1 s) (lc_estop2 s) (lc_ahold s) (lc_gsender s) (lc_grecv s) (lc_gproc s) (lc_gaccept s) (lc_glt s) (lc_gt7 s) (lc_gjoin s) (lc_hasloop s) (lc_lgen s) (lc_lcount s) (lc_lpc s) (lc_lprev s) (lc_lown s) (lc_tailc s) (lc_tailn s) (lc_err s) (lc_reconnects s) (lc_redials s) (lc_ndials s) (lc_npub s).
Definition set_etd (v : bool) (s : Lifecycle_state) : Lifecycle_state :=
  LcState (lc_active s) (lc_api s) (lc_oeid s) (lc_shutdown s) (lc_rgen s) (lc_cancelled s) (lc_stopping s) (lc_sup s) (lc_st s) (lc_latch s) (lc_spc s) (lc_reid s) (lc_pdisc s) (lc_pt7 s) (lc_pups s) (lc_pbehind s) (lc_pclose s) (lc_stopreq s) (lc_gnotif s) (lc_hascur s) (lc_eid s) v (lc_edone s) (lc_esock s) (lc_elis s) (lc_eup s) (lc_estop1 s) (lc_estop2 s) (lc_ahold s) (lc_gsender s) (lc_grecv s) (lc_gproc s) (lc_gaccept s) (lc_glt s) (lc_gt7 s) (lc_gjoin s) (lc_hasloop s) (lc_lgen s) (lc_lcount s) (lc_lpc s) (lc_lprev s) (lc_lown s) (lc_tailc s) (lc_tailn s) (lc_err s) (lc_reconnects s) (lc_redials s) (lc_ndials s) (lc_npub s).
Definition set_edone (v : bool) (s : Lifecycle_state) : Lifecycle_state :=
  LcState (lc_active s) (lc_api s) (lc_oeid s) (lc_shutdown s) (lc_rgen s) (lc_cancelled s) (lc_stopping s) (lc_sup s) (lc_st s) (lc_latch s) (lc_spc s) (lc_reid s) (lc_pdisc s) (lc_pt7 s) (lc_pups s) (lc_pbehind s) (lc_pclose s) (lc_stopreq s) (lc_gnotif s) (lc_hascur s) (lc_eid s) (lc_etd s) v (lc_esock s) (lc_elis s) (lc_eup s) (lc_estop1 s) (lc_estop2 s) (lc_ahold s) (lc_gsender s) (lc_grecv s) (lc_gproc s) (lc_gaccept s) (lc_glt s) (lc_gt7 s) (lc_gjoin s) (lc_hasloop s) (lc_lgen s) (lc_lcount s) (lc_lpc s) (lc_lprev s) (lc_lown s) (lc_tailc s) (lc_tailn s) (lc_err s) (lc_reconnects s) (lc_redials s) (lc_ndials s) (lc_npub s).
Definition set_esock (v : bool) (s : Lifecycle_state) : Lifecycle_state :=
  LcState (lc_active s) (lc_api s) (lc_oeid s) (lc_shutdown s) (lc_rgen s) (lc_cancelled s) (lc_stopping s) (lc_sup s) (lc_st s) (lc_latch s) (lc_spc s) (lc_reid s) (lc_pdisc s) (lc_pt7 s) (lc_pups s) (lc_pbehind s) (lc_pclose s) (lc_stopreq s) (lc_gnotif s) (lc_hascur s) (lc_eid s) (lc_etd s) (lc_edone s) v (lc_elis s) (lc_eup s) (lc_estop1 s) (lc_estop2 s) (lc_ahold s) (lc_gsender s) (lc_grecv s) (lc_gproc s) (lc_gaccept s) (lc_glt s) (lc_gt7 s) (lc_gjoin s) (lc_hasloop s) (lc_lgen s) (lc_lcount s) (lc_lpc s) (lc_lprev s) (lc_lown s) (lc_tailc s) (lc_tailn s) (lc_err s) (lc_reconnects s) (lc_redials s) (lc_ndials s) (lc_npub s).
Definition set_elis (v : bool) (s : Lifecycle_state) : Lifecycle_state :=
  LcState (lc_active s) (lc_api s) (lc_oeid s) (lc_shutdown s) (lc_rgen s) (lc_cancelled s) (lc_stopping s) (lc_sup s) (lc_st s) (lc_latch s) (lc_spc s) (lc_reid s) (lc_pdisc s) (lc_pt7 s) (lc_pups s) (lc_pbehind s) (lc_pclose s) (lc_stopreq s) (lc_gnotif s) (lc_hascur s) (lc_eid s) (lc_etd s) (lc_edone s) (lc_esock s) v (lc_eup s) (lc_estop1 s) (lc_estop2 s) (lc_ahold s) (lc_gsender s) (lc_grecv s) (lc_gproc s) (lc_gaccept s) (lc_glt s) (lc_gt7 s) (lc_gjoin s) (lc_hasloop s) (lc_lgen s) (lc_lcount s) (lc_lpc s) (lc_lprev s) (lc_lown s) (lc_tailc s) (lc_tailn s) (lc_err s) (lc_reconnects s) (lc_redials s) (lc_ndials s) (lc_npub s).
Definition set_eup (v : bool) (s : Lifecycle_state) : Lifecycle_state :=
  LcState (lc_active s) (lc_api s) (lc_oeid s) (lc_shutdown s) (lc_rgen s) (lc_cancelled s) (lc_stopping s) (lc_sup s) (lc_st s) (lc_latch s) (lc_spc s) (lc_reid s) (lc_pdisc s) (lc_pt7 s) (lc_pups s) (lc_pbehind s) (lc_pclose s) (lc_stopreq s) (lc_gnotif s) (lc_hascur s) (lc_eid s) (lc_etd s) (lc_edone s) (lc_esock s) (lc_elis s) v (lc_estop1 s) (lc_estop2 s) (lc_ahold s) (lc_gsender s) (lc_grecv s) (lc_gproc s) (lc_gaccept s) (lc_glt s) (lc_gt7 s) (lc_gjoin s) (lc_hasloop s) (lc_lgen s) (lc_lcount s) (lc_lpc s) (lc_lprev s) (lc_lown s) (lc_tailc s) (lc_tailn s) (lc_err s) (lc_reconnects s) (lc_redials s) (lc_ndials s) (lc_npub s).
Definition set_estop1 (v : bool) (s : Lifecycle_state) : Lifecycle_state :=
  LcState (lc_active s) (lc_api s) (lc_oeid s) (lc_shutdown s) (lc_rgen s) (lc_cancelled s) (lc_stopping s) (lc_sup s) (lc_st s) (lc_latch s) (lc_spc s) (lc_reid s) (lc_pdisc s) (lc_pt7 s) (lc_pups s) (lc_pbehind s) (lc_pclose s) (lc_stopreq s) (lc_gnotif s) (lc_hascur s) (lc_eid s) (lc_etd s) (lc_edone s) (lc_esock s) (lc_elis s) (lc_eup s) v (lc_estop2 s) (lc_ahold s) (lc_gsender s) (lc_grecv s) (lc_gproc s) (lc_gaccept s) (lc_glt s) (lc_gt7 s) (lc_gjoin s) (lc_hasloop s) (lc_lgen s) (lc_lcount s) (lc_lpc s) (lc_lprev s) (lc_lown s) (lc_tailc s) (lc_tailn s) (lc_err s) (lc_reconnects s) (lc_redials s) (lc_ndials s) (lc_npub s).
Definition set_estop2 (v : bool) (s : Lifecycle_state) : Lifecycle_state :=
  LcState (lc_active s) (lc_api s) (lc_oeid s) (lc_shutdown s) (lc_rgen s) (lc_cancelled s) (lc_stopping s) (lc_sup s) (lc_st s) (lc_latch s) (lc_spc s) (lc_reid s) (lc_pdisc s) (lc_pt7 s) (lc_pups s) (lc_pbehind s) (lc_pclose s) (lc_stopreq s) (lc_gnotif s) (lc_hascur s) (lc_eid s) (lc_etd s) (lc_edone s) (lc_esock s) (lc_elis s) (lc_eup s) (lc_estop1 s) v (lc_ahold s) (lc_gsender s) (lc_grecv s) (lc_gproc s) (lc_gaccept s) (lc_glt s) (lc_gt7 s) (lc_gjoin s) (lc_hasloop s) (lc_lgen s) (lc_lcount s) (lc_lpc s) (lc_lprev s) (lc_lown s) (lc_tailc s) (lc_tailn s) (lc_err s) (lc_reconnects s) (lc_redials s) (lc_ndials s) (lc_npub s).
Definition set_ahold (v : bool) (s : Lifecycle_state) : Lifecycle_state :=
  LcState (lc_active s) (lc_api s) (lc_oeid s) (lc_shutdown s) (lc_rgen s) (lc_cancelled s) (lc_stopping s) (lc_sup s) (lc_st s) (lc_latch s) (lc_spc s) (lc_reid s) (lc_pdisc s) (lc_pt7 s) (lc_pups s) (lc_pbehind s) (lc_pclose s) (lc_stopreq s) (lc_gnotif s) (lc_hascur s) (lc_eid s) (lc_etd s) (lc_edone s) (lc_esock s) (lc_elis s) (lc_eup s) (lc_estop1 s) (lc_estop2 s) v (lc_gsender s) (lc_grecv s) (lc_gproc s) (lc_gaccept s) (lc_glt s) (lc_gt7 s) (lc_gjoin s) (lc_hasloop s) (lc_lgen s) (lc_lcount s) (lc_lpc s) (lc_lprev s) (lc_lown s) (lc_tailc s) (lc_tailn s) (lc_err s) (lc_reconnects s) (lc_redials s) (lc_ndials s) (lc_npub s).
Definition set_gsender (v : bool) (s : Lifecycle_state) : Lifecycle_state :=
  LcState (lc_active s) (lc_api s) (lc_oeid s) (lc_shutdown s) (lc_rgen s) (lc_cancelled s) (lc_stopping s) (lc_sup s) (lc_st s) (lc_latch s) (lc_spc s) (lc_reid s) (lc_pdisc s) (lc_pt7 s) (lc_pups s) (lc_pbehind s) (lc_pclose s) (lc_stopreq s) (lc_gnotif s) (lc_hascur s) (lc_eid s) (lc_etd s) (lc_edone s) (lc_esock s) (lc_elis s) (lc_eup s) (lc_estop1 s) (lc_estop2 s) (lc_ahold s) v (lc_grecv s) (lc_gproc s) (lc_gaccept s) (lc_glt s) (lc_gt7 s) (lc_gjoin s) (lc_hasloop s) (lc_lgen s) (lc_lcount s) (lc_lpc s) (lc_lprev s) (lc_lown s) (lc_tailc s) (lc_tailn s) (lc_err s) (lc_reconnects s) (lc_redials s) (lc_ndials s) (lc_npub s).
Definition set_grecv (v : bool) (s : Lifecycle_state) : Lifecycle_state :=
  LcState (lc_active s) (lc_api s) (lc_oeid s) (lc_shutdown s) (lc_rgen s) (lc_cancelled s) (lc_stopping s) (lc_sup s) (lc_st s) (lc_latch s) (lc_spc s) (lc_reid s) (lc_pdisc s) (lc_pt7 s) (lc_pups s) (lc_pbehind s) (lc_pclose s) (lc_stopreq s) (lc_gnotif s) (lc_hascur s) (lc_eid s) (lc_etd s) (lc_edone s) (lc_esock s) (lc_elis s) (lc_eup s) (lc_estop1 s) (lc_estop2 s) (lc_ahold s) (lc_gsender s) v (lc_gproc s) (lc_gaccept s) (lc_glt s) (lc_gt7 s) (lc_gjoin s) (lc_hasloop s) (lc_lgen s) (lc_lcount s) (lc_lpc s) (lc_lprev s) (lc_lown s) (lc_tailc s) (lc_tailn s) (lc_err s) (lc_reconnects s) (lc_redials s) (lc_ndials s) (lc_npub s).
Definition set_gproc (v : bool) (s : Lifecycle_state) : Lifecycle_state :=
  LcState (lc_active s) (lc_api s) (lc_oeid s) (lc_shutdown s) (lc_rgen s) (lc_cancelled s) (lc_stopping s) (lc_sup s) (lc_st s) (lc_latch s) (lc_spc s) (lc_reid s) (lc_pdisc s) (lc_pt7 s) (lc_pups s) (lc_pbehind s) (lc_pclose s) (lc_stopreq s) (lc_gnotif s) (lc_hascur s) (lc_eid s) (lc_etd s) (lc_edone s) (lc_esock s) (lc_elis s) (lc_eup s) (lc_estop1 s) (lc_estop2 s) (lc_ahold s) (lc_gsender s) (lc_grecv s) v (lc_gaccept s) (lc_glt s) (lc_gt7 s) (lc_gjoin s) (lc_hasloop s) (lc_lgen s) (lc_lcount s) (lc_lpc s) (lc_lprev s) (lc_lown s) (lc_tailc s) (lc_tailn s) (lc_err s) (lc_reconnects s) (lc_redials s) (lc_ndials s) (lc_npub s).
Definition set_gaccept (v : bool) (s : Lifecycle_state) : Lifecycle_state :=
  LcState (lc_active s) (lc_api s) (lc_oeid s) (lc_shutdown s) (lc_rgen s) (lc_cancelled s) (lc_stopping s) (lc_sup s) (lc_st s) (lc_latch s) (lc_spc s) (lc_reid s) (lc_pdisc s) (lc_pt7 s) (lc_pups s) (lc_pbehind s) (lc_pclose s) (lc_stopreq s) (lc_gnotif s) (lc_hascur s) (lc_eid s) (lc_etd s) (lc_edone s) (lc_esock s) (lc_elis s) (lc_eup s) (lc_estop1 s) (lc_estop2 s) (lc_ahold s) (lc_gsender s) (lc_grecv s) (lc_gproc s) v (lc_glt s) (lc_gt7 s) (lc_gjoin s) (lc_hasloop s) (lc_lgen s) (lc_lcount s) (lc_lpc s) (lc_lprev s) (lc_lown s) (lc_tailc s) (lc_tailn s) (lc_err s) (lc_reconnects s) (lc_redials s) (lc_ndials s) (lc_npub s).
Definition set_glt (v : nat) (s : Lifecycle_state) : Lifecycle_state :=
  LcState (lc_active s) (lc_api s) (lc_oeid s) (lc_shutdown s) (lc_rgen s) (lc_cancelled s) (lc_stopping s) (lc_sup s) (lc_st s) (lc_latch s) (lc_spc s) (lc_reid s) (lc_pdisc s) (lc_pt7 s) (lc_pups s) (lc_pbehind s) (lc_pclose s) (lc_stopreq s) (lc_gnotif s) (lc_hascur s) (lc_eid s) (lc_etd s) (lc_edone s) (lc_esock s) (lc_elis s) (lc_eup s) (lc_estop1 s) (lc_estop2 s) (lc_ahold s) (lc_gsender s) (lc_grecv s) (lc_gproc s) (lc_gaccept s) v (lc_gt7 s) (lc_gjoin s) (lc_hasloop s) (lc_lgen s) (lc_lcount s) (lc_lpc s) (lc_lprev s) (lc_lown s) (lc_tailc s) (lc_tailn s) (lc_err s) (lc_reconnects s) (lc_redials s) (lc_ndials s) (lc_npub s).
Definition set_gt7 (v : nat) (s : Lifecycle_state) : Lifecycle_state :=
  LcState (lc_active s) (lc_api s) (lc_oeid s) (lc_shutdown s) (lc_rgen s) (lc_cancelled s) (lc_stopping s) (lc_sup s) (lc_st s) (lc_latch s) (lc_spc s) (lc_reid s) (lc_pdisc s) (lc_pt7 s) (lc_pups s) (lc_pbehind s) (lc_pclose s) (lc_stopreq s) (lc_gnotif s) (lc_hascur s) (lc_eid s) (lc_etd s) (lc_edone s) (lc_esock s) (lc_elis s) (lc_eup s) (lc_estop1 s) (lc_estop2 s) (lc_ahold s) (lc_gsender s) (lc_grecv s) (lc_gproc s) (lc_gaccept s) (lc_glt s) v (lc_gjoin s) (lc_hasloop s) (lc_lgen s) (lc_lcount s) (lc_lpc s) (lc_lprev s) (lc_lown s) (lc_tailc s) (lc_tailn s) (lc_err s) (lc_reconnects s) (lc_redials s) (lc_ndials s) (lc_npub s).
Definition set_gjoin (v : bool) (s : Lifecycle_state) : Lifecycle_state :=
  LcState (lc_active s) (lc_api s) (lc_oeid s) (lc_shutdown s) (lc_rgen s) (lc_cancelled s) (lc_stopping s) (lc_sup s) (lc_st s) (lc_latch s) (lc_spc s) (lc_reid s) (lc_pdisc s) (lc_pt7 s) (lc_pups s) (lc_pbehind s) (lc_pclose s) (lc_stopreq s) (lc_gnotif s) (lc_hascur s) (lc_eid s) (lc_etd s) (lc_edone s) (lc_esock s) (lc_elis s) (lc_eup s) (lc_estop1 s) (lc_estop2 s) (lc_ahold s) (lc_gsender s) (lc_grecv s) (lc_gproc s) (lc_gaccept s) (lc_glt s) (lc_gt7 s) v (lc_hasloop s) (lc_lgen s) (lc_lcount s) (lc_lpc s) (lc_lprev s) (lc_lown s) (lc_tailc s) (lc_tailn s) (lc_err s) (lc_reconnects s) (lc_redials s) (lc_ndials s) (lc_npub s).
Definition set_hasloop (v : bool) (s : Lifecycle_state) : Lifecycle_state :=
  LcState (lc_active s) (lc_api s) (lc_oeid s) (lc_shutdown s) (lc_rgen s) (lc_cancelled s) (lc_stopping s) (lc_sup s) (lc_st s) (lc_latch s) (lc_spc s) (lc_reid s) (lc_pdisc s) (lc_pt7 s) (lc_pups s) (lc_pbehind s) (lc_pclose s) (lc_stopreq s) (lc_gnotif s) (lc_hascur s) (lc_eid s) (lc_etd s) (lc_edone s) (lc_esock s) (lc_elis s) (lc_eup s) (lc_estop1 s) (lc_estop2 s) (lc_ahold s) (lc_gsender s) (lc_grecv s) (lc_gproc s) (lc_gaccept s) (lc_glt s) (lc_gt7 s) (lc_gjoin s) v (lc_lgen s) (lc_lcount s) (lc_lpc s) (lc_lprev s) (lc_lown s) (lc_tailc s) (lc_tailn s) (lc_err s) (lc_reconnects s) (lc_redials s) (lc_ndials s) (lc_npub s).
Definition set_lgen (v : nat) (s : Lifecycle_state) : Lifecycle_state :=
  LcState (lc_active s) (lc_api s) (lc_oeid s) (lc_shutdown s) (lc_rgen s) (lc_cancelled s) (lc_stopping s) (lc_sup s) (lc_st s) (lc_latch s) (lc_spc s) (lc_reid s) (lc_pdisc s) (lc_pt7 s) (lc_pups s) (lc_pbehind s) (lc_pclose s) (lc_stopreq s) (lc_gnotif s) (lc_hascur s) (lc_eid s) (lc_etd s) (lc_edone s) (lc_esock s) (lc_elis s) (lc_eup s) (lc_estop1 s) (lc_estop2 s) (lc_ahold s) (lc_gsender s) (lc_grecv s) (lc_gproc s) (lc_gaccept s) (lc_glt s) (lc_gt7 s) (lc_gjoin s) (lc_hasloop s) v (lc_lcount s) (lc_lpc s) (lc_lprev s) (lc_lown s) (lc_tailc s) (lc_tailn s) (lc_err s) (lc_reconnects s) (lc_redials s) (lc_ndials s) (lc_npub s).
Definition set_lcount (v : bool) (s : Lifecycle_state) : Lifecycle_state :=
  LcState (lc_active s) (lc_api s) (lc_oeid s) (lc_shutdown s) (lc_rgen s) (lc_cancelled s) (lc_stopping s) (lc_sup s) (lc_st s) (lc_latch s) (lc_spc s) (lc_reid s) (lc_pdisc s) (lc_pt7 s) (lc_pups s) (lc_pbehind s) (lc_pclose s) (lc_stopreq s) (lc_gnotif s) (lc_hascur s) (lc_eid s) (lc_etd s) (lc_edone s) (lc_esock s) (lc_elis s) (lc_eup s) (lc_estop1 s) (lc_estop2 s) (lc_ahold s) (lc_gsender s) (lc_grecv s) (lc_gproc s) (lc_gaccept s) (lc_glt s) (lc_gt7 s) (lc_gjoin s) (lc_hasloop s) (lc_lgen s) v (lc_lpc s) (lc_lprev s) (lc_lown s) (lc_tailc s) (lc_tailn s) (lc_err s) (lc_reconnects s) (lc_redials s) (lc_ndials s) (lc_npub s).
Definition set_lpc (v : lc_loop_pc) (s : Lifecycle_state) : Lifecycle_state :=
  LcState (lc_active s) (lc_api s) (lc_oeid s) (lc_shutdown s) (lc_rgen s) (lc_cancelled s) (lc_stopping s) (lc_sup s) (lc_st s) (lc_latch s) (lc_spc s) (lc_reid s) (lc_pdisc s) (lc_pt7 s) (lc_pups s) (lc_pbehind s) (lc_pclose s) (lc_stopreq s) (lc_gnotif s) (lc_hascur s) (lc_eid s) (lc_etd s) (lc_edone s) (lc_esock s) (lc_elis s) (lc_eup s) (lc_estop1 s) (lc_estop2 s) (lc_ahold s) (lc_gsender s) (lc_grecv s) (lc_gproc s) (lc_gaccept s) (lc_glt s) (lc_gt7 s) (lc_gjoin s) (lc_hasloop s) (lc_lgen s) (lc_lcount s) v (lc_lprev s) (lc_lown s) (lc_tailc s) (lc_tailn s) (lc_err s) (lc_reconnects s) (lc_redials s) (lc_ndials s) (lc_npub s).
Definition set_lprev (v : nat) (s : Lifecycle_state) : Lifecycle_state :=
  LcState (lc_active s) (lc_api s) (lc_oeid s) (lc_shutdown s) (lc_rgen s) (lc_cancelled s) (lc_stopping s) (lc_sup s) (lc_st s) (lc_latch s) (lc_spc s) (lc_reid s) (lc_pdisc s) (lc_pt7 s) (lc_pups s) (lc_pbehind s) (lc_pclose s) (lc_stopreq s) (lc_gnotif s) (lc_hascur s) (lc_eid s) (lc_etd s) (lc_edone s) (lc_esock s) (lc_elis s) (lc_eup s) (lc_estop1 s) (lc_estop2 s) (lc_ahold s) (lc_gsender s) (lc_grecv s) (lc_gproc s) (lc_gaccept s) (lc_glt s) (lc_gt7 s) (lc_gjoin s) (lc_hasloop s) (lc_lgen s) (lc_lcount s) (lc_lpc s) v (lc_lown s) (lc_tailc s) (lc_tailn s) (lc_err s) (lc_reconnects s) (lc_redials s) (lc_ndials s) (lc_npub s).
Definition set_lown (v : nat) (s : Lifecycle_state) : Lifecycle_state :=
  LcState (lc_active s) (lc_api s) (lc_oeid s) (lc_shutdown s) (lc_rgen s) (lc_cancelled s) (lc_stopping s) (lc_sup s) (lc_st s) (lc_latch s) (lc_spc s) (lc_reid s) (lc_pdisc s) (lc_pt7 s) (lc_pups s) (lc_pbehind s) (lc_pclose s) (lc_stopreq s) (lc_gnotif s) (lc_hascur s) (lc_eid s) (lc_etd s) (lc_edone s) (lc_esock s) (lc_elis s) (lc_eup s) (lc_estop1 s) (lc_estop2 s) (lc_ahold s) (lc_gsender s) (lc_grecv s) (lc_gproc s) (lc_gaccept s) (lc_glt s) (lc_gt7 s) (lc_gjoin s) (lc_hasloop s) (lc_lgen s) (lc_lcount s) (lc_lpc s) (lc_lprev s) v (lc_tailc s) (lc_tailn s) (lc_err s) (lc_reconnects s) (lc_redials s) (lc_ndials s) (lc_npub s).
Definition set_tailc (v : nat) (s : Lifecycle_state) : Lifecycle_state :=
  LcState (lc_active s) (lc_api s) (lc_oeid s) (lc_shutdown s) (lc_rgen s) (lc_cancelled s) (lc_stopping s) (lc_sup s) (lc_st s) (lc_latch s) (lc_spc s) (lc_reid s) (lc_pdisc s) (lc_pt7 s) (lc_pups s) (lc_pbehind s) (lc_pclose s) (lc_stopreq s) (lc_gnotif s) (lc_hascur s) (lc_eid s) (lc_etd s) (lc_edone s) (lc_esock s) (lc_elis s) (lc_eup s) (lc_estop1 s) (lc_estop2 s) (lc_ahold s) (lc_gsender s) (lc_grecv s) (lc_gproc s) (lc_gaccept s) (lc_glt s) (lc_gt7 s) (lc_gjoin s) (lc_hasloop s) (lc_lgen s) (lc_lcount s) (lc_lpc s) (lc_lprev s) (lc_lown s) v (lc_tailn s) (lc_err s) (lc_reconnects s) (lc_redials s) (lc_ndials s) (lc_npub s).
Definition set_tailn (v : nat) (s : Lifecycle_state) : Lifecycle_state :=
  LcState (lc_active s) (lc_api s) (lc_oeid s) (lc_shutdown s) (lc_rgen s) (lc_cancelled s) (lc_stopping s) (lc_sup s) (lc_st s) (lc_latch s) (lc_spc s) (lc_reid s) (lc_pdisc s) (lc_pt7 s) (lc_pups s) (lc_pbehind s) (lc_pclose s) (lc_stopreq s) (lc_gnotif s) (lc_hascur s) (lc_eid s) (lc_etd s) (lc_edone s) (lc_esock s) (lc_elis s) (lc_eup s) (lc_estop1 s) (lc_estop2 s) (lc_ahold s) (lc_gsender s) (lc_grecv s) (lc_gproc s) (lc_gaccept s) (lc_glt s) (lc_gt7 s) (lc_gjoin s) (lc_hasloop s) (lc_lgen s) (lc_lcount s) (lc_lpc s) (lc_lprev s) (lc_lown s) (lc_tailc s) v (lc_err s) (lc_reconnects s) (lc_redials s) (lc_ndials s) (lc_npub s).
Definition set_err (v : bool) (s : Lifecycle_state) : Lifecycle_state :=
  LcState (lc_active s) (lc_api s) (lc_oeid s) (lc_shutdown s) (lc_rgen s) (lc_cancelled s) (lc_stopping s) (lc_sup s) (lc_st s) (lc_latch s) (lc_spc s) (lc_reid s) (lc_pdisc s) (lc_pt7 s) (lc_pups s) (lc_pbehind s) (lc_pclose s) (lc_stopreq s) (lc_gnotif s) (lc_hascur s) (lc_eid s) (lc_etd s) (lc_edone s) (lc_esock s) (lc_elis s) (lc_eup s) (lc_estop1 s) (lc_estop2 s) (lc_ahold s) (lc_gsender s) (lc_grecv s) (lc_gproc s) (lc_gaccept s) (lc_glt s) (lc_gt7 s) (lc_gjoin s) (lc_hasloop s) (lc_lgen s) (lc_lcount s) (lc_lpc s) (lc_lprev s) (lc_lown s) (lc_tailc s) (lc_tailn s) v (lc_reconnects s) (lc_redials s) (lc_ndials s) (lc_npub s).
Definition set_reconnects (v : nat) (s : Lifecycle_state) : Lifecycle_state :=
  LcState (lc_active s) (lc_api s) (lc_oeid s) (lc_shutdown s) (lc_rgen s) (lc_cancelled s) (lc_stopping s) (lc_sup s) (lc_st s) (lc_latch s) (lc_spc s) (lc_reid s) (lc_pdisc s) (lc_pt7 s) (lc_pups s) (lc_pbehind s) (lc_pclose s) (lc_stopreq s) (lc_gnotif s) (lc_hascur s) (lc_eid s) (lc_etd s) (lc_edone s) (lc_esock s) (lc_elis s) (lc_eup s) (lc_estop1 s) (lc_estop2 s) (lc_ahold s) (lc_gsender s) (lc_grecv s) (lc_gproc s) (lc_gaccept s) (lc_glt s) (lc_gt7 s) (lc_gjoin s) (lc_hasloop s) (lc_lgen s) (lc_lcount s) (lc_lpc s) (lc_lprev s) (lc_lown s) (lc_tailc s) (lc_tailn s) (lc_err s) v (lc_redials s) (lc_ndials s) (lc_npub s).
Definition set_redials (v : nat) (s : Lifecycle_state) : Lifecycle_state :=
  LcState (lc_active s) (lc_api s) (lc_oeid s) (lc_shutdown s) (lc_rgen s) (lc_cancelled s) (lc_stopping s) (lc_sup s) (lc_st s) (lc_latch s) (lc_spc s) (lc_reid s) (lc_pdisc s) (lc_pt7 s) (lc_pups s) (lc_pbehind s) (lc_pclose s) (lc_stopreq s) (lc_gnotif s) (lc_hascur s) (lc_eid s) (lc_etd s) (lc_edone s) (lc_esock s) (lc_elis s) (lc_eup s) (lc_estop1 s) (lc_estop2 s) (lc_ahold s) (lc_gsender s) (lc_grecv s) (lc_gproc s) (lc_gaccept s) (lc_glt s) (lc_gt7 s) (lc_gjoin s) (lc_hasloop s) (lc_lgen s) (lc_lcount s) (lc_lpc s) (lc_lprev s) (lc_lown s) (lc_tailc s) (lc_tailn s) (lc_err s) (lc_reconnects s) v (lc_ndials s) (lc_npub s).
Definition set_ndials (v : nat) (s : Lifecycle_state) : Lifecycle_state :=
  LcState (lc_active s) (lc_api s) (lc_oeid s) (lc_shutdown s) (lc_rgen s) (lc_cancelled s) (lc_stopping s) (lc_sup s) (lc_st s) (lc_latch s) (lc_spc s) (lc_reid s) (lc_pdisc s) (lc_pt7 s) (lc_pups s) (lc_pbehind s) (lc_pclose s) (lc_stopreq s) (lc_gnotif s) (lc_hascur s) (lc_eid s) (lc_etd s) (lc_edone s) (lc_esock s) (lc_elis s) (lc_eup s) (lc_estop1 s) (lc_estop2 s) (lc_ahold s) (lc_gsender s) (lc_grecv s) (lc_gproc s) (lc_gaccept s) (lc_glt s) (lc_gt7 s) (lc_gjoin s) (lc_hasloop s) (lc_lgen s) (lc_lcount s) (lc_lpc s) (lc_lprev s) (lc_lown s) (lc_tailc s) (lc_tailn s) (lc_err s) (lc_reconnects s) (lc_redials s) v (lc_npub s).
Definition set_npub (v : nat) (s : Lifecycle_state) : Lifecycle_state :=
  LcState (lc_active s) (lc_api s) (lc_oeid s) (lc_shutdown s) (lc_rgen s) (lc_cancelled s) (lc_stopping s) (lc_sup s) (lc_st s) (lc_latch s) (lc_spc s) (lc_reid s) (lc_pdisc s) (lc_pt7 s) (lc_pups s) (lc_pbehind s) (lc_pclose s) (lc_stopreq s) (lc_gnotif s) (lc_hascur s) (lc_eid s) (lc_etd s) (lc_edone s) (lc_esock s) (lc_elis s) (lc_eup s) (lc_estop1 s) (lc_estop2 s) (lc_ahold s) (lc_gsender s) (lc_grecv s) (lc_gproc s) (lc_gaccept s) (lc_glt s) (lc_gt7 s) (lc_gjoin s) (lc_hasloop s) (lc_lgen s) (lc_lcount s) (lc_lpc s) (lc_lprev s) (lc_lown s) (lc_tailc s) (lc_tailn s) (lc_err s) (lc_reconnects s) (lc_redials s) (lc_ndials s) v.

Notation "s '.[' f ':=' v ']'" := (f v s) (at level 8, left associativity, only parsing).

Definition Lifecycle_init (active : bool) : Lifecycle_state :=
  LcState active LcIdle 0 false 0 false false LcSupNone LcNC false LcSupIdle 0 0 0 false 0 false false false
          false 0 false false false false false false false false
          false false false false 0 0 false
          false 0 false LcLWaitPrev 0 0 0 0 false 0 0 0 0.

Inductive lc_open_res := LcOpenOk | LcOpenAlready | LcOpenErrStart | LcOpenErrCtx | LcOpenErrClosed.
Inductive lc_close_res := LcCloseOk | LcCloseNotOpen | LcCloseRetained.
Inductive lc_wait_res := LcWSelected | LcWCtx | LcWClosed.

Inductive Lifecycle_action :=
(* API *)
| LcOpen (m : lc_omode) | LcOpen1 | LcOpen2 | LcOpen3
| LcODial (ok : bool) | LcOListen (ok : bool) | LcOGate
| LcOWaitRet (r : lc_wait_res) | LcOColdWait | LcOColdSpawn
| LcOFailReq | LcOFailWait | LcOFailStop | LcOFailJoin
| LcClose | LcClose1 | LcClose2 | LcClose3 | LcClose4 | LcClose5 | LcClose6 | LcClose7
(* supervisor goroutines *)
| LcSupDisc | LcSupT7 | LcSupUpEcho | LcSupClose | LcSupReact1 | LcSupReact2 | LcSupReact3 | LcSupRunExit | LcSupNotifExit
(* generation goroutines and the environment *)
| LcAccept | LcAcceptUp | LcAcceptExit
| LcRecvExit (down : bool) | LcProcExit (down : bool) | LcSelected (lt : bool) | LcSelectLost
| LcArmT7 | LcT7Exit (fire : bool) | LcLtExit (down : bool) | LcSenderExit | LcSpuriousDown
| LcJoinStop1 | LcJoinStop2 | LcJoinFinish
(* reconnect loop *)
| LcLWait | LcLSleepDone | LcLSleepCancel | LcLFenceStep | LcLPublish | LcLSender
| LcLDial (ok : bool) | LcLListen (ok : bool) | LcLGate | LcLFailWaited | LcTailInc | LcTailExit.


(** ** boolean recognisers of the enumerations (the step function and the invariants use these, never an inline match) *)
Definition lc_is_nc (c : lc_cstate) : bool := match c with LcNC => true | _ => false end.
Definition lc_is_ns (c : lc_cstate) : bool := match c with LcNS => true | _ => false end.
Definition lc_is_sel (c : lc_cstate) : bool := match c with LcSEL => true | _ => false end.
Definition lc_is_alive (l : lc_suplife) : bool := match l with LcSupAlive => true | _ => false end.
Definition lc_is_none (l : lc_suplife) : bool := match l with LcSupNone => true | _ => false end.
Definition lc_is_stopped (l : lc_suplife) : bool := match l with LcSupStopped => true | _ => false end.
Definition lc_spc_idle (p : lc_sup_pc) : bool := match p with LcSupIdle => true | _ => false end.

(** ** helpers *)
Definition lc_b2n (b : bool) : nat := if b then 1 else 0.
Definition lc_sup_alive (s : Lifecycle_state) : bool := lc_is_alive (lc_sup s).

Definition lc_no_loops (s : Lifecycle_state) : bool :=
  negb (lc_hasloop s) && (lc_tailc s =? 0) && (lc_tailn s =? 0).

(** Goroutines of the library that are alive. *)
Definition Lifecycle_goroutines (s : Lifecycle_state) : nat :=
  lc_b2n (lc_sup_alive s) + lc_b2n (lc_gnotif s) + lc_b2n (lc_gsender s) + lc_b2n (lc_grecv s) +
  lc_b2n (lc_gproc s) + lc_b2n (lc_gaccept s) + lc_glt s + lc_gt7 s + lc_b2n (lc_gjoin s) +
  lc_b2n (lc_hasloop s) + lc_tailc s + lc_tailn s.

Definition lc_api_hand (p : lc_api_pc) : nat :=
  match p with LcOStart _ LcSP1 => 1 | _ => 0 end.
Definition lc_loop_hand (s : Lifecycle_state) : nat :=
  if lc_hasloop s then match lc_lpc s with LcLStart LcSP1 => 1 | _ => 0 end else 0.

(** Sockets and listeners obtained from the dialer / listener factory that are still open. *)
Definition Lifecycle_sockets (s : Lifecycle_state) : nat :=
  lc_b2n (lc_esock s) + lc_b2n (lc_elis s) + lc_b2n (lc_ahold s) + lc_api_hand (lc_api s) + lc_loop_hand s.

(** Reconnect loops that are alive (the connRetry gauge). *)
Definition Lifecycle_loops (s : Lifecycle_state) : nat := lc_b2n (lc_hasloop s) + lc_tailc s + lc_tailn s.

(** The current generation is fully joined and owns nothing. *)
Definition lc_epoch_quiet (s : Lifecycle_state) : bool :=
  negb (lc_hascur s) ||
  (lc_edone s && negb (lc_esock s) && negb (lc_elis s) && negb (lc_ahold s) && negb (lc_gsender s) &&
   negb (lc_grecv s) && negb (lc_gproc s) && negb (lc_gaccept s) && (lc_glt s =? 0) && (lc_gt7 s =? 0) &&
   negb (lc_gjoin s)).

(** epoch.teardown on the current generation (closeOnce): cancel, close the registered socket,
    seal spawns, start the join goroutine. *)
Definition lc_teardown (s : Lifecycle_state) : Lifecycle_state :=
  if lc_hascur s && negb (lc_etd s)
  then s.[set_etd := true].[set_esock := false].[set_gjoin := true]
  else s.

(** newEpoch + cur.Store: a fresh generation becomes current. Overwriting a generation that is
    not quiet is outside the model's shape: flag it. *)
Definition lc_new_epoch (s : Lifecycle_state) : Lifecycle_state :=
  let bad := negb (lc_epoch_quiet s) in
  s.[set_err := lc_err s || bad].[set_hascur := true].[set_eid := S (lc_eid s)]
   .[set_etd := false].[set_edone := false].[set_esock := false].[set_elis := false].[set_eup := false]
   .[set_estop1 := false].[set_estop2 := false].[set_ahold := false]
   .[set_gsender := false].[set_grecv := false].[set_gproc := false].[set_gaccept := false]
   .[set_glt := 0].[set_gt7 := 0].[set_gjoin := false].

(** connection.TCPUp: publish the socket on the current epoch, CommitConnected (CAS NC -> NS on the
    plain state word: fails once the close latch carries the closed bit; a successful commit
    enqueues its echo event and counts it in pendingUps). [lc_pups]: a TCP-up echo is queued and not
    yet taken; a second commit while one is still queued is outside the model's shape (flagged). *)
Definition lc_tcpup (s : Lifecycle_state) : Lifecycle_state :=
  let s1 := s.[set_esock := true].[set_eup := true] in
  if lc_sup_alive s && lc_is_nc (lc_st s) && negb (lc_latch s)
  then s1.[set_err := lc_err s || lc_pups s].[set_st := LcNS].[set_pups := true] else s1.

(** connection.TCPDown: inject evDisconnect (a no-op once the supervisor's run loop has returned).
    The events channel is FIFO: a disconnect injected while a TCP-up echo is still queued sits BEHIND
    that echo ([lc_pbehind]) and can only be taken after it; the ones in [lc_pdisc] are ahead of it. *)
Definition lc_tcpdown (s : Lifecycle_state) : Lifecycle_state :=
  if lc_sup_alive s
  then (if lc_pups s then s.[set_pbehind := S (lc_pbehind s)] else s.[set_pdisc := S (lc_pdisc s)])
  else s.

(** startConnectLoop: a loop scheduled at the current reconnectGen, waiting for the current epoch. *)
Definition lc_spawn_loop (count : bool) (s : Lifecycle_state) : Lifecycle_state :=
  s.[set_err := lc_err s || lc_hasloop s].[set_hasloop := true].[set_lgen := lc_rgen s]
   .[set_lcount := count].[set_lpc := LcLWaitPrev].[set_lprev := lc_eid s].[set_lown := lc_eid s].

(** The start gate of transport.Start (startGate.RLock section), entered holding a fresh socket
    (active) or listener (passive). Returns the new state and whether Start succeeds. *)
Definition lc_gate (s : Lifecycle_state) : Lifecycle_state * bool :=
  if lc_stopping s then (s, false)             (* errStartSealed: the resource in hand is closed *)
  else if lc_active s
       then ((lc_tcpup s).[set_grecv := true].[set_gproc := true], true)
       else (s.[set_elis := true].[set_gaccept := true], true).

(** Open after tr.Start failed. *)
Definition lc_open_start_failed (m : lc_omode) (s : Lifecycle_state) : Lifecycle_state :=
  match m with
  | LcBackground =>
    if lc_active s && lc_is_nc (lc_st s)
    then (lc_teardown s).[set_api := LcOCold1]
    else s.[set_shutdown := true].[set_api := LcOFail1]
  | LcWaitSel => s.[set_shutdown := true].[set_api := LcOFail1]
  end.

Definition lc_open_start_ok (m : lc_omode) (s : Lifecycle_state) : Lifecycle_state :=
  match m with
  | LcWaitSel => s.[set_api := LcOWait]
  | LcBackground => s.[set_api := LcIdle]
  end.

Definition lc_loop_start_failed (s : Lifecycle_state) : Lifecycle_state :=
  let s1 := lc_teardown s in
  s1.[set_err := lc_err s1 || negb (lc_lown s =? lc_eid s)].[set_lpc := LcLFailWait].

Definition lc_loop_exit (s : Lifecycle_state) : Lifecycle_state := s.[set_hasloop := false].

(** ** the step function *)
Definition Lifecycle_exec (s : Lifecycle_state) (a : Lifecycle_action) : option Lifecycle_state :=
  match a with
  (* ---------------- Open ---------------- *)
  | LcOpen m =>
    match lc_api s with
    | LcIdle =>
      if lc_is_none (lc_sup s) || lc_shutdown s then Some s.[set_api := LcO1 m]
      else Some s                                                  (* ErrAlreadyOpen: no effect *)
    | _ => None
    end
  | LcOpen1 =>
    match lc_api s with
    | LcO1 m => Some s.[set_rgen := S (lc_rgen s)].[set_shutdown := false].[set_api := LcO2 m]
    | _ => None
    end
  | LcOpen2 =>
    match lc_api s with
    | LcO2 m => if lc_no_loops s then Some s.[set_api := LcO3 m] else None
    | _ => None
    end
  | LcOpen3 =>
    match lc_api s with
    | LcO3 m =>
      let s1 := lc_new_epoch s in
      Some s1.[set_err := lc_err s1 || lc_sup_alive s || lc_gnotif s]
             .[set_cancelled := false].[set_oeid := lc_eid s1]
             .[set_sup := LcSupAlive].[set_st := LcNC].[set_latch := false].[set_spc := LcSupIdle]
             .[set_pdisc := 0].[set_pt7 := 0].[set_pups := false].[set_pbehind := 0].[set_pclose := false].[set_stopreq := false].[set_gnotif := true]
             .[set_gsender := true].[set_stopping := false].[set_api := LcOStart m LcSP0]
    | _ => None
    end
  | LcODial ok =>
    match lc_api s with
    | LcOStart m LcSP0 =>
      if lc_active s then
        let s1 := s.[set_ndials := S (lc_ndials s)] in
        Some (if ok then s1.[set_api := LcOStart m LcSP1] else lc_open_start_failed m s1)
      else None
    | _ => None
    end
  | LcOListen ok =>
    match lc_api s with
    | LcOStart m LcSP0 =>
      if lc_active s then None else
        let s1 := s.[set_ndials := S (lc_ndials s)] in
        Some (if ok then s1.[set_api := LcOStart m LcSP1] else lc_open_start_failed m s1)
    | _ => None
    end
  | LcOGate =>
    match lc_api s with
    | LcOStart m LcSP1 =>
      let (s1, ok) := lc_gate s in
      Some (if ok then lc_open_start_ok m s1 else lc_open_start_failed m s1)
    | _ => None
    end
  | LcOWaitRet r =>
    match lc_api s with
    | LcOWait =>
      match r with
      | LcWSelected => if lc_is_sel (lc_st s) then Some s.[set_api := LcIdle] else None
      | LcWCtx => Some s.[set_api := LcIdle]
      | LcWClosed => if lc_edone s || negb (lc_oeid s =? lc_eid s) then Some s.[set_api := LcIdle] else None
      end
    | _ => None
    end
  | LcOColdWait =>
    match lc_api s with
    | LcOCold1 => if lc_edone s then Some s.[set_api := LcOCold2] else None
    | _ => None
    end
  | LcOColdSpawn =>
    match lc_api s with
    | LcOCold2 => Some (lc_spawn_loop false s).[set_api := LcIdle]
    | _ => None
    end
  | LcOFailReq =>
    match lc_api s with
    | LcOFail1 => Some (if lc_sup_alive s then s.[set_pclose := true] else s).[set_api := LcOFail2]
    | _ => None
    end
  | LcOFailWait =>
    match lc_api s with
    | LcOFail2 => if lc_edone s then Some s.[set_api := LcOFail3] else None
    | _ => None
    end
  | LcOFailStop =>
    match lc_api s with
    | LcOFail3 => Some s.[set_stopreq := true].[set_api := LcOFail4]
    | _ => None
    end
  | LcOFailJoin =>
    match lc_api s with
    | LcOFail4 => if negb (lc_sup_alive s) && negb (lc_gnotif s) then Some s.[set_api := LcIdle] else None
    | _ => None
    end
  (* ---------------- Close ---------------- *)
  | LcClose =>
    match lc_api s with
    | LcIdle =>
      if negb (lc_hascur s) then Some s                         (* ErrNotOpen *)
      else if lc_is_stopped (lc_sup s)
           then (if lc_edone s then Some s else None)             (* retained result; e.wait() on a done epoch *)
           else Some s.[set_api := LcC1]
    | _ => None
    end
  | LcClose1 =>
    match lc_api s with
    | LcC1 => Some s.[set_rgen := S (lc_rgen s)].[set_shutdown := true].[set_api := LcC2]
    | _ => None
    end
  | LcClose2 =>
    match lc_api s with
    | LcC2 => Some s.[set_cancelled := true].[set_api := LcC3]
    | _ => None
    end
  | LcClose3 =>
    match lc_api s with
    | LcC3 => Some (if lc_sup_alive s then s.[set_pclose := true] else s).[set_api := LcC4]
    | _ => None
    end
  | LcClose4 =>
    match lc_api s with
    | LcC4 => if lc_edone s then Some s.[set_api := LcC5] else None
    | _ => None
    end
  | LcClose5 =>
    match lc_api s with
    | LcC5 => Some s.[set_stopreq := true].[set_api := LcC6]
    | _ => None
    end
  | LcClose6 =>
    match lc_api s with
    | LcC6 => if negb (lc_sup_alive s) && negb (lc_gnotif s) then Some s.[set_api := LcC7] else None
    | _ => None
    end
  | LcClose7 =>
    match lc_api s with
    | LcC7 => if lc_no_loops s then Some s.[set_api := LcIdle] else None
    | _ => None
    end
  (* ---------------- supervisor ---------------- *)
  | LcSupDisc =>
    if lc_sup_alive s && lc_spc_idle (lc_spc s) && negb (lc_pdisc s =? 0) then
      let s1 := s.[set_pdisc := pred (lc_pdisc s)] in
      (* ignored: latched, already NotConnected, or taken while a TCP-up echo is still queued (stale) *)
      if lc_latch s || lc_is_nc (lc_st s) || lc_pups s then Some s1
      else Some s1.[set_st := LcNC].[set_spc := LcReact1].[set_reid := lc_eid s]
    else None
  | LcSupT7 =>
    if lc_sup_alive s && lc_spc_idle (lc_spc s) && negb (lc_pt7 s =? 0) then
      let s1 := s.[set_pt7 := pred (lc_pt7 s)] in
      if negb (lc_latch s) && lc_is_ns (lc_st s) && negb (lc_pups s)
      then Some s1.[set_st := LcNC].[set_spc := LcReact1].[set_reid := lc_eid s]
      else Some s1
    else None
  | LcSupUpEcho =>
    (* the supervisor takes a TCP-up commit echo: it only reports, never stores *)
    (* FIFO: only after every disconnect that was queued ahead of it; the ones behind become takeable *)
    if lc_sup_alive s && lc_spc_idle (lc_spc s) && lc_pups s && (lc_pdisc s =? 0)
    then Some s.[set_pups := false].[set_pdisc := lc_pbehind s].[set_pbehind := 0] else None
  | LcSupClose =>
    if lc_sup_alive s && lc_spc_idle (lc_spc s) && lc_pclose s then
      let s1 := s.[set_pclose := false] in
      if lc_latch s then Some s1
      else let s2 := lc_teardown s1 in
           Some s2.[set_err := lc_err s2 || negb (lc_shutdown s)].[set_st := LcNC].[set_latch := true]
    else None
  | LcSupReact1 =>
    match lc_spc s with
    | LcReact1 => Some s.[set_spc := if lc_shutdown s then LcReact3 else LcReact2]
    | _ => None
    end
  | LcSupReact2 =>
    match lc_spc s with
    | LcReact2 => Some (lc_spawn_loop true s).[set_spc := LcReact3]
    | _ => None
    end
  | LcSupReact3 =>
    match lc_spc s with
    | LcReact3 =>
      let s1 := lc_teardown s in
      Some s1.[set_err := lc_err s1 || negb (lc_reid s =? lc_eid s)].[set_spc := LcSupIdle]
    | _ => None
    end
  | LcSupRunExit =>
    if lc_sup_alive s && lc_stopreq s && lc_spc_idle (lc_spc s)
    then Some s.[set_sup := LcSupStopped] else None
  | LcSupNotifExit =>
    if negb (lc_sup_alive s) && lc_gnotif s then Some s.[set_gnotif := false] else None
  (* ---------------- generation goroutines / environment ---------------- *)
  | LcAccept =>
    if lc_gaccept s && lc_elis s && negb (lc_eup s) && negb (lc_ahold s)
    then Some s.[set_ahold := true] else None
  | LcAcceptUp =>
    if lc_ahold s then Some (lc_tcpup s.[set_ahold := false]).[set_grecv := true] else None
  | LcAcceptExit =>
    if lc_gaccept s && negb (lc_elis s) && negb (lc_ahold s) then Some s.[set_gaccept := false] else None
  | LcRecvExit down =>
    (* the receive goroutine ends: reporting the loss (TCPDown), or silently — which it does only
       when its generation's context is cancelled (teardown began) *)
    if lc_grecv s && (down || lc_etd s)
    then let s1 := s.[set_grecv := false] in Some (if down then lc_tcpdown s1 else s1) else None
  | LcProcExit down =>
    if lc_gproc s then let s1 := s.[set_gproc := false] in Some (if down then lc_tcpdown s1 else s1) else None
  | LcSelected lt =>
    if lc_grecv s && lc_sup_alive s && lc_is_ns (lc_st s) && negb (lc_latch s)
    then Some (if lt then s.[set_st := LcSEL].[set_glt := S (lc_glt s)] else s.[set_st := LcSEL]) else None
  | LcSelectLost =>
    if lc_grecv s && lc_sup_alive s && lc_is_sel (lc_st s) && negb (lc_latch s)
    then Some s.[set_st := LcNS] else None
  | LcArmT7 => if lc_grecv s then Some s.[set_gt7 := S (lc_gt7 s)] else None
  | LcT7Exit fire =>
    if negb (lc_gt7 s =? 0) then
      let s1 := s.[set_gt7 := pred (lc_gt7 s)] in
      Some (if fire && lc_sup_alive s then s1.[set_pt7 := S (lc_pt7 s)] else s1)
    else None
  | LcLtExit down =>
    if negb (lc_glt s =? 0) then
      let s1 := s.[set_glt := pred (lc_glt s)] in Some (if down then lc_tcpdown s1 else s1)
    else None
  | LcSenderExit => if lc_gsender s && lc_etd s then Some s.[set_gsender := false] else None
  | LcSpuriousDown => if lc_hascur s && lc_eup s then Some (lc_tcpdown s) else None
  | LcJoinStop1 =>
    if lc_gjoin s && negb (lc_estop1 s)
    then Some s.[set_stopping := true].[set_elis := false].[set_esock := false].[set_estop1 := true] else None
  | LcJoinStop2 =>
    if lc_gjoin s && lc_estop1 s && negb (lc_estop2 s) && negb (lc_gaccept s)
    then Some s.[set_esock := false].[set_estop2 := true] else None
  | LcJoinFinish =>
    if lc_gjoin s && lc_estop2 s && negb (lc_grecv s) && negb (lc_gproc s) && (lc_glt s =? 0) && (lc_gt7 s =? 0)
       && negb (lc_gsender s)
    then Some s.[set_edone := true].[set_gjoin := false] else None
  (* ---------------- reconnect loop ---------------- *)
  | LcLWait =>
    if lc_hasloop s then
      match lc_lpc s with
      | LcLWaitPrev => if lc_edone s || negb (lc_lprev s =? lc_eid s) then Some s.[set_lpc := LcLSleep] else None
      | _ => None
      end
    else None
  | LcLSleepDone =>
    if lc_hasloop s then match lc_lpc s with LcLSleep => Some s.[set_lpc := LcLFence] | _ => None end else None
  | LcLSleepCancel =>
    if lc_hasloop s then
      match lc_lpc s with LcLSleep => if lc_cancelled s then Some (lc_loop_exit s) else None | _ => None end
    else None
  | LcLFenceStep =>
    if lc_hasloop s then
      match lc_lpc s with
      | LcLFence => if lc_shutdown s || negb (lc_lgen s =? lc_rgen s) then Some (lc_loop_exit s)
                    else Some s.[set_lpc := LcLBuild]
      | _ => None
      end
    else None
  | LcLPublish =>
    if lc_hasloop s then
      match lc_lpc s with
      | LcLBuild =>
        if lc_shutdown s || negb (lc_lgen s =? lc_rgen s) then Some (lc_loop_exit s)
        else let s1 := lc_new_epoch s in
             Some s1.[set_stopping := false].[set_lown := lc_eid s1].[set_npub := S (lc_npub s)].[set_lpc := LcLPublished]
      | _ => None
      end
    else None
  | LcLSender =>
    if lc_hasloop s then
      match lc_lpc s with
      | LcLPublished => Some (if lc_etd s then s else s.[set_gsender := true]).[set_lpc := LcLStart LcSP0]
      | _ => None
      end
    else None
  | LcLDial ok =>
    if lc_hasloop s && lc_active s then
      match lc_lpc s with
      | LcLStart LcSP0 =>
        let s1 := s.[set_ndials := S (lc_ndials s)] in
        Some (if ok then s1.[set_lpc := LcLStart LcSP1] else lc_loop_start_failed s1)
      | _ => None
      end
    else None
  | LcLListen ok =>
    if lc_hasloop s && negb (lc_active s) then
      match lc_lpc s with
      | LcLStart LcSP0 =>
        let s1 := s.[set_ndials := S (lc_ndials s)] in
        Some (if ok then s1.[set_lpc := LcLStart LcSP1] else lc_loop_start_failed s1)
      | _ => None
      end
    else None
  | LcLGate =>
    if lc_hasloop s then
      match lc_lpc s with
      | LcLStart LcSP1 =>
        let (s1, ok) := lc_gate s in
        if ok then
          Some (if lc_lcount s
                then s1.[set_hasloop := false].[set_tailc := S (lc_tailc s)].[set_redials := S (lc_redials s)]
                else s1.[set_hasloop := false].[set_tailn := S (lc_tailn s)])
        else Some (lc_loop_start_failed s1)
      | _ => None
      end
    else None
  | LcLFailWaited =>
    if lc_hasloop s then
      match lc_lpc s with LcLFailWait => if lc_edone s then Some s.[set_lpc := LcLSleep] else None | _ => None end
    else None
  | LcTailInc =>
    if negb (lc_tailc s =? 0)
    then Some s.[set_tailc := pred (lc_tailc s)].[set_reconnects := S (lc_reconnects s)].[set_tailn := S (lc_tailn s)]
    else None
  | LcTailExit =>
    if negb (lc_tailn s =? 0) then Some s.[set_tailn := pred (lc_tailn s)] else None
  end.

Fixpoint Lifecycle_run (s : Lifecycle_state) (acts : list Lifecycle_action) : option Lifecycle_state :=
  match acts with
  | [] => Some s
  | a :: rest => match Lifecycle_exec s a with Some s' => Lifecycle_run s' rest | None => None end
  end.

(** ** observables and monitors (DESIGN.md Appendix B)

    The same monitors judge (a) every run of the model — theorems in LifecycleProofs.v — and
    (b) the logs the e2e harness records from the real library (extracted, ocaml/c10_driver.ml,
    c11_driver.ml). In harness logs the hygiene numbers of [LcObsCloseRet] come from a filtered
    runtime.Stack dump, the harness-owned conns/listeners and the dialer wrapper. *)
Inductive Lifecycle_obs :=
| LcObsOpenRet (r : lc_open_res) (solo : bool)
    (* an Open returned; solo: no other Open/Close call overlapped it *)
| LcObsCloseRet (r : lc_close_res) (calm : bool) (goroutines sockets loops : nat) (selected_state_after : bool)
    (* a Close returned; calm: no other Open/Close call overlapped it, and then: library goroutines
       alive, conns/listeners still open, reconnect loops live, and whether State() read after the
       return is something other than NotConnected *)
| LcObsOpenCall                       (* an Open call was issued *)
| LcObsDial (ok : bool)               (* the dialer / listener factory was invoked *)
| LcObsPublish                        (* a reconnect generation was published *)
| LcObsReconnects (metric redials : nat) (* Reconnects() metric vs successful re-dials counted by the harness, at quiescence *)
| LcObsLoopCheck (open_not_shutdown nc covered : bool).
    (* a sample: connection open, state NotConnected, and whether a loop / Start / react / listener covers it *)

Definition lc_close_snapshot (r : lc_close_res) (s : Lifecycle_state) : Lifecycle_obs :=
  LcObsCloseRet r true (Lifecycle_goroutines s) (Lifecycle_sockets s) (Lifecycle_loops s) (negb (lc_is_nc (lc_st s))).

(** What a step of the model shows to an observer. (In the model lifeMu makes every call solo.) *)
Definition Lifecycle_observe1 (s : Lifecycle_state) (a : Lifecycle_action) (s' : Lifecycle_state) : list Lifecycle_obs :=
  match a with
  | LcOpen _ =>
    match lc_api s' with
    | LcIdle => [LcObsOpenCall; LcObsOpenRet LcOpenAlready true]
    | _ => [LcObsOpenCall]
    end
  | LcODial ok | LcOListen ok | LcLDial ok | LcLListen ok => [LcObsDial ok]
  | LcOGate =>
    match lc_api s' with
    | LcIdle => [LcObsOpenRet LcOpenOk true]
    | _ => []
    end
  | LcOWaitRet LcWSelected => [LcObsOpenRet LcOpenOk true]
  | LcOWaitRet LcWCtx => [LcObsOpenRet LcOpenErrCtx true]
  | LcOWaitRet LcWClosed => [LcObsOpenRet LcOpenErrClosed true]
  | LcOColdSpawn => [LcObsOpenRet LcOpenOk true]
  | LcOFailJoin => [LcObsOpenRet LcOpenErrStart true]
  | LcClose =>
    match lc_api s' with
    | LcIdle => if lc_hascur s then [lc_close_snapshot LcCloseRetained s'] else [LcObsCloseRet LcCloseNotOpen true 0 0 0 false]
    | _ => []
    end
  | LcClose7 => [lc_close_snapshot LcCloseOk s']
  | LcLPublish => if lc_hasloop s' then [LcObsPublish] else []
  | _ => []
  end.

Fixpoint Lifecycle_observe (s : Lifecycle_state) (acts : list Lifecycle_action) : list Lifecycle_obs :=
  match acts with
  | [] => []
  | a :: rest =>
    match Lifecycle_exec s a with
    | Some s' => Lifecycle_observe1 s a s' ++ Lifecycle_observe s' rest
    | None => []
    end
  end.

(** Monitor state: is the connection open as the API results imply ([lm_unknown]: calls have
    overlapped since the last solo result, so the monitor cannot tell), and has a calm Close
    returned with no Open call since. *)
Record lc_mon := LcMon { lm_open : bool; lm_unknown : bool; lm_closed : bool; lm_ok : bool }.
Definition lc_mon0 : lc_mon := LcMon false false false true.

Definition lc_mon_step (m : lc_mon) (o : Lifecycle_obs) : lc_mon :=
  match o with
  | LcObsOpenCall => LcMon (lm_open m) (lm_unknown m) false (lm_ok m)
  | LcObsOpenRet r solo =>
    match r with
    | LcOpenAlready =>
      LcMon (if solo then true else lm_open m) (negb solo) (lm_closed m)
            (lm_ok m && (negb solo || lm_unknown m || lm_open m))
    | LcOpenErrStart =>
      LcMon false (negb solo) (lm_closed m) (lm_ok m && (negb solo || lm_unknown m || negb (lm_open m)))
    | _ =>
      LcMon true (negb solo) (lm_closed m) (lm_ok m && (negb solo || lm_unknown m || negb (lm_open m)))
    end
  | LcObsCloseRet r calm g k l sel =>
    match r with
    | LcCloseNotOpen => LcMon (lm_open m) (lm_unknown m) (lm_closed m) (lm_ok m && (negb calm || lm_unknown m || negb (lm_open m)))
    | _ => if calm
           then LcMon false false true (lm_ok m && (g =? 0) && (k =? 0) && (l =? 0) && negb sel)
           else LcMon false true (lm_closed m) (lm_ok m)
    end
  | LcObsDial _ | LcObsPublish => LcMon (lm_open m) (lm_unknown m) (lm_closed m) (lm_ok m && negb (lm_closed m))
  | LcObsReconnects a b => LcMon (lm_open m) (lm_unknown m) (lm_closed m) (lm_ok m && (a =? b))
  | LcObsLoopCheck o nc cov => LcMon (lm_open m) (lm_unknown m) (lm_closed m) (lm_ok m && (negb (o && nc) || cov))
  end.

Definition lc_mon_run (l : list Lifecycle_obs) : lc_mon := fold_left lc_mon_step l lc_mon0.

(** C10: after every Close that returned (ok or retained) — no library goroutine, no socket or
    listener open, no reconnect loop, State() NotConnected, and no dial or publish until the next
    Open call; ErrAlreadyOpen exactly when the connection is open. C11 (safety half): no dial after
    Close, Reconnects() = successful re-dials, an open NotConnected connection is covered. *)
Definition ok_C10 (l : list Lifecycle_obs) : bool := lm_ok (lc_mon_run l).
Definition ok_C11 (l : list Lifecycle_obs) : bool := lm_ok (lc_mon_run l).
