(** Model of the E37 connection-state supervisor (hsms/supervisor.go) as a labelled transition
    system whose actions are the atomic steps of the code:

    - the three synchronous commits (one CAS on the state word + enqueue of the echo event),
      called from transport goroutines;
    - [Inject] of the three asynchronous events (disconnect / T7 expiry / close);
    - the supervisor goroutine's [step], split in two: [StepLoad] (dequeue, closed-latch test,
      load of the state word) and [StepFinish] (everything after the load: the stale-select-lost
      test, the transition table, the store or CAS, the deduped notification, the close latch) —
      so that any number of commits can land between the load and the store, exactly the window
      the code's [testHookAfterStateLoad] seam exposes;
    - [Deliver]: the notifier goroutine taking one notification off the buffer.

    Every action emits observable labels ([obs]); the property theorems are statements about the
    label sequences of ALL action lists. The transition table itself is NOT written here: it is
    [Gen.hsms.transition], regenerated from the Go source on every check (see Gen/BridgeSupervisor.v
    for the enum <-> Z bridge). *)
From Coq Require Import ZArith Bool List Lia.
Import ListNotations.

Inductive cstate := NC | NS | SEL.
Inductive event :=
| EvTCPUp | EvSelectAccepted | EvSelectLost | EvDisconnect | EvClose | EvT7
| EvUpC | EvSelAccC | EvSelLostC.   (* commit echoes: evTCPUpCommitted / evSelectAcceptedCommitted / evSelectLostCommitted *)

Scheme Equality for cstate.
Scheme Equality for event.

(** hsms.transition, hand-written twin (bridged to the generated one). *)
Definition transition (cur : cstate) (ev : event) : cstate * bool :=
  match ev, cur with
  | (EvTCPUp | EvUpC), (NC | NS) => (NS, true)
  | (EvSelectAccepted | EvSelAccC), (NS | SEL) => (SEL, true)
  | (EvSelectLost | EvSelLostC), (SEL | NS) => (NS, true)
  | EvDisconnect, (SEL | NS) => (NC, true)
  | EvT7, NS => (NC, true)
  | EvClose, _ => (NC, true)
  | _, _ => (cur, false)
  end.

(** The echo of a synchronous commit: enqueued AFTER the commit's CAS changed the state. The raw
    EvTCPUp / EvSelectAccepted / EvSelectLost remain in the table (unit tests inject them) but no
    production path — hence no action of this model — enqueues them. *)
Definition is_echo (ev : event) : bool :=
  match ev with EvUpC | EvSelAccC | EvSelLostC => true | _ => false end.

Definition is_upc (ev : event) : bool := match ev with EvUpC => true | _ => false end.

(** Events that enter through [inject] from outside the supervisor (TCPDown, T7Expired, requestClose). *)
Inductive inj := IDisconnect | IT7 | IClose.
Definition inj_event (i : inj) : event :=
  match i with IDisconnect => EvDisconnect | IT7 => EvT7 | IClose => EvClose end.

Inductive action :=
| CommitConnected | CommitSelected | CommitSelectLost
| Inject (i : inj)
| StepLoad | StepFinish
| Deliver.

Inductive cause := ByCommit | ByStep (ev : event).

Inductive obs :=
| Chg (old new : cstate) (c : cause)    (* the value State() returns changed *)
| Emit (prev next : cstate)             (* run() put a notification on the buffer *)
| Drop (prev next : cstate)             (* ... and coalesced (dropped) the oldest buffered one *)
| React (prev next : cstate)            (* the reaction callback ran *)
| Delivered (prev next : cstate)        (* the notifier handed one to the handlers *)
| Latched.                              (* the close latch was set *)

Record sup := {
  st : cstate;            (* atomic state word, closed bit masked out *)
  clbit : bool;           (* closed bit of the state word *)
  queue : list event;     (* events channel, FIFO (unbounded: a superset of the capped channel) *)
  pc : option (event * cstate);  (* step() between its load and its store: (event, loaded state) *)
  lastr : cstate;         (* lastReacted *)
  closed : bool;          (* run-owned close latch *)
  nbuf : list (cstate * cstate); (* notify channel *)
  dropped : nat
}.

Definition notify_cap : nat := 16.

Definition init : sup :=
  {| st := NC; clbit := false; queue := []; pc := None; lastr := NC; closed := false; nbuf := []; dropped := 0 |}.

Definition chg (old new : cstate) (c : cause) : list obs :=
  if cstate_beq old new then [] else [Chg old new c].

(** A commit: CAS(from -> to) on the whole word (fails when the closed bit is set), then enqueue. *)
Definition commit (from to : cstate) (ev : event) (s : sup) : sup * list obs :=
  if cstate_beq (st s) from && negb (clbit s) then
    ({| st := to; clbit := clbit s; queue := queue s ++ [ev]; pc := pc s; lastr := lastr s;
        closed := closed s; nbuf := nbuf s; dropped := dropped s |}, [Chg from to ByCommit])
  else (s, []).

(** emit: non-blocking drop-oldest send. *)
Definition emit_buf (b : list (cstate * cstate)) (x : cstate * cstate) : list (cstate * cstate) * list obs * nat :=
  if Nat.ltb (length b) notify_cap then (b ++ [x], [Emit (fst x) (snd x)], 0)
  else match b with
       | [] => ([x], [Emit (fst x) (snd x)], 0)
       | o :: r => (r ++ [x], [Drop (fst o) (snd o); Emit (fst x) (snd x)], 1)
       end.

(** fireTransition: notification before the reaction for a terminal NotConnected, after it otherwise. *)
Definition fire (b : list (cstate * cstate)) (prev next : cstate) : list (cstate * cstate) * list obs * nat :=
  let '(b', eo, d) := emit_buf b (prev, next) in
  (b', match next with NC => eo ++ [React prev next] | _ => React prev next :: eo end, d).

Definition step_finish (s : sup) (ev : event) (cur : cstate) : sup * list obs :=
  let s0 := {| st := st s; clbit := clbit s; queue := queue s; pc := None; lastr := lastr s;
               closed := closed s; nbuf := nbuf s; dropped := dropped s |} in
  if event_beq ev EvSelectLost && cstate_beq cur SEL then (s0, [])
  else if (event_beq ev EvDisconnect || event_beq ev EvT7) && existsb is_upc (queue s) then
    (* injected before a TCP-up commit whose echo is still queued behind it: a previous generation's *)
    (s0, [])
  else if is_echo ev then
    (* a commit echo never stores; it reports the state it announces iff that is still current *)
    let '(next, ok) := transition cur ev in
    if ok && cstate_beq next cur && negb (cstate_beq next (lastr s)) then
      let '(b', o2, d) := fire (nbuf s) (lastr s) next in
      ({| st := st s; clbit := clbit s; queue := queue s; pc := None; lastr := next;
          closed := closed s; nbuf := b'; dropped := dropped s + d |}, o2)
    else (s0, [])
  else
    let '(next, ok) := transition cur ev in
    (* the transition part; [None] = step returned early (T7 CAS lost the tie) *)
    let r : option (sup * list obs) :=
      if ok then
        let stored : option (cstate * list obs) :=
          if cstate_beq next cur then Some (st s, [])
          else if event_beq ev EvT7 then
                 (if cstate_beq (st s) cur && negb (clbit s) then Some (next, chg (st s) next (ByStep ev)) else None)
               else Some (next, chg (st s) next (ByStep ev)) in
        match stored with
        | None => None
        | Some (st', o1) =>
            if cstate_beq next (lastr s) then
              Some ({| st := st'; clbit := clbit s; queue := queue s; pc := None; lastr := lastr s;
                       closed := closed s; nbuf := nbuf s; dropped := dropped s |}, o1)
            else
              let '(b', o2, d) := fire (nbuf s) (lastr s) next in
              Some ({| st := st'; clbit := clbit s; queue := queue s; pc := None; lastr := next;
                       closed := closed s; nbuf := b'; dropped := dropped s + d |}, o1 ++ o2)
        end
      else Some (s0, []) in
    match r with
    | None => (s0, [])
    | Some (s1, o) =>
        if event_beq ev EvClose then
          ({| st := NC; clbit := true; queue := queue s1; pc := None; lastr := lastr s1;
              closed := true; nbuf := nbuf s1; dropped := dropped s1 |},
           o ++ chg (st s1) NC (ByStep EvClose) ++ [Latched])
        else (s1, o)
    end.

Definition exec (s : sup) (a : action) : sup * list obs :=
  match a with
  | CommitConnected => commit NC NS EvUpC s
  | CommitSelected => commit NS SEL EvSelAccC s
  | CommitSelectLost => commit SEL NS EvSelLostC s
  | Inject i =>
      ({| st := st s; clbit := clbit s; queue := queue s ++ [inj_event i]; pc := pc s; lastr := lastr s;
          closed := closed s; nbuf := nbuf s; dropped := dropped s |}, [])
  | StepLoad =>
      match pc s, queue s with
      | None, ev :: q =>
          if closed s then
            ({| st := st s; clbit := clbit s; queue := q; pc := None; lastr := lastr s;
                closed := closed s; nbuf := nbuf s; dropped := dropped s |}, [])
          else
            ({| st := st s; clbit := clbit s; queue := q; pc := Some (ev, st s); lastr := lastr s;
                closed := closed s; nbuf := nbuf s; dropped := dropped s |}, [])
      | _, _ => (s, [])
      end
  | StepFinish =>
      match pc s with
      | Some (ev, cur) => step_finish s ev cur
      | None => (s, [])
      end
  | Deliver =>
      match nbuf s with
      | x :: r =>
          ({| st := st s; clbit := clbit s; queue := queue s; pc := pc s; lastr := lastr s;
              closed := closed s; nbuf := r; dropped := dropped s |}, [Delivered (fst x) (snd x)])
      | [] => (s, [])
      end
  end.

(** Run an action list, collecting the labels. *)
Fixpoint run (s : sup) (acts : list action) : sup * list obs :=
  match acts with
  | [] => (s, [])
  | a :: rest =>
      let '(s1, o1) := exec s a in
      let '(s2, o2) := run s1 rest in
      (s2, o1 ++ o2)
  end.

(** * Monitors over label sequences (shared with the harness through extraction) *)

Definition legal_edge (a b : cstate) : bool :=
  match a, b with
  | NC, NS | NS, SEL | SEL, NS | NS, NC | SEL, NC => true
  | _, _ => false
  end.

(** One monitor, folded over the labels. Its state: the value State() last had, the [next] of the
    last emitted notification, the [next] of the last delivered one, whether a coalesce (drop) was
    reported since that delivery, whether the close latch is set. *)
Record mon := { m_st : cstate; m_emit : cstate; m_dlv : cstate; m_gap : bool; m_latched : bool }.
Definition mon0 : mon := {| m_st := NC; m_emit := NC; m_dlv := NC; m_gap := false; m_latched := false |}.

Definition mon_step (m : mon) (o : obs) : option mon :=
  match o with
  | Chg a b c =>
      (* a legal edge from the current value; never after the close latch; a T7 expiry never
         moves State() out of Selected *)
      if cstate_beq a (m_st m) && legal_edge a b && negb (m_latched m)
         && match c with ByStep EvT7 => negb (cstate_beq a SEL) | _ => true end
      then Some {| m_st := b; m_emit := m_emit m; m_dlv := m_dlv m; m_gap := m_gap m; m_latched := m_latched m |}
      else None
  | Emit a b =>
      (* chained from the previous emission, never a self-transition, never after the latch *)
      if cstate_beq a (m_emit m) && negb (cstate_beq a b) && negb (m_latched m)
      then Some {| m_st := m_st m; m_emit := b; m_dlv := m_dlv m; m_gap := m_gap m; m_latched := m_latched m |}
      else None
  | Drop _ _ => Some {| m_st := m_st m; m_emit := m_emit m; m_dlv := m_dlv m; m_gap := true; m_latched := m_latched m |}
  | Delivered a b =>
      (* chained unless a coalesce was reported since the previous delivery; never a self-transition *)
      if (m_gap m || cstate_beq a (m_dlv m)) && negb (cstate_beq a b)
      then Some {| m_st := m_st m; m_emit := m_emit m; m_dlv := b; m_gap := false; m_latched := m_latched m |}
      else None
  | React _ _ => Some m
  | Latched => Some {| m_st := m_st m; m_emit := m_emit m; m_dlv := m_dlv m; m_gap := m_gap m; m_latched := true |}
  end.

Fixpoint mon_run (m : mon) (l : list obs) : option mon :=
  match l with
  | [] => Some m
  | o :: r => match mon_step m o with Some m' => mon_run m' r | None => None end
  end.

Definition ok_C05 (l : list obs) : bool :=
  match mon_run mon0 l with Some _ => true | None => false end.

(** processing a commit echo never changes State() (no replay, no undo) *)
Fixpoint ok_no_replay (l : list obs) : bool :=
  match l with
  | [] => true
  | Chg _ _ (ByStep ev) :: r => negb (is_echo ev) && ok_no_replay r
  | _ :: r => ok_no_replay r
  end.

