(** Proofs about Hsms/Reader.v: segmentation independence, the idle / T8 policy, the length guard,
    and agreement with the reference frame parser. *)
From Coq Require Import ZArith Bool List Lia ZifyBool.
From GoSecs Require Import Hsms.Header Hsms.HeaderProofs Hsms.FrameProofs Hsms.Reader.
Import ListNotations.
Open Scope Z_scope.

(** ** simulation: two reader states that differ at most in the clock of an idle wait *)
Lemma started_ph s s' : ph s = ph s' -> started s = started s'.
Proof. unfold started. intros ->. reflexivity. Qed.

Lemma step_byte_dead cap s b : alive s = false -> step_byte cap s b = (s, []).
Proof. intros H. unfold step_byte. rewrite H. reflexivity. Qed.

(** dead states are absorbing and silent, so the clock of a dead state is irrelevant: we use a
    simulation that only constrains live states *)
Definition simL (s s' : rstate) : Prop :=
  alive s = alive s' /\ (alive s = true -> ph s = ph s' /\ (started s = true -> since s = since s')).

Lemma simL_refl s : simL s s.
Proof. split; auto. Qed.

Lemma step_byte_simL cap s s' b :
  simL s s' ->
  snd (step_byte cap s b) = snd (step_byte cap s' b) /\ simL (fst (step_byte cap s b)) (fst (step_byte cap s' b)).
Proof.
  intros [A L]. unfold step_byte. rewrite <- A.
  destruct (alive s) eqn:Al; cbn [negb].
  - destruct (L eq_refl) as [P _]. rewrite <- P.
    split; [reflexivity|]. apply simL_refl.
  - cbn [fst snd]. split; [reflexivity|]. split; [congruence|]. intros H. congruence.
Qed.

Lemma feed_simL cap : forall bs s s',
  simL s s' ->
  snd (feed cap s bs) = snd (feed cap s' bs) /\ simL (fst (feed cap s bs)) (fst (feed cap s' bs)).
Proof.
  induction bs as [|b bs IH]; intros s s' S; cbn [feed].
  - cbn [fst snd]. split; [reflexivity|exact S].
  - destruct (step_byte_simL cap s s' b S) as [E1 S1].
    destruct (step_byte cap s b) as [s1 e1], (step_byte cap s' b) as [s1' e1']. cbn [fst snd] in *.
    destruct (IH s1 s1' S1) as [E2 S2].
    destruct (feed cap s1 bs) as [s2 e2], (feed cap s1' bs) as [s2' e2']. cbn [fst snd] in *.
    split; [congruence|exact S2].
Qed.

Lemma wait_simL t8 s s' g :
  simL s s' ->
  snd (wait t8 s g) = snd (wait t8 s' g) /\ simL (fst (wait t8 s g)) (fst (wait t8 s' g)).
Proof.
  intros [A L]. unfold wait. rewrite <- A.
  destruct (alive s) eqn:Al; cbn [negb].
  - destruct (L eq_refl) as [P T]. rewrite <- (started_ph s s' P).
    destruct (started s) eqn:St; cbn [andb].
    + rewrite <- (T eq_refl). rewrite <- P.
      destruct (since s + g >? t8); cbn [fst snd]; (split; [reflexivity|apply simL_refl]).
    + cbn [fst snd]. split; [reflexivity|]. split; [reflexivity|]. intros _. cbn [ph]. split; [exact P|].
      unfold started. cbn [ph]. unfold started in St. rewrite St. discriminate.
  - cbn [fst snd]. split; [reflexivity|]. split; [congruence|]. intros H. congruence.
Qed.

Lemma arrive_dead s : alive s = false -> arrive s = s.
Proof. intros H. unfold arrive. rewrite H. reflexivity. Qed.
Lemma arrive_alive s : alive (arrive s) = alive s.
Proof. unfold arrive. destruct (alive s) eqn:A; [reflexivity|exact A]. Qed.
Lemma arrive_ph s : ph (arrive s) = ph s.
Proof. unfold arrive. destruct (alive s); reflexivity. Qed.
Lemma arrive_since s : alive s = true -> since (arrive s) = 0.
Proof. intros A. unfold arrive. rewrite A. reflexivity. Qed.

Lemma arrive_simL s s' : simL s s' -> simL (arrive s) (arrive s').
Proof.
  intros [A L]. split; [rewrite !arrive_alive; exact A|]. rewrite arrive_alive. intros H.
  destruct (L H) as [P _]. rewrite !arrive_ph. split; [exact P|].
  intros _. rewrite !arrive_since by congruence. reflexivity.
Qed.

Lemma step_seg_simL t8 cap s s' seg :
  simL s s' ->
  snd (step_seg t8 cap s seg) = snd (step_seg t8 cap s' seg) /\
  simL (fst (step_seg t8 cap s seg)) (fst (step_seg t8 cap s' seg)).
Proof.
  intros S. unfold step_seg.
  destruct (wait_simL t8 s s' (fst seg) S) as [E1 S1].
  destruct (wait t8 s (fst seg)) as [s1 e1], (wait t8 s' (fst seg)) as [s1' e1']. cbn [fst snd] in *.
  destruct (feed_simL cap (snd seg) (arrive s1) (arrive s1') (arrive_simL _ _ S1)) as [E2 S2].
  destruct (feed cap (arrive s1) (snd seg)) as [s2 e2], (feed cap (arrive s1') (snd seg)) as [s2' e2']. cbn [fst snd] in *.
  split; [congruence|exact S2].
Qed.

Lemma run_segs_simL t8 cap : forall segs s s',
  simL s s' ->
  snd (run_segs t8 cap s segs) = snd (run_segs t8 cap s' segs) /\
  simL (fst (run_segs t8 cap s segs)) (fst (run_segs t8 cap s' segs)).
Proof.
  induction segs as [|seg segs IH]; intros s s' S; cbn [run_segs].
  - cbn [fst snd]. split; [reflexivity|exact S].
  - destruct (step_seg_simL t8 cap s s' seg S) as [E1 S1].
    destruct (step_seg t8 cap s seg) as [s1 e1], (step_seg t8 cap s' seg) as [s1' e1']. cbn [fst snd] in *.
    destruct (IH s1 s1' S1) as [E2 S2].
    destruct (run_segs t8 cap s1 segs) as [s2 e2], (run_segs t8 cap s1' segs) as [s2' e2']. cbn [fst snd] in *.
    split; [congruence|exact S2].
Qed.

Lemma finish_simL t8 s s' f : simL s s' -> finish t8 s f = finish t8 s' f.
Proof.
  intros [A L]. unfold finish. rewrite <- A. destruct (alive s) eqn:Al; cbn [negb]; [|reflexivity].
  destruct (L eq_refl) as [P T]. rewrite <- (started_ph s s' P).
  destruct f as [g|]; [|reflexivity].
  destruct (started s) eqn:St; cbn [andb]; [|reflexivity]. rewrite <- (T eq_refl). reflexivity.
Qed.

(** ** composition *)
Lemma feed_app cap : forall a b s,
  feed cap s (a ++ b) =
  let '(s1, e1) := feed cap s a in let '(s2, e2) := feed cap s1 b in (s2, e1 ++ e2).
Proof.
  induction a as [|x a IH]; intros b s; cbn [feed app].
  - destruct (feed cap s b); reflexivity.
  - destruct (step_byte cap s x) as [s1 e1]. rewrite IH.
    destruct (feed cap s1 a) as [s2 e2]. destruct (feed cap s2 b) as [s3 e3].
    rewrite app_assoc. reflexivity.
Qed.

Lemma run_segs_app t8 cap : forall a b s,
  run_segs t8 cap s (a ++ b) =
  let '(s1, e1) := run_segs t8 cap s a in let '(s2, e2) := run_segs t8 cap s1 b in (s2, e1 ++ e2).
Proof.
  induction a as [|x a IH]; intros b s; cbn [run_segs app].
  - destruct (run_segs t8 cap s b); reflexivity.
  - destruct (step_seg t8 cap s x) as [s1 e1]. rewrite IH.
    destruct (run_segs t8 cap s1 a) as [s2 e2]. destruct (run_segs t8 cap s2 b) as [s3 e3].
    rewrite app_assoc. reflexivity.
Qed.

(** ** dead is absorbing and silent *)
Lemma feed_dead cap : forall bs s, alive s = false -> feed cap s bs = (s, []).
Proof.
  induction bs as [|b bs IH]; intros s H; cbn [feed]; [reflexivity|].
  rewrite step_byte_dead by exact H. rewrite IH by exact H. reflexivity.
Qed.
Lemma wait_dead t8 s g : alive s = false -> wait t8 s g = (s, []).
Proof. intros H. unfold wait. rewrite H. reflexivity. Qed.
Lemma run_segs_dead t8 cap : forall segs s, alive s = false -> run_segs t8 cap s segs = (s, []).
Proof.
  induction segs as [|seg segs IH]; intros s H; cbn [run_segs]; [reflexivity|].
  unfold step_seg. rewrite wait_dead by exact H. rewrite arrive_dead by exact H.
  rewrite feed_dead by exact H. rewrite IH by exact H. reflexivity.
Qed.
Lemma finish_dead t8 s f : alive s = false -> finish t8 s f = [].
Proof. intros H. unfold finish. rewrite H. reflexivity. Qed.

(** ** T8 drops come only from waiting *)
Lemma has_t8_app a b : has_t8_drop (a ++ b) = has_t8_drop a || has_t8_drop b.
Proof. unfold has_t8_drop. apply existsb_app. Qed.

Lemma step_byte_no_t8 cap s b : has_t8_drop (snd (step_byte cap s b)) = false.
Proof.
  unfold step_byte. destruct (negb (alive s)); [reflexivity|].
  destruct (ph s) as [acc|need acc].
  - destruct acc as [|b2 [|b1 [|b0 [|x acc]]]]; try reflexivity.
    destruct (de32 b0 b1 b2 b <? 10); [reflexivity|].
    destruct (de32 b0 b1 b2 b >? cap); reflexivity.
  - destruct (need <=? 1); reflexivity.
Qed.
Lemma feed_no_t8 cap : forall bs s, has_t8_drop (snd (feed cap s bs)) = false.
Proof.
  induction bs as [|b bs IH]; intros s; cbn [feed]; [reflexivity|].
  pose proof (step_byte_no_t8 cap s b) as H1. destruct (step_byte cap s b) as [s1 e1].
  specialize (IH s1). destruct (feed cap s1 bs) as [s2 e2]. cbn [snd] in *.
  rewrite has_t8_app, H1, IH. reflexivity.
Qed.

(** a wait without a T8 drop changes nothing but the clock *)
Lemma wait_quiet t8 s g :
  has_t8_drop (snd (wait t8 s g)) = false ->
  snd (wait t8 s g) = [] /\ alive (fst (wait t8 s g)) = alive s /\ ph (fst (wait t8 s g)) = ph s.
Proof.
  unfold wait. destruct (negb (alive s)) eqn:A; [intros _; repeat split; reflexivity|].
  destruct (started s && (since s + g >? t8)); cbn [fst snd]; [discriminate|].
  intros _. repeat split; try reflexivity. cbn [alive]. destruct (alive s); [reflexivity|discriminate].
Qed.

(** ** the untimed machine: feeding the whole stream from a state with the same parse position *)
Definition same_pos (s s0 : rstate) : Prop := alive s = alive s0 /\ (alive s = true -> ph s = ph s0).

Lemma step_byte_pos cap s s0 b :
  same_pos s s0 ->
  snd (step_byte cap s b) = snd (step_byte cap s0 b) /\ same_pos (fst (step_byte cap s b)) (fst (step_byte cap s0 b)).
Proof.
  intros [A P]. unfold step_byte. rewrite <- A. destruct (alive s) eqn:Al; cbn [negb].
  - rewrite <- (P eq_refl). split; [reflexivity|]. split; [reflexivity|]. intros _. reflexivity.
  - cbn [fst snd]. split; [reflexivity|]. split; [congruence|]. intros H. congruence.
Qed.
Lemma feed_pos cap : forall bs s s0,
  same_pos s s0 ->
  snd (feed cap s bs) = snd (feed cap s0 bs) /\ same_pos (fst (feed cap s bs)) (fst (feed cap s0 bs)).
Proof.
  induction bs as [|b bs IH]; intros s s0 S; cbn [feed].
  - cbn [fst snd]. split; [reflexivity|exact S].
  - destruct (step_byte_pos cap s s0 b S) as [E1 S1].
    destruct (step_byte cap s b) as [s1 e1], (step_byte cap s0 b) as [s1' e1']. cbn [fst snd] in *.
    destruct (IH s1 s1' S1) as [E2 S2].
    destruct (feed cap s1 bs) as [s2 e2], (feed cap s1' bs) as [s2' e2']. cbn [fst snd] in *.
    split; [congruence|exact S2].
Qed.

(** Segmentation independence, core form: a timed run that suffers no T8 drop produces exactly
    the events of the untimed machine on the concatenated stream, and ends at the same parse
    position — whatever the cut points and gaps were. *)
Lemma run_segs_untimed t8 cap : forall segs s s0,
  same_pos s s0 ->
  has_t8_drop (snd (run_segs t8 cap s segs)) = false ->
  snd (run_segs t8 cap s segs) = snd (feed cap s0 (stream_of_segs segs)) /\
  same_pos (fst (run_segs t8 cap s segs)) (fst (feed cap s0 (stream_of_segs segs))).
Proof.
  induction segs as [|[g bs] segs IH]; intros s s0 S Q.
  - cbn. split; [reflexivity|exact S].
  - cbn [run_segs] in *. unfold step_seg in *. cbn [fst snd] in *.
    unfold stream_of_segs. cbn [map concat snd]. fold (stream_of_segs segs).
    rewrite feed_app.
    pose proof (wait_quiet t8 s g) as W.
    destruct (wait t8 s g) as [s1 e1]. cbn [fst snd] in *.
    pose proof (feed_no_t8 cap bs (arrive s1)) as F.
    destruct (feed cap (arrive s1) bs) as [s2 e2] eqn:E2. cbn [fst snd] in *.
    destruct (run_segs t8 cap s2 segs) as [s3 e3] eqn:E3. cbn [fst snd] in *.
    rewrite !has_t8_app in Q. apply orb_false_iff in Q. destruct Q as [Q1 Q3].
    apply orb_false_iff in Q1. destruct Q1 as [Q1 Q2].
    destruct (W Q1) as (-> & A1 & P1).
    assert (S1 : same_pos (arrive s1) s0).
    { destruct S as [A P]. split; [rewrite arrive_alive; congruence|]. rewrite arrive_alive, arrive_ph.
      intros H. rewrite P1. apply P. congruence. }
    destruct (feed_pos cap bs (arrive s1) s0 S1) as [Ef Sf]. rewrite E2 in Ef, Sf. cbn [fst snd] in *.
    destruct (feed cap s0 bs) as [s2' e2'] eqn:E2'. cbn [fst snd] in *.
    specialize (IH s2 s2' Sf). rewrite E3 in IH. cbn [fst snd] in IH. destruct (IH Q3) as [Er Sr].
    destruct (feed cap s2' (stream_of_segs segs)) as [s3' e3']. cbn [fst snd] in *.
    split; [cbn [app]; congruence|exact Sr].
Qed.

(** pairwise form *)
Lemma segmentation_independent t8 cap segs segs' :
  stream_of_segs segs = stream_of_segs segs' ->
  has_t8_drop (snd (run_segs t8 cap rinit segs)) = false ->
  has_t8_drop (snd (run_segs t8 cap rinit segs')) = false ->
  snd (run_segs t8 cap rinit segs) = snd (run_segs t8 cap rinit segs') /\
  same_pos (fst (run_segs t8 cap rinit segs)) (fst (run_segs t8 cap rinit segs')).
Proof.
  intros E Q Q'.
  destruct (run_segs_untimed t8 cap segs rinit rinit (conj eq_refl (fun _ => eq_refl)) Q) as [E1 S1].
  destruct (run_segs_untimed t8 cap segs' rinit rinit (conj eq_refl (fun _ => eq_refl)) Q') as [E2 S2].
  rewrite E in *. split; [congruence|].
  destruct S1 as [A1 P1], S2 as [A2 P2]. split; [congruence|].
  intros H. rewrite P1 by exact H. rewrite P2; [reflexivity|congruence].
Qed.

(** a sufficient, purely syntactic condition for "no T8 drop": every gap at most T8 and no empty
    segment (so the clock restarts at every segment) *)
Lemma step_byte_since cap s b :
  alive (fst (step_byte cap s b)) = true -> since (fst (step_byte cap s b)) = 0.
Proof.
  unfold step_byte. destruct (alive s) eqn:Al; cbn [negb]; [|cbn [fst]; congruence].
  destruct (ph s) as [acc|need acc].
  - destruct acc as [|b2 [|b1 [|b0 [|x acc]]]]; try (intros _; reflexivity).
    destruct (de32 b0 b1 b2 b <? 10); [cbn; discriminate|].
    destruct (de32 b0 b1 b2 b >? cap); [cbn; discriminate|intros _; reflexivity].
  - destruct (need <=? 1); intros _; reflexivity.
Qed.

Lemma feed_since cap : forall bs s, bs <> [] -> alive (fst (feed cap s bs)) = true -> since (fst (feed cap s bs)) = 0.
Proof.
  induction bs as [|b bs IH]; intros s N A; [congruence|]. cbn [feed] in *.
  pose proof (step_byte_since cap s b) as H1.
  destruct (step_byte cap s b) as [s1 e1]. cbn [fst] in H1.
  destruct bs as [|b' bs'].
  - cbn [feed fst] in *. apply H1. exact A.
  - specialize (IH s1 ltac:(discriminate)).
    destruct (feed cap s1 (b' :: bs')) as [s2 e2]. cbn [fst] in *. apply IH. exact A.
Qed.

Lemma feed_since0 cap bs s :
  (alive s = true -> since s = 0) -> alive (fst (feed cap s bs)) = true -> since (fst (feed cap s bs)) = 0.
Proof.
  intros I A. destruct bs as [|b bs].
  - cbn [feed fst] in *. apply I. exact A.
  - apply feed_since; [discriminate|exact A].
Qed.

(** every Read return (even an empty one) re-arms the deadline, so gaps of at most T8 between
    consecutive Read returns can never produce a T8 drop *)
Lemma small_gaps_quiet t8 cap : forall segs s,
  (alive s = true -> started s = true -> since s = 0) ->
  Forall (fun seg => fst seg <= t8) segs ->
  has_t8_drop (snd (run_segs t8 cap s segs)) = false.
Proof.
  induction segs as [|[g bs] segs IH]; intros s I F; [reflexivity|].
  inversion F as [|? ? G F']; subst. cbn [fst snd] in *.
  cbn [run_segs]. unfold step_seg. cbn [fst snd].
  assert (W : snd (wait t8 s g) = [] /\ alive (fst (wait t8 s g)) = alive s).
  { unfold wait. destruct (alive s) eqn:A; cbn [negb]; [|split; [reflexivity|exact A]].
    destruct (started s) eqn:St; cbn [andb].
    - rewrite (I eq_refl eq_refl). replace (0 + g >? t8) with false by lia. split; reflexivity.
    - split; reflexivity. }
  destruct (wait t8 s g) as [s1 e1]. cbn [fst snd] in W. destruct W as [-> A1].
  pose proof (feed_no_t8 cap bs (arrive s1)) as Fq.
  assert (I1 : alive (arrive s1) = true -> since (arrive s1) = 0).
  { rewrite arrive_alive. apply arrive_since. }
  pose proof (feed_since0 cap bs (arrive s1) I1) as Fs.
  destruct (feed cap (arrive s1) bs) as [s2 e2]. cbn [fst snd] in *.
  specialize (IH s2 (fun A _ => Fs A) F').
  destruct (run_segs t8 cap s2 segs) as [s3 e3]. cbn [fst snd] in *.
  cbn [app]. rewrite has_t8_app, Fq, IH. reflexivity.
Qed.

Lemma small_gaps_quiet_init t8 cap segs :
  Forall (fun seg => fst seg <= t8) segs ->
  has_t8_drop (snd (run_segs t8 cap rinit segs)) = false.
Proof. apply small_gaps_quiet. intros _ H. discriminate H. Qed.

(** ** idle gaps and in-frame stalls *)
(** between frames any wait is harmless, for any duration *)
Lemma idle_wait t8 s g :
  alive s = true -> started s = false -> wait t8 s g = (mkR true (ph s) (since s + g), []).
Proof. intros A St. unfold wait. rewrite A, St. reflexivity. Qed.

(** ... so the length of an idle gap does not influence anything that follows *)
Lemma idle_gap_irrelevant t8 cap pre g g' bs rest f :
  let s := fst (run_segs t8 cap rinit pre) in
  alive s = true -> started s = false ->
  run t8 cap (pre ++ (g, bs) :: rest) f = run t8 cap (pre ++ (g', bs) :: rest) f.
Proof.
  cbn zeta. intros A St. unfold run. rewrite !run_segs_app.
  destruct (run_segs t8 cap rinit pre) as [s e0]. cbn [fst] in *.
  cbn [run_segs]. unfold step_seg. cbn [fst snd]. rewrite !idle_wait by assumption.
  assert (S1 : simL (mkR true (ph s) (since s + g)) (mkR true (ph s) (since s + g'))).
  { split; [reflexivity|]. intros _. split; [reflexivity|]. unfold started in *. cbn [ph]. rewrite St. discriminate. }
  destruct (feed_simL cap bs _ _ (arrive_simL _ _ S1)) as [E2 S2].
  destruct (feed cap (arrive (mkR true (ph s) (since s + g))) bs) as [s2 e2].
  destruct (feed cap (arrive (mkR true (ph s) (since s + g'))) bs) as [s2' e2']. cbn [fst snd] in *.
  destruct (run_segs_simL t8 cap rest s2 s2' S2) as [E3 S3].
  destruct (run_segs t8 cap s2 rest) as [s3 e3], (run_segs t8 cap s2' rest) as [s3' e3']. cbn [fst snd] in *.
  rewrite (finish_simL t8 s3 s3' f S3). congruence.
Qed.

(** a Read that returns no byte while the link is idle is a no-op: it does not start a frame, so
    whatever follows — in particular an idle gap of any length — behaves as if it had not happened *)
Lemma empty_read_idle t8 cap pre g rest f :
  let s := fst (run_segs t8 cap rinit pre) in
  alive s = true -> started s = false ->
  run t8 cap (pre ++ (g, []) :: rest) f = run t8 cap (pre ++ rest) f.
Proof.
  cbn zeta. intros A St. unfold run. rewrite !run_segs_app.
  destruct (run_segs t8 cap rinit pre) as [s e0]. cbn [fst] in *.
  cbn [run_segs]. unfold step_seg. cbn [fst snd]. rewrite idle_wait by assumption.
  unfold arrive. cbn [alive ph feed app].
  assert (S1 : simL (mkR true (ph s) 0) s).
  { split; [cbn; congruence|]. intros _. split; [reflexivity|]. unfold started in *. cbn [ph]. rewrite St. discriminate. }
  destruct (run_segs_simL t8 cap rest _ _ S1) as [E3 S3].
  destruct (run_segs t8 cap (mkR true (ph s) 0) rest) as [s3 e3], (run_segs t8 cap s rest) as [s3' e3']. cbn [fst snd] in *.
  rewrite (finish_simL t8 s3 s3' f S3). congruence.
Qed.

(** inside a frame a wait longer than T8 drops the link right there: exactly the events produced
    before, then the drop, then nothing *)
Lemma stall_drops t8 cap pre g bs rest f :
  let s := fst (run_segs t8 cap rinit pre) in
  alive s = true -> started s = true -> since s + g > t8 ->
  run t8 cap (pre ++ (g, bs) :: rest) f = snd (run_segs t8 cap rinit pre) ++ [EvDrop DT8].
Proof.
  cbn zeta. intros A St G. unfold run. rewrite run_segs_app.
  destruct (run_segs t8 cap rinit pre) as [s e0]. cbn [fst snd] in *.
  cbn [run_segs]. unfold step_seg. cbn [fst snd]. unfold wait. rewrite A, St. cbn [negb andb].
  replace (since s + g >? t8) with true by lia.
  rewrite arrive_dead by reflexivity. rewrite feed_dead by reflexivity. rewrite run_segs_dead by reflexivity.
  rewrite finish_dead by reflexivity. rewrite !app_nil_r. reflexivity.
Qed.

(** the same at the end of the script *)
Lemma finish_cases t8 s f :
  alive s = true ->
  finish t8 s f =
  match f with
  | FinEof g => if started s && (since s + g >? t8) then [EvDrop DT8] else [EvDrop DEof]
  | FinSilent => if started s then [EvDrop DT8] else [EvIdle]
  end.
Proof. intros A. unfold finish. rewrite A. reflexivity. Qed.

(** ** the length guard *)
Definition alloc_ok (cap : Z) (e : event) : Prop :=
  match e with EvAlloc n => 10 <= n <= cap | _ => True end.

Lemma step_byte_alloc_ok cap s b : Forall (alloc_ok cap) (snd (step_byte cap s b)).
Proof.
  unfold step_byte. destruct (negb (alive s)); [constructor|].
  destruct (ph s) as [acc|need acc].
  - destruct acc as [|b2 [|b1 [|b0 [|x acc]]]]; try constructor.
    destruct (de32 b0 b1 b2 b <? 10) eqn:N1; [repeat constructor|].
    destruct (de32 b0 b1 b2 b >? cap) eqn:N2; repeat constructor; cbn; lia.
  - destruct (need <=? 1); repeat constructor.
Qed.
Lemma feed_alloc_ok cap : forall bs s, Forall (alloc_ok cap) (snd (feed cap s bs)).
Proof.
  induction bs as [|b bs IH]; intros s; cbn [feed]; [constructor|].
  pose proof (step_byte_alloc_ok cap s b) as H1. destruct (step_byte cap s b) as [s1 e1].
  specialize (IH s1). destruct (feed cap s1 bs) as [s2 e2]. cbn [snd] in *.
  apply Forall_app. split; assumption.
Qed.
Lemma wait_alloc_ok cap t8 s g : Forall (alloc_ok cap) (snd (wait t8 s g)).
Proof.
  unfold wait. destruct (negb (alive s)); [constructor|].
  destruct (started s && (since s + g >? t8)); repeat constructor.
Qed.
Lemma run_segs_alloc_ok t8 cap : forall segs s, Forall (alloc_ok cap) (snd (run_segs t8 cap s segs)).
Proof.
  induction segs as [|seg segs IH]; intros s; cbn [run_segs]; [constructor|].
  unfold step_seg.
  pose proof (wait_alloc_ok cap t8 s (fst seg)) as H1. destruct (wait t8 s (fst seg)) as [s1 e1].
  pose proof (feed_alloc_ok cap (snd seg) (arrive s1)) as H2. destruct (feed cap (arrive s1) (snd seg)) as [s2 e2].
  specialize (IH s2). destruct (run_segs t8 cap s2 segs) as [s3 e3]. cbn [snd] in *.
  repeat (apply Forall_app; split); assumption.
Qed.
Lemma finish_alloc_ok cap t8 s f : Forall (alloc_ok cap) (finish t8 s f).
Proof.
  unfold finish. destruct (negb (alive s)); [constructor|].
  destruct f as [g|].
  - destruct (started s && (since s + g >? t8)); repeat constructor.
  - destruct (started s); repeat constructor.
Qed.

(** every allocation request, in every run over every byte stream and timing, is within
    [10, cap]: a claimed length outside the range never reaches the allocator *)
Lemma run_alloc_ok t8 cap segs f : Forall (alloc_ok cap) (run t8 cap segs f).
Proof.
  unfold run. pose proof (run_segs_alloc_ok t8 cap segs rinit) as H.
  destruct (run_segs t8 cap rinit segs) as [s ev]. cbn [snd] in H.
  apply Forall_app. split; [exact H|apply finish_alloc_ok].
Qed.

(** ** stepping through a frame *)
Lemma step_byte_len_short cap s b acc :
  alive s = true -> ph s = PLen acc -> (length acc < 3)%nat ->
  step_byte cap s b = (mkR true (PLen (b :: acc)) 0, []).
Proof.
  intros A P L. unfold step_byte. rewrite A, P. cbn [negb].
  destruct acc as [|b2 [|b1 [|b0 acc]]]; try reflexivity. cbn [length] in L. lia.
Qed.

Lemma step_byte_len_full cap s b b0 b1 b2 :
  alive s = true -> ph s = PLen [b2; b1; b0] ->
  step_byte cap s b =
  let n := de32 b0 b1 b2 b in
  if n <? 10 then (mkR false (PLen [b; b2; b1; b0]) 0, [EvDrop DLenSmall])
  else if n >? cap then (mkR false (PLen [b; b2; b1; b0]) 0, [EvDrop DLenBig])
  else (mkR true (PBody n []) 0, [EvAlloc n]).
Proof. intros A P. unfold step_byte. rewrite A, P. reflexivity. Qed.

(** the four length bytes, from an idle position *)
Lemma feed_prefix cap s b0 b1 b2 b3 rest :
  alive s = true -> ph s = PLen [] ->
  feed cap s (b0 :: b1 :: b2 :: b3 :: rest) =
  let n := de32 b0 b1 b2 b3 in
  if n <? 10 then (mkR false (PLen [b3; b2; b1; b0]) 0, [EvDrop DLenSmall])
  else if n >? cap then (mkR false (PLen [b3; b2; b1; b0]) 0, [EvDrop DLenBig])
  else let '(s', ev) := feed cap (mkR true (PBody n []) 0) rest in (s', EvAlloc n :: ev).
Proof.
  intros A P. cbn [feed].
  rewrite (step_byte_len_short cap s b0 []) by (auto; cbn; lia).
  rewrite (step_byte_len_short cap _ b1 [b0]) by (auto; cbn; lia).
  rewrite (step_byte_len_short cap _ b2 [b1; b0]) by (auto; cbn; lia).
  rewrite (step_byte_len_full cap _ b3 b0 b1 b2) by reflexivity.
  cbn zeta. destruct (de32 b0 b1 b2 b3 <? 10).
  - rewrite feed_dead by reflexivity. reflexivity.
  - destruct (de32 b0 b1 b2 b3 >? cap).
    + rewrite feed_dead by reflexivity. reflexivity.
    + destruct (feed cap (mkR true (PBody (de32 b0 b1 b2 b3) []) 0) rest). reflexivity.
Qed.

Lemma feed_body_short cap : forall bs s need acc,
  alive s = true -> ph s = PBody need acc -> len bs < need ->
  snd (feed cap s bs) = [] /\ alive (fst (feed cap s bs)) = true /\
  ph (fst (feed cap s bs)) = PBody (need - len bs) (rev bs ++ acc).
Proof.
  induction bs as [|b bs IH]; intros s need acc A P L.
  - cbn [feed fst snd rev app]. rewrite len_nil, Z.sub_0_r. auto.
  - rewrite len_cons in L. pose proof (len_nonneg bs) as Hb. cbn [feed].
    unfold step_byte. rewrite A, P. cbn [negb]. replace (need <=? 1) with false by lia.
    destruct (IH (mkR true (PBody (need - 1) (b :: acc)) 0) (need - 1) (b :: acc) eq_refl eq_refl ltac:(lia))
      as (E & A' & P').
    destruct (feed cap (mkR true (PBody (need - 1) (b :: acc)) 0) bs) as [s2 e2]. cbn [fst snd] in *.
    subst e2. split; [reflexivity|]. split; [exact A'|].
    rewrite P', len_cons. cbn [rev]. rewrite <- app_assoc. cbn [app]. f_equal. lia.
Qed.

Lemma feed_body_exact cap : forall bs s need acc,
  alive s = true -> ph s = PBody need acc -> len bs = need -> 1 <= need ->
  snd (feed cap s bs) = [EvFrame (rev acc ++ bs)] /\ alive (fst (feed cap s bs)) = true /\
  ph (fst (feed cap s bs)) = PLen [] .
Proof.
  induction bs as [|b bs IH]; intros s need acc A P L N.
  - rewrite len_nil in L. lia.
  - rewrite len_cons in L. pose proof (len_nonneg bs) as Hb. cbn [feed].
    unfold step_byte. rewrite A, P. cbn [negb].
    destruct bs as [|b' bs'].
    + rewrite len_nil in L. replace (need <=? 1) with true by lia. cbn [feed fst snd rev app].
      repeat split; reflexivity.
    + rewrite len_cons in L, Hb. pose proof (len_nonneg bs').
      replace (need <=? 1) with false by lia.
      destruct (IH (mkR true (PBody (need - 1) (b :: acc)) 0) (need - 1) (b :: acc) eq_refl eq_refl
                   ltac:(rewrite len_cons; lia) ltac:(lia)) as (E & A' & P').
      destruct (feed cap (mkR true (PBody (need - 1) (b :: acc)) 0) (b' :: bs')) as [s2 e2]. cbn [fst snd] in *.
      subst e2. split; [|split; assumption]. cbn [rev app]. rewrite <- app_assoc. reflexivity.
Qed.

(** ** the machine computes the reference semantics *)
Lemma len_firstn_le (l : list Z) n : 0 <= n <= len l -> len (firstn (Z.to_nat n) l) = n.
Proof. intros H. unfold len in *. rewrite firstn_length. lia. Qed.

Lemma feed_spec cap : forall fuel bs s,
  (length bs < fuel)%nat -> alive s = true -> ph s = PLen [] ->
  snd (feed cap s bs) = fst (spec_parse fuel cap bs) /\
  match snd (spec_parse fuel cap bs) with
  | None => alive (fst (feed cap s bs)) = false
  | Some TBoundary => alive (fst (feed cap s bs)) = true /\ ph (fst (feed cap s bs)) = PLen []
  | Some TPartial => alive (fst (feed cap s bs)) = true /\ started (fst (feed cap s bs)) = true
  end.
Proof.
  induction fuel as [|fuel IH]; intros bs s F A P; [lia|].
  destruct bs as [|b0 [|b1 [|b2 [|b3 rest]]]].
  - cbn. auto.
  - cbn [spec_parse fst snd feed]. rewrite (step_byte_len_short cap s b0 []) by (auto; cbn; lia).
    cbn. auto.
  - cbn [spec_parse fst snd feed]. rewrite (step_byte_len_short cap s b0 []) by (auto; cbn; lia).
    rewrite (step_byte_len_short cap _ b1 [b0]) by (auto; cbn; lia). cbn. auto.
  - cbn [spec_parse fst snd feed]. rewrite (step_byte_len_short cap s b0 []) by (auto; cbn; lia).
    rewrite (step_byte_len_short cap _ b1 [b0]) by (auto; cbn; lia).
    rewrite (step_byte_len_short cap _ b2 [b1; b0]) by (auto; cbn; lia). cbn. auto.
  - rewrite feed_prefix by assumption. cbn [spec_parse]. cbn zeta.
    set (n := de32 b0 b1 b2 b3).
    destruct (n <? 10) eqn:N1; [cbn; auto|].
    destruct (n >? cap) eqn:N2; [cbn; auto|].
    pose proof (len_nonneg rest) as Hr.
    destruct (len rest <? n) eqn:N3.
    + destruct (feed_body_short cap rest (mkR true (PBody n []) 0) n [] eq_refl eq_refl ltac:(lia)) as (E & A' & P').
      destruct (feed cap (mkR true (PBody n []) 0) rest) as [s' ev]. cbn [fst snd] in *. subst ev.
      split; [reflexivity|]. split; [exact A'|]. unfold started. rewrite P'. reflexivity.
    + assert (FE : feed cap (mkR true (PBody n []) 0) rest =
                   let '(s1, e1) := feed cap (mkR true (PBody n []) 0) (firstn (Z.to_nat n) rest) in
                   let '(s2, e2) := feed cap s1 (skipn (Z.to_nat n) rest) in (s2, e1 ++ e2)).
      { rewrite <- (firstn_skipn (Z.to_nat n) rest) at 1. apply feed_app. }
      rewrite FE. clear FE.
      destruct (feed_body_exact cap (firstn (Z.to_nat n) rest) (mkR true (PBody n []) 0) n [] eq_refl eq_refl
                  ltac:(apply len_firstn_le; lia) ltac:(lia)) as (E & A' & P').
      destruct (feed cap (mkR true (PBody n []) 0) (firstn (Z.to_nat n) rest)) as [s1 e1]. cbn [fst snd] in *.
      subst e1. cbn [rev app].
      assert (F' : (length (skipn (Z.to_nat n) rest) < fuel)%nat).
      { rewrite skipn_length. cbn [length] in F. lia. }
      specialize (IH (skipn (Z.to_nat n) rest) s1 F' A' P').
      destruct (feed cap s1 (skipn (Z.to_nat n) rest)) as [s2 e2].
      destruct (spec_parse fuel cap (skipn (Z.to_nat n) rest)) as [ev t]. cbn [fst snd] in *.
      destruct IH as [E2 T]. subst e2. split; [reflexivity|exact T].
Qed.

Definition is_eof (f : fin) : bool := match f with FinEof _ => true | FinSilent => false end.

Lemma rinit_started : started rinit = false. Proof. reflexivity. Qed.

(** Segmentation independence against the reference: whenever no T8 drop occurs, the run over
    ANY segmentation with ANY gaps yields exactly the reference events of the byte stream. *)
Lemma run_spec t8 cap segs f :
  has_t8_drop (run t8 cap segs f) = false ->
  run t8 cap segs f = spec_events cap (stream_of_segs segs) (is_eof f).
Proof.
  unfold run, spec_events. intros Q.
  destruct (run_segs t8 cap rinit segs) as [s ev] eqn:R.
  rewrite has_t8_app in Q. apply orb_false_iff in Q. destruct Q as [Q1 Q2].
  pose proof (run_segs_untimed t8 cap segs rinit rinit (conj eq_refl (fun _ => eq_refl))) as U.
  rewrite R in U. cbn [fst snd] in U. destruct (U Q1) as [E [SA SP]]. clear U.
  pose proof (feed_spec cap (S (length (stream_of_segs segs))) (stream_of_segs segs) rinit
                ltac:(lia) eq_refl eq_refl) as [E2 T].
  destruct (spec_parse (S (length (stream_of_segs segs))) cap (stream_of_segs segs)) as [sev t].
  cbn [fst snd] in *. rewrite E, E2. f_equal.
  destruct (feed cap rinit (stream_of_segs segs)) as [s0 e0]. cbn [fst snd] in *.
  destruct t as [[|]|].
  - destruct T as [A0 P0]. assert (A : alive s = true) by congruence.
    assert (St : started s = false) by (unfold started; rewrite (SP A), P0; reflexivity).
    rewrite finish_cases by exact A. rewrite St. destruct f; reflexivity.
  - destruct T as [A0 St0]. assert (A : alive s = true) by congruence.
    assert (St : started s = true) by (rewrite (started_ph s s0 (SP A)); exact St0).
    rewrite finish_cases in * by exact A. rewrite St in *. destruct f as [g|]; cbn [is_eof andb] in *.
    + destruct (since s + g >? t8); [discriminate|reflexivity].
    + discriminate.
  - apply finish_dead. congruence.
Qed.

(** ... hence any two segmentations / timings of the same byte stream that suffer no T8 drop
    produce the same events (frames in the same order, same allocations, same terminal event) *)
Lemma run_independent t8 cap segs segs' f f' :
  stream_of_segs segs = stream_of_segs segs' -> is_eof f = is_eof f' ->
  has_t8_drop (run t8 cap segs f) = false -> has_t8_drop (run t8 cap segs' f') = false ->
  run t8 cap segs f = run t8 cap segs' f'.
Proof. intros E F Q Q'. rewrite (run_spec _ _ _ _ Q), (run_spec _ _ _ _ Q'), E, F. reflexivity. Qed.

(** the script ending in silence inside a frame: everything before, then the T8 drop *)
Lemma run_spec_silent t8 cap segs :
  has_t8_drop (snd (run_segs t8 cap rinit segs)) = false ->
  run t8 cap segs FinSilent = spec_events cap (stream_of_segs segs) false.
Proof.
  unfold run, spec_events. intros Q1.
  destruct (run_segs t8 cap rinit segs) as [s ev] eqn:R. cbn [snd] in Q1.
  pose proof (run_segs_untimed t8 cap segs rinit rinit (conj eq_refl (fun _ => eq_refl))) as U.
  rewrite R in U. cbn [fst snd] in U. destruct (U Q1) as [E [SA SP]]. clear U.
  pose proof (feed_spec cap (S (length (stream_of_segs segs))) (stream_of_segs segs) rinit
                ltac:(lia) eq_refl eq_refl) as [E2 T].
  destruct (spec_parse (S (length (stream_of_segs segs))) cap (stream_of_segs segs)) as [sev t].
  cbn [fst snd] in *. rewrite E, E2. f_equal.
  destruct (feed cap rinit (stream_of_segs segs)) as [s0 e0]. cbn [fst snd] in *.
  destruct t as [[|]|].
  - destruct T as [A0 P0]. assert (A : alive s = true) by congruence.
    rewrite finish_cases by exact A. unfold started. rewrite (SP A), P0. reflexivity.
  - destruct T as [A0 St0]. assert (A : alive s = true) by congruence.
    rewrite finish_cases by exact A. rewrite (started_ph s s0 (SP A)), St0. reflexivity.
  - apply finish_dead. congruence.
Qed.

(** ** the reference semantics on streams built from frames *)
Definition encode_frames (fs : list (list Z)) : list Z := flat_map (fun f => be32 (len f) ++ f) fs.
Definition frame_events (fs : list (list Z)) : list event := flat_map (fun f => [EvAlloc (len f); EvFrame f]) fs.
Definition frame_len_ok (cap : Z) (f : list Z) : Prop := 10 <= len f <= cap.

Lemma feed_one_frame cap s f tail :
  cap < 4294967296 -> frame_len_ok cap f -> alive s = true -> ph s = PLen [] ->
  exists s', alive s' = true /\ ph s' = PLen [] /\
    feed cap s (be32 (len f) ++ f ++ tail) =
    let '(s2, ev) := feed cap s' tail in (s2, EvAlloc (len f) :: EvFrame f :: ev).
Proof.
  intros C [L1 L2] A P. cbn [be32 app]. rewrite feed_prefix by assumption. cbn zeta.
  rewrite de32_be32 by lia.
  replace (len f <? 10) with false by lia. replace (len f >? cap) with false by lia.
  rewrite feed_app.
  destruct (feed_body_exact cap f (mkR true (PBody (len f) []) 0) (len f) [] eq_refl eq_refl eq_refl ltac:(lia))
    as (E & A' & P').
  destruct (feed cap (mkR true (PBody (len f) []) 0) f) as [s1 e1]. cbn [fst snd] in *. subst e1.
  exists s1. split; [exact A'|]. split; [exact P'|].
  destruct (feed cap s1 tail) as [s2 e2]. reflexivity.
Qed.

Lemma feed_frames cap : forall fs s tail,
  cap < 4294967296 -> Forall (frame_len_ok cap) fs -> alive s = true -> ph s = PLen [] ->
  exists s', alive s' = true /\ ph s' = PLen [] /\
    feed cap s (encode_frames fs ++ tail) =
    let '(s2, ev) := feed cap s' tail in (s2, frame_events fs ++ ev).
Proof.
  induction fs as [|f fs IH]; intros s tail C F A P.
  - exists s. cbn. destruct (feed cap s tail). auto.
  - inversion F as [|? ? Ff F']; subst.
    unfold encode_frames. cbn [flat_map]. fold (encode_frames fs). rewrite <- !app_assoc.
    destruct (feed_one_frame cap s f (encode_frames fs ++ tail) C Ff A P) as (s1 & A1 & P1 & E1).
    destruct (IH s1 tail C F' A1 P1) as (s2 & A2 & P2 & E2).
    exists s2. split; [exact A2|]. split; [exact P2|].
    rewrite E1, E2. destruct (feed cap s2 tail) as [s3 e3]. reflexivity.
Qed.

Lemma frames_of_frame_events fs : frames_of (frame_events fs) = fs.
Proof. induction fs as [|f fs IH]; [reflexivity|]. cbn. f_equal. exact IH. Qed.
Lemma allocs_of_frame_events fs : allocs_of (frame_events fs) = map len fs.
Proof. induction fs as [|f fs IH]; [reflexivity|]. cbn. f_equal. exact IH. Qed.
Lemma frames_of_app a b : frames_of (a ++ b) = frames_of a ++ frames_of b.
Proof. unfold frames_of. apply flat_map_app. Qed.
Lemma allocs_of_app a b : allocs_of (a ++ b) = allocs_of a ++ allocs_of b.
Proof. unfold allocs_of. apply flat_map_app. Qed.

(** Every way of cutting a stream of valid frames into timed reads, as long as no T8 drop occurs,
    delivers exactly those frames in order, allocates exactly their lengths, and leaves the link
    up and idle. *)
Lemma delivers_all t8 cap fs segs :
  cap < 4294967296 -> Forall (frame_len_ok cap) fs ->
  stream_of_segs segs = encode_frames fs ->
  has_t8_drop (snd (run_segs t8 cap rinit segs)) = false ->
  snd (run_segs t8 cap rinit segs) = frame_events fs /\
  alive (fst (run_segs t8 cap rinit segs)) = true /\ started (fst (run_segs t8 cap rinit segs)) = false.
Proof.
  intros C F E Q.
  destruct (run_segs_untimed t8 cap segs rinit rinit (conj eq_refl (fun _ => eq_refl)) Q) as [Ev [SA SP]].
  rewrite E in *.
  destruct (feed_frames cap fs rinit [] C F eq_refl eq_refl) as (s' & A' & P' & Ef).
  rewrite app_nil_r in Ef. cbn [feed] in Ef. rewrite Ef in *. cbn [fst snd] in *.
  rewrite app_nil_r in Ev. split; [exact Ev|].
  assert (A : alive (fst (run_segs t8 cap rinit segs)) = true) by congruence.
  split; [exact A|]. unfold started. rewrite (SP A), P'. reflexivity.
Qed.

(** A length field outside [10, cap] after any number of good frames: the good frames are
    delivered, then the link is dropped — and the claimed size is never allocated (the only
    allocations are the good frames' own lengths). *)
Lemma bad_length_drops t8 cap fs b0 b1 b2 b3 junk segs :
  cap < 4294967296 -> Forall (frame_len_ok cap) fs ->
  (de32 b0 b1 b2 b3 < 10 \/ cap < de32 b0 b1 b2 b3) ->
  stream_of_segs segs = encode_frames fs ++ b0 :: b1 :: b2 :: b3 :: junk ->
  has_t8_drop (snd (run_segs t8 cap rinit segs)) = false ->
  snd (run_segs t8 cap rinit segs) =
    frame_events fs ++ [EvDrop (if de32 b0 b1 b2 b3 <? 10 then DLenSmall else DLenBig)] /\
  alive (fst (run_segs t8 cap rinit segs)) = false /\
  allocs_of (snd (run_segs t8 cap rinit segs)) = map len fs.
Proof.
  intros C F B E Q.
  destruct (run_segs_untimed t8 cap segs rinit rinit (conj eq_refl (fun _ => eq_refl)) Q) as [Ev [SA SP]].
  rewrite E in *.
  destruct (feed_frames cap fs rinit (b0 :: b1 :: b2 :: b3 :: junk) C F eq_refl eq_refl) as (s' & A' & P' & Ef).
  rewrite feed_prefix in Ef by assumption. cbn zeta in Ef.
  assert (X : snd (run_segs t8 cap rinit segs) =
              frame_events fs ++ [EvDrop (if de32 b0 b1 b2 b3 <? 10 then DLenSmall else DLenBig)] /\
              alive (fst (run_segs t8 cap rinit segs)) = false).
  { destruct (de32 b0 b1 b2 b3 <? 10) eqn:N1.
    - rewrite Ef in *. cbn [fst snd] in *. split; [exact Ev|exact SA].
    - replace (de32 b0 b1 b2 b3 >? cap) with true in Ef by lia.
      rewrite Ef in *. cbn [fst snd] in *. split; [exact Ev|exact SA]. }
  destruct X as [X1 X2]. split; [exact X1|]. split; [exact X2|].
  rewrite X1, allocs_of_app, allocs_of_frame_events. cbn. apply app_nil_r.
Qed.
