(** Further C09 theorems, stated on states and single steps rather than on the log:
    reply provenance, release of waiters after a teardown, and discarding of what is still
    queued / not yet written when a generation ends. *)
From Coq Require Import ZArith Bool List Lia Arith.
From GoSecs Require Import Hsms.Generations Hsms.GenerationsProofs.
Import ListNotations.

(** A step that returns Reply-from-f (or Reject-from-f) to call c: f is the generation c is pinned to. *)
Lemma reply_step s a s' o c k f :
  CI s -> exec s a = (s', o) ->
  In (OCompleted c k (RReply f)) o \/ In (OCompleted c k (RReject f)) o ->
  f = c_gen (calls s c) /\ c_phase (calls s c) = PWait /\ a = CompleteReply c.
Proof.
  intros C H Hin.
  destruct a; unfold_exec H; dmatch H; inversion H; subst; clear H; cbn [In] in Hin;
    repeat match goal with Hx : _ \/ _ |- _ => destruct Hx end; try contradiction; try discriminate;
    match goal with Hx : OCompleted _ _ _ = OCompleted _ _ _ |- _ => inversion Hx; subst; clear Hx end.
  all: match goal with Er : c_reg (calls ?s0 ?c0) = RegFull _ |- _ =>
         pose proof (C c0) as Cc; unfold callok in Cc; rewrite Er in Cc;
         apply andb_prop in Cc; destruct Cc as [_ Cc]; apply Nat.eqb_eq in Cc end.
  all: repeat split; congruence.
Qed.

Theorem no_stale_reply acts a c k f :
  let s := fst (run init acts) in
  In (OCompleted c k (RReply f)) (snd (exec s a)) \/ In (OCompleted c k (RReject f)) (snd (exec s a)) ->
  f = c_gen (calls s c).
Proof.
  cbn zeta. intros H. destruct (exec (fst (run init acts)) a) as [s' o] eqn:E. cbn [snd] in H.
  destruct (reply_step _ _ _ _ _ _ _ (CI_reachable acts) E H) as [Hf _]. exact Hf.
Qed.

(** Waiters: a call in the waiting phase can only stay there or complete with
    Reply/Reject-from-its-own-generation, its timer, its caller's ctx or ConnClosed; and once its
    generation's teardown began, the ConnClosed completion is enabled. *)
Definition waiter_result (g : nat) (r : result) : bool :=
  match r with
  | RReply f | RReject f => Nat.eqb f g
  | RTimer | RClosed | RCtx => true
  | _ => false
  end.

Lemma waiter_step s a s' o c :
  CI s -> exec s a = (s', o) -> c_phase (calls s c) = PWait ->
  c_gen (calls s' c) = c_gen (calls s c) /\
  (c_phase (calls s' c) = PWait \/
   exists r, c_phase (calls s' c) = PDone r /\ waiter_result (c_gen (calls s c)) r = true /\
             In (OCompleted c (c_kind (calls s c)) r) o).
Proof.
  intros C H Hp. pose proof (C c) as Cc. unfold callok in Cc. rewrite Hp in Cc.
  destruct a; unfold_exec H; dmatch H; inversion H; subst; clear H; st_simpl;
    try (split; [reflexivity|left; assumption]);
    unfold upd; try match goal with |- context [Nat.eqb c ?c0] => destruct (Nat.eqb_spec c c0) as [->|Hne] end;
    st_simpl; try (split; [reflexivity|left; assumption]); try congruence;
    try (split; [reflexivity|]; right; eexists; split; [reflexivity|]; split; [|left; reflexivity]; cbn [waiter_result];
         try reflexivity;
         match goal with Er : c_reg (calls ?s0 ?c0) = RegFull _ |- _ =>
           rewrite Er in Cc; apply andb_prop in Cc; destruct Cc as [_ Cc];
           repeat match goal with r : result |- _ => destruct r; try discriminate Cc end; exact Cc end).
Qed.

Theorem waiters_released acts c :
  let s := fst (run init acts) in
  c_phase (calls s c) = PWait ->
  (* only completion steps move the waiter, and only to these results *)
  (forall a, c_phase (calls (fst (exec s a)) c) = PWait \/
             exists r, c_phase (calls (fst (exec s a)) c) = PDone r /\ waiter_result (c_gen (calls s c)) r = true) /\
  (* after the teardown of its generation began, ConnClosed is enabled *)
  (g_cancel (gens s (c_gen (calls s c))) = true ->
   c_phase (calls (fst (exec s (CompleteClosed c))) c) = PDone RClosed /\
   snd (exec s (CompleteClosed c)) = [OCompleted c (c_kind (calls s c)) RClosed]).
Proof.
  cbn zeta. intros Hp. split.
  - intros a. destruct (exec (fst (run init acts)) a) as [s' o] eqn:E. cbn [fst].
    destruct (waiter_step _ _ _ _ c (CI_reachable acts) E Hp) as [_ [H|(r & H1 & H2 & _)]]; [left; exact H|].
    right. exists r. split; assumption.
  - intros Hc. unfold exec, finish_wait. rewrite Hp, Hc. cbn [fst snd set_mx set_call calls]. rewrite upd_same.
    split; reflexivity.
Qed.

(** Discarding: once the teardown of generation g began, a call pinned to g whose frame is not
    yet on a wire (queued in g's send channel, popped by the sender, parked anywhere in
    writeFrame) never gets its frame onto ANY wire, in any continuation. *)
Definition dead_unwired (s : state) (c : nat) : Prop :=
  wired s c = false /\
  (c_phase (calls s c) = PNone \/ (exists r, c_phase (calls s c) = PDone r) \/
   (g_cancel (gens s (c_gen (calls s c))) = true /\ c_gen (calls s c) < ngen s)).

Lemma cancel_stable s a s' o g :
  FI s -> exec s a = (s', o) -> g < ngen s -> g_cancel (gens s g) = true ->
  g_cancel (gens s' g) = true /\ g < ngen s'.
Proof.
  intros [F1 F2] H Hlt Hc.
  destruct a; unfold_exec H; dmatch H; inversion H; subst; clear H; st_simpl;
    try (split; [assumption|lia]);
    unfold upd; try match goal with |- context [Nat.eqb g ?g0] => destruct (Nat.eqb_spec g g0) as [->|Hne] end;
    st_simpl; try (split; [first [assumption|reflexivity]|lia]); try lia;
    repeat match goal with Hx : _ && _ = true |- _ => apply andb_prop in Hx; destruct Hx end;
    repeat match goal with Hx : negb _ = true |- _ => apply negb_true_iff in Hx end; congruence.
Qed.

Lemma dead_unwired_step s a s' o c :
  GI s -> FI s -> exec s a = (s', o) -> dead_unwired s c -> c_phase (calls s c) <> PNone -> dead_unwired s' c.
Proof.
  intros G F H [Hw Hd] Hn.
  destruct (pinned_stable _ _ _ _ c H Hn) as (Hg & _ & Hn').
  assert (Hw' : wired s' c = false).
  { destruct (wire_step _ _ _ _ H) as [Hx|(c0 & -> & Hp & Hx & Hs & _)]; unfold wired; rewrite Hx; [exact Hw|].
    cbn [existsb fst snd]. destruct (Nat.eqb_spec c0 c) as [->|_]; [|exact Hw]. exfalso.
    destruct Hd as [Hd|[(r & Hd)|(Hc & _)]]; try congruence.
    specialize (G (c_gen (calls s c))). unfold genok in G. rewrite Hs, Hc in G. cbn in G.
    rewrite andb_false_r in G. discriminate G. }
  split; [exact Hw'|].
  destruct Hd as [Hd|[(r & Hd)|(Hc & Hlt)]]; [contradiction| |].
  - right; left.
    assert (Hs : c_phase (calls s' c) = c_phase (calls s c)).
    { destruct a; unfold_exec H; dmatch H; inversion H; subst; clear H; st_simpl; try reflexivity;
        unfold upd; try match goal with |- context [Nat.eqb c ?c0] => destruct (Nat.eqb_spec c c0) as [->|Hne] end;
        st_simpl; try reflexivity; try congruence. }
    exists r. congruence.
  - right; right. rewrite Hg. apply (cancel_stable _ _ _ _ _ F H Hlt Hc).
Qed.

Theorem queue_discarded acts1 acts2 c :
  let s1 := fst (run init acts1) in
  c_phase (calls s1 c) <> PNone ->
  wired s1 c = false ->
  g_cancel (gens s1 (c_gen (calls s1 c))) = true -> c_gen (calls s1 c) < ngen s1 ->
  wired (fst (run s1 acts2)) c = false.
Proof.
  cbn zeta. intros Hn Hw Hc Hlt.
  assert (G1 := GI_reachable acts1).
  assert (F1 : FI (fst (run init acts1))).
  { apply (run_inv FI FI_init). intros; eapply FI_step; eassumption. }
  assert (D1 : dead_unwired (fst (run init acts1)) c) by (split; [exact Hw|right; right; split; assumption]).
  revert G1 F1 D1 Hn. generalize (fst (run init acts1)). clear.
  induction acts2 as [|a r IH]; intros s G F D Hn; cbn [run]; [exact (proj1 D)|].
  destruct (exec s a) as [s1 o1] eqn:E.
  specialize (IH s1 (GI_step _ _ _ _ G E) (FI_step _ _ _ _ F E) (dead_unwired_step _ _ _ _ _ G F E D Hn)
                 (proj2 (proj2 (pinned_stable _ _ _ _ c E Hn)))).
  destruct (run s1 r). exact IH.
Qed.

(** The pinned generation of a live call is a published generation. *)
Definition live (p : phase) : bool := match p with PNone | PDone _ => false | _ => true end.
Definition PI (s : state) : Prop := forall c, live (c_phase (calls s c)) = true -> c_gen (calls s c) < ngen s.

Lemma PI_init : PI init.
Proof. intros c H. discriminate H. Qed.

Lemma PI_step s a s' o : FI s -> PI s -> exec s a = (s', o) -> PI s'.
Proof.
  intros [F1 F2] P H c1.
  destruct a; unfold_exec H; dmatch H; inversion H; subst; clear H; st_simpl;
    try (apply P); unfold upd;
    try match goal with |- context [if Nat.eqb c1 ?c0 then _ else _] => destruct (Nat.eqb_spec c1 c0) as [->|Hne] end;
    st_simpl; unfold with_phase, with_reg; cbn [c_kind c_gen c_phase c_reg live];
    try (intros Hl; discriminate Hl);
    try (intros _; apply P; match goal with Hx : c_phase _ = _ |- _ => rewrite Hx end; reflexivity);
    try (intros Hl; specialize (P _ Hl); lia);
    try (intros _; apply F1; first [assumption|reflexivity]);
    try (intros Hl; apply P; exact Hl).
Qed.

Theorem PI_reachable acts : PI (fst (run init acts)).
Proof.
  assert (H : FI (fst (run init acts)) /\ PI (fst (run init acts))).
  { apply (run_inv (fun s => FI s /\ PI s)); [split; [exact FI_init|exact PI_init]|].
    intros s a s' o [F P] E. split; [eapply FI_step|eapply PI_step]; eassumption. }
  exact (proj2 H).
Qed.

(** Statement without the side condition: for a LIVE call (entered, not yet returned / failed). *)
Theorem queue_discarded_live acts1 acts2 c :
  let s1 := fst (run init acts1) in
  live (c_phase (calls s1 c)) = true ->
  wired s1 c = false ->
  g_cancel (gens s1 (c_gen (calls s1 c))) = true ->
  wired (fst (run s1 acts2)) c = false.
Proof.
  cbn zeta. intros Hl Hw Hc. apply queue_discarded; try assumption.
  - intros Hx. rewrite Hx in Hl. discriminate Hl.
  - apply PI_reachable. exact Hl.
Qed.

(** A fire-and-forget send waiting for queue space (phase [PGated], asynchronous kind) is released
    by the START of its generation's teardown ([g_cancel], the generation ctx), not by its end
    ([g_joined], the done channel): as soon as the ctx is cancelled the ConnClosed branch of the
    three-way select is enabled, whether or not the bounded join has completed. (A wait on the done
    channel instead would make a send parked on the generation's own receive goroutine a circular
    wait that only the close timeout breaks.) *)
Theorem parked_send_released s c :
  c_phase (calls s c) = PGated -> is_async (c_kind (calls s c)) = true ->
  g_cancel (gens s (c_gen (calls s c))) = true ->
  c_phase (calls (fst (exec s (EnqueueClosed c))) c) = PDone RClosed /\
  snd (exec s (EnqueueClosed c)) = [OCompleted c (c_kind (calls s c)) RClosed].
Proof.
  intros Hp Ha Hc. unfold exec. rewrite Hp, Ha, Hc. cbn [andb fst snd set_call calls]. rewrite upd_same.
  split; reflexivity.
Qed.

(** … and before the teardown starts that branch is NOT enabled: a parked send is never failed
    with ConnClosed while its generation is alive. *)
Theorem parked_send_not_released_early s c :
  g_cancel (gens s (c_gen (calls s c))) = false -> exec s (EnqueueClosed c) = (s, []).
Proof.
  intros Hc. unfold exec. destruct (c_phase (calls s c)); try reflexivity.
  rewrite Hc, andb_false_r. reflexivity.
Qed.
