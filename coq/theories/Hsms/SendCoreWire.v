(** SendCoreWire — the peer's byte stream and its regrouping into reads.

    The LTS of SendCore.v consumes whole frames ([APeer f]).  This file closes the gap to "every
    split of the peer's byte stream into reads": a length-prefixed reader that is fed the stream
    [concat (map enc_frame fs)] in ARBITRARY chunks hands out exactly [fs], in order, whatever the
    chunk boundaries (inside the 4-byte length, inside the header, inside a body, across frames). *)
From Coq Require Import ZArith Bool List Lia.
From GoSecs Require Import Hsms.SendCore.
Import ListNotations.
Open Scope Z_scope.

Definition be16 (n : Z) : list Z := [n / 256 mod 256; n mod 256].
Definition be32 (n : Z) : list Z := [n / 16777216 mod 256; n / 65536 mod 256; n / 256 mod 256; n mod 256].
Definition dec (l : list Z) : Z := fold_left (fun acc b => acc * 256 + b) l 0.

Definition header (f : frame) : list Z :=
  be16 (f_sid f) ++ [f_b2 f; f_b3 f; f_pt f; f_st f] ++ be32 (f_sys f).
Definition enc_frame (f : frame) : list Z :=
  be32 (10 + Z.of_nat (length (f_body f))) ++ header f ++ f_body f.

Definition parse (p : list Z) : frame :=
  mkF (dec (firstn 2 p)) (nth 2 p 0) (nth 3 p 0) (nth 4 p 0) (nth 5 p 0) (dec (firstn 4 (skipn 6 p))) (skipn 10 p).

Definition byte (b : Z) : Prop := 0 <= b < 256.
Record wf_frame (f : frame) : Prop := mkWF {
  wf_sid : 0 <= f_sid f < 65536; wf_b2 : byte (f_b2 f); wf_b3 : byte (f_b3 f);
  wf_pt : byte (f_pt f); wf_st : byte (f_st f); wf_sys : 0 <= f_sys f < 4294967296;
  wf_len : 10 + Z.of_nat (length (f_body f)) < 4294967296
}.

(* one step of the reader: a complete frame at the front of the buffer, if any *)
Definition take (buf : list Z) : option (frame * list Z) :=
  if Nat.ltb (length buf) 4 then None
  else
    let len := dec (firstn 4 buf) in
    if len <? 10 then None
    else if Nat.ltb (length buf) (4 + Z.to_nat len) then None
    else Some (parse (firstn (Z.to_nat len) (skipn 4 buf)), skipn (4 + Z.to_nat len) buf).

Fixpoint drain (fuel : nat) (buf : list Z) : list frame * list Z :=
  match fuel with
  | O => ([], buf)
  | S k => match take buf with
           | Some (f, rest) => let (fs, r) := drain k rest in (f :: fs, r)
           | None => ([], buf)
           end
  end.

(* the reader: append the chunk, hand out every complete frame *)
Definition feed (st : list frame * list Z) (chunk : list Z) : list frame * list Z :=
  let (fs, r) := drain (S (length (snd st ++ chunk))) (snd st ++ chunk) in (fst st ++ fs, r).

Definition read_all (chunks : list (list Z)) : list frame * list Z := fold_left feed chunks ([], []).

(** * arithmetic of the encodings *)
Lemma dec_be32 : forall n, 0 <= n < 4294967296 -> dec (be32 n) = n.
Proof.
  intros n H. unfold dec, be32. cbn.
  pose proof (Z.div_mod n 256 ltac:(lia)). pose proof (Z.div_mod (n / 256) 256 ltac:(lia)).
  pose proof (Z.div_mod (n / 65536) 256 ltac:(lia)).
  assert (n / 65536 = n / 256 / 256) by (rewrite Z.div_div by lia; reflexivity).
  assert (n / 16777216 = n / 65536 / 256) by (rewrite Z.div_div by lia; reflexivity).
  assert (0 <= n / 16777216 < 256) by (split; [apply Z.div_pos; lia | apply Z.div_lt_upper_bound; lia]).
  rewrite (Z.mod_small (n / 16777216)) by lia. lia.
Qed.

Lemma dec_be16 : forall n, 0 <= n < 65536 -> dec (be16 n) = n.
Proof.
  intros n H. unfold dec, be16. cbn.
  pose proof (Z.div_mod n 256 ltac:(lia)).
  assert (0 <= n / 256 < 256) by (split; [apply Z.div_pos; lia | apply Z.div_lt_upper_bound; lia]).
  rewrite (Z.mod_small (n / 256)) by lia. lia.
Qed.

Lemma length_enc : forall f, length (enc_frame f) = (14 + length (f_body f))%nat.
Proof. intros f. unfold enc_frame, header. rewrite !app_length. reflexivity. Qed.

Lemma parse_enc : forall f, wf_frame f -> parse (header f ++ f_body f) = f.
Proof.
  intros f [A B C D E F G]. unfold parse, header. cbn.
  pose proof (dec_be16 _ A) as X. unfold dec, be16 in X. cbn in X. rewrite X.
  pose proof (dec_be32 _ F) as Y. unfold dec, be32 in Y. cbn in Y. rewrite Y.
  destruct f; reflexivity.
Qed.

(** * the reader on a stream of encoded frames *)
Lemma take_complete : forall f rest, wf_frame f -> take (enc_frame f ++ rest) = Some (f, rest).
Proof.
  intros f rest W. unfold take.
  assert (L : (length (enc_frame f ++ rest) = 14 + length (f_body f) + length rest)%nat) by (rewrite app_length, length_enc; reflexivity).
  rewrite L. destruct (Nat.ltb_spec (14 + length (f_body f) + length rest) 4); [lia|].
  assert (F4 : firstn 4 (enc_frame f ++ rest) = be32 (10 + Z.of_nat (length (f_body f)))) by reflexivity.
  rewrite F4. rewrite dec_be32 by (pose proof (wf_len _ W); lia).
  destruct (Z.ltb_spec (10 + Z.of_nat (length (f_body f))) 10); [lia|].
  replace (Z.to_nat (10 + Z.of_nat (length (f_body f)))) with (10 + length (f_body f))%nat by lia.
  destruct (Nat.ltb_spec (14 + length (f_body f) + length rest) (4 + (10 + length (f_body f)))); [lia|].
  f_equal. f_equal.
  - change (skipn 4 (enc_frame f ++ rest)) with ((header f ++ f_body f) ++ rest).
    rewrite firstn_app. replace (length (header f ++ f_body f)) with (10 + length (f_body f))%nat by (rewrite app_length; reflexivity).
    rewrite Nat.sub_diag. cbn [firstn]. rewrite app_nil_r. rewrite firstn_all2 by (rewrite app_length; cbn; lia).
    apply parse_enc. exact W.
  - replace (4 + (10 + length (f_body f)))%nat with (length (enc_frame f)) by (rewrite length_enc; lia).
    rewrite skipn_app, skipn_all, Nat.sub_diag. reflexivity.
Qed.

(* a proper prefix of one encoded frame is not a complete frame *)
Lemma take_incomplete : forall f b, wf_frame f -> (exists t, t <> [] /\ enc_frame f = b ++ t) -> take b = None.
Proof.
  intros f b W (t & NT & E). unfold take.
  assert (LB : (length b < 14 + length (f_body f))%nat).
  { pose proof (f_equal (@length Z) E) as L. rewrite app_length, length_enc in L. destruct t; [contradiction|]. cbn in L. lia. }
  destruct (Nat.ltb_spec (length b) 4); [reflexivity|].
  assert (F4 : firstn 4 b = be32 (10 + Z.of_nat (length (f_body f)))).
  { change (be32 (10 + Z.of_nat (length (f_body f)))) with (firstn 4 (enc_frame f)). rewrite E. rewrite firstn_app.
    replace (4 - length b)%nat with 0%nat by lia. cbn [firstn]. rewrite app_nil_r. reflexivity. }
  rewrite F4. rewrite dec_be32 by (pose proof (wf_len _ W); lia).
  destruct (Z.ltb_spec (10 + Z.of_nat (length (f_body f))) 10); [reflexivity|].
  replace (Z.to_nat (10 + Z.of_nat (length (f_body f)))) with (10 + length (f_body f))%nat by lia.
  destruct (Nat.ltb_spec (length b) (4 + (10 + length (f_body f)))); [reflexivity | lia].
Qed.

Definition stream (fs : list frame) : list Z := concat (map enc_frame fs).

(* draining a buffer that is a prefix of a stream: exactly the complete frames come out *)
Lemma drain_prefix : forall fs fuel b t, Forall wf_frame fs -> stream fs = b ++ t -> (length b < fuel)%nat ->
  exists fs1 fs2 r, fs = fs1 ++ fs2 /\ drain fuel b = (fs1, r) /\ stream fs2 = r ++ t /\
    (fs2 = [] -> r = []) /\ (forall f fs3, fs2 = f :: fs3 -> exists u, u <> [] /\ enc_frame f = r ++ u).
Proof.
  induction fs as [|f fs IH]; intros fuel b t W E LF.
  - cbn in E. destruct b; [|discriminate]. exists [], [], []. destruct fuel; cbn; repeat split; auto; intros; discriminate.
  - inversion W as [|? ? WF WR]; subst. change (stream (f :: fs)) with (enc_frame f ++ stream fs) in E.
    assert (CASES : (exists b', b = enc_frame f ++ b' /\ stream fs = b' ++ t) \/ (exists u, u <> [] /\ enc_frame f = b ++ u)).
    { apply app_eq_app in E. destruct E as (l & [[E1 E2]|[E1 E2]]).
      - destruct l as [|z l].
        + left. exists []. rewrite app_nil_r in E1. cbn in E2. subst. rewrite app_nil_r. auto.
        + right. exists (z :: l). split; [discriminate | exact E1].
      - left. exists l. auto. }
    destruct CASES as [(b' & -> & E')|SP].
    + (* the first frame is complete in b *)
      destruct fuel as [|fuel]; [lia|]. cbn [drain]. rewrite (take_complete f b' WF).
      assert (LF' : (length b' < fuel)%nat) by (rewrite app_length, length_enc in LF; lia).
      destruct (IH fuel b' t WR E' LF') as (fs1 & fs2 & r & A1 & A2 & A3 & A4 & A5).
      exists (f :: fs1), fs2, r. rewrite A2. subst fs. repeat split; auto.
    + (* b ends inside the first frame *)
      exists [], (f :: fs), b. repeat split; auto.
      * destruct fuel; [reflexivity|]. cbn [drain]. rewrite (take_incomplete f b WF SP). reflexivity.
      * intros X; discriminate.
      * intros g fs3 X. inversion X; subst. exact SP.
Qed.

(** * every regrouping of the stream yields the same frames *)
Theorem any_split_same_frames : forall chunks fs, Forall wf_frame fs -> concat chunks = stream fs ->
  read_all chunks = (fs, []).
Proof.
  intros chunks fs W E. unfold read_all.
  (* invariant: emitted ++ (frames still encoded in buffer ++ remaining chunks) = fs *)
  assert (G : forall chunks done rest buf, Forall wf_frame rest -> buf ++ concat chunks = stream rest ->
              (rest = [] -> buf = []) -> (forall f r3, rest = f :: r3 -> exists u, u <> [] /\ enc_frame f = buf ++ u) ->
              fold_left feed chunks (done, buf) = (done ++ rest, [])).
  { clear. induction chunks as [|c cs IH]; intros done rest buf W E H0 H1.
    - cbn [fold_left concat] in *. rewrite app_nil_r in E. destruct rest as [|f r3].
      + rewrite (H0 eq_refl), app_nil_r. reflexivity.
      + exfalso. destruct (H1 f r3 eq_refl) as (u & NU & EU).
        change (stream (f :: r3)) with (enc_frame f ++ stream r3) in E. rewrite EU in E.
        pose proof (f_equal (@length Z) E) as L. rewrite !app_length in L. destruct u; [contradiction|]. cbn [length] in L. lia.
    - cbn [fold_left concat] in *. unfold feed at 2. cbn [fst snd].
      rewrite app_assoc in E.
      destruct (drain_prefix rest (S (length (buf ++ c))) (buf ++ c) (concat cs) W (eq_sym E) ltac:(lia))
        as (fs1 & fs2 & r & A1 & A2 & A3 & A4 & A5).
      rewrite A2. subst rest. rewrite app_assoc. apply IH; auto.
      apply Forall_app in W. apply W. }
  specialize (G chunks [] fs [] W E). cbn in G. apply G.
  - intros _. reflexivity.
  - intros f r3 ->. exists (enc_frame f). split; [|reflexivity]. unfold enc_frame, be32. discriminate.
Qed.
