(** SendCoreProofs — arithmetic of the system-bytes generator, and the witness run showing that
    the CURRENT step function violates the outcome clause of C06 (DESIGN.md §5 #2). *)
From Coq Require Import ZArith Bool List Lia.
From GoSecs Require Import Hsms.SendCore Hsms.SendCoreMon.
Import ListNotations.
Open Scope Z_scope.

(** * hsms/sysbytes.go: v := n.Add(1) on a uint32 *)

(* the unbounded ghost counter of the model and a wrapping uint32 counter produce the same keys *)
Lemma key_of_succ : forall c, key_of (c + 1) = (key_of c + 1) mod 4294967296.
Proof.
  intros c. unfold key_of.
  rewrite (Z.add_mod c 1) by lia. rewrite (Z.mod_small 1) by lia. reflexivity.
Qed.

Lemma key_of_range : forall c, 0 <= key_of c < 4294967296.
Proof. intros c. unfold key_of. apply Z.mod_pos_bound. lia. Qed.

(* any two draws less than 2^32 draws apart differ: consecutive outputs are pairwise distinct
   within every window of 2^32 (a fortiori 2^32-1) draws *)
Lemma sysbytes_distinct : forall c i j,
  0 <= i -> i < j -> j - i < 4294967296 -> key_of (c + i) <> key_of (c + j).
Proof.
  intros c i j Hi Hij Hw. unfold key_of. intro E.
  assert (H : ((c + j) - (c + i)) mod 4294967296 = 0).
  { rewrite Zminus_mod, E, Z.sub_diag. reflexivity. }
  replace (c + j - (c + i)) with (j - i) in H by lia.
  rewrite Z.mod_small in H by lia. lia.
Qed.

(** * The current code returns (nil, nil) from a reply-expected send *)

Definition cfg0 : cfg := mkCfg 45000 5000 1 false.

Definition w_selreq : frame := mkF 65535 0 0 0 1 7 [].
Definition w_primary : frame := mkF 1 (128 + 1) 1 0 0 0 [177; 4; 0; 0; 0; 1].   (* S1F1 W, body U4 1 *)
Definition w_ltrsp : frame := mkF 65535 0 0 0 6 1 [].                          (* Linktest.rsp, system bytes 1 *)

Definition witness_acts : list action :=
  [ANewGen; AConnUp; APeer w_selreq; ADispatch; ADrain true;          (* passive side selected *)
   AStart 1 KSync w_primary;
   AStep 1 CGo; AStep 1 CGo; AStep 1 CGo; AStep 1 CGo; AStep 1 CWriteOk;   (* enter, B1, register, B2, write *)
   APeer w_ltrsp; ADispatch;                                          (* peer: Linktest.rsp reusing system bytes 1 *)
   AStep 1 CChan; AStep 1 CGo].                                       (* the waiter takes it and returns *)

Lemma witness_runs : exists s os,
  run false cfg0 (init 0) witness_acts = Some (s, os) /\
  In (ORet 1 (ROk None) 0) os /\ chk_outcome cfg0 (fold_left mon_upd (removelast os) mon0) (ORet 1 (ROk None) 0) = false.
Proof.
  eexists. eexists. split; [vm_compute; reflexivity|]. split; [vm_compute; tauto | vm_compute; reflexivity].
Qed.

Lemma outcome_refuted : exists acts s os,
  run false cfg0 (init 0) acts = Some (s, os) /\ ok_C06 cfg0 os = false.
Proof.
  exists witness_acts. eexists. eexists. split; [vm_compute; reflexivity | vm_compute; reflexivity].
Qed.

(* the same schedule on the repaired step function: the caller keeps waiting *)
Lemma witness_fixed_blocks : run true cfg0 (init 0) witness_acts = None.
Proof. vm_compute. reflexivity. Qed.

(** * The first repair (af6ced9: the sender ignores a routed control response) still loses replies

    The control response is still put into the sender's one-slot channel; a genuine reply dispatched
    before the sender has taken it out finds the slot occupied and is discarded, and the send ends in
    T3 although the peer replied at once. *)
Definition w_reply : frame := mkF 1 1 2 0 0 1 [177; 4; 0; 0; 0; 3].   (* S1F2, system bytes 1 *)

Definition lost_reply_acts : list action :=
  [ANewGen; AConnUp; APeer w_selreq; ADispatch; ADrain true;
   AStart 1 KSync w_primary;
   AStep 1 CGo; AStep 1 CGo; AStep 1 CGo; AStep 1 CGo; AStep 1 CWriteOk;
   APeer w_ltrsp; APeer w_reply;        (* Linktest.rsp(system bytes 1), then the real reply, back to back *)
   ADispatch; ADispatch;                (* both dispatched before the sender runs: the reply is discarded *)
   AStep 1 CChan;                       (* the sender takes the control response and ignores it *)
   ATick 45000; AStep 1 CTimer; AStep 1 CGo; ABarrier].

Lemma lost_reply_witness : exists s os,
  run true cfg0 (init 0) lost_reply_acts = Some (s, os) /\
  In (OPeerSent 3 w_reply) os /\ is_secondary w_reply = true /\ f_sys w_reply = 1 /\
  In (ORet 1 RT3 45000) os /\
  (forall h, ~ In (OHandler h 3) os) /\ (forall id el, ~ In (ORet id (ROk (Some (3, w_reply))) el) os) /\
  ok_C06 cfg0 os = true.
Proof.
  eexists. eexists. split; [vm_compute; reflexivity|].
  repeat split; try (vm_compute; tauto); try reflexivity.
  - intros h H. vm_compute in H. repeat (destruct H as [H|H]; [discriminate|]). exact H.
  - intros id el H. vm_compute in H. repeat (destruct H as [H|H]; [discriminate|]). exact H.
Qed.
