(** SendCoreDeclared — every run of the model is accepted by the declared-condition clause of ok_C07:
    a data-sending call (any entry point) that starts after a quiescent point at which the
    connection was not Selected (resp. never opened), and returns before anything that could change
    that (a lifecycle event, a peer Select/Deselect frame) has happened, returns NotSelected (resp.
    NotOpen). *)
From Coq Require Import ZArith Bool List Lia.
From GoSecs Require Import Hsms.SendCore Hsms.SendCoreMon Hsms.SendCoreInv Hsms.SendCoreInvSteps
  Hsms.SendCoreMonProofs Hsms.SendCoreGate Hsms.SendCoreGateMon Hsms.SendCoreRecipMon.
Import ListNotations.
Open Scope Z_scope.

Record DC (s : state) (m : mon) : Prop := mkDC {
  d_stable : forall a b, m_stable m = Some (a, b) ->
             st s = a /\ opened s = b /\ forall n f, In (n, f) (inq s) -> may_change_state f = false;
  d_cseq : forall mc, In mc (m_calls m) -> mc_cseq mc <= m_cseq m /\ (mc_cseq mc = m_cseq m -> mc_cond mc = m_stable m);
  d_calls : forall id c mc s0 op0, get id (calls s) = Some c -> mc_get id (m_calls m) = Some mc ->
            mc_open mc = true -> mc_cseq mc = m_cseq m -> mc_cond mc = Some (s0, op0) -> s0 <> SEL ->
            data_kind (c_kind c) = true ->
            c_pc c = PEnter \/ (op0 = true /\ c_pc c = PGate)
}.

Lemma DC_init : forall c0, DC (init c0) mon0.
Proof. intros c0. constructor; cbn; intros; try discriminate; try contradiction. Qed.

(* observations that do not touch the declared condition, its sequence number or the calls *)
Definition dneutral (o : obs) : bool :=
  match o with
  | OPeerRecv _ _ _ | OHandler _ _ | OAsyncErr _ _ | OBarrier | OMetric _ => true
  | _ => false
  end.

Lemma dneutral_upd : forall m o, dneutral o = true ->
  m_stable (mon_upd m o) = m_stable m /\ m_cseq (mon_upd m o) = m_cseq m /\ m_calls (mon_upd m o) = m_calls m.
Proof. intros m o H. destruct o; try discriminate; cbn; auto. Qed.

Lemma DC_dneutral_list : forall os s m, DC s m -> forallb dneutral os = true -> DC s (fold_left mon_upd os m).
Proof.
  induction os as [|o r IH]; cbn; intros s m D N; [exact D|].
  apply andb_true_iff in N. destruct N as [N1 N2]. apply IH; auto.
  destruct (dneutral_upd m o N1) as (E1 & E2 & E3). destruct D as [D1 D2 D3].
  constructor; rewrite ?E1, ?E2, ?E3; auto.
Qed.

Lemma declared_dneutral_list : forall os m, forallb dneutral os = true -> mon_run chk_declared m os = true.
Proof.
  induction os as [|o r IH]; cbn; intros m N; [reflexivity|].
  apply andb_true_iff in N. destruct N as [N1 N2]. rewrite IH by exact N2.
  destruct o; try discriminate; reflexivity.
Qed.

(* the declared condition is void once its sequence number moves on *)
Lemma DC_bump : forall s s' m m', DC s m ->
  m_calls m' = m_calls m -> m_cseq m' = m_cseq m + 1 -> m_stable m' = None -> DC s' m'.
Proof.
  intros s s' m m' [D1 D2 D3] E1 E2 E3. constructor; rewrite ?E1, ?E2, ?E3.
  - intros a b H. discriminate.
  - intros mc IN. destruct (D2 mc IN) as [L _]. split; [lia | intros X; lia].
  - intros id c mc s0 op0 G GM O CS. destruct (D2 mc (mc_get_in _ _ _ GM)) as [L _]. lia.
Qed.

(* model-side changes that keep st, opened, every call's program counter, and only shrink or keep
   the inbound queue *)
Lemma DC_env : forall s s' m, DC s m ->
  st s' = st s -> opened s' = opened s -> (forall x, In x (inq s') -> In x (inq s)) ->
  (forall id c', get id (calls s') = Some c' -> exists c, get id (calls s) = Some c /\ c_pc c = c_pc c' /\ c_kind c = c_kind c') ->
  DC s' m.
Proof.
  intros s s' m [D1 D2 D3] E1 E2 Q B. constructor; auto.
  - intros a b H. destruct (D1 a b H) as (A1 & A2 & A3). rewrite E1, E2. repeat split; auto. intros n f IN. eauto.
  - intros id c' mc s0 op0 G GM O CS CD NS DK. destruct (B id c' G) as (c & Gc & PC & K).
    rewrite <- PC. rewrite <- K in DK. eauto.
Qed.

Lemma dispatch_st_nochange : forall p s n f, may_change_state f = false -> st (fst (dispatch p s n f)) = st s.
Proof.
  intros p s n f MC. unfold may_change_state in MC. unfold dispatch.
  assert (OF : forall id r, st (offer s id r) = st s).
  { intros id r. unfold offer. destruct (get id (calls s)) as [c|]; [destruct (c_chan c)|]; reflexivity. }
  destruct (f_pt f =? 0) eqn:PT; cbn [negb orb andb] in *; [|reflexivity].
  apply orb_false_iff in MC. destruct MC as [MC S3]. apply orb_false_iff in MC. destruct MC as [S1 S2].
  destruct (valid_stype (f_st f)); cbn [negb]; [|reflexivity].
  destruct (f_st f =? 0) eqn:S0; cbn [negb andb].
  - destruct (negb (selected s)); [reflexivity|].
    destruct (if is_secondary f then reg_get (gen s) (f_sys f) (reg s) else None) as [id|]; [cbn; apply OF|].
    destruct (gcancel s); reflexivity.
  - destruct (negb match f_body f with [] => true | _ :: _ => false end); [reflexivity|].
    rewrite S1, S2, S3. cbn [orb andb].
    destruct (f_st f =? 7).
    { destruct (reg_get (gen s) (f_sys f) (reg s)) as [id|]; [cbn; apply OF | reflexivity]. }
    destruct ((f_st f =? 4) || (f_st f =? 6)).
    { destruct (route_ctl p s f) as [id|]; [cbn; apply OF | reflexivity]. }
    destruct (f_st f =? 5); reflexivity.
Qed.

Lemma dispatch_opened : forall p s n f, opened (fst (dispatch p s n f)) = opened s.
Proof.
  intros p s n f. unfold dispatch.
  assert (OF : forall id r, opened (offer s id r) = opened s).
  { intros id r. unfold offer. destruct (get id (calls s)) as [c|]; [destruct (c_chan c)|]; reflexivity. }
  repeat match goal with
         | |- opened (fst (if ?b then _ else _)) = _ => destruct b
         | |- opened (fst (match ?x with _ => _ end)) = _ => destruct x
         end; cbn; rewrite ?OF; auto.
Qed.

Section DeclSim.
Variable fx : bool.
Variable p : cfg.
Notation Inv := (Inv fx p).

(* what the first two steps of a call can do *)
Lemma step_from_enter : forall s c ch s' os c', c_pc c = PEnter ->
  step_call fx p s c ch = Some (s', os) -> get (c_id c) (calls s) = Some c -> get (c_id c) (calls s') = Some c' ->
  (opened s = true /\ c_pc c' = PGate /\ os = []) \/ (opened s = false /\ os = [ORet (c_id c) RNotOpen 0]).
Proof.
  intros s c ch s' os c' PC H G G'. unfold step_call in H. rewrite PC in H. destruct ch; try discriminate.
  destruct (opened s) eqn:O.
  - inversion H; subst. left. repeat split; auto. cbn in G'.
    pose proof (get_put_same (calls s) (set_pc (set_gen c (gen s)) PGate) c G) as GP. cbn in GP.
    rewrite GP in G'. inversion G'. reflexivity.
  - unfold finish in H. inversion H; subst. auto.
Qed.

Lemma step_from_gate : forall s c ch s' os, c_pc c = PGate -> isdata c = true -> selected s = false ->
  step_call fx p s c ch = Some (s', os) -> os = [ORet (c_id c) RNotSelected 0].
Proof.
  intros s c ch s' os PC D S H. destruct (gate_B1 fx p s c PC D S ch s' os H) as (_ & _ & E & _). exact E.
Qed.

Lemma decl_step_sim : forall s c ch s' os m,
  Inv s -> Cpl s m -> DC s m -> get (c_id c) (calls s) = Some c ->
  step_call fx p s c ch = Some (s', os) ->
  mon_run chk_declared m os = true /\ DC s' (fold_left mon_upd os m).
Proof.
  intros s c ch s' os m I C D Gc H.
  destruct (step_shape fx p _ _ _ _ _ H) as (c' & EC & EI & EK & EM & ES & EQ & EN & HH & NDc & SO).
  destruct (step_call_st fx p _ _ _ _ _ H) as (E1 & E2 & _ & _ & _ & E6).
  assert (G' : get (c_id c') (calls s) = Some c) by (rewrite EI; exact Gc).
  assert (GC' : get (c_id c) (calls s') = Some c').
  { rewrite EC. rewrite <- EI. apply (get_put_same _ _ c). exact G'. }
  pose proof (i_calls _ _ _ I _ _ Gc) as OK.
  assert (ISD : data_kind (c_kind c) = true -> isdata c = true).
  { intros DK. unfold isdata. destruct (f_st (c_msg c) =? 0) eqn:Z0; [reflexivity|]. exfalso.
    apply Z.eqb_neq in Z0. apply (ck_kind _ _ _ _ OK) in Z0. rewrite Z0 in DK. discriminate. }
  (* the declared-fresh premises about the stepping call, if they hold, pin its program counter *)
  assert (PIN : forall mc s0 op0, mc_get (c_id c) (m_calls m) = Some mc -> mc_open mc = true ->
                 mc_cseq mc = m_cseq m -> mc_cond mc = Some (s0, op0) -> s0 <> SEL -> data_kind (c_kind c) = true ->
                 st s = s0 /\ opened s = op0 /\ (c_pc c = PEnter \/ (op0 = true /\ c_pc c = PGate))).
  { intros mc s0 op0 GM O CS CD NS DK.
    destruct (d_cseq _ _ D mc (mc_get_in _ _ _ GM)) as [_ EQS]. specialize (EQS CS). rewrite CD in EQS.
    destruct (d_stable _ _ D s0 op0 (eq_sym EQS)) as (A1 & A2 & _).
    split; [exact A1|]. split; [exact A2|]. exact (d_calls _ _ D (c_id c) c mc s0 op0 Gc GM O CS CD NS DK). }
  (* the other calls are untouched; the stepping call keeps the invariant unless it returns *)
  assert (KEEP : forall m1, m_stable m1 = m_stable m -> m_cseq m1 = m_cseq m ->
            (forall id mc1, mc_get id (m_calls m1) = Some mc1 -> mc_open mc1 = true ->
               exists mc, mc_get id (m_calls m) = Some mc /\ mc_open mc = true /\ mc_cseq mc = mc_cseq mc1 /\ mc_cond mc = mc_cond mc1) ->
            (forall mc1, In mc1 (m_calls m1) -> exists mc, In mc (m_calls m) /\ mc_cseq mc = mc_cseq mc1 /\ mc_cond mc = mc_cond mc1) ->
            ((forall r, c_pc c' <> PDone r) \/ (forall mc1, mc_get (c_id c) (m_calls m1) = Some mc1 -> mc_open mc1 = false)) ->
            DC s' m1).
  { intros m1 S1 S2 MC MIN STEP. constructor; rewrite ?S1, ?S2.
    - intros a b HS. destruct (d_stable _ _ D a b HS) as (A1 & A2 & A3). rewrite E1, E2, E6. auto.
    - intros mc1 IN. destruct (MIN mc1 IN) as (mc & INm & X1 & X2). rewrite <- X1, <- X2. apply (d_cseq _ _ D mc INm).
    - intros id d mc1 s0 op0 Gd GM1 O1 CS1 CD1 NS DK.
      destruct (MC id mc1 GM1 O1) as (mc & GM & O & X1 & X2). rewrite <- X1 in CS1. rewrite <- X2 in CD1.
      destruct (Z.eq_dec id (c_id c)) as [->|NE].
      + rewrite GC' in Gd. inversion Gd; subst d. rewrite EK in DK.
        destruct (PIN mc s0 op0 GM O CS1 CD1 NS DK) as (A1 & A2 & PCS).
        destruct STEP as [NDc'|CL]; [|rewrite (CL mc1 GM1) in O1; discriminate].
        destruct PCS as [PE|[OP PG]].
        * destruct (step_from_enter _ _ _ _ _ _ PE H Gc GC') as [(O' & PG' & _)|(O' & OS)].
          -- right. split; [congruence | exact PG'].
          -- exfalso. rewrite OS in SO. inversion SO; subst; eapply NDc'; eauto.
        * exfalso. assert (SEL0 : selected s = false) by (unfold selected; rewrite A1; destruct s0; auto; contradiction).
          pose proof (step_from_gate _ _ _ _ _ PG (ISD DK) SEL0 H) as OS.
          rewrite OS in SO. inversion SO; subst; eapply NDc'; eauto.
      + rewrite EC in Gd. rewrite get_put_other in Gd by (rewrite EI; exact NE).
        eapply (d_calls _ _ D); eauto. }
  inversion SO; subst.
  - split; [reflexivity|]. cbn. apply KEEP; auto; eauto.
  - split; [reflexivity|]. cbn [fold_left]. apply KEEP; try reflexivity; auto; cbn; eauto.
  - (* return through the exit path: not a declared-fresh call (its pc is neither PEnter nor PGate) *)
    rename H0 into PX. rename H1 into PD.
    destruct (cp_calls _ _ C _ _ Gc NDc) as (mc & GM & MK & MM & MO).
    split.
    + cbn. rewrite andb_true_r. rewrite GM.
      destruct (mc_cond mc) as [[s0 op0]|] eqn:CD; [|reflexivity].
      destruct (data_kind (mc_kind mc) && (mc_cseq mc =? m_cseq m) && negb (cstate_eqb s0 SEL)) eqn:PR; [|reflexivity].
      exfalso. apply andb_true_iff in PR. destruct PR as [PR NS]. apply andb_true_iff in PR. destruct PR as [DK CS].
      apply Z.eqb_eq in CS. rewrite MK in DK.
      assert (NS' : s0 <> SEL) by (intros ->; cbn in NS; discriminate).
      destruct (PIN mc s0 op0 GM MO CS CD NS' DK) as (_ & _ & [PE|[_ PG]]); congruence.
    + cbn [fold_left]. apply KEEP; try reflexivity.
      * intros id mc1 GM1 O1. cbn in GM1. rewrite GM in GM1. rewrite (mc_get_put _ _ mc id) in GM1 by (cbn; exact GM).
        cbn in GM1. destruct (id =? c_id c) eqn:E; [inversion GM1; subst mc1; cbn in O1; discriminate|]. eauto.
      * intros mc1 IN. cbn in IN. rewrite GM in IN. apply mc_put_in in IN. destruct IN as [->|IN]; [|eauto].
        exists mc. split; [eapply mc_get_in; eauto | auto].
      * right. intros mc1 GM1. cbn in GM1. rewrite GM in GM1. rewrite (mc_get_put _ _ mc (c_id c)) in GM1 by (cbn; exact GM).
        cbn in GM1. rewrite Z.eqb_refl in GM1. inversion GM1. reflexivity.
  - (* direct return *)
    rename H0 into PD. rename H1 into DR.
    destruct (cp_calls _ _ C _ _ Gc NDc) as (mc & GM & MK & MM & MO).
    split.
    + cbn. rewrite andb_true_r. rewrite GM.
      destruct (mc_cond mc) as [[s0 op0]|] eqn:CD; [|reflexivity].
      destruct (data_kind (mc_kind mc) && (mc_cseq mc =? m_cseq m) && negb (cstate_eqb s0 SEL)) eqn:PR; [|reflexivity].
      apply andb_true_iff in PR. destruct PR as [PR NS]. apply andb_true_iff in PR. destruct PR as [DK CS].
      apply Z.eqb_eq in CS. rewrite MK in DK.
      assert (NS' : s0 <> SEL) by (intros ->; cbn in NS; discriminate).
      destruct (PIN mc s0 op0 GM MO CS CD NS' DK) as (A1 & A2 & PCS).
      destruct DR as [(PE & -> & O)|[(PG & -> & _)|(PQ & _)]].
      * rewrite <- A2, O. reflexivity.
      * destruct PCS as [X|[OP _]]; [congruence | exact OP].
      * destruct PCS as [X|[_ X]]; congruence.
    + cbn [fold_left]. apply KEEP; try reflexivity.
      * intros id mc1 GM1 O1. cbn in GM1. rewrite GM in GM1. rewrite (mc_get_put _ _ mc id) in GM1 by (cbn; exact GM).
        cbn in GM1. destruct (id =? c_id c) eqn:E; [inversion GM1; subst mc1; cbn in O1; discriminate|]. eauto.
      * intros mc1 IN. cbn in IN. rewrite GM in IN. apply mc_put_in in IN. destruct IN as [->|IN]; [|eauto].
        exists mc. split; [eapply mc_get_in; eauto | auto].
      * right. intros mc1 GM1. cbn in GM1. rewrite GM in GM1. rewrite (mc_get_put _ _ mc (c_id c)) in GM1 by (cbn; exact GM).
        cbn in GM1. rewrite Z.eqb_refl in GM1. inversion GM1. reflexivity.
Qed.

End DeclSim.

Section DeclSim2.
Variable fx : bool.
Variable p : cfg.
Notation Inv := (Inv fx p).

Lemma decl_exec_sim : forall s a s' os m,
  Inv s -> Cpl s m -> DC s m -> exec fx p s a = Some (s', os) ->
  mon_run chk_declared m os = true /\ DC s' (fold_left mon_upd os m).
Proof.
  intros s a s' os m I C D H.
  assert (SAME : forall X, st X = st s -> opened X = opened s -> (forall x, In x (inq X) -> In x (inq s)) -> calls X = calls s -> DC X m).
  { intros X E1 E2 E3 E4. eapply DC_env; eauto. intros id c' G. rewrite E4 in G. eauto. }
  destruct a.
  - (* AStart *)
    cbn in H. destruct (get id (calls s)) eqn:Gid; [discriminate|].
    destruct (id <? 0); [discriminate|].
    destruct (negb (f_st f =? 0) && negb (kind_eqb k KCtl)); [discriminate|].
    destruct ((f_st f =? 0) && kind_eqb k KCtl); [discriminate|].
    inversion H; subst; clear H. split; [reflexivity|]. cbn [fold_left].
    assert (CS : calls (if libkey k then w_ctr s (ctr s + 1) else s) = calls s) by (destruct (libkey k); reflexivity).
    destruct D as [D1 D2 D3]. constructor; cbn.
    + intros a b HS. destruct (D1 a b HS) as (A1 & A2 & A3). destruct (libkey k); cbn; auto.
    + intros mc [<-|IN]; cbn; [split; [lia | auto] | auto].
    + intros j d mc s0 op0 Gd GM O CSQ CD NS DK. cbn [calls w_calls] in Gd. rewrite CS in Gd. cbn in Gd, GM.
      destruct (id =? j) eqn:E.
      * inversion Gd; subst d. left. reflexivity.
      * eapply D3; eauto.
  - (* AStep *)
    cbn in H. destruct (get id (calls s)) as [c0|] eqn:Gc; [|discriminate].
    pose proof (get_id _ _ _ Gc) as E. subst id. exact (decl_step_sim fx p s c0 c s' os m I C D Gc H).
  - (* ACancel *)
    cbn in H. destruct (get id (calls s)) as [c0|] eqn:Gc; [|discriminate].
    inversion H; subst; clear H. split; [reflexivity|]. cbn.
    pose proof (get_id _ _ _ Gc) as E. subst id.
    eapply DC_env; eauto.
    intros id c' Gd. cbn in Gd.
    assert (G' : get (c_id (set_ctx c0 true)) (calls s) = Some c0) by exact Gc.
    destruct (get_put_inv _ _ _ _ _ G' Gd) as [[-> ->]|[Ne Gd']]; eauto.
  - (* ADrain *)
    cbn in H. destruct (sendq s) as [|[o f] q]; [discriminate|].
    assert (K : forall X o1, st X = st s -> opened X = opened s -> inq X = inq s -> calls X = calls s -> dneutral o1 = true ->
                mon_run chk_declared m [o1] = true /\ DC X (fold_left mon_upd [o1] m)).
    { intros X o1 E1 E2 E3 E4 N. split; [apply declared_dneutral_list; cbn; rewrite N; reflexivity|].
      apply DC_dneutral_list; [|cbn; rewrite N; reflexivity]. apply SAME; auto. rewrite E3. auto. }
    destruct (negb (wr_ok s (gen s))); [inversion H; subst; apply K; reflexivity|].
    destruct ((f_st f =? 0) && negb (selected s)); [inversion H; subst; apply K; reflexivity|].
    destruct ok; [inversion H; subst; apply K; reflexivity|].
    destruct (fault s); [inversion H; subst; apply K; reflexivity | discriminate].
  - (* APeer *)
    cbn in H. destruct (sock s); [|discriminate]. inversion H; subst; clear H.
    split; [reflexivity|]. cbn [fold_left].
    destruct (may_change_state f) eqn:MC.
    + eapply DC_bump; eauto; cbn; rewrite MC; reflexivity.
    + destruct D as [D1 D2 D3]. constructor; cbn; rewrite ?MC; auto.
      intros a b HS. destruct (D1 a b HS) as (A1 & A2 & A3). repeat split; auto.
      intros n g IN. apply in_app_or in IN. destruct IN as [IN|[IN|[]]]; [eauto|]. inversion IN; subst. exact MC.
  - (* ADispatch *)
    cbn in H. destruct (inq s) as [|[n f] q] eqn:EQ; [discriminate|].
    destruct (dispatch p (w_inq s q) n f) as [s1 o1] eqn:DD. inversion H; subst s' os; clear H.
    destruct (dispatch_rel _ _ _ _ _ _ DD) as (_ & A2 & _ & A4).
    destruct (dispatch_rel2 _ _ _ _ _ _ DD) as (_ & _ & B3).
    assert (DN : forallb dneutral o1 = true).
    { pose proof (dispatch_class p _ _ _ _ _ DD) as CL. inversion CL; subst; try reflexivity.
      clear. generalize 0 at 1. induction (Z.to_nat (NH p)) as [|k IH]; cbn; intros h; auto. }
    split; [apply declared_dneutral_list; exact DN|]. apply DC_dneutral_list; [|exact DN].
    destruct (m_stable m) as [[a b]|] eqn:STB.
    + destruct (d_stable _ _ D a b STB) as (A1 & A2' & A3).
      assert (MC : may_change_state f = false) by (apply (A3 n f); rewrite EQ; left; reflexivity).
      eapply DC_env; eauto.
      * pose proof (dispatch_st_nochange p (w_inq s q) n f MC) as X. rewrite DD in X. exact X.
      * pose proof (dispatch_opened p (w_inq s q) n f) as X. rewrite DD in X. exact X.
      * intros x IN. rewrite A2 in IN. cbn in IN. rewrite EQ. right. exact IN.
      * intros id c' Gd. destruct A4 as [E|(c & r & Gc & CH & E & _)]; rewrite E in Gd.
        -- cbn in Gd. eauto.
        -- cbn in Gd, Gc. assert (G' : get (c_id (set_chan c (Some r))) (calls s) = Some c) by exact Gc.
           destruct (get_put_inv _ _ _ _ _ G' Gd) as [[-> ->]|[Ne Gd']]; eauto.
    + (* no declared condition in force: nothing to preserve *)
      destruct D as [D1 D2 D3]. constructor; auto.
      * intros a b HS. congruence.
      * intros id c' mc s0 op0 Gd GM O CS CD. destruct (D2 mc (mc_get_in _ _ _ GM)) as [_ X]. specialize (X CS). congruence.
  - (* ATick *)
    cbn in H. destruct (0 <=? d); [|discriminate]. inversion H; subst. split; [reflexivity|]. cbn. apply SAME; auto.
  - cbn in H. destruct (cstate_eqb (st s) NC && (negb (opened s) || gcancel s)); [|discriminate].
    inversion H; subst. split; [reflexivity|]. cbn [fold_left]. eapply DC_bump; eauto.
  - cbn in H. destruct (opened s && negb (sock s) && negb (gcancel s) && cstate_eqb (st s) NC); [|discriminate].
    inversion H; subst. split; [reflexivity|]. cbn [fold_left]. eapply DC_bump; eauto.
  - cbn in H. destruct (opened s); [|discriminate]. inversion H; subst. split; [reflexivity|]. cbn [fold_left]. eapply DC_bump; eauto.
  - cbn in H. destruct (opened s); [|discriminate]. inversion H; subst. split; [reflexivity|]. cbn [fold_left]. eapply DC_bump; eauto.
  - cbn in H. destruct (sock s); [|discriminate]. inversion H; subst. split; [reflexivity|]. cbn [fold_left]. eapply DC_bump; eauto.
  - cbn in H. destruct (inq s), (sendq s); try discriminate. inversion H; subst. split; [reflexivity|].
    apply DC_dneutral_list; [exact D | reflexivity].
  - (* ACond *)
    cbn in H. destruct (inq s) eqn:EQ; [|discriminate]. destruct (sendq s); [|discriminate].
    inversion H; subst; clear H. split; [reflexivity|]. cbn [fold_left].
    destruct D as [D1 D2 D3]. constructor; cbn.
    + intros a b HS. inversion HS; subst. repeat split; auto. rewrite EQ. intros n f [].
    + intros mc IN. destruct (D2 mc IN) as [L _]. split; [lia | intros X; lia].
    + intros id c mc s0 op0 G GM O CS. destruct (D2 mc (mc_get_in _ _ _ GM)) as [L _]. lia.
  - cbn in H. destruct (sendq s); [|discriminate]. destruct (forallb _ (calls s)); [|discriminate].
    inversion H; subst. split; [reflexivity|]. apply DC_dneutral_list; [exact D | reflexivity].
Qed.

Theorem decl_run_sim : forall acts s s' os m,
  Inv s -> Cpl s m -> DC s m -> all_benign fx p s acts = true -> run fx p s acts = Some (s', os) ->
  mon_run chk_declared m os = true /\ DC s' (fold_left mon_upd os m).
Proof.
  induction acts as [|a r IH]; cbn; intros s s' os m I C D B H.
  - inversion H; subst. cbn. auto.
  - apply andb_true_iff in B. destruct B as [B1 B2].
    destruct (exec fx p s a) as [[s1 o1]|] eqn:E; [|discriminate].
    destruct (run fx p s1 r) as [[s2 o2]|] eqn:RR; [|discriminate].
    inversion H; subst.
    destruct (decl_exec_sim _ _ _ _ m I C D E) as [M1 D1].
    destruct (exec_sim fx p _ _ _ _ m I C B1 E) as [_ C1].
    assert (I1 : Inv s1) by (eapply exec_inv; eauto).
    destruct (IH _ _ _ _ I1 C1 D1 B2 RR) as (M2 & D2).
    rewrite mon_run_app, fold_left_app. rewrite M1, M2. auto.
Qed.

End DeclSim2.

Theorem declared_all_runs : forall fx p acts c0 s os,
  all_benign fx p (init c0) acts = true ->
  run fx p (init c0) acts = Some (s, os) -> mon_run chk_declared mon0 os = true.
Proof.
  intros fx p acts c0 s os B H.
  destruct (decl_run_sim fx p acts (init c0) s os mon0 (Inv_init fx p c0) (Cpl_init c0) (DC_init c0) B H) as (M & _).
  exact M.
Qed.
