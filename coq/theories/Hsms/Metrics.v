(** Metrics — the conservation monitor for the connection metrics (C20) over the observable log of
    the [Generations] LTS, and the counting functions its theorems are stated with.

    The counters themselves live in [Generations.state] ([mx]) and are updated by [Generations.exec]
    at exactly the places the code calls the inc/dec helpers of hsms/connection_metrics.go:

      incDataMsgSend            writeFrame, after tr.Write returned nil, data only        (WriteOk)
      incDataMsgRecv            DeliverOwnedFrame, after decode; dispatchFrame calls it
                                only for a data frame while State()==Selected               (Route)
                                [PeerSend g f] stands for one MESSAGE: a SECS-I block the peer
                                transmits again because it missed the ACK (E4 RTY) is dropped by
                                the assembler before DeliverOwnedFrame - no step of this LTS, recv
                                unchanged; likewise a block the library retransmits is one WriteOk.
                                A data frame carrying a foreign Session ID is a [PeerSend] like any
                                other: with session-id validation on, its [Route] counts it (recv+1)
                                and hands it to no waiter and no handler, and the S9F1 answer is an
                                asynchronous data call entered by the environment (sent+1 when written)
      inc/decDataMsgInflight    sendWaitReply, W-bit data, after writeFrame returned nil /
                                one defer covering all four select branches                 (Arm / Complete* )
      incDataMsgErr             sendWaitReply+sendNoReply: data and isCountedSendErr(write error);
                                sendWaitReply: data and the T3 branch                       (WriteFail / CompleteTimer)
      incDataMsgDropNotSelected dropNotSelected: B1 in sendWaitReply/sendNoReply/SendAsync,
                                B2 in writeFrame (also on the sender goroutine)            (B1 / Check)
      incAsyncSendErr           drainSendCh: any writeFrame error                           (Check / WriteFail on an async call)
      inc/decConnRetry          first statement / defer of connectLoop                      (LoopBegin / LoopEnd)
      incReconnects             connectLoop after a successful tr.Start, countReconnect     (LoopEnd true)

    Per-outcome table of one send (what [ok_C20] recomputes from the log):

      outcome (API result)                        send  err  drop  asyncErr  inflight (net)
      sync, frame on the wire, reply               +1    0    0      0         0
      sync, frame on the wire, peer Reject         +1    0    0      0         0
      sync W, frame on the wire, T3                +1   +1    0      0         0
      sync, frame on the wire, ConnClosed / ctx    +1    0    0      0         0
      sync W-clear, frame on the wire (nil)        +1    0    0      0         0
      sync, refused B1 / B2 (NotSelected)           0    0   +1      0         0
      sync, ConnClosed before the wire              0    0    0      0         0
      sync, write error                             0   +1    0      0         0
      async, refused B1                             0    0   +1      0         0
      async, enqueue ended by teardown / ctx        0    0    0      0         0
      async, drained and written                   +1    0    0      0         0
      async, drained, B2 refusal                    0    0   +1     +1         0
      async, drained, ConnClosed / write error      0    0    0     +1         0
      async, stranded in a torn-down queue          0    0    0      0         0
      control (any path)                            0    0    0   (+1 async)   0            *)
From Coq Require Import ZArith Bool List Lia Arith.
From GoSecs Require Import Hsms.Generations.
Import ListNotations.
Open Scope Z_scope.

Definition b2z (b : bool) : Z := if b then 1 else 0.

Definition is_notsel (r : result) : bool := match r with RNotSel => true | _ => false end.
Definition is_err_result (r : result) : bool := match r with RTimer | RWriteErr => true | _ => false end.

(** Monitor state: the counters recomputed from the log, the number of W-bit data calls whose
    frame is on the wire and which have not returned, and per call whether its frame is on the wire. *)
Record mon20 := mkMon20 {
  x_sent : Z; x_recv : Z; x_err : Z; x_drop : Z; x_aerr : Z; x_out : Z; x_w : nat -> bool }.
Definition mon20_0 : mon20 := mkMon20 0 0 0 0 0 0 (fun _ => false).

Definition snap_ok (x : mon20) (m : metrics) (q : bool) : bool :=
  (m_sent m =? x_sent x) && (m_recv m =? x_recv x) && (m_err m =? x_err x) && (m_drop m =? x_drop x)
  && (m_aerr m =? x_aerr x)
  && (0 <=? m_inflight m) && (m_inflight m <=? x_out x)
  && (0 <=? m_retry m) && (negb q || (m_retry m =? 0)).

Definition mon20_step (x : mon20) (o : obs) : option mon20 :=
  match o with
  | OWire g c k =>
      Some (mkMon20 (x_sent x + b2z (is_data k)) (x_recv x) (x_err x) (x_drop x) (x_aerr x)
                    (x_out x + b2z (is_syncw k)) (if is_syncw k then upd (x_w x) c true else x_w x))
  | OCompleted c k r =>
      let w := is_syncw k && x_w x c in
      Some (mkMon20 (x_sent x) (x_recv x)
                    (x_err x + b2z (is_data k && negb (is_async k) && is_err_result r))
                    (x_drop x + b2z (is_notsel r)) (x_aerr x)
                    (x_out x - b2z w) (if w then upd (x_w x) c false else x_w x))
  | OAsyncErr c k r =>
      Some (mkMon20 (x_sent x) (x_recv x) (x_err x) (x_drop x + b2z (is_notsel r)) (x_aerr x + 1) (x_out x) (x_w x))
  | ODispatch g f counted =>
      Some (mkMon20 (x_sent x) (x_recv x + b2z counted) (x_err x) (x_drop x) (x_aerr x) (x_out x) (x_w x))
  | OSnap m q => if snap_ok x m q then Some x else None
  | _ => Some x
  end.

Fixpoint mon20_run (x : mon20) (l : list obs) : option mon20 :=
  match l with
  | [] => Some x
  | o :: r => match mon20_step x o with Some x' => mon20_run x' r | None => None end
  end.

Definition ok_C20 (l : list obs) : bool :=
  match mon20_run mon20_0 l with Some _ => true | None => false end.

(** * Counting over the calls in use *)
Fixpoint cnt (P : call -> bool) (f : nat -> call) (l : list nat) : Z :=
  match l with
  | [] => 0
  | i :: r => b2z (P (f i)) + cnt P f r
  end.

Definition waiting_w (x : call) : bool :=
  is_syncw (c_kind x) && match c_phase x with PWait => true | _ => false end.
Definition wired_w (x : call) : bool :=
  is_syncw (c_kind x) && match c_phase x with PWritten | PWait => true | _ => false end.

Definition count_wire (P : kind -> bool) (w : list (nat * nat * kind)) : Z :=
  fold_right (fun e acc => b2z (P (snd e)) + acc) 0 w.

(** Observable-log counters used by the theorems. *)
Definition count_obs (P : obs -> bool) (l : list obs) : Z :=
  fold_right (fun o acc => b2z (P o) + acc) 0 l.
Definition is_counted_dispatch (o : obs) : bool := match o with ODispatch _ _ true => true | _ => false end.
Definition is_sel_data_dispatch (o : obs) : bool := match o with ODispatch _ f c => c | _ => false end.
