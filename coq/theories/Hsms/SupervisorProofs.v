From Coq Require Import ZArith Bool List Lia.
From GoSecs Require Import Hsms.Supervisor.
Import ListNotations.

(** * Monitor plumbing *)

Lemma mon_run_app m l1 l2 :
  mon_run m (l1 ++ l2) = match mon_run m l1 with Some m' => mon_run m' l2 | None => None end.
Proof.
  revert m. induction l1 as [|o l1 IH]; intros m; cbn [mon_run app]; [reflexivity|].
  destruct (mon_step m o); [apply IH|reflexivity].
Qed.

Lemma cstate_beq_refl c : cstate_beq c c = true.
Proof. destruct c; reflexivity. Qed.

Lemma cstate_beq_eq a b : cstate_beq a b = true <-> a = b.
Proof. destruct a, b; cbn; split; intros H; try reflexivity; try discriminate H. Qed.

Lemma cstate_beq_neq a b : cstate_beq a b = false <-> a <> b.
Proof. destruct a, b; cbn; split; intros H; try reflexivity; try discriminate H; try congruence; exfalso; apply H; reflexivity. Qed.

(** * The notification buffer as a chain *)

Fixpoint bufchain (start : cstate) (l : list (cstate * cstate)) (endv : cstate) : Prop :=
  match l with
  | [] => start = endv
  | (a, b) :: r => a = start /\ a <> b /\ bufchain b r endv
  end.

Lemma app_nonnil {A} (l : list A) x : l ++ [x] <> [].
Proof. destruct l; discriminate. Qed.

Lemma bufchain_snoc start l e next :
  bufchain start l e -> e <> next -> bufchain start (l ++ [(e, next)]) next.
Proof.
  revert start. induction l as [|[a b] r IH]; intros start H Hn; cbn in *.
  - subst. repeat split; assumption.
  - destruct H as (Ha & Hab & Hr). repeat split; try assumption. apply IH; assumption.
Qed.

(** * The relation between a model state and the monitor state *)

Record R (s : sup) (m : mon) : Prop := {
  R_st : m_st m = st s;
  R_emit : m_emit m = lastr s;
  R_latched : m_latched m = closed s;
  R_clbit : clbit s = closed s;
  R_closed : closed s = true -> st s = NC /\ pc s = None;
  R_pc : forall ev cur, pc s = Some (ev, cur) -> cur <> NC -> st s <> NC;
  R_buf : exists start, bufchain start (nbuf s) (lastr s) /\ (m_gap m = true \/ start = m_dlv m);
  R_gap : m_gap m = true -> nbuf s <> []
}.

Lemma R_init : R init mon0.
Proof.
  constructor; cbn; try reflexivity.
  - intros H; discriminate H.
  - intros ev cur H; discriminate H.
  - exists NC. split; [reflexivity|right; reflexivity].
  - intros H; discriminate H.
Qed.

(** Firing a deduped transition keeps the emission chain and the buffer chain. *)
Lemma fire_ok b lastv next m start b' o d :
  fire b lastv next = (b', o, d) ->
  lastv <> next ->
  m_emit m = lastv -> m_latched m = false ->
  bufchain start b lastv -> (m_gap m = true \/ start = m_dlv m) ->
  exists m', mon_run m o = Some m' /\
    m_st m' = m_st m /\ m_emit m' = next /\ m_latched m' = false /\ m_dlv m' = m_dlv m /\
    b' <> [] /\
    exists start', bufchain start' b' next /\ (m_gap m' = true \/ start' = m_dlv m').
Proof.
  intros Hf Hn He Hl Hc Hg. unfold fire in Hf.
  destruct (emit_buf b (lastv, next)) as [[b1 eo] d1] eqn:Hemit.
  assert (Heo : exists m1, mon_run m eo = Some m1 /\ m_st m1 = m_st m /\ m_emit m1 = next /\
                 m_latched m1 = false /\ m_dlv m1 = m_dlv m /\ b1 <> [] /\
                 exists start', bufchain start' b1 next /\ (m_gap m1 = true \/ start' = m_dlv m1)).
  { unfold emit_buf in Hemit. cbn [fst snd] in Hemit.
    destruct (Nat.ltb (length b) notify_cap).
    - injection Hemit as <- <- <-. cbn [mon_run mon_step].
      rewrite He, cstate_beq_refl, Hl. cbn.
      assert (E : cstate_beq lastv next = false) by (apply cstate_beq_neq; exact Hn). rewrite E. cbn.
      eexists. split; [reflexivity|]. cbn. repeat split; try assumption; [apply app_nonnil|].
      exists start. split; [apply bufchain_snoc; assumption|exact Hg].
    - destruct b as [|[oa ob] r].
      + injection Hemit as <- <- <-. cbn [mon_run mon_step].
        rewrite He, cstate_beq_refl, Hl. cbn.
        assert (E : cstate_beq lastv next = false) by (apply cstate_beq_neq; exact Hn). rewrite E. cbn.
        eexists. split; [reflexivity|]. cbn. repeat split; try assumption; [discriminate|].
        exists start. split; [|exact Hg]. cbn in Hc. subst start. cbn. repeat split; assumption.
      + injection Hemit as <- <- <-. cbn [mon_run mon_step fst snd].
        rewrite He, cstate_beq_refl, Hl. cbn.
        assert (E : cstate_beq lastv next = false) by (apply cstate_beq_neq; exact Hn). rewrite E. cbn.
        eexists. split; [reflexivity|]. cbn. repeat split; try assumption; [apply app_nonnil|].
        cbn in Hc. destruct Hc as (_ & _ & Hr).
        exists ob. split; [apply bufchain_snoc; assumption|left; reflexivity]. }
  destruct Heo as (m1 & Hrun & H1 & H2 & H3 & H4 & H5 & H6).
  destruct next; injection Hf as <- <- <-.
  - (* NC: emit, then react *)
    rewrite mon_run_app, Hrun. cbn. exists m1. repeat split; assumption.
  - cbn [mon_run mon_step]. exists m1. repeat split; assumption.
  - cbn [mon_run mon_step]. exists m1. repeat split; assumption.
Qed.

Lemma chg_ok m old new c :
  m_st m = old -> m_latched m = false ->
  (old <> new -> legal_edge old new = true) ->
  (match c with ByStep EvT7 => old <> SEL | _ => True end) ->
  exists m', mon_run m (chg old new c) = Some m' /\
    m_st m' = new /\ m_emit m' = m_emit m /\ m_dlv m' = m_dlv m /\ m_gap m' = m_gap m /\ m_latched m' = false.
Proof.
  intros Hs Hl Hedge Ht. unfold chg.
  destruct (cstate_beq old new) eqn:E.
  - apply cstate_beq_eq in E. subst new. exists m. cbn. repeat split; assumption.
  - apply cstate_beq_neq in E. cbn [mon_run mon_step].
    rewrite Hs, cstate_beq_refl, (Hedge E), Hl. cbn.
    assert (T : match c with ByStep EvT7 => negb (cstate_beq old SEL) | _ => true end = true).
    { destruct c as [|ev]; [reflexivity|]. destruct ev; try reflexivity.
      apply negb_true_iff. apply cstate_beq_neq. exact Ht. }
    rewrite T. eexists. split; [reflexivity|]. cbn. repeat split; assumption.
Qed.

(** * One action preserves the relation and is accepted by the monitor *)

Lemma commit_ok from to ev s m s' o :
  to <> NC -> legal_edge from to = true -> from <> to ->
  R s m -> commit from to ev s = (s', o) ->
  exists m', mon_run m o = Some m' /\ R s' m'.
Proof.
  intros Hnc Hedge Hne HR Hc. unfold commit in Hc.
  destruct (cstate_beq (st s) from && negb (clbit s)) eqn:E.
  - apply andb_true_iff in E. destruct E as [E1 E2].
    apply cstate_beq_eq in E1. apply negb_true_iff in E2.
    inversion Hc; subst; clear Hc.
    destruct HR as [H1 H2 H3 H4 H5 H6 H7 H8].
    assert (Hcl : closed s = false) by (rewrite <- H4; exact E2).
    cbn [mon_run mon_step]. rewrite H1, cstate_beq_refl, Hedge, H3, Hcl. cbn.
    eexists. split; [reflexivity|].
    constructor; cbn; try assumption; try reflexivity.
    + intros Hx. discriminate Hx.
    + intros ev0 cur Hpc Hcur. exact Hnc.
  - inversion Hc; subst; clear Hc. exists m. split; [reflexivity|exact HR].
Qed.

Lemma step_finish_ok s m ev cur s' o :
  R s m -> pc s = Some (ev, cur) -> step_finish s ev cur = (s', o) ->
  exists m', mon_run m o = Some m' /\ R s' m'.
Proof.
  intros HR Hpc Hsf.
  destruct HR as [H1 H2 H3 H4 H5 H6 H7 H8].
  assert (Hcl : closed s = false).
  { destruct (closed s) eqn:E; [|reflexivity]. destruct (H5 eq_refl) as [_ Hn]. rewrite Hpc in Hn. discriminate Hn. }
  assert (Hcb : clbit s = false) by (rewrite H4; exact Hcl).
  assert (Hlat : m_latched m = false) by (rewrite H3; exact Hcl).
  specialize (H6 ev cur Hpc).
  destruct H7 as (start & Hchain & Hgap).
  (* the state with pc cleared *)
  assert (R0 : R {| st := st s; clbit := clbit s; queue := queue s; pc := None; lastr := lastr s;
                    closed := closed s; nbuf := nbuf s; dropped := dropped s |} m).
  { constructor; cbn; try assumption.
    - intros Hx. rewrite Hx in Hcl. discriminate Hcl.
    - intros e c Hx. discriminate Hx.
    - exists start. split; assumption. }
  unfold step_finish in Hsf.
  destruct (event_beq ev EvSelectLost && cstate_beq cur SEL) eqn:Eab.
  { inversion Hsf; subst; clear Hsf. exists m. split; [reflexivity|exact R0]. }
  destruct ((event_beq ev EvDisconnect || event_beq ev EvT7) && existsb is_upc (queue s)) eqn:Estale.
  { (* stale asynchronous event: ignored *)
    inversion Hsf; subst; clear Hsf. exists m. split; [reflexivity|exact R0]. }
  destruct (is_echo ev) eqn:Eecho.
  { (* commit echo: reports, never stores *)
    destruct (transition cur ev) as [next ok] eqn:Etr.
    destruct (ok && cstate_beq next cur && negb (cstate_beq next (lastr s))) eqn:Econd.
    2:{ inversion Hsf; subst; clear Hsf. exists m. split; [reflexivity|exact R0]. }
    apply andb_true_iff in Econd. destruct Econd as [Ec1 Ec3].
    apply negb_true_iff in Ec3. apply cstate_beq_neq in Ec3.
    destruct (fire (nbuf s) (lastr s) next) as [[b' of] d] eqn:Ef.
    injection Hsf as <- <-.
    destruct (fire_ok (nbuf s) (lastr s) next m start b' of d Ef) as (m2 & Hr2 & P1 & P2 & P3 & P4 & Pnn & start' & P5 & P6); try assumption.
    { intros Hx. apply Ec3. symmetry. exact Hx. }
    exists m2. split; [exact Hr2|]. constructor; cbn; try assumption.
    - rewrite P1. exact H1.
    - rewrite P3. symmetry. exact Hcl.
    - intros Hx. rewrite Hx in Hcl. discriminate Hcl.
    - intros e c Hx. discriminate Hx.
    - exists start'. split; assumption.
    - intros _. exact Pnn. }
  destruct (transition cur ev) as [next ok] eqn:Etr.
  destruct ok.
  2:{ (* illegal pair: no transition; only evClose could still latch, but evClose is always legal *)
      assert (Hev : event_beq ev EvClose = false) by (destruct ev, cur; cbn in Etr; try discriminate Etr; reflexivity).
      rewrite Hev in Hsf. inversion Hsf; subst; clear Hsf. exists m. split; [reflexivity|exact R0]. }
  (* legal transition *)
  set (stored := if cstate_beq next cur then Some (st s, [])
                 else if event_beq ev EvT7 then
                        (if cstate_beq (st s) cur && negb (clbit s) then Some (next, chg (st s) next (ByStep ev)) else None)
                      else Some (next, chg (st s) next (ByStep ev))) in Hsf.
  destruct stored as [[st' o1]|] eqn:Est.
  2:{ (* T7 lost the CAS tie: abandoned *)
      assert (Hev : event_beq ev EvClose = false).
      { subst stored. destruct (cstate_beq next cur); [discriminate Est|].
        destruct ev; try reflexivity. cbn in Est. discriminate Est. }
      cbn in Hsf. inversion Hsf; subst; clear Hsf. exists m. split; [reflexivity|exact R0]. }
  (* facts about the store *)
  assert (Hst : exists m1, mon_run m o1 = Some m1 /\ m_st m1 = st' /\ m_emit m1 = m_emit m /\
                  m_dlv m1 = m_dlv m /\ m_gap m1 = m_gap m /\ m_latched m1 = false /\
                  (st' = NC -> next = NC) /\ (next = NC -> st' = NC \/ (cur = NC /\ st' = st s))).
  { subst stored.
    destruct (cstate_beq next cur) eqn:Enc.
    - inversion Est; subst; clear Est. exists m. cbn. repeat split; try assumption; try reflexivity.
      + intros Hx. apply cstate_beq_eq in Enc. subst next.
        (* st s = NC and next = cur: if cur <> NC then st s <> NC *)
        destruct cur; try reflexivity; exfalso; apply H6; try discriminate; exact Hx.
      + intros Hx. apply cstate_beq_eq in Enc. subst. right. split; reflexivity.
    - apply cstate_beq_neq in Enc.
      destruct (event_beq ev EvT7) eqn:Et7.
      + destruct (cstate_beq (st s) cur && negb (clbit s)) eqn:Ecas; [|discriminate Est].
        inversion Est; subst; clear Est.
        apply andb_true_iff in Ecas. destruct Ecas as [Ec _]. apply cstate_beq_eq in Ec.
        assert (ev = EvT7) by (destruct ev; try discriminate Et7; reflexivity). subst ev.
        assert (cur = NS /\ st' = NC) by (destruct cur; cbn in Etr; inversion Etr; try discriminate; split; reflexivity).
        destruct H as [Hc Hn]. subst cur st'.
        destruct (chg_ok m (st s) NC (ByStep EvT7) H1 Hlat) as (m1 & Hr & A & B & C & D & E).
        * intros _. rewrite Hc. reflexivity.
        * rewrite Hc. discriminate.
        * exists m1. repeat split; try assumption. intros _. left. reflexivity.
      + inversion Est; subst; clear Est.
        destruct (chg_ok m (st s) st' (ByStep ev) H1 Hlat) as (m1 & Hr & A & B & C & D & E).
        * intros Hne.
          (* legality of storing st' over the current value, from the loaded state and the pc invariant *)
          destruct ev; try (cbn in Eecho; discriminate Eecho);
            destruct cur; cbn in Etr; inversion Etr; subst; try discriminate; try congruence;
            destruct (st s) eqn:Es; try reflexivity; try congruence;
            try (exfalso; apply H6; [discriminate|reflexivity]).
        * destruct ev; try exact I. discriminate Et7.
        * exists m1. repeat split; try assumption.
          -- intros Hx. exact Hx.
          -- intros Hx. left. exact Hx. }
  destruct Hst as (m1 & Hr1 & A1 & B1 & C1 & D1 & E1 & F1 & G1).
  (* the deduped reaction *)
  assert (Hfire : exists s1 o2 m2,
            (if cstate_beq next (lastr s) then
               Some ({| st := st'; clbit := clbit s; queue := queue s; pc := None; lastr := lastr s;
                        closed := closed s; nbuf := nbuf s; dropped := dropped s |}, o1)
             else
               let '(b', o2, d) := fire (nbuf s) (lastr s) next in
               Some ({| st := st'; clbit := clbit s; queue := queue s; pc := None; lastr := next;
                        closed := closed s; nbuf := b'; dropped := dropped s + d |}, o1 ++ o2))
            = Some (s1, o2) /\ mon_run m o2 = Some m2 /\ R s1 m2 /\ st s1 = st' /\ closed s1 = false).
  { destruct (cstate_beq next (lastr s)) eqn:Enl.
    - eexists; eexists; exists m1. split; [reflexivity|]. split; [exact Hr1|]. split; [|split; [reflexivity|exact Hcl]].
      constructor; cbn; try assumption.
      + rewrite B1. exact H2.
      + rewrite E1. symmetry. exact Hcl.
      + intros Hx. rewrite Hx in Hcl. discriminate Hcl.
      + intros e c Hx. discriminate Hx.
      + exists start. split; [exact Hchain|]. rewrite D1, C1. exact Hgap.
      + rewrite D1. exact H8.
    - apply cstate_beq_neq in Enl.
      destruct (fire (nbuf s) (lastr s) next) as [[b' of] d] eqn:Ef.
      destruct (fire_ok (nbuf s) (lastr s) next m1 start b' of d Ef) as (m2 & Hr2 & P1 & P2 & P3 & P4 & Pnn & start' & P5 & P6).
      + intros Hx. apply Enl. symmetry. exact Hx.
      + rewrite B1. exact H2.
      + exact E1.
      + exact Hchain.
      + rewrite D1, C1. exact Hgap.
      + eexists; eexists; exists m2. split; [reflexivity|]. split.
        * rewrite mon_run_app, Hr1. exact Hr2.
        * split; [|split; [reflexivity|exact Hcl]]. constructor; cbn; try assumption.
          -- rewrite P1. exact A1.
          -- rewrite P3. symmetry. exact Hcl.
          -- intros Hx. rewrite Hx in Hcl. discriminate Hcl.
          -- intros e c Hx. discriminate Hx.
          -- exists start'. split; assumption.
          -- intros _. exact Pnn. }
  destruct Hfire as (s1 & o2 & m2 & Hf & Hr2 & HR1 & Hs1 & Hcl1).
  rewrite Hf in Hsf.
  destruct (event_beq ev EvClose) eqn:Eclose.
  - (* the close latch: unconditional store of NotConnected + closed bit *)
    inversion Hsf; subst; clear Hsf.
    destruct HR1 as [K1 K2 K3 K4 K5 K6 K7 K8].
    assert (Hl2 : m_latched m2 = false) by (rewrite K3; exact Hcl1).
    destruct (chg_ok m2 (st s1) NC (ByStep EvClose) K1 Hl2) as (m3 & Hr3 & Q1 & Q2 & Q3 & Q4 & Q5).
    + intros Hne. destruct (st s1); try reflexivity. exfalso; apply Hne; reflexivity.
    + exact I.
    + rewrite mon_run_app, Hr2. cbv beta iota. rewrite mon_run_app, Hr3. cbv beta iota. cbn [mon_run mon_step].
      eexists. split; [reflexivity|].
      constructor; cbn; try reflexivity.
      * exact Q1.
      * rewrite Q2. exact K2.
      * intros _. split; reflexivity.
      * intros e c Hx. discriminate Hx.
      * destruct K7 as (st2 & Kc & Kg). exists st2. split; [exact Kc|]. rewrite Q4, Q3. exact Kg.
      * rewrite Q4. exact K8.
  - inversion Hsf; subst; clear Hsf. exists m2. split; assumption.
Qed.

Lemma exec_ok s m a s' o :
  R s m -> exec s a = (s', o) -> exists m', mon_run m o = Some m' /\ R s' m'.
Proof.
  intros HR He. destruct a; cbn [exec] in He.
  - eapply (commit_ok NC NS); eauto; try reflexivity; discriminate.
  - eapply (commit_ok NS SEL); eauto; try reflexivity; discriminate.
  - eapply (commit_ok SEL NS); eauto; try reflexivity; discriminate.
  - inversion He; subst; clear He. exists m. split; [reflexivity|].
    destruct HR as [H1 H2 H3 H4 H5 H6 H7 H8]. constructor; cbn; assumption.
  - destruct (pc s) as [[ev cur]|] eqn:Epc.
    { inversion He; subst. exists m. split; [reflexivity|exact HR]. }
    destruct (queue s) as [|ev q] eqn:Eq.
    { inversion He; subst. exists m. split; [reflexivity|exact HR]. }
    destruct HR as [H1 H2 H3 H4 H5 H6 H7 H8].
    destruct (closed s) eqn:Ecl; inversion He; subst; clear He; exists m; (split; [reflexivity|]);
      constructor; cbn; try assumption.
    + intros _. destruct (H5 eq_refl) as [Hs _]. split; [exact Hs|reflexivity].
    + intros e c Hx. discriminate Hx.
    + intros Hx. discriminate Hx.
    + intros e c Hx Hc. inversion Hx; subst. exact Hc.
  - destruct (pc s) as [[ev cur]|] eqn:Epc.
    + eapply step_finish_ok; eauto.
    + inversion He; subst. exists m. split; [reflexivity|exact HR].
  - destruct (nbuf s) as [|[a b] r] eqn:Eb.
    { inversion He; subst. exists m. split; [reflexivity|exact HR]. }
    inversion He; subst; clear He.
    destruct HR as [H1 H2 H3 H4 H5 H6 H7 H8].
    destruct H7 as (start & Hc & Hg). rewrite Eb in Hc. cbn in Hc. destruct Hc as (Ha & Hab & Hr).
    cbn [mon_run mon_step fst snd].
    assert (G : (m_gap m || cstate_beq a (m_dlv m)) = true).
    { destruct Hg as [Hg|Hg]; [rewrite Hg; reflexivity|]. subst. rewrite cstate_beq_refl. apply orb_true_r. }
    assert (N : cstate_beq a b = false) by (apply cstate_beq_neq; exact Hab).
    rewrite G, N. cbn. eexists. split; [reflexivity|].
    constructor; cbn; try assumption.
    + exists b. split; [exact Hr|right; reflexivity].
    + intros Hx. discriminate Hx.
Qed.

(** * Every run of every action list is accepted *)

Lemma run_ok acts : forall s m s' o,
  R s m -> run s acts = (s', o) -> exists m', mon_run m o = Some m' /\ R s' m'.
Proof.
  induction acts as [|a rest IH]; intros s m s' o HR Hrun; cbn [run] in Hrun.
  - inversion Hrun; subst. exists m. split; [reflexivity|exact HR].
  - destruct (exec s a) as [s1 o1] eqn:He.
    destruct (run s1 rest) as [s2 o2] eqn:Hr.
    inversion Hrun; subst; clear Hrun.
    destruct (exec_ok _ _ _ _ _ HR He) as (m1 & Hm1 & HR1).
    destruct (IH _ _ _ _ HR1 Hr) as (m2 & Hm2 & HR2).
    exists m2. split; [|exact HR2]. rewrite mon_run_app, Hm1. exact Hm2.
Qed.

Theorem all_runs_ok acts : ok_C05 (snd (run init acts)) = true.
Proof.
  destruct (run init acts) as [s o] eqn:Hr. cbn [snd].
  destruct (run_ok acts _ _ _ _ R_init Hr) as (m & Hm & _).
  unfold ok_C05. rewrite Hm. reflexivity.
Qed.

(** * Drained handlers have seen the latest reported state *)

Fixpoint last_delivered (d : cstate) (l : list obs) : cstate :=
  match l with
  | [] => d
  | Delivered _ b :: r => last_delivered b r
  | _ :: r => last_delivered d r
  end.

Lemma mon_run_dlv l : forall m m', mon_run m l = Some m' -> m_dlv m' = last_delivered (m_dlv m) l.
Proof.
  induction l as [|o r IH]; intros m m' H; cbn [mon_run last_delivered] in *.
  - inversion H; reflexivity.
  - destruct (mon_step m o) as [m1|] eqn:E; [|discriminate H].
    rewrite (IH _ _ H). destruct o; cbn [mon_step] in E;
      try (match type of E with (if ?c then _ else _) = _ => destruct c; [|discriminate E] end);
      inversion E; subst; reflexivity.
Qed.

Theorem drained_sees_last_reported acts :
  nbuf (fst (run init acts)) = [] ->
  last_delivered NC (snd (run init acts)) = lastr (fst (run init acts)).
Proof.
  destruct (run init acts) as [s o] eqn:Hr. cbn [fst snd]. intros Hn.
  destruct (run_ok acts _ _ _ _ R_init Hr) as (m & Hm & HR).
  rewrite <- (mon_run_dlv _ _ _ Hm : m_dlv m = last_delivered NC o).
  destruct HR as [_ _ _ _ _ _ (start & Hc & Hg) Hgap].
  rewrite Hn in Hc. cbn in Hc.
  destruct Hg as [Hg|Hg]; [exfalso; apply (Hgap Hg); exact Hn|]. congruence.
Qed.
