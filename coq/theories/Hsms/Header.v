(** HSMS message header and message values (hsms/message.go, data_msg.go, control_msg.go,
    id_gen.go).

    A header is the Go [[10]byte] value, field for field; the E37 "fields" (session id, stream,
    W-bit, function, PType, SType, system bytes) are accessor functions exactly as in the code.
    The SECS-II body is abstract: its encoded bytes ([list Z], each [< 256]); "item carries a
    deferred error" is the constructor input [ItemErr]. No proofs in this file. *)
From Coq Require Import ZArith Bool List Lia.
Import ListNotations.
Open Scope Z_scope.

(** ** bytes *)
Definition byte_ok (b : Z) : Prop := 0 <= b < 256.
Definition byteb (b : Z) : bool := (0 <=? b) && (b <? 256).
Definition bytes_ok (l : list Z) : Prop := Forall byte_ok l.
Definition bytesb (l : list Z) : bool := forallb byteb l.
Definition len {A} (l : list A) : Z := Z.of_nat (length l).

(** big-endian packing, as [binary.BigEndian.PutUint16/PutUint32] and the shifts in [ToBytes] *)
Definition be16 (v : Z) : list Z := [(v / 256) mod 256; v mod 256].
Definition be32 (v : Z) : list Z :=
  [(v / 16777216) mod 256; (v / 65536) mod 256; (v / 256) mod 256; v mod 256].
Definition de16 (a b : Z) : Z := a * 256 + b.
Definition de32 (a b c d : Z) : Z := ((a * 256 + b) * 256 + c) * 256 + d.

(** ** the [[10]byte] header *)
Record hdr := mkHdr {
  h0 : Z; h1 : Z;            (* session id, big-endian *)
  h2 : Z;                    (* W-bit (bit 7) + stream (bits 0-6); control: byte 2 *)
  h3 : Z;                    (* function; control: status / reason *)
  h4 : Z;                    (* PType *)
  h5 : Z;                    (* SType *)
  h6 : Z; h7 : Z; h8 : Z; h9 : Z   (* system bytes *)
}.

Definition hdr_zero : hdr := mkHdr 0 0 0 0 0 0 0 0 0 0.
Definition hdr_bytes (h : hdr) : list Z :=
  [h0 h; h1 h; h2 h; h3 h; h4 h; h5 h; h6 h; h7 h; h8 h; h9 h].
Definition hdr_ok (h : hdr) : Prop := bytes_ok (hdr_bytes h).

(** first ten bytes of a slice as a header value + the rest ([copy(h[:], owned[0:10])], [owned[10:]]) *)
Definition hdr_split (l : list Z) : option (hdr * list Z) :=
  match l with
  | a0 :: a1 :: a2 :: a3 :: a4 :: a5 :: a6 :: a7 :: a8 :: a9 :: rest =>
      Some (mkHdr a0 a1 a2 a3 a4 a5 a6 a7 a8 a9, rest)
  | _ => None
  end.

(** accessors ([SessionID], [Stream], [WaitBit], [Function], [SystemBytes], [ID]) *)
Definition session_id (h : hdr) : Z := de16 (h0 h) (h1 h).
Definition stream_of (h : hdr) : Z := Z.land (h2 h) 127.
Definition wait_bit (h : hdr) : bool := negb (Z.shiftr (h2 h) 7 =? 0).
Definition function_of (h : hdr) : Z := h3 h.
Definition ptype_of (h : hdr) : Z := h4 h.
Definition stype_of (h : hdr) : Z := h5 h.
Definition system_bytes (h : hdr) : Z * Z * Z * Z := (h6 h, h7 h, h8 h, h9 h).
Definition msg_id (h : hdr) : Z := de32 (h6 h) (h7 h) (h8 h) (h9 h).

(** [ToSystemBytes] / [FromSystemBytes] (id_gen.go) *)
Definition to_system_bytes (id : Z) : Z * Z * Z * Z :=
  ((id / 16777216) mod 256, (id / 65536) mod 256, (id / 256) mod 256, id mod 256).
Definition from_system_bytes (sb : Z * Z * Z * Z) : Z :=
  let '(a, b, c, d) := sb in de32 a b c d.

(** header writers used by every factory *)
Definition put_sid (h : hdr) (sid : Z) : hdr :=
  mkHdr ((sid / 256) mod 256) (sid mod 256) (h2 h) (h3 h) (h4 h) (h5 h) (h6 h) (h7 h) (h8 h) (h9 h).
Definition put_sys (h : hdr) (sb : Z * Z * Z * Z) : hdr :=
  let '(a, b, c, d) := sb in
  mkHdr (h0 h) (h1 h) (h2 h) (h3 h) (h4 h) (h5 h) a b c d.
Definition put_b2 (h : hdr) (v : Z) : hdr :=
  mkHdr (h0 h) (h1 h) v (h3 h) (h4 h) (h5 h) (h6 h) (h7 h) (h8 h) (h9 h).
Definition put_b3 (h : hdr) (v : Z) : hdr :=
  mkHdr (h0 h) (h1 h) (h2 h) v (h4 h) (h5 h) (h6 h) (h7 h) (h8 h) (h9 h).
Definition put_st (h : hdr) (v : Z) : hdr :=
  mkHdr (h0 h) (h1 h) (h2 h) (h3 h) (h4 h) v (h6 h) (h7 h) (h8 h) (h9 h).
Definition put_b01 (h : hdr) (a b : Z) : hdr :=
  mkHdr a b (h2 h) (h3 h) (h4 h) (h5 h) (h6 h) (h7 h) (h8 h) (h9 h).

(** ** SType values (message.go) — literals here; Gen/BridgeFrames.v proves them equal to the
    constants and to [IsValidSType] regenerated from the source. *)
Definition ST_DATA : Z := 0.
Definition ST_SELECT_REQ : Z := 1.
Definition ST_SELECT_RSP : Z := 2.
Definition ST_DESELECT_REQ : Z := 3.
Definition ST_DESELECT_RSP : Z := 4.
Definition ST_LINKTEST_REQ : Z := 5.
Definition ST_LINKTEST_RSP : Z := 6.
Definition ST_REJECT_REQ : Z := 7.
Definition ST_SEPARATE_REQ : Z := 9.
Definition ST_UNDEFINED : Z := 255.
Definition MAX_STREAM : Z := 127.
Definition REJECT_PTYPE_NOT_SUPPORTED : Z := 2.

Definition valid_stype (b : Z) : bool :=
  (b =? 0) || (b =? 1) || (b =? 2) || (b =? 3) || (b =? 4) || (b =? 5) || (b =? 6) || (b =? 7) || (b =? 9).

(** ** messages *)
Record dmsg := mkD { d_hdr : hdr; d_body : list Z }.
Record cmsg := mkC { c_hdr : hdr; c_reply : bool }.
Inductive msg := MData (d : dmsg) | MCtrl (c : cmsg).

Definition msg_hdr (m : msg) : hdr := match m with MData d => d_hdr d | MCtrl c => c_hdr c end.
Definition msg_body (m : msg) : list Z := match m with MData d => d_body d | MCtrl _ => [] end.

(** [Type()]: a data message is always type 0; a control message reports its SType byte if it is
    a defined one and the sentinel 255 otherwise. *)
Definition ctrl_type (c : cmsg) : Z := if valid_stype (h5 (c_hdr c)) then h5 (c_hdr c) else ST_UNDEFINED.
Definition msg_type (m : msg) : Z := match m with MData _ => ST_DATA | MCtrl c => ctrl_type c end.

Inductive result (A E : Type) := Ok (a : A) | Err (e : E).
Arguments Ok {A E} a.
Arguments Err {A E} e.

(** ** NewDataMessage (Q3 validation, header packing) *)
Inductive item_in := ItemNil | ItemOk (enc : list Z) | ItemErr.
Inductive cerr := EStream | EItem | ERspW.

Definition item_body (it : item_in) : list Z := match it with ItemOk enc => enc | _ => [] end.

Definition new_data_message (stream fn : Z) (w : bool) (sid : Z) (sb : Z * Z * Z * Z) (it : item_in)
  : result dmsg cerr :=
  if stream >? MAX_STREAM then Err EStream
  else match it with
       | ItemErr => Err EItem
       | _ =>
         if w && (fn mod 2 =? 0) then Err ERspW
         else
           let b2 := Z.land stream 127 in
           let b2 := if w then Z.lor b2 128 else b2 in
           let h := put_sys (put_b3 (put_b2 (put_sid hdr_zero sid) b2) fn) sb in
           Ok (mkD h (item_body it))
       end.

(** [NewDataMessageFromHeader] *)
Inductive herr := HPType | HSType | HCons (e : cerr).
Definition new_data_message_from_header (h : hdr) (it : item_in) : result dmsg herr :=
  if negb (h4 h =? 0) then Err HPType
  else if negb (h5 h =? 0) then Err HSType
  else match new_data_message (stream_of h) (function_of h) (wait_bit h) (session_id h) (system_bytes h) it with
       | Ok d => Ok d
       | Err e => Err (HCons e)
       end.

(** ** control factories *)
Definition ctrl_req (st : Z) (sid : Z) (sb : Z * Z * Z * Z) (reply : bool) : cmsg :=
  mkC (put_sys (put_st (put_sid hdr_zero sid) st) sb) reply.

Definition new_select_req (sid : Z) sb : cmsg := ctrl_req ST_SELECT_REQ sid sb true.
Definition new_deselect_req (sid : Z) sb : cmsg := ctrl_req ST_DESELECT_REQ sid sb true.
Definition new_separate_req (sid : Z) sb : cmsg := ctrl_req ST_SEPARATE_REQ sid sb false.
Definition new_linktest_req sb : cmsg :=
  mkC (put_sys (put_st (put_b01 hdr_zero 255 255) ST_LINKTEST_REQ) sb) true.

(** a .rsp copies session id bytes and system bytes from the request and puts the status in byte 3 *)
Definition rsp_of (req : cmsg) (st : Z) (status : Z) : cmsg :=
  let r := c_hdr req in
  mkC (put_sys (put_st (put_b3 (put_b01 hdr_zero (h0 r) (h1 r)) status) st) (system_bytes r)) false.

Definition new_select_rsp (req : cmsg) (status : Z) : option cmsg :=
  if ctrl_type req =? ST_SELECT_REQ then Some (rsp_of req ST_SELECT_RSP status) else None.
Definition new_deselect_rsp (req : cmsg) (status : Z) : option cmsg :=
  if ctrl_type req =? ST_DESELECT_REQ then Some (rsp_of req ST_DESELECT_RSP status) else None.
Definition new_linktest_rsp (req : cmsg) : option cmsg :=
  if ctrl_type req =? ST_LINKTEST_REQ then
    Some (mkC (put_sys (put_st (put_b01 hdr_zero 255 255) ST_LINKTEST_RSP) (system_bytes (c_hdr req))) false)
  else None.

Definition new_reject_req_raw (sid ptype stype : Z) sb (reason : Z) : cmsg :=
  let b2 := if reason =? REJECT_PTYPE_NOT_SUPPORTED then ptype else stype in
  mkC (put_sys (put_st (put_b3 (put_b2 (put_sid hdr_zero sid) b2) reason) ST_REJECT_REQ) sb) false.

Definition new_reject_req (rejected : msg) (reason : Z) : cmsg :=
  let h := msg_hdr rejected in
  let b2 := if msg_type rejected =? ST_DATA then 0
            else if reason =? REJECT_PTYPE_NOT_SUPPORTED then h4 h else h5 h in
  mkC (put_sys (put_st (put_b3 (put_b2 (put_sid hdr_zero (session_id h)) b2) reason) ST_REJECT_REQ)
         (system_bytes h)) false.

(** [GetRejectReasonCode]: 0 = ok, 1 = not a reject, 2 = reason outside [1,4] *)
Definition get_reject_reason (m : msg) : Z * Z :=
  if negb (msg_type m =? ST_REJECT_REQ) then (0, 1)
  else let r := h3 (msg_hdr m) in
       if (r <? 1) || (r >? 4) then (0, 2) else (r, 0).

(** ** re-stamping (immutable withers; the body and the decode cell are shared, see Frame.v) *)
Definition d_with_session_id (d : dmsg) (id : Z) : dmsg := mkD (put_sid (d_hdr d) id) (d_body d).
Definition d_with_system_bytes (d : dmsg) sb : dmsg := mkD (put_sys (d_hdr d) sb) (d_body d).
Definition d_with_id (d : dmsg) (id : Z) : dmsg := d_with_system_bytes d (to_system_bytes id).
Definition c_with_session_id (c : cmsg) (id : Z) : cmsg := mkC (put_sid (c_hdr c) id) (c_reply c).
Definition c_with_system_bytes (c : cmsg) sb : cmsg := mkC (put_sys (c_hdr c) sb) (c_reply c).

Inductive stamp := SetSid (id : Z) | SetSys (sb : Z * Z * Z * Z) | SetId (id : Z).
Definition stamp_d (d : dmsg) (s : stamp) : dmsg :=
  match s with
  | SetSid id => d_with_session_id d id
  | SetSys sb => d_with_system_bytes d sb
  | SetId id => d_with_id d id
  end.
Definition stamp_c (c : cmsg) (s : stamp) : cmsg :=
  match s with
  | SetSid id => c_with_session_id c id
  | SetSys sb => c_with_system_bytes c sb
  | SetId id => c_with_system_bytes c (to_system_bytes id)
  end.
Definition stamp_msg (m : msg) (s : stamp) : msg :=
  match m with MData d => MData (stamp_d d s) | MCtrl c => MCtrl (stamp_c c s) end.
Definition stamp_chain (m : msg) (ss : list stamp) : msg := fold_left stamp_msg ss m.

(** ** Derive / builder: seeded from the message, overridden, re-validated by [Build].
    [it] is what [Item()] of the source message yields at the abstract level: its body when the
    body decodes, the empty item otherwise (the nil guard in [Derive]). *)
Record builder := mkB {
  b_sid : Z; b_sys : Z * Z * Z * Z; b_stream : Z; b_fn : Z; b_w : bool; b_item : item_in
}.
Definition derive (d : dmsg) (body_decodes : bool) : builder :=
  let h := d_hdr d in
  mkB (session_id h) (system_bytes h) (stream_of h) (function_of h) (wait_bit h)
      (if body_decodes then ItemOk (d_body d) else ItemNil).
Inductive bop :=
  BStream (v : Z) | BFunction (v : Z) | BWait (w : bool) | BItem (it : item_in)
| BSid (id : Z) | BSys (sb : Z * Z * Z * Z) | BId (id : Z).
Definition bstep (b : builder) (o : bop) : builder :=
  match o with
  | BStream v => mkB (b_sid b) (b_sys b) v (b_fn b) (b_w b) (b_item b)
  | BFunction v => mkB (b_sid b) (b_sys b) (b_stream b) v (b_w b) (b_item b)
  | BWait w => mkB (b_sid b) (b_sys b) (b_stream b) (b_fn b) w (b_item b)
  | BItem it => mkB (b_sid b) (b_sys b) (b_stream b) (b_fn b) (b_w b) it
  | BSid id => mkB id (b_sys b) (b_stream b) (b_fn b) (b_w b) (b_item b)
  | BSys sb => mkB (b_sid b) sb (b_stream b) (b_fn b) (b_w b) (b_item b)
  | BId id => mkB (b_sid b) (to_system_bytes id) (b_stream b) (b_fn b) (b_w b) (b_item b)
  end.
Definition build (b : builder) : result dmsg cerr :=
  new_data_message (b_stream b) (b_fn b) (b_w b) (b_sid b) (b_sys b) (b_item b).
Definition derive_build (d : dmsg) (body_decodes : bool) (ops : list bop) : result dmsg cerr :=
  build (fold_left bstep ops (derive d body_decodes)).
