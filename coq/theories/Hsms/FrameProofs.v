(** Proofs about Hsms/Frame.v: frame layout, length prefix, wire buffers, round trips both ways,
    exact acceptance, totality of the instrumented twins, the size edge, the shared decode cell. *)
From Coq Require Import ZArith Bool List Lia ZifyBool.
From GoSecs Require Import Hsms.Header Hsms.HeaderProofs Hsms.Frame.
Import ListNotations.
Open Scope Z_scope.

Ltac Zify.zify_post_hook ::= Z.div_mod_to_equations.

(** ** [len] *)
Lemma len_app {A} (a b : list A) : len (a ++ b) = len a + len b.
Proof. unfold len. rewrite app_length. lia. Qed.
Lemma len_nonneg {A} (a : list A) : 0 <= len a.
Proof. unfold len. lia. Qed.
Lemma len_cons {A} (x : A) l : len (x :: l) = 1 + len l.
Proof. unfold len. cbn [length]. lia. Qed.
Lemma len_nil {A} : len (@nil A) = 0.
Proof. reflexivity. Qed.
Lemma len_hdr h : len (hdr_bytes h) = 10.
Proof. reflexivity. Qed.
Lemma len_be32 v : len (be32 v) = 4.
Proof. reflexivity. Qed.

(** ** layout *)
Definition forget_reply (m : msg) : msg :=
  match m with MData d => MData d | MCtrl c => MCtrl (mkC (c_hdr c) false) end.

Lemma to_bytes_layout m :
  to_bytes m = be32 (10 + len (msg_body m)) ++ hdr_bytes (msg_hdr m) ++ msg_body m.
Proof.
  destruct m as [d|c]; cbn [to_bytes msg_body msg_hdr]; [reflexivity|].
  unfold ctrl_to_bytes. rewrite app_nil_r. reflexivity.
Qed.

Lemma to_bytes_len m : len (to_bytes m) = 14 + len (msg_body m).
Proof. rewrite to_bytes_layout, !len_app, len_be32, len_hdr. lia. Qed.

Lemma to_bytes_prefix m : firstn 4 (to_bytes m) = be32 (10 + len (msg_body m)).
Proof. rewrite to_bytes_layout. reflexivity. Qed.
Lemma to_bytes_header m : firstn 10 (skipn 4 (to_bytes m)) = hdr_bytes (msg_hdr m).
Proof. rewrite to_bytes_layout. cbn [be32 app skipn]. destruct (msg_hdr m); reflexivity. Qed.
Lemma to_bytes_body m : skipn 14 (to_bytes m) = msg_body m.
Proof. rewrite to_bytes_layout. cbn [be32 app skipn]. destruct (msg_hdr m); reflexivity. Qed.

(** the length prefix read back as a number *)
Lemma to_bytes_length_field m :
  10 + len (msg_body m) < 4294967296 ->
  de32 (nth 0 (to_bytes m) 0) (nth 1 (to_bytes m) 0) (nth 2 (to_bytes m) 0) (nth 3 (to_bytes m) 0)
  = 10 + len (msg_body m).
Proof.
  intros H. rewrite to_bytes_layout. cbn [be32 app nth].
  apply de32_be32. pose proof (len_nonneg (msg_body m)). lia.
Qed.

Lemma to_bytes_bytes_ok m : hdr_ok (msg_hdr m) -> bytes_ok (msg_body m) -> bytes_ok (to_bytes m).
Proof.
  intros H B. rewrite to_bytes_layout. unfold bytes_ok in *.
  apply Forall_app; split; [apply be32_bytes_ok|]. apply Forall_app; split; assumption.
Qed.

(** ** what the socket gets *)
Lemma frame_buffers_concat m : concat (frame_buffers m) = to_bytes m.
Proof.
  destruct m as [d|c]; cbn [frame_buffers to_bytes].
  - unfold data_to_bytes. destruct (len (d_body d) >? 0) eqn:E.
    + cbn [concat]. rewrite app_nil_r, <- app_assoc. reflexivity.
    + assert (L : len (d_body d) = 0) by (pose proof (len_nonneg (d_body d)); lia).
      destruct (d_body d) as [|x l]; [|rewrite len_cons in L; pose proof (len_nonneg l); lia].
      cbn [concat]. rewrite !app_nil_r. reflexivity.
  - cbn [concat]. rewrite app_nil_r. reflexivity.
Qed.

Lemma frame_buffers_nonempty m : Forall (fun b => b <> []) (frame_buffers m).
Proof.
  destruct m as [d|c]; cbn [frame_buffers].
  - destruct (len (d_body d) >? 0) eqn:E.
    + repeat constructor; [discriminate|]. intros N. rewrite N in E. discriminate.
    + repeat constructor. discriminate.
  - repeat constructor. discriminate.
Qed.

(** ** decode after encode *)
Definition wf_msg (cap : Z) (m : msg) : Prop :=
  10 + len (msg_body m) <= cap /\ h4 (msg_hdr m) = 0 /\
  match m with
  | MData d => h5 (d_hdr d) = 0
  | MCtrl c => valid_stype (h5 (c_hdr c)) = true /\ h5 (c_hdr c) <> 0
  end.

Lemma decode_owned_hdr h body :
  decode_owned (hdr_bytes h ++ body) =
  if negb (h4 h =? 0) then Err EPType
  else if h5 h =? 0 then Ok (MData (mkD h body))
  else if valid_stype (h5 h) then Ok (MCtrl (mkC h false)) else Err ESType.
Proof.
  unfold decode_owned. rewrite hdr_split_bytes.
  destruct (negb (h4 h =? 0)); [reflexivity|].
  destruct (h5 h =? 0) eqn:E0; [reflexivity|].
  unfold valid_stype. rewrite E0. cbn [orb]. reflexivity.
Qed.

Lemma decode_message_frame cap n h body :
  0 <= n < 4294967296 ->
  decode_message cap (be32 n ++ hdr_bytes h ++ body) =
  if n <? 10 then Err ELenSmall
  else if n >? cap then Err ELenBig
  else if negb (10 + len body =? n) then Err ELenMismatch
  else decode_owned (hdr_bytes h ++ body).
Proof.
  intros Hn. unfold decode_message.
  rewrite !len_app, len_be32, len_hdr. pose proof (len_nonneg body) as Hb.
  replace (4 + (10 + len body) <? 14) with false by lia.
  cbn [be32 app]. rewrite de32_be32 by exact Hn.
  destruct (n <? 10); [reflexivity|]. destruct (n >? cap); [reflexivity|].
  replace (4 + (10 + len body) =? 4 + n) with (10 + len body =? n) by lia.
  reflexivity.
Qed.

(** round trip: the decoded message has the same header and body, and re-serialises to the same
    bytes (a decoded control message does not carry the local reply-expected flag) *)
Lemma decode_to_bytes cap m :
  cap < 4294967296 -> wf_msg cap m ->
  decode_message cap (to_bytes m) = Ok (forget_reply m) /\
  to_bytes (forget_reply m) = to_bytes m.
Proof.
  intros Hc (Hl & H4 & Hk). pose proof (len_nonneg (msg_body m)) as Hb.
  split; [|destruct m; reflexivity].
  rewrite to_bytes_layout, decode_message_frame by lia.
  replace (10 + len (msg_body m) <? 10) with false by lia.
  replace (10 + len (msg_body m) >? cap) with false by lia.
  rewrite Z.eqb_refl. cbn [negb]. rewrite decode_owned_hdr, H4. cbn [Z.eqb negb].
  destruct m as [d|c]; cbn [msg_hdr msg_body forget_reply] in *.
  - rewrite Hk. cbn [Z.eqb]. destruct d; reflexivity.
  - destruct Hk as [V N]. destruct (h5 (c_hdr c) =? 0) eqn:E; [lia|]. rewrite V. reflexivity.
Qed.

(** the size edge (DESIGN §5 #10): a body longer than cap-10 serialises to a frame its own
    decoder refuses *)
Lemma decode_to_bytes_oversize cap d :
  10 <= cap -> cap < 10 + len (d_body d) < 4294967296 ->
  decode_message cap (to_bytes (MData d)) = Err ELenBig.
Proof.
  intros Hc H. rewrite to_bytes_layout, decode_message_frame by (cbn [msg_body]; lia).
  cbn [msg_body]. replace (10 + len (d_body d) <? 10) with false by lia.
  replace (10 + len (d_body d) >? cap) with true by lia. reflexivity.
Qed.

(** ** encode after decode: an accepted data frame is reproduced byte for byte *)
Lemma nth_firstn4 (bs : list Z) a b c d rest :
  bs = a :: b :: c :: d :: rest ->
  nth 0 bs 0 = a /\ nth 1 bs 0 = b /\ nth 2 bs 0 = c /\ nth 3 bs 0 = d /\ skipn 4 bs = rest.
Proof. intros ->. repeat split; reflexivity. Qed.

Lemma decode_message_inv cap bs m :
  bytes_ok bs -> decode_message cap bs = Ok m ->
  exists h body,
    bs = be32 (10 + len body) ++ hdr_bytes h ++ body /\ 10 + len body <= cap /\ h4 h = 0 /\
    valid_stype (h5 h) = true /\
    ((h5 h = 0 /\ m = MData (mkD h body)) \/ (h5 h <> 0 /\ m = MCtrl (mkC h false))).
Proof.
  intros B. unfold decode_message.
  destruct (len bs <? 14) eqn:L; [discriminate|].
  destruct bs as [|l0 [|l1 [|l2 [|l3 rest]]]]; try discriminate.
  set (n := de32 l0 l1 l2 l3).
  destruct (n <? 10) eqn:N1; [discriminate|].
  destruct (n >? cap) eqn:N2; [discriminate|].
  destruct (len (l0 :: l1 :: l2 :: l3 :: rest) =? 4 + n) eqn:N3; [|discriminate].
  cbn [negb]. unfold decode_owned.
  destruct (hdr_split rest) as [[h body]|] eqn:S; [|discriminate].
  apply hdr_split_inv in S. subst rest.
  intros D. exists h, body.
  rewrite !len_cons, len_app, len_hdr in N3.
  assert (En : n = 10 + len body) by lia.
  unfold bytes_ok in B. inversion B as [|? ? B0 B']; subst. inversion B' as [|? ? B1 B'']; subst.
  inversion B'' as [|? ? B2 B''']; subst. inversion B''' as [|? ? B3 _]; subst.
  split.
  - rewrite <- En. unfold n. rewrite be32_de32 by assumption. reflexivity.
  - split; [lia|].
    destruct (h4 h =? 0) eqn:P; cbn [negb] in D; [|discriminate].
    split; [lia|].
    destruct (h5 h =? 0) eqn:S0.
    + injection D as <-. split; [unfold valid_stype; rewrite S0; reflexivity|]. left. split; [lia|reflexivity].
    + match type of D with (if ?c then _ else _) = _ => destruct c eqn:V end; [|discriminate].
      injection D as <-. split.
      * unfold valid_stype. rewrite S0. cbn [orb]. exact V.
      * right. split; [lia|reflexivity].
Qed.

Lemma to_bytes_decode_data cap bs d :
  bytes_ok bs -> decode_message cap bs = Ok (MData d) -> to_bytes (MData d) = bs.
Proof.
  intros B D. destruct (decode_message_inv cap bs _ B D) as (h & body & -> & _ & _ & _ & [[_ E]|[_ E]]).
  - injection E as ->. reflexivity.
  - discriminate.
Qed.

(** a header-only control frame is reproduced too; a control frame WITH a body is accepted by
    the decode entry points (only the live responder rejects it) and the body is dropped *)
Lemma to_bytes_decode_ctrl cap bs c :
  bytes_ok bs -> decode_message cap bs = Ok (MCtrl c) ->
  to_bytes (MCtrl c) = [0; 0; 0; 10] ++ firstn 10 (skipn 4 bs) /\ (len bs = 14 -> to_bytes (MCtrl c) = bs).
Proof.
  intros B D. destruct (decode_message_inv cap bs _ B D) as (h & body & -> & _ & _ & _ & [[_ E]|[_ E]]).
  - discriminate.
  - injection E as ->. cbn [to_bytes ctrl_to_bytes c_hdr].
    split.
    + cbn [be32 app skipn]. destruct h; reflexivity.
    + rewrite !len_app, len_be32, len_hdr. intros L.
      assert (L0 : len body = 0) by lia.
      destruct body as [|x l]; [|rewrite len_cons in L0; pose proof (len_nonneg l); lia].
      cbn [len length Z.of_nat Z.add]. rewrite app_nil_r. reflexivity.
Qed.

(** ** exact acceptance *)
Lemma valid_stype_cases st :
  valid_stype st =
  ((st =? 0) || ((st =? 1) || (st =? 2) || (st =? 3) || (st =? 4) || (st =? 5) || (st =? 6) || (st =? 7) || (st =? 9))).
Proof. unfold valid_stype. destruct (st =? 0); reflexivity. Qed.

Lemma decode_owned_ok_iff p :
  (exists m, decode_owned p = Ok m) <-> 10 <= len p /\ nth 4 p 0 = 0 /\ valid_stype (nth 5 p 0) = true.
Proof.
  unfold decode_owned.
  destruct (hdr_split p) as [[h body]|] eqn:S.
  - apply hdr_split_inv in S. subst p. rewrite len_app, len_hdr. pose proof (len_nonneg body).
    destruct h as [x0 x1 x2 x3 x4 x5 x6 x7 x8 x9]. cbn [hdr_bytes app nth h4 h5].
    rewrite valid_stype_cases.
    destruct (x4 =? 0) eqn:P; cbn [negb].
    + destruct (x5 =? 0) eqn:S0; cbn [orb].
      * split; [intros _; repeat split; lia|intros _; eexists; reflexivity].
      * match goal with |- context [if ?c then _ else _] => destruct c eqn:V end.
        -- split; [intros _; repeat split; lia|intros _; eexists; reflexivity].
        -- split; [intros [m D]; discriminate|intros (_ & _ & F); discriminate].
    + split; [intros [m D]; discriminate|intros (_ & F & _); lia].
  - apply hdr_split_none in S. split; [intros [m D]; discriminate|lia].
Qed.

Lemma decode_payload_ok_iff cap p : (exists m, decode_payload cap p = Ok m) <-> wf_payload cap p.
Proof.
  unfold decode_payload, wf_payload.
  destruct (len p <? 10) eqn:A.
  - split; [intros [m D]; discriminate|lia].
  - destruct (len p >? cap) eqn:C.
    + split; [intros [m D]; discriminate|lia].
    + rewrite decode_owned_ok_iff. split; intros (H1 & H2 & H3); repeat split; auto; lia.
Qed.

Lemma decode_message_ok_iff cap bs : (exists m, decode_message cap bs = Ok m) <-> wf_frame cap bs.
Proof.
  unfold decode_message, wf_frame, wf_payload.
  destruct (len bs <? 14) eqn:L.
  - split; [intros [m D]; discriminate|].
    intros (H4 & _ & (H10 & _) & _).
    assert (len (skipn 4 bs) = len bs - 4).
    { unfold len in *. rewrite skipn_length. lia. }
    lia.
  - destruct bs as [|l0 [|l1 [|l2 [|l3 rest]]]]; try (cbn in L; discriminate).
    cbn [nth skipn]. set (n := de32 l0 l1 l2 l3).
    rewrite !len_cons in *. pose proof (len_nonneg rest) as Hr.
    destruct (n <? 10) eqn:N1.
    + split; [intros [m D]; discriminate|intros (_ & E & (H10 & _) & _); lia].
    + destruct (n >? cap) eqn:N2.
      * split; [intros [m D]; discriminate|intros (_ & E & (_ & Hc) & _); lia].
      * destruct (1 + (1 + (1 + (1 + len rest))) =? 4 + n) eqn:N3; cbn [negb].
        -- rewrite decode_owned_ok_iff. split.
           ++ intros (H1 & H2 & H3). repeat split; auto; lia.
           ++ intros (_ & _ & (H1 & _) & H2 & H3). repeat split; auto.
        -- split; [intros [m D]; discriminate|intros (_ & E & _); lia].
Qed.

Lemma wf_payloadb_spec cap p : wf_payloadb cap p = true <-> wf_payload cap p.
Proof. unfold wf_payloadb, wf_payload. rewrite !andb_true_iff, !Z.leb_le, Z.eqb_eq. tauto. Qed.
Lemma wf_frameb_spec cap bs : wf_frameb cap bs = true <-> wf_frame cap bs.
Proof. unfold wf_frameb, wf_frame. rewrite !andb_true_iff, wf_payloadb_spec, Z.leb_le, Z.eqb_eq. tauto. Qed.

(** every rejection is for the stated reason *)
Lemma decode_message_err cap bs e :
  decode_message cap bs = Err e ->
  let n := de32 (nth 0 bs 0) (nth 1 bs 0) (nth 2 bs 0) (nth 3 bs 0) in
  match e with
  | ETooShort => len bs < 14
  | ELenSmall => 14 <= len bs /\ n < 10
  | ELenBig => 14 <= len bs /\ cap < n
  | ELenMismatch => 14 <= len bs /\ 10 <= n <= cap /\ len bs <> 4 + n
  | EPType => len bs = 4 + n /\ 10 <= n <= cap /\ nth 8 bs 0 <> 0
  | ESType => len bs = 4 + n /\ 10 <= n <= cap /\ nth 8 bs 0 = 0 /\ valid_stype (nth 9 bs 0) = false
  end.
Proof.
  unfold decode_message. cbn zeta.
  destruct (len bs <? 14) eqn:L; [intros E; injection E as <-; lia|].
  destruct bs as [|l0 [|l1 [|l2 [|l3 rest]]]]; try (cbn in L; discriminate).
  cbn [nth]. set (n := de32 l0 l1 l2 l3).
  destruct (n <? 10) eqn:N1; [intros E; injection E as <-; lia|].
  destruct (n >? cap) eqn:N2; [intros E; injection E as <-; lia|].
  destruct (len (l0 :: l1 :: l2 :: l3 :: rest) =? 4 + n) eqn:N3; cbn [negb];
    [|intros E; injection E as <-; lia].
  unfold decode_owned.
  destruct (hdr_split rest) as [[h body]|] eqn:S.
  - apply hdr_split_inv in S. subst rest.
    destruct h as [x0 x1 x2 x3 x4 x5 x6 x7 x8 x9].
    cbn [hdr_bytes app nth h0 h1 h2 h3 h4 h5 h6 h7 h8 h9] in *.
    destruct (x4 =? 0) eqn:P; cbn [negb]; [|intros E; injection E as <-; lia].
    destruct (x5 =? 0) eqn:S0; [discriminate|].
    match goal with |- context [if ?c then _ else _] => destruct c eqn:V end; [discriminate|].
    intros E; injection E as <-. repeat split; try lia.
    rewrite valid_stype_cases, S0. exact V.
  - apply hdr_split_none in S. rewrite !len_cons in N3. lia.
Qed.

(** ** the instrumented twins never panic and compute the same result *)
Lemma slice_chk_full l : slice_chk l 0 (len l) = Val l.
Proof.
  unfold slice_chk. pose proof (len_nonneg l).
  replace ((0 <=? 0) && (0 <=? len l) && (len l <=? len l)) with true by lia.
  cbn [Z.to_nat skipn]. rewrite Z.sub_0_r. unfold len. rewrite Nat2Z.id, firstn_all. reflexivity.
Qed.

Lemma slice_chk_app_l a b : slice_chk (a ++ b) 0 (len a) = Val a.
Proof.
  unfold slice_chk. rewrite len_app. pose proof (len_nonneg a). pose proof (len_nonneg b).
  replace ((0 <=? 0) && (0 <=? len a) && (len a <=? len a + len b)) with true by lia.
  rewrite Z.sub_0_r. unfold len. rewrite Nat2Z.id. cbn [Z.to_nat skipn].
  rewrite firstn_app, Nat.sub_diag, firstn_all, firstn_O, app_nil_r. reflexivity.
Qed.
Lemma slice_chk_app_r a b : slice_chk (a ++ b) (len a) (len (a ++ b)) = Val b.
Proof.
  unfold slice_chk. rewrite len_app. pose proof (len_nonneg a). pose proof (len_nonneg b).
  replace ((0 <=? len a) && (len a <=? len a + len b) && (len a + len b <=? len a + len b)) with true by lia.
  replace (len a + len b - len a) with (len b) by lia. unfold len. rewrite !Nat2Z.id.
  rewrite skipn_app, skipn_all, Nat.sub_diag. cbn [app skipn]. rewrite firstn_all. reflexivity.
Qed.
Lemma hdr_of_list_bytes h : hdr_of_list (hdr_bytes h) = h.
Proof. destruct h; reflexivity. Qed.
Lemma index_chk_hdr4 h : index_chk (hdr_bytes h) 4 = Val (h4 h).
Proof. destruct h; reflexivity. Qed.
Lemma index_chk_hdr5 h : index_chk (hdr_bytes h) 5 = Val (h5 h).
Proof. destruct h; reflexivity. Qed.

Lemma decode_owned_chk_eq owned : decode_owned_chk owned = Val (decode_owned owned).
Proof.
  unfold decode_owned_chk, decode_owned.
  destruct (hdr_split owned) as [[h body]|] eqn:S.
  - apply hdr_split_inv in S. subst owned.
    pose proof (slice_chk_app_l (hdr_bytes h) body) as S1. rewrite len_hdr in S1.
    pose proof (slice_chk_app_r (hdr_bytes h) body) as S2. rewrite len_hdr in S2.
    rewrite S1. cbn [cbind]. rewrite index_chk_hdr4. cbn [cbind].
    rewrite len_app, len_hdr. pose proof (len_nonneg body) as Hb.
    replace (10 + len body <? 10) with false by lia.
    destruct (h4 h =? 0); cbn [negb]; [|reflexivity].
    rewrite index_chk_hdr5. cbn [cbind]. rewrite hdr_of_list_bytes.
    destruct (h5 h =? 0).
    + rewrite len_app, len_hdr in S2. rewrite S2. reflexivity.
    + match goal with |- context [if ?c then _ else _] => destruct c end; reflexivity.
  - apply hdr_split_none in S. replace (len owned <? 10) with true by lia. reflexivity.
Qed.

Lemma decode_message_chk_eq cap data : decode_message_chk cap data = Val (decode_message cap data).
Proof.
  unfold decode_message_chk, decode_message.
  destruct (len data <? 14) eqn:L; [reflexivity|].
  destruct data as [|l0 [|l1 [|l2 [|l3 rest]]]]; try (cbn in L; discriminate).
  change (l0 :: l1 :: l2 :: l3 :: rest) with ([l0; l1; l2; l3] ++ rest) in *.
  pose proof (slice_chk_app_l [l0; l1; l2; l3] rest) as S1.
  pose proof (slice_chk_app_r [l0; l1; l2; l3] rest) as S2.
  change (len [l0; l1; l2; l3]) with 4 in *.
  rewrite S1. cbn [cbind].
  change (uint32_chk [l0; l1; l2; l3]) with (Val (de32 l0 l1 l2 l3)). cbn [cbind].
  cbn [app]. change (l0 :: l1 :: l2 :: l3 :: rest) with ([l0; l1; l2; l3] ++ rest).
  set (n := de32 l0 l1 l2 l3).
  destruct (n <? 10) eqn:N1; [reflexivity|]. destruct (n >? cap) eqn:N2; [reflexivity|].
  destruct (len ([l0; l1; l2; l3] ++ rest) =? 4 + n) eqn:N3; cbn [negb]; [|reflexivity].
  replace (4 + n) with (len ([l0; l1; l2; l3] ++ rest)) by lia.
  rewrite S2. cbn [cbind]. apply decode_owned_chk_eq.
Qed.

Lemma decode_payload_chk_eq cap p : decode_payload_chk cap p = Val (decode_payload cap p).
Proof.
  unfold decode_payload_chk, decode_payload.
  destruct (len p <? 10); [reflexivity|]. destruct (len p >? cap); [reflexivity|].
  apply decode_owned_chk_eq.
Qed.

(** the length-prefixed entry point is the payload entry point behind the length check *)
Lemma decode_message_payload cap bs :
  wf_frame cap bs -> decode_message cap bs = decode_payload cap (skipn 4 bs).
Proof.
  intros (H4 & E & (H10 & Hc) & _).
  assert (Ls : len (skipn 4 bs) = len bs - 4) by (unfold len in *; rewrite skipn_length; lia).
  unfold decode_message, decode_payload.
  replace (len bs <? 14) with false by lia.
  destruct bs as [|l0 [|l1 [|l2 [|l3 rest]]]]; try (cbn in H4; lia).
  cbn [nth skipn] in *. rewrite E.
  replace (len (l0 :: l1 :: l2 :: l3 :: rest) - 4 <? 10) with false by lia.
  replace (len (l0 :: l1 :: l2 :: l3 :: rest) - 4 >? cap) with false by lia.
  replace (len (l0 :: l1 :: l2 :: l3 :: rest) =? 4 + (len (l0 :: l1 :: l2 :: l3 :: rest) - 4)) with true by lia.
  replace (len rest <? 10) with false by lia. replace (len rest >? cap) with false by lia.
  reflexivity.
Qed.

(** ** the shared decode cell *)
Section CellProofs.
  Variable R : Type.
  Variable dec : list Z -> R.

  (** invariant: the body never changes, the cell is either unfired with zero decodes or holds
      [dec body] after exactly one *)
  Definition cell_inv (body : list Z) (f : family R) : Prop :=
    f_body f = body /\
    ((f_cell f = None /\ f_decodes f = 0) \/ (f_cell f = Some (dec body) /\ f_decodes f = 1)).

  Lemma fire_inv body f :
    cell_inv body f -> cell_inv body (fst (fire dec f)) /\ snd (fire dec f) = dec body /\
                       f_cell (fst (fire dec f)) = Some (dec body) /\
                       f_holders (fst (fire dec f)) = f_holders f.
  Proof.
    intros (B & [[C D]|[C D]]); unfold fire; rewrite C; cbn [fst snd f_body f_cell f_decodes f_holders].
    - rewrite B, D. repeat split; auto; right; split; reflexivity.
    - repeat split; auto; try (rewrite B; assumption); right; split; assumption.
  Qed.

  Lemma cstep_inv body f o :
    cell_inv body f ->
    cell_inv body (fst (cstep dec f o)) /\
    (forall r, snd (cstep dec f o) = Some r -> r = dec body) /\
    (length (f_holders f) <= length (f_holders (fst (cstep dec f o))))%nat.
  Proof.
    intros I. destruct o as [h|h|h s]; cbn [cstep].
    - destruct (Nat.ltb h (length (f_holders f))).
      + destruct (fire_inv body f I) as (I' & Rr & _ & Hh). destruct (fire dec f) as [f' r].
        cbn [fst snd] in *. split; [exact I'|].
        split; [intros r' E; injection E as <-; exact Rr|rewrite Hh; lia].
      + cbn [fst snd]. split; [exact I|]. split; [discriminate|lia].
    - destruct (Nat.ltb h (length (f_holders f))).
      + destruct (fire_inv body f I) as (I' & Rr & _ & Hh). destruct (fire dec f) as [f' r].
        cbn [fst snd] in *. split; [exact I'|].
        split; [intros r' E; injection E as <-; exact Rr|rewrite Hh; lia].
      + cbn [fst snd]. split; [exact I|]. split; [discriminate|lia].
    - destruct (nth_error (f_holders f) h); cbn [fst snd].
      + split; [destruct I as (B & C); split; [exact B|exact C]|].
        split; [discriminate|]. cbn [f_holders]. rewrite app_length. lia.
      + split; [exact I|]. split; [discriminate|lia].
  Qed.

  (** every observation, by any holder, in any order, any number of times: the same outcome;
      and the decoder ran at most once *)
  Lemma crun_stable : forall os body f,
    cell_inv body f ->
    let '(f', rs) := crun dec f os in
    cell_inv body f' /\ Forall (fun r => forall x, r = Some x -> x = dec body) rs /\ f_decodes f' <= 1.
  Proof.
    induction os as [|o os IH]; intros body f I.
    - cbn [crun]. split; [exact I|]. split; [constructor|].
      destruct I as (_ & [[_ D]|[_ D]]); rewrite D; lia.
    - cbn [crun]. destruct (cstep_inv body f o I) as (I' & Ro & _).
      destruct (cstep dec f o) as [f1 r]. cbn [fst snd] in *.
      specialize (IH body f1 I'). destruct (crun dec f1 os) as [f2 rs].
      destruct IH as (I2 & F & D). split; [exact I2|]. split; [constructor; assumption|exact D].
  Qed.

  Lemma family_of_inv d : cell_inv (d_body d) (family_of R d).
  Proof. split; [reflexivity|]. left. split; reflexivity. Qed.

  (** once any observation happened the decoder ran exactly once *)
  Lemma crun_decodes_once : forall os body f,
    cell_inv body f -> f_decodes f = 1 -> f_decodes (fst (crun dec f os)) = 1.
  Proof.
    induction os as [|o os IH]; intros body f I D; [exact D|].
    cbn [crun]. destruct (cstep_inv body f o I) as (I' & _ & _).
    assert (D1 : f_decodes (fst (cstep dec f o)) = 1).
    { destruct I as (B & [[C Dz]|[C _]]); [lia|].
      destruct o as [h|h|h s]; cbn [cstep]; unfold fire; rewrite ?C;
        try (destruct (Nat.ltb h (length (f_holders f))); exact D).
      destruct (nth_error (f_holders f) h); exact D. }
    destruct (cstep dec f o) as [f1 r]. cbn [fst] in *.
    specialize (IH body f1 I' D1). destruct (crun dec f1 os) as [f2 rs]. exact IH.
  Qed.
End CellProofs.
