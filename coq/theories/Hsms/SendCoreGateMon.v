(** SendCoreGateMon — every run of the model is accepted by the gate clause of ok_C07:
    no frame of a refused send ever reaches a socket, a refused send had nothing on the wire, and
    the drop counter grows by exactly the number of not-selected refusals. *)
From Coq Require Import ZArith Bool List Lia.
From GoSecs Require Import Hsms.SendCore Hsms.SendCoreMon Hsms.SendCoreInv Hsms.SendCoreInvSteps
  Hsms.SendCoreMonProofs Hsms.SendCoreGate.
Import ListNotations.
Open Scope Z_scope.

Definition past_write (c : call) : Prop :=
  match c_pc c with
  | PWait => True
  | PExit r | PDone r => r <> RNotSelected /\ r <> RNotOpen
  | _ => False
  end.

Definition pendb (c : call) : bool := match c_pc c with PExit RNotSelected => true | _ => false end.
Definition b2z (b : bool) : Z := if b then 1 else 0.
Fixpoint pend (cs : list call) : Z := match cs with [] => 0 | c :: r => b2z (pendb c) + pend r end.

Definition refusals (os : list obs) : Z :=
  fold_right (fun o acc => match o with
                           | ORet _ RNotSelected _ | OAsyncErr _ RNotSelected => 1 + acc
                           | _ => acc end) 0 os.

Lemma pend_put : forall cs c c', get (c_id c') cs = Some c -> pend (put c' cs) = pend cs - b2z (pendb c) + b2z (pendb c').
Proof.
  induction cs as [|d r IH]; cbn; intros c c' G; [discriminate|].
  destruct (c_id d =? c_id c') eqn:E; cbn.
  - inversion G; subst. lia.
  - rewrite (IH _ _ G). lia.
Qed.

Lemma pend_done : forall cs, forallb (fun c => match c_pc c with PDone _ => true | _ => false end) cs = true -> pend cs = 0.
Proof.
  induction cs as [|d r IH]; cbn; intros H; [reflexivity|].
  apply andb_true_iff in H. destruct H as [H1 H2]. rewrite (IH H2).
  unfold pendb. destruct (c_pc d); try discriminate. reflexivity.
Qed.

Section StepDetail.
Variable fx : bool.
Variable p : cfg.

Lemma step_detail : forall s c ch s' os c',
  step_call fx p s c ch = Some (s', os) -> get (c_id c) (calls s) = Some c ->
  get (c_id c) (calls s') = Some c' ->
  (past_write c -> past_write c') /\
  (c_pc c = PWrite -> ch = CWriteOk -> past_write c') /\
  drops s' - refusals os - b2z (pendb c') = drops s - b2z (pendb c) /\
  (sendq s' = sendq s \/ (sendq s' = sendq s ++ [(c_id c, c_msg c)] /\ c_pc c' = PDone (ROk None))).
Proof.
  intros s c ch s' os c' H G G'.
  assert (K : forall X d, calls X = calls s -> c_id d = c_id c -> get (c_id c) (calls (upd X d)) = Some c' -> c' = d).
  { intros X d E1 E2 E3. cbn in E3. rewrite E1 in E3. rewrite <- E2 in E3.
    rewrite (get_put_same _ _ c) in E3 by (rewrite E2; exact G). inversion E3. reflexivity. }
  unfold step_call, finish in H.
  destruct (c_pc c) eqn:PC; destruct ch; try discriminate;
    repeat match type of H with
           | (if ?b then _ else _) = _ => destruct b eqn:?
           | match ?x with _ => _ end = _ => destruct x eqn:?
           end; try discriminate; inversion H; subst; clear H;
    try (apply K in G'; [subst c' | reflexivity | reflexivity]);
    unfold past_write, pendb; cbn; rewrite ?PC; cbn [b2z];
    try (repeat split; intros; try contradiction; try discriminate; try lia; auto; try (split; discriminate); fail).
  - (* B1 passed *)
    unfold after_gate. destruct (c_kind c); try destruct (needs_reg c); cbn [b2z];
      repeat split; intros; try contradiction; try discriminate; try lia; auto.
  - (* PWrite ok *)
    destruct (needs_reg c); apply K in G'; try reflexivity; subst c'; cbn;
      repeat split; intros; try contradiction; try discriminate; try lia; auto; try (split; discriminate).
  - (* chan result *)
    assert (NR : r <> RNotSelected /\ r <> RNotOpen).
    { unfold chan_result in *. destruct c0; try destruct (c_kind c); try destruct (f_st f =? 0); try destruct fx;
        try discriminate; match goal with H : Some _ = Some _ |- _ => inversion H; subst end; split; discriminate. }
    destruct NR as [N1 N2]. repeat split; intros; try discriminate; auto.
    destruct r; cbn [b2z]; try lia. exfalso; apply N1; reflexivity.
  - unfold timeout_res. destruct (isdata c); cbn [b2z];
      repeat split; intros; try contradiction; try discriminate; try lia; auto; try (split; discriminate).
  - (* enqueue ok *)
    destruct (c_gen c =? gen s); apply K in G'; try reflexivity; subst c'; cbn;
      repeat split; intros; try contradiction; try discriminate; try lia; auto; try (split; discriminate).
  - (* exit *)
    destruct (needs_reg c); apply K in G'; try reflexivity; subst c'; cbn;
      destruct r; cbn; repeat split; intros; try contradiction; try discriminate; try lia; auto; try tauto.
Qed.

End StepDetail.

(** * coupling for the gate clause *)
Record GC (s : state) (m : mon) : Prop := mkGC {
  gc_res : forall mc r, In mc (m_calls m) -> mc_res mc = Some r ->
           exists c, get (mc_id mc) (calls s) = Some c /\ c_pc c = PDone r;
  gc_recv : forall e, In e (m_recv m) ->
            fst (fst e) = -1 \/ exists c, get (fst (fst e)) (calls s) = Some c /\ past_write c;
  gc_sendq : forall o f, In (o, f) (sendq s) -> o = -1 \/ exists c, get o (calls s) = Some c /\ past_write c;
  gc_ids : forall id c, get id (calls s) = Some c -> 0 <= id;
  gc_metric : forall d0, m_metric m = Some d0 -> drops s = d0 + m_refused m + pend (calls s)
}.

Lemma GC_init : forall c0, GC (init c0) mon0.
Proof.
  intros c0. constructor; cbn; intros; try contradiction; try discriminate.
Qed.

(* observations that touch none of: call results, frames seen by the peer, the counter snapshot *)
Definition gneutral (o : obs) : bool :=
  match o with
  | OPeerSent _ _ | OHandler _ _ | OBarrier | OCond _ _ | OGenUp _ | OGenDown _ => true
  | _ => false
  end.

Lemma gneutral_upd : forall m o, gneutral o = true ->
  m_calls (mon_upd m o) = m_calls m /\ m_recv (mon_upd m o) = m_recv m /\
  m_metric (mon_upd m o) = m_metric m /\ m_refused (mon_upd m o) = m_refused m.
Proof. intros m o N. destruct o; try discriminate; cbn; auto. Qed.

Lemma gate_gneutral_list : forall os m, forallb gneutral os = true -> mon_run chk_gate m os = true.
Proof.
  induction os as [|o r IH]; cbn; intros m N; [reflexivity|].
  apply andb_true_iff in N. destruct N as [N1 N2]. rewrite IH by exact N2.
  destruct o; try discriminate; reflexivity.
Qed.

Lemma GC_gneutral_list : forall os s m, GC s m -> forallb gneutral os = true -> GC s (fold_left mon_upd os m).
Proof.
  induction os as [|o r IH]; cbn; intros s m G N; [exact G|].
  apply andb_true_iff in N. destruct N as [N1 N2]. apply IH; auto.
  destruct (gneutral_upd m o N1) as (E1 & E2 & E3 & E4). destruct G as [G1 G2 G3 G4 G5].
  constructor; rewrite ?E1, ?E2, ?E3, ?E4; auto.
Qed.

Lemma handler_obs_gneutral : forall k h n, forallb gneutral (handler_obs k h n) = true.
Proof. induction k; cbn; intros; auto. Qed.

(* model-side changes that keep every call's program counter, and only add internal frames to the
   async queue *)
Lemma GC_env : forall s s' m, GC s m ->
  (forall id c', get id (calls s') = Some c' -> exists c, get id (calls s) = Some c /\ c_pc c = c_pc c') ->
  (forall id c, get id (calls s) = Some c -> exists c', get id (calls s') = Some c' /\ c_pc c' = c_pc c) ->
  (forall o f, In (o, f) (sendq s') -> In (o, f) (sendq s) \/ o = -1) ->
  drops s' = drops s -> pend (calls s') = pend (calls s) -> GC s' m.
Proof.
  intros s s' m [G1 G2 G3 G4 G5] B F Q D P.
  assert (PW : forall o, (exists c, get o (calls s) = Some c /\ past_write c) -> exists c', get o (calls s') = Some c' /\ past_write c').
  { intros o (c & Gc & W). destruct (F o c Gc) as (c' & Gc' & E). exists c'. split; auto. unfold past_write in *. rewrite E. exact W. }
  constructor.
  - intros mc r IN R. destruct (G1 mc r IN R) as (c & Gc & PD). destruct (F _ _ Gc) as (c' & Gc' & E).
    exists c'. split; auto. congruence.
  - intros e IN. destruct (G2 e IN) as [X|X]; auto.
  - intros o f IN. destruct (Q o f IN) as [X|X]; auto. destruct (G3 o f X) as [Y|Y]; auto.
  - intros id c' Gc'. destruct (B id c' Gc') as (c & Gc & _). eauto.
  - intros d0 M. rewrite D, P. auto.
Qed.

Section GateSim.
Variable fx : bool.
Variable p : cfg.
Notation Inv := (Inv fx p).

Lemma mc_get_in : forall l id mc, mc_get id l = Some mc -> In mc l.
Proof.
  induction l as [|d r IH]; cbn; intros id mc H; [discriminate|].
  destruct (mc_id d =? id); [inversion H; auto | right; eauto].
Qed.

Lemma mc_put_in : forall l y mc, In mc (mc_put y l) -> mc = y \/ In mc l.
Proof.
  induction l as [|d r IH]; cbn; intros y mc H; [contradiction|].
  destruct (mc_id d =? mc_id y); cbn in H.
  - destruct H as [H|H]; auto.
  - destruct H as [H|H]; auto. destruct (IH _ _ H); auto.
Qed.

(* the stepping call: everything about other calls is untouched by [put] *)
Lemma gate_step_sim : forall s c ch s' os m,
  Inv s -> Cpl s m -> GC s m -> get (c_id c) (calls s) = Some c ->
  step_call fx p s c ch = Some (s', os) ->
  mon_run chk_gate m os = true /\ GC s' (fold_left mon_upd os m).
Proof.
  intros s c ch s' os m I C G Gc H.
  destruct (step_shape fx p _ _ _ _ _ H) as (c' & EC & EI & EK & EM & ES & EQ & EN & HH & NDc & SO).
  assert (G' : get (c_id c') (calls s) = Some c) by (rewrite EI; exact Gc).
  assert (GC' : get (c_id c) (calls s') = Some c').
  { rewrite EC. rewrite <- EI. apply (get_put_same _ _ c). exact G'. }
  destruct (step_detail fx p _ _ _ _ _ _ H Gc GC') as (PW & PWW & BAL & SQ).
  assert (OTH : forall id, id <> c_id c -> get id (calls s') = get id (calls s)).
  { intros id N. rewrite EC. apply get_put_other. rewrite EI. exact N. }
  assert (PEND : pend (calls s') = pend (calls s) - b2z (pendb c) + b2z (pendb c')).
  { rewrite EC. apply pend_put. exact G'. }
  destruct G as [G1 G2 G3 G4 G5].
  (* facts that hold whatever the emitted observations are *)
  assert (K1 : forall mc r, In mc (m_calls m) -> mc_res mc = Some r ->
                 exists d, get (mc_id mc) (calls s') = Some d /\ c_pc d = PDone r).
  { intros mc r IN R. destruct (G1 mc r IN R) as (d & Gd & PD).
    destruct (Z.eq_dec (mc_id mc) (c_id c)) as [E|N].
    - rewrite E in Gd. rewrite Gc in Gd. inversion Gd; subst d. exfalso. eapply NDc; eauto.
    - exists d. rewrite (OTH _ N). auto. }
  assert (K2 : forall o, (o = -1 \/ exists d, get o (calls s) = Some d /\ past_write d) ->
                 o = -1 \/ exists d, get o (calls s') = Some d /\ past_write d).
  { intros o [X|(d & Gd & W)]; [auto|]. right.
    destruct (Z.eq_dec o (c_id c)) as [E|N].
    - subst o. rewrite Gc in Gd. inversion Gd; subst d. exists c'. auto.
    - exists d. rewrite (OTH _ N). auto. }
  assert (K3 : forall o f, In (o, f) (sendq s') -> o = -1 \/ exists d, get o (calls s') = Some d /\ past_write d).
  { intros o f IN. destruct SQ as [SQ|[SQ PD]]; rewrite SQ in IN.
    - apply K2. eapply G3; eauto.
    - apply in_app_or in IN. destruct IN as [IN|[IN|[]]]; [apply K2; eapply G3; eauto|].
      inversion IN; subst. right. exists c'. split; auto. unfold past_write. rewrite PD. split; discriminate. }
  assert (K4 : forall id d, get id (calls s') = Some d -> 0 <= id).
  { intros id d Gd. destruct (Z.eq_dec id (c_id c)) as [E|N]; [subst; eauto|]. rewrite (OTH _ N) in Gd. eauto. }
  inversion SO; subst.
  - (* silent *)
    split; [reflexivity|]. cbn. constructor; auto.
    intros d0 M. cbn [refusals fold_right] in BAL. rewrite PEND. specialize (G5 d0 M). lia.
  - (* the write *)
    split.
    + cbn. rewrite andb_true_r. apply negb_true_iff. apply not_true_iff_false. intro X.
      apply existsb_exists in X. destruct X as (mc & IN & X). apply andb_true_iff in X. destruct X as [X1 X2].
      apply Z.eqb_eq in X1. unfold refused_res in X2. destruct (mc_res mc) as [r|] eqn:R; [|discriminate].
      destruct (G1 mc r IN R) as (d & Gd & PD). rewrite X1, Gc in Gd. inversion Gd; subst d. eapply NDc; eauto.
    + cbn. constructor; cbn; auto.
      * intros e [<-|IN]; cbn; [|apply K2; auto].
        right. exists c'. split; auto.
        destruct (write_only_at_PWrite fx p _ _ _ _ _ _ _ _ H (or_introl eq_refl)) as (_ & CH & _). auto.
      * intros d0 M. cbn [refusals fold_right] in BAL. rewrite PEND. specialize (G5 d0 M). lia.
  - (* return through the exit path *)
    rename H0 into PX. rename H1 into PD.
    destruct (cp_calls _ _ C _ _ Gc NDc) as (mc & GM & MK & MM & MO).
    assert (NOREC : forall e, In e (m_recv m) -> fst (fst e) = c_id c -> r <> RNotSelected /\ r <> RNotOpen).
    { intros e IN E. destruct (G2 e IN) as [X|(d & Gd & W)].
      - exfalso. rewrite E in X. specialize (G4 _ _ Gc). lia.
      - rewrite E, Gc in Gd. inversion Gd; subst d. unfold past_write in W. rewrite PX in W. exact W. }
    split.
    + cbn. rewrite andb_true_r. rewrite GM.
      destruct r; try reflexivity; apply negb_true_iff; apply not_true_iff_false; intro X;
        apply existsb_exists in X; destruct X as (e & IN & X); apply Z.eqb_eq in X;
        destruct (NOREC e IN X) as [N1 N2]; congruence.
    + cbn. rewrite GM. constructor; cbn; auto.
      * intros mc0 r0 IN R. apply mc_put_in in IN. destruct IN as [->|IN]; [|eauto].
        cbn in R. inversion R; subst r0. cbn. exists c'. auto.
      * intros d0 M. rewrite PEND. specialize (G5 d0 M).
        destruct r; cbn [refusals fold_right refusal] in *; lia.
  - (* direct return *)
    rename H0 into PD. rename H1 into DR.
    destruct (cp_calls _ _ C _ _ Gc NDc) as (mc & GM & MK & MM & MO).
    assert (NPW : ~ past_write c).
    { unfold past_write. destruct DR as [(E & _)|[(E & _)|(E & _)]]; rewrite E; auto. }
    split.
    + cbn. rewrite andb_true_r. rewrite GM.
      destruct r; try reflexivity; apply negb_true_iff; apply not_true_iff_false; intro X;
        apply existsb_exists in X; destruct X as (e & IN & X); apply Z.eqb_eq in X;
        (destruct (G2 e IN) as [Y|(d & Gd & W)];
         [rewrite X in Y; specialize (G4 _ _ Gc); lia | rewrite X, Gc in Gd; inversion Gd; subst d; contradiction]).
    + cbn. rewrite GM. constructor; cbn; auto.
      * intros mc0 r0 IN R. apply mc_put_in in IN. destruct IN as [->|IN]; [|eauto].
        cbn in R. inversion R; subst r0. cbn. exists c'. auto.
      * intros d0 M. rewrite PEND. specialize (G5 d0 M).
        destruct r; cbn [refusals fold_right refusal] in *; lia.
Qed.

End GateSim.

Lemma dispatch_rel2 : forall p s0 n f s1 os, dispatch p s0 n f = (s1, os) ->
  drops s1 = drops s0 /\ (forall o g, In (o, g) (sendq s1) -> In (o, g) (sendq s0) \/ o = -1) /\
  forallb gneutral os = true.
Proof.
  intros p s0 n f s1 os H. unfold dispatch in H.
  assert (OF : forall id r, drops (offer s0 id r) = drops s0 /\ sendq (offer s0 id r) = sendq s0).
  { intros id r. unfold offer. destruct (get id (calls s0)) as [c|]; [destruct (c_chan c)|]; auto. }
  assert (EN : forall X g, sendq X = sendq s0 -> forall o h, In (o, h) (sendq X ++ [(-1, g)]) -> In (o, h) (sendq s0) \/ o = -1).
  { intros X g E o h IN. apply in_app_or in IN. destruct IN as [IN|[IN|[]]]; [left; rewrite <- E; exact IN | inversion IN; auto]. }
  repeat match type of H with
         | (if ?b then _ else _) = _ => destruct b eqn:?
         | match ?x with _ => _ end = _ => destruct x eqn:?
         end; inversion H; subst; clear H; cbn;
    try (repeat split; auto; try (intros o g; apply (EN s0 _ eq_refl)); fail).
  all: try (destruct (OF z (CMsg n f)) as [A B]; repeat split; auto; rewrite ?B; auto; fail).
  all: try (destruct (OF z (CRej (f_b3 f))) as [A B]; repeat split; auto; rewrite ?B; auto; fail).
  - repeat split; auto. apply handler_obs_gneutral.
Qed.

Section GateSim2.
Variable fx : bool.
Variable p : cfg.
Notation Inv := (Inv fx p).

Lemma pend_offer : forall s c r, get (c_id c) (calls s) = Some c ->
  pend (put (set_chan c (Some r)) (calls s)) = pend (calls s).
Proof. intros s c r G. rewrite (pend_put _ c) by exact G. unfold pendb. cbn. lia. Qed.

Lemma gate_exec_sim : forall s a s' os m,
  Inv s -> Cpl s m -> GC s m -> exec fx p s a = Some (s', os) ->
  mon_run chk_gate m os = true /\ GC s' (fold_left mon_upd os m).
Proof.
  intros s a s' os m I C G H.
  (* same calls, possibly fewer queued frames, same counter *)
  assert (SAME : forall X, calls X = calls s -> drops X = drops s ->
                 (forall o f, In (o, f) (sendq X) -> In (o, f) (sendq s) \/ o = -1) -> GC X m).
  { intros X E1 E2 E3. eapply GC_env; eauto; try (rewrite E1; eauto). }
  destruct a.
  - (* AStart *)
    cbn in H. destruct (get id (calls s)) eqn:Gid; [discriminate|].
    destruct (id <? 0) eqn:E0; [discriminate|].
    destruct (negb (f_st f =? 0) && negb (kind_eqb k KCtl)); [discriminate|].
    destruct ((f_st f =? 0) && kind_eqb k KCtl); [discriminate|].
    inversion H; subst; clear H. split; [reflexivity|]. cbn [fold_left].
    set (m0 := if libkey k then mkF (f_sid f) (f_b2 f) (f_b3 f) (f_pt f) (f_st f) (key_of (ctr s + 1)) (f_body f) else f).
    set (nc := mkCall id k m0 0 PEnter None false 0).
    assert (CS : forall j d, get j (calls s) = Some d ->
                 get j (calls (w_calls (if libkey k then w_ctr s (ctr s + 1) else s) (nc :: calls (if libkey k then w_ctr s (ctr s + 1) else s)))) = Some d).
    { intros j d Gj. assert (E : calls (if libkey k then w_ctr s (ctr s + 1) else s) = calls s) by (destruct (libkey k); reflexivity).
      cbn [calls w_calls]. rewrite E. cbn. destruct (id =? j) eqn:Ej; [|exact Gj].
      apply Z.eqb_eq in Ej. subst j. rewrite Gid in Gj. discriminate. }
    destruct G as [G1 G2 G3 G4 G5]. constructor.
    + intros mc r [<-|IN] R; [cbn in R; discriminate|]. destruct (G1 mc r IN R) as (d & Gd & PD). exists d. auto.
    + intros e IN. cbn in IN. destruct (G2 e IN) as [X|(d & Gd & W)]; [auto|]. right. exists d. auto.
    + intros o g IN. assert (IN' : In (o, g) (sendq s)) by (destruct (libkey k); exact IN).
      destruct (G3 o g IN') as [X|(d & Gd & W)]; [auto|]. right. exists d. auto.
    + intros j d Gj. cbn [calls w_calls] in Gj.
      assert (E : calls (if libkey k then w_ctr s (ctr s + 1) else s) = calls s) by (destruct (libkey k); reflexivity).
      rewrite E in Gj. cbn in Gj. destruct (id =? j) eqn:Ej; [|eauto].
      apply Z.eqb_eq in Ej. subst j. apply Z.ltb_ge in E0. exact E0.
    + intros d0 M. cbn in M. specialize (G5 d0 M).
      destruct (libkey k); cbn; unfold pendb; cbn; lia.
  - (* AStep *)
    cbn in H. destruct (get id (calls s)) as [c0|] eqn:Gc; [|discriminate].
    pose proof (get_id _ _ _ Gc) as E. subst id.
    exact (gate_step_sim fx p s c0 c s' os m I C G Gc H).
  - (* ACancel *)
    cbn in H. destruct (get id (calls s)) as [c0|] eqn:Gc; [|discriminate].
    inversion H; subst; clear H. split; [reflexivity|]. cbn.
    pose proof (get_id _ _ _ Gc) as E. subst id.
    assert (G' : get (c_id (set_ctx c0 true)) (calls s) = Some c0) by exact Gc.
    eapply GC_env; eauto.
    + intros id c' Gd. cbn in Gd. destruct (get_put_inv _ _ _ _ _ G' Gd) as [[-> ->]|[Ne Gd']]; eauto.
    + intros id d Gd. cbn. destruct (Z.eq_dec id (c_id c0)) as [->|N].
      * rewrite Gc in Gd. inversion Gd; subst d. exists (set_ctx c0 true). split; [|reflexivity].
        apply (get_put_same _ (set_ctx c0 true) c0). exact G'.
      * exists d. split; [|reflexivity]. rewrite get_put_other; auto.
    + cbn. apply (pend_put _ c0 (set_ctx c0 true)) in G'. rewrite G'. unfold pendb. cbn. lia.
  - (* ADrain *)
    cbn in H. destruct (sendq s) as [|[o f] q] eqn:SQ; [discriminate|].
    assert (SUB : forall o0 f0, In (o0, f0) q -> In (o0, f0) ((o, f) :: q) \/ o0 = -1) by (intros; left; right; auto).
    assert (ORG : o = -1 \/ exists d, get o (calls s) = Some d /\ past_write d).
    { apply (gc_sendq _ _ G o f). rewrite SQ. left. reflexivity. }
    assert (NOREF : forall mc, In mc (m_calls m) -> mc_id mc = o -> refused_res (mc_res mc) = true -> False).
    { intros mc IN E R. unfold refused_res in R. destruct (mc_res mc) as [r|] eqn:RR; [|discriminate].
      destruct (gc_res _ _ G mc r IN RR) as (d & Gd & PD). rewrite E in Gd.
      destruct ORG as [->|(d' & Gd' & W)].
      - pose proof (gc_ids _ _ G _ _ Gd). lia.
      - rewrite Gd in Gd'. inversion Gd'; subst d'. unfold past_write in W. rewrite PD in W.
        destruct r; try discriminate; destruct W; congruence. }
    destruct (negb (wr_ok s (gen s))).
    { inversion H; subst; clear H. split; [reflexivity|]. cbn.
      destruct (SAME (w_sendq s q) eq_refl eq_refl SUB) as [G1 G2 G3 G4 G5]. constructor; auto. }
    destruct ((f_st f =? 0) && negb (selected s)).
    { inversion H; subst; clear H. split; [reflexivity|]. cbn.
      destruct (SAME (w_sendq s q) eq_refl eq_refl SUB) as [G1 G2 G3 G4 G5]. constructor; auto.
      intros d0 M. cbn in *. specialize (G5 d0 M). cbn in G5. lia. }
    destruct ok.
    { inversion H; subst; clear H. split.
      - cbn. rewrite andb_true_r. apply negb_true_iff. apply not_true_iff_false. intro X.
        apply existsb_exists in X. destruct X as (mc & IN & X). apply andb_true_iff in X. destruct X as [X1 X2].
        apply Z.eqb_eq in X1. eapply NOREF; eauto.
      - cbn. destruct (SAME (w_sendq s q) eq_refl eq_refl SUB) as [G1 G2 G3 G4 G5]. constructor; cbn; auto.
        intros e [<-|IN]; cbn; auto. }
    destruct (fault s); [|discriminate].
    inversion H; subst; clear H. split; [reflexivity|]. cbn.
    destruct (SAME (w_sendq s q) eq_refl eq_refl SUB) as [G1 G2 G3 G4 G5]. constructor; auto.
  - (* APeer *)
    cbn in H. destruct (sock s); [|discriminate]. inversion H; subst; clear H.
    split; [reflexivity|]. apply GC_gneutral_list; [|reflexivity]. apply SAME; auto.
  - (* ADispatch *)
    cbn in H. destruct (inq s) as [|[n f] q] eqn:EQ; [discriminate|].
    destruct (dispatch p (w_inq s q) n f) as [s1 o1] eqn:D. inversion H; subst; clear H.
    destruct (dispatch_rel _ _ _ _ _ _ D) as (A1 & A2 & A3 & A4).
    destruct (dispatch_rel2 _ _ _ _ _ _ D) as (B1 & B2 & B3).
    split; [apply gate_gneutral_list; exact B3|].
    apply GC_gneutral_list; [|exact B3].
    destruct A4 as [E|(c & r & Gc & CH & E & _)].
    + apply SAME; auto.
    + cbn in Gc. assert (G' : get (c_id (set_chan c (Some r))) (calls s) = Some c) by exact Gc.
      eapply GC_env; eauto.
      * intros id c' Gd. rewrite E in Gd. cbn in Gd. destruct (get_put_inv _ _ _ _ _ G' Gd) as [[-> ->]|[Ne Gd']]; eauto.
      * intros id d Gd. rewrite E. cbn. destruct (Z.eq_dec id (c_id c)) as [->|N].
        -- rewrite Gc in Gd. inversion Gd; subst d. exists (set_chan c (Some r)). split; [|reflexivity].
           apply (get_put_same _ (set_chan c (Some r)) c). exact G'.
        -- exists d. split; [|reflexivity]. rewrite get_put_other; auto.
      * rewrite E. cbn. apply pend_offer. exact Gc.
  - (* ATick *)
    cbn in H. destruct (0 <=? d); [|discriminate]. inversion H; subst. split; [reflexivity|]. cbn. apply SAME; auto.
  - cbn in H. destruct (cstate_eqb (st s) NC && (negb (opened s) || gcancel s)); [|discriminate].
    inversion H; subst. split; [reflexivity|]. apply GC_gneutral_list; [|reflexivity]. apply SAME; auto. cbn. intros o f [].
  - cbn in H. destruct (opened s && negb (sock s) && negb (gcancel s) && cstate_eqb (st s) NC); [|discriminate].
    inversion H; subst. split; [reflexivity|]. apply GC_gneutral_list; [|reflexivity]. apply SAME; auto.
  - cbn in H. destruct (opened s); [|discriminate]. inversion H; subst. split; [reflexivity|].
    apply GC_gneutral_list; [|reflexivity]. apply SAME; auto.
  - cbn in H. destruct (opened s); [|discriminate]. inversion H; subst. split; [reflexivity|].
    apply GC_gneutral_list; [|reflexivity]. apply SAME; auto.
  - cbn in H. destruct (sock s); [|discriminate]. inversion H; subst. split; [reflexivity|].
    apply GC_gneutral_list; [|reflexivity]. apply SAME; auto.
  - cbn in H. destruct (inq s), (sendq s); try discriminate. inversion H; subst. split; [reflexivity|].
    apply GC_gneutral_list; [exact G | reflexivity].
  - cbn in H. destruct (inq s), (sendq s); try discriminate. inversion H; subst. split; [reflexivity|].
    apply GC_gneutral_list; [exact G | reflexivity].
  - (* AMetric *)
    cbn in H. destruct (sendq s); [|discriminate].
    destruct (forallb (fun c => match c_pc c with PDone _ => true | _ => false end) (calls s)) eqn:AD; [|discriminate].
    inversion H; subst; clear H. pose proof (pend_done _ AD) as P0. destruct G as [G1 G2 G3 G4 G5]. split.
    + cbn. rewrite andb_true_r. destruct (m_metric m) as [d0|] eqn:M; [|reflexivity].
      apply Z.eqb_eq. specialize (G5 d0 eq_refl). lia.
    + cbn. constructor; cbn; auto. intros d0 M. inversion M; subst. lia.
Qed.

Theorem gate_run_sim : forall acts s s' os m,
  Inv s -> Cpl s m -> GC s m -> all_benign fx p s acts = true -> run fx p s acts = Some (s', os) ->
  mon_run chk_gate m os = true /\ GC s' (fold_left mon_upd os m).
Proof.
  induction acts as [|a r IH]; cbn; intros s s' os m I C G B H.
  - inversion H; subst. cbn. auto.
  - apply andb_true_iff in B. destruct B as [B1 B2].
    destruct (exec fx p s a) as [[s1 o1]|] eqn:E; [|discriminate].
    destruct (run fx p s1 r) as [[s2 o2]|] eqn:R; [|discriminate].
    inversion H; subst.
    destruct (gate_exec_sim _ _ _ _ m I C G E) as [M1 G1].
    destruct (exec_sim fx p _ _ _ _ m I C B1 E) as [_ C1].
    assert (I1 : Inv s1) by (eapply exec_inv; eauto).
    destruct (IH _ _ _ _ I1 C1 G1 B2 R) as (M2 & G2).
    rewrite mon_run_app, fold_left_app. rewrite M1, M2. auto.
Qed.

End GateSim2.

(** * C07 gate clause: all runs are accepted (both step functions) *)
Theorem gate_all_runs : forall fx p acts c0 s os,
  all_benign fx p (init c0) acts = true ->
  run fx p (init c0) acts = Some (s, os) -> mon_run chk_gate mon0 os = true.
Proof.
  intros fx p acts c0 s os B H.
  destruct (gate_run_sim fx p acts (init c0) s os mon0 (Inv_init fx p c0) (Cpl_init c0) (GC_init c0) B H) as (M & _).
  exact M.
Qed.
