(** HSMS frames: serialisation ([ToBytes], [buildFrameBuffers]), the three decode entry points
    ([DecodeHSMSMessage], [DecodeHSMSPayload], [DecodeOwnedHSMSPayload] -> [decodeOwnedFrame]),
    their instrumented twins (every index/slice answers [Panic] where Go would), the frame
    well-formedness predicate, and the shared lazy body-decode cell. No proofs in this file.

    [cap] is the frame-length cap ([maxHSMSMsgLen] = [secs2.MaxByteSize], taken from the
    regenerated [Gen.v] wherever the model is instantiated). *)
From Coq Require Import ZArith Bool List Lia.
From GoSecs Require Import Hsms.Header.
Import ListNotations.
Open Scope Z_scope.

(** ** serialisation *)
Definition data_to_bytes (d : dmsg) : list Z :=
  be32 (10 + len (d_body d)) ++ hdr_bytes (d_hdr d) ++ d_body d.
Definition ctrl_to_bytes (c : cmsg) : list Z := [0; 0; 0; 10] ++ hdr_bytes (c_hdr c).
Definition to_bytes (m : msg) : list Z :=
  match m with MData d => data_to_bytes d | MCtrl c => ctrl_to_bytes c end.

(** [buildFrameBuffers]: the [net.Buffers] handed to the socket. The body of a data message is
    one buffer (both [Body] implementations return a single slice). *)
Definition frame_buffers (m : msg) : list (list Z) :=
  match m with
  | MData d =>
      let n := len (d_body d) in
      if n >? 0 then [be32 (10 + n) ++ hdr_bytes (d_hdr d); d_body d]
      else [be32 10 ++ hdr_bytes (d_hdr d)]
  | MCtrl c => [be32 10 ++ hdr_bytes (c_hdr c)]
  end.

(** ** decoding *)
Inductive derr := ETooShort | ELenSmall | ELenBig | ELenMismatch | EPType | ESType.

(** [decodeOwnedFrame] *)
Definition decode_owned (owned : list Z) : result msg derr :=
  match hdr_split owned with
  | None => Err ETooShort
  | Some (h, body) =>
      if negb (h4 h =? 0) then Err EPType
      else if h5 h =? 0 then Ok (MData (mkD h body))
      else if (h5 h =? 1) || (h5 h =? 2) || (h5 h =? 3) || (h5 h =? 4) || (h5 h =? 5)
              || (h5 h =? 6) || (h5 h =? 7) || (h5 h =? 9) then Ok (MCtrl (mkC h false))
      else Err ESType
  end.

(** [DecodeHSMSMessage] *)
Definition decode_message (cap : Z) (data : list Z) : result msg derr :=
  if len data <? 14 then Err ETooShort
  else match data with
       | l0 :: l1 :: l2 :: l3 :: rest =>
           let msgLen := de32 l0 l1 l2 l3 in
           if msgLen <? 10 then Err ELenSmall
           else if msgLen >? cap then Err ELenBig
           else if negb (len data =? 4 + msgLen) then Err ELenMismatch
           else decode_owned rest
       | _ => Err ETooShort
       end.

(** [DecodeHSMSPayload] and [DecodeOwnedHSMSPayload] (same function of the bytes; they differ
    only in copying) *)
Definition decode_payload (cap : Z) (payload : list Z) : result msg derr :=
  if len payload <? 10 then Err ETooShort
  else if len payload >? cap then Err ELenBig
  else decode_owned payload.

(** ** well-formed frames *)
Definition wf_payload (cap : Z) (p : list Z) : Prop :=
  10 <= len p <= cap /\ nth 4 p 0 = 0 /\ valid_stype (nth 5 p 0) = true.
Definition wf_frame (cap : Z) (bs : list Z) : Prop :=
  4 <= len bs /\
  de32 (nth 0 bs 0) (nth 1 bs 0) (nth 2 bs 0) (nth 3 bs 0) = len bs - 4 /\
  wf_payload cap (skipn 4 bs).
Definition wf_payloadb (cap : Z) (p : list Z) : bool :=
  (10 <=? len p) && (len p <=? cap) && (nth 4 p 0 =? 0) && valid_stype (nth 5 p 0).
Definition wf_frameb (cap : Z) (bs : list Z) : bool :=
  (4 <=? len bs) &&
  (de32 (nth 0 bs 0) (nth 1 bs 0) (nth 2 bs 0) (nth 3 bs 0) =? len bs - 4) &&
  wf_payloadb cap (skipn 4 bs).

(** ** instrumented twins: Go's bounds checks made explicit *)
Inductive chk (A : Type) := Panic | Val (a : A).
Arguments Panic {A}.
Arguments Val {A} a.
Definition cbind {A B} (x : chk A) (f : A -> chk B) : chk B :=
  match x with Panic => Panic | Val a => f a end.

(** [l[lo:hi]] — panics unless [0 <= lo <= hi <= len l] (we use [len], not [cap]: stricter) *)
Definition slice_chk (l : list Z) (lo hi : Z) : chk (list Z) :=
  if (0 <=? lo) && (lo <=? hi) && (hi <=? len l)
  then Val (firstn (Z.to_nat (hi - lo)) (skipn (Z.to_nat lo) l)) else Panic.
(** [l[i]] *)
Definition index_chk (l : list Z) (i : Z) : chk Z :=
  if (0 <=? i) && (i <? len l) then Val (nth (Z.to_nat i) l 0) else Panic.
(** [binary.BigEndian.Uint32(b)] reads [b[3]] first *)
Definition uint32_chk (b : list Z) : chk Z :=
  cbind (index_chk b 3) (fun b3 =>
  cbind (index_chk b 0) (fun b0 =>
  cbind (index_chk b 1) (fun b1 =>
  cbind (index_chk b 2) (fun b2 => Val (de32 b0 b1 b2 b3))))).

(** [var h [10]byte; copy(h[:], owned[0:10])] then [h[4]], [h[5]], [owned[10:]] *)
Definition hdr_of_list (l : list Z) : hdr :=
  mkHdr (nth 0 l 0) (nth 1 l 0) (nth 2 l 0) (nth 3 l 0) (nth 4 l 0) (nth 5 l 0) (nth 6 l 0) (nth 7 l 0)
        (nth 8 l 0) (nth 9 l 0).
Definition decode_owned_chk (owned : list Z) : chk (result msg derr) :=
  if len owned <? 10 then Val (Err ETooShort)
  else
    cbind (slice_chk owned 0 10) (fun h10 =>
    let h := hdr_of_list h10 in
    cbind (index_chk h10 4) (fun pt =>
    if negb (pt =? 0) then Val (Err EPType)
    else
      cbind (index_chk h10 5) (fun st =>
      if st =? 0 then
        cbind (slice_chk owned 10 (len owned)) (fun body => Val (Ok (MData (mkD h body))))
      else if (st =? 1) || (st =? 2) || (st =? 3) || (st =? 4) || (st =? 5) || (st =? 6) || (st =? 7)
              || (st =? 9) then Val (Ok (MCtrl (mkC h false)))
      else Val (Err ESType)))).

Definition decode_message_chk (cap : Z) (data : list Z) : chk (result msg derr) :=
  if len data <? 14 then Val (Err ETooShort)
  else
    cbind (slice_chk data 0 4) (fun p =>
    cbind (uint32_chk p) (fun msgLen =>
    if msgLen <? 10 then Val (Err ELenSmall)
    else if msgLen >? cap then Val (Err ELenBig)
    else if negb (len data =? 4 + msgLen) then Val (Err ELenMismatch)
    else cbind (slice_chk data 4 (4 + msgLen)) decode_owned_chk)).

Definition decode_payload_chk (cap : Z) (payload : list Z) : chk (result msg derr) :=
  if len payload <? 10 then Val (Err ETooShort)
  else if len payload >? cap then Val (Err ELenBig)
  else decode_owned_chk payload.

(** ** the shared lazy body-decode cell ([decodeState]: a [sync.Once] + result).

    [dec] is the SECS-II body decoder, abstract here (a parameter of every definition): it maps
    the body bytes to an outcome of type [R] (item or error class). A family of holders (the
    decoded message and every re-stamped copy) shares ONE cell and ONE body. *)
Section Cell.
  Variable R : Type.
  Variable dec : list Z -> R.

  Record family := mkFam {
    f_body : list Z;           (* shared, immutable *)
    f_cell : option R;         (* None = once not fired *)
    f_decodes : Z;             (* how many times [dec] ran (ghost) *)
    f_holders : list hdr       (* headers of the live copies; index = holder id *)
  }.

  Inductive cop :=
    CItem (holder : nat)          (* Item() on a holder *)
  | CDecodeErr (holder : nat)     (* DecodeErr() on a holder *)
  | CStamp (holder : nat) (s : stamp).  (* WithSessionID / WithSystemBytes / WithID: a new holder *)

  Definition fire (f : family) : family * R :=
    match f_cell f with
    | Some r => (f, r)
    | None => let r := dec (f_body f) in
              (mkFam (f_body f) (Some r) (f_decodes f + 1) (f_holders f), r)
    end.

  (** one operation: new family + what the caller observed ([None] for a re-stamp or a bad id) *)
  Definition cstep (f : family) (o : cop) : family * option R :=
    match o with
    | CItem h | CDecodeErr h =>
        if Nat.ltb h (length (f_holders f)) then let '(f', r) := fire f in (f', Some r) else (f, None)
    | CStamp h s =>
        match nth_error (f_holders f) h with
        | Some hd =>
            (mkFam (f_body f) (f_cell f) (f_decodes f)
                   (f_holders f ++ [d_hdr (stamp_d (mkD hd (f_body f)) s)]), None)
        | None => (f, None)
        end
    end.

  Fixpoint crun (f : family) (os : list cop) : family * list (option R) :=
    match os with
    | [] => (f, [])
    | o :: os' => let '(f', r) := cstep f o in
                  let '(f'', rs) := crun f' os' in (f'', r :: rs)
    end.

  Definition family_of (d : dmsg) : family := mkFam (d_body d) None 0 [d_hdr d].
End Cell.
Arguments mkFam {R}.
Arguments f_body {R}.
Arguments f_cell {R}.
Arguments f_decodes {R}.
Arguments f_holders {R}.
Arguments fire {R}.
Arguments cstep {R}.
Arguments crun {R}.
