(** SendCoreRecip — who receives an inbound data message (exact, per dispatch step). *)
From Coq Require Import ZArith Bool List Lia.
From GoSecs Require Import Hsms.SendCore.
Import ListNotations.
Open Scope Z_scope.

(* the fan-out: every registered handler exactly once, in registration order *)
Lemma handler_obs_spec : forall k h n,
  handler_obs k h n = map (fun i => OHandler (h + Z.of_nat i) n) (seq 0 k).
Proof.
  induction k as [|k IH]; intros h n; [reflexivity|].
  cbn [handler_obs seq map]. rewrite Z.add_0_r. f_equal. rewrite IH. rewrite <- seq_shift, map_map.
  apply map_ext. intros i. f_equal. lia.
Qed.

(* the receiver's offer touches exactly one waiter's channel, and only when it is empty *)
Lemma offer_spec : forall s id r,
  (exists c, get id (calls s) = Some c /\ c_chan c = None /\ offer s id r = upd s (set_chan c (Some r))) \/
  offer s id r = s.
Proof.
  intros s id r. unfold offer. destruct (get id (calls s)) as [c|] eqn:G; [|auto].
  destruct (c_chan c) eqn:CH; [auto|]. left. exists c. auto.
Qed.

(* A data message dispatched while Selected reaches exactly one recipient: the ONE waiting sender
   registered under its system bytes in the current generation when it is a secondary — and then no
   handler —, or else every handler once in order (nobody once teardown began). A primary is never
   offered to the registry, whatever its system bytes. *)
Theorem recipient_exact : forall p s n f, f_pt f = 0 -> f_st f = 0 -> selected s = true ->
  match (if is_secondary f then reg_get (gen s) (f_sys f) (reg s) else None) with
  | Some id => dispatch p s n f = (offer s id (CMsg n f), [])
  | None => dispatch p s n f = (s, if gcancel s then [] else handler_obs (Z.to_nat (NH p)) 0 n)
  end.
Proof.
  intros p s n f PT ST S. unfold dispatch. rewrite PT, ST. cbn. rewrite S. cbn.
  destruct (if is_secondary f then reg_get (gen s) (f_sys f) (reg s) else None); [reflexivity|].
  destruct (gcancel s); reflexivity.
Qed.

Corollary primary_never_routed : forall p s n f, f_pt f = 0 -> f_st f = 0 -> selected s = true ->
  is_secondary f = false ->
  dispatch p s n f = (s, if gcancel s then [] else handler_obs (Z.to_nat (NH p)) 0 n).
Proof.
  intros p s n f PT ST S NS. pose proof (recipient_exact p s n f PT ST S) as H. rewrite NS in H. exact H.
Qed.

(* arrival order: the dispatcher takes the oldest frame; the peer appends at the end *)
Lemma dispatch_fifo : forall fx p s s' os, exec fx p s ADispatch = Some (s', os) ->
  exists n f q, inq s = (n, f) :: q /\ (s', os) = dispatch p (w_inq s q) n f.
Proof.
  intros fx p s s' os H. cbn in H. destruct (inq s) as [|[n f] q]; [discriminate|].
  inversion H. exists n, f, q. auto.
Qed.

Lemma peer_appends : forall fx p s f s' os, exec fx p s (APeer f) = Some (s', os) ->
  inq s' = inq s ++ [(nsent s + 1, f)] /\ os = [OPeerSent (nsent s + 1) f].
Proof.
  intros fx p s f s' os H. cbn in H. destruct (sock s); [|discriminate]. inversion H; subst. auto.
Qed.
