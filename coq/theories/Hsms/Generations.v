(** Generations — executable LTS of the per-TCP-generation send/receive machinery of the HSMS
    engine, together with the connection metrics it maintains (kind R model for C09 and C20).

    Source read (pinned tree): hsms/epoch.go (newEpoch, liveConn, closeSocket, teardown, join),
    hsms/connection_send.go (sendWaitReply, sendNoReply, SendAsync, writeFrame, drainSendCh,
    isCountedSendErr), hsms/connection_runtime.go (DeliverOwnedFrame, RouteReply),
    hsms/reply_registry.go, hsms/connection_lifecycle.go (Open, Close, react, startConnectLoop,
    connectLoop, TCPUp), hsms/connection_metrics.go (every inc/dec call site),
    hsmsss/transport_recv.go (recvLoop, dispatchFrame).  Atomic actions: DESIGN.md App. A.2/A.3.

    Generations are numbered 0,1,2,… in publication order ([cur.Store]).  One LTS action = one
    atomic step of the code; per call [c] pinned to generation [g]:

      Enter c k      [e := c.cur.Load()]; nil => ErrNotOpen, else the call is PINNED to [e]
      B1 c           one read of the connection state; data and not Selected => drop++, refused
      Register c     sync: [e.replies.register(key)] (W-bit data and control only)
      Enqueue* c     async: the 3-way select {room in e.sendCh | e.ctx.Done | caller ctx}
      Drain c        the generation's sender goroutine pops the request
      Capture c      [e.writeMu.Lock(); conn := e.liveConn()] — the socket of generation e, or nil
      Check c        conn == nil => ErrConnClosed; e.ctx cancelled => ErrConnClosed;
                     data and not Selected => drop++, ErrNotSelectedState (B2)
      WriteOk c      [tr.Write(conn)] succeeds: the frame is appended to THAT socket (only possible
                     while it is open); data => send++
      WriteFail c    [tr.Write] fails (timeout, closed socket): sync data => err++; async => asyncErr++
      Arm c          W-bit data => inflight++; timer armed (after the write returned)
      Complete* c    the 4-way select {registry channel | timer | e.ctx.Done | caller ctx} plus the
                     deferred deregister and inflight--
      PeerSend g f   the peer of generation g writes one complete frame
      Read g         recv loop of g: [readFrame(conn)] returns a frame (needs the socket open)
      Route g        recv loop of g: dispatchFrame on the frame it holds: data while Selected =>
                     recv++; replies are routed into the registry of the CURRENT generation
                     ([RouteReply] loads [c.cur]), non-blocking
      Open / Publish / TCPUp / Select / Deselect / Drop / CloseReq / Teardown / Join g /
      LoopSpawn / LoopBegin / LoopEnd ok      lifecycle (see [exec])
      Snap           the harness reads the metrics getters

    Abstractions, each a SUPERSET of the code's behaviours (sound for safety):
    - [writeMu] is not modelled as a lock (Capture..Write of different calls interleave freely);
    - the async queue is unbounded and unordered (a full queue only blocks; FIFO is not needed);
    - the sender goroutine may pop a request at any time, even after its generation was cancelled
      (Go's select picks randomly among ready cases);
    - a write may fail at any time; the caller's ctx may fire at any time; timers may fire at any
      time (lower bounds on timers are C06/C19's concern);
    - system bytes of registered calls are unique (key = call id; uniqueness is C06's sysbytes lemma).
    Timing assumption (stated in checks/C09.py): the bounded join of a torn-down generation returns
    (normally or by close-timeout) only when that generation's recv loop holds no un-routed frame;
    the recv loop blocks only in application handlers, which run AFTER the routing step, and a
    read on the closed socket fails — so [Join g] requires [g_rbuf g = None].
    Both transports sit under this one engine: for HSMS-SS [WriteOk]/[WriteFail] stand for the
    writev on the generation's socket; for SECS-I they stand for the hand-off to THAT generation's
    line engine plus the block transaction ([secs1.transport.Write] refuses with ErrConnClosed
    unless the caller's socket is the live generation's socket — the same binding); a SECS-I
    generation is Selected as soon as it is up ([TCPUp] then [Select] with nothing in between).
    autoS9F9 (on in the SECS-I/HSMS equipment role): the S9F9 notice after a T3 is an ordinary
    asynchronous data call entered by the environment ([Enter c KAsync] after [CompleteTimer]); the
    S9F1 notice of session-id validation likewise.  Not modelled: decode-error handlers (off by
    default; they only divert the handler fan-out). *)
From Coq Require Import ZArith Bool List Lia Arith.
Import ListNotations.

Inductive cstate := NC | NS | SEL.
Definition is_sel (s : cstate) : bool := match s with SEL => true | _ => false end.
Definition is_nc (s : cstate) : bool := match s with NC => true | _ => false end.

(** Call kinds: W-bit data through sendWaitReply; W-clear data through sendWaitReply / any data
    through sendNoReply; data through SendAsync; control through sendWaitReply (Select.req,
    Linktest.req); control through SendAsync (Select.rsp, Linktest.rsp, Reject.req …). *)
Inductive kind := KSyncW | KSyncNW | KAsync | KCtrl | KCtrlAsync.
Definition is_data (k : kind) : bool := match k with KSyncW | KSyncNW | KAsync => true | _ => false end.
Definition is_async (k : kind) : bool := match k with KAsync | KCtrlAsync => true | _ => false end.
Definition registers (k : kind) : bool := match k with KSyncW | KCtrl => true | _ => false end.
Definition is_syncw (k : kind) : bool := match k with KSyncW => true | _ => false end.

Inductive result :=
| ROk                 (* sync W-clear: frame on the wire *)
| RQueued             (* async: enqueued, nil returned to the caller *)
| RReply (from : nat) (* a reply/rsp, routed by the recv loop of generation [from] *)
| RReject (from : nat)(* a peer Reject.req, routed by the recv loop of generation [from] *)
| RTimer              (* T3 (data) / T6 (control) *)
| RClosed             (* ErrConnClosed *)
| RCtx                (* the caller's ctx *)
| RNotSel             (* ErrNotSelectedState (B1 or B2) *)
| RWriteErr           (* a transport write error *)
| RNotOpen.           (* ErrNotOpen *)

Inductive rstate := Unreg | RegEmpty | RegFull (r : result).

Inductive phase :=
| PNone | PEntered | PGated | PReady | PQueued
| PCaptured (live : bool) | PWriting | PWritten | PWait | PDone (r : result).

Record call := mkCall { c_kind : kind; c_gen : nat; c_phase : phase; c_reg : rstate }.
Definition call0 : call := mkCall KCtrl 0 PNone Unreg.

(** Frames the peer sends: a data secondary / a Reject.req / a control rsp carrying system bytes
    [key]; a data primary. *)
Inductive pframe := FReply (key : nat) | FRejectK (key : nat) | FCtrlRsp (key : nat) | FPrimary.
Definition pf_data (f : pframe) : bool := match f with FReply _ | FPrimary => true | _ => false end.

Record gen := mkGen {
  g_sock : bool;              (* e.conn != nil and open *)
  g_up : bool;                (* TCPUp ran for this generation *)
  g_cancel : bool;            (* e.ctx cancelled (teardown began) *)
  g_joined : bool;            (* e.done closed *)
  g_inbox : list pframe;      (* bytes the peer wrote, not yet read *)
  g_rbuf : option pframe      (* the frame the recv loop holds between readFrame and its routing *)
}.
Definition gen0 : gen := mkGen false false false false [] None.

Record metrics := mkM {
  m_sent : Z; m_recv : Z; m_inflight : Z; m_err : Z; m_drop : Z; m_aerr : Z; m_retry : Z; m_reconn : Z }.
Definition m0 : metrics := mkM 0 0 0 0 0 0 0 0.

Record state := mkS {
  cur : option nat;           (* c.cur *)
  ngen : nat;                 (* generations published so far *)
  gens : nat -> gen;
  calls : nat -> call;
  ids : list nat;             (* ghost: call ids in use *)
  st : cstate;                (* supervisor state word *)
  shut : bool;                (* c.shutdown *)
  lsp : nat;                  (* reconnect loops spawned whose goroutine has not yet run *)
  lrun : nat;                 (* reconnect loops between incConnRetry and the deferred decConnRetry *)
  wire : list (nat * nat * kind);   (* ghost: every frame appended to a socket (generation, call, kind), newest first *)
  mx : metrics
}.

Definition init : state := mkS None 0 (fun _ => gen0) (fun _ => call0) [] NC false 0 0 [] m0.

Inductive action :=
| Enter (c : nat) (k : kind) | B1 (c : nat) | Register (c : nat)
| Enqueue (c : nat) | EnqueueClosed (c : nat) | EnqueueCtx (c : nat) | Drain (c : nat)
| Capture (c : nat) | Check (c : nat) | WriteOk (c : nat) | WriteFail (c : nat) | Arm (c : nat)
| CompleteReply (c : nat) | CompleteTimer (c : nat) | CompleteClosed (c : nat) | CompleteCtx (c : nat)
| PeerSend (g : nat) (f : pframe) | Read (g : nat) | Route (g : nat)
| Open | Publish | TCPUp | Select | Deselect | Drop | CloseReq | Teardown | Join (g : nat)
| LoopSpawn | LoopBegin | LoopEnd (ok : bool)
| Snap.

Inductive obs :=
| OAccepted (c : nat) (k : kind) (g : nat)     (* the call entered and is pinned to generation g *)
| OWire (g : nat) (c : nat) (k : kind)         (* the frame of call c was appended to socket g *)
| OCompleted (c : nat) (k : kind) (r : result) (* the API call returned r *)
| OAsyncErr (c : nat) (k : kind) (r : result)  (* the sender goroutine's write of c failed *)
| OTeardown (g : nat)                          (* generation g: ctx cancelled, socket closed *)
| OGenUp (g : nat)                             (* generation g: socket published *)
| OPeerSent (g : nat) (f : pframe)
| ODispatch (g : nat) (f : pframe) (counted : bool)  (* recv loop of g routed f; counted = recv++ *)
| OSnap (m : metrics) (quiet : bool).          (* metrics getters; quiet = no reconnect loop exists *)

(** * State update helpers *)
Definition upd {A} (f : nat -> A) (k : nat) (v : A) : nat -> A := fun x => if Nat.eqb x k then v else f x.

Definition set_call (s : state) (c : nat) (v : call) : state :=
  mkS (cur s) (ngen s) (gens s) (upd (calls s) c v) (ids s) (st s) (shut s) (lsp s) (lrun s) (wire s) (mx s).
Definition set_gen (s : state) (g : nat) (v : gen) : state :=
  mkS (cur s) (ngen s) (upd (gens s) g v) (calls s) (ids s) (st s) (shut s) (lsp s) (lrun s) (wire s) (mx s).
Definition set_mx (s : state) (m : metrics) : state :=
  mkS (cur s) (ngen s) (gens s) (calls s) (ids s) (st s) (shut s) (lsp s) (lrun s) (wire s) m.
Definition set_st (s : state) (x : cstate) : state :=
  mkS (cur s) (ngen s) (gens s) (calls s) (ids s) x (shut s) (lsp s) (lrun s) (wire s) (mx s).
Definition set_loops (s : state) (a b : nat) : state :=
  mkS (cur s) (ngen s) (gens s) (calls s) (ids s) (st s) (shut s) a b (wire s) (mx s).

Definition ph (s : state) (c : nat) : phase := c_phase (calls s c).
Definition with_phase (x : call) (p : phase) : call := mkCall (c_kind x) (c_gen x) p (c_reg x).
Definition with_reg (x : call) (r : rstate) : call := mkCall (c_kind x) (c_gen x) (c_phase x) r.

Definition inc_sent (m : metrics) := mkM (m_sent m + 1) (m_recv m) (m_inflight m) (m_err m) (m_drop m) (m_aerr m) (m_retry m) (m_reconn m).
Definition inc_recv (m : metrics) := mkM (m_sent m) (m_recv m + 1) (m_inflight m) (m_err m) (m_drop m) (m_aerr m) (m_retry m) (m_reconn m).
Definition add_inflight (m : metrics) (d : Z) := mkM (m_sent m) (m_recv m) (m_inflight m + d) (m_err m) (m_drop m) (m_aerr m) (m_retry m) (m_reconn m).
Definition inc_err (m : metrics) := mkM (m_sent m) (m_recv m) (m_inflight m) (m_err m + 1) (m_drop m) (m_aerr m) (m_retry m) (m_reconn m).
Definition inc_drop (m : metrics) := mkM (m_sent m) (m_recv m) (m_inflight m) (m_err m) (m_drop m + 1) (m_aerr m) (m_retry m) (m_reconn m).
Definition inc_aerr (m : metrics) := mkM (m_sent m) (m_recv m) (m_inflight m) (m_err m) (m_drop m) (m_aerr m + 1) (m_retry m) (m_reconn m).
Definition add_retry (m : metrics) (d : Z) := mkM (m_sent m) (m_recv m) (m_inflight m) (m_err m) (m_drop m) (m_aerr m) (m_retry m + d) (m_reconn m).
Definition inc_reconn (m : metrics) := mkM (m_sent m) (m_recv m) (m_inflight m) (m_err m) (m_drop m) (m_aerr m) (m_retry m) (m_reconn m + 1).

Definition when {A} (b : bool) (f : A -> A) (x : A) : A := if b then f x else x.

(** isCountedSendErr: everything except NotSelected / ConnClosed / caller-ctx errors. *)
Definition counted_err (r : result) : bool := match r with RWriteErr => true | _ => false end.

(** A write-path failure of call [c] with result [r] (from Check or WriteFail): a synchronous
    caller gets [r] back (deferred deregister; data and counted => err++); on the sender
    goroutine it is asyncErr++ and the error-handler callback. *)
Definition fail_write (s : state) (c : nat) (r : result) : state * list obs :=
  let x := calls s c in
  let k := c_kind x in
  if is_async k then
    (set_mx (set_call s c (with_phase x (PDone r))) (inc_aerr (mx s)), [OAsyncErr c k r])
  else
    (set_mx (set_call s c (mkCall k (c_gen x) (PDone r) Unreg))
            (when (is_data k && counted_err r) inc_err (mx s)),
     [OCompleted c k r]).

(** Return from the reply wait: deferred deregister and inflight--. *)
Definition finish_wait (s : state) (c : nat) (r : result) (m : metrics) : state * list obs :=
  let x := calls s c in
  let k := c_kind x in
  (set_mx (set_call s c (mkCall k (c_gen x) (PDone r) Unreg))
          (when (is_syncw k) (fun m => add_inflight m (-1)) m),
   [OCompleted c k r]).

(** RouteReply: [e := c.cur.Load(); e.replies.route(key, res)] — a hit only on a key registered in
    the registry of the CURRENT generation; non-blocking send into the cap-1 channel. *)
Definition route_cur (s : state) (key : nat) (r : result) : state :=
  match cur s with
  | None => s
  | Some gc =>
      let x := calls s key in
      if Nat.eqb (c_gen x) gc then
        match c_reg x with
        | RegEmpty => set_call s key (with_reg x (RegFull r))
        | _ => s
        end
      else s
  end.

Definition new_gen (s : state) (sh : bool) : state :=
  mkS (Some (ngen s)) (S (ngen s)) (upd (gens s) (ngen s) gen0) (calls s) (ids s) (st s) sh (lsp s) (lrun s) (wire s) (mx s).

Definition quiet (s : state) : bool := Nat.eqb (lsp s) 0 && Nat.eqb (lrun s) 0.

Definition exec (s : state) (a : action) : state * list obs :=
  match a with
  | Enter c k =>
      match ph s c with
      | PNone =>
          match cur s with
          | None =>
              (mkS (cur s) (ngen s) (gens s) (upd (calls s) c (mkCall k 0 (PDone RNotOpen) Unreg)) (c :: ids s)
                   (st s) (shut s) (lsp s) (lrun s) (wire s) (mx s), [OCompleted c k RNotOpen])
          | Some g =>
              (mkS (cur s) (ngen s) (gens s) (upd (calls s) c (mkCall k g PEntered Unreg)) (c :: ids s)
                   (st s) (shut s) (lsp s) (lrun s) (wire s) (mx s), [OAccepted c k g])
          end
      | _ => (s, [])
      end
  | B1 c =>
      let x := calls s c in
      match c_phase x with
      | PEntered =>
          if is_data (c_kind x) && negb (is_sel (st s)) then
            (set_mx (set_call s c (with_phase x (PDone RNotSel))) (inc_drop (mx s)), [OCompleted c (c_kind x) RNotSel])
          else (set_call s c (with_phase x PGated), [])
      | _ => (s, [])
      end
  | Register c =>
      let x := calls s c in
      match c_phase x with
      | PGated =>
          if is_async (c_kind x) then (s, [])
          else (set_call s c (mkCall (c_kind x) (c_gen x) PReady (if registers (c_kind x) then RegEmpty else Unreg)), [])
      | _ => (s, [])
      end
  | Enqueue c =>
      let x := calls s c in
      match c_phase x with
      | PGated => if is_async (c_kind x) then (set_call s c (with_phase x PQueued), [OCompleted c (c_kind x) RQueued]) else (s, [])
      | _ => (s, [])
      end
  | EnqueueClosed c =>
      let x := calls s c in
      match c_phase x with
      | PGated =>
          if is_async (c_kind x) && g_cancel (gens s (c_gen x))
          then (set_call s c (with_phase x (PDone RClosed)), [OCompleted c (c_kind x) RClosed]) else (s, [])
      | _ => (s, [])
      end
  | EnqueueCtx c =>
      let x := calls s c in
      match c_phase x with
      | PGated => if is_async (c_kind x) then (set_call s c (with_phase x (PDone RCtx)), [OCompleted c (c_kind x) RCtx]) else (s, [])
      | _ => (s, [])
      end
  | Drain c =>
      let x := calls s c in
      match c_phase x with
      | PQueued => (set_call s c (with_phase x PReady), [])
      | _ => (s, [])
      end
  | Capture c =>
      let x := calls s c in
      match c_phase x with
      | PReady => (set_call s c (with_phase x (PCaptured (g_sock (gens s (c_gen x))))), [])
      | _ => (s, [])
      end
  | Check c =>
      let x := calls s c in
      match c_phase x with
      | PCaptured live =>
          if negb live then fail_write s c RClosed
          else if g_cancel (gens s (c_gen x)) then fail_write s c RClosed
          else if is_data (c_kind x) && negb (is_sel (st s)) then
                 fail_write (set_mx s (inc_drop (mx s))) c RNotSel
          else (set_call s c (with_phase x PWriting), [])
      | _ => (s, [])
      end
  | WriteOk c =>
      let x := calls s c in
      let k := c_kind x in
      match c_phase x with
      | PWriting =>
          if g_sock (gens s (c_gen x)) then
            let s1 := mkS (cur s) (ngen s) (gens s) (calls s) (ids s) (st s) (shut s) (lsp s) (lrun s)
                          ((c_gen x, c, k) :: wire s) (when (is_data k) inc_sent (mx s)) in
            if registers k then (set_call s1 c (with_phase x PWritten), [OWire (c_gen x) c k])
            else if is_async k then (set_call s1 c (with_phase x (PDone ROk)), [OWire (c_gen x) c k])
            else (set_call s1 c (with_phase x (PDone ROk)), [OWire (c_gen x) c k; OCompleted c k ROk])
          else (s, [])
      | _ => (s, [])
      end
  | WriteFail c =>
      match ph s c with
      | PWriting => fail_write s c RWriteErr
      | _ => (s, [])
      end
  | Arm c =>
      let x := calls s c in
      match c_phase x with
      | PWritten => (set_mx (set_call s c (with_phase x PWait)) (when (is_syncw (c_kind x)) (fun m => add_inflight m 1) (mx s)), [])
      | _ => (s, [])
      end
  | CompleteReply c =>
      let x := calls s c in
      match c_phase x, c_reg x with
      | PWait, RegFull r => finish_wait s c r (mx s)
      | _, _ => (s, [])
      end
  | CompleteTimer c =>
      let x := calls s c in
      match c_phase x with
      | PWait => finish_wait s c RTimer (when (is_data (c_kind x)) inc_err (mx s))
      | _ => (s, [])
      end
  | CompleteClosed c =>
      let x := calls s c in
      match c_phase x with
      | PWait => if g_cancel (gens s (c_gen x)) then finish_wait s c RClosed (mx s) else (s, [])
      | _ => (s, [])
      end
  | CompleteCtx c =>
      match ph s c with
      | PWait => finish_wait s c RCtx (mx s)
      | _ => (s, [])
      end
  | PeerSend g f =>
      let y := gens s g in
      if g_sock y then
        (set_gen s g (mkGen (g_sock y) (g_up y) (g_cancel y) (g_joined y) (g_inbox y ++ [f]) (g_rbuf y)), [OPeerSent g f])
      else (s, [])
  | Read g =>
      let y := gens s g in
      match g_sock y, g_rbuf y, g_inbox y with
      | true, None, f :: rest => (set_gen s g (mkGen (g_sock y) (g_up y) (g_cancel y) (g_joined y) rest (Some f)), [])
      | _, _, _ => (s, [])
      end
  | Route g =>
      let y := gens s g in
      match g_rbuf y with
      | Some f =>
          let s1 := set_gen s g (mkGen (g_sock y) (g_up y) (g_cancel y) (g_joined y) (g_inbox y) None) in
          match f with
          | FReply key =>
              if is_sel (st s) then (route_cur (set_mx s1 (inc_recv (mx s))) key (RReply g), [ODispatch g f true])
              else (s1, [ODispatch g f false])
          | FPrimary =>
              if is_sel (st s) then (set_mx s1 (inc_recv (mx s)), [ODispatch g f true])
              else (s1, [ODispatch g f false])
          | FRejectK key => (route_cur s1 key (RReject g), [ODispatch g f false])
          | FCtrlRsp key => (route_cur s1 key (RReply g), [ODispatch g f false])
          end
      | None => (s, [])
      end
  | Open =>
      (* never opened, or a completed Close (generation joined, reconnect loops joined) *)
      match cur s with
      | None => (new_gen s false, [])
      | Some g => if shut s && g_joined (gens s g) && quiet s then (new_gen s false, []) else (s, [])
      end
  | Publish =>
      (* connectLoop: after prev.wait(), under publishMu with the shutdown fence *)
      match cur s with
      | Some g => if negb (shut s) && g_joined (gens s g) && negb (Nat.eqb (lrun s) 0) then (new_gen s false, []) else (s, [])
      | None => (s, [])
      end
  | TCPUp =>
      match cur s with
      | Some g =>
          let y := gens s g in
          if negb (g_cancel y) && negb (g_up y) && is_nc (st s) then
            (set_st (set_gen s g (mkGen true true false (g_joined y) (g_inbox y) (g_rbuf y))) NS, [OGenUp g])
          else (s, [])
      | None => (s, [])
      end
  | Select =>
      match cur s, st s with
      | Some g, NS => if g_sock (gens s g) then (set_st s SEL, []) else (s, [])
      | _, _ => (s, [])
      end
  | Deselect => match st s with SEL => (set_st s NS, []) | _ => (s, []) end
  | Drop => (set_st s NC, [])
  | CloseReq =>
      match cur s with
      | Some _ => (mkS (cur s) (ngen s) (gens s) (calls s) (ids s) NC true (lsp s) (lrun s) (wire s) (mx s), [])
      | None => (s, [])
      end
  | Teardown =>
      match cur s with
      | Some g =>
          let y := gens s g in
          if is_nc (st s) && negb (g_cancel y) then
            (set_gen s g (mkGen false (g_up y) true (g_joined y) (g_inbox y) (g_rbuf y)), [OTeardown g])
          else (s, [])
      | None => (s, [])
      end
  | Join g =>
      let y := gens s g in
      match g_cancel y, g_rbuf y with
      | true, None => (set_gen s g (mkGen (g_sock y) (g_up y) true true (g_inbox y) None), [])
      | _, _ => (s, [])
      end
  | LoopSpawn =>
      if is_nc (st s) && negb (shut s) then (set_loops s (S (lsp s)) (lrun s), []) else (s, [])
  | LoopBegin =>
      match lsp s with
      | S n => (set_mx (set_loops s n (S (lrun s))) (add_retry (mx s) 1), [])
      | O => (s, [])
      end
  | LoopEnd ok =>
      match lrun s with
      | S n => (set_mx (set_loops s (lsp s) n) (when ok inc_reconn (add_retry (mx s) (-1))), [])
      | O => (s, [])
      end
  | Snap => (s, [OSnap (mx s) (quiet s)])
  end.

Fixpoint run (s : state) (acts : list action) : state * list obs :=
  match acts with
  | [] => (s, [])
  | a :: rest =>
      let '(s1, o1) := exec s a in
      let '(s2, o2) := run s1 rest in
      (s2, o1 ++ o2)
  end.

(** * Monitor for C09 (shared with the harness through extraction) *)

Record mcall := mkMC { mc_acc : option nat; mc_kind : kind; mc_wire : bool; mc_done : bool }.
Definition mcall0 : mcall := mkMC None KCtrl false false.
Record mon9 := mkMon9 { mc : nat -> mcall; mt : nat -> bool }.
Definition mon9_0 : mon9 := mkMon9 (fun _ => mcall0) (fun _ => false).

Definition kind_eqb (a b : kind) : bool :=
  match a, b with
  | KSyncW, KSyncW | KSyncNW, KSyncNW | KAsync, KAsync | KCtrl, KCtrl | KCtrlAsync, KCtrlAsync => true
  | _, _ => false
  end.

(** The results a call may return, given its kind, its pinned generation and whether its frame
    was put on the wire. *)
Definition result_ok (k : kind) (g : nat) (wired : bool) (r : result) : bool :=
  if is_async k then
    negb wired && match r with RQueued | RClosed | RCtx => true | RNotSel => is_data k | _ => false end
  else if registers k then
    if wired then
      match r with
      | RReply f | RReject f => Nat.eqb f g      (* a reply only from the call's own generation *)
      | RTimer | RClosed | RCtx => true
      | _ => false
      end
    else match r with RClosed | RWriteErr => true | RNotSel => is_data k | _ => false end
  else
    if wired then match r with ROk => true | _ => false end
    else match r with RClosed | RWriteErr | RNotSel => true | _ => false end.

Definition mon9_step (m : mon9) (o : obs) : option mon9 :=
  match o with
  | OAccepted c k g =>
      match mc_acc (mc m c), mc_done (mc m c) with
      | None, false => Some (mkMon9 (upd (mc m) c (mkMC (Some g) k false false)) (mt m))
      | _, _ => None
      end
  | OWire g c k =>
      (* only on the socket of the generation the call was accepted in; only while that
         generation is alive; at most once *)
      let x := mc m c in
      match mc_acc x with
      | Some ga =>
          if Nat.eqb ga g && kind_eqb (mc_kind x) k && negb (mc_wire x) && negb (mt m g)
             && (is_async k || negb (mc_done x))
          then Some (mkMon9 (upd (mc m) c (mkMC (Some ga) k true (mc_done x))) (mt m))
          else None
      | None => None
      end
  | OCompleted c k r =>
      let x := mc m c in
      match mc_acc x with
      | Some ga =>
          if kind_eqb (mc_kind x) k && negb (mc_done x) && result_ok k ga (mc_wire x) r
          then Some (mkMon9 (upd (mc m) c (mkMC (Some ga) k (mc_wire x) true)) (mt m))
          else None
      | None =>
          match r, mc_done x with
          | RNotOpen, false => Some (mkMon9 (upd (mc m) c (mkMC None k false true)) (mt m))
          | _, _ => None
          end
      end
  | OAsyncErr c k r =>
      let x := mc m c in
      match mc_acc x with
      | Some _ => if kind_eqb (mc_kind x) k && is_async k && negb (mc_wire x) then Some m else None
      | None => None
      end
  | OTeardown g => if mt m g then None else Some (mkMon9 (mc m) (upd (mt m) g true))
  | _ => Some m
  end.

Fixpoint mon9_run (m : mon9) (l : list obs) : option mon9 :=
  match l with
  | [] => Some m
  | o :: r => match mon9_step m o with Some m' => mon9_run m' r | None => None end
  end.

Definition ok_C09 (l : list obs) : bool :=
  match mon9_run mon9_0 l with Some _ => true | None => false end.
