(** LifecycleProofs — theorems about the lifecycle LTS (Hsms/Lifecycle.v), from the inductive
    invariant of Hsms/LifecycleInv.v.

      Lifecycle_reachable_inv      every reachable state satisfies the invariant
      Lifecycle_no_err             the model's shape is never exceeded (generations never overlap,
                                   never two loops before their Start, evClose always fenced)
      Lifecycle_already_open       Open on an open connection: ErrAlreadyOpen, state unchanged
      Lifecycle_close_idempotent   Close after Close: retained result, state unchanged
      Lifecycle_close_clean        in every state in which Close has returned: no goroutine, no
                                   socket/listener, no loop, NotConnected — and the only enabled
                                   actions are an Open call or no-ops (no dial, no publish)
      Lifecycle_no_dial_after_close  hence no dial/listen/publish until the next Open call
      Lifecycle_loop_exists        open /\ ~shutdown /\ NotConnected => a loop, a Start, a
                                   reaction in progress, or a live listener covers the connection
      Lifecycle_reconnect_count    Reconnects() + loops that have not yet counted = successful
                                   counted re-dials
      Lifecycle_monitor_all_runs   ok_C10/ok_C11 accept the observation log of every run
      Lifecycle_close_blocked_witness  (DESIGN §5 #9) a reachable state in which Open waits for
                                   Selected holding lifeMu and Close is not enabled *)
From Coq Require Import Bool List Arith Lia.
From GoSecs Require Import Hsms.Lifecycle Hsms.LifecycleSat Hsms.LifecycleInv.
Import ListNotations.

(** ** reachability *)
Lemma lc_inv_init : forall active, lc_inv (Lifecycle_init active) = true.
Proof. intros []; vm_compute; reflexivity. Qed.

Lemma lc_count_init : forall active, lc_count_ok (Lifecycle_init active).
Proof. intros; reflexivity. Qed.

Lemma lc_count_step : forall s a s', lc_count_ok s -> Lifecycle_exec s a = Some s' -> lc_count_ok s'.
Proof.
  intros s a s' Hc Hex. unfold lc_count_ok in *.
  lc_destruct_state s. cbn in Hc.
  destruct a; unfold Lifecycle_exec in Hex; lc_unfold_helpers; cbn in Hex;
    repeat (lc_break Hex; cbn in Hex; try discriminate Hex);
    inversion Hex; subst s'; clear Hex; cbn; try assumption;
    repeat match goal with
           | H : negb (_ =? 0) = true |- _ => apply negb_true_iff in H; apply Nat.eqb_neq in H
           | H : _ && _ = true |- _ => apply andb_true_iff in H; destruct H
           end; lia.
Qed.

Definition Lifecycle_reachable (s : Lifecycle_state) : Prop :=
  exists active acts, Lifecycle_run (Lifecycle_init active) acts = Some s.

Lemma lc_run_inv : forall acts s s', lc_inv s = true -> lc_count_ok s ->
  Lifecycle_run s acts = Some s' -> lc_inv s' = true /\ lc_count_ok s'.
Proof.
  induction acts as [|a acts IH]; intros s s' Hi Hc Hr; simpl in Hr.
  - inversion Hr; subst; auto.
  - destruct (Lifecycle_exec s a) as [s1|] eqn:E; [|discriminate].
    apply (IH s1); [eapply lc_inv_step; eassumption|eapply lc_count_step; eassumption|assumption].
Qed.

Theorem Lifecycle_reachable_inv : forall s, Lifecycle_reachable s -> lc_inv s = true /\ lc_count_ok s.
Proof.
  intros s (active & acts & Hr). eapply lc_run_inv; [apply lc_inv_init|apply lc_count_init|exact Hr].
Qed.

Theorem Lifecycle_no_err : forall s, Lifecycle_reachable s -> lc_err s = false.
Proof.
  intros s Hr. destruct (Lifecycle_reachable_inv s Hr) as [Hi _].
  unfold lc_inv, lc_inv_clauses in Hi. cbn [forallb] in Hi.
  apply andb_true_iff in Hi. destruct Hi as [H _]. now apply negb_true_iff in H.
Qed.

(** ** tactics: facts from the invariant by the propositional procedure *)
Ltac lc_open_inv H :=
  unfold lc_inv, lc_inv_clauses in H; cbn [forallb] in H;
  unfold imp, unregistered, st_nc, sup_none, sup_stopped, lc_sup_alive, lc_no_loops, spc_idle in H; cbn in H.

Ltac lc_enum_facts :=
  try match goal with x : lc_api_pc |- _ => pose proof (api_facts x) end;
  try match goal with x : lc_sup_pc |- _ => pose proof (spc_facts x) end;
  try match goal with x : lc_loop_pc |- _ => pose proof (lpc_facts x) end;
  try match goal with x : lc_suplife |- _ => pose proof (sup_facts x) end;
  try match goal with x : lc_cstate |- _ => pose proof (st_facts x) end;
  unfold imp in *; cbn in *.

(** prove a boolean fact [F = true] from the boolean hypotheses in the context *)
Ltac lc_have F := let H := fresh "F" in assert (H : F = true) by bool_sat.

(** ** Open on an open connection *)
Theorem Lifecycle_already_open : forall s m,
  lc_api s = LcIdle -> lc_is_none (lc_sup s) = false -> lc_shutdown s = false ->
  Lifecycle_exec s (LcOpen m) = Some s /\
  Lifecycle_observe1 s (LcOpen m) s = [LcObsOpenCall; LcObsOpenRet LcOpenAlready true].
Proof.
  intros s m Ha Hs Hd. unfold Lifecycle_exec, Lifecycle_observe1. rewrite Ha, Hs, Hd. simpl. split; reflexivity.
Qed.

(** ... and Open is refused ONLY then: from an idle state that is never-opened or closed, the call proceeds. *)
Theorem Lifecycle_open_proceeds : forall s m,
  lc_api s = LcIdle -> (lc_is_none (lc_sup s) = true \/ lc_shutdown s = true) ->
  exists s', Lifecycle_exec s (LcOpen m) = Some s' /\ lc_api s' = LcO1 m.
Proof.
  intros s m Ha H. unfold Lifecycle_exec. rewrite Ha.
  destruct H as [H|H]; rewrite H; [|rewrite orb_true_r]; eexists; split; reflexivity.
Qed.

(** ** states in which Close has returned (or a failed Open has rolled back) *)
Definition lc_closed (s : Lifecycle_state) : Prop := lc_api s = LcIdle /\ lc_shutdown s = true.

Lemma lc_b2n_false : forall b, b = false -> lc_b2n b = 0.
Proof. intros b ->; reflexivity. Qed.

Theorem Lifecycle_close_clean_state : forall s, lc_inv s = true -> lc_closed s ->
  Lifecycle_goroutines s = 0 /\ Lifecycle_sockets s = 0 /\ lc_no_loops s = true /\
  lc_is_nc (lc_st s) = true /\ lc_is_stopped (lc_sup s) = true /\ lc_edone s = true.
Proof.
  intros s Hi [Ha Hs]. lc_destruct_state s. cbn in Ha, Hs. subst api shutdown.
  lc_open_inv Hi. lc_enum_facts.
  lc_have (lc_is_stopped sup). lc_have (negb (lc_is_alive sup)). lc_have (negb gnotif). lc_have (negb gsender).
  lc_have (negb grecv). lc_have (negb gproc). lc_have (negb gaccept). lc_have (glt =? 0). lc_have (gt7 =? 0).
  lc_have (negb gjoin). lc_have (negb hasloop). lc_have (tailc =? 0). lc_have (tailn =? 0).
  lc_have (negb esock). lc_have (negb elis). lc_have (negb ahold). lc_have (lc_is_nc st). lc_have edone.
  repeat match goal with
         | H : negb _ = true |- _ => apply negb_true_iff in H
         | H : (_ =? 0) = true |- _ => apply Nat.eqb_eq in H
         end.
  subst. unfold Lifecycle_goroutines, Lifecycle_sockets, lc_no_loops, lc_sup_alive, lc_loop_hand; cbn.
  repeat match goal with H : ?x = false |- _ => rewrite H end.
  repeat match goal with H : ?x = true |- _ => rewrite H end.
  repeat split; reflexivity.
Qed.

Ltac lc_absurd := exfalso; cbn in *; let H := fresh in assert (H : false = true) by bool_sat; discriminate H.

(** In a closed state nothing can happen except a new Open call: every other enabled action is
    a no-op (a second Close returning the retained result, a failed send). In particular no dial,
    no listen, no publish is enabled — the loop's fences and the joins leave nothing behind. *)
Theorem Lifecycle_closed_quiescent : forall s a s', lc_inv s = true -> lc_closed s ->
  Lifecycle_exec s a = Some s' ->
  (exists m, a = LcOpen m) \/ (s' = s /\ (a = LcClose \/ a = LcSpuriousDown)).
Proof.
  intros s a s' Hi [Ha Hs] Hex.
  destruct a; try (left; eexists; reflexivity); right;
    lc_destruct_state s; cbn in Ha, Hs; subst api shutdown;
    lc_open_inv Hi; lc_enum_facts;
    unfold Lifecycle_exec in Hex; lc_unfold_helpers; cbn in Hex;
    repeat (lc_break Hex; cbn in Hex; try discriminate Hex);
    inversion Hex; subst s'; clear Hex;
    first [split; [reflexivity | first [left; reflexivity | right; reflexivity]] | lc_absurd].
Qed.


Definition lc_is_open_call (a : Lifecycle_action) : bool := match a with LcOpen _ => true | _ => false end.
Definition lc_obs_is_dial (o : Lifecycle_obs) : bool :=
  match o with LcObsDial _ | LcObsPublish => true | _ => false end.

(** No reconnect is attempted after Close: from a closed state, as long as no Open call is made,
    the state does not change at all and the observation log contains no dial and no publish. *)
Theorem Lifecycle_no_dial_after_close : forall acts s s', lc_inv s = true -> lc_closed s ->
  forallb (fun a => negb (lc_is_open_call a)) acts = true ->
  Lifecycle_run s acts = Some s' ->
  s' = s /\ existsb lc_obs_is_dial (Lifecycle_observe s acts) = false.
Proof.
  induction acts as [|a acts IH]; intros s s' Hi Hc Hn Hr; simpl in *.
  - inversion Hr; auto.
  - apply andb_true_iff in Hn; destruct Hn as [Hn1 Hn2].
    destruct (Lifecycle_exec s a) as [s1|] eqn:E; [|discriminate].
    destruct (Lifecycle_closed_quiescent s a s1 Hi Hc E) as [[m ->]|[-> Hk]]; [discriminate|].
    destruct (IH s s' Hi Hc Hn2 Hr) as [-> Ho]. split; [reflexivity|].
    rewrite existsb_app, Ho, orb_false_r.
    destruct Hk as [->| ->]; unfold Lifecycle_observe1.
    + destruct Hc as [Ha _]. rewrite Ha. destruct (lc_hascur s); reflexivity.
    + reflexivity.
Qed.

(** ** Close after Close *)
Theorem Lifecycle_close_idempotent : forall s, lc_inv s = true -> lc_closed s ->
  Lifecycle_exec s LcClose = Some s /\
  Lifecycle_observe1 s LcClose s = [lc_close_snapshot LcCloseRetained s] /\
  lc_close_snapshot LcCloseRetained s = LcObsCloseRet LcCloseRetained true 0 0 0 false.
Proof.
  intros s Hi Hc.
  destruct (Lifecycle_close_clean_state s Hi Hc) as (G & K & L & N & St & D).
  destruct Hc as [Ha Hs].
  assert (Hh : lc_hascur s = true).
  { lc_destruct_state s. cbn in Ha, Hs. cbn. subst. lc_open_inv Hi. lc_enum_facts. bool_sat. }
  unfold Lifecycle_exec, Lifecycle_observe1. rewrite Ha, Hh, St, D. cbn.
  repeat split. unfold lc_close_snapshot, Lifecycle_loops. rewrite G, K.
  unfold lc_no_loops in L. apply andb_true_iff in L; destruct L as [L L3]. apply andb_true_iff in L; destruct L as [L1 L2].
  apply negb_true_iff in L1. apply Nat.eqb_eq in L2, L3. rewrite L1, L2, L3, N. reflexivity.
Qed.

(** ** C11: a connection that is open and not connected is never left without something driving
    it towards a connection *)
Definition lc_covered (s : Lifecycle_state) : bool :=
  api_ostart (lc_api s) || api_ocold (lc_api s) || negb (lc_spc_idle (lc_spc s)) || lc_hasloop s ||
  (lc_elis s && lc_gaccept s && negb (lc_eup s) && negb (lc_etd s)) || lc_ahold s.

Theorem Lifecycle_loop_exists : forall s, lc_inv s = true ->
  lc_is_alive (lc_sup s) = true -> lc_shutdown s = false -> lc_is_nc (lc_st s) = true ->
  lc_covered s = true.
Proof.
  intros s Hi H1 H2 H3. unfold lc_covered. lc_destruct_state s. cbn in H1, H2, H3. cbn.
  lc_open_inv Hi. lc_enum_facts. bool_sat.
Qed.

Theorem Lifecycle_reconnect_count : forall s, Lifecycle_reachable s ->
  lc_reconnects s + lc_tailc s = lc_redials s.
Proof. intros s Hr. exact (proj2 (Lifecycle_reachable_inv s Hr)). Qed.

(** ** DESIGN §5 #9: Close is not enabled while a blocking Open waits for Selected *)
Definition lc_blocked_trace : list Lifecycle_action :=
  [LcOpen LcWaitSel; LcOpen1; LcOpen2; LcOpen3; LcODial true; LcOGate].

Theorem Lifecycle_close_blocked_witness :
  exists s, Lifecycle_run (Lifecycle_init true) lc_blocked_trace = Some s /\
            lc_api s = LcOWait /\ lc_is_ns (lc_st s) = true /\ Lifecycle_exec s LcClose = None /\
            (* ... and it stays disabled until the wait ends by itself *)
            (forall a s', Lifecycle_exec s a = Some s' -> lc_api s' = LcIdle -> exists r, a = LcOWaitRet r).
Proof.
  eexists. split; [vm_compute; reflexivity|]. repeat split.
  intros a s' Hex Hidle.
  destruct a; try (eexists; reflexivity); exfalso;
    unfold Lifecycle_exec in Hex; lc_unfold_helpers; cbn in Hex;
    repeat (lc_break Hex; cbn in Hex; try discriminate Hex);
    inversion Hex; subst s'; cbn in Hidle; discriminate Hidle.
Qed.

(** ** the monitors accept every run *)
Lemma lc_gor_zero : forall s,
  (Lifecycle_goroutines s =? 0) =
  negb (lc_sup_alive s) && negb (lc_gnotif s) && negb (lc_gsender s) && negb (lc_grecv s) && negb (lc_gproc s) &&
  negb (lc_gaccept s) && (lc_glt s =? 0) && (lc_gt7 s =? 0) && negb (lc_gjoin s) && negb (lc_hasloop s) &&
  (lc_tailc s =? 0) && (lc_tailn s =? 0).
Proof.
  intros s. unfold Lifecycle_goroutines.
  destruct (lc_sup_alive s), (lc_gnotif s), (lc_gsender s), (lc_grecv s), (lc_gproc s), (lc_gaccept s), (lc_gjoin s), (lc_hasloop s);
    destruct (lc_glt s), (lc_gt7 s), (lc_tailc s), (lc_tailn s); reflexivity.
Qed.

Lemma lc_socks_zero : forall s,
  (Lifecycle_sockets s =? 0) =
  negb (lc_esock s) && negb (lc_elis s) && negb (lc_ahold s) && (lc_api_hand (lc_api s) =? 0) && (lc_loop_hand s =? 0).
Proof.
  intros s. unfold Lifecycle_sockets.
  destruct (lc_esock s), (lc_elis s), (lc_ahold s); destruct (lc_api_hand (lc_api s)), (lc_loop_hand s); reflexivity.
Qed.

Lemma lc_loops_zero : forall s,
  (Lifecycle_loops s =? 0) = negb (lc_hasloop s) && (lc_tailc s =? 0) && (lc_tailn s =? 0).
Proof. intros s. unfold Lifecycle_loops. destruct (lc_hasloop s), (lc_tailc s), (lc_tailn s); reflexivity. Qed.

Definition biff (a b : bool) : bool := (a && b) || (negb a && negb b).
Definition api_opening (p : lc_api_pc) : bool :=
  api_setup p || api_ostart p || api_owait p || api_ocold p || api_ofail p.

(** what the monitor knows, related to the state of the model *)
Definition lc_rel (m : lc_mon) (s : Lifecycle_state) : bool :=
  lm_ok m && negb (lm_unknown m) &&
  imp (api_idle (lc_api s)) (biff (lm_open m) (negb (lc_is_none (lc_sup s)) && negb (lc_shutdown s))) &&
  imp (api_opening (lc_api s)) (negb (lm_open m)) &&
  imp (lm_closed m) (api_idle (lc_api s) && lc_shutdown s).

Lemma lc_rel_step : forall s a s' m, lc_inv s = true -> lc_rel m s = true ->
  Lifecycle_exec s a = Some s' ->
  lc_rel (fold_left lc_mon_step (Lifecycle_observe1 s a s') m) s' = true.
Proof.
  intros s a s' m Hi Hr Hex. destruct m as [mo mu mc mk].
  lc_destruct_state s.
  lc_open_inv Hi. lc_enum_facts.
  unfold lc_rel, api_opening, biff, imp in Hr; cbn in Hr.
  destruct a;
    unfold Lifecycle_exec in Hex; lc_unfold_helpers; cbn in Hex;
    repeat (lc_break Hex; cbn in Hex; try discriminate Hex);
    inversion Hex; subst s'; clear Hex;
    unfold Lifecycle_observe1, lc_close_snapshot;
    cbn -[Lifecycle_goroutines Lifecycle_sockets Lifecycle_loops];
    repeat match goal with |- context [if ?c then _ else _] =>
             destruct c eqn:?; cbn -[Lifecycle_goroutines Lifecycle_sockets Lifecycle_loops] end;
    rewrite ?lc_gor_zero, ?lc_socks_zero, ?lc_loops_zero;
    unfold lc_rel, api_opening, biff, imp, lc_loop_hand, lc_sup_alive; cbn; rewrite ?Nat.eqb_refl;
    repeat match goal with |- context [if ?c then _ else _] => destruct c eqn:?; cbn end;
    cbn in *; bool_sat.
Qed.

Lemma lc_rel_init : forall active, lc_rel lc_mon0 (Lifecycle_init active) = true.
Proof. intros []; reflexivity. Qed.

Lemma lc_observe_fold : forall acts s s' m, lc_inv s = true -> lc_rel m s = true ->
  Lifecycle_run s acts = Some s' ->
  lc_rel (fold_left lc_mon_step (Lifecycle_observe s acts) m) s' = true.
Proof.
  induction acts as [|a acts IH]; intros s s' m Hi Hr Hrun; simpl in *.
  - inversion Hrun; subst; exact Hr.
  - destruct (Lifecycle_exec s a) as [s1|] eqn:E; [|discriminate].
    rewrite fold_left_app. apply (IH s1).
    + eapply lc_inv_step; eassumption.
    + eapply lc_rel_step; eassumption.
    + exact Hrun.
Qed.

(** Every run of the model produces an observation log the monitors accept: after each Close
    that returned no goroutine, socket, listener or loop is left and State() is NotConnected; no
    dial or publish happens between a returned Close and the next Open call; ErrAlreadyOpen is
    returned exactly when the API results so far imply the connection is open. *)
Theorem Lifecycle_monitor_all_runs : forall active acts s,
  Lifecycle_run (Lifecycle_init active) acts = Some s ->
  ok_C10 (Lifecycle_observe (Lifecycle_init active) acts) = true /\
  ok_C11 (Lifecycle_observe (Lifecycle_init active) acts) = true.
Proof.
  intros active acts s Hr.
  pose proof (lc_observe_fold acts _ _ lc_mon0 (lc_inv_init active) (lc_rel_init active) Hr) as H.
  unfold ok_C10, ok_C11, lc_mon_run. unfold lc_rel in H.
  repeat (apply andb_true_iff in H; destruct H as [H ?]). split; exact H.
Qed.

(** ** reopen: a closed connection opened again is a fresh one, up to counters *)
Definition lc_open_prefix (m : lc_omode) : list Lifecycle_action := [LcOpen m; LcOpen1; LcOpen2; LcOpen3].

(** every field the step function can still read is equal; what may differ are the counters
    (reconnectGen, epoch ids, metrics) and fields that are dead until rewritten (the loop record
    while no loop exists, the reaction's epoch id while the supervisor is idle) *)
Definition lc_same_live (s t : Lifecycle_state) : Prop :=
  lc_active s = lc_active t /\ lc_api s = lc_api t /\ lc_shutdown s = lc_shutdown t /\
  lc_cancelled s = lc_cancelled t /\ lc_stopping s = lc_stopping t /\ lc_sup s = lc_sup t /\
  lc_st s = lc_st t /\ lc_latch s = lc_latch t /\ lc_spc s = lc_spc t /\ lc_pdisc s = lc_pdisc t /\
  lc_pt7 s = lc_pt7 t /\ lc_pups s = lc_pups t /\ lc_pbehind s = lc_pbehind t /\ lc_pclose s = lc_pclose t /\ lc_stopreq s = lc_stopreq t /\
  lc_gnotif s = lc_gnotif t /\ lc_hascur s = lc_hascur t /\ lc_etd s = lc_etd t /\ lc_edone s = lc_edone t /\
  lc_esock s = lc_esock t /\ lc_elis s = lc_elis t /\ lc_eup s = lc_eup t /\ lc_estop1 s = lc_estop1 t /\
  lc_estop2 s = lc_estop2 t /\ lc_ahold s = lc_ahold t /\ lc_gsender s = lc_gsender t /\ lc_grecv s = lc_grecv t /\
  lc_gproc s = lc_gproc t /\ lc_gaccept s = lc_gaccept t /\ lc_glt s = lc_glt t /\ lc_gt7 s = lc_gt7 t /\
  lc_gjoin s = lc_gjoin t /\ lc_hasloop s = lc_hasloop t /\ lc_tailc s = lc_tailc t /\ lc_tailn s = lc_tailn t /\
  lc_err s = lc_err t /\ (lc_oeid s =? lc_eid s) = (lc_oeid t =? lc_eid t) /\
  lc_hasloop s = false /\ lc_spc s = LcSupIdle.

(** the computation, on an explicit closed and clean state (everything not fixed by
    [Lifecycle_close_clean_state] is a variable) *)
Lemma lc_reopen_explicit : forall m active oeid rgen cancelled stopping st latch reid pdisc pt7 pups pbehind pclose stopreq
    eid etd eup estop1 estop2 lgen lcount lpc lprev lown reconnects redials ndials npub,
  let s := LcState active LcIdle oeid true rgen cancelled stopping LcSupStopped st latch LcSupIdle reid pdisc pt7 pups pbehind
             pclose stopreq false true eid etd true false false eup estop1 estop2 false false false false false 0 0 false
             false lgen lcount lpc lprev lown 0 0 false reconnects redials ndials npub in
  exists s1 s0,
    Lifecycle_run s (lc_open_prefix m) = Some s1 /\
    Lifecycle_run (Lifecycle_init (lc_active s)) (lc_open_prefix m) = Some s0 /\
    lc_same_live s1 s0 /\ lc_api s1 = LcOStart m LcSP0 /\
    Lifecycle_goroutines s1 = 3 /\ Lifecycle_sockets s1 = 0.
Proof.
  intros. subst s. vm_compute.
  match goal with
  | |- exists s1 s0, Some ?X = Some s1 /\ Some ?Y = Some s0 /\ _ => exists X, Y
  end.
  rewrite !Nat.eqb_refl. repeat split.
Qed.

Theorem Lifecycle_reopen : forall s m, lc_inv s = true -> lc_closed s ->
  exists s1 s0,
    Lifecycle_run s (lc_open_prefix m) = Some s1 /\
    Lifecycle_run (Lifecycle_init (lc_active s)) (lc_open_prefix m) = Some s0 /\
    lc_same_live s1 s0 /\ lc_api s1 = LcOStart m LcSP0 /\
    Lifecycle_goroutines s1 = 3 /\ Lifecycle_sockets s1 = 0.
Proof.
  intros s m Hi Hc.
  destruct (Lifecycle_close_clean_state s Hi Hc) as (G & K & L & N & St & D).
  destruct Hc as [Ha Hs].
  assert (E : exists oeid rgen cancelled stopping st latch reid pdisc pt7 pups pbehind pclose stopreq
    eid etd eup estop1 estop2 lgen lcount lpc lprev lown reconnects redials ndials npub,
    s = LcState (lc_active s) LcIdle oeid true rgen cancelled stopping LcSupStopped st latch LcSupIdle reid pdisc pt7 pups pbehind
             pclose stopreq false true eid etd true false false eup estop1 estop2 false false false false false 0 0 false
             false lgen lcount lpc lprev lown 0 0 false reconnects redials ndials npub).
  { clear G K.
    lc_destruct_state s. cbn in Ha, Hs, L, N, St, D. subst api shutdown edone.
    unfold lc_no_loops in L; cbn in L.
    apply andb_true_iff in L; destruct L as [L L3]. apply andb_true_iff in L; destruct L as [L1 L2].
    apply negb_true_iff in L1. apply Nat.eqb_eq in L2, L3. subst hasloop tailc tailn.
    lc_open_inv Hi. lc_enum_facts.
    lc_have (negb esock). lc_have (negb elis). lc_have (negb ahold). lc_have (negb gsender). lc_have (negb grecv).
    lc_have (negb gproc). lc_have (negb gaccept). lc_have (glt =? 0). lc_have (gt7 =? 0). lc_have (negb gjoin).
    lc_have (negb gnotif). lc_have (negb err). lc_have hascur. lc_have (lc_spc_idle spc).
    repeat match goal with
           | H : negb _ = true |- _ => apply negb_true_iff in H
           | H : (_ =? 0) = true |- _ => apply Nat.eqb_eq in H
           end.
    subst.
    destruct sup; try discriminate St. destruct spc; try discriminate.
    cbn. do 27 eexists. reflexivity. }
  destruct E as (oeid & rgen & cancelled & stopping & st & latch & reid & pdisc & pt7 & pups & pbehind & pclose & stopreq &
    eid & etd & eup & estop1 & estop2 & lgen & lcount & lpc & lprev & lown & reconnects & redials & ndials & npub & E).
  rewrite E. cbn [lc_active].
  apply lc_reopen_explicit.
Qed.
