(** The HSMS-SS receive loop ([hsmsss/transport_recv.go]: [recvLoop] / [readFrame] / [readN]) as a
    machine over TIMED SEGMENTS [(gap, bytes)]: [bytes] arrive together, [gap] after the previous
    segment (virtual time); [bytes] may be empty (a [Read] returning (0, nil)). The machine consumes one byte at a time — how the bytes were grouped
    into reads is therefore irrelevant by construction EXCEPT for time, which is what the T8
    policy is about:

    - [started] = at least one byte of the current frame has been read. While it is false the
      read has no deadline (an idle link never times out); while it is true every wait is bounded
      by T8 ([SetReadDeadline(now()+T8)] before each [Read]).
    - when the 4-byte length prefix is complete it is validated ([10 <= n <= cap]) BEFORE the
      frame buffer is allocated; [EvAlloc n] is the call [allocFrame(n)].
    - any error ends the loop ([recvLoop] returns after [TCPDown]): the machine is dead and ignores
      the rest of the stream.

    [spec_events] is the reference semantics written from the standard, independent of
    segmentation and time: cut the byte stream into length-prefixed frames. No proofs here. *)
From Coq Require Import ZArith Bool List Lia.
From GoSecs Require Import Hsms.Header.
Import ListNotations.
Open Scope Z_scope.

Inductive drop_reason := DLenSmall | DLenBig | DT8 | DEof.
Inductive event :=
  EvAlloc (n : Z)            (* allocFrame(n) *)
| EvFrame (f : list Z)       (* a complete [header || body] handed to dispatch *)
| EvDrop (r : drop_reason)   (* readFrame error -> TCPDown, loop ends *)
| EvIdle.                    (* end of script: blocked in an idle read, no deadline, link up *)

(** parse position inside the stream; accumulators are reversed *)
Inductive phase :=
  PLen (acc : list Z)                 (* 0..3 bytes of the length prefix read *)
| PBody (need : Z) (acc : list Z).    (* [need] > 0 bytes of the frame still to read *)

Record rstate := mkR {
  alive : bool;
  ph : phase;
  since : Z     (* virtual time since the last Read returned (see [arrive]) *)
}.
Definition rinit : rstate := mkR true (PLen []) 0.

Definition started (s : rstate) : bool :=
  match ph s with PLen [] => false | _ => true end.

Definition dead (s : rstate) : rstate := mkR false (ph s) (since s).

(** one byte *)
Definition step_byte (cap : Z) (s : rstate) (b : Z) : rstate * list event :=
  if negb (alive s) then (s, [])
  else match ph s with
       | PLen [b2; b1; b0] =>
           let n := de32 b0 b1 b2 b in
           if n <? 10 then (dead (mkR true (PLen [b; b2; b1; b0]) 0), [EvDrop DLenSmall])
           else if n >? cap then (dead (mkR true (PLen [b; b2; b1; b0]) 0), [EvDrop DLenBig])
           else (mkR true (PBody n []) 0, [EvAlloc n])
       | PLen acc => (mkR true (PLen (b :: acc)) 0, [])
       | PBody need acc =>
           if need <=? 1 then (mkR true (PLen []) 0, [EvFrame (rev (b :: acc))])
           else (mkR true (PBody (need - 1) (b :: acc)) 0, [])
       end.

Fixpoint feed (cap : Z) (s : rstate) (bs : list Z) : rstate * list event :=
  match bs with
  | [] => (s, [])
  | b :: bs' =>
      let '(s1, e1) := step_byte cap s b in
      let '(s2, e2) := feed cap s1 bs' in
      (s2, e1 ++ e2)
  end.

(** time passing with nothing arriving *)
Definition wait (t8 : Z) (s : rstate) (gap : Z) : rstate * list event :=
  if negb (alive s) then (s, [])
  else
    let t := since s + gap in
    if started s && (t >? t8) then (dead (mkR true (ph s) t), [EvDrop DT8])
    else (mkR true (ph s) t, []).

(** A segment is one return of [conn.Read]. Its bytes may be EMPTY: [Read] = (0, nil), which an
    in-memory or wrapped conn (public [WithDialer]) can produce. [readN] then loops: it carries no
    frame byte, so it does NOT start a frame ([started] is set only when n > 0) — after it an idle
    wait is still an idle wait; but the loop re-arms the deadline before the next [Read], so inside
    a frame it restarts the T8 clock exactly like a byte does. [arrive] is that re-arming. *)
Definition arrive (s : rstate) : rstate := if alive s then mkR true (ph s) 0 else s.

Definition step_seg (t8 cap : Z) (s : rstate) (seg : Z * list Z) : rstate * list event :=
  let '(s1, e1) := wait t8 s (fst seg) in
  let '(s2, e2) := feed cap (arrive s1) (snd seg) in
  (s2, e1 ++ e2).

Fixpoint run_segs (t8 cap : Z) (s : rstate) (segs : list (Z * list Z)) : rstate * list event :=
  match segs with
  | [] => (s, [])
  | seg :: rest =>
      let '(s1, e1) := step_seg t8 cap s seg in
      let '(s2, e2) := run_segs t8 cap s1 rest in
      (s2, e1 ++ e2)
  end.

(** how the script ends: the peer closes [gap] after the last segment, or stays silent forever *)
Inductive fin := FinEof (gap : Z) | FinSilent.

Definition finish (t8 : Z) (s : rstate) (f : fin) : list event :=
  if negb (alive s) then []
  else match f with
       | FinEof gap => if started s && (since s + gap >? t8) then [EvDrop DT8] else [EvDrop DEof]
       | FinSilent => if started s then [EvDrop DT8] else [EvIdle]
       end.

Definition run (t8 cap : Z) (segs : list (Z * list Z)) (f : fin) : list event :=
  let '(s, ev) := run_segs t8 cap rinit segs in ev ++ finish t8 s f.

(** observables *)
Definition frames_of (ev : list event) : list (list Z) :=
  flat_map (fun e => match e with EvFrame f => [f] | _ => [] end) ev.
Definition allocs_of (ev : list event) : list Z :=
  flat_map (fun e => match e with EvAlloc n => [n] | _ => [] end) ev.
Definition is_t8_drop (e : event) : bool := match e with EvDrop DT8 => true | _ => false end.
Definition has_t8_drop (ev : list event) : bool := existsb is_t8_drop ev.
Definition stream_of_segs (segs : list (Z * list Z)) : list Z := concat (map snd segs).

(** ** reference semantics: the frames of a byte stream, no segmentation, no time *)
Inductive tail_kind := TBoundary | TPartial.   (* the stream ends at a frame boundary / inside a frame *)

Fixpoint spec_parse (fuel : nat) (cap : Z) (bs : list Z) : list event * option tail_kind :=
  match fuel with
  | O => ([], None)
  | S fuel' =>
      match bs with
      | [] => ([], Some TBoundary)
      | b0 :: b1 :: b2 :: b3 :: rest =>
          let n := de32 b0 b1 b2 b3 in
          if n <? 10 then ([EvDrop DLenSmall], None)
          else if n >? cap then ([EvDrop DLenBig], None)
          else if len rest <? n then ([EvAlloc n], Some TPartial)
          else
            let '(ev, t) := spec_parse fuel' cap (skipn (Z.to_nat n) rest) in
            (EvAlloc n :: EvFrame (firstn (Z.to_nat n) rest) :: ev, t)
      | _ => ([], Some TPartial)
      end
  end.

(** the whole expected event list for a stream that suffers no in-frame stall before its end *)
Definition spec_events (cap : Z) (bs : list Z) (eof : bool) : list event :=
  let '(ev, t) := spec_parse (S (length bs)) cap bs in
  ev ++ match t with
        | None => []
        | Some TBoundary => if eof then [EvDrop DEof] else [EvIdle]
        | Some TPartial => if eof then [EvDrop DEof] else [EvDrop DT8]
        end.
