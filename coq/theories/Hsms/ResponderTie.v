(** The link from the REGENERATED HSMS-SS dispatcher to the responder model.

    Gen/Bridge2Responder.v ([bridge_dispatchFrame], restated as [tie_hsmsss_responder_step]) proves
    that [dispatchFrame] regenerated from hsmsss/transport_recv.go + transport_control.go equals the
    code-shaped step [expect_dispatch]: an ordered log of the calls made into the connection engine.
    This file proves that [expect_dispatch], run in an environment that answers what the model state
    says ([answers]), IS [Responder.respond]:

      source -> (translator v2, coqc-checked) -> expect_dispatch -> (here) -> respond
             -> (ResponderProofs.all_sequences) -> the independent E37 table.

    [project] reads the call log: the frames handed to SendAsync in order, the selected state after
    the CommitSelected / SelectLost calls, and the keep-reading flag (false = TCPDown). It covers
    every frame class the hsmsss code decides by itself ([engine_class] = false). For the two classes
    decided inside the engine the theorems below state exactly what the dispatcher logs
    (DeliverOwnedFrame; RouteReply + the H2 commit) — [respond]'s outcome for them ([deliver_owned],
    the waiter's reaction in [on_response]) models hsms/connection_runtime.go and
    transport_active.go runSelectProcedure by hand; that half is tied by the e2e differential only. *)
From Coq Require Import String.
From Coq Require Import ZArith Bool List Lia ZifyBool.
From GoSecs Require Import Base.GoInt Base.BytesBE Base.GoSlice Gen.Gen2 Hsms.Header Hsms.Frame
  Gen.Bridge2Frames Gen.Bridge2Responder.
From GoSecs Require Hsms.Responder Hsms.ResponderSpec Hsms.ResponderRefine.
Import ListNotations.
Open Scope Z_scope.
Import Gen2.hsmsss.
Module R := Responder.

(** * Reading the call log *)

Definition rt_calls (tr : transport) : list rtcall := Gen2.hsms.TransportRuntime_calls (transport_rt tr).

Definition frame_of_bytes (l : list Z) : R.frame :=
  match l with
  | [a0; a1; a2; a3; a4; a5; a6; a7; a8; a9] =>
    {| R.f_sid := de16 a0 a1; R.f_b2 := a2; R.f_b3 := a3; R.f_pt := a4; R.f_st := a5;
       R.f_sys := de32 a6 a7 a8 a9; R.f_body := [] |}
  | _ => {| R.f_sid := 0; R.f_b2 := 0; R.f_b3 := 0; R.f_pt := 0; R.f_st := 0; R.f_sys := 0; R.f_body := [] |}
  end.

(** the control messages handed to SendAsync, as frames of the model, in call order *)
Definition sends_of (c : rtcall) : list R.out :=
  match c with
  | SendAsync (Gen2.hsms.Message_ControlMessage (Some cm)) =>
      [R.Send (frame_of_bytes (Gen2.hsms.ControlMessage_header cm))]
  | _ => []
  end.

(** the logical state after the commits of the log (CommitSelected leaves Selected whether its CAS
    won or found Selected already; SelectLost leaves NotSelected) *)
Definition sel_step (b : bool) (c : rtcall) : bool :=
  match c with CommitSelected => true | SelectLost => false | _ => b end.
Definition sel_after (b : bool) (cs : list rtcall) : bool := fold_left sel_step cs b.

Definition has_tcpdown (cs : list rtcall) : bool :=
  existsb (fun c => match c with TCPDown _ => true | _ => false end) cs.

Definition project (s : R.rstate) (r : transport * bool) : R.rstate * list R.out * R.effect :=
  let cs := rt_calls (fst r) in
  (R.set_selected s (sel_after (R.selected s) cs), flat_map sends_of cs, if snd r then R.Keep else R.Down).

(** * The environment the model state describes *)

Definition answers (s : R.rstate) (f : R.frame) (tr : transport) : Prop :=
  (st_ret tr =? 2) = R.selected s /\            (* State() = Selected iff selected *)
  commit_ret tr = negb (R.selected s) /\        (* CommitSelected's CAS wins iff not selected *)
  route_ret tr = R.mem (R.f_sys f) (R.opens s) /\ (* RouteReply hits iff the system bytes are open *)
  rt_calls tr = [].                             (* the log starts empty *)

(** the classes whose outcome is decided inside the engine *)
Definition engine_class (s : R.rstate) (f : R.frame) : bool :=
  (R.f_pt f =? 0) && R.valid_stype (R.f_st f) &&
  (((R.f_st f =? 0) && R.selected s) ||
   (is_response (R.f_st f) && negb (R.has_body f) && R.mem (R.f_sys f) (R.opens s))).

(** * Log algebra *)
Lemma calls_rt_log tr c : rt_calls (rt_log tr c) = rt_calls tr ++ [c].
Proof. destruct tr as [? [? ? ? ? ? ?] ? ? ? ? ? ? ?]. reflexivity. Qed.
Lemma calls_t_log tr c : rt_calls (t_log tr c) = rt_calls tr.
Proof. destruct tr as [? [? ? ? ? ? ?] ? ? ? ? ? ? ?]. reflexivity. Qed.
Lemma calls_m_upd tr u : rt_calls (m_upd tr u) = rt_calls tr.
Proof. destruct tr as [? [? ? ? ? ? ?] ? ? ? ? ? ? ?]. reflexivity. Qed.
Lemma calls_send_reject tr sid pt st sb reason :
  rt_calls (send_reject_to tr sid pt st sb reason) =
  rt_calls tr ++ [SendAsync (CtlMsg (new_reject_req_raw sid pt st sb reason))].
Proof. unfold send_reject_to. rewrite calls_rt_log, calls_m_upd. reflexivity. Qed.

Lemma tcalls_rt_log tr c : transport_calls (rt_log tr c) = transport_calls tr.
Proof. destruct tr as [? [? ? ? ? ? ?] ? ? ? ? ? ? ?]. reflexivity. Qed.
Lemma tcalls_t_log tr c : transport_calls (t_log tr c) = transport_calls tr ++ [c].
Proof. destruct tr as [? [? ? ? ? ? ?] ? ? ? ? ? ? ?]. reflexivity. Qed.
Lemma tcalls_m_upd tr u : transport_calls (m_upd tr u) = transport_calls tr.
Proof. destruct tr as [? [? ? ? ? ? ?] ? ? ? ? ? ? ?]. reflexivity. Qed.
Ltac tlogs := repeat (rewrite tcalls_rt_log || rewrite tcalls_t_log || rewrite tcalls_m_upd);
  rewrite ?app_nil_r, <- ?app_assoc; reflexivity.

(** * Frame bytes: what the Header.v constructors build is the frame the model sends *)
Lemma de16_split v : 0 <= v < 65536 -> de16 (v / 256) (v mod 256) = v.
Proof. intros H. unfold de16. Z.div_mod_to_equations; lia. Qed.
Lemma de32_split v : 0 <= v < 4294967296 ->
  de32 (v / 16777216) ((v / 65536) mod 256) ((v / 256) mod 256) (v mod 256) = v.
Proof. intros H. unfold de32. Z.div_mod_to_equations; lia. Qed.

Lemma reject_frame sid pt st sys reason : 0 <= sid < 65536 -> 0 <= sys < 4294967296 ->
  frame_of_bytes (hdr_bytes (c_hdr (new_reject_req_raw sid pt st (sys_bytes_of sys) reason))) =
  R.reject_raw sid pt st sys reason.
Proof.
  intros Hs Hy. unfold new_reject_req_raw, R.reject_raw, R.ctrl, sys_bytes_of, REJECT_PTYPE_NOT_SUPPORTED,
    R.reason_ptype, ST_REJECT_REQ, R.st_reject_req.
  cbn [c_hdr put_sys put_st put_b3 put_b2 put_sid hdr_zero hdr_bytes h0 h1 h2 h3 h4 h5 h6 h7 h8 h9 frame_of_bytes].
  replace ((sid / 256) mod 256) with (sid / 256) by (Z.div_mod_to_equations; lia).
  rewrite de16_split, de32_split by assumption. reflexivity.
Qed.

Lemma rsp_frame f st status : 0 <= R.f_sid f < 65536 -> 0 <= R.f_sys f < 4294967296 ->
  frame_of_bytes (hdr_bytes (c_hdr (rsp_of (mkC (hdr_of_frame f) false) st status))) =
  R.ctrl (R.f_sid f) 0 status st (R.f_sys f).
Proof.
  intros Hs Hy. unfold rsp_of, hdr_of_frame, sys_bytes_of, R.ctrl.
  cbn [c_hdr put_sys put_st put_b3 put_b01 hdr_zero hdr_bytes system_bytes h0 h1 h2 h3 h4 h5 h6 h7 h8 h9 frame_of_bytes].
  rewrite de16_split, de32_split by assumption. reflexivity.
Qed.

Lemma linktest_frame sys : 0 <= sys < 4294967296 ->
  frame_of_bytes (hdr_bytes (c_hdr (mkC (put_sys (put_st (put_b01 hdr_zero 255 255) ST_LINKTEST_RSP) (sys_bytes_of sys)) false))) =
  R.ctrl 65535 0 0 6 sys.
Proof.
  intros Hy. unfold sys_bytes_of, R.ctrl, ST_LINKTEST_RSP.
  cbn [c_hdr put_sys put_st put_b01 hdr_zero hdr_bytes h0 h1 h2 h3 h4 h5 h6 h7 h8 h9 frame_of_bytes].
  rewrite de32_split by assumption. reflexivity.
Qed.

Lemma valid_stype_same b : Header.valid_stype b = R.valid_stype b.
Proof. reflexivity. Qed.

Lemma body_len h (body : list Z) :
  (len (hdr_bytes h ++ body) =? 10) = match body with [] => true | _ => false end.
Proof.
  unfold len, hdr_bytes. cbn [app length]. destruct body; [reflexivity|]. cbn [length]. lia.
Qed.

(** * The header of a model frame *)
Lemma h3_of_frame f : h3 (hdr_of_frame f) = R.f_b3 f. Proof. reflexivity. Qed.
Lemma h4_of_frame f : h4 (hdr_of_frame f) = R.f_pt f. Proof. reflexivity. Qed.
Lemma h5_of_frame f : h5 (hdr_of_frame f) = R.f_st f. Proof. reflexivity. Qed.
Lemma sys_of_frame f : system_bytes (hdr_of_frame f) = sys_bytes_of (R.f_sys f). Proof. reflexivity. Qed.

Lemma sends_ctl c : sends_of (SendAsync (CtlMsg c)) = [R.Send (frame_of_bytes (hdr_bytes (c_hdr c)))].
Proof. reflexivity. Qed.

Lemma sends_route m : sends_of (RouteReply m) = []. Proof. reflexivity. Qed.

Ltac logs Hl :=
  repeat (rewrite calls_send_reject || rewrite calls_rt_log || rewrite calls_t_log || rewrite calls_m_upd);
  rewrite ?Hl; cbn [app flat_map sel_after fold_left sel_step];
  rewrite ?sends_ctl, ?sends_route; cbn [app sends_of].

(** * The code classes: the regenerated dispatcher IS [respond] *)
Theorem dispatch_is_respond c s f tr g :
  R.frame_ok f -> answers s f tr -> engine_class s f = false ->
  project s (expect_dispatch tr g (hdr_of_frame f) (R.f_body f)) = R.respond c s f.
Proof.
  intros (Hsid & _ & _ & _ & _ & Hsys & _) (Hst & Hc & Hr & Hl) He.
  unfold project, expect_dispatch, expect_sendReject.
  rewrite !h3_of_frame, !h4_of_frame, !h5_of_frame, !sys_of_frame, body_len, (session_id_of_frame f Hsid).
  rewrite valid_stype_same.
  destruct f as [sid b2 b3 pt st sys body]. destruct s as [sel op ct].
  unfold engine_class, R.has_body in He.
  cbn [R.f_sid R.f_b2 R.f_b3 R.f_pt R.f_st R.f_sys R.f_body R.selected R.opens R.ctr] in *.
  unfold R.respond, R.send_reject, R.has_body, R.on_response, R.on_select_req, R.on_deselect_req,
    R.on_linktest_req, R.on_separate_req, R.set_selected.
  cbn [R.f_sid R.f_b2 R.f_b3 R.f_pt R.f_st R.f_sys R.f_body R.selected R.opens R.ctr].
  destruct (Z.eqb_spec pt 0) as [->|Hpt]; cbn [negb orb andb].
  2:{ cbn [fst snd]. logs Hl. rewrite reject_frame by assumption. reflexivity. }
  destruct (R.valid_stype st) eqn:V; cbn [negb orb andb].
  2:{ cbn [fst snd]. logs Hl. rewrite reject_frame by assumption. reflexivity. }
  cbn [Z.eqb andb] in He. rewrite ?Hst, ?Hc, ?Hr.
  apply ResponderRefine.valid_cases in V.
  Ltac fin Hl Hsid Hsys := cbn [fst snd]; logs Hl;
    rewrite ?reject_frame, ?rsp_frame, ?linktest_frame by assumption; reflexivity.
  destruct V as [->|V].
  { (* data: only the not-selected half is hsmsss code *)
    cbn [Z.eqb andb orb negb is_response] in *. rewrite orb_false_r in He. rewrite He. cbn [negb]. fin Hl Hsid Hsys. }
  destruct body as [|x body].
  2:{ destruct V as [->|[->|[->|[->|[->|[->|[->| ->]]]]]]]; cbn [Z.eqb Pos.eqb negb andb orb]; fin Hl Hsid Hsys. }
  destruct V as [->|[->|[->|[->|[->|[->|[->| ->]]]]]]]; cbn [Z.eqb Pos.eqb negb andb orb is_response] in *.
  all: try (rewrite He).
  all: try (destruct sel; cbn [negb]).
  all: fin Hl Hsid Hsys.
Qed.

(** the synchronous commit is made BEFORE the Select.rsp is handed to the sender (H2) *)
Theorem dispatch_select_commit_first s f tr g :
  answers s f tr -> R.f_pt f = 0 -> R.f_st f = 1 -> R.f_body f = [] ->
  rt_calls (fst (expect_dispatch tr g (hdr_of_frame f) (R.f_body f))) =
  [CommitSelected;
   SendAsync (CtlMsg (rsp_of (mkC (hdr_of_frame f) false) ST_SELECT_RSP (if R.selected s then 1 else 0)))] /\
  transport_calls (fst (expect_dispatch tr g (hdr_of_frame f) (R.f_body f))) =
  transport_calls tr ++ (if R.selected s then [] else [transport_call_cancelT7; transport_call_startLinktest g]).
Proof.
  intros (Hst & Hc & Hr & Hl) Hp Ht Hb. unfold expect_dispatch.
  rewrite !h4_of_frame, !h5_of_frame, body_len, Hp, Ht, Hb, Hc.
  cbn [Z.eqb Pos.eqb negb orb andb Header.valid_stype is_response].
  destruct (R.selected s); cbn [negb fst].
  - split; [logs Hl; reflexivity|tlogs].
  - split; [logs Hl; reflexivity|tlogs].
Qed.

(** * The two engine classes: exactly what the dispatcher logs *)

(** data while Selected: the frame is handed to the engine untouched, nothing else happens; the
    model's outcome is [deliver_owned] (hsms.connection.DeliverOwnedFrame: hand-modelled) *)
Theorem dispatch_engine_data c s f tr g :
  answers s f tr -> R.f_pt f = 0 -> R.f_st f = 0 -> R.selected s = true ->
  expect_dispatch tr g (hdr_of_frame f) (R.f_body f) = (rt_log tr (DeliverOwned (R.wire f)), true) /\
  rt_calls (rt_log tr (DeliverOwned (R.wire f))) = [DeliverOwned (R.wire f)] /\
  R.respond c s f = R.deliver_owned c s f.
Proof.
  intros (Hst & Hc & Hr & Hl) Hp Ht Hs. split; [|split].
  - unfold expect_dispatch. rewrite !h4_of_frame, !h5_of_frame, Hp, Ht, Hst, Hs, hdr_of_frame_bytes. reflexivity.
  - rewrite calls_rt_log, Hl. reflexivity.
  - unfold R.respond. rewrite Hp, Ht, Hs. reflexivity.
Qed.

Definition accepts (f : R.frame) : bool := (R.f_st f =? 2) && (R.f_b3 f =? 0).

(** a response / Reject.req that hits an open transaction: RouteReply, then — for Select.rsp status
    0 only — the H2 commit (with the T7 / linktest helpers iff the CAS won); nothing is sent and the
    recv loop keeps reading. The model's [on_response] adds the waiter's reaction (transaction
    closed; link dropped unless the answer is Select.rsp status 0 / 1): runSelectProcedure and the
    reply registry, hand-modelled. *)
Theorem dispatch_engine_response_hit c s f tr g :
  answers s f tr -> R.f_pt f = 0 -> is_response (R.f_st f) = true -> R.f_body f = [] ->
  R.mem (R.f_sys f) (R.opens s) = true ->
  let r := expect_dispatch tr g (hdr_of_frame f) (R.f_body f) in
  rt_calls (fst r) = RouteReply (CtlMsg (mkC (hdr_of_frame f) false)) :: (if accepts f then [CommitSelected] else []) /\
  transport_calls (fst r) = transport_calls tr ++
     (if accepts f && negb (R.selected s) then [transport_call_cancelT7; transport_call_startLinktest g] else []) /\
  snd r = true /\
  R.respond c s f = R.on_response s f /\
  let '(s', o, e) := R.respond c s f in
  o = [] /\ R.selected s' = sel_after (R.selected s) (rt_calls (fst r)) /\
  R.opens s' = R.remove (R.f_sys f) (R.opens s) /\ R.ctr s' = R.ctr s /\
  (e = R.Keep <-> R.f_st f = 2 /\ (R.f_b3 f = 0 \/ R.f_b3 f = 1)).
Proof.
  intros (Hst & Hc & Hr & Hl) Hp Hresp Hb Hm. cbv zeta. unfold expect_dispatch, accepts.
  rewrite !h3_of_frame, !h4_of_frame, !h5_of_frame, body_len, Hp, Hb, Hr, Hm, Hc.
  destruct f as [sid b2 b3 pt st sys body]. destruct s as [sel op ct].
  cbn [R.f_sid R.f_b2 R.f_b3 R.f_pt R.f_st R.f_sys R.f_body R.selected R.opens R.ctr] in *. subst pt body.
  unfold R.respond, R.on_response, R.has_body, R.close_txn, R.set_selected.
  cbn [R.f_sid R.f_b2 R.f_b3 R.f_pt R.f_st R.f_sys R.f_body R.selected R.opens R.ctr]. rewrite Hm.
  unfold is_response in Hresp.
  cbv [R.st_data R.st_select_rsp R.st_deselect_rsp R.st_linktest_rsp R.st_reject_req R.select_ok R.select_already R.valid_stype].
  assert (V : st = 2 \/ st = 4 \/ st = 6 \/ st = 7) by lia.
  destruct V as [->|[->|[-> | ->]]]; cbn [Z.eqb Pos.eqb negb orb andb Header.valid_stype is_response fst snd].
  2,3,4: (repeat split; try (logs Hl; reflexivity); try discriminate; try lia;
          try tlogs).
  destruct (Z.eqb_spec b3 0) as [->|H0]; cbn [Z.eqb andb].
  - destruct sel; cbn [negb fst snd];
      (repeat split; try (logs Hl; reflexivity); try lia; try discriminate; auto;
       tlogs).
  - cbn [fst snd]. destruct (Z.eqb_spec b3 1) as [->|H1];
      (repeat split; try (logs Hl; reflexivity); try lia; try discriminate; auto;
       try tlogs).
Qed.

(** the recv loop stops reading exactly when the dispatcher itself drove TCPDown *)
Theorem dispatch_keep_iff_no_tcpdown tr g h body : rt_calls tr = [] ->
  snd (expect_dispatch tr g h body) = negb (has_tcpdown (rt_calls (fst (expect_dispatch tr g h body)))).
Proof.
  intros Hl. unfold expect_dispatch, expect_sendReject.
  repeat match goal with |- context [if ?b then (_, _) else _] => destruct b end.
  all: cbn [fst snd]; try (destruct (h5 h =? 7)); logs Hl; reflexivity.
Qed.

(** * The whole chain for one frame: the REGENERATED source function, run on the bytes of the
    frame in an environment that answers what the model state says, returns without a panic, and
    its call log projects to [respond] *)
Theorem source_dispatch_is_respond c s f tr m g :
  R.frame_ok f -> answers s f tr -> transport_metrics tr = Some m -> engine_class s f = false ->
  exists tr' keep,
    transport_dispatchFrame (Some tr) g (R.wire f) = GOk (Some tr', keep) /\
    project s (tr', keep) = R.respond c s f.
Proof.
  intros Hf Ha Hm He.
  exists (fst (expect_dispatch tr g (hdr_of_frame f) (R.f_body f))), (snd (expect_dispatch tr g (hdr_of_frame f) (R.f_body f))).
  split.
  - unfold R.wire. rewrite <- hdr_of_frame_bytes. apply (bridge_dispatchFrame tr m).
    + exact Hm.
    + rewrite h5_of_frame. destruct Hf as (_ & _ & _ & _ & H5 & _). exact H5.
  - rewrite <- surjective_pairing. apply dispatch_is_respond; assumption.
Qed.
