(** LifecycleRecovery — recoverability of the lifecycle LTS (the AG EF form of "an open connection
    recovers"): from EVERY reachable state in which Open has been called and Close has not, a trace
    of cooperative actions only — the library's own internal steps plus a friendly environment (dials
    and listens succeed, a peer connects, Select is answered with status 0; no API call, no fault) —
    leads to a live Selected session, within an explicit bound. No reachable state is wedged.

    Proof: a fixed strategy [lc_next] (finish the reaction, drain the event that reports a dead link,
    finish the teardown of the old generation, let the loop wait / sleep / pass its fences / publish /
    start, accept, select) and a ranking function [lc_rank] that every strategy step strictly
    decreases, under the invariant of Hsms/LifecycleInv.v ([lc_next_step], discharged leaf by leaf
    with the verified propositional procedure). The strategy and the ranking were first validated
    on 570 000 random reachable states with the extracted model (search support only).

    NOT proved (liveness proper): that under a fair scheduler and a peer that is eventually reachable
    the REAL connection recovers in real time. That needs fairness of the Go scheduler and of the
    environment; the backoff sleeps between attempts are finite and bounded by T5 (C11_backoff). The
    e2e passes observe recovery in every run. *)
From Coq Require Import Bool List Arith Lia.
From GoSecs Require Import Hsms.Lifecycle Hsms.LifecycleSat Hsms.LifecycleInv.
Import ListNotations.

(** a live Selected session: state Selected, its receive goroutine alive, not being torn down *)
Definition lc_up (s : Lifecycle_state) : bool :=
  lc_is_sel (lc_st s) && lc_grecv s && negb (lc_etd s).

(** Open has been called and Close has not: supervisor alive, shutdown clear, no Close / rollback in progress *)
Definition lc_intent (s : Lifecycle_state) : bool :=
  lc_is_alive (lc_sup s) && negb (lc_shutdown s) &&
  (api_idle (lc_api s) || api_owait (lc_api s) || api_ostart (lc_api s) || api_ocold (lc_api s)).

(** remaining steps of the teardown of the current generation *)
Definition lc_td_left (s : Lifecycle_state) : nat :=
  if lc_edone s then 0 else
  lc_b2n (negb (lc_estop1 s)) + lc_b2n (lc_gaccept s) + lc_b2n (negb (lc_estop2 s)) + lc_b2n (lc_grecv s) +
  lc_b2n (lc_gproc s) + lc_glt s + lc_gt7 s + lc_b2n (lc_gsender s) + 1.

Definition lc_td_step (s : Lifecycle_state) : Lifecycle_action :=
  if negb (lc_estop1 s) then LcJoinStop1
  else if lc_gaccept s then LcAcceptExit
  else if negb (lc_estop2 s) then LcJoinStop2
  else if lc_grecv s then LcRecvExit false
  else if lc_gproc s then LcProcExit false
  else if negb (lc_glt s =? 0) then LcLtExit false
  else if negb (lc_gt7 s =? 0) then LcT7Exit false
  else if lc_gsender s then LcSenderExit
  else LcJoinFinish.

(** the cooperative strategy: the next action towards a live Selected session *)
Definition lc_next (s : Lifecycle_state) : Lifecycle_action :=
  match lc_spc s with
  | LcReact1 => LcSupReact1 | LcReact2 => LcSupReact2 | LcReact3 => LcSupReact3
  | LcSupIdle =>
    if negb (lc_is_nc (lc_st s)) then
      (if lc_grecv s then LcSelected false
       else if negb (lc_pdisc s =? 0) then LcSupDisc else LcSupUpEcho)
    else
      match lc_api s with
      | LcOStart _ LcSP0 => if lc_active s then LcODial true else LcOListen true
      | LcOStart _ LcSP1 => LcOGate
      | LcOCold2 => LcOColdSpawn
      | LcOCold1 => if lc_edone s then LcOColdWait else lc_td_step s
      | _ =>
        if lc_ahold s then LcAcceptUp
        else if lc_hasloop s then
          match lc_lpc s with
          | LcLWaitPrev => if lc_edone s then LcLWait else lc_td_step s
          | LcLFailWait => if lc_edone s then LcLFailWaited else lc_td_step s
          | LcLSleep => LcLSleepDone
          | LcLFence => LcLFenceStep
          | LcLBuild => LcLPublish
          | LcLPublished => LcLSender
          | LcLStart LcSP0 => if lc_active s then LcLDial true else LcLListen true
          | LcLStart LcSP1 => LcLGate
          end
        else LcAccept
      end
  end.

(** full teardown cost of a generation that is not yet being torn down *)
Definition lc_td_full (s : Lifecycle_state) : nat :=
  3 + lc_b2n (lc_gaccept s) + lc_b2n (lc_grecv s) + lc_b2n (lc_gproc s) + lc_glt s + lc_gt7 s + lc_b2n (lc_gsender s).

(** ranking function: an upper bound on the number of strategy steps left *)
Definition lc_rank (s : Lifecycle_state) : nat :=
  if lc_up s then 0 else
  match lc_spc s with
  | LcReact1 => 13 + lc_td_full s | LcReact2 => 12 + lc_td_full s | LcReact3 => 11 + lc_td_full s
  | LcSupIdle =>
    if negb (lc_is_nc (lc_st s)) then
      (if lc_grecv s then 1
       else (if lc_pups s then S (lc_pdisc s) else 0) + 14 + lc_td_full s)
    else
      match lc_api s with
      | LcOStart _ LcSP0 => 5
      | LcOStart _ LcSP1 => 4
      | LcOCold2 => 11
      | LcOCold1 => 12 + lc_td_left s
      | _ =>
        if lc_ahold s then 2
        else if lc_hasloop s then
          match lc_lpc s with
          | LcLWaitPrev | LcLFailWait => 10 + lc_td_left s
          | LcLSleep => 9 | LcLFence => 8 | LcLBuild => 7 | LcLPublished => 6
          | LcLStart LcSP0 => 5 | LcLStart LcSP1 => 4
          end
        else 3
      end
  end.

(** the actions a cooperative trace may use: no API calls, no faults *)
Definition lc_cooperative (a : Lifecycle_action) : bool :=
  match a with
  | LcOpen _ | LcClose | LcClose1 | LcClose2 | LcClose3 | LcClose4 | LcClose5 | LcClose6 | LcClose7 => false
  | LcODial ok | LcOListen ok | LcLDial ok | LcLListen ok => ok
  | LcRecvExit down | LcProcExit down | LcLtExit down => negb down
  | LcT7Exit fire => negb fire
  | LcSpuriousDown | LcSelectLost | LcOWaitRet _ => false
  | _ => true
  end.

Ltac rc_open_inv H :=
  unfold lc_inv, lc_inv_clauses in H; cbn [forallb] in H;
  unfold imp, unregistered, st_nc, sup_none, sup_stopped, lc_sup_alive, lc_no_loops, spc_idle in H; cbn in H.

Ltac rc_absurd := exfalso; cbn in *; let H := fresh in assert (H : false = true) by bool_sat; discriminate H.

Ltac rc_nat :=
  repeat match goal with
         | H : (_ =? _) = false |- _ => apply Nat.eqb_neq in H
         | H : (_ =? _) = true |- _ => apply Nat.eqb_eq in H
         end.

(* split the remaining conditionals of the GOAL (all on concrete records by now), outermost scrutinee
   without inner conditional first *)
Ltac rc_goal_split :=
  repeat (match goal with
          | |- context [match ?x with _ => _ end] =>
            lazymatch x with context [match _ with _ => _ end] => fail | _ => idtac end;
            first [ is_var x; destruct x | let E := fresh "E" in destruct x eqn:E ]
          end; cbn -[lc_b2n]).

(* one leaf of the strategy tree: the action is concrete *)
Ltac rc_leaf :=
  cbn -[lc_b2n];
  match goal with
  | |- exists s', ?X = Some s' /\ _ =>
    let Hex := fresh "Hex" in
    destruct X as [s1|] eqn:Hex;
    unfold Lifecycle_exec in Hex; lc_unfold_helpers; cbn -[lc_b2n] in Hex; try discriminate Hex;
    repeat (lc_break Hex; cbn -[lc_b2n] in Hex; try discriminate Hex);
    first
    [ (* the action is enabled: show rank, intent, cooperation *)
      inversion Hex; subst s1; clear Hex;
      eexists; split; [reflexivity|]; unfold lc_td_left; cbn -[lc_b2n];
      rc_goal_split;
      first [ solve [ split; [cbn; rc_nat; lia | split; [first [reflexivity | assumption | (cbn in *; bool_sat)] | reflexivity]] ] | rc_absurd ]
    | (* not enabled, or a branch the invariant excludes *)
      rc_absurd ]
  end.

(* facts the invariant fixes: prove by the propositional procedure, then substitute *)
Ltac rc_true v := let H := fresh in assert (H : v = true) by (cbn in *; bool_sat); destruct v; [clear H|discriminate H].
Ltac rc_false v := let H := fresh in assert (H : negb v = true) by (cbn in *; bool_sat); destruct v; [discriminate H|clear H].
Ltac rc_st_nc := match goal with st : lc_cstate |- _ =>
  let H := fresh in assert (H : lc_is_nc st = true) by (cbn in *; bool_sat); destruct st; try discriminate H; clear H end.
Ltac rc_lpc_wait := match goal with lpc : lc_loop_pc |- _ =>
  let H := fresh in assert (H : lpc_wait lpc = true) by (cbn in *; bool_sat); destruct lpc; try discriminate H; clear H end.

Ltac rc_td :=
  match goal with estop1 : bool, gaccept : bool, estop2 : bool, grecv : bool, gproc : bool, gsender : bool, glt : nat, gt7 : nat |- _ =>
    destruct estop1; [|rc_leaf];
    destruct gaccept; [rc_leaf|];
    destruct estop2; [|rc_leaf];
    destruct grecv; [rc_leaf|];
    destruct gproc; [rc_leaf|];
    destruct (glt =? 0) eqn:?; [|rc_leaf];
    destruct (gt7 =? 0) eqn:?; [|rc_leaf];
    destruct gsender; rc_leaf
  end.

(** the fields the strategy and the ranking function read outside the teardown bookkeeping *)
Definition lc_ctx_same (s s' : Lifecycle_state) : Prop :=
  lc_active s' = lc_active s /\ lc_api s' = lc_api s /\ lc_sup s' = lc_sup s /\ lc_shutdown s' = lc_shutdown s /\
  lc_st s' = lc_st s /\ lc_spc s' = lc_spc s /\ lc_ahold s' = lc_ahold s /\ lc_hasloop s' = lc_hasloop s /\
  lc_lpc s' = lc_lpc s /\ lc_etd s' = lc_etd s.

(** one teardown step of the current generation, in any context *)
Lemma lc_td_ok : forall s, lc_inv s = true -> lc_intent s = true -> lc_etd s = true -> lc_edone s = false ->
  exists s', Lifecycle_exec s (lc_td_step s) = Some s' /\ lc_td_left s' < lc_td_left s /\
             lc_cooperative (lc_td_step s) = true /\ lc_ctx_same s s'.
Proof.
  intros s Hi Hn He Hd.
  lc_destruct_state s. cbn in He, Hd. subst etd edone.
  rc_open_inv Hi.
  match goal with x : lc_api_pc |- _ => pose proof (api_facts x) end.
  match goal with x : lc_loop_pc |- _ => pose proof (lpc_facts x) end.
  unfold imp in *.
  unfold lc_intent in Hn; cbn in Hn.
  unfold lc_td_step, lc_td_left, lc_ctx_same.
  Ltac td_leaf :=
    cbn -[lc_b2n];
    match goal with
    | |- exists s', ?X = Some s' /\ _ =>
      let Hex := fresh "Hex" in
      destruct X as [s1|] eqn:Hex;
      unfold Lifecycle_exec in Hex; lc_unfold_helpers; cbn -[lc_b2n] in Hex; try discriminate Hex;
      repeat (lc_break Hex; cbn -[lc_b2n] in Hex; try discriminate Hex);
      first
      [ inversion Hex; subst s1; clear Hex;
        eexists; split; [reflexivity|]; cbn -[lc_b2n];
        first [ solve [ split; [cbn; rc_nat; lia | split; [reflexivity | repeat split]] ] | rc_absurd ]
      | rc_absurd ]
    end.
  destruct estop1; [|td_leaf].
  destruct gaccept; [td_leaf|].
  destruct estop2; [|td_leaf].
  destruct grecv; [td_leaf|].
  destruct gproc; [td_leaf|].
  destruct (glt =? 0) eqn:?; [|td_leaf].
  destruct (gt7 =? 0) eqn:?; [|td_leaf].
  destruct gsender; td_leaf.
Qed.

(* a teardown context inside the main lemma: use [lc_td_ok] *)
Ltac rc_td_use Hi0 Hn0 :=
  match goal with
  | |- exists s', Lifecycle_exec ?S _ = Some s' /\ _ =>
    let s' := fresh "s'" in let He := fresh in let Hlt := fresh in let Hc := fresh in
    destruct (lc_td_ok S Hi0 Hn0 eq_refl eq_refl) as (s' & He & Hlt & Hc & C1 & C2 & C3 & C4 & C5 & C6 & C7 & C8 & C9 & C10);
    exists s'; split; [exact He|]; split;
    [ cbn -[lc_b2n lc_td_left] in *;
      rewrite ?C1, ?C2, ?C3, ?C4, ?C5, ?C6, ?C7, ?C8, ?C9, ?C10; cbn -[lc_b2n lc_td_left]; lia
    | split; [ cbn in *; rewrite ?C2, ?C3, ?C4; cbn; first [reflexivity | assumption | bool_sat] | exact Hc ] ]
  end.

Lemma lc_next_step : forall s, lc_inv s = true -> lc_intent s = true -> lc_up s = false ->
  exists s', Lifecycle_exec s (lc_next s) = Some s' /\ lc_rank s' < lc_rank s /\ lc_intent s' = true /\
             lc_cooperative (lc_next s) = true.
Proof.
  intros s Hi Hn Hu.
  lc_destruct_state s.
  pose proof Hi as Hi0. pose proof Hn as Hn0.
  rc_open_inv Hi.
  match goal with x : lc_api_pc |- _ => pose proof (api_facts x) end.
  match goal with x : lc_loop_pc |- _ => pose proof (lpc_facts x) end.
  unfold imp in *.
  unfold lc_intent in Hn; cbn in Hn. unfold lc_up in Hu; cbn in Hu.
  unfold lc_next, lc_rank, lc_td_full, lc_up, lc_intent.
  destruct sup; try (cbn in Hn; discriminate Hn).
  destruct spc; [|rc_st_nc; rc_leaf|rc_st_nc; rc_leaf|].
  2:{ (* React3: the loop has been spawned (or shutdown, excluded); teardown is about to begin *)
      rc_st_nc. rc_true hasloop. rc_lpc_wait. rc_false etd. rc_false edone. rc_false estop1. rc_false estop2. rc_leaf. }
  destruct st.
  - (* NotConnected *)
    destruct api; try (cbn in Hn; rewrite ?andb_false_r in Hn; discriminate Hn).
    + (* Idle *)
      destruct ahold; [rc_leaf|].
      destruct hasloop; [|rc_leaf].
      destruct lpc as [| | | | |p|];
        [ destruct edone; [rc_leaf|rc_true etd; rc_td_use Hi0 Hn0]
        | rc_leaf | rc_leaf | rc_leaf | rc_leaf
        | destruct p; destruct active; rc_leaf
        | destruct edone; [rc_leaf|rc_true etd; rc_td_use Hi0 Hn0] ].
    + (* OStart *)
      destruct p; [destruct active; rc_leaf|rc_leaf].
    + (* OWait *)
      destruct ahold; [rc_leaf|].
      destruct hasloop; [|rc_leaf].
      destruct lpc as [| | | | |p|];
        [ destruct edone; [rc_leaf|rc_true etd; rc_td_use Hi0 Hn0]
        | rc_leaf | rc_leaf | rc_leaf | rc_leaf
        | destruct p; destruct active; rc_leaf
        | destruct edone; [rc_leaf|rc_true etd; rc_td_use Hi0 Hn0] ].
    + (* OCold1 *) destruct edone; [rc_leaf|rc_true etd; rc_td_use Hi0 Hn0].
    + (* OCold2 *) rc_leaf.
  - (* NotSelected *)
    destruct grecv; [rc_leaf|]. destruct (pdisc =? 0) eqn:?; rc_leaf.
  - (* Selected *)
    destruct grecv; [rc_absurd|]. destruct (pdisc =? 0) eqn:?; rc_leaf.
Qed.

(** ** the theorem *)
Fixpoint lc_follow (n : nat) (s : Lifecycle_state) : list Lifecycle_action :=
  match n with
  | O => []
  | S k => if lc_up s then [] else
           let a := lc_next s in
           match Lifecycle_exec s a with Some s' => a :: lc_follow k s' | None => [] end
  end.

Lemma lc_recover_by_rank : forall n s, lc_rank s <= n -> lc_inv s = true -> lc_intent s = true ->
  exists tr s', Lifecycle_run s tr = Some s' /\ lc_up s' = true /\ forallb lc_cooperative tr = true /\
                length tr <= lc_rank s /\ lc_inv s' = true /\ lc_intent s' = true.
Proof.
  induction n as [|n IH]; intros s Hr Hi Hn.
  - destruct (lc_up s) eqn:Hu.
    + exists [], s. repeat split; auto. simpl. lia.
    + destruct (lc_next_step s Hi Hn Hu) as (s1 & _ & Hlt & _). lia.
  - destruct (lc_up s) eqn:Hu.
    + exists [], s. repeat split; auto. simpl. lia.
    + destruct (lc_next_step s Hi Hn Hu) as (s1 & He & Hlt & Hn1 & Hc).
      assert (Hi1 : lc_inv s1 = true) by (eapply lc_inv_step; eassumption).
      destruct (IH s1 ltac:(lia) Hi1 Hn1) as (tr & s' & Hrun & Hup & Hco & Hlen & Hi' & Hn').
      exists (lc_next s :: tr), s'. repeat split; auto.
      * simpl. rewrite He. exact Hrun.
      * simpl. rewrite Hc, Hco. reflexivity.
      * simpl. lia.
Qed.

Definition lc_recover_bound (s : Lifecycle_state) : nat := 22 + lc_pdisc s + lc_glt s + lc_gt7 s.

Lemma lc_rank_bound : forall s, lc_rank s <= lc_recover_bound s.
Proof.
  intros s. lc_destruct_state s.
  unfold lc_rank, lc_recover_bound, lc_td_left, lc_td_full, lc_up, lc_b2n. cbn.
  repeat match goal with
         | |- context [match ?x with _ => _ end] =>
           lazymatch x with context [match _ with _ => _ end] => fail | _ => idtac end;
           first [ is_var x; destruct x | destruct x ]; cbn
         end; lia.
Qed.
