(** No replay, no undo: in EVERY run, State() changes only at a commit or at the step of a
    disconnect / T7 expiry / close — processing a commit echo never changes it — and a disconnect or
    T7 expiry that was injected before a TCP-up commit whose echo is still queued changes nothing. *)
From Coq Require Import ZArith Bool List Lia.
From GoSecs Require Import Hsms.Supervisor.
Import ListNotations.

Lemma ok_no_replay_app l1 l2 : ok_no_replay (l1 ++ l2) = ok_no_replay l1 && ok_no_replay l2.
Proof.
  induction l1 as [|o r IH]; cbn [app ok_no_replay]; [reflexivity|].
  destruct o; try exact IH. destruct c; [exact IH|]. rewrite IH. apply andb_assoc.
Qed.

Lemma step_finish_no_replay s ev cur : ok_no_replay (snd (step_finish s ev cur)) = true.
Proof.
  destruct s as [st0 cl q p l c nb d]. unfold step_finish. cbn [st clbit queue pc lastr closed nbuf dropped].
  destruct (existsb is_upc q);
  destruct ev, cur, st0, l, cl; cbn; try reflexivity;
    unfold fire, emit_buf; cbn [fst snd];
    try (destruct (Nat.ltb (length nb) notify_cap); [|destruct nb as [|[? ?] ?]]); cbn; reflexivity.
Qed.

Lemma exec_no_replay s a : ok_no_replay (snd (exec s a)) = true.
Proof.
  destruct a; cbn [exec].
  - unfold commit. destruct (cstate_beq (st s) NC && negb (clbit s)); reflexivity.
  - unfold commit. destruct (cstate_beq (st s) NS && negb (clbit s)); reflexivity.
  - unfold commit. destruct (cstate_beq (st s) SEL && negb (clbit s)); reflexivity.
  - reflexivity.
  - destruct (pc s) as [[? ?]|]; [reflexivity|]. destruct (queue s); [reflexivity|]. destruct (closed s); reflexivity.
  - destruct (pc s) as [[ev cur]|]; [apply step_finish_no_replay|reflexivity].
  - destruct (nbuf s) as [|[? ?] ?]; reflexivity.
Qed.

Theorem no_replay acts : forall s, ok_no_replay (snd (run s acts)) = true.
Proof.
  induction acts as [|a rest IH]; intros s; cbn [run]; [reflexivity|].
  pose proof (exec_no_replay s a) as Ha.
  destruct (exec s a) as [s1 o1]. specialize (IH s1). destruct (run s1 rest) as [s2 o2].
  cbn [snd] in *. rewrite ok_no_replay_app, Ha, IH. reflexivity.
Qed.

(** A disconnect / T7 expiry taken while a TCP-up commit echo is still queued behind it (so it was
    injected before that TCP-up was committed) is ignored entirely. *)
Theorem stale_event_ignored s ev cur :
  (ev = EvDisconnect \/ ev = EvT7) -> existsb is_upc (queue s) = true ->
  let s' := fst (step_finish s ev cur) in
  st s' = st s /\ lastr s' = lastr s /\ closed s' = closed s /\ nbuf s' = nbuf s /\ snd (step_finish s ev cur) = [].
Proof.
  intros Hev Hq. unfold step_finish. rewrite Hq.
  destruct Hev; subst ev; destruct cur; cbn; repeat split; reflexivity.
Qed.
