(** SendCoreMonProofs — every run of the model is accepted by the outcome clause of ok_C06.

    [step_shape]: what one step of a call can do to the state and to the log.
    [Cpl s m]: coupling between a model state and the monitor state reached on the log so far.
    [outcome_all_runs]: for ALL action sequences (all interleavings, all peer behaviours) of the
    repaired step function — and of the current one when no control response is routed into a
    data waiter — the monitor clause [chk_outcome] accepts the produced log. *)
From Coq Require Import ZArith Bool List Lia.
From GoSecs Require Import Hsms.SendCore Hsms.SendCoreMon Hsms.SendCoreInv Hsms.SendCoreInvSteps.
Import ListNotations.
Open Scope Z_scope.

Notation notdone c := (forall r, c_pc c <> PDone r).

Definition direct (s : state) (c : call) (r : result) : Prop :=
  (c_pc c = PEnter /\ r = RNotOpen /\ opened s = false) \/
  (c_pc c = PGate /\ r = RNotSelected /\ isdata c = true /\ selected s = false) \/
  (c_pc c = PEnq /\ (r = ROk None \/ r = RConnClosed \/ r = RCtxErr)).

Inductive step_out (s : state) (c c' : call) : list obs -> Prop :=
  | so_silent : notdone c' -> step_out s c c' []
  | so_write : notdone c' -> c_pc c = PWrite -> wr_ok s (c_gen c) = true ->
      step_out s c c' [OPeerRecv (c_gen c) (c_id c) (c_msg c)]
  | so_ret_exit : forall r, c_pc c = PExit r -> c_pc c' = PDone r ->
      step_out s c c' [ORet (c_id c) r (match r with RT3 | RT6 => now s - c_t0 c | _ => 0 end)]
  | so_ret_direct : forall r, c_pc c' = PDone r -> direct s c r ->
      step_out s c c' [ORet (c_id c) r 0].

Section Shape.
Variable fx : bool.
Variable p : cfg.

Lemma step_shape : forall s c ch s' os,
  step_call fx p s c ch = Some (s', os) ->
  exists c', calls s' = put c' (calls s) /\ c_id c' = c_id c /\ c_kind c' = c_kind c /\ c_msg c' = c_msg c /\
             sent s' = sent s /\ inq s' = inq s /\ nsent s' = nsent s /\
             (forall n, chan_holds c' n \/ exit_holds c' n -> chan_holds c n \/ exit_holds c n) /\
             (forall r, c_pc c <> PDone r) /\
             step_out s c c' os.
Proof.
  intros s c ch s' os H. unfold step_call in H.
  assert (PH : forall q, (forall r, q <> PExit r) -> forall n, chan_holds (set_pc c q) n \/ exit_holds (set_pc c q) n -> chan_holds c n \/ exit_holds c n).
  { intros q Hq n [Hc|[f Hx]]; [left; exact Hc | cbn in Hx; exfalso; eapply Hq; eauto]. }
  destruct (c_pc c) eqn:PC; destruct ch; try discriminate.
  - destruct (opened s) eqn:O.
    + inversion H; subst; clear H. eexists. repeat split; try reflexivity.
      * intros n [Hc|[f Hx]]; [left; exact Hc | cbn in Hx; discriminate].
      * discriminate.
      * apply so_silent. intros r; cbn; discriminate.
    + unfold finish in H. inversion H; subst; clear H. eexists. repeat split; try reflexivity.
      * apply PH; discriminate.
      * discriminate.
      * apply so_ret_direct; [reflexivity|]. left. auto.
  - destruct (isdata c && negb (selected s)) eqn:B.
    + unfold finish in H. inversion H; subst; clear H. eexists. repeat split; try reflexivity.
      * apply PH; discriminate.
      * discriminate.
      * apply so_ret_direct; [reflexivity|]. right; left. apply andb_true_iff in B. destruct B as [B1 B2].
        apply negb_true_iff in B2. auto.
    + inversion H; subst; clear H. eexists. repeat split; try reflexivity.
      * apply PH. unfold after_gate. destruct (c_kind c); try destruct (needs_reg c); discriminate.
      * discriminate.
      * apply so_silent. intros r; cbn. unfold after_gate. destruct (c_kind c); try destruct (needs_reg c); discriminate.
  - inversion H; subst; clear H. eexists. repeat split; try reflexivity.
    + intros n [[f Hc]|[f Hx]]; cbn in *; discriminate.
    + discriminate.
    + apply so_silent. intros r; cbn; discriminate.
  - destruct (negb (wr_ok s (c_gen c))).
    + inversion H; subst; clear H. eexists. repeat split; try reflexivity.
      * intros n [Hc|[f Hx]]; [left; exact Hc | cbn in Hx; discriminate].
      * discriminate.
      * apply so_silent. intros r; cbn; discriminate.
    + destruct (isdata c && negb (selected s)).
      * inversion H; subst; clear H. eexists. repeat split; try reflexivity.
        -- intros n [Hc|[f Hx]]; [left; exact Hc | cbn in Hx; discriminate].
        -- discriminate.
        -- apply so_silent. intros r; cbn; discriminate.
      * inversion H; subst; clear H. eexists. repeat split; try reflexivity.
        -- apply PH; discriminate.
        -- discriminate.
        -- apply so_silent. intros r; cbn; discriminate.
  - destruct (wr_ok s (c_gen c)) eqn:W; [|discriminate].
    inversion H; subst; clear H. eexists. repeat split; try reflexivity.
    + destruct (needs_reg c); reflexivity.
    + destruct (needs_reg c); reflexivity.
    + destruct (needs_reg c); reflexivity.
    + destruct (needs_reg c); intros n [Hc|[f Hx]]; try (left; exact Hc); cbn in Hx; discriminate.
    + discriminate.
    + apply so_write; auto. intros r. destruct (needs_reg c); cbn; discriminate.
  - destruct (fault s || negb (wr_ok s (c_gen c))); [|discriminate].
    inversion H; subst; clear H. eexists. repeat split; try reflexivity.
    + intros n [Hc|[f Hx]]; [left; exact Hc | cbn in Hx; discriminate].
    + discriminate.
    + apply so_silent. intros r; cbn; discriminate.
  - destruct (c_chan c) as [cr|] eqn:CH; [|discriminate].
    destruct (chan_result fx c cr) as [res|] eqn:RES.
    + inversion H; subst; clear H. eexists. repeat split; try reflexivity.
      * intros n [[f Hc]|[f Hx]]; cbn in *; [discriminate|].
        inversion Hx; subst res. destruct cr as [n0 f0|x]; [|cbn in RES; discriminate].
        left. exists f0. destruct (chan_result_msg _ _ _ _ _ RES) as [[E KF]|[E _]]; inversion E; subst; exact CH.
      * discriminate.
      * apply so_silent. intros r; cbn; discriminate.
    + inversion H; subst; clear H. eexists. repeat split; try reflexivity.
      * intros n [[f Hc]|[f Hx]]; cbn in *; [discriminate|]. right. exists f. exact Hx.
      * discriminate.
      * apply so_silent. intros r; cbn. rewrite PC. discriminate.
  - destruct (c_t0 c + timeout_of p c <=? now s); [|discriminate].
    inversion H; subst; clear H. eexists. repeat split; try reflexivity.
    + intros n [Hc|[f Hx]]; [left; exact Hc | cbn in Hx]. unfold timeout_res in Hx. destruct (isdata c); discriminate.
    + discriminate.
    + apply so_silent. intros r; cbn; discriminate.
  - destruct (negb (glive s (c_gen c))); [|discriminate].
    inversion H; subst; clear H. eexists. repeat split; try reflexivity.
    + intros n [Hc|[f Hx]]; [left; exact Hc | cbn in Hx; discriminate].
    + discriminate.
    + apply so_silent. intros r; cbn; discriminate.
  - destruct (c_ctx c); [|discriminate].
    inversion H; subst; clear H. eexists. repeat split; try reflexivity.
    + intros n [Hc|[f Hx]]; [left; exact Hc | cbn in Hx; discriminate].
    + discriminate.
    + apply so_silent. intros r; cbn; discriminate.
  - unfold finish in H. inversion H; subst; clear H. exists (set_pc c (PDone (ROk None))). repeat split; try reflexivity.
    + destruct (c_gen c =? gen s); reflexivity.
    + destruct (c_gen c =? gen s); reflexivity.
    + destruct (c_gen c =? gen s); reflexivity.
    + destruct (c_gen c =? gen s); reflexivity.
    + apply PH; discriminate.
    + discriminate.
    + apply so_ret_direct; [reflexivity|]. right; right. auto.
  - destruct (negb (glive s (c_gen c))); [|discriminate].
    unfold finish in H. inversion H; subst; clear H. eexists. repeat split; try reflexivity.
    + apply PH; discriminate.
    + discriminate.
    + apply so_ret_direct; [reflexivity|]. right; right. auto.
  - destruct (c_ctx c); [|discriminate].
    unfold finish in H. inversion H; subst; clear H. eexists. repeat split; try reflexivity.
    + apply PH; discriminate.
    + discriminate.
    + apply so_ret_direct; [reflexivity|]. right; right. auto.
  - unfold finish in H. inversion H; subst; clear H. exists (set_pc c (PDone r)). repeat split; try reflexivity.
    + destruct (needs_reg c); reflexivity.
    + destruct (needs_reg c); reflexivity.
    + destruct (needs_reg c); reflexivity.
    + destruct (needs_reg c); reflexivity.
    + apply PH; discriminate.
    + discriminate.
    + apply so_ret_exit; [exact PC | reflexivity].
Qed.

Lemma step_chan : forall s c ch s' os c',
  step_call fx p s c ch = Some (s', os) -> get (c_id c) (calls s) = Some c ->
  get (c_id c) (calls s') = Some c' -> c_chan c' = c_chan c \/ c_chan c' = None.
Proof.
  intros s c ch s' os c' H G G'.
  assert (K : forall X d, calls X = calls s -> c_id d = c_id c -> get (c_id c) (calls (upd X d)) = Some c' -> c' = d).
  { intros X d E1 E2 E3. cbn in E3. rewrite E1 in E3. rewrite <- E2 in E3.
    rewrite (get_put_same _ _ c) in E3 by (rewrite E2; exact G). inversion E3. reflexivity. }
  unfold step_call, finish in H.
  destruct (c_pc c) eqn:PC; destruct ch; try discriminate;
    repeat match type of H with
           | (if ?b then _ else _) = _ => destruct b
           | match ?x with _ => _ end = _ => destruct x eqn:?
           end; try discriminate; inversion H; subst; clear H;
    try (apply K in G'; [subst c'; cbn; auto | reflexivity | reflexivity]).
  - destruct (needs_reg c); apply K in G'; try reflexivity; subst c'; cbn; auto.
  - destruct (c_gen c =? gen s); apply K in G'; try reflexivity; subst c'; cbn; auto.
  - destruct (needs_reg c); apply K in G'; try reflexivity; subst c'; cbn; auto.
Qed.

End Shape.

(** * monitor-state lemmas *)
Definition proj (l : list mfr) : list (Z * frame) := map (fun x => (mf_n x, mf_f x)) l.

Lemma proj_fst : forall l, map fst (proj l) = map mf_n l.
Proof. induction l as [|a l IH]; cbn; [reflexivity | f_equal; exact IH]. Qed.

Lemma mf_get_some : forall l n x, mf_get n l = Some x -> In x l /\ mf_n x = n.
Proof.
  induction l as [|d r IH]; cbn; intros n x H; [discriminate|].
  destruct (mf_n d =? n) eqn:E.
  - inversion H; subst. split; [left; reflexivity | lia].
  - destruct (IH _ _ H). split; [right|]; auto.
Qed.

Lemma mf_get_in : forall l x, NoDup (map mf_n l) -> In x l -> mf_get (mf_n x) l = Some x.
Proof.
  induction l as [|d r IH]; cbn; intros x ND H; [contradiction|].
  inversion ND as [|a0 l0 NI ND']; subst. destruct H as [->|H].
  - rewrite Z.eqb_refl. reflexivity.
  - destruct (mf_n d =? mf_n x) eqn:E.
    + exfalso. apply NI. apply Z.eqb_eq in E. rewrite E. apply in_map. exact H.
    + auto.
Qed.

Lemma mf_get_put : forall l y x n, mf_get (mf_n y) l = Some x ->
  mf_get n (mf_put y l) = if n =? mf_n y then Some y else mf_get n l.
Proof.
  induction l as [|d r IH]; cbn; intros y x n H; [discriminate|].
  destruct (mf_n d =? mf_n y) eqn:E; cbn.
  - destruct (n =? mf_n y) eqn:E2.
    + apply Z.eqb_eq in E2. subst n. rewrite Z.eqb_refl. reflexivity.
    + destruct (mf_n y =? n) eqn:E3; [lia|]. destruct (mf_n d =? n) eqn:E4; [lia | reflexivity].
  - destruct (mf_n d =? n) eqn:E4.
    + destruct (n =? mf_n y) eqn:E2; [lia | reflexivity].
    + eauto.
Qed.

Lemma mf_put_proj : forall l y x, mf_get (mf_n y) l = Some x -> mf_f y = mf_f x -> proj (mf_put y l) = proj l.
Proof.
  induction l as [|d r IH]; cbn; intros y x H E; [reflexivity|].
  destruct (mf_n d =? mf_n y) eqn:E1; cbn.
  - inversion H; subst. apply Z.eqb_eq in E1. rewrite E, E1. reflexivity.
  - f_equal. eauto.
Qed.

Lemma mf_get_settle : forall l n, mf_get n (map settle l) = option_map settle (mf_get n l).
Proof.
  induction l as [|d r IH]; cbn; intros n; [reflexivity|].
  destruct (mf_n d =? n); [reflexivity | auto].
Qed.

Lemma proj_settle : forall l, proj (map settle l) = proj l.
Proof. induction l as [|a l IH]; cbn; [reflexivity | f_equal; exact IH]. Qed.

Lemma rej_target_in : forall l sid sys x, rej_target sid sys l = Some x -> In x l.
Proof.
  induction l as [|d r IH]; cbn; intros sid sys x H; [discriminate|].
  destruct (rej_target sid sys r) eqn:E.
  - inversion H; subst. right. eauto.
  - destruct (is_dataframe (mf_f d) && (f_sid (mf_f d) =? sid) && (f_sys (mf_f d) =? sys) &&
              negb (mf_rej d) && negb (mf_used d) && (mf_h d =? 0)); [|discriminate].
    inversion H; subst. left. reflexivity.
Qed.

Lemma mc_get_put : forall l y x id, mc_get (mc_id y) l = Some x ->
  mc_get id (mc_put y l) = if id =? mc_id y then Some y else mc_get id l.
Proof.
  induction l as [|d r IH]; cbn; intros y x id H; [discriminate|].
  destruct (mc_id d =? mc_id y) eqn:E; cbn.
  - destruct (id =? mc_id y) eqn:E2.
    + apply Z.eqb_eq in E2. subst id. rewrite Z.eqb_refl. reflexivity.
    + destruct (mc_id y =? id) eqn:E3; [lia|]. destruct (mc_id d =? id) eqn:E4; [lia | reflexivity].
  - destruct (mc_id d =? id) eqn:E4.
    + destruct (id =? mc_id y) eqn:E2; [lia | reflexivity].
    + eauto.
Qed.

Lemma mc_get_id : forall l id x, mc_get id l = Some x -> mc_id x = id.
Proof.
  induction l as [|d r IH]; cbn; intros id x H; [discriminate|].
  destruct (mc_id d =? id) eqn:E; [inversion H; subst; lia | eauto].
Qed.

Lemma mon_run_app : forall chk o1 o2 m,
  mon_run chk m (o1 ++ o2) = mon_run chk m o1 && mon_run chk (fold_left mon_upd o1 m) o2.
Proof.
  induction o1 as [|o r IH]; cbn; intros o2 m; [reflexivity|].
  rewrite IH. rewrite andb_assoc. reflexivity.
Qed.

(** used-flag view of the monitor's frame table *)
Definition uview (m : mon) (n : Z) : option bool := option_map mf_used (mf_get n (m_frames m)).

(* observations that neither open/close a call nor add a frame nor mark one used *)
Definition neutral (o : obs) : bool :=
  match o with
  | OStart _ _ _ | ORet _ _ _ | OPeerSent _ _ => false
  | _ => true
  end.

Lemma neutral_upd : forall m o, neutral o = true -> NoDup (map mf_n (m_frames m)) ->
  m_calls (mon_upd m o) = m_calls m /\ proj (m_frames (mon_upd m o)) = proj (m_frames m) /\
  (forall n, uview (mon_upd m o) n = uview m n).
Proof.
  intros m o N ND. destruct o; try discriminate; cbn.
  - (* OPeerRecv *)
    destruct (is_reject4 f && (origin =? -1)); [|auto].
    destruct (rej_target (f_sid f) (f_sys f) (m_frames m)) as [x|] eqn:RT; [|auto].
    pose proof (mf_get_in _ _ ND (rej_target_in _ _ _ _ RT)) as GX.
    split; [reflexivity|]. split.
    + eapply mf_put_proj; cbn; eauto.
    + intros n. unfold uview. cbn. rewrite (mf_get_put _ _ x n) by (cbn; exact GX). cbn.
      destruct (n =? mf_n x) eqn:E; [|reflexivity]. apply Z.eqb_eq in E. subst n. rewrite GX. reflexivity.
  - (* OHandler *)
    destruct (mf_get n (m_frames m)) as [x|] eqn:GX; [|auto].
    pose proof (mf_get_some _ _ _ GX) as [_ NX].
    split; [reflexivity|]. split.
    + eapply mf_put_proj; cbn; [rewrite NX; eauto | reflexivity].
    + intros n0. unfold uview. cbn. rewrite (mf_get_put _ _ x n0) by (cbn; rewrite NX; exact GX). cbn.
      destruct (n0 =? mf_n x) eqn:E; [|reflexivity]. apply Z.eqb_eq in E. subst n0. rewrite NX, GX. reflexivity.
  - auto.
  - split; [reflexivity|]. split; [apply proj_settle|]. intros n. unfold uview. cbn. rewrite mf_get_settle.
    destruct (mf_get n (m_frames m)); reflexivity.
  - auto.
  - auto.
  - auto.
  - split; [reflexivity|]. split; [apply proj_settle|]. intros n. unfold uview. cbn. rewrite mf_get_settle.
    destruct (mf_get n (m_frames m)); reflexivity.
Qed.

(** * coupling between model state and monitor state *)
Definition pending (s : state) (n : Z) : Prop :=
  In n (map fst (inq s)) \/ exists id c, get id (calls s) = Some c /\ (chan_holds c n \/ exit_holds c n).

Record Cpl (s : state) (m : mon) : Prop := mkCpl {
  cp_calls : forall id c, get id (calls s) = Some c -> notdone c ->
             exists mc, mc_get id (m_calls m) = Some mc /\ mc_kind mc = c_kind c /\ mc_msg mc = c_msg c /\ mc_open mc = true;
  cp_proj : proj (m_frames m) = sent s;
  cp_unused : forall n, pending s n -> uview m n <> Some true
}.

Lemma Cpl_init : forall c0, Cpl (init c0) mon0.
Proof.
  intros c0. constructor; cbn.
  - intros id c H. discriminate.
  - reflexivity.
  - intros n _. unfold uview. cbn. discriminate.
Qed.

Section Sim.
Variable fx : bool.
Variable p : cfg.
Notation Inv := (Inv fx p).

Lemma Cpl_nodup : forall s m, Cpl s m -> Inv s -> NoDup (map mf_n (m_frames m)).
Proof.
  intros s m C I. rewrite <- proj_fst. rewrite (cp_proj _ _ C). apply (q_sent_nodup _ (i_q _ _ _ I)).
Qed.

Lemma Cpl_frame : forall s m n f, Cpl s m -> Inv s -> In (n, f) (sent s) ->
  exists x, mf_get n (m_frames m) = Some x /\ mf_f x = f /\ In x (m_frames m).
Proof.
  intros s m n f C I H. rewrite <- (cp_proj _ _ C) in H. unfold proj in H. apply in_map_iff in H.
  destruct H as (x & E & IN). inversion E; subst. exists x.
  split; [apply mf_get_in; eauto using Cpl_nodup | split; auto].
Qed.

Lemma Cpl_neutral : forall s m o, Cpl s m -> Inv s -> neutral o = true -> Cpl s (mon_upd m o).
Proof.
  intros s m o C I N. destruct (neutral_upd m o N (Cpl_nodup _ _ C I)) as (E1 & E2 & E3).
  destruct C as [C1 C2 C3]. constructor.
  - rewrite E1. exact C1.
  - rewrite E2. exact C2.
  - intros n Hn. rewrite E3. auto.
Qed.

Lemma Cpl_neutral_list : forall os s m, Cpl s m -> Inv s -> forallb neutral os = true ->
  Cpl s (fold_left mon_upd os m).
Proof.
  induction os as [|o r IH]; cbn; intros s m C I N; [exact C|].
  apply andb_true_iff in N. destruct N. apply IH; auto using Cpl_neutral.
Qed.

Lemma outcome_neutral_list : forall os m, forallb neutral os = true -> mon_run (chk_outcome p) m os = true.
Proof.
  induction os as [|o r IH]; cbn; intros m N; [reflexivity|].
  apply andb_true_iff in N. destruct N as [N1 N2]. rewrite IH by exact N2.
  destruct o; try discriminate; reflexivity.
Qed.

Lemma Cpl_silent : forall s s' m, Cpl s m ->
  (forall id c', get id (calls s') = Some c' -> notdone c' ->
     exists c, get id (calls s) = Some c /\ notdone c /\ c_kind c = c_kind c' /\ c_msg c = c_msg c') ->
  sent s' = sent s -> (forall n, pending s' n -> pending s n) -> Cpl s' m.
Proof.
  intros s s' m [C1 C2 C3] HC HS HP. constructor.
  - intros id c' G ND. destruct (HC id c' G ND) as (c & Gc & NDc & K & M).
    destruct (C1 id c Gc NDc) as (mc & A & B & D & E). exists mc. rewrite <- K, <- M. auto.
  - rewrite HS. exact C2.
  - intros n Hn. apply C3. auto.
Qed.

(* a step of one call whose effect on [calls] is [put c'] *)
Lemma put_calls_rel : forall s s' c c', get (c_id c) (calls s) = Some c ->
  calls s' = put c' (calls s) -> c_id c' = c_id c -> c_kind c' = c_kind c -> c_msg c' = c_msg c -> notdone c ->
  forall id d', get id (calls s') = Some d' -> notdone d' ->
     exists d, get id (calls s) = Some d /\ notdone d /\ c_kind d = c_kind d' /\ c_msg d = c_msg d'.
Proof.
  intros s s' c c' G E EI EK EM NDc id d' Gd ND. rewrite E in Gd.
  assert (G' : get (c_id c') (calls s) = Some c) by (rewrite EI; exact G).
  destruct (get_put_inv _ _ _ _ _ G' Gd) as [[-> ->]|[Ne Gd']].
  - exists c. rewrite EI. auto.
  - exists d'. auto.
Qed.

Lemma put_pending_rel : forall s s' c c', get (c_id c) (calls s) = Some c ->
  calls s' = put c' (calls s) -> c_id c' = c_id c -> inq s' = inq s ->
  (forall n, chan_holds c' n \/ exit_holds c' n -> chan_holds c n \/ exit_holds c n) ->
  forall n, pending s' n -> pending s n.
Proof.
  intros s s' c c' G E EI EQ HH n [Hn|(id & d & Gd & Hd)].
  - left. rewrite <- EQ. exact Hn.
  - right. rewrite E in Gd.
    assert (G' : get (c_id c') (calls s) = Some c) by (rewrite EI; exact G).
    destruct (get_put_inv _ _ _ _ _ G' Gd) as [[-> ->]|[Ne Gd']].
    + exists (c_id c), c. split; auto.
    + exists id, d. auto.
Qed.

Lemma step_sim : forall s c ch s' os m,
  Inv s -> Cpl s m -> get (c_id c) (calls s) = Some c ->
  step_call fx p s c ch = Some (s', os) ->
  mon_run (chk_outcome p) m os = true /\ Cpl s' (fold_left mon_upd os m).
Proof.
  intros s c ch s' os m I C G H.
  assert (I' : Inv s') by (eapply step_call_inv; eauto).
  destruct (step_shape fx p _ _ _ _ _ H) as (c' & EC & EI & EK & EM & ES & EQ & EN & HH & NDc & SO).
  pose proof (put_calls_rel _ _ _ _ G EC EI EK EM NDc) as CR.
  pose proof (put_pending_rel _ _ _ _ G EC EI EQ HH) as PR.
  pose proof (i_calls _ _ _ I _ _ G) as OK.
  assert (CS : Cpl s' m) by (eapply Cpl_silent; eauto).
  inversion SO; subst.
  - split; [reflexivity | exact CS].
  - split; [reflexivity|]. cbn [fold_left]. apply Cpl_neutral; auto.
  - (* return through the exit path *)
    rename H0 into PX. rename H1 into PD.
    pose proof (ck_exit _ _ _ _ OK _ PX) as RO.
    destruct (cp_calls _ _ C _ _ G NDc) as (mc & GM & MK & MM & MO).
    split.
    + cbn. rewrite andb_true_r. rewrite GM, MO, MK, MM. cbn.
      destruct (c_kind c) eqn:K; try reflexivity.
      assert (NRW : needs_reg c = wbit (c_msg c)) by (unfold needs_reg; rewrite K; reflexivity).
      destruct (wbit (c_msg c)) eqn:W.
      * destruct r as [[[n rf]|]| | | | | | | |]; cbn in RO; auto.
        -- destruct RO as ((A1 & A2 & A3 & A4 & A5) & B & D).
           destruct (Cpl_frame _ _ _ _ C I A1) as (x & GX & FX & _).
           unfold reply_ok. rewrite GX, FX.
           assert (U : mf_used x = false).
           { pose proof (cp_unused _ _ C n) as U. unfold uview in U. rewrite GX in U. cbn in U.
             destruct (mf_used x); [|reflexivity]. exfalso. apply U; [|reflexivity].
             right. exists (c_id c), c. split; auto. right. exists rf. exact PX. }
           rewrite U. cbn.
           assert (ST : f_st rf = 0) by (apply B; rewrite K; discriminate).
           unfold is_dataframe. rewrite A3, ST, (A4 ST), A2. cbn. rewrite Z.eqb_refl.
           rewrite andb_true_r. unfold frame_eqb. rewrite !Z.eqb_refl. cbn.
           clear. induction (f_body rf) as [|b l IH]; cbn; [reflexivity | rewrite Z.eqb_refl; exact IH].
        -- exfalso. apply RO; [rewrite NRW; reflexivity | exact K].
        -- destruct RO as ((n & f & A1 & A2 & A3 & A4 & A5) & _).
           destruct (Cpl_frame _ _ _ _ C I A1) as (x & GX & FX & IN).
           unfold reject_seen. apply existsb_exists. exists x. split; [exact IN|]. rewrite FX, A2, A3, A4, A5. rewrite !Z.eqb_refl. reflexivity.
        -- destruct RO as (_ & T & _). apply Z.leb_le. lia.
        -- destruct RO as (D & _). unfold isdata in D.
           destruct (ck_kind _ _ _ _ OK) as [_ KK]. rewrite K in KK.
           apply Z.eqb_neq in D. specialize (KK D). discriminate.
      * destruct r as [[[n rf]|]| | | | | | | |]; cbn in RO; auto.
        -- destruct RO as (_ & _ & D). rewrite NRW in D. discriminate.
        -- destruct RO as (_ & D). rewrite NRW in D. discriminate.
        -- destruct RO as (_ & _ & D). rewrite NRW in D. discriminate.
        -- destruct RO as (_ & D). rewrite NRW in D. discriminate.
        -- rewrite NRW in RO. discriminate.
    + (* coupling after the return *)
      cbn. rewrite GM.
      assert (MI : mc_id mc = c_id c) by (eapply mc_get_id; eauto).
      constructor.
      * intros id d Gd ND. destruct (CR id d Gd ND) as (d0 & Gd0 & ND0 & K0 & M0).
        assert (NE : id <> c_id c).
        { intro X. subst id. rewrite EC in Gd.
          assert (G' : get (c_id c') (calls s) = Some c) by (rewrite EI; exact G).
          rewrite <- EI in Gd. rewrite (get_put_same _ _ _ G') in Gd. inversion Gd; subst d. eapply ND; eauto. }
        destruct (cp_calls _ _ C _ _ Gd0 ND0) as (mc0 & A & B & D & E).
        exists mc0. cbn. rewrite (mc_get_put _ _ mc id) by (cbn; exact GM). cbn.
        destruct (id =? c_id c) eqn:X; [lia|]. rewrite <- K0, <- M0. auto.
      * cbn. rewrite ES.
        destruct r as [[[n rf]|]| | | | | | | |]; try apply (cp_proj _ _ C).
        destruct (mf_get n (m_frames m)) as [x|] eqn:GX; [|apply (cp_proj _ _ C)].
        pose proof (mf_get_some _ _ _ GX) as [_ NX].
        rewrite <- (cp_proj _ _ C). eapply mf_put_proj; cbn; [rewrite NX; eauto | reflexivity].
      * intros n0 Hn0. pose proof (cp_unused _ _ CS n0 Hn0) as U0.
        destruct r as [[[n rf]|]| | | | | | | |]; try exact U0.
        unfold uview in *. cbn.
        destruct (mf_get n (m_frames m)) as [x|] eqn:GX; [|exact U0].
        pose proof (mf_get_some _ _ _ GX) as [_ NX].
        rewrite (mf_get_put _ _ x n0) by (cbn; rewrite NX; exact GX). cbn. rewrite NX.
        destruct (n0 =? n) eqn:E; [|exact U0]. apply Z.eqb_eq in E. subst n0. exfalso.
        (* n is exit-held by c in s; nothing in s' can still hold it *)
        pose proof (ck_exit _ _ _ _ OK _ PX) as ((_ & _ & _ & _ & NIQ) & _).
        destruct Hn0 as [Hq|(j & d & Gd & Hd)].
        -- apply NIQ. rewrite <- EQ. exact Hq.
        -- rewrite EC in Gd.
           assert (G' : get (c_id c') (calls s) = Some c) by (rewrite EI; exact G).
           assert (XH : exit_holds c n) by (exists rf; exact PX).
           destruct (get_put_inv _ _ _ _ _ G' Gd) as [[-> ->]|[Ne Gd']].
           ++ destruct Hd as [Hd|[g Hd]]; [|rewrite PD in Hd; discriminate].
              assert (GC' : get (c_id c) (calls s') = Some c').
              { rewrite EC. rewrite <- EI. apply (get_put_same _ _ c). exact G'. }
              destruct (step_chan fx p _ _ _ _ _ _ H G GC') as [CE|CE]; destruct Hd as [g Hd]; rewrite CE in Hd; [|discriminate].
              eapply (hu_both _ (i_held _ _ _ I) (c_id c) (c_id c) c c n); eauto. exists g. exact Hd.
           ++ destruct Hd as [Hd|Hd].
              ** eapply (hu_both _ (i_held _ _ _ I) j (c_id c) d c n); eauto.
              ** apply Ne. rewrite EI. eapply (hu_exit _ (i_held _ _ _ I) j (c_id c) d c n); eauto.
  - (* direct return: refused or async *)
    rename H0 into PD. rename H1 into DR.
    destruct (cp_calls _ _ C _ _ G NDc) as (mc & GM & MK & MM & MO).
    assert (NS : forall n rf, r <> ROk (Some (n, rf))).
    { intros n rf X. subst r. destruct DR as [(_ & X & _)|[(_ & X & _)|(_ & [X|[X|X]])]]; discriminate. }
    split.
    + cbn. rewrite andb_true_r. rewrite GM, MO, MK, MM. cbn.
      destruct (c_kind c) eqn:K; try reflexivity.
      destruct DR as [(_ & -> & _)|[(_ & -> & _)|(PE & _)]].
      * destruct (wbit (c_msg c)); reflexivity.
      * destruct (wbit (c_msg c)); reflexivity.
      * exfalso. apply (ck_enq _ _ _ _ OK PE). exact K.
    + cbn. rewrite GM.
      constructor.
      * intros id d Gd ND. destruct (CR id d Gd ND) as (d0 & Gd0 & ND0 & K0 & M0).
        assert (NE : id <> c_id c).
        { intro X. subst id. rewrite EC in Gd.
          assert (G' : get (c_id c') (calls s) = Some c) by (rewrite EI; exact G).
          rewrite <- EI in Gd. rewrite (get_put_same _ _ _ G') in Gd. inversion Gd; subst d. eapply ND; eauto. }
        destruct (cp_calls _ _ C _ _ Gd0 ND0) as (mc0 & A & B & D & E).
        exists mc0. cbn. rewrite (mc_get_put _ _ mc id) by (cbn; exact GM). cbn.
        destruct (id =? c_id c) eqn:X; [lia|]. rewrite <- K0, <- M0. auto.
      * cbn. rewrite ES. destruct r as [[[n rf]|]| | | | | | | |]; try apply (cp_proj _ _ C).
        exfalso. eapply NS; eauto.
      * intros n0 Hn0. pose proof (cp_unused _ _ CS n0 Hn0) as U0.
        destruct r as [[[n rf]|]| | | | | | | |]; try exact U0. exfalso. eapply NS; eauto.
Qed.

End Sim.

(** * the other actions *)
Lemma handler_obs_neutral : forall k h n, forallb neutral (handler_obs k h n) = true.
Proof. induction k; cbn; intros; auto. Qed.

Definition offered (s0 s1 : state) (n : Z) : Prop :=
  calls s1 = calls s0 \/
  exists c r, get (c_id c) (calls s0) = Some c /\ c_chan c = None /\ calls s1 = put (set_chan c (Some r)) (calls s0) /\
              (forall n' f', r = CMsg n' f' -> n' = n).

Lemma offer_rel : forall s id r n, (forall n' f', r = CMsg n' f' -> n' = n) ->
  sent (offer s id r) = sent s /\ inq (offer s id r) = inq s /\ offered s (offer s id r) n.
Proof.
  intros s id r n HR. unfold offer.
  destruct (get id (calls s)) as [c|] eqn:G; [|repeat split; left; reflexivity].
  destruct (c_chan c) eqn:CH; [repeat split; left; reflexivity|].
  repeat split. right. exists c, r. pose proof (get_id _ _ _ G). subst id. auto.
Qed.

Lemma dispatch_rel : forall p s0 n f s1 os, dispatch p s0 n f = (s1, os) ->
  sent s1 = sent s0 /\ inq s1 = inq s0 /\ forallb neutral os = true /\ offered s0 s1 n.
Proof.
  intros p s0 n f s1 os H. unfold dispatch in H.
  assert (T : forall X, sent X = sent s0 -> inq X = inq s0 -> calls X = calls s0 ->
              sent X = sent s0 /\ inq X = inq s0 /\ forallb neutral (@nil obs) = true /\ offered s0 X n).
  { intros X A B C. repeat split; auto. left. exact C. }
  assert (HM : forall n' f', CMsg n f = CMsg n' f' -> n' = n) by (intros n' f' E; inversion E; reflexivity).
  assert (HJ : forall x n' f', CRej x = CMsg n' f' -> n' = n) by (intros x n' f' E; discriminate).
  repeat match type of H with
         | (if ?b then _ else _) = _ => destruct b eqn:?
         | match ?x with _ => _ end = _ => destruct x eqn:?
         end; inversion H; subst; clear H; try (apply T; reflexivity).
  all: try (destruct (offer_rel s0 z (CMsg n f) n HM) as (A & B & C); repeat split; auto; fail).
  all: try (destruct (offer_rel s0 z (CRej (f_b3 f)) n (HJ _)) as (A & B & C); repeat split; auto; fail).
  repeat split; auto. apply handler_obs_neutral. left; reflexivity.
Qed.

Section Sim2.
Variable fx : bool.
Variable p : cfg.
Notation Inv := (Inv fx p).

(* a step that changes neither the calls nor the frames the peer sent, and can only shrink the
   inbound queue *)
Lemma Cpl_env : forall s s' m, Cpl s m -> calls s' = calls s -> sent s' = sent s ->
  (forall n, In n (map fst (inq s')) -> In n (map fst (inq s))) -> Cpl s' m.
Proof.
  intros s s' m C E1 E2 E3. eapply Cpl_silent; eauto.
  - intros id c' G ND. rewrite E1 in G. exists c'. auto.
  - intros n [Hn|(id & c & G & Hc)]; [left; auto | right; rewrite E1 in G; eauto].
Qed.

Lemma exec_sim : forall s a s' os m,
  Inv s -> Cpl s m -> benign fx p s a = true -> exec fx p s a = Some (s', os) ->
  mon_run (chk_outcome p) m os = true /\ Cpl s' (fold_left mon_upd os m).
Proof.
  intros s a s' os m I C B H.
  assert (I' : Inv s') by (eapply exec_inv; eauto).
  destruct a.
  - (* AStart *)
    cbn in H. destruct (get id (calls s)) eqn:G; [discriminate|].
    destruct (id <? 0) eqn:E0; [discriminate|].
    destruct (negb (f_st f =? 0) && negb (kind_eqb k KCtl)); [discriminate|].
    destruct ((f_st f =? 0) && kind_eqb k KCtl); [discriminate|].
    inversion H; subst; clear H. split; [reflexivity|]. cbn [fold_left].
    set (m0 := if libkey k then mkF (f_sid f) (f_b2 f) (f_b3 f) (f_pt f) (f_st f) (key_of (ctr s + 1)) (f_body f) else f).
    assert (CS : calls (if libkey k then w_ctr s (ctr s + 1) else s) = calls s) by (destruct (libkey k); reflexivity).
    assert (SS : sent (if libkey k then w_ctr s (ctr s + 1) else s) = sent s) by (destruct (libkey k); reflexivity).
    assert (QS : inq (if libkey k then w_ctr s (ctr s + 1) else s) = inq s) by (destruct (libkey k); reflexivity).
    destruct C as [C1 C2 C3]. constructor.
    + intros j d Gd ND. cbn [calls w_calls] in Gd. rewrite CS in Gd. cbn in Gd. cbn.
      destruct (id =? j) eqn:E.
      * inversion Gd; subst d. cbn. eexists. split; [reflexivity|]. cbn. auto.
      * apply C1; auto.
    + cbn. rewrite SS. exact C2.
    + intros n Hn. unfold uview. cbn. apply C3.
      destruct Hn as [Hn|(j & d & Gd & Hd)].
      * left. cbn in Hn. rewrite QS in Hn. exact Hn.
      * cbn [calls w_calls] in Gd. rewrite CS in Gd. cbn in Gd. destruct (id =? j).
        -- inversion Gd; subst d. destruct Hd as [[g Hd]|[g Hd]]; cbn in Hd; discriminate.
        -- right. eauto.
  - (* AStep *)
    cbn in H. destruct (get id (calls s)) as [c0|] eqn:G; [|discriminate].
    pose proof (get_id _ _ _ G) as E. subst id. exact (step_sim fx p s c0 c s' os m I C G H).
  - (* ACancel *)
    cbn in H. destruct (get id (calls s)) as [c0|] eqn:G; [|discriminate].
    inversion H; subst; clear H. split; [reflexivity|]. cbn.
    pose proof (get_id _ _ _ G) as E. subst id.
    eapply Cpl_silent; eauto.
    + intros id d Gd ND. cbn in Gd.
      assert (G' : get (c_id (set_ctx c0 true)) (calls s) = Some c0) by exact G.
      destruct (get_put_inv _ _ _ _ _ G' Gd) as [[-> ->]|[Ne Gd']].
      * exists c0. cbn. repeat split; auto.
      * exists d. auto.
    + intros n [Hn|(j & d & Gd & Hd)]; [left; exact Hn|]. right. cbn in Gd.
      assert (G' : get (c_id (set_ctx c0 true)) (calls s) = Some c0) by exact G.
      destruct (get_put_inv _ _ _ _ _ G' Gd) as [[-> ->]|[Ne Gd']].
      * exists (c_id c0), c0. split; auto.
      * exists j, d. auto.
  - (* ADrain *)
    cbn in H. destruct (sendq s) as [|[o f] q]; [discriminate|].
    assert (K : forall X o1, calls X = calls s -> sent X = sent s -> inq X = inq s -> Inv X -> neutral o1 = true ->
                mon_run (chk_outcome p) m [o1] = true /\ Cpl X (fold_left mon_upd [o1] m)).
    { intros X o1 E1 E2 E3 IX N. split.
      - cbn. destruct o1; try discriminate; reflexivity.
      - cbn [fold_left]. apply (Cpl_neutral fx p); auto.
        eapply Cpl_env; eauto. rewrite E3. auto. }
    destruct (negb (wr_ok s (gen s))); [inversion H; subst; apply K; try reflexivity; exact I'|].
    destruct ((f_st f =? 0) && negb (selected s)); [inversion H; subst; apply K; try reflexivity; exact I'|].
    destruct ok; [inversion H; subst; apply K; try reflexivity; exact I'|].
    destruct (fault s); [inversion H; subst; apply K; try reflexivity; exact I' | discriminate].
  - (* APeer *)
    cbn in H. destruct (sock s); [|discriminate]. inversion H; subst; clear H.
    split; [reflexivity|]. cbn [fold_left]. destruct C as [C1 C2 C3]. constructor; cbn.
    + exact C1.
    + f_equal. exact C2.
    + intros n Hn. unfold uview. cbn. destruct (nsent s + 1 =? n) eqn:E; [cbn; discriminate|].
      apply C3. destruct Hn as [Hn|Hn]; [|right; exact Hn]. left. cbn in Hn. rewrite map_app in Hn.
      apply in_app_or in Hn. destruct Hn as [Hn|[Hn|[]]]; [exact Hn|]. cbn in Hn. lia.
  - (* ADispatch *)
    cbn in H. destruct (inq s) as [|[n f] q] eqn:EQ; [discriminate|].
    destruct (dispatch p (w_inq s q) n f) as [s1 o1] eqn:D. inversion H; subst; clear H.
    destruct (dispatch_rel _ _ _ _ _ _ D) as (A1 & A2 & A3 & A4).
    split; [apply outcome_neutral_list; exact A3|].
    apply (Cpl_neutral_list fx p); auto.
    eapply Cpl_silent; eauto.
    + intros id d Gd ND. destruct A4 as [E|(c & r & Gc & CH & E & _)]; rewrite E in Gd.
      * exists d. auto.
      * cbn in Gd, Gc.
        assert (G' : get (c_id (set_chan c (Some r))) (calls s) = Some c) by exact Gc.
        destruct (get_put_inv _ _ _ _ _ G' Gd) as [[-> ->]|[Ne Gd']].
        -- exists c. cbn. repeat split; auto.
        -- exists d. auto.
    + intros n0 [Hn|(j & d & Gd & Hd)].
      * left. rewrite A2 in Hn. cbn in Hn. rewrite EQ. right. exact Hn.
      * destruct A4 as [E|(c & r & Gc & CH & E & RN)]; rewrite E in Gd.
        -- right. exists j, d. auto.
        -- cbn in Gd, Gc.
           assert (G' : get (c_id (set_chan c (Some r))) (calls s) = Some c) by exact Gc.
           destruct (get_put_inv _ _ _ _ _ G' Gd) as [[-> ->]|[Ne Gd']].
           ++ destruct Hd as [[g Hd]|[g Hd]]; cbn in Hd.
              ** inversion Hd; subst r. rewrite (RN n0 g eq_refl). left. rewrite EQ. left. reflexivity.
              ** right. exists (c_id c), c. split; auto. right. exists g. exact Hd.
           ++ right. exists j, d. auto.
  - (* ATick *)
    cbn in H. destruct (0 <=? d); [|discriminate]. inversion H; subst. split; [reflexivity|]. cbn.
    eapply Cpl_env; eauto.
  - (* ANewGen *)
    cbn in H. destruct (cstate_eqb (st s) NC && (negb (opened s) || gcancel s)); [|discriminate].
    inversion H; subst. split; [reflexivity|]. cbn [fold_left]. apply (Cpl_neutral fx p); auto.
    eapply Cpl_env; eauto. cbn. intros n [].
  - cbn in H. destruct (opened s && negb (sock s) && negb (gcancel s) && cstate_eqb (st s) NC); [|discriminate].
    inversion H; subst. split; [reflexivity|]. cbn [fold_left]. apply (Cpl_neutral fx p); auto. eapply Cpl_env; eauto.
  - cbn in H. destruct (opened s); [|discriminate]. inversion H; subst. split; [reflexivity|].
    cbn [fold_left]. apply (Cpl_neutral fx p); auto. eapply Cpl_env; eauto.
  - cbn in H. destruct (opened s); [|discriminate]. inversion H; subst. split; [reflexivity|].
    cbn [fold_left]. apply (Cpl_neutral fx p); auto. eapply Cpl_env; eauto.
  - cbn in H. destruct (sock s); [|discriminate]. inversion H; subst. split; [reflexivity|].
    cbn [fold_left]. apply (Cpl_neutral fx p); auto. eapply Cpl_env; eauto.
  - cbn in H. destruct (inq s), (sendq s); try discriminate. inversion H; subst. split; [reflexivity|].
    cbn [fold_left]. apply (Cpl_neutral fx p); auto.
  - cbn in H. destruct (inq s), (sendq s); try discriminate. inversion H; subst. split; [reflexivity|].
    cbn [fold_left]. apply (Cpl_neutral fx p); auto.
  - cbn in H. destruct (sendq s); [|discriminate]. destruct (forallb _ (calls s)); [|discriminate].
    inversion H; subst. split; [reflexivity|]. cbn [fold_left]. apply (Cpl_neutral fx p); auto.
Qed.

Lemma run_sim : forall acts s s' os m,
  Inv s -> Cpl s m -> all_benign fx p s acts = true -> run fx p s acts = Some (s', os) ->
  mon_run (chk_outcome p) m os = true /\ Cpl s' (fold_left mon_upd os m) /\ Inv s'.
Proof.
  induction acts as [|a r IH]; cbn; intros s s' os m I C B H.
  - inversion H; subst. cbn. auto.
  - apply andb_true_iff in B. destruct B as [B1 B2].
    destruct (exec fx p s a) as [[s1 o1]|] eqn:E; [|discriminate].
    destruct (run fx p s1 r) as [[s2 o2]|] eqn:R; [|discriminate].
    inversion H; subst.
    destruct (exec_sim _ _ _ _ m I C B1 E) as [M1 C1].
    assert (I1 : Inv s1) by (eapply exec_inv; eauto).
    destruct (IH _ _ _ _ I1 C1 B2 R) as (M2 & C2 & I2).
    rewrite mon_run_app, fold_left_app. rewrite M1, M2. auto.
Qed.

End Sim2.

(** * C06 outcome: all runs are accepted *)

(* the repaired step function: unconditionally *)
Theorem outcome_all_runs_fixed : forall p acts c0 s os,
  run true p (init c0) acts = Some (s, os) -> mon_run (chk_outcome p) mon0 os = true.
Proof.
  intros p acts c0 s os H.
  destruct (run_sim true p acts (init c0) s os mon0 (Inv_init true p c0) (Cpl_init c0)
                    (all_benign_fixed p acts (init c0)) H) as (M & _). exact M.
Qed.

(* the current step function: whenever no control response is routed into a data waiter *)
Theorem outcome_all_runs_current : forall p acts c0 s os,
  all_benign false p (init c0) acts = true ->
  run false p (init c0) acts = Some (s, os) -> mon_run (chk_outcome p) mon0 os = true.
Proof.
  intros p acts c0 s os B H.
  destruct (run_sim false p acts (init c0) s os mon0 (Inv_init false p c0) (Cpl_init c0) B H) as (M & _). exact M.
Qed.

(* every exit path leaves the registry without the call's key *)
Theorem deregistered_when_done : forall fx p acts c0 s os id c r,
  all_benign fx p (init c0) acts = true ->
  run fx p (init c0) acts = Some (s, os) ->
  get id (calls s) = Some c -> c_pc c = PDone r ->
  forall g k, reg_get g k (reg s) <> Some id.
Proof.
  intros fx p acts c0 s os id c r B H G PD g k X.
  pose proof (run_inv fx p acts (init c0) s os (Inv_init fx p c0) B H) as I.
  destruct (i_reg _ _ _ I g k id X) as (d & Gd & _ & _ & _ & RG).
  rewrite G in Gd. inversion Gd; subst d. apply registered_not in RG. destruct RG as (_ & _ & _ & _ & ND).
  eapply ND; eauto.
Qed.
