(** LifecycleInv — the inductive invariant of the lifecycle LTS (Hsms/Lifecycle.v) and its
    preservation by every action. The invariant is a list of boolean clauses over the state; each
    preservation lemma is proved by unfolding the step, reifying the propositional problem
    "old clauses + guards |- new clauses" and refuting its negation with the verified procedure
    of Hsms/LifecycleSat.v (run by vm_compute). The clauses were first validated on millions of
    random runs and perturbed states with the extracted model (search support only). *)
From Coq Require Import Bool List Arith Lia.
From GoSecs Require Import Hsms.Lifecycle Hsms.LifecycleSat.
Import ListNotations.

Definition imp (a b : bool) : bool := negb a || b.

Definition api_idle (p : lc_api_pc) := match p with LcIdle => true | _ => false end.
Definition api_setup (p : lc_api_pc) := match p with LcO1 _ | LcO2 _ | LcO3 _ => true | _ => false end.
Definition api_setup23 (p : lc_api_pc) := match p with LcO2 _ | LcO3 _ => true | _ => false end.
Definition api_ostart (p : lc_api_pc) := match p with LcOStart _ _ => true | _ => false end.
Definition api_owait (p : lc_api_pc) := match p with LcOWait => true | _ => false end.
Definition api_ocold (p : lc_api_pc) := match p with LcOCold1 | LcOCold2 => true | _ => false end.
Definition api_ocold2 (p : lc_api_pc) := match p with LcOCold2 => true | _ => false end.
Definition api_ofail (p : lc_api_pc) := match p with LcOFail1 | LcOFail2 | LcOFail3 | LcOFail4 => true | _ => false end.
Definition api_ofail34 (p : lc_api_pc) := match p with LcOFail3 | LcOFail4 => true | _ => false end.
Definition api_ofail4 (p : lc_api_pc) := match p with LcOFail4 => true | _ => false end.
Definition api_close27 (p : lc_api_pc) := match p with LcC2 | LcC3 | LcC4 | LcC5 | LcC6 | LcC7 => true | _ => false end.
Definition api_close57 (p : lc_api_pc) := match p with LcC5 | LcC6 | LcC7 => true | _ => false end.
Definition api_close67 (p : lc_api_pc) := match p with LcC6 | LcC7 => true | _ => false end.
Definition api_close7 (p : lc_api_pc) := match p with LcC7 => true | _ => false end.
(* phases in which reconnect loops may exist *)
Definition api_loops_ok (p : lc_api_pc) :=
  match p with LcIdle | LcOWait | LcC1 | LcC2 | LcC3 | LcC4 | LcC5 | LcC6 | LcC7 => true | _ => false end.

Definition spc_idle := lc_spc_idle.
Definition spc_r12 (p : lc_sup_pc) := match p with LcReact1 | LcReact2 => true | _ => false end.
Definition spc_r3 (p : lc_sup_pc) := match p with LcReact3 => true | _ => false end.

Definition lpc_wait (p : lc_loop_pc) := match p with LcLWaitPrev => true | _ => false end.
Definition lpc_quiet (p : lc_loop_pc) := match p with LcLSleep | LcLFence | LcLBuild => true | _ => false end.
Definition lpc_own (p : lc_loop_pc) := match p with LcLPublished | LcLStart _ | LcLFailWait => true | _ => false end.
Definition lpc_pubstart (p : lc_loop_pc) := match p with LcLPublished | LcLStart _ => true | _ => false end.
Definition lpc_failwait (p : lc_loop_pc) := match p with LcLFailWait => true | _ => false end.

Definition sup_none (s : Lifecycle_state) := lc_is_none (lc_sup s).
Definition sup_stopped (s : Lifecycle_state) := lc_is_stopped (lc_sup s).
Definition st_nc (s : Lifecycle_state) := lc_is_nc (lc_st s).

(* nothing of the transport is registered on the current generation *)
Definition unregistered (s : Lifecycle_state) : bool :=
  negb (lc_eup s) && negb (lc_gaccept s) && negb (lc_grecv s) && negb (lc_gproc s) && (lc_glt s =? 0) && (lc_gt7 s =? 0) &&
  negb (lc_ahold s) && negb (lc_elis s) && negb (lc_esock s).

Definition lc_inv_clauses (s : Lifecycle_state) : list bool :=
  let api := lc_api s in
  [ (* 0 *) negb (lc_err s);
    (* 2: never opened *)
    imp (sup_none s) (negb (lc_hascur s) && negb (lc_gnotif s) && spc_idle (lc_spc s) && (lc_pdisc s =? 0) && (lc_pt7 s =? 0) &&
                      negb (lc_pclose s) && negb (lc_stopreq s) && st_nc s && negb (lc_latch s) && negb (lc_shutdown s) &&
                      (api_idle api || api_setup api) && lc_no_loops s);
    (* 3 *) imp (negb (lc_hascur s)) (sup_none s && negb (lc_etd s) && negb (lc_edone s) && unregistered s && negb (lc_gsender s) &&
                                       negb (lc_gjoin s) && negb (lc_estop1 s) && negb (lc_estop2 s));
    (* 4: a joined generation owns nothing *)
    imp (lc_edone s) (lc_etd s && lc_estop1 s && lc_estop2 s && negb (lc_gjoin s) && negb (lc_grecv s) && negb (lc_gproc s) &&
                      negb (lc_gaccept s) && (lc_glt s =? 0) && (lc_gt7 s =? 0) && negb (lc_gsender s) && negb (lc_esock s) &&
                      negb (lc_elis s) && negb (lc_ahold s));
    (* 5 *) imp (lc_gjoin s) (lc_etd s && negb (lc_edone s));
    (* 6 *) imp (lc_etd s) (lc_gjoin s || lc_edone s);
    (* 7 *) imp (lc_estop1 s) (lc_etd s && lc_stopping s && negb (lc_elis s));
    (* 8 *) imp (lc_estop2 s) (lc_estop1 s && negb (lc_gaccept s) && negb (lc_ahold s) && negb (lc_esock s));
    (* 9 *) imp (lc_grecv s || lc_gproc s || negb (lc_glt s =? 0) || negb (lc_gt7 s =? 0) || lc_esock s) (lc_eup s);
    (* 10 *) imp (lc_ahold s) (lc_gaccept s && negb (lc_eup s));
    (* 11 *) imp (lc_elis s) (lc_gaccept s);
    (* 12: supervisor *)
    imp (sup_stopped s) (spc_idle (lc_spc s) && lc_stopreq s);
    (* 13 *) imp (lc_stopreq s) (lc_edone s && (lc_shutdown s || api_setup23 api) &&
                                 (api_ofail4 api || api_close67 api || api_idle api || api_setup api));
    (* 14 *) imp (lc_pclose s && lc_sup_alive s) (lc_shutdown s);
    (* 15 *) imp (lc_latch s) (st_nc s && (lc_shutdown s || negb (lc_sup_alive s)));
    (* 16: reacting *)
    imp (negb (spc_idle (lc_spc s))) (lc_sup_alive s && st_nc s && negb (lc_latch s) && lc_eup s && (lc_reid s =? lc_eid s) &&
                                      negb (lc_etd s) && api_loops_ok api);
    (* 17 *) imp (spc_r12 (lc_spc s)) (negb (lc_hasloop s));
    (* 18 *) imp (spc_r3 (lc_spc s) && lc_hasloop s) (lpc_wait (lc_lpc s));
    (* 19 *) imp (spc_r3 (lc_spc s) && negb (lc_hasloop s)) (lc_shutdown s);
    (* 20 *) imp (negb (st_nc s)) (lc_eup s && negb (lc_etd s) && lc_sup_alive s);
    (* 21: loops *)
    imp (lc_hasloop s || negb (lc_tailc s =? 0) || negb (lc_tailn s =? 0)) (api_loops_ok api && lc_hascur s);
    (* 22 *) imp (lc_hasloop s) (st_nc s && (lc_shutdown s || (lc_lgen s =? lc_rgen s)) && negb (lc_ahold s) && imp (lc_gaccept s) (lc_eup s));
    (* 23 *) imp (lc_hasloop s && lpc_wait (lc_lpc s)) ((lc_lprev s =? lc_eid s) && (lc_etd s || spc_r3 (lc_spc s)));
    (* 24 *) imp (lc_hasloop s && lpc_quiet (lc_lpc s)) (lc_edone s);
    (* 25 *) imp (lc_hasloop s && lpc_own (lc_lpc s)) ((lc_lown s =? lc_eid s) && unregistered s && spc_idle (lc_spc s));
    (* 26 *) imp (lc_hasloop s && lpc_failwait (lc_lpc s)) (lc_etd s);
    (* 27 *) imp (lc_hasloop s && lpc_pubstart (lc_lpc s) && lc_etd s) (lc_latch s);
    (* 28 *) imp ((lc_ahold s || (lc_gaccept s && negb (lc_eup s))) && lc_etd s) (lc_latch s);
    (* 29: cancel channel *)
    imp (lc_cancelled s) (lc_shutdown s || api_setup23 api);
    (* 30: Open in progress *)
    imp (api_setup api) (negb (lc_sup_alive s) && negb (lc_gnotif s) && lc_no_loops s && imp (lc_hascur s) (lc_edone s) && spc_idle (lc_spc s));
    (* 31 *) imp (api_ostart api) (lc_sup_alive s && negb (lc_shutdown s) && unregistered s && negb (lc_etd s) && st_nc s &&
                                   spc_idle (lc_spc s) && negb (lc_pclose s) && negb (lc_latch s) && (lc_pdisc s =? 0) && (lc_pt7 s =? 0) && negb (lc_stopreq s) &&
                                   negb (lc_stopping s) && negb (lc_pups s));
    (* 32 *) imp (api_ocold api) (lc_sup_alive s && negb (lc_shutdown s) && unregistered s && lc_etd s && st_nc s &&
                                  spc_idle (lc_spc s) && negb (lc_pclose s) && negb (lc_latch s) && (lc_pdisc s =? 0) && (lc_pt7 s =? 0) && negb (lc_stopreq s));
    (* 33 *) imp (api_ocold2 api) (lc_edone s);
    (* 34 *) imp (api_ofail api) (lc_shutdown s && unregistered s && spc_idle (lc_spc s) && (lc_pdisc s =? 0) && (lc_pt7 s =? 0) && negb (lc_pups s));
    (* 35 *) imp (api_ofail34 api) (lc_edone s);
    (* 36 *) imp (api_ofail4 api) (lc_stopreq s);
    (* 37: Close in progress *)
    imp (api_close27 api) (lc_shutdown s);
    (* 38 *) imp (api_close57 api) (lc_edone s);
    (* 39 *) imp (api_close67 api) (lc_stopreq s);
    (* 40 *) imp (api_close7 api) (negb (lc_sup_alive s) && negb (lc_gnotif s));
    (* 41: idle *)
    imp (api_idle api && lc_shutdown s) (sup_stopped s && negb (lc_gnotif s) && lc_no_loops s && lc_edone s);
    (* 42 *) imp (sup_stopped s) (lc_shutdown s || api_setup23 api);
    (* 43 *) imp (lc_gnotif s) (negb (sup_none s));
    (* 44 *) imp (lc_etd s) (st_nc s);
    (* 45: C11 — an open, not-connected connection is covered *)
    imp (lc_sup_alive s && negb (lc_shutdown s) && st_nc s)
        (api_ostart api || api_ocold api || negb (spc_idle (lc_spc s)) || lc_hasloop s ||
         (lc_elis s && lc_gaccept s && negb (lc_eup s) && negb (lc_etd s)) || lc_ahold s);
    (* 46 *) imp (lc_gproc s) (lc_active s);
    (* 49: event queue order *)
    imp (lc_pups s) (negb (st_nc s) || lc_latch s);
    (* 50 *) imp (negb (lc_pbehind s =? 0)) (lc_pups s);
    (* 51: a session whose receive goroutine is gone has its disconnect queued where it will take effect *)
    imp (negb (st_nc s) && negb (lc_grecv s))
        ((lc_pups s && negb (lc_pbehind s =? 0)) || (negb (lc_pups s) && negb (lc_pdisc s =? 0)));
    (* 52: nobody seals the start gate of a generation that is not being torn down *)
    imp (lc_hasloop s && lpc_pubstart (lc_lpc s) && negb (lc_etd s)) (negb (lc_stopping s));
    (* 48 *) imp (api_owait api || api_setup23 api) (negb (lc_shutdown s));
    (* 47 *) imp (lc_gaccept s) (negb (lc_active s))
  ].

Definition lc_inv (s : Lifecycle_state) : bool := forallb (fun b => b) (lc_inv_clauses s).

(** the one arithmetic clause: the Reconnects() metric plus the loops that have re-dialled
    successfully but not yet incremented it equals the number of successful counted re-dials *)
Definition lc_count_ok (s : Lifecycle_state) : Prop := lc_reconnects s + lc_tailc s = lc_redials s.

(** ** facts about the enumerations, in boolean form *)
Lemma api_facts : forall p,
  ((api_idle p || api_setup p || api_ostart p || api_owait p || api_ocold p || api_ofail p || api_loops_ok p) &&
   negb (api_loops_ok p && (api_setup p || api_ostart p || api_ocold p || api_ofail p)) &&
   negb (api_setup p && (api_ostart p || api_ocold p || api_ofail p)) &&
   negb (api_ostart p && (api_ocold p || api_ofail p)) && negb (api_ocold p && api_ofail p) &&
   imp (api_idle p || api_owait p || api_close27 p) (api_loops_ok p) &&
   negb (api_idle p && (api_owait p || api_close27 p)) && negb (api_owait p && api_close27 p) &&
   imp (api_setup23 p) (api_setup p) && imp (api_ocold2 p) (api_ocold p) && imp (api_ofail34 p) (api_ofail p) &&
   imp (api_ofail4 p) (api_ofail34 p) && imp (api_close57 p) (api_close27 p) && imp (api_close67 p) (api_close57 p) &&
   imp (api_close7 p) (api_close67 p)) = true.
Proof. destruct p; try destruct m; try destruct p; reflexivity. Qed.
Lemma spc_facts : forall p,
  ((spc_idle p || spc_r12 p || spc_r3 p) && negb (spc_idle p && (spc_r12 p || spc_r3 p)) && negb (spc_r12 p && spc_r3 p)) = true.
Proof. destruct p; reflexivity. Qed.
Lemma lpc_facts : forall p,
  ((lpc_wait p || lpc_quiet p || lpc_own p) && negb (lpc_wait p && (lpc_quiet p || lpc_own p)) && negb (lpc_quiet p && lpc_own p) &&
   imp (lpc_own p) (lpc_pubstart p || lpc_failwait p) && imp (lpc_pubstart p || lpc_failwait p) (lpc_own p) &&
   negb (lpc_pubstart p && lpc_failwait p)) = true.
Proof. destruct p; try destruct p; reflexivity. Qed.
Lemma sup_facts : forall l,
  ((lc_is_none l || lc_is_alive l || lc_is_stopped l) && negb (lc_is_none l && (lc_is_alive l || lc_is_stopped l)) &&
   negb (lc_is_alive l && lc_is_stopped l)) = true.
Proof. destruct l; reflexivity. Qed.
Lemma st_facts : forall c,
  ((lc_is_nc c || lc_is_ns c || lc_is_sel c) && negb (lc_is_nc c && (lc_is_ns c || lc_is_sel c)) && negb (lc_is_ns c && lc_is_sel c)) = true.
Proof. destruct c; reflexivity. Qed.


(** ** preservation *)
Ltac lc_break H :=
  match type of H with
  | context [match ?x with _ => _ end] =>
    lazymatch x with context [match _ with _ => _ end] => fail | _ => idtac end;
    first [ is_var x; destruct x | let E := fresh "E" in destruct x eqn:E ]
  end.

Ltac lc_destruct_state s :=
  destruct s as [active api oeid shutdown rgen cancelled stopping sup st latch spc reid pdisc pt7 pups pbehind pclose stopreq gnotif
    hascur eid etd edone esock elis eup estop1 estop2 ahold gsender grecv gproc gaccept glt gt7 gjoin
    hasloop lgen lcount lpc lprev lown tailc tailn err reconnects redials ndials npub].

Ltac lc_unfold_helpers :=
  unfold lc_open_start_failed, lc_open_start_ok, lc_loop_start_failed, lc_loop_exit, lc_gate, lc_spawn_loop,
         lc_tcpdown, lc_tcpup, lc_new_epoch, lc_teardown, lc_epoch_quiet, lc_sup_alive, lc_no_loops in *.

Ltac lc_inv_tac :=
  intros s s' Hinv Hex;
  lc_destruct_state s;
  match goal with x : lc_api_pc |- _ => pose proof (api_facts x) end;
  match goal with x : lc_sup_pc |- _ => pose proof (spc_facts x) end;
  match goal with x : lc_loop_pc |- _ => pose proof (lpc_facts x) end;
  match goal with x : lc_suplife |- _ => pose proof (sup_facts x) end;
  match goal with x : lc_cstate |- _ => pose proof (st_facts x) end;
  unfold Lifecycle_exec in Hex; lc_unfold_helpers; cbn in Hex;
  repeat (lc_break Hex; cbn in Hex; try discriminate Hex);
  inversion Hex; subst s'; clear Hex;
  unfold lc_inv, lc_inv_clauses in *; cbn [forallb] in *;
  unfold imp, unregistered, st_nc, sup_none, sup_stopped, lc_sup_alive, lc_no_loops, spc_idle in *; cbn in *;
  rewrite ?Nat.eqb_refl;
  bool_sat.

Lemma lc_inv_LcOpen : forall (m : lc_omode) s s', lc_inv s = true -> Lifecycle_exec s (LcOpen m) = Some s' -> lc_inv s' = true.
Proof. intros m; lc_inv_tac. Qed.
Lemma lc_inv_LcOpen1 : forall s s', lc_inv s = true -> Lifecycle_exec s (LcOpen1) = Some s' -> lc_inv s' = true.
Proof. lc_inv_tac. Qed.
Lemma lc_inv_LcOpen2 : forall s s', lc_inv s = true -> Lifecycle_exec s (LcOpen2) = Some s' -> lc_inv s' = true.
Proof. lc_inv_tac. Qed.
Lemma lc_inv_LcOpen3 : forall s s', lc_inv s = true -> Lifecycle_exec s (LcOpen3) = Some s' -> lc_inv s' = true.
Proof. lc_inv_tac. Qed.
Lemma lc_inv_LcODial : forall (ok : bool) s s', lc_inv s = true -> Lifecycle_exec s (LcODial ok) = Some s' -> lc_inv s' = true.
Proof. intros ok; lc_inv_tac. Qed.
Lemma lc_inv_LcOListen : forall (ok : bool) s s', lc_inv s = true -> Lifecycle_exec s (LcOListen ok) = Some s' -> lc_inv s' = true.
Proof. intros ok; lc_inv_tac. Qed.
Lemma lc_inv_LcOGate : forall s s', lc_inv s = true -> Lifecycle_exec s (LcOGate) = Some s' -> lc_inv s' = true.
Proof. lc_inv_tac. Qed.
Lemma lc_inv_LcOWaitRet : forall (r : lc_wait_res) s s', lc_inv s = true -> Lifecycle_exec s (LcOWaitRet r) = Some s' -> lc_inv s' = true.
Proof. intros r; lc_inv_tac. Qed.
Lemma lc_inv_LcOColdWait : forall s s', lc_inv s = true -> Lifecycle_exec s (LcOColdWait) = Some s' -> lc_inv s' = true.
Proof. lc_inv_tac. Qed.
Lemma lc_inv_LcOColdSpawn : forall s s', lc_inv s = true -> Lifecycle_exec s (LcOColdSpawn) = Some s' -> lc_inv s' = true.
Proof. lc_inv_tac. Qed.
Lemma lc_inv_LcOFailReq : forall s s', lc_inv s = true -> Lifecycle_exec s (LcOFailReq) = Some s' -> lc_inv s' = true.
Proof. lc_inv_tac. Qed.
Lemma lc_inv_LcOFailWait : forall s s', lc_inv s = true -> Lifecycle_exec s (LcOFailWait) = Some s' -> lc_inv s' = true.
Proof. lc_inv_tac. Qed.
Lemma lc_inv_LcOFailStop : forall s s', lc_inv s = true -> Lifecycle_exec s (LcOFailStop) = Some s' -> lc_inv s' = true.
Proof. lc_inv_tac. Qed.
Lemma lc_inv_LcOFailJoin : forall s s', lc_inv s = true -> Lifecycle_exec s (LcOFailJoin) = Some s' -> lc_inv s' = true.
Proof. lc_inv_tac. Qed.
Lemma lc_inv_LcClose : forall s s', lc_inv s = true -> Lifecycle_exec s (LcClose) = Some s' -> lc_inv s' = true.
Proof. lc_inv_tac. Qed.
Lemma lc_inv_LcClose1 : forall s s', lc_inv s = true -> Lifecycle_exec s (LcClose1) = Some s' -> lc_inv s' = true.
Proof. lc_inv_tac. Qed.
Lemma lc_inv_LcClose2 : forall s s', lc_inv s = true -> Lifecycle_exec s (LcClose2) = Some s' -> lc_inv s' = true.
Proof. lc_inv_tac. Qed.
Lemma lc_inv_LcClose3 : forall s s', lc_inv s = true -> Lifecycle_exec s (LcClose3) = Some s' -> lc_inv s' = true.
Proof. lc_inv_tac. Qed.
Lemma lc_inv_LcClose4 : forall s s', lc_inv s = true -> Lifecycle_exec s (LcClose4) = Some s' -> lc_inv s' = true.
Proof. lc_inv_tac. Qed.
Lemma lc_inv_LcClose5 : forall s s', lc_inv s = true -> Lifecycle_exec s (LcClose5) = Some s' -> lc_inv s' = true.
Proof. lc_inv_tac. Qed.
Lemma lc_inv_LcClose6 : forall s s', lc_inv s = true -> Lifecycle_exec s (LcClose6) = Some s' -> lc_inv s' = true.
Proof. lc_inv_tac. Qed.
Lemma lc_inv_LcClose7 : forall s s', lc_inv s = true -> Lifecycle_exec s (LcClose7) = Some s' -> lc_inv s' = true.
Proof. lc_inv_tac. Qed.
Lemma lc_inv_LcSupDisc : forall s s', lc_inv s = true -> Lifecycle_exec s (LcSupDisc) = Some s' -> lc_inv s' = true.
Proof. lc_inv_tac. Qed.
Lemma lc_inv_LcSupT7 : forall s s', lc_inv s = true -> Lifecycle_exec s (LcSupT7) = Some s' -> lc_inv s' = true.
Proof. lc_inv_tac. Qed.
Lemma lc_inv_LcSupUpEcho : forall s s', lc_inv s = true -> Lifecycle_exec s (LcSupUpEcho) = Some s' -> lc_inv s' = true.
Proof. lc_inv_tac. Qed.
Lemma lc_inv_LcSupClose : forall s s', lc_inv s = true -> Lifecycle_exec s (LcSupClose) = Some s' -> lc_inv s' = true.
Proof. lc_inv_tac. Qed.
Lemma lc_inv_LcSupReact1 : forall s s', lc_inv s = true -> Lifecycle_exec s (LcSupReact1) = Some s' -> lc_inv s' = true.
Proof. lc_inv_tac. Qed.
Lemma lc_inv_LcSupReact2 : forall s s', lc_inv s = true -> Lifecycle_exec s (LcSupReact2) = Some s' -> lc_inv s' = true.
Proof. lc_inv_tac. Qed.
Lemma lc_inv_LcSupReact3 : forall s s', lc_inv s = true -> Lifecycle_exec s (LcSupReact3) = Some s' -> lc_inv s' = true.
Proof. lc_inv_tac. Qed.
Lemma lc_inv_LcSupRunExit : forall s s', lc_inv s = true -> Lifecycle_exec s (LcSupRunExit) = Some s' -> lc_inv s' = true.
Proof. lc_inv_tac. Qed.
Lemma lc_inv_LcSupNotifExit : forall s s', lc_inv s = true -> Lifecycle_exec s (LcSupNotifExit) = Some s' -> lc_inv s' = true.
Proof. lc_inv_tac. Qed.
Lemma lc_inv_LcAccept : forall s s', lc_inv s = true -> Lifecycle_exec s (LcAccept) = Some s' -> lc_inv s' = true.
Proof. lc_inv_tac. Qed.
Lemma lc_inv_LcAcceptUp : forall s s', lc_inv s = true -> Lifecycle_exec s (LcAcceptUp) = Some s' -> lc_inv s' = true.
Proof. lc_inv_tac. Qed.
Lemma lc_inv_LcAcceptExit : forall s s', lc_inv s = true -> Lifecycle_exec s (LcAcceptExit) = Some s' -> lc_inv s' = true.
Proof. lc_inv_tac. Qed.
Lemma lc_inv_LcRecvExit : forall (down : bool) s s', lc_inv s = true -> Lifecycle_exec s (LcRecvExit down) = Some s' -> lc_inv s' = true.
Proof. intros down; lc_inv_tac. Qed.
Lemma lc_inv_LcProcExit : forall (down : bool) s s', lc_inv s = true -> Lifecycle_exec s (LcProcExit down) = Some s' -> lc_inv s' = true.
Proof. intros down; lc_inv_tac. Qed.
Lemma lc_inv_LcSelected : forall (lt : bool) s s', lc_inv s = true -> Lifecycle_exec s (LcSelected lt) = Some s' -> lc_inv s' = true.
Proof. intros lt; lc_inv_tac. Qed.
Lemma lc_inv_LcSelectLost : forall s s', lc_inv s = true -> Lifecycle_exec s (LcSelectLost) = Some s' -> lc_inv s' = true.
Proof. lc_inv_tac. Qed.
Lemma lc_inv_LcArmT7 : forall s s', lc_inv s = true -> Lifecycle_exec s (LcArmT7) = Some s' -> lc_inv s' = true.
Proof. lc_inv_tac. Qed.
Lemma lc_inv_LcT7Exit : forall (fire : bool) s s', lc_inv s = true -> Lifecycle_exec s (LcT7Exit fire) = Some s' -> lc_inv s' = true.
Proof. intros fire; lc_inv_tac. Qed.
Lemma lc_inv_LcLtExit : forall (down : bool) s s', lc_inv s = true -> Lifecycle_exec s (LcLtExit down) = Some s' -> lc_inv s' = true.
Proof. intros down; lc_inv_tac. Qed.
Lemma lc_inv_LcSenderExit : forall s s', lc_inv s = true -> Lifecycle_exec s (LcSenderExit) = Some s' -> lc_inv s' = true.
Proof. lc_inv_tac. Qed.
Lemma lc_inv_LcSpuriousDown : forall s s', lc_inv s = true -> Lifecycle_exec s (LcSpuriousDown) = Some s' -> lc_inv s' = true.
Proof. lc_inv_tac. Qed.
Lemma lc_inv_LcJoinStop1 : forall s s', lc_inv s = true -> Lifecycle_exec s (LcJoinStop1) = Some s' -> lc_inv s' = true.
Proof. lc_inv_tac. Qed.
Lemma lc_inv_LcJoinStop2 : forall s s', lc_inv s = true -> Lifecycle_exec s (LcJoinStop2) = Some s' -> lc_inv s' = true.
Proof. lc_inv_tac. Qed.
Lemma lc_inv_LcJoinFinish : forall s s', lc_inv s = true -> Lifecycle_exec s (LcJoinFinish) = Some s' -> lc_inv s' = true.
Proof. lc_inv_tac. Qed.
Lemma lc_inv_LcLWait : forall s s', lc_inv s = true -> Lifecycle_exec s (LcLWait) = Some s' -> lc_inv s' = true.
Proof. lc_inv_tac. Qed.
Lemma lc_inv_LcLSleepDone : forall s s', lc_inv s = true -> Lifecycle_exec s (LcLSleepDone) = Some s' -> lc_inv s' = true.
Proof. lc_inv_tac. Qed.
Lemma lc_inv_LcLSleepCancel : forall s s', lc_inv s = true -> Lifecycle_exec s (LcLSleepCancel) = Some s' -> lc_inv s' = true.
Proof. lc_inv_tac. Qed.
Lemma lc_inv_LcLFenceStep : forall s s', lc_inv s = true -> Lifecycle_exec s (LcLFenceStep) = Some s' -> lc_inv s' = true.
Proof. lc_inv_tac. Qed.
Lemma lc_inv_LcLPublish : forall s s', lc_inv s = true -> Lifecycle_exec s (LcLPublish) = Some s' -> lc_inv s' = true.
Proof. lc_inv_tac. Qed.
Lemma lc_inv_LcLSender : forall s s', lc_inv s = true -> Lifecycle_exec s (LcLSender) = Some s' -> lc_inv s' = true.
Proof. lc_inv_tac. Qed.
Lemma lc_inv_LcLDial : forall (ok : bool) s s', lc_inv s = true -> Lifecycle_exec s (LcLDial ok) = Some s' -> lc_inv s' = true.
Proof. intros ok; lc_inv_tac. Qed.
Lemma lc_inv_LcLListen : forall (ok : bool) s s', lc_inv s = true -> Lifecycle_exec s (LcLListen ok) = Some s' -> lc_inv s' = true.
Proof. intros ok; lc_inv_tac. Qed.
Lemma lc_inv_LcLGate : forall s s', lc_inv s = true -> Lifecycle_exec s (LcLGate) = Some s' -> lc_inv s' = true.
Proof. lc_inv_tac. Qed.
Lemma lc_inv_LcLFailWaited : forall s s', lc_inv s = true -> Lifecycle_exec s (LcLFailWaited) = Some s' -> lc_inv s' = true.
Proof. lc_inv_tac. Qed.
Lemma lc_inv_LcTailInc : forall s s', lc_inv s = true -> Lifecycle_exec s (LcTailInc) = Some s' -> lc_inv s' = true.
Proof. lc_inv_tac. Qed.
Lemma lc_inv_LcTailExit : forall s s', lc_inv s = true -> Lifecycle_exec s (LcTailExit) = Some s' -> lc_inv s' = true.
Proof. lc_inv_tac. Qed.

Theorem lc_inv_step : forall s a s', lc_inv s = true -> Lifecycle_exec s a = Some s' -> lc_inv s' = true.
Proof.
  intros s a s' Hi He. destruct a.
  - eapply lc_inv_LcOpen; eassumption.
  - eapply lc_inv_LcOpen1; eassumption.
  - eapply lc_inv_LcOpen2; eassumption.
  - eapply lc_inv_LcOpen3; eassumption.
  - eapply lc_inv_LcODial; eassumption.
  - eapply lc_inv_LcOListen; eassumption.
  - eapply lc_inv_LcOGate; eassumption.
  - eapply lc_inv_LcOWaitRet; eassumption.
  - eapply lc_inv_LcOColdWait; eassumption.
  - eapply lc_inv_LcOColdSpawn; eassumption.
  - eapply lc_inv_LcOFailReq; eassumption.
  - eapply lc_inv_LcOFailWait; eassumption.
  - eapply lc_inv_LcOFailStop; eassumption.
  - eapply lc_inv_LcOFailJoin; eassumption.
  - eapply lc_inv_LcClose; eassumption.
  - eapply lc_inv_LcClose1; eassumption.
  - eapply lc_inv_LcClose2; eassumption.
  - eapply lc_inv_LcClose3; eassumption.
  - eapply lc_inv_LcClose4; eassumption.
  - eapply lc_inv_LcClose5; eassumption.
  - eapply lc_inv_LcClose6; eassumption.
  - eapply lc_inv_LcClose7; eassumption.
  - eapply lc_inv_LcSupDisc; eassumption.
  - eapply lc_inv_LcSupT7; eassumption.
  - eapply lc_inv_LcSupUpEcho; eassumption.
  - eapply lc_inv_LcSupClose; eassumption.
  - eapply lc_inv_LcSupReact1; eassumption.
  - eapply lc_inv_LcSupReact2; eassumption.
  - eapply lc_inv_LcSupReact3; eassumption.
  - eapply lc_inv_LcSupRunExit; eassumption.
  - eapply lc_inv_LcSupNotifExit; eassumption.
  - eapply lc_inv_LcAccept; eassumption.
  - eapply lc_inv_LcAcceptUp; eassumption.
  - eapply lc_inv_LcAcceptExit; eassumption.
  - eapply lc_inv_LcRecvExit; eassumption.
  - eapply lc_inv_LcProcExit; eassumption.
  - eapply lc_inv_LcSelected; eassumption.
  - eapply lc_inv_LcSelectLost; eassumption.
  - eapply lc_inv_LcArmT7; eassumption.
  - eapply lc_inv_LcT7Exit; eassumption.
  - eapply lc_inv_LcLtExit; eassumption.
  - eapply lc_inv_LcSenderExit; eassumption.
  - eapply lc_inv_LcSpuriousDown; eassumption.
  - eapply lc_inv_LcJoinStop1; eassumption.
  - eapply lc_inv_LcJoinStop2; eassumption.
  - eapply lc_inv_LcJoinFinish; eassumption.
  - eapply lc_inv_LcLWait; eassumption.
  - eapply lc_inv_LcLSleepDone; eassumption.
  - eapply lc_inv_LcLSleepCancel; eassumption.
  - eapply lc_inv_LcLFenceStep; eassumption.
  - eapply lc_inv_LcLPublish; eassumption.
  - eapply lc_inv_LcLSender; eassumption.
  - eapply lc_inv_LcLDial; eassumption.
  - eapply lc_inv_LcLListen; eassumption.
  - eapply lc_inv_LcLGate; eassumption.
  - eapply lc_inv_LcLFailWaited; eassumption.
  - eapply lc_inv_LcTailInc; eassumption.
  - eapply lc_inv_LcTailExit; eassumption.
Qed.
