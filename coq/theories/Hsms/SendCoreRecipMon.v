(** SendCoreRecipMon — every run of the model is accepted by the unique-recipient clause of ok_C06:
    each inbound data frame is returned to at most one caller or delivered to every handler exactly
    once in arrival order, never both; and at every quiescent point each data frame the peer sent
    (outside drop windows) has been returned, delivered to all handlers, absorbed by a waiter of its
    system bytes (duplicate / late reply), or answered with Reject(not selected). *)
From Coq Require Import ZArith Bool List Lia Sorted.
From GoSecs Require Import Hsms.SendCore Hsms.SendCoreMon Hsms.SendCoreInv Hsms.SendCoreInvSteps
  Hsms.SendCoreMonProofs Hsms.SendCoreGate Hsms.SendCoreGateMon.
Import ListNotations.
Open Scope Z_scope.

(** * monotonicity of the two "excuses" along the log *)
Definition frames_le_last (m : mon) : Prop := forall x, In x (m_frames m) -> mf_n x <= m_last m.

Lemma existsb_mono : forall (A : Type) (f g : A -> bool) l,
  (forall a, In a l -> f a = true -> g a = true) -> existsb f l = true -> existsb g l = true.
Proof.
  intros A f g l H E. apply existsb_exists in E. destruct E as (a & IN & F).
  apply existsb_exists. exists a. split; auto.
Qed.

Definition absorber (x : mfr) (c : mcall) : bool :=
  registering (mc_kind c) (mc_msg c) && (f_sys (mc_msg c) =? f_sys (mf_f x)) && (mc_open c || (mf_n x <=? mc_closed_at c)).

Lemma absorbed_alt : forall m x, absorbed m x = is_secondary (mf_f x) && existsb (absorber x) (m_calls m).
Proof. reflexivity. Qed.

Lemma mc_put_exists : forall l y z f, mc_get (mc_id y) l = Some z ->
  (forall c, In c l -> f c = true -> c <> z -> True) ->
  (f z = true -> f y = true) ->
  existsb f l = true -> existsb f (mc_put y l) = true.
Proof.
  induction l as [|d r IH]; cbn; intros y z f G _ HZ E; [discriminate|].
  destruct (mc_id d =? mc_id y) eqn:EQ; cbn.
  - inversion G; subst. apply orb_true_iff in E. destruct E as [E|E]; [rewrite (HZ E); reflexivity|].
    rewrite E. apply orb_true_r.
  - apply orb_true_iff in E. destruct E as [E|E]; [rewrite E; reflexivity|].
    rewrite (IH y z f G (fun _ _ _ _ => I) HZ E). apply orb_true_r.
Qed.

(* mon_upd keeps a frame absorbed (the frame's serial is at most m_last) *)
Lemma absorbed_upd : forall m o x, mf_n x <= m_last m -> absorbed m x = true -> absorbed (mon_upd m o) x = true.
Proof.
  intros m o x LE A. rewrite absorbed_alt in *. apply andb_true_iff in A. destruct A as [A1 A2].
  rewrite A1. cbn [andb].
  destruct o; cbn; auto.
  - (* OStart *) rewrite A2. apply orb_true_r.
  - (* ORet *)
    destruct (mc_get id (m_calls m)) as [c|] eqn:G; [|exact A2].
    apply (mc_put_exists _ _ c); [cbn; exact G | auto | | exact A2].
    unfold absorber. cbn. intros H. apply andb_true_iff in H. destruct H as [H _]. rewrite H. cbn.
    apply Z.leb_le. exact LE.
Qed.

Lemma reject4_after_upd : forall m o x, reject4_after m x = true -> reject4_after (mon_upd m o) x = true.
Proof.
  intros m o x A. unfold reject4_after in *. destruct o; cbn; auto. rewrite A. apply orb_true_r.
Qed.

(** * how one observation changes the monitor's view of a frame *)
Lemma assoc_in : forall l h v, assoc h l = Some v -> In (h, v) l.
Proof.
  induction l as [|[a b] r IH]; cbn; intros h v H; [discriminate|].
  destruct (a =? h) eqn:E; [inversion H; subst; apply Z.eqb_eq in E; subst; auto | right; auto].
Qed.

Definition same_frame (x y : mfr) : Prop := mf_n y = mf_n x /\ mf_f y = mf_f x.

(* observations that leave the frame table alone *)
Definition ftable_same (o : obs) : bool :=
  match o with OStart _ _ _ | OAsyncErr _ _ | OCond _ _ | OMetric _ | OGenUp _ => true | _ => false end.

Lemma ftable_same_upd : forall m o, ftable_same o = true -> m_frames (mon_upd m o) = m_frames m /\ m_hlast (mon_upd m o) = m_hlast m.
Proof. intros m o H. destruct o; try discriminate; cbn; auto. Qed.

Lemma upd_peer_recv_get : forall m g origin f n, NoDup (map mf_n (m_frames m)) ->
  match mf_get n (m_frames m) with
  | Some x => exists y, mf_get n (m_frames (mon_upd m (OPeerRecv g origin f))) = Some y /\ same_frame x y /\
                        mf_used y = mf_used x /\ mf_h y = mf_h x /\ mf_settled y = mf_settled x
  | None => mf_get n (m_frames (mon_upd m (OPeerRecv g origin f))) = None
  end.
Proof.
  intros m g origin f n ND. cbn.
  destruct (is_reject4 f && (origin =? -1)).
  2:{ destruct (mf_get n (m_frames m)) as [x|]; [|reflexivity]. exists x. unfold same_frame. auto. }
  destruct (rej_target (f_sid f) (f_sys f) (m_frames m)) as [t|] eqn:RT.
  2:{ destruct (mf_get n (m_frames m)) as [x|]; [|reflexivity]. exists x. unfold same_frame. auto. }
  pose proof (mf_get_in _ _ ND (rej_target_in _ _ _ _ RT)) as GT.
  rewrite (mf_get_put _ _ t n) by (cbn; exact GT). cbn.
  destruct (n =? mf_n t) eqn:E.
  - apply Z.eqb_eq in E. subst n. rewrite GT. eexists. split; [reflexivity|]. unfold same_frame. cbn. auto.
  - destruct (mf_get n (m_frames m)) as [x|]; [|reflexivity]. exists x. unfold same_frame. auto.
Qed.

Lemma upd_handler_get : forall m h n0 n,
  match mf_get n (m_frames m) with
  | Some x => exists y, mf_get n (m_frames (mon_upd m (OHandler h n0))) = Some y /\ same_frame x y /\
                        mf_used y = mf_used x /\ mf_settled y = mf_settled x /\
                        mf_h y = (if n =? n0 then mf_h x + 1 else mf_h x)
  | None => mf_get n (m_frames (mon_upd m (OHandler h n0))) = None
  end.
Proof.
  intros m h n0 n. cbn.
  destruct (mf_get n0 (m_frames m)) as [t|] eqn:GT.
  2:{ destruct (mf_get n (m_frames m)) as [x|] eqn:GX; [|reflexivity]. exists x. unfold same_frame.
      destruct (n =? n0) eqn:E; [apply Z.eqb_eq in E; subst; congruence | auto 6]. }
  pose proof (mf_get_some _ _ _ GT) as [_ NT].
  rewrite (mf_get_put _ _ t n) by (cbn; rewrite NT; exact GT). cbn. rewrite NT.
  destruct (n =? n0) eqn:E.
  - apply Z.eqb_eq in E. subst n. rewrite GT. eexists. split; [reflexivity|]. unfold same_frame. cbn. auto 6.
  - destruct (mf_get n (m_frames m)) as [x|]; [|reflexivity]. exists x. unfold same_frame. auto 6.
Qed.

Lemma upd_ret_get : forall m id r el n,
  match mf_get n (m_frames m) with
  | Some x => exists y, mf_get n (m_frames (mon_upd m (ORet id r el))) = Some y /\ same_frame x y /\
                        mf_h y = mf_h x /\ mf_settled y = mf_settled x /\
                        mf_used y = (match r with ROk (Some (n0, _)) => if n =? n0 then true else mf_used x | _ => mf_used x end)
  | None => mf_get n (m_frames (mon_upd m (ORet id r el))) = None
  end.
Proof.
  intros m id r el n. cbn.
  assert (D : forall fs, fs = m_frames m ->
              match mf_get n (m_frames m) with
              | Some x => exists y, mf_get n fs = Some y /\ same_frame x y /\ mf_h y = mf_h x /\ mf_settled y = mf_settled x /\ mf_used y = mf_used x
              | None => mf_get n fs = None end).
  { intros fs ->. destruct (mf_get n (m_frames m)) as [x|]; [|reflexivity]. exists x. unfold same_frame. auto 6. }
  destruct r as [[[n0 rf]|]| | | | | | | |]; try (specialize (D _ eq_refl); destruct (mf_get n (m_frames m)); exact D).
  destruct (mf_get n0 (m_frames m)) as [t|] eqn:GT.
  2:{ specialize (D _ eq_refl). destruct (mf_get n (m_frames m)) as [x|] eqn:GX; [|exact D].
      destruct D as (y & A & B & C & E & F). exists y. repeat split; auto; try apply B.
      destruct (n =? n0) eqn:EQ; [apply Z.eqb_eq in EQ; subst; congruence | exact F]. }
  pose proof (mf_get_some _ _ _ GT) as [_ NT].
  rewrite (mf_get_put _ _ t n) by (cbn; rewrite NT; exact GT). cbn. rewrite NT.
  destruct (n =? n0) eqn:E.
  - apply Z.eqb_eq in E. subst n. rewrite GT. eexists. split; [reflexivity|]. unfold same_frame. cbn. auto 6.
  - destruct (mf_get n (m_frames m)) as [x|]; [|reflexivity]. exists x. unfold same_frame. auto 6.
Qed.

Lemma upd_settle_get : forall l n,
  match mf_get n l with
  | Some x => exists y, mf_get n (map settle l) = Some y /\ same_frame x y /\ mf_used y = mf_used x /\ mf_h y = mf_h x /\ mf_settled y = true
  | None => mf_get n (map settle l) = None
  end.
Proof.
  intros l n. rewrite mf_get_settle. destruct (mf_get n l) as [x|]; [|reflexivity].
  eexists. split; [reflexivity|]. unfold same_frame, settle. cbn. auto 6.
Qed.

Lemma same_frame_excuses : forall m x y, same_frame x y ->
  absorbed m y = absorbed m x /\ reject4_after m y = reject4_after m x /\ is_dataframe (mf_f y) = is_dataframe (mf_f x).
Proof.
  intros m x y [N F]. unfold absorbed, reject4_after, absorber. rewrite N, F. auto.
Qed.

(** * coupling for the recipient clause *)
Definition NHz (p : cfg) : Z := Z.of_nat (Z.to_nat (NH p)).
Definition rejq (s : state) (f : frame) : Prop := In (-1, reject_not_selected f) (sendq s).

Definition fate (p : cfg) (s : state) (m : mon) (x : mfr) : Prop :=
  In (mf_n x) (map fst (inq s)) \/
  (mf_used x = true /\ mf_h x = 0) \/
  (mf_used x = false /\ mf_h x = NHz p) \/
  (mf_used x = false /\ mf_h x = 0 /\ (absorbed m x = true \/ reject4_after m x = true \/ rejq s (mf_f x))).

Record RC (p : cfg) (s : state) (m : mon) : Prop := mkRC {
  rc_sorted : StronglySorted Z.lt (map fst (inq s));
  rc_last : m_last m = nsent s;
  rc_h0 : forall n x, pending s n -> mf_get n (m_frames m) = Some x -> mf_h x = 0;
  rc_hlast : forall h n', In (h, n') (m_hlast m) -> n' <= nsent s /\ forall n, In n (map fst (inq s)) -> n' < n;
  rc_fate : forall n x, mf_get n (m_frames m) = Some x -> mf_settled x = false -> is_dataframe (mf_f x) = true -> fate p s m x;
  rc_up : m_up m = true -> sock s = true /\ gcancel s = false /\ fault s = false;
  rc_down : m_up m = false -> forall n x, mf_get n (m_frames m) = Some x -> mf_settled x = true;
  rc_fault : fault s = true -> sock s = true \/ gcancel s = true
}.

Lemma RC_init : forall p c0, RC p (init c0) mon0.
Proof.
  intros p c0. constructor; cbn; intros; try discriminate; try contradiction; try constructor; auto.
Qed.

Lemma fate_transfer : forall p s s' m m' x y,
  fate p s m x -> same_frame x y -> mf_used y = mf_used x -> mf_h y = mf_h x ->
  (In (mf_n x) (map fst (inq s)) -> In (mf_n x) (map fst (inq s'))) ->
  (rejq s (mf_f x) -> rejq s' (mf_f x)) ->
  (absorbed m x = true -> absorbed m' x = true) ->
  (reject4_after m x = true -> reject4_after m' x = true) ->
  fate p s' m' y.
Proof.
  intros p s s' m m' x y F SF U H Q R A J.
  destruct (same_frame_excuses m' x y SF) as (E1 & E2 & _). destruct SF as [N FF].
  unfold fate in *. rewrite N, U, H, E1, E2, FF.
  destruct F as [F|[F|[F|(F1 & F2 & [F3|[F3|F3]])]]]; auto 8.
  - right; right; right. repeat split; auto.
  - right; right; right. repeat split; auto.
Qed.

Section RecipSim.
Variable fx : bool.
Variable p : cfg.
Hypothesis NHpos : 0 <= NH p.
Notation Inv := (Inv fx p).

Lemma NHz_eq : NHz p = NH p.
Proof. unfold NHz. rewrite Z2Nat.id; auto. Qed.

Lemma frames_last : forall s m, Inv s -> Cpl s m -> RC p s m -> forall n x, mf_get n (m_frames m) = Some x -> n <= m_last m /\ 0 < n.
Proof.
  intros s m I C R n x G. destruct (mf_get_some _ _ _ G) as [IN NX].
  assert (S : In (mf_n x, mf_f x) (sent s)).
  { rewrite <- (cp_proj _ _ C). unfold proj. apply in_map_iff. exists x. auto. }
  apply (q_range _ (i_q _ _ _ I)) in S. rewrite (rc_last _ _ _ R). lia.
Qed.

(* model-only changes that keep the queues' contents (possibly growing the async queue) *)
Lemma RC_state : forall s s' m, RC p s m ->
  inq s' = inq s -> nsent s' = nsent s -> (forall n, pending s' n -> pending s n) ->
  (forall f, rejq s f -> rejq s' f) ->
  sock s' = sock s -> gcancel s' = gcancel s -> fault s' = fault s -> RC p s' m.
Proof.
  intros s s' m [R1 R2 R3 R4 R5 R6 R7 R8] EQ EN PD RQ E1 E2 E3.
  constructor; rewrite ?EQ, ?EN, ?E1, ?E2, ?E3; auto.
  - intros n x PN G. eapply R3; eauto.
  - intros n x G ST DF. specialize (R5 n x G ST DF).
    eapply fate_transfer; eauto; try (unfold same_frame; auto); rewrite ?EQ; auto.
Qed.

(* monitor-only changes that leave the frame table, m_last, m_up alone and only add calls / seen frames *)
Lemma RC_obs_plain : forall s m o, Inv s -> Cpl s m -> RC p s m ->
  (ftable_same o = true /\ (forall g, o <> OGenUp g)) -> RC p s (mon_upd m o).
Proof.
  intros s m o I C R [FS NU].
  destruct (ftable_same_upd m o FS) as [EF EH].
  assert (EL : m_last (mon_upd m o) = m_last m) by (destruct o; try discriminate; reflexivity).
  assert (EU : m_up (mon_upd m o) = m_up m).
  { destruct o; try discriminate; try reflexivity. exfalso. eapply NU; reflexivity. }
  pose proof (frames_last _ _ I C R) as FL.
  destruct R as [R1 R2 R3 R4 R5 R6 R7 R8].
  constructor; rewrite ?EF, ?EH, ?EL, ?EU; auto.
  intros n x G ST DF. specialize (R5 n x G ST DF).
  assert (AM : absorbed m x = true -> absorbed (mon_upd m o) x = true).
  { intros A. apply absorbed_upd; [|exact A]. destruct (mf_get_some _ _ _ G) as [_ NX]. rewrite NX. apply (FL n x G). }
  assert (JM : reject4_after m x = true -> reject4_after (mon_upd m o) x = true) by apply reject4_after_upd.
  eapply fate_transfer; eauto; unfold same_frame; auto.
Qed.

(* the peer saw one more frame: only the reject bookkeeping and the list of seen frames change *)
Lemma RC_obs_recv : forall s m g o f, Inv s -> Cpl s m -> RC p s m -> RC p s (mon_upd m (OPeerRecv g o f)).
Proof.
  intros s m g o f I C R.
  pose proof (Cpl_nodup fx p _ _ C I) as ND.
  pose proof (frames_last _ _ I C R) as FL.
  assert (GET : forall n y, mf_get n (m_frames (mon_upd m (OPeerRecv g o f))) = Some y ->
                exists x, mf_get n (m_frames m) = Some x /\ same_frame x y /\ mf_used y = mf_used x /\ mf_h y = mf_h x /\ mf_settled y = mf_settled x).
  { intros n y G. pose proof (upd_peer_recv_get m g o f n ND) as U.
    destruct (mf_get n (m_frames m)) as [x|]; [|congruence].
    destruct U as (y' & A & B). rewrite A in G. inversion G; subst y'. exists x. auto. }
  destruct R as [R1 R2 R3 R4 R5 R6 R7 R8].
  constructor; auto.
  - intros n y PN G. destruct (GET n y G) as (x & Gx & _ & _ & H & _). rewrite H. eauto.
  - intros n y G ST DF. destruct (GET n y G) as (x & Gx & SF & U & H & SE).
    destruct (same_frame_excuses m x y SF) as (_ & _ & ED).
    rewrite SE in ST. rewrite ED in DF. specialize (R5 n x Gx ST DF).
    assert (AM : absorbed m x = true -> absorbed (mon_upd m (OPeerRecv g o f)) x = true).
    { intros A. apply absorbed_upd; [|exact A]. destruct (mf_get_some _ _ _ Gx) as [_ NX]. rewrite NX. apply (FL n x Gx). }
    assert (JM : reject4_after m x = true -> reject4_after (mon_upd m (OPeerRecv g o f)) x = true) by apply reject4_after_upd.
    eapply fate_transfer; eauto.
  - intros UP n y G. destruct (GET n y G) as (x & Gx & _ & _ & _ & SE). rewrite SE. eapply R7; eauto.
Qed.

(* everything the peer sent so far is settled (barrier passed, or a drop began) *)
Lemma RC_obs_settle : forall s m m', RC p s m ->
  m_frames m' = map settle (m_frames m) -> m_hlast m' = m_hlast m -> m_last m' = m_last m ->
  (m_up m' = true -> m_up m = true) -> RC p s m'.
Proof.
  intros s m m' [R1 R2 R3 R4 R5 R6 R7 R8] EF EH EL EU.
  assert (GET : forall n y, mf_get n (m_frames m') = Some y ->
                exists x, mf_get n (m_frames m) = Some x /\ mf_h y = mf_h x /\ mf_settled y = true).
  { intros n y G. rewrite EF in G. pose proof (upd_settle_get (m_frames m) n) as U.
    destruct (mf_get n (m_frames m)) as [x|]; [|congruence].
    destruct U as (y' & A & _ & _ & H & SE). rewrite A in G. inversion G; subst y'. exists x. auto. }
  constructor; rewrite ?EH, ?EL; auto.
  - intros n y PN G. destruct (GET n y G) as (x & Gx & H & _). rewrite H. eauto.
  - intros n y G ST. destruct (GET n y G) as (x & _ & _ & SE). congruence.
  - intros _ n y G. destruct (GET n y G) as (x & _ & _ & SE). exact SE.
Qed.

Lemma step_call_misc : forall s c ch s' os, step_call fx p s c ch = Some (s', os) ->
  fault s' = fault s /\ (forall f, rejq s f -> rejq s' f).
Proof.
  intros s c ch s' os H. unfold step_call, finish in H. unfold rejq.
  destruct (c_pc c) eqn:PC; destruct ch; try discriminate;
    repeat match type of H with
           | (if ?b then _ else _) = _ => destruct b eqn:?
           | match ?x with _ => _ end = _ => destruct x eqn:?
           end; try discriminate; inversion H; subst; clear H; cbn; auto.
  - destruct (c_gen c =? gen s); cbn; split; auto. intros f IN. apply in_or_app. auto.
  - destruct (needs_reg c); cbn; auto.
Qed.

Lemma RC_obs_ret : forall s m id r el, Inv s -> Cpl s m -> RC p s m ->
  (forall n0 rf, r = ROk (Some (n0, rf)) -> pending s n0) ->
  RC p s (mon_upd m (ORet id r el)).
Proof.
  intros s m id r el I C R PN.
  pose proof (frames_last _ _ I C R) as FL.
  assert (GET : forall n y, mf_get n (m_frames (mon_upd m (ORet id r el))) = Some y ->
                exists x, mf_get n (m_frames m) = Some x /\ same_frame x y /\ mf_h y = mf_h x /\ mf_settled y = mf_settled x /\
                  mf_used y = (match r with ROk (Some (n0, _)) => if n =? n0 then true else mf_used x | _ => mf_used x end)).
  { intros n y G. pose proof (upd_ret_get m id r el n) as U.
    destruct (mf_get n (m_frames m)) as [x|]; [|congruence].
    destruct U as (y' & A & B). rewrite A in G. inversion G; subst y'. exists x. auto. }
  assert (EL : m_last (mon_upd m (ORet id r el)) = m_last m) by reflexivity.
  assert (EH : m_hlast (mon_upd m (ORet id r el)) = m_hlast m) by reflexivity.
  assert (EU : m_up (mon_upd m (ORet id r el)) = m_up m) by reflexivity.
  destruct R as [R1 R2 R3 R4 R5 R6 R7 R8].
  constructor; rewrite ?EL, ?EH, ?EU; auto.
  - intros n y P G. destruct (GET n y G) as (x & Gx & _ & H & _). rewrite H. eauto.
  - intros n y G ST DF. destruct (GET n y G) as (x & Gx & SF & H & SE & U).
    destruct (same_frame_excuses m x y SF) as (_ & _ & ED).
    rewrite SE in ST. rewrite ED in DF. pose proof (R5 n x Gx ST DF) as F.
    assert (AM : absorbed m x = true -> absorbed (mon_upd m (ORet id r el)) x = true).
    { intros A. apply absorbed_upd; [|exact A]. destruct (mf_get_some _ _ _ Gx) as [_ NX]. rewrite NX. apply (FL n x Gx). }
    assert (JM : reject4_after m x = true -> reject4_after (mon_upd m (ORet id r el)) x = true) by apply reject4_after_upd.
    assert (PLAIN : mf_used y = mf_used x -> fate p s (mon_upd m (ORet id r el)) y).
    { intros UE. eapply fate_transfer; eauto. }
    destruct r as [[[n0 rf]|]| | | | | | | |]; try (apply PLAIN; exact U).
    destruct (n =? n0) eqn:E; [|apply PLAIN; exact U].
    apply Z.eqb_eq in E. subst n0.
    right. left. split; [exact U|]. rewrite H. eapply R3; eauto.
  - intros UP n y G. destruct (GET n y G) as (x & Gx & _ & _ & SE & _). rewrite SE. eapply R7; eauto.
Qed.

Lemma recip_step_sim : forall s c ch s' os m,
  Inv s -> Cpl s m -> RC p s m -> get (c_id c) (calls s) = Some c ->
  step_call fx p s c ch = Some (s', os) ->
  mon_run (chk_recip p) m os = true /\ RC p s' (fold_left mon_upd os m).
Proof.
  intros s c ch s' os m I C R Gc H.
  destruct (step_shape fx p _ _ _ _ _ H) as (c' & EC & EI & EK & EM & ES & EQ & EN & HH & NDc & SO).
  destruct (step_call_st fx p _ _ _ _ _ H) as (_ & _ & _ & E1 & E2 & _).
  destruct (step_call_misc _ _ _ _ _ H) as (E3 & RQ).
  pose proof (put_pending_rel _ _ _ _ Gc EC EI EQ HH) as PR.
  pose proof (i_calls _ _ _ I _ _ Gc) as OK.
  assert (ST : forall m1, RC p s m1 -> RC p s' m1) by (intros m1 R1; eapply RC_state; eauto).
  inversion SO; subst.
  - split; [reflexivity | apply ST; exact R].
  - split; [reflexivity|]. cbn [fold_left]. apply ST. apply RC_obs_recv; auto.
  - (* return through the exit path *)
    rename H0 into PX. rename H1 into PD.
    pose proof (ck_exit _ _ _ _ OK _ PX) as RO.
    assert (PN : forall n0 rf, r = ROk (Some (n0, rf)) -> pending s n0).
    { intros n0 rf ->. right. exists (c_id c), c. split; auto. right. exists rf. exact PX. }
    split.
    + cbn. rewrite andb_true_r. destruct r as [[[n0 rf]|]| | | | | | | |]; try reflexivity.
      cbn in RO. destruct RO as ((A1 & _) & _).
      destruct (Cpl_frame fx p _ _ _ _ C I A1) as (x & GX & _ & _). rewrite GX.
      apply Z.eqb_eq. eapply (rc_h0 _ _ _ R); eauto.
    + cbn [fold_left]. apply ST. apply RC_obs_ret; auto.
  - (* direct return *)
    rename H0 into PD. rename H1 into DR.
    assert (NS : forall n0 rf, r <> ROk (Some (n0, rf))).
    { intros n0 rf X. subst r. destruct DR as [(_ & X & _)|[(_ & X & _)|(_ & [X|[X|X]])]]; discriminate. }
    split.
    + cbn. rewrite andb_true_r. destruct r as [[[n0 rf]|]| | | | | | | |]; try reflexivity. exfalso. eapply NS; eauto.
    + cbn [fold_left]. apply ST. apply RC_obs_ret; auto. intros n0 rf X. exfalso. eapply NS; eauto.
Qed.

(** ** the handler fan-out *)
Definition fan_rel (n : Z) (m m' : mon) : Prop :=
  m_calls m' = m_calls m /\ m_recv m' = m_recv m /\ m_last m' = m_last m /\ m_up m' = m_up m /\
  (forall h' l, In (h', l) (m_hlast m') -> In (h', l) (m_hlast m) \/ l = n) /\
  (forall n' y, mf_get n' (m_frames m') = Some y ->
     exists x, mf_get n' (m_frames m) = Some x /\ same_frame x y /\ mf_used y = mf_used x /\
               mf_settled y = mf_settled x /\ (n' <> n -> mf_h y = mf_h x)) /\
  map mf_n (m_frames m') = map mf_n (m_frames m).

Lemma fan_rel_refl : forall n m, fan_rel n m m.
Proof.
  intros n m. repeat split; auto. intros n' y G. exists y. unfold same_frame. auto 6.
Qed.

Lemma fan_rel_trans : forall n m1 m2 m3, fan_rel n m1 m2 -> fan_rel n m2 m3 -> fan_rel n m1 m3.
Proof.
  intros n m1 m2 m3 (A1 & A2 & A3 & A4 & A5 & A6 & A7) (B1 & B2 & B3 & B4 & B5 & B6 & B7).
  repeat split; try congruence.
  - intros h' l IN. destruct (B5 h' l IN) as [X|X]; auto.
  - intros n' z G. destruct (B6 n' z G) as (y & Gy & (S1 & S2) & U & SE & H).
    destruct (A6 n' y Gy) as (x & Gx & (T1 & T2) & U' & SE' & H').
    exists x. split; [exact Gx|]. unfold same_frame. repeat split; try congruence.
    intros NE. rewrite (H NE). auto.
Qed.

Lemma mf_put_ns : forall l y x, mf_get (mf_n y) l = Some x -> map mf_n (mf_put y l) = map mf_n l.
Proof.
  induction l as [|d r IH]; cbn; intros y x G; [reflexivity|].
  destruct (mf_n d =? mf_n y) eqn:E; cbn.
  - apply Z.eqb_eq in E. rewrite E. reflexivity.
  - f_equal. eauto.
Qed.

Lemma fan_step : forall m h n, fan_rel n m (mon_upd m (OHandler h n)).
Proof.
  intros m h n. repeat split; try reflexivity.
  - intros h' l [E|IN]; [inversion E; auto | auto].
  - intros n' y G. pose proof (upd_handler_get m h n n') as U.
    destruct (mf_get n' (m_frames m)) as [x|]; [|congruence].
    destruct U as (y' & A & SF & UU & SE & HH). rewrite A in G. inversion G; subst y'.
    exists x. repeat split; auto; try apply SF.
    intros NE. rewrite HH. destruct (n' =? n) eqn:E; [apply Z.eqb_eq in E; contradiction | reflexivity].
  - cbn. destruct (mf_get n (m_frames m)) as [t|] eqn:GT; [|reflexivity].
    pose proof (mf_get_some _ _ _ GT) as [_ NT]. eapply mf_put_ns. cbn. rewrite NT. exact GT.
Qed.

Lemma fanout_run : forall k h m n,
  (exists x, mf_get n (m_frames m) = Some x /\ is_dataframe (mf_f x) = true /\ mf_used x = false /\ mf_h x = h) ->
  0 <= h -> h + Z.of_nat k <= NH p ->
  (forall h' l, In (h', l) (m_hlast m) -> l < n \/ (l = n /\ h' < h)) ->
  mon_run (chk_recip p) m (handler_obs k h n) = true /\
  fan_rel n m (fold_left mon_upd (handler_obs k h n) m) /\
  exists x', mf_get n (m_frames (fold_left mon_upd (handler_obs k h n) m)) = Some x' /\
             is_dataframe (mf_f x') = true /\ mf_used x' = false /\ mf_h x' = h + Z.of_nat k.
Proof.
  induction k as [|k IH]; intros h m n (x & GX & DF & US & HX) H0 HB HL.
  - cbn. split; [reflexivity|]. split; [apply fan_rel_refl|]. exists x. rewrite Z.add_0_r. auto.
  - cbn [handler_obs mon_run fold_left].
    assert (CHK : chk_recip p m (OHandler h n) = true).
    { cbn. rewrite GX, DF, US, HX. rewrite Z.eqb_refl. cbn.
      replace (0 <=? h) with true by (symmetry; apply Z.leb_le; lia).
      replace (h <? NH p) with true by (symmetry; apply Z.ltb_lt; lia). cbn.
      destruct (assoc h (m_hlast m)) as [l|] eqn:AS; [|reflexivity].
      apply assoc_in in AS. destruct (HL h l AS) as [X|[_ X]]; [apply Z.ltb_lt; exact X | lia]. }
    rewrite CHK. cbn [andb].
    pose proof (upd_handler_get m h n n) as U. rewrite GX in U. destruct U as (y & GY & SF & UU & SE & HH).
    rewrite Z.eqb_refl in HH.
    destruct (IH (h + 1) (mon_upd m (OHandler h n)) n) as (M & FR & x' & GX' & DF' & US' & HX').
    + exists y. destruct (same_frame_excuses m x y SF) as (_ & _ & ED). repeat split; try congruence.
    + lia.
    + lia.
    + intros h' l [E|IN]; [inversion E; subst; right; split; [reflexivity | lia]|].
      destruct (HL h' l IN) as [X|[X1 X2]]; [auto | right; split; [auto | lia]].
    + split; [exact M|]. split.
      * eapply fan_rel_trans; [apply fan_step | exact FR].
      * exists x'. repeat split; auto. rewrite HX'. lia.
Qed.

(** ** what dispatching one frame does, by class *)
Inductive dclass (s0 s1 : state) (n : Z) (f : frame) : list obs -> Prop :=
  | dc_other : is_dataframe f = false -> dclass s0 s1 n f []
  | dc_reject : is_dataframe f = true -> selected s0 = false -> rejq s1 f -> calls s1 = calls s0 -> dclass s0 s1 n f []
  | dc_offer : forall id, is_dataframe f = true -> is_secondary f = true ->
      reg_get (gen s0) (f_sys f) (reg s0) = Some id -> s1 = offer s0 id (CMsg n f) -> dclass s0 s1 n f []
  | dc_dead : is_dataframe f = true -> gcancel s0 = true -> calls s1 = calls s0 -> dclass s0 s1 n f []
  | dc_fan : is_dataframe f = true -> gcancel s0 = false -> calls s1 = calls s0 ->
      dclass s0 s1 n f (handler_obs (Z.to_nat (NH p)) 0 n).

Lemma dispatch_infra : forall s0 n f s1 os, dispatch p s0 n f = (s1, os) ->
  inq s1 = inq s0 /\ nsent s1 = nsent s0 /\ sock s1 = sock s0 /\ gcancel s1 = gcancel s0 /\ fault s1 = fault s0 /\
  (forall x, In x (sendq s0) -> In x (sendq s1)).
Proof.
  intros s0 n f s1 os H. unfold dispatch in H.
  assert (OF : forall id r, inq (offer s0 id r) = inq s0 /\ nsent (offer s0 id r) = nsent s0 /\ sock (offer s0 id r) = sock s0 /\
                            gcancel (offer s0 id r) = gcancel s0 /\ fault (offer s0 id r) = fault s0 /\
                            (forall x, In x (sendq s0) -> In x (sendq (offer s0 id r)))).
  { intros id r. unfold offer. destruct (get id (calls s0)) as [c|]; [destruct (c_chan c)|]; cbn; auto 7. }
  repeat match type of H with
         | (if ?b then _ else _) = _ => destruct b eqn:?
         | match ?x with _ => _ end = _ => destruct x eqn:?
         end; inversion H; subst; clear H;
    try (apply OF);
    try (cbn; repeat split; auto; intros; apply in_or_app; auto; fail).
  all: try (destruct (OF z (CMsg n f)) as (A1 & A2 & A3 & A4 & A5 & A6); cbn; repeat split; auto; fail).
Qed.

Lemma dispatch_class : forall s0 n f s1 os, dispatch p s0 n f = (s1, os) -> dclass s0 s1 n f os.
Proof.
  intros s0 n f s1 os H. unfold dispatch in H. unfold is_dataframe.
  destruct (f_pt f =? 0) eqn:PT; cbn [negb orb andb] in *.
  2:{ inversion H; subst. apply dc_other. unfold is_dataframe. rewrite PT. reflexivity. }
  destruct (valid_stype (f_st f)) eqn:VS; cbn [negb] in H.
  2:{ inversion H; subst. apply dc_other. unfold is_dataframe. rewrite PT. cbn.
      destruct (f_st f =? 0) eqn:Z0; [|reflexivity]. apply Z.eqb_eq in Z0. rewrite Z0 in VS. discriminate. }
  destruct (f_st f =? 0) eqn:ST0; cbn [negb andb] in H.
  - assert (DF : is_dataframe f = true) by (unfold is_dataframe; rewrite PT, ST0; reflexivity).
    destruct (negb (selected s0)) eqn:SEL.
    + inversion H; subst. apply dc_reject; auto.
      * apply negb_true_iff in SEL. exact SEL.
      * unfold rejq. cbn. apply in_or_app. right. left. reflexivity.
    + destruct (is_secondary f) eqn:SEC.
      * destruct (reg_get (gen s0) (f_sys f) (reg s0)) as [id|] eqn:RG.
        -- inversion H; subst. eapply dc_offer; eauto.
        -- destruct (gcancel s0) eqn:GC; inversion H; subst; [apply dc_dead | apply dc_fan]; auto.
      * destruct (gcancel s0) eqn:GC; inversion H; subst; [apply dc_dead | apply dc_fan]; auto.
  - assert (DF : is_dataframe f = false) by (unfold is_dataframe; rewrite PT, ST0; reflexivity).
    assert (OS : os = []).
    { repeat match type of H with
             | (if ?b then _ else _) = _ => destruct b eqn:?
             | match ?x with _ => _ end = _ => destruct x eqn:?
             end; inversion H; reflexivity. }
    subst os. apply dc_other. exact DF.
Qed.

Lemma sorted_head_lt : forall n l, StronglySorted Z.lt (n :: l) -> StronglySorted Z.lt l /\ forall k, In k l -> n < k.
Proof.
  intros n l H. inversion H; subst. split; auto. intros k IN. rewrite Forall_forall in H3. auto.
Qed.

(* the head of the inbound queue has been dispatched *)
Lemma RC_pop_fan : forall s s1 m m' n f q,
  RC p s m -> inq s = (n, f) :: q ->
  inq s1 = q -> nsent s1 = nsent s -> sock s1 = sock s -> gcancel s1 = gcancel s -> fault s1 = fault s ->
  (forall g, rejq s g -> rejq s1 g) -> (forall k, pending s1 k -> pending s k) ->
  fan_rel n m m' -> n <= nsent s ->
  (pending s1 n -> forall y, mf_get n (m_frames m') = Some y -> mf_h y = 0) ->
  (forall y, mf_get n (m_frames m') = Some y -> mf_settled y = false -> is_dataframe (mf_f y) = true -> fate p s1 m' y) ->
  RC p s1 m'.
Proof.
  intros s s1 m m' n f q [R1 R2 R3 R4 R5 R6 R7 R8] EQ E0 EN E1 E2 E3 RQ PD (A1 & A2 & A3 & A4 & A5 & A6 & A7) NLE HN FN.
  rewrite EQ in R1. cbn in R1. destruct (sorted_head_lt _ _ R1) as [SQ HLT].
  constructor; rewrite ?E0, ?EN, ?E1, ?E2, ?E3, ?A3, ?A4; auto.
  - intros k y PK G. destruct (Z.eq_dec k n) as [->|NE]; [eauto|].
    destruct (A6 k y G) as (x & Gx & _ & _ & _ & H). rewrite (H NE). eapply R3; eauto.
  - intros h' l IN. destruct (A5 h' l IN) as [X| ->].
    + destruct (R4 h' l X) as [B1 B2]. split; [exact B1|]. intros k INk. apply B2. rewrite EQ. right. exact INk.
    + split; [exact NLE | exact HLT].
  - intros k y G ST DF. destruct (Z.eq_dec k n) as [->|NE]; [eauto|].
    destruct (A6 k y G) as (x & Gx & SF & U & SE & H). specialize (H NE).
    destruct (same_frame_excuses m x y SF) as (_ & _ & ED). rewrite SE in ST. rewrite ED in DF.
    pose proof (R5 k x Gx ST DF) as F.
    assert (AM : absorbed m x = true -> absorbed m' x = true) by (unfold absorbed; rewrite A1; auto).
    assert (JM : reject4_after m x = true -> reject4_after m' x = true) by (unfold reject4_after; rewrite A2; auto).
    eapply fate_transfer; eauto.
    destruct (mf_get_some _ _ _ Gx) as [_ NX]. rewrite NX, EQ, E0. cbn. intros [X|X]; [congruence | exact X].
  - intros UP k y G. destruct (A6 k y G) as (x & Gx & _ & _ & SE & _). rewrite SE. eapply R7; eauto.
Qed.

Lemma chk_recip_plain : forall m o, match o with OHandler _ _ | ORet _ _ _ | OBarrier => False | _ => True end ->
  chk_recip p m o = true.
Proof. intros m o H. destruct o; try contradiction; reflexivity. Qed.

Lemma recip_exec_sim : forall s a s' os m,
  Inv s -> Cpl s m -> RC p s m -> benign fx p s a = true -> exec fx p s a = Some (s', os) ->
  mon_run (chk_recip p) m os = true /\ RC p s' (fold_left mon_upd os m).
Proof.
  intros s a s' os m I C R B H.
  destruct a.
  - (* AStart *)
    cbn in H. destruct (get id (calls s)) eqn:Gid; [discriminate|].
    destruct (id <? 0); [discriminate|].
    destruct (negb (f_st f =? 0) && negb (kind_eqb k KCtl)); [discriminate|].
    destruct ((f_st f =? 0) && kind_eqb k KCtl); [discriminate|].
    inversion H; subst; clear H. split; [reflexivity|]. cbn [fold_left].
    eapply RC_state.
    + apply RC_obs_plain; eauto. split; [reflexivity | intros; discriminate].
    + destruct (libkey k); reflexivity.
    + destruct (libkey k); reflexivity.
    + intros n [Hn|(j & d & Gd & Hd)].
      * left. destruct (libkey k); exact Hn.
      * assert (E : calls (if libkey k then w_ctr s (ctr s + 1) else s) = calls s) by (destruct (libkey k); reflexivity).
        cbn [calls w_calls] in Gd. rewrite E in Gd. cbn in Gd. destruct (id =? j).
        -- inversion Gd; subst d. destruct Hd as [[g Hd]|[g Hd]]; cbn in Hd; discriminate.
        -- right. eauto.
    + intros g. unfold rejq. destruct (libkey k); auto.
    + destruct (libkey k); reflexivity.
    + destruct (libkey k); reflexivity.
    + destruct (libkey k); reflexivity.
  - (* AStep *)
    cbn in H. destruct (get id (calls s)) as [c0|] eqn:Gc; [|discriminate].
    pose proof (get_id _ _ _ Gc) as E. subst id. exact (recip_step_sim s c0 c s' os m I C R Gc H).
  - (* ACancel *)
    cbn in H. destruct (get id (calls s)) as [c0|] eqn:Gc; [|discriminate].
    inversion H; subst; clear H. split; [reflexivity|]. cbn.
    pose proof (get_id _ _ _ Gc) as E. subst id.
    eapply RC_state; eauto.
    intros n [Hn|(j & d & Gd & Hd)]; [left; exact Hn|]. right. cbn in Gd.
    assert (G' : get (c_id (set_ctx c0 true)) (calls s) = Some c0) by exact Gc.
    destruct (get_put_inv _ _ _ _ _ G' Gd) as [[-> ->]|[Ne Gd']].
    + exists (c_id c0), c0. split; auto.
    + exists j, d. auto.
  - (* ADrain *)
    cbn in H. destruct (sendq s) as [|[o f] q] eqn:SQ; [discriminate|].
    pose proof (frames_last _ _ I C R) as FL.
    (* the popped entry may be the queued reject of some frames: it reaches the peer, or the generation is down *)
    assert (POP : forall m1 (seen : bool), RC p s m1 ->
              (seen = true -> forall n x, mf_get n (m_frames m1) = Some x -> (o, f) = (-1, reject_not_selected (mf_f x)) -> reject4_after m1 x = true) ->
              (seen = false -> (f_st f = 0 \/ m_up m1 = false)) ->
              RC p (w_sendq s q) m1).
    { intros m1 seen [R1 R2 R3 R4 R5 R6 R7 R8] SEEN NOTSEEN.
      constructor; cbn; auto.
      intros n x G ST DF. pose proof (R5 n x G ST DF) as F.
      unfold fate in *. cbn.
      destruct F as [F|[F|[F|(F1 & F2 & [F3|[F3|F3]])]]]; auto 8.
      right; right; right. split; [exact F1|]. split; [exact F2|].
      unfold rejq in F3. rewrite SQ in F3. destruct F3 as [F3|F3].
      - destruct seen eqn:SE.
        + right; left. apply (SEEN eq_refl n x G F3).
        + destruct (NOTSEEN eq_refl) as [Z0|DOWN].
          * inversion F3; subst f. cbn in Z0. discriminate.
          * rewrite (R7 DOWN n x G) in ST. discriminate.
      - right; right. exact F3. }
    destruct (negb (wr_ok s (gen s))) eqn:W.
    { inversion H; subst; clear H. split; [reflexivity|]. cbn [fold_left].
      assert (R1 : RC p s (mon_upd m (OAsyncErr o RConnClosed))) by (apply RC_obs_plain; auto; split; [reflexivity | intros; discriminate]).
      apply (POP _ false R1); [discriminate|]. intros _. right. cbn.
      destruct (m_up m) eqn:UP; [|reflexivity]. exfalso.
      destruct (rc_up _ _ _ R UP) as (A1 & A2 & A3). unfold wr_ok in W. rewrite Z.eqb_refl, A1, A2 in W. discriminate. }
    destruct ((f_st f =? 0) && negb (selected s)) eqn:B2.
    { inversion H; subst; clear H. split; [reflexivity|]. cbn [fold_left].
      assert (R1 : RC p s (mon_upd m (OAsyncErr o RNotSelected))) by (apply RC_obs_plain; auto; split; [reflexivity | intros; discriminate]).
      eapply (RC_state (w_sendq s q)); try reflexivity; auto.
      apply (POP _ false R1); [discriminate|]. intros _. left.
      apply andb_true_iff in B2. destruct B2 as [B2 _]. apply Z.eqb_eq. exact B2. }
    destruct ok.
    { inversion H; subst; clear H. split; [reflexivity|]. cbn [fold_left].
      assert (R1 : RC p s (mon_upd m (OPeerRecv (gen s) o f))) by (apply RC_obs_recv; auto).
      apply (POP _ true R1); [|discriminate].
      intros _ n y G E. inversion E; subst o f.
      pose proof (Cpl_nodup fx p _ _ C I) as ND.
      pose proof (upd_peer_recv_get m (gen s) (-1) (reject_not_selected (mf_f y)) n ND) as U.
      destruct (mf_get n (m_frames m)) as [x|] eqn:Gx; [|congruence].
      destruct U as (y' & A & (SN & SF) & _). rewrite A in G. inversion G; subst y'.
      unfold reject4_after. cbn. rewrite !Z.eqb_refl. cbn.
      assert (LE : mf_n y <= m_last m).
      { rewrite SN. destruct (mf_get_some _ _ _ Gx) as [_ NX]. rewrite NX. apply (FL n x Gx). }
      apply Z.leb_le in LE. rewrite LE. reflexivity. }
    destruct (fault s) eqn:FT; [|discriminate].
    inversion H; subst; clear H. split; [reflexivity|]. cbn [fold_left].
    assert (R1 : RC p s (mon_upd m (OAsyncErr o RWriteErr))) by (apply RC_obs_plain; auto; split; [reflexivity | intros; discriminate]).
    apply (POP _ false R1); [discriminate|]. intros _. right. cbn.
    destruct (m_up m) eqn:UP; [|reflexivity]. exfalso.
    destruct (rc_up _ _ _ R UP) as (A1 & A2 & A3). congruence.
  - (* APeer *)
    cbn in H. destruct (sock s) eqn:SK; [|discriminate]. inversion H; subst; clear H.
    split; [reflexivity|]. cbn [fold_left].
    pose proof (frames_last _ _ I C R) as FL.
    destruct R as [R1 R2 R3 R4 R5 R6 R7 R8].
    assert (INQ : forall k, In k (map fst (inq s)) -> k <= nsent s).
    { intros k IN. apply in_map_iff in IN. destruct IN as ([k' g] & E & IN). cbn in E. subst k'.
      apply (q_sub _ (i_q _ _ _ I)) in IN. apply (q_range _ (i_q _ _ _ I)) in IN. lia. }
    assert (GETN : forall k y, mf_get k (m_frames (mon_upd m (OPeerSent (nsent s + 1) f))) = Some y ->
              (k = nsent s + 1 /\ y = mkMF (nsent s + 1) f false 0 false (negb (m_up m)) (m_stable m) (m_cseq m) (m_psel m && ((f_st f =? 0) && (f_pt f =? 0)))) \/
              (k <> nsent s + 1 /\ mf_get k (m_frames m) = Some y)).
    { intros k y G. cbn in G. destruct (nsent s + 1 =? k) eqn:E.
      - apply Z.eqb_eq in E. left. inversion G. auto.
      - apply Z.eqb_neq in E. right. auto. }
    constructor; cbn.
    + rewrite map_app. cbn. clear -R1 INQ. induction (map fst (inq s)) as [|a l IH]; cbn.
      * constructor; constructor.
      * inversion R1; subst. constructor.
        -- apply IH; auto. intros k IN. apply INQ. right. exact IN.
        -- rewrite Forall_forall in *. intros k IN. apply in_app_or in IN. destruct IN as [IN|[<-|[]]]; auto.
           specialize (INQ a (or_introl eq_refl)). lia.
    + reflexivity.
    + intros k y PK G. destruct (GETN k y G) as [[-> ->]|[NE G']]; [reflexivity|].
      apply (R3 k y); auto. destruct PK as [PK|PK]; [|right; exact PK]. left. cbn in PK. rewrite map_app in PK.
      apply in_app_or in PK. destruct PK as [PK|[PK|[]]]; [exact PK | cbn in PK; congruence].
    + intros h n' IN. destruct (R4 h n' IN) as [B1 B2]. split; [lia|].
      intros k INk. rewrite map_app in INk. apply in_app_or in INk. destruct INk as [INk|[<-|[]]]; auto. cbn. lia.
    + intros k y G ST DF. destruct (GETN k y G) as [[-> ->]|[NE G']].
      * left. cbn. rewrite map_app. apply in_or_app. right. left. reflexivity.
      * pose proof (R5 k y G' ST DF) as F.
        assert (AM : absorbed m y = true -> absorbed (mon_upd m (OPeerSent (nsent s + 1) f)) y = true) by (unfold absorbed; cbn; auto).
        assert (JM : reject4_after m y = true -> reject4_after (mon_upd m (OPeerSent (nsent s + 1) f)) y = true) by (unfold reject4_after; cbn; auto).
        eapply fate_transfer; eauto; unfold same_frame; auto.
        cbn. rewrite map_app. intros X. apply in_or_app. auto.
    + intros UP. destruct (R6 UP) as (A1 & A2 & A3). auto.
    + intros UP k y G. destruct (GETN k y G) as [[-> ->]|[NE G']]; [cbn; rewrite UP; reflexivity | eauto].
    + auto.
  - (* ADispatch *)
    cbn in H. destruct (inq s) as [|[n f] q] eqn:EQ; [discriminate|].
    destruct (dispatch p (w_inq s q) n f) as [s1 o1] eqn:D. inversion H; subst s' os; clear H.
    destruct (Inv_pop fx p _ _ _ _ I EQ) as (I0 & SN & NQ & FR).
    destruct (dispatch_infra _ _ _ _ _ D) as (B1 & B2 & B3 & B4 & B5 & B6).
    pose proof (dispatch_class _ _ _ _ _ D) as DC.
    destruct (dispatch_rel _ _ _ _ _ _ D) as (_ & _ & _ & OFFD).
    destruct (Cpl_frame fx p _ _ _ _ C I SN) as (x & GX & FX & _).
    assert (PN : pending s n) by (left; rewrite EQ; left; reflexivity).
    assert (HX : mf_h x = 0) by (eapply (rc_h0 _ _ _ R); eauto).
    assert (UX : mf_used x = false).
    { pose proof (cp_unused _ _ C n PN) as U. unfold uview in U. rewrite GX in U. cbn in U.
      destruct (mf_used x); [exfalso; apply U; reflexivity | reflexivity]. }
    assert (NLE : n <= nsent s) by (apply (q_range _ (i_q _ _ _ I)) in SN; lia).
    assert (PD : forall k, pending s1 k -> pending s k).
    { intros k [Hk|(j & d & Gd & Hd)].
      - left. rewrite B1 in Hk. cbn in Hk. rewrite EQ. right. exact Hk.
      - destruct OFFD as [E|(c & r & Gc & CH & E & RN)]; rewrite E in Gd.
        + right. exists j, d. auto.
        + cbn in Gd, Gc.
          assert (G' : get (c_id (set_chan c (Some r))) (calls s) = Some c) by exact Gc.
          destruct (get_put_inv _ _ _ _ _ G' Gd) as [[-> ->]|[Ne Gd']].
          * destruct Hd as [[g Hd]|[g Hd]]; cbn in Hd.
            -- inversion Hd; subst r. rewrite (RN k g eq_refl). exact PN.
            -- right. exists (c_id c), c. split; auto. right. exists g. exact Hd.
          * right. exists j, d. auto. }
    assert (RQ : forall g, rejq s g -> rejq s1 g) by (intros g X; apply B6; exact X).
    assert (POPM : forall m', fan_rel n m m' ->
               (pending s1 n -> forall y, mf_get n (m_frames m') = Some y -> mf_h y = 0) ->
               (forall y, mf_get n (m_frames m') = Some y -> mf_settled y = false -> is_dataframe (mf_f y) = true -> fate p s1 m' y) ->
               RC p s1 m').
    { intros m' FRL HN FN. eapply (RC_pop_fan s s1 m m' n f q); eauto. }
    assert (SAMEM : (pending s1 n -> forall y, mf_get n (m_frames m) = Some y -> mf_h y = 0)).
    { intros _ y G. rewrite GX in G. inversion G; subst y. exact HX. }
    inversion DC; try subst o1.
    + (* not a data frame *)
      split; [reflexivity|]. cbn. apply POPM; [apply fan_rel_refl | exact SAMEM|].
      intros y G ST DF. rewrite GX in G. inversion G; subst y. rewrite FX in DF. congruence.
    + (* not selected: Reject(4) queued *)
      split; [reflexivity|]. cbn. apply POPM; [apply fan_rel_refl | exact SAMEM|].
      intros y G ST DF. rewrite GX in G. inversion G; subst y.
      right; right; right. repeat split; auto. right; right. rewrite FX. assumption.
    + (* offered to the waiter registered under its system bytes *)
      split; [reflexivity|]. cbn. apply POPM; [apply fan_rel_refl | exact SAMEM|].
      intros y G ST DF. rewrite GX in G. inversion G; subst y.
      right; right; right. repeat split; auto. left.
      match goal with RG : reg_get _ _ _ = Some ?i |- _ =>
        destruct (i_reg _ _ _ I0 _ _ _ RG) as (d & Gd & D1 & D2 & D3 & D4) end.
      assert (NDd : forall r, c_pc d <> PDone r) by (intros r X; apply registered_not in D4; destruct D4 as (_ & _ & _ & _ & ND); eapply ND; eauto).
      destruct (cp_calls _ _ C _ _ Gd NDd) as (mc & GM & MK & MM & MO).
      unfold absorbed. rewrite FX. match goal with SEC : is_secondary f = true |- _ => rewrite SEC end. cbn.
      apply existsb_exists. exists mc. split; [eapply mc_get_in; eauto|].
      unfold registering. rewrite MK, MM. unfold needs_reg in D3.
      rewrite MO. rewrite D2. rewrite Z.eqb_refl. rewrite andb_true_r. cbn. rewrite andb_true_r.
      destruct (c_kind d); try discriminate; auto.
    + (* teardown already began: the generation is down, the frame is unconstrained *)
      split; [reflexivity|]. cbn. apply POPM; [apply fan_rel_refl | exact SAMEM|].
      intros y G ST DF. rewrite GX in G. inversion G; subst y. exfalso.
      destruct (m_up m) eqn:UP.
      * destruct (rc_up _ _ _ R UP) as (_ & A2 & _). cbn in *. congruence.
      * rewrite (rc_down _ _ _ R UP n x GX) in ST. discriminate.
    + (* fan-out to every handler *)
      assert (FO : mon_run (chk_recip p) m (handler_obs (Z.to_nat (NH p)) 0 n) = true /\
                   fan_rel n m (fold_left mon_upd (handler_obs (Z.to_nat (NH p)) 0 n) m) /\
                   exists x', mf_get n (m_frames (fold_left mon_upd (handler_obs (Z.to_nat (NH p)) 0 n) m)) = Some x' /\
                              is_dataframe (mf_f x') = true /\ mf_used x' = false /\ mf_h x' = 0 + Z.of_nat (Z.to_nat (NH p))).
      { apply fanout_run.
        - exists x. rewrite FX. auto.
        - lia.
        - rewrite Z2Nat.id; auto. lia.
        - intros h' l IN. left. destruct (rc_hlast _ _ _ R h' l IN) as [_ LT]. apply LT. rewrite EQ. left. reflexivity. }
      destruct FO as (M & FRL & x' & GX' & DF' & US' & HX').
      split; [exact M|]. apply POPM; auto.
      * intros [Hq|(j & d & Gd & Hd)].
        -- exfalso. rewrite B1 in Hq. exact (NQ Hq).
        -- exfalso. match goal with E : calls s1 = calls _ |- _ => rewrite E in Gd end. eapply FR; eauto.
      * intros y G ST DF. rewrite GX' in G. inversion G; subst y.
        right; right; left. split; [exact US'|]. rewrite HX'. unfold NHz. lia.
  - (* ATick *)
    cbn in H. destruct (0 <=? d); [|discriminate]. inversion H; subst. split; [reflexivity|]. cbn.
    eapply RC_state; eauto.
  - (* ANewGen *)
    cbn in H. destruct (cstate_eqb (st s) NC && (negb (opened s) || gcancel s)); [|discriminate].
    inversion H; subst; clear H. split; [reflexivity|]. cbn [fold_left].
    assert (RS : RC p s (mon_upd m (OGenDown (gen s)))) by (eapply RC_obs_settle; eauto; cbn; discriminate).
    destruct RS as [R1 R2 R3 R4 R5 R6 R7 R8].
    constructor; cbn; try discriminate; auto.
    + constructor.
    + intros n x PN G. apply (R3 n x); auto. destruct PN as [[]|PN]. right. exact PN.
    + intros h n' IN. destruct (R4 h n' IN) as [B1 _]. split; [exact B1 | intros n []].
    + intros n x G ST. cbn in R7. rewrite (R7 eq_refl n x G) in ST. discriminate.
  - (* AConnUp *)
    cbn in H. destruct (opened s && negb (sock s) && negb (gcancel s) && cstate_eqb (st s) NC) eqn:GD; [|discriminate].
    inversion H; subst; clear H. split; [reflexivity|]. cbn [fold_left].
    apply andb_true_iff in GD. destruct GD as [GD _]. apply andb_true_iff in GD. destruct GD as [GD G2].
    apply andb_true_iff in GD. destruct GD as [_ G1]. apply negb_true_iff in G1. apply negb_true_iff in G2.
    destruct R as [R1 R2 R3 R4 R5 R6 R7 R8].
    assert (DOWN : m_up m = false).
    { destruct (m_up m) eqn:UP; [|reflexivity]. destruct (R6 eq_refl) as (A1 & _). congruence. }
    assert (NF : fault s = false).
    { destruct (fault s) eqn:FT; [|reflexivity]. destruct (R8 eq_refl); congruence. }
    constructor; cbn; auto. discriminate.
  - (* ASupDown *)
    cbn in H. destruct (opened s); [|discriminate]. inversion H; subst; clear H.
    split; [reflexivity|]. cbn [fold_left].
    eapply (RC_state s); try reflexivity; auto.
    eapply RC_obs_settle; eauto; cbn; discriminate.
  - (* ATeardown *)
    cbn in H. destruct (opened s); [|discriminate]. inversion H; subst; clear H.
    split; [reflexivity|]. cbn [fold_left].
    assert (RS : RC p s (mon_upd m (OGenDown (gen s)))) by (eapply RC_obs_settle; eauto; cbn; discriminate).
    destruct RS as [R1 R2 R3 R4 R5 R6 R7 R8].
    constructor; cbn; try discriminate; auto.
  - (* AFault *)
    cbn in H. destruct (sock s) eqn:SK; [|discriminate]. inversion H; subst; clear H.
    split; [reflexivity|]. cbn [fold_left].
    assert (RS : RC p s (mon_upd m (OGenDown (gen s)))) by (eapply RC_obs_settle; eauto; cbn; discriminate).
    destruct RS as [R1 R2 R3 R4 R5 R6 R7 R8].
    constructor; cbn; try discriminate; auto.
  - (* ABarrier *)
    cbn in H. destruct (inq s) eqn:EQ; [|discriminate]. destruct (sendq s) eqn:SQ; [|discriminate].
    inversion H; subst; clear H. split.
    + cbn. rewrite andb_true_r. apply forallb_forall. intros x IN.
      pose proof (Cpl_nodup fx p _ _ C I) as ND.
      pose proof (mf_get_in _ _ ND IN) as G.
      unfold settle_ok. destruct (mf_settled x) eqn:ST; [reflexivity|]. cbn.
      destruct (is_dataframe (mf_f x)) eqn:DF; [|reflexivity]. cbn.
      pose proof (rc_fate _ _ _ R _ _ G ST DF) as F. rewrite <- NHz_eq.
      destruct F as [F|[(F1 & F2)|[(F1 & F2)|(F1 & F2 & [F3|[F3|F3]])]]].
      * rewrite EQ in F. contradiction.
      * rewrite F1, F2. reflexivity.
      * rewrite F1, F2, Z.eqb_refl. cbn. rewrite ?orb_true_r. reflexivity.
      * rewrite F1, F2, F3. cbn. rewrite ?orb_true_r. reflexivity.
      * rewrite F1, F2, F3. cbn. rewrite ?orb_true_r. reflexivity.
      * unfold rejq in F3. rewrite SQ in F3. contradiction.
    + cbn [fold_left]. eapply RC_obs_settle; eauto.
  - (* ACond *)
    cbn in H. destruct (inq s), (sendq s); try discriminate. inversion H; subst. split; [reflexivity|].
    cbn [fold_left]. apply RC_obs_plain; auto. split; [reflexivity | intros; discriminate].
  - (* AMetric *)
    cbn in H. destruct (sendq s); [|discriminate]. destruct (forallb _ (calls s)); [|discriminate].
    inversion H; subst. split; [reflexivity|].
    cbn [fold_left]. apply RC_obs_plain; auto. split; [reflexivity | intros; discriminate].
Qed.

Theorem recip_run_sim : forall acts s s' os m,
  Inv s -> Cpl s m -> RC p s m -> all_benign fx p s acts = true -> run fx p s acts = Some (s', os) ->
  mon_run (chk_recip p) m os = true /\ RC p s' (fold_left mon_upd os m).
Proof.
  induction acts as [|a r IH]; cbn; intros s s' os m I C R B H.
  - inversion H; subst. cbn. auto.
  - apply andb_true_iff in B. destruct B as [B1 B2].
    destruct (exec fx p s a) as [[s1 o1]|] eqn:E; [|discriminate].
    destruct (run fx p s1 r) as [[s2 o2]|] eqn:RR; [|discriminate].
    inversion H; subst.
    destruct (recip_exec_sim _ _ _ _ m I C R B1 E) as [M1 R1].
    destruct (exec_sim fx p _ _ _ _ m I C B1 E) as [_ C1].
    assert (I1 : Inv s1) by (eapply exec_inv; eauto).
    destruct (IH _ _ _ _ I1 C1 R1 B2 RR) as (M2 & R2).
    rewrite mon_run_app, fold_left_app. rewrite M1, M2. auto.
Qed.

End RecipSim.

(** * C06 unique recipient: all runs are accepted (both step functions; any non-negative handler count) *)
Theorem recip_all_runs : forall fx p acts c0 s os,
  0 <= NH p -> all_benign fx p (init c0) acts = true ->
  run fx p (init c0) acts = Some (s, os) -> mon_run (chk_recip p) mon0 os = true.
Proof.
  intros fx p acts c0 s os NHpos B H.
  destruct (recip_run_sim fx p NHpos acts (init c0) s os mon0 (Inv_init fx p c0) (Cpl_init c0) (RC_init p c0) B H) as (M & _).
  exact M.
Qed.
