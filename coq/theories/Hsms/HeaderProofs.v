(** Proofs about Hsms/Header.v: big-endian packing, E37 header layout of every factory,
    Q3 validation, accessors, re-stamping. *)
From Coq Require Import ZArith Bool List Lia ZifyBool.
From GoSecs Require Import Hsms.Header.
Import ListNotations.
Open Scope Z_scope.

Ltac Zify.zify_post_hook ::= Z.div_mod_to_equations.

(** ** finite sweeps over bytes *)
Definition zrange (n : nat) : list Z := map Z.of_nat (seq 0 n).
Lemma in_zrange n x : 0 <= x < Z.of_nat n -> In x (zrange n).
Proof.
  intros H. unfold zrange. apply in_map_iff. exists (Z.to_nat x). split; [lia|].
  apply in_seq. lia.
Qed.
Lemma sweep (P : Z -> bool) (n : nat) :
  forallb P (zrange n) = true -> forall x, 0 <= x < Z.of_nat n -> P x = true.
Proof. intros H x Hx. rewrite forallb_forall in H. apply H, in_zrange, Hx. Qed.

(** ** big-endian round trips *)
Lemma be16_de16 a b : byte_ok a -> byte_ok b -> be16 (de16 a b) = [a; b].
Proof. unfold byte_ok, be16, de16. intros. f_equal; [|f_equal]; lia. Qed.
Lemma de16_be16 v : 0 <= v < 65536 -> de16 ((v / 256) mod 256) (v mod 256) = v.
Proof. unfold de16. lia. Qed.
Lemma de16_range a b : byte_ok a -> byte_ok b -> 0 <= de16 a b < 65536.
Proof. unfold byte_ok, de16. lia. Qed.

Lemma be32_de32 a b c d :
  byte_ok a -> byte_ok b -> byte_ok c -> byte_ok d -> be32 (de32 a b c d) = [a; b; c; d].
Proof. unfold byte_ok, be32, de32. intros. repeat (f_equal; try lia). Qed.
Lemma de32_be32 v :
  0 <= v < 4294967296 ->
  de32 ((v / 16777216) mod 256) ((v / 65536) mod 256) ((v / 256) mod 256) (v mod 256) = v.
Proof. unfold de32. lia. Qed.
Lemma de32_range a b c d :
  byte_ok a -> byte_ok b -> byte_ok c -> byte_ok d -> 0 <= de32 a b c d < 4294967296.
Proof. unfold byte_ok, de32. lia. Qed.
Lemma be32_bytes_ok v : bytes_ok (be32 v).
Proof. unfold bytes_ok, be32, byte_ok. repeat constructor; lia. Qed.
Lemma be32_length v : length (be32 v) = 4%nat.
Proof. reflexivity. Qed.
Lemma de32_inj a b c d a' b' c' d' :
  byte_ok a -> byte_ok b -> byte_ok c -> byte_ok d ->
  byte_ok a' -> byte_ok b' -> byte_ok c' -> byte_ok d' ->
  de32 a b c d = de32 a' b' c' d' -> a = a' /\ b = b' /\ c = c' /\ d = d'.
Proof. unfold byte_ok, de32. lia. Qed.

Lemma system_bytes_roundtrip id :
  0 <= id < 4294967296 -> from_system_bytes (to_system_bytes id) = id.
Proof. intros. unfold from_system_bytes, to_system_bytes. apply de32_be32; assumption. Qed.
Lemma to_system_bytes_from a b c d :
  byte_ok a -> byte_ok b -> byte_ok c -> byte_ok d ->
  to_system_bytes (from_system_bytes (a, b, c, d)) = (a, b, c, d).
Proof.
  intros. unfold to_system_bytes, from_system_bytes.
  pose proof (be32_de32 a b c d ltac:(assumption) ltac:(assumption) ltac:(assumption) ltac:(assumption)) as E.
  unfold be32 in E. injection E as -> -> -> ->. reflexivity.
Qed.

(** ** header <-> 10 bytes *)
Lemma hdr_bytes_length h : length (hdr_bytes h) = 10%nat.
Proof. reflexivity. Qed.
Lemma hdr_split_bytes h rest : hdr_split (hdr_bytes h ++ rest) = Some (h, rest).
Proof. destruct h; reflexivity. Qed.
Lemma hdr_split_inv l h rest : hdr_split l = Some (h, rest) -> l = hdr_bytes h ++ rest.
Proof.
  unfold hdr_split. do 10 (destruct l as [|? l]; [discriminate|]).
  intros E. injection E as <- <-. reflexivity.
Qed.
Lemma hdr_split_none l : hdr_split l = None <-> len l < 10.
Proof.
  unfold hdr_split, len.
  do 10 (destruct l as [|? l]; [cbn; split; [lia|reflexivity]|]).
  split; [discriminate|]. cbn [length]. lia.
Qed.

(** ** bit packing of byte 2: W-bit is bit 7, stream the low seven bits *)
Lemma land127_small x : 0 <= x < 128 -> Z.land x 127 = x.
Proof.
  intros H. apply Z.eqb_eq.
  apply (sweep (fun x => Z.land x 127 =? x) 128); [vm_compute; reflexivity|exact H].
Qed.
Lemma lor128_small x : 0 <= x < 128 -> Z.lor x 128 = x + 128.
Proof.
  intros H. apply Z.eqb_eq.
  apply (sweep (fun x => Z.lor x 128 =? x + 128) 128); [vm_compute; reflexivity|exact H].
Qed.
Lemma land127_byte b : 0 <= b < 256 -> Z.land b 127 = b mod 128.
Proof.
  intros H. apply Z.eqb_eq.
  apply (sweep (fun b => Z.land b 127 =? b mod 128) 256); [vm_compute; reflexivity|exact H].
Qed.
Lemma shiftr7_byte b : 0 <= b < 256 -> Z.shiftr b 7 = b / 128.
Proof.
  intros H. apply Z.eqb_eq.
  apply (sweep (fun b => Z.shiftr b 7 =? b / 128) 256); [vm_compute; reflexivity|exact H].
Qed.

(** every byte-2 value splits uniquely into (W, stream) *)
Lemma byte2_split b : byte_ok b ->
  stream_of (put_b2 hdr_zero b) = b mod 128 /\
  wait_bit (put_b2 hdr_zero b) = (128 <=? b) /\
  b = (if wait_bit (put_b2 hdr_zero b) then 128 else 0) + stream_of (put_b2 hdr_zero b).
Proof.
  intros H. unfold stream_of, wait_bit, byte_ok in *. cbn [put_b2 h2 hdr_zero].
  rewrite land127_byte, shiftr7_byte by exact H.
  repeat split; try lia.
  destruct (b / 128 =? 0) eqn:E; cbn [negb]; lia.
Qed.

(** ** NewDataMessage *)
Definition data_args_ok (stream fn sid : Z) (sb : Z * Z * Z * Z) : Prop :=
  let '(a, b, c, d) := sb in
  0 <= stream < 256 /\ 0 <= fn < 256 /\ 0 <= sid < 65536 /\
  byte_ok a /\ byte_ok b /\ byte_ok c /\ byte_ok d.

(** Construction rejects exactly the invalid combinations, with the error class per cause in the
    order the code tests them. *)
Lemma new_data_message_err stream fn w sid sb it e :
  new_data_message stream fn w sid sb it = Err e <->
  (e = EStream /\ stream > 127) \/
  (e = EItem /\ stream <= 127 /\ it = ItemErr) \/
  (e = ERspW /\ stream <= 127 /\ it <> ItemErr /\ w = true /\ fn mod 2 = 0).
Proof.
  unfold new_data_message, MAX_STREAM.
  destruct (stream >? 127) eqn:S.
  - split.
    + intros E. injection E as <-. left. split; [reflexivity|lia].
    + intros [[-> _]|[[_ [H _]]|[_ [H _]]]]; [reflexivity|lia|lia].
  - destruct it as [|enc|].
    + destruct w; cbn [andb].
      * destruct (fn mod 2 =? 0) eqn:F.
        -- split.
           ++ intros E. injection E as <-. right. right. repeat split; try lia; discriminate.
           ++ intros [[_ H]|[[_ [_ H]]|[-> _]]]; [lia|discriminate|reflexivity].
        -- split; [discriminate|].
           intros [[_ H]|[[_ [_ H]]|[_ [_ [_ [_ H]]]]]]; [lia|discriminate|lia].
      * split; [discriminate|].
        intros [[_ H]|[[_ [_ H]]|[_ [_ [_ [H _]]]]]]; [lia|discriminate|discriminate].
    + destruct w; cbn [andb].
      * destruct (fn mod 2 =? 0) eqn:F.
        -- split.
           ++ intros E. injection E as <-. right. right. repeat split; try lia; discriminate.
           ++ intros [[_ H]|[[_ [_ H]]|[-> _]]]; [lia|discriminate|reflexivity].
        -- split; [discriminate|].
           intros [[_ H]|[[_ [_ H]]|[_ [_ [_ [_ H]]]]]]; [lia|discriminate|lia].
      * split; [discriminate|].
        intros [[_ H]|[[_ [_ H]]|[_ [_ [_ [H _]]]]]]; [lia|discriminate|discriminate].
    + split.
      * intros E. injection E as <-. right. left. repeat split; lia.
      * intros [[_ H]|[[-> _]|[_ [_ [H _]]]]]; [lia|reflexivity|congruence].
Qed.

Lemma new_data_message_rejects_iff stream fn w sid sb it :
  (exists e, new_data_message stream fn w sid sb it = Err e) <->
  stream > 127 \/ it = ItemErr \/ (w = true /\ fn mod 2 = 0).
Proof.
  split.
  - intros [e E]. apply new_data_message_err in E.
    destruct E as [[_ H]|[[_ [_ H]]|[_ [_ [_ [H1 H2]]]]]]; auto.
  - intros H.
    destruct (Z_gt_le_dec stream 127) as [S|S].
    + exists EStream. apply new_data_message_err. left. auto.
    + destruct it as [|enc|].
      * destruct H as [H|[H|[H1 H2]]]; [lia|discriminate|].
        exists ERspW. apply new_data_message_err. right. right. repeat split; auto; discriminate.
      * destruct H as [H|[H|[H1 H2]]]; [lia|discriminate|].
        exists ERspW. apply new_data_message_err. right. right. repeat split; auto; discriminate.
      * exists EItem. apply new_data_message_err. right. left. auto.
Qed.

(** E37 layout of a constructed data message: every field at its offset. *)
Lemma new_data_message_layout stream fn w sid a b c d it m :
  data_args_ok stream fn sid (a, b, c, d) ->
  new_data_message stream fn w sid (a, b, c, d) it = Ok m ->
  hdr_bytes (d_hdr m) =
    [sid / 256; sid mod 256; (if w then 128 else 0) + stream; fn; 0; 0; a; b; c; d] /\
  d_body m = item_body it /\ stream <= 127.
Proof.
  intros (Hs & Hf & Hsid & _) E. unfold new_data_message, MAX_STREAM in E.
  destruct (stream >? 127) eqn:S; [discriminate|].
  assert (Hs' : 0 <= stream < 128) by lia.
  assert (Hsid' : (sid / 256) mod 256 = sid / 256) by lia.
  destruct it as [|enc|]; [| |discriminate];
    (destruct (w && (fn mod 2 =? 0)); [discriminate|]; injection E as <-;
     cbn [d_hdr d_body hdr_bytes put_sys put_b3 put_b2 put_sid hdr_zero h0 h1 h2 h3 h4 h5 h6 h7 h8 h9 item_body];
     rewrite land127_small by exact Hs'; rewrite Hsid';
     split; [|split; [reflexivity|lia]];
     destruct w; [rewrite lor128_small by exact Hs'; replace (stream + 128) with (128 + stream) by lia; reflexivity|reflexivity]).
Qed.

Lemma new_data_message_hdr_ok stream fn w sid a b c d it m :
  data_args_ok stream fn sid (a, b, c, d) ->
  new_data_message stream fn w sid (a, b, c, d) it = Ok m -> hdr_ok (d_hdr m).
Proof.
  intros A E. pose proof A as (Hs & Hf & Hsid & Ha & Hb & Hc & Hd).
  destruct (new_data_message_layout _ _ _ _ _ _ _ _ _ _ A E) as (L & _ & S).
  unfold hdr_ok. rewrite L. unfold bytes_ok, byte_ok in *.
  repeat constructor; try lia; destruct w; lia.
Qed.

(** the accessors read back what was put in *)
Lemma new_data_message_accessors stream fn w sid a b c d it m :
  data_args_ok stream fn sid (a, b, c, d) ->
  new_data_message stream fn w sid (a, b, c, d) it = Ok m ->
  session_id (d_hdr m) = sid /\ stream_of (d_hdr m) = stream /\ wait_bit (d_hdr m) = w /\
  function_of (d_hdr m) = fn /\ ptype_of (d_hdr m) = 0 /\ stype_of (d_hdr m) = 0 /\
  system_bytes (d_hdr m) = (a, b, c, d).
Proof.
  intros A E. pose proof A as (Hs & Hf & Hsid & Ha & Hb & Hc & Hd).
  destruct (new_data_message_layout _ _ _ _ _ _ _ _ _ _ A E) as (L & _ & S).
  destruct (d_hdr m) as [x0 x1 x2 x3 x4 x5 x6 x7 x8 x9]. cbn [hdr_bytes h0 h1 h2 h3 h4 h5 h6 h7 h8 h9] in L.
  injection L as -> -> -> -> -> -> -> -> -> ->.
  unfold session_id, stream_of, wait_bit, function_of, ptype_of, stype_of, system_bytes, de16.
  cbn [h0 h1 h2 h3 h4 h5 h6 h7 h8 h9].
  assert (B2 : 0 <= (if w then 128 else 0) + stream < 256) by (destruct w; lia).
  rewrite land127_byte, shiftr7_byte by exact B2.
  repeat split; try lia; destruct w; lia.
Qed.

(** ** control factories: E37 layout *)
Lemma sid_hi sid : 0 <= sid < 65536 -> (sid / 256) mod 256 = sid / 256.
Proof. lia. Qed.
Lemma ctrl_req_layout st sid a b c d reply :
  0 <= sid < 65536 ->
  hdr_bytes (c_hdr (ctrl_req st sid (a, b, c, d) reply)) = [sid / 256; sid mod 256; 0; 0; 0; st; a; b; c; d].
Proof.
  intros H. unfold ctrl_req.
  cbn [c_hdr hdr_bytes put_sys put_st put_sid hdr_zero h0 h1 h2 h3 h4 h5 h6 h7 h8 h9].
  rewrite (sid_hi sid H). reflexivity.
Qed.

Lemma linktest_req_layout a b c d :
  hdr_bytes (c_hdr (new_linktest_req (a, b, c, d))) = [255; 255; 0; 0; 0; 5; a; b; c; d].
Proof. reflexivity. Qed.

Lemma rsp_of_layout req st status :
  hdr_bytes (c_hdr (rsp_of req st status)) =
  [h0 (c_hdr req); h1 (c_hdr req); 0; status; 0; st; h6 (c_hdr req); h7 (c_hdr req); h8 (c_hdr req); h9 (c_hdr req)].
Proof. reflexivity. Qed.

Lemma select_rsp_iff req status :
  (exists r, new_select_rsp req status = Some r) <-> h5 (c_hdr req) = 1.
Proof.
  unfold new_select_rsp, ctrl_type, ST_SELECT_REQ, ST_UNDEFINED.
  destruct (valid_stype (h5 (c_hdr req))) eqn:V.
  - destruct (h5 (c_hdr req) =? 1) eqn:E; split; intros H; try (eexists; reflexivity); try lia.
    destruct H; discriminate.
  - split; [intros [r H]; discriminate|].
    intros H. rewrite H in V. discriminate.
Qed.
Lemma deselect_rsp_iff req status :
  (exists r, new_deselect_rsp req status = Some r) <-> h5 (c_hdr req) = 3.
Proof.
  unfold new_deselect_rsp, ctrl_type, ST_DESELECT_REQ, ST_UNDEFINED.
  destruct (valid_stype (h5 (c_hdr req))) eqn:V.
  - destruct (h5 (c_hdr req) =? 3) eqn:E; split; intros H; try (eexists; reflexivity); try lia.
    destruct H; discriminate.
  - split; [intros [r H]; discriminate|].
    intros H. rewrite H in V. discriminate.
Qed.
Lemma linktest_rsp_iff req :
  (exists r, new_linktest_rsp req = Some r) <-> h5 (c_hdr req) = 5.
Proof.
  unfold new_linktest_rsp, ctrl_type, ST_LINKTEST_REQ, ST_UNDEFINED.
  destruct (valid_stype (h5 (c_hdr req))) eqn:V.
  - destruct (h5 (c_hdr req) =? 5) eqn:E; split; intros H; try (eexists; reflexivity); try lia.
    destruct H; discriminate.
  - split; [intros [r H]; discriminate|].
    intros H. rewrite H in V. discriminate.
Qed.

Lemma reject_raw_layout sid pt st a b c d reason :
  0 <= sid < 65536 ->
  hdr_bytes (c_hdr (new_reject_req_raw sid pt st (a, b, c, d) reason)) =
  [sid / 256; sid mod 256; (if reason =? 2 then pt else st); reason; 0; 7; a; b; c; d].
Proof.
  intros H. unfold new_reject_req_raw, REJECT_PTYPE_NOT_SUPPORTED, ST_REJECT_REQ.
  cbn [c_hdr hdr_bytes put_sys put_st put_sid put_b2 put_b3 hdr_zero h0 h1 h2 h3 h4 h5 h6 h7 h8 h9].
  rewrite (sid_hi sid H). reflexivity.
Qed.

Lemma reject_req_layout m reason :
  hdr_ok (msg_hdr m) ->
  hdr_bytes (c_hdr (new_reject_req m reason)) =
  [h0 (msg_hdr m); h1 (msg_hdr m);
   (if msg_type m =? 0 then 0 else if reason =? 2 then h4 (msg_hdr m) else h5 (msg_hdr m));
   reason; 0; 7; h6 (msg_hdr m); h7 (msg_hdr m); h8 (msg_hdr m); h9 (msg_hdr m)].
Proof.
  intros H. unfold new_reject_req, REJECT_PTYPE_NOT_SUPPORTED, ST_REJECT_REQ, ST_DATA, session_id, system_bytes, de16.
  unfold hdr_ok, bytes_ok in H. cbn [hdr_bytes] in H.
  inversion H as [|? ? B0 H']; subst. inversion H' as [|? ? B1 _]; subst.
  unfold byte_ok in *.
  cbn [c_hdr hdr_bytes put_sys put_st put_sid put_b2 put_b3 hdr_zero h0 h1 h2 h3 h4 h5 h6 h7 h8 h9].
  replace ((h0 (msg_hdr m) * 256 + h1 (msg_hdr m)) / 256 mod 256) with (h0 (msg_hdr m)) by lia.
  replace ((h0 (msg_hdr m) * 256 + h1 (msg_hdr m)) mod 256) with (h1 (msg_hdr m)) by lia.
  reflexivity.
Qed.

(** ** re-stamping touches only its own header bytes *)
Lemma put_sid_bytes h id :
  0 <= id < 65536 ->
  hdr_bytes (put_sid h id) = [id / 256; id mod 256] ++ skipn 2 (hdr_bytes h).
Proof.
  intros H. destruct h as [x0 x1 x2 x3 x4 x5 x6 x7 x8 x9]. unfold put_sid, hdr_bytes. cbn [h0 h1 h2 h3 h4 h5 h6 h7 h8 h9 skipn app].
  rewrite (sid_hi id H). reflexivity.
Qed.
Lemma put_sys_bytes h a b c d :
  hdr_bytes (put_sys h (a, b, c, d)) = firstn 6 (hdr_bytes h) ++ [a; b; c; d].
Proof. destruct h. reflexivity. Qed.

(** the effect of a whole chain: the last session-id stamp and the last system-bytes stamp win,
    nothing else moves *)
Definition sid_bytes_of (s : stamp) (cur : Z * Z) : Z * Z :=
  match s with SetSid id => ((id / 256) mod 256, id mod 256) | _ => cur end.
Definition sys_bytes_of (s : stamp) (cur : Z * Z * Z * Z) : Z * Z * Z * Z :=
  match s with SetSys sb => sb | SetId id => to_system_bytes id | SetSid _ => cur end.
Definition chain_sid (ss : list stamp) (cur : Z * Z) : Z * Z := fold_left (fun c s => sid_bytes_of s c) ss cur.
Definition chain_sys (ss : list stamp) cur : Z * Z * Z * Z := fold_left (fun c s => sys_bytes_of s c) ss cur.

Definition stamp_hdr (h : hdr) (s : stamp) : hdr :=
  match s with
  | SetSid id => put_sid h id
  | SetSys sb => put_sys h sb
  | SetId id => put_sys h (to_system_bytes id)
  end.

Lemma stamp_msg_hdr m s : msg_hdr (stamp_msg m s) = stamp_hdr (msg_hdr m) s.
Proof. destruct m, s; reflexivity. Qed.
Lemma stamp_msg_body m s : msg_body (stamp_msg m s) = msg_body m.
Proof. destruct m, s; reflexivity. Qed.
Lemma stamp_msg_kind m s :
  match m, stamp_msg m s with
  | MData _, MData _ => True
  | MCtrl c, MCtrl c' => c_reply c' = c_reply c
  | _, _ => False
  end.
Proof. destruct m, s; cbn; auto. Qed.

Lemma stamp_hdr_fields h s :
  let h' := stamp_hdr h s in
  (h0 h', h1 h') = sid_bytes_of s (h0 h, h1 h) /\
  h2 h' = h2 h /\ h3 h' = h3 h /\ h4 h' = h4 h /\ h5 h' = h5 h /\
  (h6 h', h7 h', h8 h', h9 h') = sys_bytes_of s (h6 h, h7 h, h8 h, h9 h).
Proof.
  destruct h, s as [id|[[[a b] c] d]|id]; cbn; repeat split; reflexivity.
Qed.

Lemma stamp_chain_hdr : forall ss m,
  let h := msg_hdr m in
  let h' := msg_hdr (stamp_chain m ss) in
  (h0 h', h1 h') = chain_sid ss (h0 h, h1 h) /\
  h2 h' = h2 h /\ h3 h' = h3 h /\ h4 h' = h4 h /\ h5 h' = h5 h /\
  (h6 h', h7 h', h8 h', h9 h') = chain_sys ss (h6 h, h7 h, h8 h, h9 h) /\
  msg_body (stamp_chain m ss) = msg_body m.
Proof.
  induction ss as [|s ss IH]; intros m.
  - cbn. repeat split; reflexivity.
  - cbn zeta. unfold stamp_chain, chain_sid, chain_sys. cbn [fold_left].
    specialize (IH (stamp_msg m s)). cbn zeta in IH.
    unfold stamp_chain, chain_sid, chain_sys in IH.
    destruct IH as (I01 & I2 & I3 & I4 & I5 & I69 & IB).
    pose proof (stamp_hdr_fields (msg_hdr m) s) as F. cbn zeta in F.
    rewrite <- stamp_msg_hdr in F.
    destruct F as (F01 & F2 & F3 & F4 & F5 & F69).
    rewrite I01, I69, I2, I3, I4, I5, IB, F01, F69, F2, F3, F4, F5, stamp_msg_body.
    repeat split; reflexivity.
Qed.

(** chains of one kind only: the other field group is untouched too *)
Lemma chain_sid_only_sys ss cur :
  Forall (fun s => match s with SetSid _ => False | _ => True end) ss -> chain_sid ss cur = cur.
Proof.
  unfold chain_sid. revert cur. induction ss as [|s ss IH]; intros cur H; [reflexivity|].
  inversion H; subst. cbn [fold_left]. rewrite IH by assumption. destruct s; tauto.
Qed.
Lemma chain_sys_only_sid ss cur :
  Forall (fun s => match s with SetSid _ => True | _ => False end) ss -> chain_sys ss cur = cur.
Proof.
  unfold chain_sys. revert cur. induction ss as [|s ss IH]; intros cur H; [reflexivity|].
  inversion H; subst. cbn [fold_left]. rewrite IH by assumption. destruct s; tauto.
Qed.

(** ** Derive().Build(): overriding only session id / system bytes is the re-stamp; the Q3
    validation runs again on the (possibly overridden) stream / function / W-bit *)
Definition only_stamps (ops : list bop) : Prop :=
  Forall (fun o => match o with BSid _ | BSys _ | BId _ => True | _ => False end) ops.
Definition bop_stamp (o : bop) : list stamp :=
  match o with BSid id => [SetSid id] | BSys sb => [SetSys sb] | BId id => [SetId id] | _ => [] end.

Lemma bstep_fields b o :
  match o with BSid _ | BSys _ | BId _ => True | _ => False end ->
  b_stream (bstep b o) = b_stream b /\ b_fn (bstep b o) = b_fn b /\ b_w (bstep b o) = b_w b /\
  b_item (bstep b o) = b_item b.
Proof. destruct o; cbn; tauto. Qed.

Lemma derive_build_rejects_iff d ok ops :
  let b := fold_left bstep ops (derive d ok) in
  (exists e, derive_build d ok ops = Err e) <->
  b_stream b > 127 \/ b_item b = ItemErr \/ (b_w b = true /\ b_fn b mod 2 = 0).
Proof. cbn zeta. unfold derive_build, build. apply new_data_message_rejects_iff. Qed.

(** rebuilding a data header from its own accessors gives the header back *)
Lemma rebuild_hdr h body :
  hdr_ok h -> h4 h = 0 -> h5 h = 0 -> (wait_bit h = true -> function_of h mod 2 <> 0) ->
  new_data_message (stream_of h) (function_of h) (wait_bit h) (session_id h) (system_bytes h) (ItemOk body)
  = Ok (mkD h body).
Proof.
  intros Hok P S Q. destruct h as [x0 x1 x2 x3 x4 x5 x6 x7 x8 x9].
  unfold hdr_ok, bytes_ok, hdr_bytes in Hok. cbn [h0 h1 h2 h3 h4 h5 h6 h7 h8 h9] in *.
  repeat match goal with H : Forall _ (_ :: _) |- _ => inversion H; clear H; subst end.
  unfold byte_ok in *.
  unfold new_data_message, MAX_STREAM, stream_of, function_of, wait_bit, session_id, system_bytes, de16 in *.
  cbn [h0 h1 h2 h3 h4 h5 h6 h7 h8 h9] in *.
  assert (E1 : Z.land x2 127 = x2 mod 128) by (apply land127_byte; lia).
  assert (E2 : Z.shiftr x2 7 = x2 / 128) by (apply shiftr7_byte; lia).
  rewrite E2 in Q. rewrite E1, E2.
  replace (x2 mod 128 >? 127) with false by lia.
  assert (W : (negb (x2 / 128 =? 0) && (x3 mod 2 =? 0)) = false).
  { destruct (x2 / 128 =? 0) eqn:E; cbn [negb andb]; [reflexivity|].
    assert (x3 mod 2 <> 0) by (apply Q; reflexivity). lia. }
  rewrite W. f_equal. unfold put_sys, put_b3, put_b2, put_sid, hdr_zero, item_body.
  cbn [h0 h1 h2 h3 h4 h5 h6 h7 h8 h9].
  rewrite land127_small by lia.
  replace ((x0 * 256 + x1) / 256 mod 256) with x0 by lia.
  replace ((x0 * 256 + x1) mod 256) with x1 by lia.
  destruct (x2 / 128 =? 0) eqn:E; cbn [negb].
  - replace (x2 mod 128) with x2 by lia. reflexivity.
  - rewrite lor128_small by lia. replace (x2 mod 128 + 128) with x2 by lia. reflexivity.
Qed.

Definition stamp_ok (s : stamp) : Prop :=
  match s with
  | SetSid id => 0 <= id < 65536
  | SetSys (a, b, c, d) => byte_ok a /\ byte_ok b /\ byte_ok c /\ byte_ok d
  | SetId id => 0 <= id < 4294967296
  end.
Definition bop_ok (o : bop) : Prop :=
  match o with
  | BSid id => 0 <= id < 65536
  | BSys (a, b, c, d) => byte_ok a /\ byte_ok b /\ byte_ok c /\ byte_ok d
  | BId id => 0 <= id < 4294967296
  | _ => False
  end.
Definition stamp_of_bop (o : bop) : stamp :=
  match o with BSid id => SetSid id | BSys sb => SetSys sb | BId id => SetId id | _ => SetSid 0 end.

Lemma stamp_hdr_ok h s : hdr_ok h -> stamp_ok s -> hdr_ok (stamp_hdr h s).
Proof.
  intros Hok S. destruct h as [x0 x1 x2 x3 x4 x5 x6 x7 x8 x9].
  unfold hdr_ok, bytes_ok, hdr_bytes in *. cbn [h0 h1 h2 h3 h4 h5 h6 h7 h8 h9] in *.
  repeat match goal with H : Forall _ (_ :: _) |- _ => inversion H; clear H; subst end.
  destruct s as [id|[[[a b] c] d]|id]; cbn [stamp_ok stamp_hdr] in *.
  - unfold put_sid. cbn [h0 h1 h2 h3 h4 h5 h6 h7 h8 h9]. unfold byte_ok in *. repeat constructor; lia.
  - destruct S as (? & ? & ? & ?). unfold put_sys. cbn [h0 h1 h2 h3 h4 h5 h6 h7 h8 h9].
    repeat (apply Forall_cons; [assumption|]). apply Forall_nil.
  - unfold to_system_bytes, put_sys. cbn [h0 h1 h2 h3 h4 h5 h6 h7 h8 h9]. unfold byte_ok in *. repeat constructor; lia.
Qed.

(** Derive() then only session-id / system-bytes overrides then Build() IS the re-stamp chain:
    same header bytes 2-5, same body, the stamped fields replaced — for every chain. *)
Lemma derive_build_stamps : forall ops d,
  hdr_ok (d_hdr d) -> h4 (d_hdr d) = 0 -> h5 (d_hdr d) = 0 ->
  (wait_bit (d_hdr d) = true -> function_of (d_hdr d) mod 2 <> 0) ->
  Forall bop_ok ops ->
  derive_build d true ops = Ok (fold_left stamp_d (map stamp_of_bop ops) d).
Proof.
  intros ops d Hok P S Q F. unfold derive_build.
  assert (G : forall ops b hb,
             Forall bop_ok ops -> hdr_ok hb -> h4 hb = 0 -> h5 hb = 0 ->
             (wait_bit hb = true -> function_of hb mod 2 <> 0) ->
             b = mkB (session_id hb) (system_bytes hb) (stream_of hb) (function_of hb) (wait_bit hb) (ItemOk (d_body d)) ->
             build (fold_left bstep ops b) = Ok (fold_left stamp_d (map stamp_of_bop ops) (mkD hb (d_body d)))).
  { clear. induction ops as [|o ops IH]; intros b hb F Hok P S Q ->.
    - cbn [fold_left map]. unfold build. cbn [b_stream b_fn b_w b_sid b_sys b_item]. apply rebuild_hdr; assumption.
    - inversion F as [|? ? Fo F']; subst. cbn [fold_left map].
      assert (So : stamp_ok (stamp_of_bop o)) by (destruct o; cbn in *; tauto).
      pose proof (stamp_hdr_ok hb (stamp_of_bop o) Hok So) as Hok'.
      pose proof (stamp_hdr_fields hb (stamp_of_bop o)) as Fl. cbn zeta in Fl.
      destruct Fl as (F01 & F2 & F3 & F4 & F5 & F69).
      replace (stamp_d (mkD hb (d_body d)) (stamp_of_bop o))
        with (mkD (stamp_hdr hb (stamp_of_bop o)) (d_body d)) by (destruct (stamp_of_bop o); reflexivity).
      apply (IH _ (stamp_hdr hb (stamp_of_bop o)) F' Hok').
      + congruence.
      + congruence.
      + unfold wait_bit, function_of in *. rewrite F2, F3. exact Q.
      + destruct hb as [x0 x1 x2 x3 x4 x5 x6 x7 x8 x9].
        unfold hdr_ok, bytes_ok, hdr_bytes in Hok. cbn [h0 h1 h2 h3 h4 h5 h6 h7 h8 h9] in Hok.
        repeat match goal with H : Forall _ (_ :: _) |- _ => inversion H; clear H; subst end.
        unfold byte_ok in *.
        destruct o as [v|v|w|it|id|[[[a b] c] d']|id]; cbn [bop_ok] in Fo; try tauto;
          cbn [bstep stamp_of_bop stamp_hdr b_sid b_sys b_stream b_fn b_w b_item];
          unfold put_sid, put_sys, session_id, system_bytes, stream_of, function_of, wait_bit, de16, to_system_bytes;
          cbn [h0 h1 h2 h3 h4 h5 h6 h7 h8 h9]; f_equal; lia. }
  destruct d as [h body]. cbn [d_hdr d_body] in *.
  apply (G ops _ h); auto.
Qed.

(** NewDataMessageFromHeader: a valid data header is taken over unchanged; a non-zero PType or
    SType is refused first, then the Q3 rules apply *)
Lemma from_header_ok h body :
  hdr_ok h -> h4 h = 0 -> h5 h = 0 -> (wait_bit h = true -> function_of h mod 2 <> 0) ->
  new_data_message_from_header h (ItemOk body) = Ok (mkD h body).
Proof.
  intros Hok P S Q. unfold new_data_message_from_header. rewrite P, S. cbn [Z.eqb negb].
  rewrite rebuild_hdr by assumption. reflexivity.
Qed.
Lemma from_header_rejects h it :
  (h4 h <> 0 -> new_data_message_from_header h it = Err HPType) /\
  (h4 h = 0 -> h5 h <> 0 -> new_data_message_from_header h it = Err HSType).
Proof.
  unfold new_data_message_from_header. split.
  - intros H. destruct (h4 h =? 0) eqn:E; [lia|reflexivity].
  - intros H4 H5. rewrite H4. cbn [Z.eqb negb]. destruct (h5 h =? 0) eqn:E; [lia|reflexivity].
Qed.
