(** Quiescence: when the supervisor has nothing left to process (empty queue, no step in flight)
    and has not been closed, the state last reported to the handlers IS the value of State(). *)
From Coq Require Import ZArith Bool List Lia.
From GoSecs Require Import Hsms.Supervisor.
Import ListNotations.

Definition target (ev : event) : cstate :=
  match ev with EvUpC => NS | EvSelAccC => SEL | EvSelLostC => NS | _ => NC end.

(** target of the last commit echo in an event list, if any *)
Fixpoint let_ (l : list event) : option cstate :=
  match l with
  | [] => None
  | e :: r => match let_ r with
              | Some t => Some t
              | None => if is_echo e then Some (target e) else None
              end
  end.

Lemma let_snoc l e : let_ (l ++ [e]) = if is_echo e then Some (target e) else let_ l.
Proof.
  induction l as [|a r IH]; cbn [app let_].
  - destruct (is_echo e); reflexivity.
  - rewrite IH. destruct (is_echo e); [reflexivity|]. reflexivity.
Qed.

Definition pcq (s : sup) : list event :=
  match pc s with Some (ev, _) => ev :: queue s | None => queue s end.

Definition Q (s : sup) : Prop :=
  closed s = false ->
  (st s = lastr s \/ let_ (pcq s) = Some (st s)) /\
  (forall ev cur, pc s = Some (ev, cur) -> st s = cur \/ let_ (queue s) = Some (st s)).

Lemma Q_init : Q init.
Proof. intros _. split; [left; reflexivity|]. intros ev cur H; discriminate H. Qed.

(** What [step_finish] does to the fields the invariant talks about. *)
Lemma sf_char s ev cur s' o :
  step_finish s ev cur = (s', o) ->
  queue s' = queue s /\ pc s' = None /\
  (closed s' = true \/
   (closed s' = closed s /\
    ((* nothing happened *)
     (st s' = st s /\ lastr s' = lastr s /\
      (is_echo ev = false \/ (target ev = cur -> lastr s = cur)))
     (* an echo reported the state it announces; no store *)
     \/ (is_echo ev = true /\ st s' = st s /\ lastr s' = cur /\ target ev = cur)
     (* a transition of a non-echo event *)
     \/ (is_echo ev = false /\ exists next, transition cur ev = (next, true) /\ lastr s' = next /\
                      (st s' = next \/ (next = cur /\ st s' = st s)))))).
Proof.
  destruct s as [st0 cl q p l c nb d]. unfold step_finish. cbn [st clbit queue pc lastr closed nbuf dropped].
  intros H.
  destruct (existsb is_upc q);
  destruct ev, cur, st0, l, cl; cbn in H;
    repeat match type of H with
           | context [fire ?b ?x ?y] => destruct (fire b x y) as [[? ?] ?]
           end;
    cbn in H; inversion H; subst; clear H; cbn;
    (split; [reflexivity|]); (split; [reflexivity|]);
    first [ left; reflexivity
          | right; split; [reflexivity|];
            first [ left; split; [reflexivity|]; split; [reflexivity|];
                    first [ left; reflexivity | right; intros Hx; first [ reflexivity | discriminate Hx ] ]
                  | right; left; split; [reflexivity|]; split; [reflexivity|]; split; reflexivity
                  | right; right; split; [reflexivity|]; eexists; split; [reflexivity|]; split; [reflexivity|];
                    first [ left; reflexivity | right; split; reflexivity ] ] ].
Qed.

Lemma commit_Q from to ev s s' o :
  is_echo ev = true -> target ev = to ->
  Q s -> commit from to ev s = (s', o) -> Q s'.
Proof.
  intros He Ht HQ Hc. unfold commit in Hc.
  destruct (cstate_beq (st s) from && negb (clbit s)); inversion Hc; subst; clear Hc; [|exact HQ].
  intros Hcl. cbn in Hcl. specialize (HQ Hcl). destruct HQ as [_ _].
  split.
  - right. unfold pcq. cbn [pc queue st].
    destruct (pc s) as [[e c]|]; [change (e :: queue s ++ [ev]) with ((e :: queue s) ++ [ev])|];
      rewrite let_snoc, He; reflexivity.
  - intros e c Hp. right. cbn [queue st]. rewrite let_snoc, He. reflexivity.
Qed.

Lemma exec_Q s a s' o : Q s -> exec s a = (s', o) -> Q s'.
Proof.
  intros HQ He. destruct a; cbn [exec] in He.
  - eapply (commit_Q NC NS EvUpC); eauto.
  - eapply (commit_Q NS SEL EvSelAccC); eauto.
  - eapply (commit_Q SEL NS EvSelLostC); eauto.
  - inversion He; subst; clear He. intros Hcl. cbn in Hcl. destruct (HQ Hcl) as [A B].
    assert (Hn : is_echo (inj_event i) = false) by (destruct i; reflexivity).
    split.
    + destruct A as [A|A]; [left; exact A|right].
      unfold pcq in *. cbn [pc queue st] in *.
      destruct (pc s) as [[e c]|]; [change (e :: queue s ++ [inj_event i]) with ((e :: queue s) ++ [inj_event i])|];
        rewrite let_snoc, Hn; exact A.
    + intros e c Hp. cbn [pc] in Hp. destruct (B e c Hp) as [B1|B1]; [left; exact B1|right].
      cbn [queue st]. rewrite let_snoc, Hn. exact B1.
  - destruct (pc s) as [[e c]|] eqn:Ep; [inversion He; subst; exact HQ|].
    destruct (queue s) as [|e q] eqn:Eq; [inversion He; subst; exact HQ|].
    destruct (closed s) eqn:Ecl; inversion He; subst; clear He.
    + intros Hx. cbn in Hx. discriminate Hx.
    + intros _. destruct (HQ Ecl) as [A _]. unfold pcq in A. rewrite Ep, Eq in A.
      split.
      * unfold pcq. cbn [pc queue st lastr]. exact A.
      * intros ev cur Hp. cbn [pc] in Hp. inversion Hp; subst. left. reflexivity.
  - destruct (pc s) as [[ev cur]|] eqn:Ep; [|inversion He; subst; exact HQ].
    destruct (sf_char _ _ _ _ _ He) as (Hq & Hp & Hcase).
    intros Hcl'.
    destruct Hcase as [Hc|(Hc & Hcase)]; [rewrite Hc in Hcl'; discriminate Hcl'|].
    rewrite Hc in Hcl'. destruct (HQ Hcl') as [A B]. specialize (B ev cur Ep).
    unfold pcq in A. rewrite Ep in A.
    split; [|intros e c Hx; rewrite Hp in Hx; discriminate Hx].
    unfold pcq. rewrite Hp, Hq.
    destruct Hcase as [(Hs & Hl & Hwhy)|[(Hecho & Hs & Hl & Ht)|(Hne & next & Htr & Hl & Hs)]].
    + (* nothing happened *)
      rewrite Hs, Hl.
      destruct A as [A|A]; [left; exact A|].
      cbn [let_] in A.
      destruct (let_ (queue s)) as [t|] eqn:El; [right; exact A|].
      destruct (is_echo ev) eqn:Eecho; [|discriminate A].
      inversion A as [At]. clear A.
      assert (Hcur : st s = cur) by (destruct B as [B|B]; [exact B|discriminate B]).
      destruct Hwhy as [E|E]; [discriminate E|].
      left. assert (Ht : target ev = cur) by congruence. rewrite (E Ht). exact Ht.
    + (* an echo reported: lastr' = cur, st unchanged *)
      rewrite Hs, Hl.
      destruct B as [B|B]; [left; exact B|right; exact B].
    + rewrite Hl. destruct Hs as [Hs|[Hnc Hs]].
      * left. exact Hs.
      * rewrite Hs. subst next.
        destruct B as [B|B]; [left; rewrite B; symmetry; exact Hnc|right; exact B].
  - destruct (nbuf s) as [|x r]; inversion He; subst; [exact HQ|].
    intros Hcl. cbn in Hcl. destruct (HQ Hcl) as [A B]. split; [exact A|exact B].
Qed.

Lemma run_Q acts : forall s s' o, Q s -> run s acts = (s', o) -> Q s'.
Proof.
  induction acts as [|a rest IH]; intros s s' o HQ Hr; cbn [run] in Hr.
  - inversion Hr; subst. exact HQ.
  - destruct (exec s a) as [s1 o1] eqn:He. destruct (run s1 rest) as [s2 o2] eqn:Hr2.
    inversion Hr; subst. eapply IH; [eapply exec_Q; eauto|eauto].
Qed.

Theorem quiescent_consistent acts :
  let s := fst (run init acts) in
  closed s = false -> queue s = [] -> pc s = None -> lastr s = st s.
Proof.
  cbn zeta. destruct (run init acts) as [s o] eqn:Hr. cbn [fst].
  intros Hcl Hq Hp. pose proof (run_Q acts _ _ _ Q_init Hr) as HQ.
  destruct (HQ Hcl) as [A _]. unfold pcq in A. rewrite Hp, Hq in A. cbn in A.
  destruct A as [A|A]; [symmetry; exact A|discriminate A].
Qed.
