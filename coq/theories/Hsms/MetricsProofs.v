(** Proofs for C20: in every reachable state the in-flight gauge equals the number of W-bit data
    calls in the waiting phase, the reconnecting gauge equals the number of running reconnect
    loops, the cumulative counters equal the counts the monitor recomputes from the observable
    log (per-outcome table), and EVERY action sequence is accepted by [ok_C20]. *)
From Coq Require Import ZArith Bool List Lia Arith.
From GoSecs Require Import Hsms.Generations Hsms.GenerationsProofs Hsms.Metrics.
Import ListNotations.
Open Scope Z_scope.

(** * Counting lemmas *)

Lemma cnt_nonneg P f l : 0 <= cnt P f l.
Proof. induction l as [|i r IH]; cbn [cnt]; [lia|]. unfold b2z. destruct (P (f i)); lia. Qed.

Lemma cnt_upd_notin P f c v l : ~ In c l -> cnt P (upd f c v) l = cnt P f l.
Proof.
  induction l as [|i r IH]; intros Hn; cbn [cnt]; [reflexivity|].
  rewrite IH by (intros Hx; apply Hn; right; exact Hx).
  rewrite upd_other by (intros ->; apply Hn; left; reflexivity). reflexivity.
Qed.

Lemma cnt_upd_in P f c v l :
  NoDup l -> In c l -> cnt P (upd f c v) l = cnt P f l - b2z (P (f c)) + b2z (P v).
Proof.
  induction l as [|i r IH]; intros Hd Hi; [destruct Hi|]. inversion Hd as [|? ? Hni Hd']; subst.
  cbn [cnt]. destruct (Nat.eq_dec i c) as [->|Hne].
  - rewrite upd_same, cnt_upd_notin by exact Hni. lia.
  - destruct Hi as [->|Hi]; [contradiction|]. rewrite IH by assumption.
    rewrite upd_other by exact Hne. lia.
Qed.

Lemma cnt_le P Q f l : (forall x, P x = true -> Q x = true) -> cnt P f l <= cnt Q f l.
Proof.
  intros H. induction l as [|i r IH]; cbn [cnt]; [lia|].
  specialize (H (f i)). unfold b2z. destruct (P (f i)), (Q (f i)); try lia; try discriminate (H eq_refl).
Qed.

(** * Invariant *)

Record J (s : state) : Prop := {
  J_nodup : NoDup (ids s);
  J_ids : forall c, In c (ids s) <-> c_phase (calls s c) <> PNone;
  J_inflight : m_inflight (mx s) = cnt waiting_w (calls s) (ids s);
  J_retry : m_retry (mx s) = Z.of_nat (lrun s)
}.

Lemma J_init : J init.
Proof.
  constructor.
  - constructor.
  - intros c0. cbn. split; [intros []|intros H; exfalso; apply H; reflexivity].
  - reflexivity.
  - reflexivity.
Qed.

Definition view20 (s : state) : mon20 :=
  mkMon20 (m_sent (mx s)) (m_recv (mx s)) (m_err (mx s)) (m_drop (mx s)) (m_aerr (mx s))
          (cnt wired_w (calls s) (ids s)) (fun c => wired_w (calls s c)).

Definition meq20 (a b : mon20) : Prop :=
  x_sent a = x_sent b /\ x_recv a = x_recv b /\ x_err a = x_err b /\ x_drop a = x_drop b /\
  x_aerr a = x_aerr b /\ x_out a = x_out b /\ forall c, x_w a c = x_w b c.

Lemma meq20_refl a : meq20 a a.
Proof. repeat split. Qed.

Lemma meq20_trans a b c : meq20 a b -> meq20 b c -> meq20 a c.
Proof.
  intros (A1 & A2 & A3 & A4 & A5 & A6 & A7) (B1 & B2 & B3 & B4 & B5 & B6 & B7).
  repeat split; try congruence. all: intros x; rewrite A7; apply B7.
Qed.

Lemma mon20_step_meq a b o : meq20 a b ->
  match mon20_step a o, mon20_step b o with
  | Some a', Some b' => meq20 a' b'
  | None, None => True
  | _, _ => False
  end.
Proof.
  intros (A1 & A2 & A3 & A4 & A5 & A6 & A7).
  destruct o; cbn [mon20_step]; try (repeat split; assumption).
  - (* OWire *) repeat split; cbn [x_sent x_recv x_err x_drop x_aerr x_out x_w]; try congruence.
    all: intros x; destruct (is_syncw k); [unfold upd; destruct (Nat.eqb x c); auto|apply A7].
  - (* OCompleted *) rewrite <- A7.
    repeat split; cbn [x_sent x_recv x_err x_drop x_aerr x_out x_w]; try congruence.
    all: intros x; destruct (is_syncw k && x_w a c); [unfold upd; destruct (Nat.eqb x c); auto|apply A7].
  - (* OAsyncErr *) repeat split; cbn [x_sent x_recv x_err x_drop x_aerr x_out x_w]; try congruence. all: apply A7.
  - (* ODispatch *) repeat split; cbn [x_sent x_recv x_err x_drop x_aerr x_out x_w]; try congruence. all: apply A7.
  - (* OSnap *) unfold snap_ok. rewrite <- A1, <- A2, <- A3, <- A4, <- A5, <- A6.
    match goal with |- context [if ?c then _ else _] => destruct c end; [repeat split; assumption|exact I].
Qed.

Lemma mon20_run_meq l : forall a b, meq20 a b ->
  match mon20_run a l, mon20_run b l with
  | Some a', Some b' => meq20 a' b'
  | None, None => True
  | _, _ => False
  end.
Proof.
  induction l as [|o r IH]; intros a b H; cbn [mon20_run]; [exact H|].
  pose proof (mon20_step_meq a b o H) as Hs.
  destruct (mon20_step a o), (mon20_step b o); try contradiction; [apply IH; exact Hs|exact I].
Qed.

Lemma mon20_run_app m l1 l2 :
  mon20_run m (l1 ++ l2) = match mon20_run m l1 with Some m' => mon20_run m' l2 | None => None end.
Proof.
  revert m. induction l1 as [|o l1 IH]; intros m; cbn [mon20_run app]; [reflexivity|].
  destruct (mon20_step m o); [apply IH|reflexivity].
Qed.

Lemma cnt_upd_same P f c v l : P v = P (f c) -> cnt P (upd f c v) l = cnt P f l.
Proof.
  intros H. induction l as [|i r IH]; cbn [cnt]; [reflexivity|]. rewrite IH. f_equal.
  unfold upd. destruct (Nat.eqb_spec i c) as [->|]; [rewrite H|]; reflexivity.
Qed.

Ltac m_simpl :=
  unfold inc_sent, inc_recv, add_inflight, inc_err, inc_drop, inc_aerr, add_retry, inc_reconn in *;
  cbn [m_sent m_recv m_inflight m_err m_drop m_aerr m_retry m_reconn
       x_sent x_recv x_err x_drop x_aerr x_out x_w view20
       cur ngen gens calls ids st shut lsp lrun wire mx set_call set_gen set_mx set_st set_loops
       c_kind c_gen c_phase c_reg] in *.

Lemma snap_view_ok s : J s -> snap_ok (view20 s) (mx s) (quiet s) = true.
Proof.
  intros [_ _ Hi Hr]. unfold snap_ok. cbn [view20 x_sent x_recv x_err x_drop x_aerr x_out].
  rewrite !Z.eqb_refl. cbn [andb].
  assert (H0 : 0 <= m_inflight (mx s)) by (rewrite Hi; apply cnt_nonneg).
  assert (H1 : m_inflight (mx s) <= cnt wired_w (calls s) (ids s)).
  { rewrite Hi. apply cnt_le. intros x. unfold waiting_w, wired_w.
    destruct (is_syncw (c_kind x)); [|discriminate]. destruct (c_phase x); cbn; congruence. }
  assert (H2 : 0 <= m_retry (mx s)) by lia.
  apply Z.leb_le in H0, H1, H2. rewrite H0, H1, H2. cbn [andb].
  unfold quiet. destruct (Nat.eqb_spec (lrun s) 0) as [Hz|]; [|rewrite andb_false_r; reflexivity].
  rewrite Hr, Hz. rewrite orb_true_r. reflexivity.
Qed.

(** Steps that do not touch the calls. *)
Lemma step20_nocall s a s' o :
  J s -> nocall_action a = true -> exec s a = (s', o) ->
  J s' /\ exists x', mon20_run (view20 s) o = Some x' /\ meq20 x' (view20 s').
Proof.
  intros Hj Ha H. pose proof (snap_view_ok s Hj) as Hsnap. destruct Hj as [J1 J2 J3 J4].
  destruct a; try discriminate Ha; clear Ha; unfold_exec H; dmatch H; inversion H; subst; clear H;
    (split; [constructor; m_simpl; try assumption; try lia
            |cbn [mon20_run mon20_step]; rewrite ?Hsnap; eexists; split; [reflexivity|];
             repeat split; m_simpl; try reflexivity]).
  all: rewrite ?Nat2Z.inj_succ in *; try lia.
Qed.

Lemma step20_route s g s' o :
  J s -> exec s (Route g) = (s', o) ->
  J s' /\ exists x', mon20_run (view20 s) o = Some x' /\ meq20 x' (view20 s').
Proof.
  intros [J1 J2 J3 J4] H.
  unfold_exec H; dmatch H; inversion H; subst; clear H;
    (split; [constructor|cbn [mon20_run mon20_step]; eexists; split; [reflexivity|]; repeat split]);
    m_simpl; unfold b2z; try assumption; try reflexivity;
    try (rewrite ?cnt_upd_same by reflexivity; lia);
    try (intros c0; unfold upd; destruct (Nat.eqb_spec c0 key) as [->|]; [|apply J2];
         unfold with_reg; cbn [c_phase]; apply J2);
    try (intros c0; unfold upd; destruct (Nat.eqb_spec c0 key) as [->|]; reflexivity).
Qed.

(** Steps of one call that is already in use. *)
Ltac m20_call s c :=
  match goal with Hj : J s |- _ =>
    let J1 := fresh "J1" in let J2 := fresh "J2" in let J3 := fresh "J3" in let J4 := fresh "J4" in
    destruct Hj as [J1 J2 J3 J4];
    let Hin := fresh "Hin" in
    assert (Hin : In c (ids s)) by (apply J2; congruence);
    let k := fresh "k" in let g := fresh "g" in let p := fresh "p" in let r := fresh "r" in
    let Ec := fresh "Ec" in
    destruct (calls s c) as [k g p r] eqn:Ec; cbn [c_kind c_gen c_phase c_reg] in *; subst;
    unfold with_phase, with_reg in *; cbn [c_kind c_gen c_phase c_reg] in *;
    repeat match goal with Hx : _ && _ = true |- _ => apply andb_prop in Hx; destruct Hx end;
    destruct k; cbn [is_data is_async registers is_syncw counted_err andb negb] in *; try discriminate;
    match goal with C : CI s |- _ =>
      let Cc := fresh "Cc" in
      pose proof (C c) as Cc; unfold callok in Cc; rewrite Ec in Cc;
      cbn [c_kind c_gen c_phase c_reg registers] in Cc;
      destruct (wired s c); cbn [andb negb] in Cc; try discriminate Cc;
      try match goal with r0 : result |- _ => destruct r0; try discriminate Cc end
    end;
    (split;
     [ constructor; m_simpl; try assumption;
       try (intros c0; unfold upd; destruct (Nat.eqb_spec c0 c) as [->|]; [|apply J2];
            cbn [c_phase]; split; [intros _; discriminate|intros _; exact Hin]);
       try (rewrite cnt_upd_in by assumption; rewrite Ec; cbn [waiting_w c_kind c_phase is_syncw andb b2z]; lia)
     | cbn [mon20_run mon20_step view20 x_w x_sent x_recv x_err x_drop x_aerr x_out]; rewrite ?Ec;
       cbn [wired_w b2z c_kind c_phase is_syncw andb is_data is_async negb is_err_result is_notsel];
       eexists; (split; [reflexivity|]); repeat split; m_simpl;
       try (rewrite cnt_upd_in by assumption; rewrite Ec);
       cbn [wired_w b2z c_kind c_phase is_syncw andb is_data is_async negb is_err_result is_notsel]; try reflexivity; try lia;
       try (intros c0; unfold upd; destruct (Nat.eqb_spec c0 c) as [->|]; rewrite ?Ec; reflexivity) ])
  end.

Lemma ww_entered k g r : wired_w (mkCall k g PEntered r) = false /\ waiting_w (mkCall k g PEntered r) = false.
Proof. destruct k; split; reflexivity. Qed.
Lemma ww_done k g x r : wired_w (mkCall k g (PDone x) r) = false /\ waiting_w (mkCall k g (PDone x) r) = false.
Proof. destruct k; split; reflexivity. Qed.

Lemma step20 s a s' o :
  CI s -> J s -> exec s a = (s', o) ->
  J s' /\ exists x', mon20_run (view20 s) o = Some x' /\ meq20 x' (view20 s').
Proof.
  intros C Hj H.
  destruct (nocall_action a) eqn:Ha; [eapply step20_nocall; eassumption|].
  destruct a; try discriminate Ha; clear Ha; try (eapply step20_route; eassumption);
    unfold_exec H; dmatch H; inversion H; subst; clear H;
    try (split; [assumption|eexists; split; [reflexivity|apply meq20_refl]]).
  all: try match goal with E : c_phase (calls ?s0 ?c) = ?ph |- _ =>
         lazymatch ph with PNone => fail | _ => m20_call s0 c end end.
  all: destruct Hj as [J1 J2 J3 J4];
    assert (Hni : ~ In c (ids s)) by (intros Hx; apply J2 in Hx; congruence);
    assert (Hw : wired_w (calls s c) = false)
      by (unfold wired_w; rewrite E; apply andb_false_r).
  all: split.
  all: try constructor; m_simpl; try assumption.
  all: try (constructor; assumption).
  all: try (intros c0; unfold upd; destruct (Nat.eqb_spec c0 c) as [->|Hne]; cbn [c_phase In];
         [ split; [intros _; discriminate|intros _; left; reflexivity]
         | rewrite <- J2; split; [intros [Hx|Hx]; [congruence|exact Hx]|intros Hx; right; exact Hx] ]).
  all: try (cbn [cnt]; rewrite upd_same, cnt_upd_notin by assumption;
            rewrite ?(proj2 (ww_entered _ _ _)), ?(proj2 (ww_done _ _ _ _)); unfold b2z at 1; lia).
  all: cbn [mon20_run mon20_step view20 x_w x_sent x_recv x_err x_drop x_aerr x_out]; rewrite ?Hw, ?andb_false_r;
       cbn [is_err_result is_notsel b2z andb]; rewrite ?andb_false_r; cbn [b2z];
       eexists; (split; [reflexivity|]); repeat split; m_simpl; try lia.
  all: try (cbn [cnt]; rewrite upd_same, cnt_upd_notin by assumption;
            rewrite ?(proj1 (ww_entered _ _ _)), ?(proj1 (ww_done _ _ _ _)); unfold b2z at 1; lia).
  all: intros c0; unfold upd; destruct (Nat.eqb_spec c0 c) as [->|]; [|reflexivity];
       rewrite Hw, ?(proj1 (ww_entered _ _ _)), ?(proj1 (ww_done _ _ _ _)); reflexivity.
Qed.

Lemma view20_init : meq20 mon20_0 (view20 init).
Proof. repeat split. Qed.

Lemma run_ok20 acts : forall s x,
  GI s -> CI s -> J s -> meq20 x (view20 s) ->
  exists x', mon20_run x (snd (run s acts)) = Some x' /\ meq20 x' (view20 (fst (run s acts))) /\
             J (fst (run s acts)).
Proof.
  induction acts as [|a r IH]; intros s x G C Hj Hm; cbn [run].
  - exists x. split; [reflexivity|split; assumption].
  - destruct (exec s a) as [s1 o1] eqn:E.
    destruct (step20 _ _ _ _ C Hj E) as (Hj1 & x1 & Hr1 & Hm1).
    pose proof (mon20_run_meq o1 _ _ Hm) as Ht. rewrite Hr1 in Ht.
    destruct (mon20_run x o1) as [x1'|] eqn:Hr1'; [|contradiction].
    assert (Hm1' : meq20 x1' (view20 s1)) by (eapply meq20_trans; eassumption).
    specialize (IH s1 x1' (GI_step _ _ _ _ G E) (CI_step _ _ _ _ G C E) Hj1 Hm1').
    destruct (run s1 r) as [s2 o2]. cbn [fst snd] in *.
    destruct IH as (x2 & Hr2 & Hm2 & Hj2). exists x2. split; [|split; assumption].
    rewrite mon20_run_app, Hr1'. exact Hr2.
Qed.

(** Every action sequence is accepted by the conservation monitor. *)
Theorem all_runs_ok20 acts : ok_C20 (snd (run init acts)) = true.
Proof.
  destruct (run_ok20 acts init mon20_0 GI_init CI_init J_init view20_init) as (x & Hx & _).
  unfold ok_C20. rewrite Hx. reflexivity.
Qed.

Theorem J_reachable acts : J (fst (run init acts)).
Proof.
  destruct (run_ok20 acts init mon20_0 GI_init CI_init J_init view20_init) as (x & _ & _ & Hj). exact Hj.
Qed.

(** The in-flight gauge is the number of W-bit data calls in the waiting phase (between the
    increment after the write and the deferred decrement): never negative, and zero whenever no
    such call exists. *)
Theorem inflight_is_waiting acts :
  let s := fst (run init acts) in
  m_inflight (mx s) = cnt waiting_w (calls s) (ids s) /\ 0 <= m_inflight (mx s).
Proof.
  cbn zeta. pose proof (J_reachable acts) as [_ _ Hi _]. split; [exact Hi|]. rewrite Hi. apply cnt_nonneg.
Qed.

Lemma cnt_zero P f l : (forall i, In i l -> P (f i) = false) -> cnt P f l = 0.
Proof.
  induction l as [|i r IH]; intros H; cbn [cnt]; [reflexivity|].
  rewrite (H i (or_introl eq_refl)), IH; [reflexivity|]. intros j Hj. apply H. right. exact Hj.
Qed.

Theorem inflight_zero_at_quiescence acts :
  let s := fst (run init acts) in
  (forall c, c_phase (calls s c) <> PWait) -> m_inflight (mx s) = 0.
Proof.
  cbn zeta. intros H. destruct (inflight_is_waiting acts) as [Hi _]. rewrite Hi.
  apply cnt_zero. intros i _. unfold waiting_w. specialize (H i).
  destruct (c_phase (calls (fst (run init acts)) i)); try (apply andb_false_r). contradiction.
Qed.

(** The reconnecting gauge is the number of reconnect loops between their first statement and
    their deferred decrement. *)
Theorem retry_is_running_loops acts :
  let s := fst (run init acts) in
  m_retry (mx s) = Z.of_nat (lrun s) /\ 0 <= m_retry (mx s) /\
  (lrun s <> 0%nat -> 0 < m_retry (mx s)) /\ (quiet s = true -> m_retry (mx s) = 0).
Proof.
  cbn zeta. pose proof (J_reachable acts) as [_ _ _ Hr]. rewrite Hr. repeat split; try lia.
  unfold quiet. intros H. apply andb_prop in H. destruct H as [_ H]. apply Nat.eqb_eq in H. rewrite H. reflexivity.
Qed.

(** dataSent = number of data frames appended to sockets. *)
Lemma sent_step s a s' o : exec s a = (s', o) ->
  m_sent (mx s') - count_wire is_data (wire s') = m_sent (mx s) - count_wire is_data (wire s).
Proof.
  intros H. destruct a; unfold_exec H; dmatch H; inversion H; subst; clear H; m_simpl; try reflexivity.
  all: unfold count_wire; cbn [fold_right snd];
       match goal with Hx : is_data _ = _ |- _ => rewrite Hx end; unfold b2z; lia.
Qed.

Theorem sent_is_wire acts :
  let s := fst (run init acts) in m_sent (mx s) = count_wire is_data (wire s).
Proof.
  cbn zeta.
  assert (H : forall s, m_sent (mx (fst (run s acts))) - count_wire is_data (wire (fst (run s acts)))
                        = m_sent (mx s) - count_wire is_data (wire s)).
  { induction acts as [|a r IH]; intros s; cbn [run]; [reflexivity|].
    destruct (exec s a) as [s1 o1] eqn:E. specialize (IH s1). destruct (run s1 r) as [s2 o2].
    cbn [fst] in *. rewrite IH. eapply sent_step; eassumption. }
  specialize (H init). cbn in H. lia.
Qed.

(** dataRecv = number of well-formed data frames dispatched while Selected. *)
Lemma count_obs_app P l1 l2 : count_obs P (l1 ++ l2) = count_obs P l1 + count_obs P l2.
Proof. induction l1 as [|o r IH]; cbn [count_obs fold_right app]; [reflexivity|]. fold (count_obs P (r ++ l2)). fold (count_obs P r). lia. Qed.

Lemma recv_step s a s' o : exec s a = (s', o) ->
  m_recv (mx s') = m_recv (mx s) + count_obs is_counted_dispatch o /\
  (forall g f, In (ODispatch g f true) o -> pf_data f = true /\ is_sel (st s) = true).
Proof.
  intros H. destruct a; unfold_exec H; dmatch H; inversion H; subst; clear H; m_simpl;
    (split; [cbn; lia|]); intros g0 f0 Hin; cbn [In] in Hin;
    repeat match goal with Hx : _ \/ _ |- _ => destruct Hx end; try contradiction; try discriminate;
    match goal with Hx : _ = ODispatch _ _ true |- _ => inversion Hx; subst end; split; first [reflexivity|assumption].
Qed.

Theorem recv_is_selected_dispatches acts :
  m_recv (mx (fst (run init acts))) = count_obs is_counted_dispatch (snd (run init acts)).
Proof.
  assert (H : forall s, m_recv (mx (fst (run s acts))) = m_recv (mx s) + count_obs is_counted_dispatch (snd (run s acts))).
  { induction acts as [|a r IH]; intros s; cbn [run]; [cbn; lia|].
    destruct (exec s a) as [s1 o1] eqn:E. specialize (IH s1). destruct (run s1 r) as [s2 o2].
    cbn [fst snd] in *. rewrite IH, count_obs_app. destruct (recv_step _ _ _ _ E) as [-> _]. lia. }
  specialize (H init). cbn in H. exact H.
Qed.

(** Per-step form of the outcome table: in every reachable state, the counters after a step are
    the counters before it plus exactly what the monitor adds for the labels the step emitted. *)
Theorem step_table acts a :
  let s := fst (run init acts) in
  exists x', mon20_run (view20 s) (snd (exec s a)) = Some x' /\ meq20 x' (view20 (fst (exec s a))).
Proof.
  cbn zeta. destruct (exec (fst (run init acts)) a) as [s' o] eqn:E. cbn [fst snd].
  destruct (step20 _ _ _ _ (CI_reachable acts) (J_reachable acts) E) as (_ & x' & H1 & H2).
  exists x'. split; assumption.
Qed.
