(** Go byte slices / arrays, loops and run-time panics for the v2 translator output ([Gen/Gen2.v]).

    DESIGN (one design, used everywhere): every translated function returns [gres T]:
    [GOk v] when the Go function returns [v], [GPanic] when the Go function panics (index or slice
    bound out of range, nil dereference, short buffer handed to [binary.BigEndian.*], negative
    [make] length, division by zero). Partial operations are sequenced with [gbind].

    [[]byte], [[N]byte] and [string]-free byte data are [list Z] (elements are meant to be in
    [0, 256); arithmetic on them is wrapped explicitly by the translator, so nothing here relies on
    the range). Slices are VALUES: the translator rejects every program in which a write could be
    observed through an alias, and capacity is not modelled: the upper bound of [s[lo:hi]] is
    [len s] (Go allows up to [cap s]), so [GPanic] here is STRICTER than Go for re-slicing beyond the
    length - a bridge lemma that proves [GOk] therefore also proves that Go does not panic.

    Loops are structural recursion over the ranged list ([range_loop]) or over a [nat] iteration
    count ([count_loop]); the loop-carried variables are the state tuple [S]; [break], [continue] and
    an early [return] inside the body are the three constructors of [lctl]. *)
From Coq Require Import ZArith Lia List Bool ZifyBool.
From Coq Require String.
From GoSecs Require Import Base.GoInt Base.BytesBE.
Import ListNotations.
Open Scope Z_scope.

(** * The panic monad *)
Inductive gres (A : Type) : Type := GOk (a : A) | GPanic.
Arguments GOk {A} a.
Arguments GPanic {A}.

Definition gbind {A B : Type} (x : gres A) (f : A -> gres B) : gres B :=
  match x with GOk a => f a | GPanic => GPanic end.

Lemma gbind_ok {A B} (a : A) (f : A -> gres B) : gbind (GOk a) f = f a.
Proof. reflexivity. Qed.

(** * Go errors: only the class that [errors.Is] can observe (never the message text of a wrapped
    error). [ErrIs name]: a package-level sentinel, bare or wrapped with [%w] by [fmt.Errorf];
    [ErrNew msg]: an anonymous [errors.New(msg)] / [fmt.Errorf] without [%w]. *)
Inductive goerror := ErrNil | ErrIs (name : String.string) | ErrNew (msg : String.string).
Definition goerr_is_nil (e : goerror) : bool := match e with ErrNil => true | _ => false end.

(** * Slices and arrays *)
Definition go_len (l : list Z) : Z := Z.of_nat (length l).

Definition go_index (l : list Z) (i : Z) : gres Z :=
  if (0 <=? i) && (i <? go_len l) then GOk (nth (Z.to_nat i) l 0) else GPanic.

Definition sub (l : list Z) (lo hi : Z) : list Z := firstn (Z.to_nat (hi - lo)) (skipn (Z.to_nat lo) l).

Definition go_slice (l : list Z) (lo hi : Z) : gres (list Z) :=
  if (0 <=? lo) && (lo <=? hi) && (hi <=? go_len l) then GOk (sub l lo hi) else GPanic.

(** [firstn lo l ++ seg ++ skipn (lo + length seg) l]: writing [seg] back over [l[lo:lo+len seg]]. *)
Definition splice (l : list Z) (lo : Z) (seg : list Z) : list Z :=
  firstn (Z.to_nat lo) l ++ seg ++ skipn (Z.to_nat lo + length seg) l.

Definition go_set (l : list Z) (i v : Z) : gres (list Z) :=
  if (0 <=? i) && (i <? go_len l) then GOk (splice l i [v]) else GPanic.

(** Unchecked forms: emitted ONLY for an operand of array type [[N]T] with constant indices, where
    the Go compiler has already rejected an out-of-range index at compile time. They agree with the
    checked forms whenever the list has the declared length. *)
Definition arr_get (l : list Z) (i : Z) : Z := nth (Z.to_nat i) l 0.
Definition arr_set (l : list Z) (i v : Z) : list Z := splice l i [v].
Definition arr_slice (l : list Z) (lo hi : Z) : list Z := sub l lo hi.

(** lists of records ([]T with T a struct): the same two partial operations, for any element type *)
Definition go_index_g {A : Type} (l : list A) (i : Z) : gres A :=
  if (0 <=? i) && (i <? Z.of_nat (length l))
  then match nth_error l (Z.to_nat i) with Some a => GOk a | None => GPanic end
  else GPanic.
Definition go_slice_g {A : Type} (l : list A) (lo hi : Z) : gres (list A) :=
  if (0 <=? lo) && (lo <=? hi) && (hi <=? Z.of_nat (length l))
  then GOk (firstn (Z.to_nat (hi - lo)) (skipn (Z.to_nat lo) l)) else GPanic.

Definition go_make_g {A : Type} (d : A) (n : Z) : gres (list A) :=
  if n <? 0 then GPanic else GOk (repeat d (Z.to_nat n)).
Definition go_set_g {A : Type} (l : list A) (i : Z) (v : A) : gres (list A) :=
  if (0 <=? i) && (i <? Z.of_nat (length l))
  then GOk (firstn (Z.to_nat i) l ++ v :: skipn (S (Z.to_nat i)) l) else GPanic.

(** A buffered channel used as a bounded FIFO by ONE sender or ONE receiver at a time: the buffered
    elements (oldest first) and the capacity. [ch_send] is the blocking send [ch <- v]: it proceeds
    when there is room and is [GPanic] otherwise ("would block": the lemmas about translated code
    carry the hypothesis that there is room). [ch_room] / [ch_push] are the two halves of the
    non-blocking send [select { case ch <- v: ... default: ... }], [ch_nonempty] / [ch_pop] those
    of the non-blocking receive. A nil channel is [mk_gchan [] 0]. *)
Record gchan (A : Type) := mk_gchan { ch_buf : list A; ch_cap : Z }.
Arguments mk_gchan {A} _ _.
Arguments ch_buf {A} _.
Arguments ch_cap {A} _.
Definition ch_len {A : Type} (c : gchan A) : Z := Z.of_nat (length (ch_buf c)).
Definition ch_room {A : Type} (c : gchan A) : bool := ch_len c <? ch_cap c.
Definition ch_push {A : Type} (c : gchan A) (v : A) : gchan A := mk_gchan (ch_buf c ++ [v]) (ch_cap c).
Definition ch_send {A : Type} (c : gchan A) (v : A) : gres (gchan A) :=
  if ch_room c then GOk (ch_push c v) else GPanic.
Definition ch_nonempty {A : Type} (c : gchan A) : bool := match ch_buf c with [] => false | _ => true end.
Definition ch_pop {A : Type} (c : gchan A) : gchan A := mk_gchan (tl (ch_buf c)) (ch_cap c).

(** [float64(x)] for a [float32] [x], on IEEE-754 bit patterns (32-bit pattern in, 64-bit pattern out):
    exact widening - sign, exponent re-biased, fraction shifted; subnormals normalised; infinities
    kept; a NaN keeps its payload (shifted) with the quiet bit set, as the hardware conversion does. *)
Definition go_f32_widen (b : Z) : Z :=
  let s := b / 2 ^ 31 in
  let e := (b / 2 ^ 23) mod 256 in
  let m := b mod 2 ^ 23 in
  s * 2 ^ 63 +
  (if e =? 255 then 2047 * 2 ^ 52 + (if m =? 0 then 0 else Z.lor (m * 2 ^ 29) (2 ^ 51))
   else if e =? 0 then
     (if m =? 0 then 0
      else let k := Z.log2 m in (874 + k) * 2 ^ 52 + (m - 2 ^ k) * 2 ^ (52 - k))
   else (e + 896) * 2 ^ 52 + m * 2 ^ 29).

Definition go_zeros (n : Z) : list Z := repeat 0 (Z.to_nat n).

(** [make([]T, n)] / [make([]T, n, c)] *)
Definition go_make (n : Z) : gres (list Z) := if n <? 0 then GPanic else GOk (go_zeros n).
Definition go_make_cap (n c : Z) : gres (list Z) :=
  if (n <? 0) || (c <? n) then GPanic else GOk (go_zeros n).

(** [copy(dst, src)]: the new contents of [dst] ([min(len dst, len src)] elements overwritten). *)
Definition go_copy (dst src : list Z) : list Z := firstn (length dst) src ++ skipn (length src) dst.
Definition go_copy_n (dst src : list Z) : Z := Z.min (go_len dst) (go_len src).

(** [[N]T(s)] (slice to array conversion, Go 1.20): panics when [len s < N]. *)
Definition go_to_array (n : Z) (s : list Z) : gres (list Z) :=
  if go_len s <? n then GPanic else GOk (firstn (Z.to_nat n) s).

Fixpoint list_eqb (a b : list Z) : bool :=
  match a, b with
  | [], [] => true
  | x :: a', y :: b' => (x =? y) && list_eqb a' b'
  | _, _ => false
  end.

(** division with Go's run-time check *)
Definition go_quot (a b : Z) : gres Z := if b =? 0 then GPanic else GOk (goquot a b).
Definition go_rem (a b : Z) : gres Z := if b =? 0 then GPanic else GOk (gorem a b).

(** nil dereference *)
Definition go_deref {A : Type} (p : option A) : gres A :=
  match p with Some a => GOk a | None => GPanic end.

Definition go_is_nil {A : Type} (p : option A) : bool := match p with Some _ => false | None => true end.

(** [*byte]: the start of a run of bytes in memory = [Some l] with [l] the bytes from that address
    to the end of the allocation, [None] = nil. [unsafe.Slice(p, n)]: nil pointer with [n = 0] is
    the nil slice, a negative [n] (or nil with [n <> 0]) panics; reaching past the allocation is
    undefined behaviour in Go and [GPanic] here. [unsafe.SliceData(s)] of a non-empty slice points
    at [s] (the translator's sources only use it on non-empty slices). *)
Definition go_unsafe_slice (p : option (list Z)) (n : Z) : gres (list Z) :=
  match p with
  | None => if n =? 0 then GOk [] else GPanic
  | Some l => if (0 <=? n) && (n <=? go_len l) then GOk (firstn (Z.to_nat n) l) else GPanic
  end.
Definition go_slice_data (s : list Z) : option (list Z) :=
  match s with [] => None | _ => Some s end.

(** * encoding/binary.BigEndian *)
Definition be_get (k : nat) (b : list Z) : gres Z :=
  if go_len b <? Z.of_nat k then GPanic else GOk (be_dec (firstn k b)).
(** [PutUintNN(b, v)]: the new contents of [b] *)
Definition be_put (k : nat) (b : list Z) (v : Z) : gres (list Z) :=
  if go_len b <? Z.of_nat k then GPanic else GOk (be_enc k v ++ skipn k b).
Definition be_append (k : nat) (b : list Z) (v : Z) : list Z := b ++ be_enc k v.

(** * Loops *)
Inductive lctl (S R : Type) : Type := LNext (s : S) | LBreak (s : S) | LRet (r : R).
Arguments LNext {S R} s.
Arguments LBreak {S R} s.
Arguments LRet {S R} r.

Inductive lres (S R : Type) : Type := LDone (s : S) | LRetd (r : R).
Arguments LDone {S R} s.
Arguments LRetd {S R} r.

(** [for i, v := range l { body }] with [i] starting at [i0] *)
Fixpoint range_loop {E S R : Type} (f : Z -> E -> S -> gres (lctl S R)) (i0 : Z) (l : list E) (s : S)
  : gres (lres S R) :=
  match l with
  | [] => GOk (LDone s)
  | v :: l' =>
      match f i0 v s with
      | GPanic => GPanic
      | GOk (LNext s') => range_loop f (i0 + 1) l' s'
      | GOk (LBreak s') => GOk (LDone s')
      | GOk (LRet r) => GOk (LRetd r)
      end
  end.

(** [for i := lo; i < hi; i++ { body }] ([i], [hi] not assigned in the body): [n] iterations *)
Fixpoint count_loop_n {S R : Type} (f : Z -> S -> gres (lctl S R)) (n : nat) (i : Z) (s : S)
  : gres (lres S R) :=
  match n with
  | O => GOk (LDone s)
  | Datatypes.S n' =>
      match f i s with
      | GPanic => GPanic
      | GOk (LNext s') => count_loop_n f n' (i + 1) s'
      | GOk (LBreak s') => GOk (LDone s')
      | GOk (LRet r) => GOk (LRetd r)
      end
  end.

Definition count_loop {S R : Type} (f : Z -> S -> gres (lctl S R)) (lo hi : Z) (s : S) : gres (lres S R) :=
  count_loop_n f (Z.to_nat (hi - lo)) lo s.

(** [for i := lo; i < hi; i += k { body }], [k] a positive constant: iteration [j] runs with
    [i = lo + j*k]. Go evaluates [i += k] before the failing test, so [hi <= MaxInt64 - k] keeps it
    from wrapping; beyond that the translation is [GPanic] (stricter than Go). *)
Definition stride_loop {S R : Type} (f : Z -> S -> gres (lctl S R)) (lo hi k : Z) (s : S) : gres (lres S R) :=
  if hi >? 9223372036854775807 - k then GPanic
  else count_loop (fun j st => f (lo + j * k) st) 0 ((hi - lo + k - 1) / k) s.

(** what follows the loop: [k] on normal exit with the final state, [kr] on an early [return] *)
Definition loop_k {S R X : Type} (l : gres (lres S R)) (k : S -> gres X) (kr : R -> gres X) : gres X :=
  match l with
  | GPanic => GPanic
  | GOk (LDone s) => k s
  | GOk (LRetd r) => kr r
  end.

(** * Lemmas *)

Lemma go_len_app a b : go_len (a ++ b) = go_len a + go_len b.
Proof. unfold go_len. rewrite app_length. lia. Qed.

Lemma go_len_nonneg l : 0 <= go_len l.
Proof. unfold go_len. lia. Qed.

Lemma go_len_cons x l : go_len (x :: l) = 1 + go_len l.
Proof. unfold go_len. cbn [length]. lia. Qed.

Lemma go_len_zeros n : 0 <= n -> go_len (go_zeros n) = n.
Proof. intros. unfold go_len, go_zeros. rewrite repeat_length. lia. Qed.

Lemma sub_all l : sub l 0 (go_len l) = l.
Proof.
  unfold sub, go_len. cbn [Z.to_nat skipn]. rewrite Z.sub_0_r, Nat2Z.id. apply firstn_all.
Qed.

Lemma sub_from l lo : 0 <= lo <= go_len l -> sub l lo (go_len l) = skipn (Z.to_nat lo) l.
Proof.
  unfold sub, go_len. intros H. apply firstn_all2. rewrite skipn_length. lia.
Qed.

Lemma sub_prefix l hi : sub l 0 hi = firstn (Z.to_nat hi) l.
Proof. unfold sub. rewrite Z.sub_0_r. reflexivity. Qed.

Lemma sub_app_r a b : sub (a ++ b) (go_len a) (go_len a + go_len b) = b.
Proof.
  unfold sub, go_len. rewrite Nat2Z.id. replace (Z.of_nat (length a) + Z.of_nat (length b) - Z.of_nat (length a))
    with (Z.of_nat (length b)) by lia.
  rewrite Nat2Z.id, skipn_app, skipn_all, Nat.sub_diag. cbn [app skipn]. apply firstn_all.
Qed.

Lemma go_slice_ok l lo hi : 0 <= lo <= hi -> hi <= go_len l -> go_slice l lo hi = GOk (sub l lo hi).
Proof.
  intros H1 H2. unfold go_slice.
  destruct ((0 <=? lo) && (lo <=? hi) && (hi <=? go_len l)) eqn:C; [reflexivity|lia].
Qed.

Lemma go_index_ok l i : 0 <= i < go_len l -> go_index l i = GOk (nth (Z.to_nat i) l 0).
Proof.
  intros H. unfold go_index. destruct ((0 <=? i) && (i <? go_len l)) eqn:C; [reflexivity|lia].
Qed.

Lemma go_make_ok n : 0 <= n -> go_make n = GOk (go_zeros n).
Proof. intros. unfold go_make. destruct (n <? 0) eqn:C; [lia|reflexivity]. Qed.

Lemma be_get_ok k b : Z.of_nat k <= go_len b -> be_get k b = GOk (be_dec (firstn k b)).
Proof. intros. unfold be_get. destruct (go_len b <? Z.of_nat k) eqn:C; [lia|reflexivity]. Qed.

Lemma be_put_ok k b v : Z.of_nat k <= go_len b -> be_put k b v = GOk (be_enc k v ++ skipn k b).
Proof. intros. unfold be_put. destruct (go_len b <? Z.of_nat k) eqn:C; [lia|reflexivity]. Qed.

(** a [range] loop whose body never panics, breaks or returns is a left fold *)
Lemma range_loop_fold {E S R : Type} (f : Z -> E -> S -> gres (lctl S R)) (g : S -> E -> S) :
  (forall i v s, f i v s = GOk (LNext (g s v))) ->
  forall l i0 s, range_loop f i0 l s = GOk (LDone (fold_left g l s)).
Proof.
  intros Hf. induction l as [|v l IH]; intros i0 s; cbn [range_loop fold_left]; [reflexivity|].
  rewrite Hf. apply IH.
Qed.

(** the same with the body constrained only on the elements of the list (e.g. bytes in range) *)
Lemma range_loop_fold_in {E S R : Type} (f : Z -> E -> S -> gres (lctl S R)) (g : S -> E -> S) :
  forall l, (forall i v s, In v l -> f i v s = GOk (LNext (g s v))) ->
  forall i0 s, range_loop f i0 l s = GOk (LDone (fold_left g l s)).
Proof.
  induction l as [|v l IH]; intros Hf i0 s; cbn [range_loop fold_left]; [reflexivity|].
  rewrite Hf by (left; reflexivity). apply IH. intros; apply Hf; right; assumption.
Qed.

(** [sum += uintN(v)] over a list: wrapped running sum = plain sum modulo 2^bits *)
Lemma wrapU_idem bits z : 0 <= bits -> wrapU bits (wrapU bits z) = wrapU bits z.
Proof. intros. unfold wrapU. apply Z.mod_mod. apply Z.pow_nonzero; lia. Qed.

Lemma wrapU_add bits a b : 0 <= bits -> wrapU bits (wrapU bits a + wrapU bits b) = wrapU bits (a + b).
Proof.
  intros. unfold wrapU. rewrite <- Z.add_mod; [reflexivity|]. apply Z.pow_nonzero; lia.
Qed.

Lemma wrapU_add_l bits a b : 0 <= bits -> wrapU bits (wrapU bits a + b) = wrapU bits (a + b).
Proof.
  intros. unfold wrapU. rewrite Z.add_mod_idemp_l; [reflexivity|]. apply Z.pow_nonzero; lia.
Qed.

Lemma wrapU_add_r bits a b : 0 <= bits -> wrapU bits (a + wrapU bits b) = wrapU bits (a + b).
Proof.
  intros. unfold wrapU. rewrite Z.add_mod_idemp_r; [reflexivity|]. apply Z.pow_nonzero; lia.
Qed.

Lemma fold_wrapped_sum bits l : 0 <= bits -> forall s,
  wrapU bits (fold_left (fun s v => wrapU bits (s + wrapU bits v)) l s) =
  wrapU bits (s + fold_right Z.add 0 l).
Proof.
  intros Hb. induction l as [|v l IH]; intros s; cbn [fold_left fold_right].
  - rewrite Z.add_0_r. reflexivity.
  - rewrite IH. rewrite wrapU_add_l by lia.
    replace (s + wrapU bits v + fold_right Z.add 0 l) with ((s + fold_right Z.add 0 l) + wrapU bits v) by lia.
    rewrite wrapU_add_r by lia. f_equal. lia.
Qed.

Lemma fold_wrapped_sum_ranged bits l s : 0 <= bits -> 0 <= s < 2 ^ bits ->
  fold_left (fun s v => wrapU bits (s + wrapU bits v)) l s = wrapU bits (s + fold_right Z.add 0 l).
Proof.
  intros Hb Hs. rewrite <- fold_wrapped_sum by lia.
  destruct l as [|v l]; cbn [fold_left].
  - unfold wrapU. rewrite Z.mod_small by lia. reflexivity.
  - symmetry. revert v s Hs. induction l as [|w l IH]; intros v s Hs; cbn [fold_left].
    + apply wrapU_idem; lia.
    + apply IH. unfold wrapU. apply Z.mod_pos_bound. apply Z.pow_pos_nonneg; lia.
Qed.

(** finite check lifted to a range of [Z] (for byte-level bit identities) *)
Fixpoint allb_upto (n : nat) (f : Z -> bool) : bool :=
  match n with
  | O => true
  | Datatypes.S n' => f (Z.of_nat n') && allb_upto n' f
  end.

Lemma allb_upto_spec n f : allb_upto n f = true -> forall z, 0 <= z < Z.of_nat n -> f z = true.
Proof.
  induction n as [|n IH]; intros H z Hz; [lia|].
  cbn [allb_upto] in H. apply andb_prop in H. destruct H as [H1 H2].
  destruct (Z.eq_dec z (Z.of_nat n)) as [->|Hne]; [assumption|]. apply IH; [assumption|lia].
Qed.
