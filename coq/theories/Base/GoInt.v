(** Go sized-integer arithmetic as explicit wrap-around on [Z].
    The translator emits every arithmetic result through [wrapS]/[wrapU] so that an
    overflow introduced by a code change is visible to the bridge lemmas instead of
    hiding behind unbounded [Z]. *)
From Coq Require Import ZArith Lia Bool.
Open Scope Z_scope.

Definition wrapU (bits : Z) (z : Z) : Z := z mod (2 ^ bits).

Definition wrapS (bits : Z) (z : Z) : Z :=
  let m := 2 ^ bits in
  let r := z mod m in
  if r <? 2 ^ (bits - 1) then r else r - m.

Definition inS (bits z : Z) : Prop := - 2 ^ (bits - 1) <= z < 2 ^ (bits - 1).
Definition inU (bits z : Z) : Prop := 0 <= z < 2 ^ bits.

Lemma wrapU_id bits z : inU bits z -> wrapU bits z = z.
Proof. unfold inU, wrapU; intros H; apply Z.mod_small; exact H. Qed.

Lemma wrapS_id bits z : 0 < bits -> inS bits z -> wrapS bits z = z.
Proof.
  unfold inS, wrapS; intros Hb H.
  assert (E : 2 ^ bits = 2 * 2 ^ (bits - 1)).
  { replace bits with (Z.succ (bits - 1)) at 1 by lia. rewrite Z.pow_succ_r by lia. reflexivity. }
  assert (P : 0 < 2 ^ (bits - 1)) by (apply Z.pow_pos_nonneg; lia).
  destruct (Z_lt_le_dec z 0) as [Hn|Hp].
  - assert (M : z mod 2 ^ bits = z + 2 ^ bits).
    { symmetry. apply Z.mod_unique with (q := -1); lia. }
    cbv zeta. rewrite M.
    destruct (z + 2 ^ bits <? 2 ^ (bits - 1)) eqn:C.
    + apply Z.ltb_lt in C. lia.
    + lia.
  - assert (M : z mod 2 ^ bits = z) by (apply Z.mod_small; lia).
    cbv zeta. rewrite M.
    destruct (z <? 2 ^ (bits - 1)) eqn:C.
    + reflexivity.
    + apply Z.ltb_ge in C. lia.
Qed.

(** Go shifts: the count is unsigned; a count >= width gives 0 (or the sign fill). *)
Definition shlU (bits a n : Z) : Z := if n <? bits then wrapU bits (Z.shiftl a n) else 0.
Definition shrU (bits a n : Z) : Z := if n <? bits then Z.shiftr a n else 0.
Definition shlS (bits a n : Z) : Z := if n <? bits then wrapS bits (Z.shiftl a n) else 0.
Definition shrS (bits a n : Z) : Z := if n <? bits then Z.shiftr a n else (if a <? 0 then -1 else 0).

(** Go integer division truncates toward zero. *)
Definition goquot (a b : Z) : Z := Z.quot a b.
Definition gorem (a b : Z) : Z := Z.rem a b.
