(** Round trips between the integer formatters and Go's ParseUint/ParseInt (base 10 and base 0),
    for ALL integers in range; plus the shape of formatted tokens (digits and '-' only). *)
From Coq Require Import ZArith List Lia Bool.
From GoSecs Require Import Base.Decimal.
Import ListNotations.
Open Scope Z_scope.

Definition dval (b : Z) (ds : bytes) (k : Z) : Z := fold_left (fun a c => a * b + (c - 48)) ds k.

Lemma dval_app b ds d k : dval b (ds ++ [d]) k = dval b ds k * b + (d - 48).
Proof. unfold dval. rewrite fold_left_app. reflexivity. Qed.

Definition digit_lt (b c : Z) : Prop := 48 <= c < 48 + b.

Lemma dval_cons b c ds k : dval b (c :: ds) k = dval b ds (k * b + (c - 48)).
Proof. reflexivity. Qed.

Lemma dval_ge b ds : 0 < b -> forall k, 0 <= k -> Forall (digit_lt b) ds -> k <= dval b ds k.
Proof.
  intros Hb. induction ds as [|c ds IH]; intros k Hk F.
  - unfold dval; cbn [fold_left]; lia.
  - inversion F as [|? ? Hc F']; subst. unfold digit_lt in Hc. rewrite dval_cons.
    assert (M : 0 <= k * b) by (apply Z.mul_nonneg_nonneg; lia).
    specialize (IH (k * b + (c - 48)) ltac:(lia) F').
    assert (k <= k * b) by nia. lia.
Qed.

Lemma digits_fuel_spec b : 2 <= b <= 10 -> forall f n acc,
  0 <= n < 2 ^ Z.of_nat (S f) ->
  exists ds, digits_fuel b (S f) n acc = ds ++ acc /\ ds <> [] /\ Forall (digit_lt b) ds /\
             dval b ds 0 = n /\ (0 < n -> hd 0 ds <> 48) /\ (n = 0 -> ds = [48]).
Proof.
  intros Hb. induction f as [|f IH]; intros n acc Hn.
  - change (2 ^ Z.of_nat 1) with 2 in Hn. cbn [digits_fuel].
    assert (n <? b = true) as -> by (apply Z.ltb_lt; lia).
    exists [48 + n]. repeat split.
    + discriminate.
    + constructor; [unfold digit_lt; lia|constructor].
    + unfold dval; cbn [fold_left]. lia.
    + cbn [hd]. lia.
    + intros ->. reflexivity.
  - remember (S f) as f1. cbn [digits_fuel]. destruct (n <? b) eqn:E.
    + apply Z.ltb_lt in E. exists [48 + n]. repeat split.
      * discriminate.
      * constructor; [unfold digit_lt; lia|constructor].
      * unfold dval; cbn [fold_left]. lia.
      * cbn [hd]. lia.
      * intros ->. reflexivity.
    + apply Z.ltb_ge in E.
      assert (P : 2 ^ Z.of_nat (S f1) = 2 * 2 ^ Z.of_nat f1).
      { rewrite Nat2Z.inj_succ, Z.pow_succ_r by lia. reflexivity. }
      assert (Hq : 0 <= n / b < 2 ^ Z.of_nat f1).
      { split; [apply Z.div_pos; lia|].
        apply Z.div_lt_upper_bound; [lia|]. nia. }
      destruct (IH (n / b) ((48 + n mod b) :: acc) Hq) as (ds & E1 & NE & F & V & H1 & H0).
      exists (ds ++ [48 + n mod b]). rewrite <- app_assoc. cbn [app]. split; [exact E1|].
      assert (Hm : 0 <= n mod b < b) by (apply Z.mod_pos_bound; lia).
      split; [destruct ds; discriminate|].
      split; [apply Forall_app; split; [exact F|constructor; [unfold digit_lt; lia|constructor]]|].
      split.
      { rewrite dval_app, V. pose proof (Z.div_mod n b ltac:(lia)). lia. }
      split.
      { intros _. destruct ds as [|d ds']; [contradiction|]. cbn [hd app].
        assert (0 < n / b) by (apply Z.div_str_pos; lia). apply H1 in H. exact H. }
      { intros ->. lia. }
Qed.

Lemma fuel_for_ok n : 0 <= n -> 0 <= n < 2 ^ Z.of_nat (S (Z.to_nat (Z.log2 n))).
Proof.
  intros Hn. split; [exact Hn|].
  rewrite Nat2Z.inj_succ, Z2Nat.id by apply Z.log2_nonneg.
  destruct (Z.eq_dec n 0) as [->|Hz]; [cbn; lia|].
  apply Z.log2_spec. lia.
Qed.

Lemma format_uint_spec n : 0 <= n ->
  exists ds, format_uint n = ds /\ ds <> [] /\ Forall (digit_lt 10) ds /\ dval 10 ds 0 = n /\
             (0 < n -> hd 0 ds <> 48) /\ (n = 0 -> ds = [48]).
Proof.
  intros Hn. destruct (digits_fuel_spec 10 ltac:(lia) (Z.to_nat (Z.log2 n)) n [] (fuel_for_ok n Hn))
    as (ds & E & R). exists ds. rewrite app_nil_r in E. split; [exact E|exact R].
Qed.

Lemma digit_lt_is_digit b c : b <= 10 -> digit_lt b c -> is_digit c = true.
Proof. unfold digit_lt, is_digit. intros. apply andb_true_iff. split; apply Z.leb_le; lia. Qed.

Lemma parse_digits_ok base maxv base0 : 2 <= base <= 10 -> forall ds k us,
  Forall (digit_lt base) ds -> 0 <= k -> dval base ds k <= maxv ->
  parse_digits base maxv base0 ds k us = (NOk (dval base ds k), us).
Proof.
  intros Hb. induction ds as [|c ds IH]; intros k us F Hk Hv.
  - reflexivity.
  - inversion F as [|? ? Hc F']; subst. cbn [parse_digits].
    assert (c =? 95 = false) as -> by (apply Z.eqb_neq; unfold digit_lt in Hc; lia).
    cbn [andb]. rewrite (digit_lt_is_digit base c) by (lia || assumption).
    assert (c - 48 >=? base = false) as -> by (unfold digit_lt in Hc; lia).
    assert (M : 0 <= k * base) by (apply Z.mul_nonneg_nonneg; lia).
    assert (Hk' : 0 <= k * base + (c - 48)) by (unfold digit_lt in Hc; lia).
    change (dval base (c :: ds) k) with (dval base ds (k * base + (c - 48))) in *.
    pose proof (dval_ge base ds ltac:(lia) _ Hk' F').
    assert (k * base + (c - 48) >? maxv = false) as -> by lia.
    apply IH; assumption.
Qed.

Lemma pow2_pos b : 0 <= b -> 0 < 2 ^ b.
Proof. intros. apply Z.pow_pos_nonneg; lia. Qed.

(** strconv.ParseUint(strconv.FormatUint(n,10), 0 or 10, bits) = n *)
Theorem parse_uint_format base0 bits n : 0 <= bits -> 0 <= n <= 2 ^ bits - 1 ->
  parse_uint base0 bits (format_uint n) = NOk n.
Proof.
  intros Hbits Hn. destruct (format_uint_spec n ltac:(lia)) as (ds & E & NE & F & V & H1 & H0).
  rewrite E. destruct ds as [|c0 t0]; [contradiction|].
  unfold parse_uint.
  destruct (base0 && (c0 =? 48)) eqn:B.
  - apply andb_true_iff in B. destruct B as [-> B]. apply Z.eqb_eq in B. subst c0.
    destruct (Z.eq_dec n 0) as [->|Hz]; [|exfalso; apply H1; [lia|reflexivity]].
    specialize (H0 eq_refl). inversion H0; subst. reflexivity.
  - rewrite (parse_digits_ok 10 (2 ^ bits - 1) base0 ltac:(lia) (c0 :: t0) 0 false F ltac:(lia)) by lia.
    cbn [andb]. rewrite V. reflexivity.
Qed.

(** strconv.ParseInt(strconv.FormatInt(n,10), 0 or 10, bits) = n *)
Theorem parse_int_format base0 bits n : 1 <= bits -> - 2 ^ (bits - 1) <= n < 2 ^ (bits - 1) ->
  parse_int base0 bits (format_int n) = NOk n.
Proof.
  intros Hbits Hn.
  assert (P : 2 ^ bits = 2 * 2 ^ (bits - 1)).
  { replace bits with (Z.succ (bits - 1)) at 1 by lia. rewrite Z.pow_succ_r by lia. reflexivity. }
  pose proof (pow2_pos (bits - 1) ltac:(lia)) as Pp.
  unfold format_int. destruct (n <? 0) eqn:En.
  - apply Z.ltb_lt in En. unfold parse_int.
    change (45 =? 43) with false. change (45 =? 45) with true. cbv iota beta.
    rewrite parse_uint_format by lia. cbn [negb andb].
    assert (- n >? 2 ^ (bits - 1) = false) as -> by lia. f_equal. lia.
  - apply Z.ltb_ge in En.
    destruct (format_uint_spec n En) as (ds & E & NE & F & V & H1 & H0).
    pose proof (parse_uint_format base0 bits n ltac:(lia) ltac:(lia)) as PU.
    rewrite E in *. destruct ds as [|c t]; [contradiction|].
    unfold parse_int.
    inversion F as [|? ? Hc F']; subst. unfold digit_lt in Hc.
    assert (c =? 43 = false) as -> by (apply Z.eqb_neq; lia).
    assert (c =? 45 = false) as -> by (apply Z.eqb_neq; lia).
    rewrite PU. cbn [negb andb].
    assert (dval 10 (c :: t) 0 >=? 2 ^ (bits - 1) = false) as -> by lia.
    reflexivity.
Qed.

(** formatted integers consist of decimal digits and '-' only *)
Definition int_char (c : Z) : Prop := 48 <= c <= 57 \/ c = 45.

Lemma format_uint_chars n : 0 <= n -> Forall int_char (format_uint n).
Proof.
  intros Hn. destruct (format_uint_spec n Hn) as (ds & E & _ & F & _). rewrite E.
  eapply Forall_impl; [|exact F]. unfold digit_lt, int_char. intros; lia.
Qed.

Lemma format_int_chars n : Forall int_char (format_int n).
Proof.
  unfold format_int. destruct (n <? 0) eqn:E.
  - apply Z.ltb_lt in E. constructor; [right; reflexivity|apply format_uint_chars; lia].
  - apply Z.ltb_ge in E. apply format_uint_chars; lia.
Qed.

Lemma format_uint_nonempty n : 0 <= n -> format_uint n <> [].
Proof. intros Hn. destruct (format_uint_spec n Hn) as (ds & E & NE & _). rewrite E. exact NE. Qed.

Lemma format_int_nonempty n : format_int n <> [].
Proof.
  unfold format_int. destruct (n <? 0) eqn:E; [discriminate|].
  apply Z.ltb_ge in E. apply format_uint_nonempty. exact E.
Qed.

(** ---------- byte tokens: "0xHH" (fmt %02X) and "0b…" (FormatInt base 2) ---------- *)

Definition all_bytes : list Z := map Z.of_nat (seq 0 256).

Lemma all_bytes_in b : 0 <= b < 256 -> In b all_bytes.
Proof.
  intros H. unfold all_bytes. apply in_map_iff. exists (Z.to_nat b). split; [lia|].
  apply in_seq. lia.
Qed.

Definition tok_hex (b : Z) : bytes := 48 :: 120 :: format_hex2 b.
Definition tok_bin (b : Z) : bytes := 48 :: 98 :: format_bin b.

Definition numres_is (r : numres) (v : Z) : bool := match r with NOk x => x =? v | _ => false end.

Lemma numres_is_eq r v : numres_is r v = true -> r = NOk v.
Proof. destruct r; cbn; try discriminate. intros H. apply Z.eqb_eq in H. congruence. Qed.

(** finite sweep over the 256 byte values, lifted with [forallb_forall] *)
Lemma byte_tokens_sweep :
  forallb (fun b => numres_is (parse_int true 64 (tok_hex b)) b && numres_is (parse_int true 64 (tok_bin b)) b
                    && numres_is (parse_uint true 64 (tok_hex b)) b) all_bytes = true.
Proof. vm_compute. reflexivity. Qed.

Theorem parse_int_tok_hex b : 0 <= b < 256 -> parse_int true 64 (tok_hex b) = NOk b.
Proof.
  intros H. pose proof (proj1 (forallb_forall _ _) byte_tokens_sweep b (all_bytes_in b H)) as S.
  apply andb_true_iff in S. destruct S as [S _]. apply andb_true_iff in S. destruct S as [S _].
  apply numres_is_eq. exact S.
Qed.

Theorem parse_int_tok_bin b : 0 <= b < 256 -> parse_int true 64 (tok_bin b) = NOk b.
Proof.
  intros H. pose proof (proj1 (forallb_forall _ _) byte_tokens_sweep b (all_bytes_in b H)) as S.
  apply andb_true_iff in S. destruct S as [S _]. apply andb_true_iff in S. destruct S as [_ S].
  apply numres_is_eq. exact S.
Qed.

Theorem parse_uint_tok_hex b : 0 <= b < 256 -> parse_uint true 64 (tok_hex b) = NOk b.
Proof.
  intros H. pose proof (proj1 (forallb_forall _ _) byte_tokens_sweep b (all_bytes_in b H)) as S.
  apply andb_true_iff in S. destruct S as [_ S]. apply numres_is_eq. exact S.
Qed.
