(** Go's integer text conversions as used by the SML renderers and the SML parser:
    [strconv.FormatInt/FormatUint/Itoa] (base 10, base 2), [fmt "%02X"], and
    [strconv.ParseUint/ParseInt] with base 10 and base 0 (prefixes, underscores, range).
    Text is [list Z] of bytes. The round-trip lemmas hold for ALL integers in range. *)
From Coq Require Import ZArith List Lia Bool.
Import ListNotations.
Open Scope Z_scope.

Definition bytes := list Z.

Definition byte_ok (b : Z) : bool := (0 <=? b) && (b <? 256).
Definition bytes_ok (s : bytes) : bool := forallb byte_ok s.

Definition blen (s : bytes) : Z := Z.of_nat (length s).

(** ---------- formatting ---------- *)

(** digits of [n] in base [b] (2 <= b <= 10), most significant first, prepended to [acc].
    The fuel is [1 + log2 n] >= number of digits; it is never exhausted (lemma [digits_fuel_spec]). *)
Fixpoint digits_fuel (b : Z) (f : nat) (n : Z) (acc : bytes) : bytes :=
  match f with
  | O => acc
  | S f' => if n <? b then (48 + n) :: acc
            else digits_fuel b f' (n / b) ((48 + n mod b) :: acc)
  end.

Definition fuel_for (n : Z) : nat := S (Z.to_nat (Z.log2 n)).

(** strconv.FormatUint(n, 10) / strconv.Itoa for n >= 0 *)
Definition format_uint (n : Z) : bytes := digits_fuel 10 (fuel_for n) n [].

(** strconv.FormatInt(n, 10) *)
Definition format_int (n : Z) : bytes :=
  if n <? 0 then 45 :: format_uint (- n) else format_uint n.

(** strconv.FormatInt(int64(b), 2) for a byte: unpadded base 2 *)
Definition format_bin (n : Z) : bytes := digits_fuel 2 (fuel_for n) n [].

(** upper-case hex digit, "0123456789ABCDEF"[d] *)
Definition hex_digit (d : Z) : Z := if d <? 10 then 48 + d else 55 + d.

(** fmt "%02X" of a byte *)
Definition format_hex2 (b : Z) : bytes := [hex_digit (b / 16); hex_digit (b mod 16)].

(** ---------- parsing (strconv.ParseUint / ParseInt) ---------- *)

Inductive numres := NOk (v : Z) | NSyntax | NRange.

(** lower(c) = c | ('x' - 'X') *)
Definition lower (c : Z) : Z := Z.lor c 32.

Definition is_digit (c : Z) : bool := (48 <=? c) && (c <=? 57).
Definition is_letter (c : Z) : bool := (97 <=? lower c) && (lower c <=? 122).

(** the digit loop of ParseUint. [n*base+d > maxv] is Go's two-step overflow test
    (n >= cutoff, then n1 < n || n1 > maxVal) written on unbounded integers: maxv <= 2^64-1.
    Returns the result and whether an underscore was seen. An overflow returns at once (before
    later characters are looked at), as in Go. *)
Fixpoint parse_digits (base maxv : Z) (base0 : bool) (s : bytes) (n : Z) (us : bool) : numres * bool :=
  match s with
  | [] => (NOk n, us)
  | c :: s' =>
      if (c =? 95) && base0 then parse_digits base maxv base0 s' n true
      else
        let d := if is_digit c then Some (c - 48)
                 else if is_letter c then Some (lower c - 97 + 10) else None in
        match d with
        | None => (NSyntax, us)
        | Some d =>
            if d >=? base then (NSyntax, us)
            else let n1 := n * base + d in
                 if n1 >? maxv then (NRange, us)
                 else parse_digits base maxv base0 s' n1 us
        end
  end.

(** strconv.underscoreOK *)
Inductive saw := SawStart | SawDigit | SawUnder | SawOther.
Definition saw_is_digit (s : saw) := match s with SawDigit => true | _ => false end.
Definition saw_is_under (s : saw) := match s with SawUnder => true | _ => false end.

Fixpoint underscore_loop (hex : bool) (s : bytes) (sw : saw) : bool :=
  match s with
  | [] => negb (saw_is_under sw)
  | c :: s' =>
      if is_digit c || (hex && (97 <=? lower c) && (lower c <=? 102)) then underscore_loop hex s' SawDigit
      else if c =? 95 then (if saw_is_digit sw then underscore_loop hex s' SawUnder else false)
      else if saw_is_under sw then false
      else underscore_loop hex s' SawOther
  end.

Definition underscore_ok (s : bytes) : bool :=
  let s := match s with c :: t => if (c =? 45) || (c =? 43) then t else s | [] => s end in
  match s with
  | 48 :: c1 :: t =>
      if (lower c1 =? 98) || (lower c1 =? 111) || (lower c1 =? 120)
      then underscore_loop (lower c1 =? 120) t SawDigit
      else underscore_loop false s SawStart
  | _ => underscore_loop false s SawStart
  end.

(** strconv.ParseUint(s, base, bitSize) for base = 10 ([base0 = false]) or base = 0
    ([base0 = true]); [bits] is the effective bit size (Go maps bitSize 0 to 64). *)
Definition parse_uint (base0 : bool) (bits : Z) (s0 : bytes) : numres :=
  match s0 with
  | [] => NSyntax
  | c0 :: t0 =>
      let '(base, s) :=
        if base0 && (c0 =? 48) then
          match t0 with
          | c1 :: t1 =>
              if (3 <=? blen s0) && (lower c1 =? 98) then (2, t1)
              else if (3 <=? blen s0) && (lower c1 =? 111) then (8, t1)
              else if (3 <=? blen s0) && (lower c1 =? 120) then (16, t1)
              else (8, t0)
          | [] => (8, t0)
          end
        else (10, s0) in
      let maxv := 2 ^ bits - 1 in
      match parse_digits base maxv base0 s 0 false with
      | (NOk n, us) => if us && negb (underscore_ok s0) then NSyntax else NOk n
      | (r, _) => r
      end
  end.

(** strconv.ParseInt(s, base, bitSize), same conventions. *)
Definition parse_int (base0 : bool) (bits : Z) (s : bytes) : numres :=
  match s with
  | [] => NSyntax
  | c :: t =>
      let '(neg, s1) := if c =? 43 then (false, t) else if c =? 45 then (true, t) else (false, s) in
      match parse_uint base0 bits s1 with
      | NSyntax => NSyntax
      | NRange => NRange   (* un = maxVal >= cutoff: range either way *)
      | NOk un =>
          let cutoff := 2 ^ (bits - 1) in
          if negb neg && (un >=? cutoff) then NRange
          else if neg && (un >? cutoff) then NRange
          else NOk (if neg then - un else un)
      end
  end.
