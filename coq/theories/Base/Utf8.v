(** Go's UTF-8 behaviour where the SML parser depends on it: [for i, ch := range s] decodes one
    rune per step (an invalid or truncated sequence yields U+FFFD and advances ONE byte), and
    [strings.Builder.WriteRune] / [string(rune)] re-encode a rune (invalid runes as U+FFFD). *)
From Coq Require Import ZArith List Bool.
From GoSecs Require Import Base.Decimal.
Import ListNotations.
Open Scope Z_scope.

Definition rune_error : Z := 65533.

Definition in_range (lo hi b : Z) : bool := (lo <=? b) && (b <=? hi).
Definition is_cont (b : Z) : bool := in_range 128 191 b.

(** utf8.DecodeRuneInString as used by range-over-string: (rune, width in bytes). Width is >= 1
    for a non-empty string. The accept ranges of the second byte follow unicode/utf8's table. *)
Definition decode_rune (s : bytes) : Z * nat :=
  match s with
  | [] => (rune_error, O)
  | b0 :: t =>
      if b0 <? 128 then (b0, 1%nat)
      else if b0 <? 194 then (rune_error, 1%nat)
      else if b0 <? 224 then
        match t with
        | b1 :: _ => if is_cont b1 then (Z.lor (Z.shiftl (Z.land b0 31) 6) (Z.land b1 63), 2%nat)
                     else (rune_error, 1%nat)
        | _ => (rune_error, 1%nat)
        end
      else if b0 <? 240 then
        let lo := if b0 =? 224 then 160 else 128 in
        let hi := if b0 =? 237 then 159 else 191 in
        match t with
        | b1 :: b2 :: _ =>
            if in_range lo hi b1 && is_cont b2
            then (Z.lor (Z.lor (Z.shiftl (Z.land b0 15) 12) (Z.shiftl (Z.land b1 63) 6)) (Z.land b2 63), 3%nat)
            else (rune_error, 1%nat)
        | _ => (rune_error, 1%nat)
        end
      else if b0 <? 245 then
        let lo := if b0 =? 240 then 144 else 128 in
        let hi := if b0 =? 244 then 143 else 191 in
        match t with
        | b1 :: b2 :: b3 :: _ =>
            if in_range lo hi b1 && is_cont b2 && is_cont b3
            then (Z.lor (Z.lor (Z.lor (Z.shiftl (Z.land b0 7) 18) (Z.shiftl (Z.land b1 63) 12))
                               (Z.shiftl (Z.land b2 63) 6)) (Z.land b3 63), 4%nat)
            else (rune_error, 1%nat)
        | _ => (rune_error, 1%nat)
        end
      else (rune_error, 1%nat)
  end.

(** utf8.AppendRune (WriteRune, string(rune)) *)
Definition encode_rune (r : Z) : bytes :=
  if (0 <=? r) && (r <? 128) then [r]
  else if (0 <=? r) && (r <? 2048) then [Z.lor 192 (Z.shiftr r 6); Z.lor 128 (Z.land r 63)]
  else if (r <? 0) || (1114111 <? r) || in_range 55296 57343 r then [239; 191; 189]
  else if r <? 65536 then
    [Z.lor 224 (Z.shiftr r 12); Z.lor 128 (Z.land (Z.shiftr r 6) 63); Z.lor 128 (Z.land r 63)]
  else
    [Z.lor 240 (Z.shiftr r 18); Z.lor 128 (Z.land (Z.shiftr r 12) 63);
     Z.lor 128 (Z.land (Z.shiftr r 6) 63); Z.lor 128 (Z.land r 63)].

(** an ASCII byte is its own rune of width one *)
Lemma decode_rune_ascii b t : b <? 128 = true -> decode_rune (b :: t) = (b, 1%nat).
Proof. intros H. cbn [decode_rune]. rewrite H. reflexivity. Qed.
