(** Bytes as [Z] with an explicit range predicate, big-endian packing, two's complement.
    Big-endian packing is [rev ∘ le_enc] (DESIGN.md 2.7); unpacking is the left fold the Go code
    performs ([acc<<8 | b]). *)
From Coq Require Import ZArith Lia List Bool ZifyBool.
Import ListNotations.
Open Scope Z_scope.

Definition byte_ok (b : Z) : Prop := 0 <= b < 256.
Definition byte_okb (b : Z) : bool := (0 <=? b) && (b <? 256).
Definition bytes_ok (l : list Z) : Prop := Forall byte_ok l.
Definition bytes_okb (l : list Z) : bool := forallb byte_okb l.

Lemma byte_okb_spec b : byte_okb b = true <-> byte_ok b.
Proof. unfold byte_okb, byte_ok. lia. Qed.

Lemma bytes_okb_spec l : bytes_okb l = true <-> bytes_ok l.
Proof.
  unfold bytes_okb, bytes_ok. rewrite forallb_forall, Forall_forall.
  split; intros H x Hx; apply byte_okb_spec; auto.
Qed.

Lemma bytes_ok_app l1 l2 : bytes_ok (l1 ++ l2) <-> bytes_ok l1 /\ bytes_ok l2.
Proof. unfold bytes_ok. apply Forall_app. Qed.

Lemma bytes_ok_rev l : bytes_ok l -> bytes_ok (rev l).
Proof. unfold bytes_ok. apply Forall_rev. Qed.

(** * Little-endian core, big-endian wrappers *)

(** Low byte and shift written with [Z.land]/[Z.shiftr] (cheap when extracted; the division
    algorithm of [Z.modulo] is quadratic in the bit length); [le_enc_S] is the arithmetic reading
    every proof uses. Both agree on negative [v] too (two's complement). *)
Fixpoint le_enc (k : nat) (v : Z) : list Z :=
  match k with
  | O => []
  | S k' => Z.land v 255 :: le_enc k' (Z.shiftr v 8)
  end.

Lemma le_enc_S k v : le_enc (S k) v = v mod 256 :: le_enc k (v / 256).
Proof.
  cbn [le_enc]. change 255 with (Z.ones 8). rewrite Z.land_ones by lia.
  rewrite Z.shiftr_div_pow2 by lia. reflexivity.
Qed.

Fixpoint le_dec (l : list Z) : Z :=
  match l with
  | [] => 0
  | b :: r => b + 256 * le_dec r
  end.

Definition be_enc (k : nat) (v : Z) : list Z := rev (le_enc k v).

(** What the Go code computes: [int(b0)<<16 | int(b1)<<8 | int(b2)], [binary.BigEndian.UintNN]. *)
Definition be_dec (l : list Z) : Z := fold_left (fun a b => a * 256 + b) l 0.

Definition pow256 (k : nat) : Z := 256 ^ Z.of_nat k.

Lemma pow256_S k : pow256 (S k) = 256 * pow256 k.
Proof. unfold pow256. rewrite Nat2Z.inj_succ, Z.pow_succ_r by lia. reflexivity. Qed.

Lemma pow256_pos k : 0 < pow256 k.
Proof. unfold pow256. apply Z.pow_pos_nonneg; lia. Qed.

Lemma le_enc_length k v : length (le_enc k v) = k.
Proof. revert v; induction k; intros; [reflexivity|]. rewrite le_enc_S. cbn [length]. auto. Qed.

Lemma be_enc_length k v : length (be_enc k v) = k.
Proof. unfold be_enc. rewrite rev_length. apply le_enc_length. Qed.

Lemma le_enc_ok k v : bytes_ok (le_enc k v).
Proof.
  revert v; induction k; intros; [constructor|]. rewrite le_enc_S. constructor.
  - unfold byte_ok. apply Z.mod_pos_bound. lia.
  - apply IHk.
Qed.

Lemma be_enc_ok k v : bytes_ok (be_enc k v).
Proof. apply bytes_ok_rev, le_enc_ok. Qed.

Lemma le_dec_enc k v : 0 <= v < pow256 k -> le_dec (le_enc k v) = v.
Proof.
  revert v; induction k; intros v H.
  - unfold pow256 in H. cbn in H. cbn. lia.
  - rewrite pow256_S in H. rewrite le_enc_S. cbn [le_dec].
    rewrite IHk.
    + pose proof (Z.div_mod v 256). lia.
    + split; [apply Z.div_pos; lia|]. apply Z.div_lt_upper_bound; lia.
Qed.

Lemma le_dec_range l : bytes_ok l -> 0 <= le_dec l < pow256 (length l).
Proof.
  induction 1 as [|b r Hb Hr IH]; cbn [le_dec length].
  - unfold pow256; cbn; lia.
  - rewrite pow256_S. unfold byte_ok in Hb. lia.
Qed.

Lemma le_enc_dec l : bytes_ok l -> le_enc (length l) (le_dec l) = l.
Proof.
  induction 1 as [|b r Hb Hr IH]; cbn [le_dec length]; [reflexivity|]. rewrite le_enc_S.
  unfold byte_ok in Hb.
  assert (E1 : (b + 256 * le_dec r) mod 256 = b).
  { symmetry. apply Z.mod_unique with (q := le_dec r); lia. }
  assert (E2 : (b + 256 * le_dec r) / 256 = le_dec r).
  { symmetry. apply Z.div_unique with (r := b); lia. }
  rewrite E1, E2, IH. reflexivity.
Qed.

Lemma be_dec_snoc l b : be_dec (l ++ [b]) = be_dec l * 256 + b.
Proof. unfold be_dec. rewrite fold_left_app. reflexivity. Qed.

Lemma be_dec_rev l : be_dec (rev l) = le_dec l.
Proof.
  induction l as [|b r IH]; [reflexivity|].
  cbn [rev le_dec]. rewrite be_dec_snoc, IH. lia.
Qed.

Lemma be_dec_le l : be_dec l = le_dec (rev l).
Proof. rewrite <- be_dec_rev, rev_involutive. reflexivity. Qed.

Theorem be_dec_enc k v : 0 <= v < pow256 k -> be_dec (be_enc k v) = v.
Proof. intros. unfold be_enc. rewrite be_dec_rev. apply le_dec_enc; auto. Qed.

Theorem be_dec_range l : bytes_ok l -> 0 <= be_dec l < pow256 (length l).
Proof.
  intros H. rewrite be_dec_le. rewrite <- (rev_length l). apply le_dec_range, bytes_ok_rev, H.
Qed.

Theorem be_enc_dec l : bytes_ok l -> be_enc (length l) (be_dec l) = l.
Proof.
  intros H. unfold be_enc. rewrite be_dec_le, <- (rev_length l).
  rewrite le_enc_dec by (apply bytes_ok_rev, H). apply rev_involutive.
Qed.

(** Unfolded forms for the three length-field sizes (what [decodeItem] writes out by hand). *)
Lemma be_dec_1 a : be_dec [a] = a.
Proof. unfold be_dec; cbn. lia. Qed.
Lemma be_dec_2 a b : be_dec [a; b] = a * 256 + b.
Proof. unfold be_dec; cbn. lia. Qed.
Lemma be_dec_3 a b c : be_dec [a; b; c] = a * 65536 + b * 256 + c.
Proof. unfold be_dec; cbn. lia. Qed.

(** * Two's complement at a given modulus [m = 2 * h] *)

Definition to_unsigned (m v : Z) : Z := v mod m.
Definition to_signed (m u : Z) : Z := if u <? m / 2 then u else u - m.

Lemma signed_unsigned m v : 0 < m -> m mod 2 = 0 -> - (m / 2) <= v < m / 2 ->
  to_signed m (to_unsigned m v) = v.
Proof.
  intros Hm He Hv. unfold to_signed, to_unsigned.
  assert (E : m = 2 * (m / 2)) by (pose proof (Z.div_mod m 2); lia).
  destruct (Z_lt_le_dec v 0) as [Hn|Hp].
  - assert (M : v mod m = v + m).
    { symmetry. apply Z.mod_unique with (q := -1); lia. }
    rewrite M. destruct (v + m <? m / 2) eqn:C; lia.
  - rewrite Z.mod_small by lia. destruct (v <? m / 2) eqn:C; lia.
Qed.

Lemma unsigned_signed m u : 0 < m -> m mod 2 = 0 -> 0 <= u < m ->
  to_unsigned m (to_signed m u) = u /\ - (m / 2) <= to_signed m u < m / 2.
Proof.
  intros Hm He Hu. unfold to_signed, to_unsigned.
  assert (E : m = 2 * (m / 2)) by (pose proof (Z.div_mod m 2); lia).
  destruct (u <? m / 2) eqn:C.
  - rewrite Z.mod_small by lia. lia.
  - split; [|lia]. symmetry. apply Z.mod_unique with (q := -1); lia.
Qed.

Lemma to_unsigned_range m v : 0 < m -> 0 <= to_unsigned m v < m.
Proof. intros. unfold to_unsigned. apply Z.mod_pos_bound; auto. Qed.

(** * Splitting a byte list at a [Z] position without computing its length
    ([owned[pos:pos+n]] with the bounds check that precedes it). *)

Fixpoint split_at (n : Z) (bs : list Z) : option (list Z * list Z) :=
  if n <=? 0 then Some ([], bs)
  else match bs with
       | [] => None
       | b :: r => match split_at (n - 1) r with
                   | Some (p, s) => Some (b :: p, s)
                   | None => None
                   end
       end.

Fixpoint has_len (n : Z) (bs : list Z) : bool :=
  if n <=? 0 then true
  else match bs with
       | [] => false
       | _ :: r => has_len (n - 1) r
       end.

Lemma split_at_unfold n bs : split_at n bs =
  if n <=? 0 then Some ([], bs)
  else match bs with
       | [] => None
       | b :: r => match split_at (n - 1) r with
                   | Some (p, s) => Some (b :: p, s)
                   | None => None
                   end
       end.
Proof. destruct bs; reflexivity. Qed.

Lemma has_len_unfold n bs : has_len n bs =
  if n <=? 0 then true
  else match bs with [] => false | _ :: r => has_len (n - 1) r end.
Proof. destruct bs; reflexivity. Qed.

Lemma split_at_app p s : split_at (Z.of_nat (length p)) (p ++ s) = Some (p, s).
Proof.
  induction p as [|b p IH]; rewrite split_at_unfold.
  - reflexivity.
  - cbn [length app]. destruct (Z.of_nat (S (length p)) <=? 0) eqn:C; [lia|].
    replace (Z.of_nat (S (length p)) - 1) with (Z.of_nat (length p)) by lia.
    rewrite IH. reflexivity.
Qed.

Lemma split_at_some n bs p s : 0 <= n -> split_at n bs = Some (p, s) ->
  bs = p ++ s /\ Z.of_nat (length p) = n.
Proof.
  revert n p s; induction bs as [|b r IH]; intros n p s Hn; rewrite split_at_unfold.
  - destruct (n <=? 0) eqn:C; [|discriminate]. intros [= <- <-]. split; [reflexivity|cbn; lia].
  - destruct (n <=? 0) eqn:C.
    + intros [= <- <-]. split; [reflexivity|cbn; lia].
    + destruct (split_at (n - 1) r) as [[p' s']|] eqn:E; [|discriminate].
      intros [= <- <-]. apply IH in E; [|lia]. destruct E as [-> E].
      cbn [length app]. split; [reflexivity|lia].
Qed.

Lemma split_at_none n bs : split_at n bs = None -> Z.of_nat (length bs) < n.
Proof.
  revert n; induction bs as [|b r IH]; intros n; rewrite split_at_unfold.
  - destruct (n <=? 0) eqn:C; [discriminate|]. cbn. lia.
  - destruct (n <=? 0) eqn:C; [discriminate|].
    destruct (split_at (n - 1) r) as [[p' s']|] eqn:E; [discriminate|].
    intros _. apply IH in E. cbn [length]. lia.
Qed.

Lemma split_at_short n bs : Z.of_nat (length bs) < n -> split_at n bs = None.
Proof.
  intros H. destruct (split_at n bs) as [[p s]|] eqn:E; [|reflexivity].
  apply split_at_some in E; [|lia]. destruct E as [-> E].
  rewrite app_length in H. lia.
Qed.

Lemma has_len_spec n bs : has_len n bs = (n <=? Z.of_nat (length bs)).
Proof.
  revert n; induction bs as [|b r IH]; intros n; rewrite has_len_unfold.
  - cbn [length]. destruct (n <=? 0) eqn:C; lia.
  - destruct (n <=? 0) eqn:C.
    + cbn [length]. lia.
    + rewrite IH. cbn [length]. lia.
Qed.
