(** Allocation accounting of secs2.Decode: the sizes the Go code passes to [make] / [new] while
    decoding, as a function of the input bytes (64-bit layout: a [[]Item] slot is 16 bytes, an
    int64/uint64/float64 element 8, a bool 1; struct sizes as reported by unsafe.Sizeof).
    Leaves carved from the per-type slabs are charged their struct size; the unused tail of the
    last chunk of each of the 8 slabs (at most 128 structs of at most 72 bytes each) is the
    constant [slab_tail]. Error values are a constant number of small allocations, not counted. *)
From Coq Require Import ZArith List Bool.
From GoSecs Require Import Base.BytesBE Secs2.Item Secs2.Decode.
Import ListNotations.
Open Scope Z_scope.

Definition sz_list_struct := 64.
Definition sz_child_slot := 16.
Definition sz_num_struct := 72.
Definition sz_num_elem := 8.
Definition sz_bool_struct := 64.
Definition sz_str_struct := 48.   (* ASCIIItem, JIS8Item *)
Definition sz_bin_struct := 56.   (* BinaryItem, LocalizedStrItem *)
Definition sz_slab_header := 320. (* decodeSlab: 8 x (slice header + 2 ints) *)
Definition slab_tail := 8 * 128 * 72.

Definition cost_num (w : width) (len : Z) (bs : list Z) : Z :=
  if negb (len mod wz w =? 0) then 0
  else if negb (has_len len bs) then 0
  else if len / wz w =? 1 then sz_num_struct
       else sz_num_struct + sz_num_elem * (len / wz w).

Definition cost_leaf (fc len : Z) (bs : list Z) : Z :=
  if (fc =? fc_ascii) || (fc =? fc_jis8) then
    if has_len len bs then sz_str_struct else 0
  else if fc =? fc_binary then
    if has_len len bs then sz_bin_struct else 0
  else if fc =? fc_boolean then
    if has_len len bs then (if len =? 1 then sz_bool_struct else sz_bool_struct + len) else 0
  else if fc =? fc_localized then
    if len <? 2 then 0 else if has_len len bs then sz_bin_struct else 0
  else if fc =? fc_int W1 then cost_num W1 len bs
  else if fc =? fc_int W2 then cost_num W2 len bs
  else if fc =? fc_int W4 then cost_num W4 len bs
  else if fc =? fc_int W8 then cost_num W8 len bs
  else if fc =? fc_uint W1 then cost_num W1 len bs
  else if fc =? fc_uint W2 then cost_num W2 len bs
  else if fc =? fc_uint W4 then cost_num W4 len bs
  else if fc =? fc_uint W8 then cost_num W8 len bs
  else if fc =? fc_float W4 then cost_num W4 len bs
  else if fc =? fc_float W8 then cost_num W8 len bs
  else 0.

(** Same control flow as [decode_item] / [decode_children]; the position after a child is taken
    from [decode_item] itself. The child slice is sized from the length field AFTER the
    [len * 2 <= remaining] pre-check — the check the bound rests on. *)
Fixpoint cost_item (fuel : nat) (depth : Z) (bs : list Z) {struct fuel} : Z :=
  match fuel with
  | O => 0
  | S f =>
      match bs with
      | [] => 0
      | fb :: r1 =>
          let fc := fb / 4 in
          let nl := fb mod 4 in
          if nl =? 0 then 0
          else match split_at nl r1 with
               | None => 0
               | Some (lb, r2) =>
                   let len := be_dec lb in
                   if fc =? fc_list then
                     if depth + 1 >? max_depth then 0
                     else if negb (has_len (len * 2) r2) then 0
                     else sz_list_struct + sz_child_slot * len
                          + cost_children f (depth + 1) len r2
                   else cost_leaf fc len r2
               end
      end
  end
with cost_children (fuel : nat) (depth : Z) (n : Z) (bs : list Z) {struct fuel} : Z :=
  match fuel with
  | O => 0
  | S f =>
      if n <=? 0 then 0
      else cost_item f depth bs
           + match decode_item f depth bs with
             | Ok (_, r) => cost_children f depth (n - 1) r
             | Err _ => 0
             end
  end.

(** secs2.Decode: clone of the input + slab header + worst-case slab tails + the items.
    (DecodeOwned: the same without the clone.) *)
Definition decode_cost (bs : list Z) : Z :=
  match bs with
  | [] => 0
  | _ => zlen bs + sz_slab_header + slab_tail + cost_item (S (length bs)) 0 bs
  end.

(** The constant factor and offset of the bound (theorem [decode_cost_bound]). *)
Definition cost_per_byte : Z := 52.
Definition cost_factor : Z := 1 + cost_per_byte + 8 * max_depth.
Definition cost_offset : Z := sz_slab_header + slab_tail + 64 * max_depth.
