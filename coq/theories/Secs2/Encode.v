(** Model of Item.AppendTo / ToBytes / EncodedLen for constructed (not decoded) items. *)
From Coq Require Import ZArith List Bool.
From GoSecs Require Import Base.BytesBE Secs2.Item.
Import ListNotations.
Open Scope Z_scope.

(** appendHeaderBytesFC, literally: three length bytes, leading zero bytes dropped. *)
Definition header (fc n : Z) : list Z :=
  let b0 := (n / 65536) mod 256 in
  let b1 := (n / 256) mod 256 in
  let b2 := n mod 256 in
  if b0 =? 0 then
    if b1 =? 0 then [fc * 4 + 1; b2] else [fc * 4 + 2; b1; b2]
  else [fc * 4 + 3; b0; b1; b2].

(** headerLen, literally (bridged to the translated Go function). *)
Definition header_len (n : Z) : Z :=
  if n >? 65535 then 4 else if n >? 255 then 3 else 2.

Definition bool_byte (b : bool) : Z := if b then 1 else 0.

Definition enc_ints (w : width) (vs : list Z) : list Z :=
  flat_map (fun v => be_enc (wnat w) (to_unsigned (wmod w) v)) vs.
Definition enc_uints (w : width) (vs : list Z) : list Z :=
  flat_map (fun v => be_enc (wnat w) v) vs.

Fixpoint encode (x : item) : list Z :=
  match x with
  | IList cs => header fc_list (zlen cs) ++ flat_map encode cs
  | IBinary bs => header fc_binary (zlen bs) ++ bs
  | IBoolean vs => header fc_boolean (zlen vs) ++ map bool_byte vs
  | IAscii bs => header fc_ascii (zlen bs) ++ bs
  | IJis8 bs => header fc_jis8 (zlen bs) ++ bs
  | ILocalized lsh bs => header fc_localized (zlen bs + 2) ++ be_enc 2 lsh ++ bs
  | IInt w vs => header (fc_int w) (zlen vs * wz w) ++ enc_ints w vs
  | IUint w vs => header (fc_uint w) (zlen vs * wz w) ++ enc_uints w vs
  | IFloat w vs => header (fc_float w) (zlen vs * wz w) ++ enc_uints w vs
  | IEmpty => []
  end.

Fixpoint encoded_len (x : item) : Z :=
  match x with
  | IList cs => header_len (zlen cs) + fold_right (fun c a => encoded_len c + a) 0 cs
  | IEmpty => 0
  | _ => header_len (length_field x) + length_field x
  end.

(** AppendTo(dst), threading the destination buffer through the children as the Go code does
    ([dst = child.AppendTo(dst)]). ToBytes is [append_to x []]. *)
Fixpoint append_to (x : item) (dst : list Z) : list Z :=
  match x with
  | IList cs => fold_left (fun d c => append_to c d) cs (dst ++ header fc_list (zlen cs))
  | IBinary bs => (dst ++ header fc_binary (zlen bs)) ++ bs
  | IBoolean vs => fold_left (fun d v => d ++ [bool_byte v]) vs (dst ++ header fc_boolean (zlen vs))
  | IAscii bs => (dst ++ header fc_ascii (zlen bs)) ++ bs
  | IJis8 bs => (dst ++ header fc_jis8 (zlen bs)) ++ bs
  | ILocalized lsh bs => ((dst ++ header fc_localized (zlen bs + 2)) ++ be_enc 2 lsh) ++ bs
  | IInt w vs =>
      fold_left (fun d v => d ++ be_enc (wnat w) (to_unsigned (wmod w) v)) vs
                (dst ++ header (fc_int w) (zlen vs * wz w))
  | IUint w vs =>
      fold_left (fun d v => d ++ be_enc (wnat w) v) vs (dst ++ header (fc_uint w) (zlen vs * wz w))
  | IFloat w vs =>
      fold_left (fun d v => d ++ be_enc (wnat w) v) vs (dst ++ header (fc_float w) (zlen vs * wz w))
  | IEmpty => dst
  end.

Definition to_bytes (x : item) : list Z := append_to x [].
