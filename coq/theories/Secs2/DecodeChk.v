(** Instrumented twin of decode.go: same algorithm written with explicit positions into the
    owned buffer, where EVERY index expression [owned[i]], slice expression [owned[lo:hi]] and
    [binary.BigEndian.UintNN(owned[start:])] returns [OPanic] when it reaches outside
    [0, len(owned)) — exactly where Go would panic (or, for a reslice within spare capacity,
    silently read stale bytes). The theorem [chk_no_panic] shows the bounds checks in the code
    are sufficient; [chk_agrees] that this twin computes what [Decode.decode_item] computes. *)
From Coq Require Import ZArith List Bool.
From GoSecs Require Import Base.BytesBE Secs2.Item Secs2.Decode.
Import ListNotations.
Open Scope Z_scope.

Inductive outcome :=
| OPanic
| OErr (e : derr)
| OOk (y : item) (pos : Z).

(** [owned[lo : lo+n]] *)
Definition sub (owned : list Z) (lo n : Z) : option (list Z) :=
  if (0 <=? lo) && (0 <=? n) && (lo + n <=? zlen owned)
  then Some (firstn (Z.to_nat n) (skipn (Z.to_nat lo) owned))
  else None.

(** [owned[i]] *)
Definition get (owned : list Z) (i : Z) : option Z :=
  match sub owned i 1 with
  | Some [b] => Some b
  | _ => None
  end.

(** the [switch lenByteCount] that assembles the length from 1..3 indexed bytes *)
Definition chk_len (owned : list Z) (pos nl : Z) : option Z :=
  if nl =? 1 then get owned pos
  else if nl =? 2 then
    match get owned pos, get owned (pos + 1) with
    | Some a, Some b => Some (a * 256 + b)
    | _, _ => None
    end
  else
    match get owned pos, get owned (pos + 1), get owned (pos + 2) with
    | Some a, Some b, Some c => Some (a * 65536 + b * 256 + c)
    | _, _, _ => None
    end.

(** [for i := range count { start := pos + i*w; vals[i] = BigEndian.UintW(owned[start:]) }] *)
Fixpoint chk_elems (owned : list Z) (start w : Z) (count : nat) : option (list Z) :=
  match count with
  | O => Some []
  | S c => match sub owned start w with
           | None => None
           | Some e => match chk_elems owned (start + w) w c with
                       | None => None
                       | Some r => Some (be_dec e :: r)
                       end
           end
  end.

Definition chk_num (k : numkind) (w : width) (owned : list Z) (start_pos pos len : Z) : outcome :=
  if negb (len mod wz w =? 0) then OErr ErrMultiple
  else if pos + len >? zlen owned then OErr ErrEndPayload
  else match chk_elems owned pos (wz w) (Z.to_nat (len / wz w)) with
       | None => OPanic
       | Some us =>
           match sub owned start_pos (pos + len - start_pos) with   (* setRaw(owned[startPos:pos]) *)
           | None => OPanic
           | Some _ =>
               OOk (match k with
                    | KInt => IInt w (map (to_signed (wmod w)) us)
                    | KUint => IUint w us
                    | KFloat => IFloat w us
                    end) (pos + len)
           end
       end.

Definition chk_bytes (mk : list Z -> item) (owned : list Z) (start_pos pos len : Z) : outcome :=
  if pos + len >? zlen owned then OErr ErrEndPayload
  else match sub owned pos len with
       | None => OPanic
       | Some p => match sub owned start_pos (pos + len - start_pos) with
                   | None => OPanic
                   | Some _ => OOk (mk p) (pos + len)
                   end
       end.

Definition chk_leaf (fc : Z) (owned : list Z) (start_pos pos len : Z) : outcome :=
  if fc =? fc_ascii then chk_bytes IAscii owned start_pos pos len
  else if fc =? fc_jis8 then chk_bytes IJis8 owned start_pos pos len
  else if fc =? fc_binary then chk_bytes IBinary owned start_pos pos len
  else if fc =? fc_boolean then
    if pos + len >? zlen owned then OErr ErrEndPayload
    else match chk_elems owned pos 1 (Z.to_nat len) with   (* owned[pos+i] != 0 *)
         | None => OPanic
         | Some bs => match sub owned start_pos (pos + len - start_pos) with
                      | None => OPanic
                      | Some _ => OOk (IBoolean (map byte_bool bs)) (pos + len)
                      end
         end
  else if fc =? fc_localized then
    if len <? 2 then OErr ErrLocShort
    else if pos + len >? zlen owned then OErr ErrEndPayload
    else match get owned pos, get owned (pos + 1), sub owned (pos + 2) (len - 2) with
         | Some a, Some b, Some s =>
             match sub owned start_pos (pos + len - start_pos) with
             | None => OPanic
             | Some _ => OOk (ILocalized (a * 256 + b) s) (pos + len)
             end
         | _, _, _ => OPanic
         end
  else if fc =? fc_int W1 then chk_num KInt W1 owned start_pos pos len
  else if fc =? fc_int W2 then chk_num KInt W2 owned start_pos pos len
  else if fc =? fc_int W4 then chk_num KInt W4 owned start_pos pos len
  else if fc =? fc_int W8 then chk_num KInt W8 owned start_pos pos len
  else if fc =? fc_uint W1 then chk_num KUint W1 owned start_pos pos len
  else if fc =? fc_uint W2 then chk_num KUint W2 owned start_pos pos len
  else if fc =? fc_uint W4 then chk_num KUint W4 owned start_pos pos len
  else if fc =? fc_uint W8 then chk_num KUint W8 owned start_pos pos len
  else if fc =? fc_float W4 then chk_num KFloat W4 owned start_pos pos len
  else if fc =? fc_float W8 then chk_num KFloat W8 owned start_pos pos len
  else OErr ErrUnknownFc.

Inductive couts :=
| CPanic
| CErr (e : derr)
| COk (cs : list item) (pos : Z).

Fixpoint chk_item (fuel : nat) (owned : list Z) (pos depth : Z) {struct fuel} : outcome :=
  match fuel with
  | O => OErr ErrFuel
  | S f =>
      if pos >=? zlen owned then OErr ErrEndFormat
      else match get owned pos with
           | None => OPanic
           | Some fb =>
               let pos1 := pos + 1 in
               let fc := fb / 4 in
               let nl := fb mod 4 in
               if nl =? 0 then OErr ErrZeroLen
               else if pos1 + nl >? zlen owned then OErr ErrEndLength
               else match chk_len owned pos1 nl with
                    | None => OPanic
                    | Some len =>
                        let pos2 := pos1 + nl in
                        if fc =? fc_list then
                          if depth + 1 >? max_depth then OErr ErrDepth
                          else if len * 2 >? zlen owned - pos2 then OErr ErrListCount
                          else match chk_children f owned pos2 (depth + 1) len with
                               | CPanic => OPanic
                               | CErr e => OErr e
                               | COk cs pos3 =>
                                   match sub owned pos (pos3 - pos) with
                                   | None => OPanic
                                   | Some _ => OOk (IList cs) pos3
                                   end
                               end
                        else chk_leaf fc owned pos pos2 len
                    end
           end
  end
with chk_children (fuel : nat) (owned : list Z) (pos depth n : Z) {struct fuel} : couts :=
  match fuel with
  | O => CErr ErrFuel
  | S f =>
      if n <=? 0 then COk [] pos
      else match chk_item f owned pos depth with
           | OPanic => CPanic
           | OErr e => CErr e
           | OOk c pos' =>
               match chk_children f owned pos' depth (n - 1) with
               | CPanic => CPanic
               | CErr e => CErr e
               | COk cs pos'' => COk (c :: cs) pos''
               end
           end
  end.

(** Decode / DecodeOwned differ only in [bytes.Clone]: both run this on the same bytes. *)
Definition chk_decode (bs : list Z) : outcome :=
  match bs with
  | [] => OOk IEmpty 0
  | _ => chk_item (S (length bs)) bs 0 0
  end.
