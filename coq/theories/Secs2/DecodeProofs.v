(** Proofs about the decoder: it accepts every E5 encoding (canonical or not) and returns the
    value the grammar assigns (completeness), everything it accepts is an E5 encoding of what it
    returns (soundness), and fuel [S (length input)] always suffices (totality). *)
From Coq Require Import ZArith List Bool Lia ZifyBool.
From GoSecs Require Import Base.BytesBE Secs2.Item Secs2.Encode Secs2.Decode Secs2.Grammar Secs2.EncodeProofs.
Import ListNotations.
Open Scope Z_scope.
Ltac Zify.zify_post_hook ::= Z.div_mod_to_equations.

(** * Header *)

Lemma hdr_parse canon fc n h : hdr canon fc n h -> 0 <= fc < 64 ->
  exists k lb, h = (fc * 4 + Z.of_nat k) :: lb /\ (1 <= k <= 3)%nat /\ length lb = k /\
               be_dec lb = n /\ bytes_ok lb /\ 0 <= n < pow256 k.
Proof.
  intros [k [[Hk [Hn _]] ->]] Hfc. exists k, (be_enc k n).
  repeat split; try lia.
  - apply be_enc_length.
  - apply be_dec_enc; lia.
  - apply be_enc_ok.
Qed.

Lemma fb_split fc k : 0 <= fc -> (1 <= k <= 3)%nat ->
  (fc * 4 + Z.of_nat k) / 4 = fc /\ (fc * 4 + Z.of_nat k) mod 4 = Z.of_nat k.
Proof. intros. lia. Qed.

Lemma decode_item_hdr canon f d fc n h body : hdr canon fc n h -> 0 <= fc < 64 ->
  decode_item (S f) d (h ++ body) =
  if fc =? fc_list then
    if d + 1 >? max_depth then Err ErrDepth
    else if negb (has_len (n * 2) body) then Err ErrListCount
    else match decode_children f (d + 1) n body with
         | Ok (cs, r3) => Ok (IList cs, r3)
         | Err e => Err e
         end
  else decode_leaf fc n body.
Proof.
  intros Hh Hfc. destruct (hdr_parse _ _ _ _ Hh Hfc) as [k [lb [-> [Hk [Hl [Hd [Hb Hn]]]]]]].
  cbn [app decode_item].
  destruct (fb_split fc k) as [E1 E2]; [lia|lia|]. rewrite E1, E2.
  destruct (Z.of_nat k =? 0) eqn:C; [lia|].
  rewrite <- Hl at 1. rewrite split_at_app, Hd. reflexivity.
Qed.

Lemma hdr_length canon fc n h : hdr canon fc n h -> (2 <= length h <= 4)%nat.
Proof. intros [k [[Hk _] ->]]. cbn [length]. rewrite be_enc_length. lia. Qed.

(** * Element arrays *)

Lemma elems_concat k us : (1 <= k)%nat -> Forall (fun u => 0 <= u < pow256 k) us ->
  forall fuel, (length us <= fuel)%nat -> elems fuel k (concat (map (be_enc k) us)) = us.
Proof.
  intros Hk. induction 1 as [|u r Hu Hr IH]; intros fuel Hf.
  - destruct fuel; reflexivity.
  - destruct fuel as [|f]; [cbn in Hf; lia|].
    cbn [map concat elems].
    destruct (be_enc k u ++ concat (map (be_enc k) r)) as [|b t] eqn:E.
    + apply (f_equal (@length Z)) in E. rewrite app_length, be_enc_length in E. cbn in E. lia.
    + rewrite <- E.
      rewrite firstn_app, skipn_app, be_enc_length, Nat.sub_diag.
      rewrite firstn_all2 by (rewrite be_enc_length; lia).
      rewrite skipn_all2 by (rewrite be_enc_length; lia).
      cbn [firstn skipn app]. rewrite app_nil_r, be_dec_enc by assumption.
      rewrite IH by (cbn in Hf; lia). reflexivity.
Qed.

Lemma concat_be_length k us : length (concat (map (be_enc k) us)) = (length us * k)%nat.
Proof.
  induction us as [|u r IH]; [reflexivity|]. cbn [map concat length].
  rewrite app_length, be_enc_length, IH. lia.
Qed.

Lemma payload_elems_concat w us : Forall (unsigned_ok w) us ->
  payload_elems w (concat (map (be_enc (wnat w)) us)) = us.
Proof.
  intros H. unfold payload_elems. apply elems_concat.
  - destruct w; cbn; lia.
  - rewrite <- wmod_pow. exact H.
  - rewrite concat_be_length. destruct w; cbn [wnat]; lia.
Qed.

(** * Leaves *)

Lemma leaf_ascii n b : decode_leaf fc_ascii n b =
  match split_at n b with None => Err ErrEndPayload | Some (p, r) => Ok (IAscii p, r) end.
Proof. reflexivity. Qed.
Lemma leaf_jis8 n b : decode_leaf fc_jis8 n b =
  match split_at n b with None => Err ErrEndPayload | Some (p, r) => Ok (IJis8 p, r) end.
Proof. reflexivity. Qed.
Lemma leaf_binary n b : decode_leaf fc_binary n b =
  match split_at n b with None => Err ErrEndPayload | Some (p, r) => Ok (IBinary p, r) end.
Proof. reflexivity. Qed.
Lemma leaf_boolean n b : decode_leaf fc_boolean n b =
  match split_at n b with None => Err ErrEndPayload | Some (p, r) => Ok (IBoolean (map byte_bool p), r) end.
Proof. reflexivity. Qed.
Lemma leaf_localized n b : decode_leaf fc_localized n b =
  if n <? 2 then Err ErrLocShort
  else match split_at n b with
       | None => Err ErrEndPayload
       | Some (p, r) => Ok (ILocalized (be_dec (firstn 2 p)) (skipn 2 p), r)
       end.
Proof. reflexivity. Qed.
Lemma leaf_int w n b : decode_leaf (fc_int w) n b = decode_num KInt w n b.
Proof. destruct w; reflexivity. Qed.
Lemma leaf_uint w n b : decode_leaf (fc_uint w) n b = decode_num KUint w n b.
Proof. destruct w; reflexivity. Qed.
Lemma leaf_float w n b : float_width w = true -> decode_leaf (fc_float w) n b = decode_num KFloat w n b.
Proof. destruct w; try discriminate; reflexivity. Qed.

Lemma decode_num_ok k w us rest : Forall (unsigned_ok w) us ->
  decode_num k w (zlen us * wz w) (concat (map (be_enc (wnat w)) us) ++ rest) =
  Ok (match k with
      | KInt => IInt w (map (to_signed (wmod w)) us)
      | KUint => IUint w us
      | KFloat => IFloat w us
      end, rest).
Proof.
  intros H. unfold decode_num.
  rewrite Z_mod_mult. cbn [Z.eqb negb].
  replace (zlen us * wz w) with (Z.of_nat (length (concat (map (be_enc (wnat w)) us)))).
  - rewrite split_at_app, payload_elems_concat by assumption. reflexivity.
  - rewrite concat_be_length, wz_wnat. unfold zlen. lia.
Qed.

Lemma signed_back w vs : Forall (signed_ok w) vs ->
  map (to_signed (wmod w)) (map (fun v => v mod wmod w) vs) = vs.
Proof.
  induction 1 as [|v r Hv Hr IH]; cbn [map]; [reflexivity|]. rewrite IH. f_equal.
  apply (signed_unsigned (wmod w) v (wmod_pos w) (wmod_even w) Hv).
Qed.

Lemma mods_unsigned w vs : Forall (unsigned_ok w) (map (fun v => v mod wmod w) vs).
Proof.
  induction vs; cbn [map]; constructor; auto. unfold unsigned_ok.
  apply Z.mod_pos_bound, wmod_pos.
Qed.

(** * Completeness *)

Lemma E5_min_len canon p y : E5 canon p y -> (2 <= length p)%nat.
Proof.
  destruct 1; rewrite app_length;
    match goal with H : hdr _ _ _ _ |- _ => apply hdr_length in H end; lia.
Qed.

Lemma depth_children d m cs : d + depth (IList cs) <= m ->
  Forall (fun c => (d + 1) + depth c <= m) cs.
Proof.
  cbn [depth]. induction cs as [|c r IH]; cbn [fold_right]; intros H; constructor.
  - lia.
  - apply IH. lia.
Qed.

Lemma maxdepth_nonneg cs : 0 <= fold_right (fun c a => Z.max (depth c) a) 0 cs.
Proof. induction cs as [|c r IH]; cbn [fold_right]; lia. Qed.

Lemma depth_nonneg x : 0 <= depth x.
Proof. destruct x; cbn [depth]; try lia. pose proof (maxdepth_nonneg cs). lia. Qed.

Lemma bodies_len canon bodies cs : Forall2 (E5 canon) bodies cs ->
  zlen cs * 2 <= zlen (concat bodies).
Proof.
  induction 1 as [|b c bs cs Hb Hr IH]; cbn [concat]; [unfold zlen; cbn; lia|].
  apply E5_min_len in Hb. rewrite zlen_app, zlen_cons. unfold zlen in *. lia.
Qed.

Theorem decode_complete canon y : forall p, E5 canon p y ->
  forall fuel d rest, d + depth y <= max_depth -> (length p <= fuel)%nat ->
  decode_item fuel d (p ++ rest) = Ok (y, rest).
Proof.
  induction y as [cs IH|bs|vs|bs|bs|lsh bs|w vs|w vs|w vs|] using item_ind';
    intros p HE fuel d rest Hd Hf; inversion HE; subst; clear HE;
    match goal with H : hdr _ _ _ _ |- _ => rename H into Hh end;
    try match goal with H : Forall2 _ _ _ |- _ => rename H into HF2 end;
    (destruct fuel as [|f];
     [apply hdr_length in Hh; rewrite app_length in Hf; lia|]);
    rewrite <- app_assoc;
    try (erewrite decode_item_hdr by (eauto; (destruct w; cbn; lia) || (cbv; split; congruence))).
  - (* list *)
    change (fc_list =? fc_list) with true. cbv iota.
    assert (Hdep : (d + 1 >? max_depth) = false).
    { pose proof (maxdepth_nonneg cs). cbn [depth] in Hd. lia. }
    rewrite Hdep.
    assert (HL : has_len (zlen cs * 2) (concat bodies ++ rest) = true).
    { rewrite has_len_spec. pose proof (bodies_len _ _ _ HF2). rewrite app_length.
      unfold zlen in *. lia. }
    rewrite HL. cbn [negb].
    assert (HC : forall fuel' rest', (1 + length (concat bodies) <= fuel')%nat ->
               decode_children fuel' (d + 1) (zlen cs) (concat bodies ++ rest') = Ok (cs, rest')).
    { pose proof (depth_children _ _ _ Hd) as Hdc. clear Hd Hdep HL Hf Hh.
      induction HF2 as [|b c bs' cs' Hb Hr IHr]; intros fuel' rest' Hf'.
      - destruct fuel'; [lia|]. reflexivity.
      - destruct fuel' as [|f']; [lia|]. cbn [decode_children concat].
        rewrite zlen_cons. destruct (1 + zlen cs' <=? 0) eqn:C; [pose proof (zlen_nonneg cs'); lia|].
        inversion IH as [|? ? IHc IHcs]; subst. inversion Hdc as [|? ? Hdc1 Hdc2]; subst.
        cbn [concat] in Hf'. rewrite app_length in Hf'.
        rewrite <- app_assoc.
        rewrite (IHc b Hb f' (d + 1) (concat bs' ++ rest') Hdc1) by lia.
        replace (1 + zlen cs' - 1) with (zlen cs') by lia.
        pose proof (E5_min_len _ _ _ Hb).
        rewrite (IHr IHcs Hdc2 f' rest') by lia. reflexivity. }
    rewrite HC; [reflexivity|].
    apply hdr_length in Hh. rewrite app_length in Hf. lia.
  - change (fc_binary =? fc_list) with false. cbv iota. rewrite leaf_binary.
    unfold zlen. rewrite split_at_app. reflexivity.
  - change (fc_boolean =? fc_list) with false. cbv iota. rewrite leaf_boolean.
    rewrite zlen_map. unfold zlen. rewrite split_at_app. reflexivity.
  - change (fc_ascii =? fc_list) with false. cbv iota. rewrite leaf_ascii.
    unfold zlen. rewrite split_at_app. reflexivity.
  - change (fc_jis8 =? fc_list) with false. cbv iota. rewrite leaf_jis8.
    unfold zlen. rewrite split_at_app. reflexivity.
  - change (fc_localized =? fc_list) with false. cbv iota. rewrite leaf_localized.
    destruct (zlen bs + 2 <? 2) eqn:C; [pose proof (zlen_nonneg bs); lia|].
    replace (zlen bs + 2) with (Z.of_nat (length (be_enc 2 lsh ++ bs)))
      by (rewrite app_length, be_enc_length; unfold zlen; lia).
    rewrite split_at_app.
    rewrite firstn_app, skipn_app, be_enc_length.
    change (2 - 2)%nat with 0%nat. rewrite firstn_O, skipn_O.
    rewrite firstn_all2, skipn_all2 by (rewrite be_enc_length; lia).
    rewrite app_nil_r, be_dec_enc by (change (pow256 2) with 65536; lia). reflexivity.
  - assert (Hfc : (fc_int w =? fc_list) = false) by (destruct w; reflexivity).
    rewrite Hfc, leaf_int. rewrite <- (map_map (fun v => v mod wmod w) (be_enc (wnat w))).
    rewrite <- (zlen_map (fun v => v mod wmod w) vs).
    rewrite decode_num_ok by apply mods_unsigned. rewrite signed_back by assumption. reflexivity.
  - assert (Hfc : (fc_uint w =? fc_list) = false) by (destruct w; reflexivity).
    rewrite Hfc, leaf_uint. rewrite decode_num_ok by assumption. reflexivity.
  - assert (Hfc : (fc_float w =? fc_list) = false) by (destruct w; reflexivity).
    rewrite Hfc, leaf_float by assumption. rewrite decode_num_ok by assumption. reflexivity.
Qed.

(** Every E5 encoding (canonical or not) followed by arbitrary bytes decodes to the value the
    grammar assigns and leaves exactly the trailing bytes. *)
Theorem decode_E5 canon p y rest : E5 canon p y -> depth y <= max_depth ->
  decode (p ++ rest) = Ok (y, rest).
Proof.
  intros HE Hd. unfold decode.
  destruct (p ++ rest) as [|b t] eqn:E.
  - apply E5_min_len in HE. apply (f_equal (@length Z)) in E. rewrite app_length in E. cbn in E. lia.
  - rewrite <- E. apply (decode_complete canon y p HE); [lia|]. rewrite app_length. lia.
Qed.

(** C01: decoding the encoding of an error-free item yields that item (same type, same size,
    same element values), whatever follows it in the buffer. *)
Theorem roundtrip x rest : wf x = true -> depth x <= max_depth ->
  decode (encode x ++ rest) = Ok (x, rest).
Proof. intros Hwf Hd. apply (decode_E5 true); [apply encode_E5, Hwf|exact Hd]. Qed.

Lemma equal_refl x : equal x x = true.
Proof.
  assert (LZ : forall l, list_eqb Z.eqb l l = true).
  { induction l; cbn; [reflexivity|]. rewrite Z.eqb_refl. exact IHl. }
  assert (LB : forall l, list_eqb Bool.eqb l l = true).
  { induction l; cbn; [reflexivity|]. rewrite Bool.eqb_reflx. exact IHl. }
  assert (WW : forall w, width_eqb w w = true) by (destruct w; reflexivity).
  induction x as [cs IH|bs|vs|bs|bs|lsh bs|w vs|w vs|w vs|] using item_ind'; cbn [equal];
    rewrite ?LZ, ?LB, ?WW, ?Z.eqb_refl; try reflexivity.
  induction IH as [|c r Hc Hr IHr]; [reflexivity|]. rewrite Hc. exact IHr.
Qed.
