(** A tree mixing constructed and decoded items encodes to a (receiver-side) E5 encoding of its
    logical value and decodes back to that value; its length is the reported EncodedLen. *)
From Coq Require Import ZArith List Bool Lia ZifyBool.
From GoSecs Require Import Base.BytesBE Secs2.Item Secs2.Encode Secs2.Decode Secs2.Grammar
  Secs2.EncodeProofs Secs2.DecodeProofs Secs2.DecodeSound Secs2.Raw.
Import ListNotations.
Open Scope Z_scope.

Lemma list_eqb_eq {A} (f : A -> A -> bool) (Hf : forall a b, f a b = true -> a = b) :
  forall l m, list_eqb f l m = true -> l = m.
Proof.
  induction l as [|a l IH]; intros [|b m] H; cbn in H; try discriminate; [reflexivity|].
  apply andb_true_iff in H. destruct H as [H1 H2]. f_equal; [apply Hf, H1|apply IH, H2].
Qed.

Lemma width_eqb_eq a b : width_eqb a b = true -> a = b.
Proof. destruct a, b; cbn; congruence. Qed.

Lemma equal_eq x : forall y, equal x y = true -> x = y.
Proof.
  assert (LZ := list_eqb_eq Z.eqb (fun a b H => proj1 (Z.eqb_eq a b) H)).
  assert (LB := list_eqb_eq Bool.eqb (fun a b H => Bool.eqb_prop a b H)).
  induction x as [cs IH|bs|vs|bs|bs|lsh bs|w vs|w vs|w vs|] using item_ind';
    intros y H; destruct y; cbn [equal] in H; try discriminate;
    try (apply andb_true_iff in H; destruct H as [H1 H2]);
    try (apply width_eqb_eq in H1; subst);
    try (apply Z.eqb_eq in H1; subst);
    try (f_equal; (apply LZ || apply LB); assumption); try reflexivity.
  f_equal. revert cs0 H. induction IH as [|c r Hc Hr IHr]; intros [|d s] H; try discriminate; [reflexivity|].
  apply andb_true_iff in H. destruct H as [H1 H2]. f_equal; [apply Hc, H1|apply IHr, H2].
Qed.

Lemma hdr_weaken canon fc n h : hdr canon fc n h -> hdr false fc n h.
Proof.
  intros [k [[Hk [Hn _]] E]]. exists k. split; [|exact E]. split; [exact Hk|]. split; [exact Hn|discriminate].
Qed.

(** The sender-side grammar is contained in the receiver-side grammar. *)
Lemma E5_weaken canon x : forall p, E5 canon p x -> E5 false p x.
Proof.
  induction x as [cs IH|bs|vs|bs|bs|lsh bs|w vs|w vs|w vs|] using item_ind';
    intros p H; inversion H; subst;
    match goal with Hh : hdr _ _ _ _ |- _ => apply hdr_weaken in Hh end.
  - apply E5_list; [assumption|].
    match goal with HF : Forall2 _ _ _ |- _ => rename HF into HF2 end.
    clear - IH HF2. revert IH.
    induction HF2 as [|b c bs' cs' Hb Hr IHr]; intros IH; constructor; inversion IH; subst; auto.
  - apply E5_binary; assumption.
  - apply E5_boolean; try assumption; try reflexivity. discriminate.
  - apply E5_ascii; assumption.
  - apply E5_jis8; assumption.
  - apply E5_localized; assumption.
  - apply E5_int; assumption.
  - apply E5_uint; assumption.
  - apply E5_float; assumption.
Qed.

Theorem encode_c_E5 c : wf_c c = true -> E5 false (encode_c c) (erase c).
Proof.
  induction c as [x|raw v|cs IH] using citem_ind'; cbn [wf_c encode_c erase]; intros Hwf.
  - apply (E5_weaken true), encode_E5, Hwf.
  - apply andb_true_iff in Hwf. destruct Hwf as [Hb Hd]. apply bytes_okb_spec in Hb.
    destruct (decode raw) as [[v' rest]|] eqn:E; [|discriminate].
    destruct rest; [|discriminate]. apply andb_true_iff in Hd. destruct Hd as [He Hne].
    apply equal_eq in He. subst v'.
    destruct (decode_sound raw v [] Hb E) as [[_ [-> _]]|[p [Ep [HE _]]]].
    + cbn in Hne. discriminate.
    + rewrite app_nil_r in Ep. subst p. exact HE.
  - apply andb_true_iff in Hwf. destruct Hwf as [Hn Hcs].
    rewrite flat_map_concat_map. apply E5_list.
    + rewrite zlen_map. apply (hdr_weaken true), hdr_of_header. pose proof (zlen_nonneg cs). lia.
    + clear Hn. induction IH as [|k r Hk Hr IHr]; cbn [map forallb] in *; constructor.
      * apply Hk. apply andb_true_iff in Hcs. tauto.
      * apply IHr. apply andb_true_iff in Hcs. tauto.
Qed.

(** C01 for mixed trees: whatever the children are (constructed or decoded, canonical or not),
    decoding the list's bytes yields its logical value. *)
Theorem roundtrip_c c rest : wf_c c = true -> depth (erase c) <= max_depth ->
  decode (encode_c c ++ rest) = Ok (erase c, rest).
Proof. intros Hwf Hd. apply (decode_E5 false); [apply encode_c_E5, Hwf|exact Hd]. Qed.

Theorem encode_c_length c : wf_c c = true -> zlen (encode_c c) = encoded_len_c c.
Proof.
  induction c as [x|raw v|cs IH] using citem_ind'; cbn [wf_c encode_c encoded_len_c]; intros Hwf.
  - apply encode_length, Hwf.
  - reflexivity.
  - apply andb_true_iff in Hwf. destruct Hwf as [Hn Hcs].
    rewrite zlen_app, header_length by (pose proof (zlen_nonneg cs); lia). f_equal. clear Hn.
    induction IH as [|k r Hk Hr IHr]; cbn [flat_map fold_right forallb] in *; [reflexivity|].
    apply andb_true_iff in Hcs. destruct Hcs as [H1 H2]. rewrite zlen_app, Hk, IHr by assumption. reflexivity.
Qed.

(** What Decode returns is well-formed in this sense (so decoded items can be nested at will). *)
Theorem decode_c_wf bs c : bytes_ok bs -> bs <> [] -> decode_c bs = Some c -> wf_c c = true.
Proof.
  intros Hb Hne. unfold decode_c. destruct (decode bs) as [[v rest]|] eqn:E; [|discriminate].
  intros [= <-]. cbn [wf_c].
  destruct (decode_sound bs v rest Hb E) as [[-> _]|[p [Ep [HE Hd]]]]; [congruence|].
  rewrite (decode_consumed bs rest p Ep).
  assert (Hp : bytes_ok p) by (rewrite Ep in Hb; apply bytes_ok_app in Hb; tauto).
  apply bytes_okb_spec in Hp. rewrite Hp. cbn [andb].
  pose proof (decode_E5 false p v [] HE Hd) as D. rewrite app_nil_r in D. rewrite D.
  rewrite equal_refl. cbn [andb]. destruct HE; reflexivity.
Qed.
