(** Proofs about the encoder: exact E5 bytes, reported length, AppendTo leaves the prefix alone. *)
From Coq Require Import ZArith List Bool Lia ZifyBool.
From GoSecs Require Import Base.BytesBE Secs2.Item Secs2.Encode Secs2.Grammar.
Import ListNotations.
Open Scope Z_scope.
Ltac Zify.zify_post_hook ::= Z.div_mod_to_equations.

Lemma pow256_1 : pow256 1 = 256. Proof. reflexivity. Qed.
Lemma pow256_2 : pow256 2 = 65536. Proof. reflexivity. Qed.
Lemma pow256_3 : pow256 3 = 16777216. Proof. reflexivity. Qed.
Lemma pow256_0 : pow256 0 = 1. Proof. reflexivity. Qed.

Lemma be_enc_1 n : be_enc 1 n = [n mod 256].
Proof. unfold be_enc. rewrite le_enc_S. reflexivity. Qed.
Lemma be_enc_2 n : be_enc 2 n = [(n / 256) mod 256; n mod 256].
Proof. unfold be_enc. rewrite !le_enc_S. reflexivity. Qed.
Lemma be_enc_3 n : be_enc 3 n = [(n / 256 / 256) mod 256; (n / 256) mod 256; n mod 256].
Proof. unfold be_enc. rewrite !le_enc_S. reflexivity. Qed.

(** The minimal-length-byte lemma: for EVERY n in range, the header the code emits uses the
    least number of length bytes that can hold n (boundaries 255/256, 65535/65536 included). *)
Lemma header_spec fc n : 0 <= n <= max_size ->
  exists k, nlen_ok true k n /\ header fc n = (fc * 4 + Z.of_nat k) :: be_enc k n.
Proof.
  unfold max_size, header, nlen_ok. intros Hn.
  assert (D : n / 256 / 256 = n / 65536) by (rewrite Z.div_div by lia; reflexivity).
  destruct ((n / 65536) mod 256 =? 0) eqn:C0.
  - destruct ((n / 256) mod 256 =? 0) eqn:C1.
    + exists 1%nat. rewrite pow256_1, be_enc_1.
      split; [|reflexivity]. split; [lia|]. split; [|auto].
      apply Z.eqb_eq in C0, C1.
      lia.
    + exists 2%nat. rewrite pow256_2, be_enc_2.
      split; [|reflexivity]. split; [lia|]. apply Z.eqb_eq in C0. apply Z.eqb_neq in C1.
      split; [|intros _; right; change (pow256 (2 - 1)) with 256]; lia.
  - exists 3%nat. rewrite pow256_3, be_enc_3, D.
    split; [|reflexivity]. split; [lia|]. apply Z.eqb_neq in C0.
    split; [|intros _; right; change (pow256 (3 - 1)) with 65536]; lia.
Qed.

Lemma header_length fc n : 0 <= n <= max_size -> zlen (header fc n) = header_len n.
Proof.
  unfold max_size, header, header_len, zlen. intros Hn.
  destruct ((n / 65536) mod 256 =? 0) eqn:C0; [destruct ((n / 256) mod 256 =? 0) eqn:C1|];
    cbn [length]; destruct (n >? 65535) eqn:G1; destruct (n >? 255) eqn:G2; lia.
Qed.

Lemma zlen_nonneg {A} (l : list A) : 0 <= zlen l.
Proof. unfold zlen. lia. Qed.

Lemma forallb_Forall' {A} (f : A -> bool) (P : A -> Prop) l :
  (forall x, f x = true -> P x) -> forallb f l = true -> Forall P l.
Proof.
  intros HP H. rewrite forallb_forall in H. apply Forall_forall. intros x Hx. apply HP, H, Hx.
Qed.

Lemma in_signed_ok w v : in_signed w v = true -> signed_ok w v.
Proof. unfold in_signed, signed_ok. lia. Qed.
Lemma in_unsigned_ok w v : in_unsigned w v = true -> unsigned_ok w v.
Proof. unfold in_unsigned, unsigned_ok. lia. Qed.

Lemma wz_pos w : 0 < wz w. Proof. destruct w; reflexivity. Qed.
Lemma wz_wnat w : wz w = Z.of_nat (wnat w). Proof. destruct w; reflexivity. Qed.
Lemma wmod_pow w : wmod w = pow256 (wnat w). Proof. destruct w; reflexivity. Qed.
Lemma wmod_pos w : 0 < wmod w. Proof. destruct w; reflexivity. Qed.
Lemma wmod_even w : wmod w mod 2 = 0. Proof. destruct w; reflexivity. Qed.

Lemma hdr_of_header fc n : 0 <= n <= max_size -> hdr true fc n (header fc n).
Proof. intros H. destruct (header_spec fc n H) as [k [Hk Hh]]. exists k. auto. Qed.

Lemma bool_bytes_ok vs : bytes_ok (map bool_byte vs).
Proof. induction vs as [|[] r IH]; constructor; auto; unfold byte_ok; cbn; lia. Qed.
Lemma bool_bytes_back vs : map byte_bool (map bool_byte vs) = vs.
Proof. induction vs as [|[] r IH]; cbn; f_equal; auto. Qed.
Lemma bool_bytes_01 vs : Forall (fun b => b = 0 \/ b = 1) (map bool_byte vs).
Proof. induction vs as [|[] r IH]; constructor; auto. Qed.

(** C01, first clause: the bytes are exactly the E5 encoding of the logical value. *)
Theorem encode_E5 x : wf x = true -> E5 true (encode x) x.
Proof.
  induction x as [cs IH|bs|vs|bs|bs|lsh bs|w vs|w vs|w vs|] using item_ind';
    cbn [wf encode]; intros Hwf.
  - apply andb_true_iff in Hwf as [Hn Hcs].
    rewrite flat_map_concat_map. apply E5_list.
    + apply hdr_of_header. pose proof (zlen_nonneg cs). lia.
    + clear Hn. induction IH as [|c r Hc Hr IHr]; cbn [map forallb] in *; constructor.
      * apply Hc. apply andb_true_iff in Hcs. tauto.
      * apply IHr. apply andb_true_iff in Hcs. tauto.
  - apply andb_true_iff in Hwf as [Hb Hn]. apply E5_binary.
    + apply hdr_of_header. pose proof (zlen_nonneg bs). lia.
    + apply bytes_okb_spec, Hb.
  - apply E5_boolean.
    + apply hdr_of_header. pose proof (zlen_nonneg vs). lia.
    + apply bool_bytes_ok.
    + apply bool_bytes_back.
    + intros _. apply bool_bytes_01.
  - apply andb_true_iff in Hwf as [Hb Hn]. apply E5_ascii.
    + apply hdr_of_header. pose proof (zlen_nonneg bs). lia.
    + apply bytes_okb_spec, Hb.
  - apply andb_true_iff in Hwf as [Hb Hn]. apply E5_jis8.
    + apply hdr_of_header. pose proof (zlen_nonneg bs). lia.
    + apply bytes_okb_spec, Hb.
  - repeat (apply andb_true_iff in Hwf as [Hwf ?]). apply E5_localized.
    + apply hdr_of_header. pose proof (zlen_nonneg bs). lia.
    + lia.
    + apply bytes_okb_spec. assumption.
  - apply andb_true_iff in Hwf as [Hv Hn]. unfold enc_ints. rewrite flat_map_concat_map.
    apply E5_int.
    + apply hdr_of_header. pose proof (zlen_nonneg vs). pose proof (wz_pos w). nia.
    + eapply forallb_Forall'; [apply in_signed_ok|exact Hv].
  - apply andb_true_iff in Hwf as [Hv Hn]. unfold enc_uints. rewrite flat_map_concat_map.
    apply E5_uint.
    + apply hdr_of_header. pose proof (zlen_nonneg vs). pose proof (wz_pos w). nia.
    + eapply forallb_Forall'; [apply in_unsigned_ok|exact Hv].
  - apply andb_true_iff in Hwf as [Hwf Hn]. apply andb_true_iff in Hwf as [Hw Hv].
    unfold enc_uints. rewrite flat_map_concat_map. apply E5_float.
    + exact Hw.
    + apply hdr_of_header. pose proof (zlen_nonneg vs). pose proof (wz_pos w). nia.
    + eapply forallb_Forall'; [apply in_unsigned_ok|exact Hv].
  - discriminate.
Qed.

(** * Length *)

Lemma zlen_app {A} (a b : list A) : zlen (a ++ b) = zlen a + zlen b.
Proof. unfold zlen. rewrite app_length. lia. Qed.
Lemma zlen_map {A B} (f : A -> B) l : zlen (map f l) = zlen l.
Proof. unfold zlen. rewrite map_length. reflexivity. Qed.
Lemma zlen_cons {A} (a : A) l : zlen (a :: l) = 1 + zlen l.
Proof. unfold zlen. cbn [length]. lia. Qed.

Lemma zlen_flat_map_const {A} (f : A -> list Z) k l :
  (forall v, zlen (f v) = k) -> zlen (flat_map f l) = zlen l * k.
Proof.
  intros Hf. induction l as [|a r IH]; cbn [flat_map]; [reflexivity|].
  rewrite zlen_app, Hf, IH, zlen_cons. lia.
Qed.

Lemma zlen_be_enc k v : zlen (be_enc k v) = Z.of_nat k.
Proof. unfold zlen. rewrite be_enc_length. reflexivity. Qed.

(** C01: the length of the encoding equals the reported EncodedLen. *)
Theorem encode_length x : wf x = true -> zlen (encode x) = encoded_len x.
Proof.
  assert (FM : forall w (f : Z -> Z) vs,
             zlen (flat_map (fun v => be_enc (wnat w) (f v)) vs) = zlen vs * wz w).
  { intros w f vs. apply zlen_flat_map_const. intros v. rewrite zlen_be_enc. symmetry. apply wz_wnat. }
  induction x as [cs IH|bs|vs|bs|bs|lsh bs|w vs|w vs|w vs|] using item_ind';
    cbn [wf encode encoded_len length_field size]; intros Hwf.
  - apply andb_true_iff in Hwf as [Hn Hcs].
    rewrite zlen_app, header_length by (pose proof (zlen_nonneg cs); lia).
    f_equal. clear Hn.
    induction IH as [|c r Hc Hr IHr]; cbn [flat_map fold_right forallb] in *; [reflexivity|].
    apply andb_true_iff in Hcs as [H1 H2]. rewrite zlen_app, Hc, IHr by assumption. reflexivity.
  - apply andb_true_iff in Hwf as [Hb Hn].
    rewrite zlen_app, header_length by (pose proof (zlen_nonneg bs); lia). reflexivity.
  - rewrite zlen_app, header_length by (pose proof (zlen_nonneg vs); lia).
    rewrite zlen_map. reflexivity.
  - apply andb_true_iff in Hwf as [Hb Hn].
    rewrite zlen_app, header_length by (pose proof (zlen_nonneg bs); lia). reflexivity.
  - apply andb_true_iff in Hwf as [Hb Hn].
    rewrite zlen_app, header_length by (pose proof (zlen_nonneg bs); lia). reflexivity.
  - apply andb_true_iff in Hwf as [Hb Hn].
    rewrite zlen_app, header_length by (pose proof (zlen_nonneg bs); lia).
    rewrite zlen_app, zlen_be_enc. lia.
  - apply andb_true_iff in Hwf as [Hb Hn].
    rewrite zlen_app, header_length by (pose proof (zlen_nonneg vs); pose proof (wz_pos w); nia).
    unfold enc_ints. rewrite FM. reflexivity.
  - apply andb_true_iff in Hwf as [Hb Hn].
    rewrite zlen_app, header_length by (pose proof (zlen_nonneg vs); pose proof (wz_pos w); nia).
    unfold enc_uints. rewrite (FM w (fun v => v)). reflexivity.
  - apply andb_true_iff in Hwf as [Hb Hn].
    rewrite zlen_app, header_length by (pose proof (zlen_nonneg vs); pose proof (wz_pos w); nia).
    unfold enc_uints. rewrite (FM w (fun v => v)). reflexivity.
  - discriminate.
Qed.

(** * AppendTo *)

Lemma fold_left_app_flat {A} (f : A -> list Z) vs init :
  fold_left (fun d v => d ++ f v) vs init = init ++ flat_map f vs.
Proof.
  revert init; induction vs as [|a r IH]; intros init; cbn [fold_left flat_map].
  - rewrite app_nil_r. reflexivity.
  - rewrite IH, app_assoc. reflexivity.
Qed.

(** C01: AppendTo(dst) = dst followed by the encoding; in particular the existing prefix is
    untouched and encoding is a function of the logical value alone. *)
Theorem append_to_spec x : forall dst, append_to x dst = dst ++ encode x.
Proof.
  induction x as [cs IH|bs|vs|bs|bs|lsh bs|w vs|w vs|w vs|] using item_ind';
    intros dst; cbn [append_to encode]; rewrite <- ?app_assoc; try reflexivity.
  - rewrite app_assoc. generalize (dst ++ header fc_list (zlen cs)). clear dst.
    induction IH as [|c r Hc Hr IHr]; intros init; cbn [fold_left flat_map].
    + rewrite app_nil_r. reflexivity.
    + rewrite Hc, IHr, app_assoc. reflexivity.
  - rewrite (fold_left_app_flat (fun v => [bool_byte v])), <- app_assoc. do 2 apply f_equal.
    induction vs as [|v r IHv]; cbn [flat_map map app]; [reflexivity|]. rewrite IHv. reflexivity.
  - rewrite fold_left_app_flat, <- app_assoc. reflexivity.
  - rewrite fold_left_app_flat, <- app_assoc. reflexivity.
  - rewrite fold_left_app_flat, <- app_assoc. reflexivity.
  - rewrite app_nil_r. reflexivity.
Qed.

Corollary to_bytes_encode x : to_bytes x = encode x.
Proof. unfold to_bytes. rewrite append_to_spec. reflexivity. Qed.

Corollary append_to_prefix x dst : firstn (length dst) (append_to x dst) = dst.
Proof.
  rewrite append_to_spec, firstn_app, Nat.sub_diag, firstn_all. cbn. apply app_nil_r.
Qed.
