(** SECS-II items as logical values (model of /repo/secs2 items; no proofs here).
    Floats are carried as raw IEEE-754 bit patterns (32-bit patterns for F4, 64-bit for F8), as
    they are on the wire; the binary64 -> binary32 narrowing NewFloatItem performs on float64
    arguments is outside this model. *)
From Coq Require Import ZArith List Bool.
From GoSecs Require Import Base.BytesBE.
Import ListNotations.
Open Scope Z_scope.

Inductive width := W1 | W2 | W4 | W8.

Definition wnat (w : width) : nat :=
  match w with W1 => 1 | W2 => 2 | W4 => 4 | W8 => 8 end%nat.
Definition wz (w : width) : Z :=
  match w with W1 => 1 | W2 => 2 | W4 => 4 | W8 => 8 end.
(** 2^(8w) *)
Definition wmod (w : width) : Z :=
  match w with W1 => 256 | W2 => 65536 | W4 => 4294967296 | W8 => 18446744073709551616 end.

Definition width_eqb (a b : width) : bool :=
  match a, b with W1, W1 | W2, W2 | W4, W4 | W8, W8 => true | _, _ => false end.

Inductive item :=
| IList (cs : list item)
| IBinary (bs : list Z)
| IBoolean (vs : list bool)
| IAscii (bs : list Z)
| IJis8 (bs : list Z)
| ILocalized (lsh : Z) (bs : list Z)
| IInt (w : width) (vs : list Z)
| IUint (w : width) (vs : list Z)
| IFloat (w : width) (vs : list Z)
| IEmpty.

(** Format codes (SEMI E5 9.2). Tied to the Go constants in Gen/BridgeSecs2.v. *)
Definition fc_list := 0.
Definition fc_binary := 8.
Definition fc_boolean := 9.
Definition fc_ascii := 16.
Definition fc_jis8 := 17.
Definition fc_localized := 18.
Definition fc_int (w : width) := match w with W8 => 24 | W1 => 25 | W2 => 26 | W4 => 28 end.
Definition fc_float (w : width) := match w with W8 => 32 | _ => 36 end.
Definition fc_uint (w : width) := match w with W8 => 40 | W1 => 41 | W2 => 42 | W4 => 44 end.

(** A wire byte read as a boolean: zero is false, anything else true. *)
Definition byte_bool (b : Z) : bool := negb (b =? 0).

Definition max_size : Z := 16777215.
Definition max_depth : Z := 64.

Definition zlen {A} (l : list A) : Z := Z.of_nat (length l).

(** Size() of the Go item. *)
Definition size (x : item) : Z :=
  match x with
  | IList cs => zlen cs
  | IBinary bs | IAscii bs | IJis8 bs => zlen bs
  | IBoolean vs => zlen vs
  | ILocalized _ bs => zlen bs + 2
  | IInt _ vs | IUint _ vs | IFloat _ vs => zlen vs
  | IEmpty => 0
  end.

(** The value of the SECS-II length field. *)
Definition length_field (x : item) : Z :=
  match x with
  | IInt w vs | IUint w vs | IFloat w vs => zlen vs * wz w
  | _ => size x
  end.

Definition in_signed (w : width) (v : Z) : bool := (- (wmod w / 2) <=? v) && (v <? wmod w / 2).
Definition in_unsigned (w : width) (v : Z) : bool := (0 <=? v) && (v <? wmod w).
Definition float_width (w : width) : bool := match w with W4 | W8 => true | _ => false end.

(** Well-formed = what an error-free constructor call can produce (EmptyItem children excluded:
    see the finding recorded for [L(NewEmptyItem())]). *)
Fixpoint wf (x : item) : bool :=
  match x with
  | IList cs => (zlen cs <=? max_size) && forallb wf cs
  | IBinary bs | IAscii bs | IJis8 bs => bytes_okb bs && (zlen bs <=? max_size)
  | IBoolean vs => zlen vs <=? max_size
  | ILocalized lsh bs => (0 <=? lsh) && (lsh <? 65536) && bytes_okb bs && (zlen bs + 2 <=? max_size)
  | IInt w vs => forallb (in_signed w) vs && (zlen vs * wz w <=? max_size)
  | IUint w vs => forallb (in_unsigned w) vs && (zlen vs * wz w <=? max_size)
  | IFloat w vs => float_width w && forallb (in_unsigned w) vs && (zlen vs * wz w <=? max_size)
  | IEmpty => false
  end.

(** What the Go constructors accept without a deferred error: [wf] plus EmptyItem anywhere
    (NewListItem does not refuse an EmptyItem child). Used by the correspondence driver only. *)
Fixpoint ctor_ok (x : item) : bool :=
  match x with
  | IList cs => (zlen cs <=? max_size) && forallb ctor_ok cs
  | IEmpty => true
  | _ => wf x
  end.

Fixpoint depth (x : item) : Z :=
  match x with
  | IList cs => 1 + fold_right (fun c a => Z.max (depth c) a) 0 cs
  | _ => 0
  end.

(** Structural equality as a boolean (the model of [secs2.Equal] on error-free items). *)
Fixpoint list_eqb {A} (f : A -> A -> bool) (a b : list A) : bool :=
  match a, b with
  | [], [] => true
  | x :: a', y :: b' => f x y && list_eqb f a' b'
  | _, _ => false
  end.

Fixpoint equal (x y : item) : bool :=
  match x, y with
  | IList a, IList b =>
      (fix go (a b : list item) : bool :=
         match a, b with
         | [], [] => true
         | x :: a', y :: b' => equal x y && go a' b'
         | _, _ => false
         end) a b
  | IBinary a, IBinary b | IAscii a, IAscii b | IJis8 a, IJis8 b => list_eqb Z.eqb a b
  | IBoolean a, IBoolean b => list_eqb Bool.eqb a b
  | ILocalized h a, ILocalized k b => (h =? k) && list_eqb Z.eqb a b
  | IInt w a, IInt v b | IUint w a, IUint v b | IFloat w a, IFloat v b =>
      width_eqb w v && list_eqb Z.eqb a b
  | IEmpty, IEmpty => true
  | _, _ => false
  end.

(** Induction principle for the rose tree. *)
Section ItemInd.
  Variable P : item -> Prop.
  Hypothesis HList : forall cs, Forall P cs -> P (IList cs).
  Hypothesis HBinary : forall bs, P (IBinary bs).
  Hypothesis HBoolean : forall vs, P (IBoolean vs).
  Hypothesis HAscii : forall bs, P (IAscii bs).
  Hypothesis HJis8 : forall bs, P (IJis8 bs).
  Hypothesis HLocalized : forall lsh bs, P (ILocalized lsh bs).
  Hypothesis HInt : forall w vs, P (IInt w vs).
  Hypothesis HUint : forall w vs, P (IUint w vs).
  Hypothesis HFloat : forall w vs, P (IFloat w vs).
  Hypothesis HEmpty : P IEmpty.

  Fixpoint item_ind' (x : item) : P x :=
    match x with
    | IList cs =>
        HList cs ((fix go (l : list item) : Forall P l :=
                     match l with
                     | [] => Forall_nil P
                     | c :: r => Forall_cons c (item_ind' c) (go r)
                     end) cs)
    | IBinary bs => HBinary bs
    | IBoolean vs => HBoolean vs
    | IAscii bs => HAscii bs
    | IJis8 bs => HJis8 bs
    | ILocalized lsh bs => HLocalized lsh bs
    | IInt w vs => HInt w vs
    | IUint w vs => HUint w vs
    | IFloat w vs => HFloat w vs
    | IEmpty => HEmpty
    end.
End ItemInd.
