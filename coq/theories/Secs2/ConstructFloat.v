(** Float family, uniform statement: whatever the presentation (float32, float64, integer with
    |v| <= 2^53, parsed string), an F4/F8 item stores [f4 w] (= clampF4 for F4, identity for F8) of the
    exact binary64 image of each input, in order. The code applies clampF4 only to float64 and string
    inputs; this file proves that it is the identity on every widened float32 and on every integer
    image, so the uniform statement holds. *)
From Coq Require Import ZArith Bool List Lia ZifyBool.
From GoSecs Require Import Base.GoInt Secs2.ConstructParse Secs2.Construct Secs2.ConstructProofs.
Import ListNotations.
Open Scope Z_scope.

Lemma frac_bound k a : 0 <= k <= 52 -> 2 ^ k <= a < 2 ^ (k + 1) ->
  0 <= (a - 2 ^ k) * 2 ^ (52 - k) < 2 ^ 52.
Proof.
  intros Hk Ha.
  assert (E1 : 2 ^ (k + 1) = 2 * 2 ^ k) by (rewrite Z.pow_add_r by lia; lia).
  assert (E2 : 2 ^ k * 2 ^ (52 - k) = 2 ^ 52) by (rewrite <- Z.pow_add_r by lia; f_equal; lia).
  assert (P1 : 0 < 2 ^ k) by (apply Z.pow_pos_nonneg; lia).
  assert (P2 : 0 < 2 ^ (52 - k)) by (apply Z.pow_pos_nonneg; lia).
  split; [apply Z.mul_nonneg_nonneg; lia|].
  rewrite <- E2. apply Z.mul_lt_mono_pos_r; lia.
Qed.

(** a bit pattern [s * 2^63 + x] with a small magnitude part is inside the F4 range or special *)
Lemma clamp_f4_small s x : (s = 0 \/ s = 1) -> 0 <= x < 2 ^ 63 ->
  (x <= maxf32_mag \/ 2047 * 2 ^ 52 <= x) -> clamp_f4 (s * 2 ^ 63 + x) = s * 2 ^ 63 + x.
Proof.
  intros Hs Hx Hc. unfold clamp_f4.
  assert (M : f64_mag (s * 2 ^ 63 + x) = x).
  { unfold f64_mag. change (2 ^ 63) with 9223372036854775808 in *. zdm. }
  destruct Hc as [Hc|Hc].
  - destruct (f64_special (s * 2 ^ 63 + x)); [reflexivity|].
    rewrite M. replace (x >? maxf32_mag) with false by lia. reflexivity.
  - assert (S : f64_special (s * 2 ^ 63 + x) = true).
    { unfold f64_special, f64_exp. change (2 ^ 63) with 9223372036854775808 in *.
      change (2 ^ 52) with 4503599627370496 in *. apply Z.eqb_eq. zdm. }
    rewrite S. reflexivity.
Qed.

Lemma widen_in_range b : 0 <= b < 2 ^ 32 -> clamp_f4 (f32_widen b) = f32_widen b.
Proof.
  intros Hb. unfold f32_widen.
  set (s := b / 2 ^ 31). set (e := (b / 2 ^ 23) mod 256). set (m := b mod 2 ^ 23).
  assert (Hs : s = 0 \/ s = 1).
  { unfold s. change (2 ^ 32) with 4294967296 in Hb. change (2 ^ 31) with 2147483648. zdm. }
  assert (He : 0 <= e < 256) by (unfold e; apply Z.mod_pos_bound; lia).
  assert (Hm : 0 <= m < 2 ^ 23) by (unfold m; apply Z.mod_pos_bound; lia).
  change (2 ^ 23) with 8388608 in Hm.
  apply clamp_f4_small; [exact Hs| |]; change (2 ^ 63) with 9223372036854775808;
    change (2 ^ 52) with 4503599627370496; change (2 ^ 29) with 536870912; unfold maxf32_mag.
  - (* magnitude part below 2^63 *)
    destruct (e =? 255) eqn:E1.
    + destruct (m =? 0) eqn:M0; [lia|].
      assert (L : Z.lor (m * 536870912) (2 ^ 51) < 2 ^ 52).
      { apply Z.log2_lt_pow2.
        - assert (0 <= Z.lor (m * 536870912) (2 ^ 51)) by (apply Z.lor_nonneg; split; lia).
          assert (Z.lor (m * 536870912) (2 ^ 51) <> 0).
          { intros C. apply Z.lor_eq_0_iff in C. destruct C as (_ & C). discriminate. }
          lia.
        - rewrite Z.log2_lor by lia. rewrite Z.log2_pow2 by lia.
          assert (Z.log2 (m * 536870912) < 52).
          { apply Z.log2_lt_pow2; [lia|]. change (2 ^ 52) with 4503599627370496. lia. }
          lia. }
      assert (0 <= Z.lor (m * 536870912) (2 ^ 51)) by (apply Z.lor_nonneg; split; lia).
      change (2 ^ 52) with 4503599627370496 in L. lia.
    + destruct (e =? 0) eqn:E0.
      * destruct (m =? 0) eqn:M0; [lia|].
        assert (Mp : 0 < m) by lia.
        pose proof (Z.log2_spec m Mp) as Sp. pose proof (Z.log2_nonneg m) as Ln.
        assert (Lk : Z.log2 m < 23) by (apply Z.log2_lt_pow2; [lia|change (2 ^ 23) with 8388608; lia]).
        replace (Z.succ (Z.log2 m)) with (Z.log2 m + 1) in Sp by lia.
        pose proof (frac_bound (Z.log2 m) m ltac:(lia) Sp) as F.
        change (2 ^ 52) with 4503599627370496 in F. cbv zeta. lia.
      * lia.
  - (* inside the F4 range, or special *)
    destruct (e =? 255) eqn:E1.
    + right. destruct (m =? 0) eqn:M0; [lia|].
      assert (0 <= Z.lor (m * 536870912) (2 ^ 51)) by (apply Z.lor_nonneg; split; lia). lia.
    + left. destruct (e =? 0) eqn:E0.
      * destruct (m =? 0) eqn:M0; [lia|].
        assert (Mp : 0 < m) by lia.
        pose proof (Z.log2_spec m Mp) as Sp. pose proof (Z.log2_nonneg m) as Ln.
        assert (Lk : Z.log2 m < 23) by (apply Z.log2_lt_pow2; [lia|change (2 ^ 23) with 8388608; lia]).
        replace (Z.succ (Z.log2 m)) with (Z.log2 m + 1) in Sp by lia.
        pose proof (frac_bound (Z.log2 m) m ltac:(lia) Sp) as F.
        change (2 ^ 52) with 4503599627370496 in F. cbv zeta. lia.
      * lia.
Qed.

Lemma int_in_range v : - two53 <= v <= two53 -> clamp_f4 (f64_of_Z v) = f64_of_Z v.
Proof.
  intros Hv. unfold f64_of_Z. destruct (v =? 0) eqn:V0; [reflexivity|].
  set (a := Z.abs v). set (e := Z.log2 a).
  assert (Ha : 0 < a <= two53) by (unfold a, two53 in *; lia).
  pose proof (Z.log2_spec a ltac:(lia)) as Sp. fold e in Sp.
  assert (Le : 0 <= e) by apply Z.log2_nonneg.
  assert (Ue : e <= 53).
  { unfold e. replace 53 with (Z.log2 two53) by reflexivity. apply Z.log2_le_mono. lia. }
  replace (Z.succ e) with (e + 1) in Sp by lia.
  assert (F : 0 <= (a - 2 ^ e) * 2 ^ (52 - e) < 2 ^ 52).
  { destruct (Z.eq_dec e 53) as [E|NE].
    - rewrite E in *. change (2 ^ (52 - 53)) with 0. lia.
    - apply frac_bound; [lia|exact Sp]. }
  change (2 ^ 52) with 4503599627370496 in *.
  replace ((if v <? 0 then 2 ^ 63 else 0) + (1023 + e) * 4503599627370496 + (a - 2 ^ e) * 2 ^ (52 - e))
    with ((if v <? 0 then 1 else 0) * 2 ^ 63 + ((1023 + e) * 4503599627370496 + (a - 2 ^ e) * 2 ^ (52 - e)))
    by (destruct (v <? 0); lia).
  apply clamp_f4_small.
  - destruct (v <? 0); lia.
  - change (2 ^ 63) with 9223372036854775808. lia.
  - left. unfold maxf32_mag. lia.
Qed.

Lemma f4_widen w b : 0 <= b < 2 ^ 32 -> f4 w (f32_widen b) = f32_widen b.
Proof. intros H. unfold f4. destruct (w =? 4); [apply widen_in_range; exact H|reflexivity]. Qed.

Lemma f4_int w v : - two53 <= v <= two53 -> f4 w (f64_of_Z v) = f64_of_Z v.
Proof. intros H. unfold f4. destruct (w =? 4); [apply int_in_range; exact H|reflexivity]. Qed.

(** the exact binary64 inputs an argument presents *)
Inductive fin_denotes (pf : list Z -> option Z) : arg -> list Z -> Prop :=
| FI_f32 b : 0 <= b < 2 ^ 32 -> fin_denotes pf (AF32 b) [f32_widen b]
| FI_f32s bs : Forall (fun b => 0 <= b < 2 ^ 32) bs -> fin_denotes pf (AF32s bs) (map f32_widen bs)
| FI_f64 b : fin_denotes pf (AF64 b) [b]
| FI_f64s bs : fin_denotes pf (AF64s bs) bs
| FI_int t v : - two53 <= v <= two53 -> fin_denotes pf (AInt t v) [f64_of_Z v]
| FI_ints t vs : Forall (fun v => - two53 <= v <= two53) vs -> fin_denotes pf (AInts t vs) (map f64_of_Z vs)
| FI_str s b : pf s = Some b -> fin_denotes pf (AStr s) [b]
| FI_strs ss bs : Forall2 (fun s b => pf s = Some b) ss bs -> fin_denotes pf (AStrs ss) bs.

Inductive fin_denotes_all (pf : list Z -> option Z) : list arg -> list Z -> Prop :=
| FIA_nil : fin_denotes_all pf [] []
| FIA_cons a xs r ys : fin_denotes pf a xs -> fin_denotes_all pf r ys -> fin_denotes_all pf (a :: r) (xs ++ ys).

Lemma map_id_on {A} (f : A -> A) (l : list A) : Forall (fun x => f x = x) l -> map f l = l.
Proof. induction 1 as [|x r Hx _ IH]; cbn; [reflexivity|]. rewrite Hx, IH. reflexivity. Qed.

Lemma fin_to_fdenotes pf w a xs : fin_denotes pf a xs -> fdenotes pf w a (map (f4 w) xs).
Proof.
  intros H. destruct H as [b Hb|bs Hb|b|bs|t v Hv|t vs Hv|s b Hs|ss bs Hs]; cbn [map].
  - rewrite f4_widen by assumption. constructor.
  - rewrite map_id_on; [constructor|].
    apply Forall_forall. intros x Hx. apply in_map_iff in Hx. destruct Hx as (b & <- & Hin).
    rewrite Forall_forall in Hb. apply f4_widen. auto.
  - constructor.
  - constructor.
  - rewrite f4_int by assumption. constructor. assumption.
  - rewrite map_id_on; [constructor; assumption|].
    apply Forall_forall. intros x Hx. apply in_map_iff in Hx. destruct Hx as (v & <- & Hin).
    rewrite Forall_forall in Hv. apply f4_int. auto.
  - constructor. assumption.
  - constructor. assumption.
Qed.

(** C16 float family, uniform: every accepted presentation stores [f4 w] of each exact input *)
Theorem new_float_clamps_all pf w args xs : w = 4 \/ w = 8 -> fin_denotes_all pf args xs ->
  new_float pf w args = finish_float w (map (f4 w) xs).
Proof.
  intros Hw H. apply new_float_denotes; [exact Hw|].
  induction H as [|a xs r ys Ha _ IH]; [constructor|].
  rewrite map_app. constructor; [apply fin_to_fdenotes; exact Ha|exact IH].
Qed.

Theorem float_clamp_values pf w args xs : w = 4 \/ w = 8 -> fin_denotes_all pf args xs ->
  Z.of_nat (length xs) < 2 ^ 31 ->
  let it := new_float pf w args in
  (error it = None <-> Z.of_nat (length xs) * w <= MaxByteSize) /\
  type_code it = 30 + w /\ size_of it = Z.of_nat (length xs) /\
  num_values it = map (f4 w) xs.
Proof.
  intros Hw H Hl.
  assert (D : fdenotes_all pf w args (map (f4 w) xs)).
  { clear Hl. induction H as [|a xs r ys Ha _ IH]; [constructor|].
    rewrite map_app. constructor; [apply fin_to_fdenotes; exact Ha|exact IH]. }
  pose proof (float_values pf w args (map (f4 w) xs) Hw D) as V.
  rewrite map_length in V. apply V. exact Hl.
Qed.

(** two presentations of the same exact inputs give the same item *)
Theorem shape_float_inputs pf w a1 a2 xs : fin_denotes_all pf a1 xs -> fin_denotes_all pf a2 xs ->
  new_float pf w a1 = new_float pf w a2.
Proof.
  intros H1 H2. destruct (valid_float_size w) eqn:V.
  - assert (Hw : w = 4 \/ w = 8) by (unfold valid_float_size in V; lia).
    rewrite (new_float_clamps_all pf w a1 xs Hw H1), (new_float_clamps_all pf w a2 xs Hw H2). reflexivity.
  - unfold new_float. rewrite V. reflexivity.
Qed.
