(** SEMI E5 section 9 item encoding as an inductive relation between byte strings and logical
    item values, written from the standard and independent of the encoder/decoder functions.
    [canon = true]: the encoding a conforming sender produces (minimal number of length bytes,
    booleans as 0/1). [canon = false]: everything a conforming receiver must accept (any
    length-byte count 1..3 that can hold the length, any non-zero byte is true). *)
From Coq Require Import ZArith List Bool.
From GoSecs Require Import Base.BytesBE Secs2.Item.
Import ListNotations.
Open Scope Z_scope.

(** [k] length bytes can carry [n]; canonical: no smaller count can. *)
Definition nlen_ok (canon : bool) (k : nat) (n : Z) : Prop :=
  (1 <= k <= 3)%nat /\ 0 <= n < pow256 k /\
  (canon = true -> k = 1%nat \/ pow256 (k - 1) <= n).

(** Item header: format byte = format code in the upper six bits, number of length bytes in the
    lower two; then the length, big-endian. *)
Definition hdr (canon : bool) (fc n : Z) (h : list Z) : Prop :=
  exists k, nlen_ok canon k n /\ h = (fc * 4 + Z.of_nat k) :: be_enc k n.

Definition signed_ok (w : width) (v : Z) : Prop := - (wmod w / 2) <= v < wmod w / 2.
Definition unsigned_ok (w : width) (v : Z) : Prop := 0 <= v < wmod w.

Inductive E5 (canon : bool) : list Z -> item -> Prop :=
| E5_list h bodies cs :
    hdr canon fc_list (zlen cs) h ->
    Forall2 (E5 canon) bodies cs ->
    E5 canon (h ++ concat bodies) (IList cs)
| E5_binary h bs :
    hdr canon fc_binary (zlen bs) h -> bytes_ok bs ->
    E5 canon (h ++ bs) (IBinary bs)
| E5_boolean h p vs :
    hdr canon fc_boolean (zlen vs) h -> bytes_ok p -> map byte_bool p = vs ->
    (canon = true -> Forall (fun b => b = 0 \/ b = 1) p) ->
    E5 canon (h ++ p) (IBoolean vs)
| E5_ascii h bs :
    hdr canon fc_ascii (zlen bs) h -> bytes_ok bs ->
    E5 canon (h ++ bs) (IAscii bs)
| E5_jis8 h bs :
    hdr canon fc_jis8 (zlen bs) h -> bytes_ok bs ->
    E5 canon (h ++ bs) (IJis8 bs)
| E5_localized h lsh bs :
    hdr canon fc_localized (zlen bs + 2) h -> 0 <= lsh < 65536 -> bytes_ok bs ->
    E5 canon (h ++ be_enc 2 lsh ++ bs) (ILocalized lsh bs)
| E5_int h w vs :
    hdr canon (fc_int w) (zlen vs * wz w) h -> Forall (signed_ok w) vs ->
    E5 canon (h ++ concat (map (fun v => be_enc (wnat w) (v mod wmod w)) vs)) (IInt w vs)
| E5_uint h w vs :
    hdr canon (fc_uint w) (zlen vs * wz w) h -> Forall (unsigned_ok w) vs ->
    E5 canon (h ++ concat (map (be_enc (wnat w)) vs)) (IUint w vs)
| E5_float h w vs :
    float_width w = true ->
    hdr canon (fc_float w) (zlen vs * wz w) h -> Forall (unsigned_ok w) vs ->
    E5 canon (h ++ concat (map (be_enc (wnat w)) vs)) (IFloat w vs).
