(** Model of Go's [strconv.ParseUint(s, 0, 64)] / [strconv.ParseInt(s, 0, 64)] (base prefix
    detection, digit loop with the early range exit, underscore rule), as used by the SECS-II item
    constructors for string arguments. Strings are byte lists ([Z], each [0 <= b < 256]).

    The arithmetic is the mathematical one: Go's [n >= cutoff] / [n1 < n || n1 > maxVal] overflow
    tests are exactly [n * base + d > maxVal] on unbounded integers. No proofs here. *)
From Coq Require Import ZArith Bool List Lia.
Import ListNotations.
Open Scope Z_scope.

Inductive pres : Type :=
| PSyntax                 (* strconv.ErrSyntax: value 0 *)
| PRange (v : Z)          (* strconv.ErrRange: value = the bound of matching sign *)
| POk (v : Z).

Definition u64max : Z := 18446744073709551615.
Definition i64max : Z := 9223372036854775807.
Definition i64min : Z := -9223372036854775808.

Definition lower (c : Z) : Z := Z.lor c 32.
Definition is_digit (c : Z) : bool := (48 <=? c) && (c <=? 57).
Definition is_letter (c : Z) : bool := (97 <=? lower c) && (lower c <=? 122).

(** digit value of a byte, or 255 when it is neither a digit nor a letter *)
Definition digit_val (c : Z) : Z :=
  if is_digit c then c - 48 else if is_letter c then lower c - 97 + 10 else 255.

(** The digit loop of ParseUint with base0 = true. *)
Fixpoint uloop (base maxv : Z) (s : list Z) (n : Z) : pres :=
  match s with
  | [] => POk n
  | c :: r =>
    if c =? 95 then uloop base maxv r n else
    let d := digit_val c in
    if d =? 255 then PSyntax else
    if d >=? base then PSyntax else
    let n1 := n * base + d in
    if n1 >? maxv then PRange maxv else uloop base maxv r n1
  end.

Inductive saw : Type := SawStart | SawDigit | SawUnder | SawOther.

Definition saw_is_under (s : saw) : bool := match s with SawUnder => true | _ => false end.
Definition saw_is_digit (s : saw) : bool := match s with SawDigit => true | _ => false end.

Fixpoint uok_loop (hex : bool) (s : list Z) (sw : saw) : bool :=
  match s with
  | [] => negb (saw_is_under sw)
  | c :: r =>
    if is_digit c || (hex && (97 <=? lower c) && (lower c <=? 102)) then uok_loop hex r SawDigit
    else if c =? 95 then (if saw_is_digit sw then uok_loop hex r SawUnder else false)
    else if saw_is_under sw then false
    else uok_loop hex r SawOther
  end.

Definition is_base_letter (c : Z) : bool := (lower c =? 98) || (lower c =? 111) || (lower c =? 120).

Definition underscore_ok (s : list Z) : bool :=
  let s1 := match s with
            | c :: r => if (c =? 45) || (c =? 43) then r else s
            | [] => s
            end in
  match s1 with
  | c0 :: c1 :: r =>
    if (c0 =? 48) && is_base_letter c1 then uok_loop (lower c1 =? 120) r SawDigit
    else uok_loop false s1 SawStart
  | _ => uok_loop false s1 SawStart
  end.

(** base and digit string after the optional prefix (base argument 0) *)
Definition split_base (s : list Z) : Z * list Z :=
  match s with
  | c0 :: r0 =>
    if c0 =? 48 then
      match r0 with
      | c1 :: ((_ :: _) as r1) =>
        if lower c1 =? 98 then (2, r1)
        else if lower c1 =? 111 then (8, r1)
        else if lower c1 =? 120 then (16, r1)
        else (8, r0)
      | _ => (8, r0)
      end
    else (10, s)
  | [] => (10, s)
  end.

Definition parse_uint64 (s : list Z) : pres :=
  match s with
  | [] => PSyntax
  | _ =>
    let '(base, body) := split_base s in
    match uloop base u64max body 0 with
    | POk n => if existsb (Z.eqb 95) body && negb (underscore_ok s) then PSyntax else POk n
    | r => r
    end
  end.

Definition parse_int64 (s : list Z) : pres :=
  match s with
  | [] => PSyntax
  | c :: r =>
    let '(neg, body) := if c =? 43 then (false, r) else if c =? 45 then (true, r) else (false, s) in
    let un := match parse_uint64 body with
              | PSyntax => None
              | PRange v => Some v
              | POk v => Some v
              end in
    match un with
    | None => PSyntax
    | Some u =>
      if negb neg && (u >=? 9223372036854775808) then PRange i64max
      else if neg && (u >? 9223372036854775808) then PRange i64min
      else POk (if neg then - u else u)
    end
  end.
