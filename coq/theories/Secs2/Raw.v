(** Trees that mix CONSTRUCTED items with items returned by Decode. A decoded item keeps the wire
    bytes it was parsed from ([baseItem.rawPtr/rawLen]) and AppendTo/EncodedLen re-emit those
    bytes instead of re-encoding the value; a constructed list encodes its header and then asks
    each child — constructed or decoded — for its bytes. *)
From Coq Require Import ZArith List Bool.
From GoSecs Require Import Base.BytesBE Secs2.Item Secs2.Encode Secs2.Decode.
Import ListNotations.
Open Scope Z_scope.

Inductive citem :=
| CPlain (x : item)                      (* built by constructors only *)
| CDecoded (raw : list Z) (v : item)     (* returned by Decode: retained bytes + value *)
| CList (cs : list citem).               (* NewListItem over mixed children *)

(** The logical value (what the accessors return). *)
Fixpoint erase (c : citem) : item :=
  match c with
  | CPlain x => x
  | CDecoded _ v => v
  | CList cs => IList (map erase cs)
  end.

Fixpoint encode_c (c : citem) : list Z :=
  match c with
  | CPlain x => encode x
  | CDecoded raw _ => raw
  | CList cs => header fc_list (zlen cs) ++ flat_map encode_c cs
  end.

Fixpoint encoded_len_c (c : citem) : Z :=
  match c with
  | CPlain x => encoded_len x
  | CDecoded raw _ => zlen raw
  | CList cs => header_len (zlen cs) + fold_right (fun k a => encoded_len_c k + a) 0 cs
  end.

(** What Decode returns on [bs]: the value with the consumed bytes retained. *)
Definition decode_c (bs : list Z) : option citem :=
  match decode bs with
  | Ok (v, rest) => Some (CDecoded (consumed bs rest) v)
  | Err _ => None
  end.

(** Well-formed: constructed parts as before; a decoded part is what Decode can return, i.e. its
    retained bytes decode to its value (with nothing left over). *)
Fixpoint wf_c (c : citem) : bool :=
  match c with
  | CPlain x => wf x
  | CDecoded raw v =>
      bytes_okb raw &&
      match decode raw with
      | Ok (v', []) => equal v v' && negb (equal v IEmpty)
      | _ => false
      end
  | CList cs => (zlen cs <=? max_size) && forallb wf_c cs
  end.

Section CitemInd.
  Variable P : citem -> Prop.
  Hypothesis HPlain : forall x, P (CPlain x).
  Hypothesis HDecoded : forall raw v, P (CDecoded raw v).
  Hypothesis HList : forall cs, Forall P cs -> P (CList cs).
  Fixpoint citem_ind' (c : citem) : P c :=
    match c with
    | CPlain x => HPlain x
    | CDecoded raw v => HDecoded raw v
    | CList cs =>
        HList cs ((fix go (l : list citem) : Forall P l :=
                     match l with
                     | [] => Forall_nil P
                     | k :: r => Forall_cons k (citem_ind' k) (go r)
                     end) cs)
    end.
End CitemInd.
