(** Decoder on ARBITRARY bytes: progress (every accepted item consumes at least its 2-byte
    header), totality (fuel [S (length input)] is never exhausted), soundness (what is accepted
    is an E5 encoding — possibly non-canonical — of exactly the value returned, within the depth
    limit), and the rejection corollaries. *)
From Coq Require Import ZArith List Bool Lia ZifyBool.
From GoSecs Require Import Base.BytesBE Secs2.Item Secs2.Encode Secs2.Decode Secs2.Grammar
  Secs2.EncodeProofs Secs2.DecodeProofs.
Import ListNotations.
Open Scope Z_scope.
Ltac Zify.zify_post_hook ::= Z.div_mod_to_equations.

(** * Progress *)

Lemma split_at_len n bs p s : split_at n bs = Some (p, s) ->
  (length bs = length p + length s)%nat /\ (0 < n -> (1 <= length p)%nat).
Proof.
  intros H. destruct (Z_le_gt_dec n 0) as [Hn|Hn].
  - rewrite split_at_unfold in H. destruct (n <=? 0) eqn:C; [|lia].
    injection H as <- <-. cbn. lia.
  - apply split_at_some in H; [|lia]. destruct H as [-> H]. rewrite app_length. lia.
Qed.

Lemma decode_num_progress k w len bs y rest :
  decode_num k w len bs = Ok (y, rest) -> (length rest <= length bs)%nat.
Proof.
  unfold decode_num. destruct (negb (len mod wz w =? 0)); [discriminate|].
  destruct (split_at len bs) as [[p r]|] eqn:E; [|discriminate].
  intros [= _ <-]. apply split_at_len in E. lia.
Qed.

Lemma decode_leaf_progress fc len bs y rest :
  decode_leaf fc len bs = Ok (y, rest) -> (length rest <= length bs)%nat.
Proof.
  unfold decode_leaf.
  repeat match goal with
         | |- (if ?c then _ else _) = _ -> _ => destruct c
         | |- match split_at ?n ?b with _ => _ end = _ -> _ =>
             let E := fresh "E" in destruct (split_at n b) as [[? ?]|] eqn:E;
             [apply split_at_len in E|]
         end;
    try discriminate; try (intros [= _ <-]; lia); try apply decode_num_progress.
Qed.

Lemma decode_progress fuel :
  (forall d bs y rest, decode_item fuel d bs = Ok (y, rest) -> (length rest + 2 <= length bs)%nat) /\
  (forall d n bs cs rest, decode_children fuel d n bs = Ok (cs, rest) -> (length rest <= length bs)%nat).
Proof.
  induction fuel as [|f [IHi IHc]]; [split; intros; discriminate|]. split.
  - intros d bs y rest. cbn [decode_item]. destruct bs as [|fb r1]; [discriminate|].
    destruct (fb mod 4 =? 0) eqn:Cnl; [discriminate|].
    destruct (split_at (fb mod 4) r1) as [[lb r2]|] eqn:E; [|discriminate].
    apply split_at_len in E. destruct E as [E1 E2].
    assert (1 <= length lb)%nat by (apply E2; lia).
    destruct (fb / 4 =? fc_list).
    + destruct (d + 1 >? max_depth); [discriminate|].
      destruct (negb (has_len (be_dec lb * 2) r2)); [discriminate|].
      destruct (decode_children f (d + 1) (be_dec lb) r2) as [[cs r3]|] eqn:EC; [|discriminate].
      intros [= _ <-]. apply IHc in EC. cbn [length]. lia.
    + intros HL. apply decode_leaf_progress in HL. cbn [length]. lia.
  - intros d n bs cs rest. cbn [decode_children]. destruct (n <=? 0).
    + intros [= _ <-]. lia.
    + destruct (decode_item f d bs) as [[c r]|] eqn:EI; [|discriminate].
      destruct (decode_children f d (n - 1) r) as [[cs' r']|] eqn:EC; [|discriminate].
      intros [= _ <-]. apply IHi in EI. apply IHc in EC. lia.
Qed.

(** * Totality: the fuel [S (length bs)] given by [decode] is never exhausted *)

Lemma decode_num_nofuel k w len bs : decode_num k w len bs <> Err ErrFuel.
Proof.
  unfold decode_num. destruct (negb (len mod wz w =? 0)); [discriminate|].
  destruct (split_at len bs) as [[p r]|]; discriminate.
Qed.

Lemma decode_leaf_nofuel fc len bs : decode_leaf fc len bs <> Err ErrFuel.
Proof.
  unfold decode_leaf.
  repeat match goal with
         | |- (if ?c then _ else _) <> _ => destruct c
         | |- match split_at ?n ?b with _ => _ end <> _ => destruct (split_at n b) as [[? ?]|]
         end;
    try discriminate; apply decode_num_nofuel.
Qed.

Lemma decode_nofuel fuel :
  (forall d bs, (length bs < fuel)%nat -> decode_item fuel d bs <> Err ErrFuel) /\
  (forall d n bs, (length bs + 1 < fuel)%nat -> decode_children fuel d n bs <> Err ErrFuel).
Proof.
  induction fuel as [|f [IHi IHc]]; [split; intros; lia|]. split.
  - intros d bs Hf. cbn [decode_item]. destruct bs as [|fb r1]; [discriminate|].
    destruct (fb mod 4 =? 0) eqn:Cnl; [discriminate|].
    destruct (split_at (fb mod 4) r1) as [[lb r2]|] eqn:E; [|discriminate].
    apply split_at_len in E. destruct E as [E1 E2].
    assert (1 <= length lb)%nat by (apply E2; lia).
    destruct (fb / 4 =? fc_list); [|apply decode_leaf_nofuel].
    destruct (d + 1 >? max_depth); [discriminate|].
    destruct (negb (has_len (be_dec lb * 2) r2)); [discriminate|].
    destruct (decode_children f (d + 1) (be_dec lb) r2) as [[cs r3]|e] eqn:EC; [discriminate|].
    intros [= ->]. revert EC. apply IHc. cbn [length] in Hf. lia.
  - intros d n bs Hf. cbn [decode_children]. destruct (n <=? 0); [discriminate|].
    destruct (decode_item f d bs) as [[c r]|e] eqn:EI.
    + destruct (decode_children f d (n - 1) r) as [[cs' r']|e] eqn:EC; [discriminate|].
      intros [= ->]. revert EC. apply IHc.
      apply (proj1 (decode_progress f)) in EI. lia.
    + intros [= ->]. revert EI. apply IHi. lia.
Qed.

Theorem decode_total bs : decode bs <> Err ErrFuel.
Proof.
  unfold decode. destruct bs as [|b t]; [discriminate|].
  apply (proj1 (decode_nofuel (S (length (b :: t))))). lia.
Qed.

(** * Soundness *)

Lemma bytes_ok_split n bs p s : split_at n bs = Some (p, s) -> bytes_ok bs ->
  bs = p ++ s /\ bytes_ok p /\ bytes_ok s /\ zlen p = Z.max n 0.
Proof.
  intros H Hb. destruct (Z_le_gt_dec n 0) as [Hn|Hn].
  - rewrite split_at_unfold in H. destruct (n <=? 0) eqn:C; [|lia].
    injection H as <- <-. repeat split; auto; [constructor|unfold zlen; cbn; lia].
  - apply split_at_some in H; [|lia]. destruct H as [-> H].
    apply bytes_ok_app in Hb. destruct Hb. repeat split; auto. unfold zlen. lia.
Qed.

Lemma hdr_sound fb lb : byte_ok fb -> bytes_ok lb -> fb mod 4 <> 0 ->
  zlen lb = fb mod 4 -> hdr false (fb / 4) (be_dec lb) (fb :: lb).
Proof.
  intros Hfb Hlb Hnz Hl. exists (length lb). unfold zlen in Hl. split.
  - split; [lia|]. split; [apply be_dec_range, Hlb|discriminate].
  - rewrite be_enc_dec by assumption. f_equal. lia.
Qed.

Lemma firstn_skipn_ok n (l : list Z) : bytes_ok l -> bytes_ok (firstn n l) /\ bytes_ok (skipn n l).
Proof. intros H. apply bytes_ok_app. rewrite firstn_skipn. exact H. Qed.

Lemma elems_sound w : (1 <= w)%nat -> forall n p fuel,
  length p = (n * w)%nat -> (n <= fuel)%nat -> bytes_ok p ->
  concat (map (be_enc w) (elems fuel w p)) = p /\
  Forall (fun u => 0 <= u < pow256 w) (elems fuel w p) /\
  length (elems fuel w p) = n.
Proof.
  intros Hw. induction n as [|n IH]; intros p fuel Hl Hf Hb.
  - destruct p; [|cbn in Hl; lia]. destruct fuel; cbn; repeat split; constructor.
  - destruct fuel as [|f]; [lia|]. destruct p as [|b t] eqn:Ep; [cbn in Hl; lia|].
    rewrite <- Ep in *. clear Ep b t. cbn [elems].
    destruct p as [|b t] eqn:Ep; [cbn in Hl; lia|]. rewrite <- Ep in *. clear Ep b t.
    destruct (firstn_skipn_ok w p Hb) as [Hb1 Hb2].
    assert (L1 : length (firstn w p) = w) by (rewrite firstn_length; nia).
    assert (L2 : length (skipn w p) = (n * w)%nat) by (rewrite skipn_length; nia).
    destruct (IH (skipn w p) f L2 ltac:(lia) Hb2) as [I1 [I2 I3]].
    cbn [map concat length]. rewrite I1, I3. repeat split.
    + pose proof (be_enc_dec _ Hb1) as R. rewrite L1 in R. rewrite R. apply firstn_skipn.
    + constructor; [|exact I2]. pose proof (be_dec_range _ Hb1) as R. rewrite L1 in R. exact R.
Qed.

Lemma payload_elems_sound w p : bytes_ok p -> zlen p mod wz w = 0 ->
  concat (map (be_enc (wnat w)) (payload_elems w p)) = p /\
  Forall (unsigned_ok w) (payload_elems w p) /\
  zlen (payload_elems w p) * wz w = zlen p.
Proof.
  intros Hb Hm. unfold payload_elems.
  assert (Hw : (1 <= wnat w)%nat) by (destruct w; cbn; lia).
  assert (Hn : length p = (Z.to_nat (zlen p / wz w) * wnat w)%nat).
  { unfold zlen in *. apply Nat2Z.inj.
    rewrite Nat2Z.inj_mul, Z2Nat.id by (apply Z.div_pos; [lia|apply wz_pos]).
    destruct w; cbn [wz wnat] in *; lia. }
  destruct (elems_sound (wnat w) Hw _ p (length p) Hn ltac:(nia) Hb) as [E1 [E2 E3]].
  split; [exact E1|]. split.
  - unfold unsigned_ok. rewrite wmod_pow. exact E2.
  - unfold zlen at 1. rewrite E3. rewrite Z2Nat.id by (apply Z.div_pos; [apply zlen_nonneg|apply wz_pos]).
    destruct w; cbn [wz] in *; lia.
Qed.

Lemma unsigned_back w us : Forall (unsigned_ok w) us ->
  map (fun v => v mod wmod w) (map (to_signed (wmod w)) us) = us /\
  Forall (signed_ok w) (map (to_signed (wmod w)) us).
Proof.
  induction 1 as [|u r Hu Hr [IH1 IH2]]; cbn [map]; [split; [reflexivity|constructor]|].
  destruct (unsigned_signed (wmod w) u (wmod_pos w) (wmod_even w) Hu) as [A B].
  split; [f_equal; [exact A|exact IH1]|constructor; [exact B|exact IH2]].
Qed.

Definition fc_num (k : numkind) (w : width) : Z :=
  match k with KInt => fc_int w | KUint => fc_uint w | KFloat => fc_float w end.

Lemma decode_num_sound k w len h bs y rest :
  hdr false (fc_num k w) len h -> (k = KFloat -> float_width w = true) ->
  bytes_ok bs -> 0 <= len ->
  decode_num k w len bs = Ok (y, rest) ->
  exists p, bs = p ++ rest /\ E5 false (h ++ p) y /\ depth y = 0.
Proof.
  intros Hh Hfw Hb Hlen. unfold decode_num.
  destruct (len mod wz w =? 0) eqn:Cm; cbn [negb]; [|discriminate].
  destruct (split_at len bs) as [[p r]|] eqn:E; [|discriminate].
  destruct (bytes_ok_split _ _ _ _ E Hb) as [-> [Hp [Hr Hz]]].
  rewrite Z.max_l in Hz by lia.
  destruct (payload_elems_sound w p Hp) as [E1 [E2 E3]]; [rewrite Hz; lia|].
  intros [= <- <-]. exists p. split; [reflexivity|].
  rewrite <- Hz, <- E3 in Hh. rewrite <- E1 at 1.
  destruct k; cbn [fc_num] in Hh.
  - destruct (unsigned_back w _ E2) as [B1 B2].
    rewrite <- B1 at 1. rewrite map_map. split; [|reflexivity].
    apply E5_int; [|exact B2]. rewrite zlen_map. exact Hh.
  - split; [|reflexivity]. apply E5_uint; assumption.
  - split; [|reflexivity]. apply E5_float; auto.
Qed.

Lemma decode_leaf_sound fc len h bs y rest :
  hdr false fc len h -> bytes_ok bs -> 0 <= len ->
  decode_leaf fc len bs = Ok (y, rest) ->
  exists p, bs = p ++ rest /\ E5 false (h ++ p) y /\ depth y = 0.
Proof.
  intros Hh Hb Hlen. unfold decode_leaf.
  assert (SP : forall mk : list Z -> item,
             (forall p, bytes_ok p -> zlen p = len -> E5 false (h ++ p) (mk p) /\ depth (mk p) = 0) ->
             match split_at len bs with
             | None => Err ErrEndPayload
             | Some (p, r) => Ok (mk p, r)
             end = Ok (y, rest) ->
             exists p, bs = p ++ rest /\ E5 false (h ++ p) y /\ depth y = 0).
  { intros mk Hmk. destruct (split_at len bs) as [[p r]|] eqn:E; [|discriminate].
    destruct (bytes_ok_split _ _ _ _ E Hb) as [-> [Hp [Hr Hz]]].
    rewrite Z.max_l in Hz by lia. intros [= <- <-]. exists p. split; [reflexivity|]. apply Hmk; assumption. }
  destruct (fc =? fc_ascii) eqn:C1.
  { apply Z.eqb_eq in C1; subst fc. apply (SP IAscii). intros p Hp Hz. split; [|reflexivity].
    apply E5_ascii; [rewrite Hz; exact Hh|exact Hp]. }
  destruct (fc =? fc_jis8) eqn:C2.
  { apply Z.eqb_eq in C2; subst fc. apply (SP IJis8). intros p Hp Hz. split; [|reflexivity].
    apply E5_jis8; [rewrite Hz; exact Hh|exact Hp]. }
  destruct (fc =? fc_binary) eqn:C3.
  { apply Z.eqb_eq in C3; subst fc. apply (SP IBinary). intros p Hp Hz. split; [|reflexivity].
    apply E5_binary; [rewrite Hz; exact Hh|exact Hp]. }
  destruct (fc =? fc_boolean) eqn:C4.
  { apply Z.eqb_eq in C4; subst fc. apply (SP (fun p => IBoolean (map byte_bool p))).
    intros p Hp Hz. split; [|reflexivity].
    apply E5_boolean; [rewrite zlen_map, Hz; exact Hh|exact Hp|reflexivity|discriminate]. }
  destruct (fc =? fc_localized) eqn:C5.
  { apply Z.eqb_eq in C5; subst fc. destruct (len <? 2) eqn:CL; [discriminate|].
    apply (SP (fun p => ILocalized (be_dec (firstn 2 p)) (skipn 2 p))).
    intros p Hp Hz. split; [|reflexivity].
    destruct (firstn_skipn_ok 2 p Hp) as [Hb1 Hb2].
    assert (L1 : length (firstn 2 p) = 2%nat) by (rewrite firstn_length; unfold zlen in Hz; lia).
    rewrite <- (firstn_skipn 2 p) at 1.
    pose proof (be_enc_dec _ Hb1) as R. rewrite L1 in R. rewrite <- R at 1.
    apply E5_localized.
    - replace (zlen (skipn 2 p) + 2) with len; [exact Hh|].
      unfold zlen in *. rewrite skipn_length. lia.
    - pose proof (be_dec_range _ Hb1) as R2. rewrite L1 in R2. change (pow256 2) with 65536 in R2. exact R2.
    - exact Hb2. }
  repeat match goal with
         | |- (if ?fc =? ?c then _ else _) = _ -> _ =>
             let C := fresh "C" in destruct (fc =? c) eqn:C;
             [apply Z.eqb_eq in C; subst fc;
              first [apply (decode_num_sound KInt W1)|apply (decode_num_sound KInt W2)
                    |apply (decode_num_sound KInt W4)|apply (decode_num_sound KInt W8)
                    |apply (decode_num_sound KUint W1)|apply (decode_num_sound KUint W2)
                    |apply (decode_num_sound KUint W4)|apply (decode_num_sound KUint W8)
                    |apply (decode_num_sound KFloat W4)|apply (decode_num_sound KFloat W8)];
              (exact Hh || exact Hb || exact Hlen || reflexivity || discriminate)|]
         end.
  discriminate.
Qed.

Lemma depth_list_bound d cs : d + 1 <= max_depth ->
  Forall (fun c => (d + 1) + depth c <= max_depth) cs -> d + depth (IList cs) <= max_depth.
Proof.
  intros Hd H. cbn [depth]. induction H as [|c r Hc Hr IH]; cbn [fold_right]; lia.
Qed.

Lemma decode_sound_both fuel :
  (forall d bs y rest, bytes_ok bs -> d <= max_depth ->
     decode_item fuel d bs = Ok (y, rest) ->
     exists p, bs = p ++ rest /\ E5 false p y /\ d + depth y <= max_depth) /\
  (forall d n bs cs rest, bytes_ok bs -> d <= max_depth ->
     decode_children fuel d n bs = Ok (cs, rest) ->
     exists bodies, bs = concat bodies ++ rest /\ Forall2 (E5 false) bodies cs /\
                    zlen cs = Z.max n 0 /\ Forall (fun c => d + depth c <= max_depth) cs).
Proof.
  induction fuel as [|f [IHi IHc]]; [split; intros; discriminate|]. split.
  - intros d bs y rest Hb Hd. cbn [decode_item]. destruct bs as [|fb r1]; [discriminate|].
    inversion Hb as [|? ? Hfb Hr1]; subst.
    destruct (fb mod 4 =? 0) eqn:Cnl; [discriminate|].
    destruct (split_at (fb mod 4) r1) as [[lb r2]|] eqn:E; [|discriminate].
    destruct (bytes_ok_split _ _ _ _ E Hr1) as [-> [Hlb [Hr2 Hz]]].
    assert (Hh : hdr false (fb / 4) (be_dec lb) (fb :: lb)).
    { apply hdr_sound; auto; lia. }
    pose proof (be_dec_range _ Hlb) as [Hlen _].
    destruct (fb / 4 =? fc_list) eqn:Cfc.
    + apply Z.eqb_eq in Cfc. rewrite Cfc in Hh.
      destruct (d + 1 >? max_depth) eqn:Cd; [discriminate|].
      destruct (negb (has_len (be_dec lb * 2) r2)); [discriminate|].
      destruct (decode_children f (d + 1) (be_dec lb) r2) as [[cs r3]|] eqn:EC; [|discriminate].
      intros [= <- <-].
      assert (Hd1 : d + 1 <= max_depth) by lia.
      destruct (IHc _ _ _ _ _ Hr2 Hd1 EC) as [bodies [-> [HF [Hn Hdep]]]].
      rewrite Z.max_l in Hn by lia.
      exists ((fb :: lb) ++ concat bodies). split; [cbn [app]; rewrite <- app_assoc; reflexivity|].
      split.
      * apply E5_list; [rewrite Hn; exact Hh|exact HF].
      * apply depth_list_bound; [lia|exact Hdep].
    + intros HL.
      destruct (decode_leaf_sound _ _ _ _ _ _ Hh Hr2 Hlen HL) as [p [-> [HE Hdp]]].
      exists ((fb :: lb) ++ p). split; [cbn [app]; rewrite <- app_assoc; reflexivity|].
      split; [exact HE|lia].
  - intros d n bs cs rest Hb Hd. cbn [decode_children]. destruct (n <=? 0) eqn:Cn.
    + intros [= <- <-]. exists []. repeat split; try constructor. unfold zlen; cbn; lia.
    + destruct (decode_item f d bs) as [[c r]|] eqn:EI; [|discriminate].
      destruct (decode_children f d (n - 1) r) as [[cs' r']|] eqn:EC; [|discriminate].
      intros [= <- <-].
      destruct (IHi _ _ _ _ Hb Hd EI) as [p [-> [HE Hdp]]].
      apply bytes_ok_app in Hb. destruct Hb as [_ Hr].
      destruct (IHc _ _ _ _ _ Hr Hd EC) as [bodies [-> [HF [Hn Hdep]]]].
      exists (p :: bodies). cbn [concat]. rewrite <- app_assoc. split; [reflexivity|].
      split; [constructor; assumption|]. split; [rewrite zlen_cons; lia|constructor; assumption].
Qed.

(** C02: everything [decode] accepts is a (possibly non-canonical) E5 encoding of exactly the
    value it returns, the consumed bytes followed by the unread rest are the input, and the
    nesting is within the limit. *)
Theorem decode_sound bs y rest : bytes_ok bs -> decode bs = Ok (y, rest) ->
  (bs = [] /\ y = IEmpty /\ rest = []) \/
  (exists p, bs = p ++ rest /\ E5 false p y /\ depth y <= max_depth).
Proof.
  intros Hb. unfold decode. destruct bs as [|b t].
  - intros [= <- <-]. left. auto.
  - intros H. right.
    assert (H0 : 0 <= max_depth) by (unfold max_depth; lia).
    destruct (proj1 (decode_sound_both _) 0 _ _ _ Hb H0 H) as [p [E [HE Hd]]].
    exists p. split; [exact E|]. split; [exact HE|lia].
Qed.

(** The retained raw bytes of a decoded item ([consumed]) are that E5 encoding. *)
Theorem decode_consumed (bs rest p : list Z) : bs = p ++ rest -> consumed bs rest = p.
Proof.
  intros ->. unfold consumed. rewrite app_length.
  replace (length p + length rest - length rest)%nat with (length p) by lia.
  rewrite firstn_app, Nat.sub_diag, firstn_all. cbn. apply app_nil_r.
Qed.
