(** Executable model of the SECS-II item constructors (secs2/int.go, uint.go, float.go, binary.go,
    boolean.go, ascii.go, jis8.go, localized_str.go, list.go), of [Item.Error], [secs2.Equal]
    (equal.go) and of the message gate [hsms.NewDataMessage] with the send entry points that
    construct through it (hsms/data_msg.go, hsms/session.go).  No proofs here.

    Arguments are tagged Go dynamic values.  An integer argument carries its Go type and its
    MATHEMATICAL value (well-formed when the value is in the range of the type); float32/float64
    arguments are IEEE bit patterns; strings are byte lists.

    What is abstracted in the float family:
    - binary64 comparison [v > maxVal] / [v < -maxVal] on FINITE values is modelled as the
      comparison of (sign, magnitude bits): for finite IEEE values of one sign the order of the
      magnitudes is the order of the low 63 bits read as an integer;
    - [float64(int)] for |int| <= 2^53 is the exact value ([f64_of_Z]);
    - [float64(float32)] and [float32(float64)] (round to nearest even) are computed on the bit
      patterns ([f32_widen], [f64_narrow]); NaN payloads follow the amd64 conversion (quiet bit set);
    - [strconv.ParseFloat] is a parameter [pf] of the float constructor (None = any error, including
      ErrRange); the correspondence driver supplies what strconv returned for each string.
    All four are exercised against the real code by the correspondence run. *)
From Coq Require Import ZArith Bool List Lia.
From GoSecs Require Import Base.GoInt Secs2.ConstructParse.
Import ListNotations.
Open Scope Z_scope.

(** * Go dynamic values *)

Inductive gty : Type :=
| TInt | TInt8 | TInt16 | TInt32 | TInt64 | TUint | TUint8 | TUint16 | TUint32 | TUint64.

Definition gty_signed (t : gty) : bool :=
  match t with TInt | TInt8 | TInt16 | TInt32 | TInt64 => true | _ => false end.

Definition gty_lo (t : gty) : Z :=
  match t with
  | TInt | TInt64 => -9223372036854775808
  | TInt8 => -128 | TInt16 => -32768 | TInt32 => -2147483648
  | _ => 0
  end.

Definition gty_hi (t : gty) : Z :=
  match t with
  | TInt | TInt64 => 9223372036854775807
  | TInt8 => 127 | TInt16 => 32767 | TInt32 => 2147483647
  | TUint | TUint64 => 18446744073709551615
  | TUint8 => 255 | TUint16 => 65535 | TUint32 => 4294967295
  end.

Definition in_gty (t : gty) (v : Z) : Prop := gty_lo t <= v <= gty_hi t.

Inductive arg : Type :=
| AInt (t : gty) (v : Z)
| AInts (t : gty) (vs : list Z)
| AF32 (b : Z) | AF32s (bs : list Z)          (* float32 bit patterns, 0 <= b < 2^32 *)
| AF64 (b : Z) | AF64s (bs : list Z)          (* float64 bit patterns, 0 <= b < 2^64 *)
| AStr (s : list Z) | AStrs (ss : list (list Z))
| ABool (b : bool) | ABools (bs : list bool)
| ANil
| AOther.                                      (* any other dynamic type *)

Definition wf_arg (a : arg) : Prop :=
  match a with
  | AInt t v => in_gty t v
  | AInts t vs => Forall (in_gty t) vs
  | _ => True
  end.

(** * Items *)

Inductive err : Type :=
| EByteSize | EType | ESyntax | ENegative | EOverflow | ERange | ESizeLimit | EStrLen.

Definition MaxByteSize : Z := 16777215.

(** [size] is the Go field [size int32] (the element count after conversion to int32);
    [vs] is what the accessors can see: the scalar when [size = 1], the slice otherwise. *)
Inductive item : Type :=
| IInt (w : Z) (size : Z) (vs : list Z) (e : option err)
| IUint (w : Z) (size : Z) (vs : list Z) (e : option err)
| IFloat (w : Z) (size : Z) (vs : list Z) (e : option err)
| IBool (size : Z) (vs : list bool) (e : option err)
| IBin (vs : list Z) (e : option err)
| IAscii (s : list Z) (e : option err)
| IJis8 (s : list Z) (e : option err)
| ILoc (lsh : Z) (s : list Z) (e : option err)
| IEmpty
| IList (cs : list item) (clean : bool) (e : option err).

Definition res (A : Type) : Type := (err + A)%type.

(** append the per-argument value lists; the first refusal aborts *)
Fixpoint concat_res {A B : Type} (f : A -> res (list B)) (l : list A) : res (list B) :=
  match l with
  | [] => inr []
  | a :: r =>
    match f a with
    | inl e => inl e
    | inr vs => match concat_res f r with
                | inl e => inl e
                | inr ws => inr (vs ++ ws)
                end
    end
  end.

Definition clamp (lo hi v : Z) : Z := if v <? lo then lo else if v >? hi then hi else v.
Definition clampU (hi v : Z) : Z := if v >? hi then hi else v.

Definition valid_int_size (w : Z) : bool := (w =? 1) || (w =? 2) || (w =? 4) || (w =? 8).
Definition valid_float_size (w : Z) : bool := (w =? 4) || (w =? 8).

Definition int_lo (w : Z) : Z := - 2 ^ (8 * w - 1).
Definition int_hi (w : Z) : Z := 2 ^ (8 * w - 1) - 1.
Definition uint_hi (w : Z) : Z := 2 ^ (8 * w) - 1.

(** the element count as the code stores it: [int32(len(values))] *)
Definition size32 {A : Type} (vs : list A) : Z := wrapS 32 (Z.of_nat (length vs)).

Definition size_err (n : Z) : option err := if n >? MaxByteSize then Some ESizeLimit else None.

Definition stored {A : Type} (sz : Z) (vs : list A) : list A := if sz =? 1 then firstn 1 vs else vs.

(** ** IntItem *)

(** one value of Go type [t] into a signed item: uint/uint64 are compared as unsigned first *)
Definition conv_int (lo hi : Z) (t : gty) (v : Z) : Z :=
  match t with
  | TUint | TUint64 => if v >? hi then hi else v
  | _ => clamp lo hi v
  end.

Definition int_of_string (lo hi : Z) (s : list Z) : res (list Z) :=
  match parse_int64 s with
  | PSyntax => inl ESyntax
  | PRange v => inr [clamp lo hi v]
  | POk v => inr [clamp lo hi v]
  end.

Definition int_arg (lo hi : Z) (a : arg) : res (list Z) :=
  match a with
  | AInt t v => inr [conv_int lo hi t v]
  | AInts t vs => inr (map (conv_int lo hi t) vs)
  | AStr s => int_of_string lo hi s
  | AStrs ss => concat_res (int_of_string lo hi) ss
  | _ => inl EType
  end.

(** intScalarFastPath: exactly one plain integer argument *)
Definition int_scalar_fast (lo hi : Z) (args : list arg) : option Z :=
  match args with
  | [AInt t v] => Some (conv_int lo hi t v)
  | _ => None
  end.

Definition finish_int (w : Z) (vs : list Z) : item :=
  let sz := size32 vs in IInt w sz (stored sz vs) (size_err (sz * w)).

Definition new_int (w : Z) (args : list arg) : item :=
  if negb (valid_int_size w) then IInt w 0 [] (Some EByteSize) else
  let lo := int_lo w in let hi := int_hi w in
  match int_scalar_fast lo hi args with
  | Some v => IInt w 1 [v] (size_err (1 * w))
  | None =>
    match concat_res (int_arg lo hi) args with
    | inl e => IInt w 0 [] (Some e)
    | inr vs => finish_int w vs
    end
  end.

(** ** UintItem *)

Definition conv_uint (hi : Z) (t : gty) (v : Z) : res Z :=
  if gty_signed t && (v <? 0) then inl ENegative else inr (clampU hi v).

Fixpoint map_res {A B : Type} (f : A -> res B) (l : list A) : res (list B) :=
  match l with
  | [] => inr []
  | a :: r =>
    match f a with
    | inl e => inl e
    | inr b => match map_res f r with inl e => inl e | inr bs => inr (b :: bs) end
    end
  end.

Definition uint_of_string (hi : Z) (s : list Z) : res (list Z) :=
  match parse_uint64 s with
  | PSyntax => inl ESyntax
  | PRange v => inr [clampU hi v]
  | POk v => inr [clampU hi v]
  end.

Definition uint_arg (hi : Z) (a : arg) : res (list Z) :=
  match a with
  | AInt t v => match conv_uint hi t v with inl e => inl e | inr x => inr [x] end
  | AInts t vs => map_res (conv_uint hi t) vs
  | AStr s => uint_of_string hi s
  | AStrs ss => concat_res (uint_of_string hi) ss
  | _ => inl EType
  end.

Definition finish_uint (w : Z) (vs : list Z) : item :=
  let sz := size32 vs in IUint w sz (stored sz vs) (size_err (sz * w)).

Definition new_uint (w : Z) (args : list arg) : item :=
  if negb (valid_int_size w) then IUint w 0 [] (Some EByteSize) else
  match concat_res (uint_arg (uint_hi w)) args with
  | inl e => IUint w 0 [] (Some e)
  | inr vs => finish_uint w vs
  end.

(** ** FloatItem (bit patterns) *)

Definition f64_sign (b : Z) : Z := b / 2 ^ 63.
Definition f64_mag (b : Z) : Z := b mod 2 ^ 63.
Definition f64_exp (b : Z) : Z := (b / 2 ^ 52) mod 2048.
Definition f64_special (b : Z) : bool := f64_exp b =? 2047.          (* Inf or NaN *)
Definition f64_nan (b : Z) : bool := f64_special b && negb (b mod 2 ^ 52 =? 0).

(** float64(math.MaxFloat32) = 0x47EFFFFFE0000000 *)
Definition maxf32_mag : Z := 5183643170566569984.

(** clampF4: NaN/Inf pass; a finite value above MaxFloat32 in magnitude becomes +-MaxFloat32 *)
Definition clamp_f4 (b : Z) : Z :=
  if f64_special b then b
  else if f64_mag b >? maxf32_mag then f64_sign b * 2 ^ 63 + maxf32_mag
  else b.

(** exact binary64 image of an integer with |n| <= 2^53 *)
Definition f64_of_Z (n : Z) : Z :=
  if n =? 0 then 0 else
  let a := Z.abs n in
  let e := Z.log2 a in
  (if n <? 0 then 2 ^ 63 else 0) + (1023 + e) * 2 ^ 52 + (a - 2 ^ e) * 2 ^ (52 - e).

(** float64(float32): exact *)
Definition f32_widen (b : Z) : Z :=
  let s := b / 2 ^ 31 in
  let e := (b / 2 ^ 23) mod 256 in
  let m := b mod 2 ^ 23 in
  s * 2 ^ 63 +
  (if e =? 255 then 2047 * 2 ^ 52 + (if m =? 0 then 0 else Z.lor (m * 2 ^ 29) (2 ^ 51))
   else if e =? 0 then
     (if m =? 0 then 0
      else let k := Z.log2 m in (874 + k) * 2 ^ 52 + (m - 2 ^ k) * 2 ^ (52 - k))
   else (e + 896) * 2 ^ 52 + m * 2 ^ 29).

Definition rne (m sh : Z) : Z :=
  let q := m / 2 ^ sh in
  let r := m mod 2 ^ sh in
  let half := 2 ^ (sh - 1) in
  if r >? half then q + 1
  else if r <? half then q
  else if Z.odd q then q + 1 else q.

(** float32(float64): round to nearest even, overflow to Inf, gradual underflow *)
Definition f64_narrow (b : Z) : Z :=
  let s := b / 2 ^ 63 in
  let e := (b / 2 ^ 52) mod 2048 in
  let m := b mod 2 ^ 52 in
  s * 2 ^ 31 +
  (if e =? 2047 then
     (if m =? 0 then 255 * 2 ^ 23 else 255 * 2 ^ 23 + Z.lor (m / 2 ^ 29) (2 ^ 22))
   else
     let mm := if e =? 0 then m else 2 ^ 52 + m in
     if mm =? 0 then 0 else
     let ex := Z.max e 1 - 1075 in
     let p := Z.log2 mm + ex in
     let q := Z.max (p - 23) (-149) in
     let r := (q + 149) * 2 ^ 23 + rne mm (q - ex) in
     if r >=? 255 * 2 ^ 23 then 255 * 2 ^ 23 else r).

Definition needs53 (t : gty) : bool :=
  match t with TInt | TInt64 | TUint | TUint64 => true | _ => false end.

Definition two53 : Z := 9007199254740992.

Definition conv_float_int (t : gty) (v : Z) : res Z :=
  if needs53 t && ((v >? two53) || (v <? - two53)) then inl EOverflow else inr (f64_of_Z v).

Definition f4 (w : Z) (b : Z) : Z := if w =? 4 then clamp_f4 b else b.

Definition float_of_string (pf : list Z -> option Z) (w : Z) (s : list Z) : res (list Z) :=
  match pf s with
  | None => inl ESyntax
  | Some b => inr [f4 w b]
  end.

Definition float_arg (pf : list Z -> option Z) (w : Z) (a : arg) : res (list Z) :=
  match a with
  | AF32 b => inr [f32_widen b]
  | AF32s bs => inr (map f32_widen bs)
  | AF64 b => inr [f4 w b]
  | AF64s bs => inr (map (f4 w) bs)
  | AInt t v => match conv_float_int t v with inl e => inl e | inr x => inr [x] end
  | AInts t vs => map_res (conv_float_int t) vs
  | AStr s => float_of_string pf w s
  | AStrs ss => concat_res (float_of_string pf w) ss
  | _ => inl EType
  end.

Definition finish_float (w : Z) (vs : list Z) : item :=
  let sz := size32 vs in IFloat w sz (stored sz vs) (size_err (sz * w)).

Definition new_float (pf : list Z -> option Z) (w : Z) (args : list arg) : item :=
  if negb (valid_float_size w) then IFloat w 0 [] (Some EByteSize) else
  match concat_res (float_arg pf w) args with
  | inl e => IFloat w 0 [] (Some e)
  | inr vs => finish_float w vs
  end.

(** ** BinaryItem, BooleanItem, string items *)

Definition bin_arg (a : arg) : res (list Z) :=
  match a with
  | AInt TInt v => if (v <? 0) || (v >? 255) then inl ERange else inr [v]
  | AInt TUint8 v => inr [v]
  | AInts TUint8 vs => inr vs
  | AStr s =>
    match parse_int64 s with
    | POk v => if (v <? 0) || (v >? 255) then inl ERange else inr [v]
    | _ => inl ESyntax
    end
  | _ => inl EType
  end.

Definition new_binary (args : list arg) : item :=
  match concat_res bin_arg args with
  | inl e => IBin [] (Some e)
  | inr vs => IBin vs (size_err (Z.of_nat (length vs)))
  end.

Definition bool_arg (a : arg) : res (list bool) :=
  match a with
  | ABool b => inr [b]
  | ABools bs => inr bs
  | _ => inl EType
  end.

Definition finish_bool (vs : list bool) : item :=
  let sz := size32 vs in IBool sz (stored sz vs) (size_err sz).

Definition new_boolean (args : list arg) : item :=
  match concat_res bool_arg args with
  | inl e => IBool 0 [] (Some e)
  | inr vs => finish_bool vs
  end.

Definition new_ascii (s : list Z) : item :=
  if Z.of_nat (length s) >? MaxByteSize then IAscii [] (Some EStrLen) else IAscii s None.
Definition new_jis8 (s : list Z) : item :=
  if Z.of_nat (length s) >? MaxByteSize then IJis8 [] (Some EStrLen) else IJis8 s None.
Definition new_localized (lsh : Z) (s : list Z) : item :=
  if Z.of_nat (length s) + 2 >? MaxByteSize then ILoc 0 [] (Some EStrLen) else ILoc lsh s None.

(** ** ListItem with the cached clean flag *)

Definition own_err (it : item) : option err :=
  match it with
  | IInt _ _ _ e | IUint _ _ _ e | IFloat _ _ _ e => e
  | IBool _ _ e => e
  | IBin _ e | IAscii _ e | IJis8 _ e => e
  | ILoc _ _ e => e
  | IEmpty => None
  | IList _ _ e => e
  end.

Definition is_none {A : Type} (o : option A) : bool := match o with None => true | Some _ => false end.

(** childClean: no deferred error, and a list child is itself known-clean *)
Definition child_clean (it : item) : bool :=
  match it with
  | IList _ clean e => is_none e && clean
  | _ => is_none (own_err it)
  end.

Fixpoint somes {A : Type} (l : list (option A)) : list A :=
  match l with
  | [] => []
  | None :: r => somes r
  | Some a :: r => a :: somes r
  end.

(** children are [option item]: [None] is a nil interface value, silently skipped *)
Definition new_list (cs : list (option item)) : item :=
  if Z.of_nat (length cs) >? MaxByteSize then IList [] false (Some ESizeLimit)
  else let vs := somes cs in IList vs (forallb child_clean vs) None.

Definition first_some {A : Type} (a b : option A) : option A :=
  match a with Some _ => a | None => b end.

(** Item.Error(): the deferred error; for a list, nil when the cached flag says clean, otherwise the
    join of the own error and every child's Error() (non-nil iff one of them is). *)
Fixpoint error (it : item) : option err :=
  match it with
  | IList cs clean e =>
    if clean then None
    else first_some e
           ((fix go (l : list item) : option err :=
               match l with
               | [] => None
               | c :: r => first_some (error c) (go r)
               end) cs)
  | _ => own_err it
  end.

(** ** Accessors used by Equal and by the correspondence *)

Definition type_code (it : item) : Z :=
  match it with
  | IInt w _ _ _ => if valid_int_size w then 10 + w else 0
  | IUint w _ _ _ => if valid_int_size w then 20 + w else 0
  | IFloat w _ _ _ => if valid_float_size w then 30 + w else 0
  | IBin _ _ => 1 | IBool _ _ _ => 2 | IAscii _ _ => 3 | IJis8 _ _ => 4 | ILoc _ _ _ => 5
  | IList _ _ _ => 6 | IEmpty => 7
  end.

Definition size_of (it : item) : Z :=
  match it with
  | IInt _ sz _ _ | IUint _ sz _ _ | IFloat _ sz _ _ => sz
  | IBool sz _ _ => sz
  | IBin vs _ => Z.of_nat (length vs)
  | IAscii s _ | IJis8 s _ => Z.of_nat (length s)
  | ILoc _ s _ => Z.of_nat (length s) + 2
  | IEmpty => 0
  | IList cs _ _ => Z.of_nat (length cs)
  end.

(** ToInt/ToUint/ToFloat/ToBoolean on an error-free item: [] when size = 0 *)
Definition seen {A : Type} (sz : Z) (vs : list A) : list A := if sz =? 0 then [] else vs.

Definition num_values (it : item) : list Z :=
  match it with
  | IInt _ sz vs _ | IUint _ sz vs _ | IFloat _ sz vs _ => seen sz vs
  | IBin vs _ => vs
  | IAscii s _ | IJis8 s _ => s
  | ILoc _ s _ => s
  | _ => []
  end.

Definition bool_values (it : item) : list bool :=
  match it with IBool sz vs _ => seen sz vs | _ => [] end.

Fixpoint list_eqb {A : Type} (eqb : A -> A -> bool) (x y : list A) : bool :=
  match x, y with
  | [], [] => true
  | a :: r, b :: s => eqb a b && list_eqb eqb r s
  | _, _ => false
  end.

Definition has_error (it : item) : bool := negb (is_none (error it)).

(** secs2.Equal on two non-nil items *)
Fixpoint equal (a b : item) : bool :=
  if has_error a || has_error b then false else
  if negb (type_code a =? type_code b) || negb (size_of a =? size_of b) then false else
  match a, b with
  | IInt _ _ _ _, IInt _ _ _ _ => list_eqb Z.eqb (num_values a) (num_values b)
  | IUint _ _ _ _, IUint _ _ _ _ => list_eqb Z.eqb (num_values a) (num_values b)
  | IFloat w _ _ _, IFloat _ _ _ _ =>
    if w =? 4 then list_eqb Z.eqb (map f64_narrow (num_values a)) (map f64_narrow (num_values b))
    else list_eqb Z.eqb (num_values a) (num_values b)
  | IBool _ _ _, IBool _ _ _ => list_eqb Bool.eqb (bool_values a) (bool_values b)
  | IBin x _, IBin y _ => list_eqb Z.eqb x y
  | IAscii x _, IAscii y _ => list_eqb Z.eqb x y
  | IJis8 x _, IJis8 y _ => list_eqb Z.eqb x y
  | ILoc hx x _, ILoc hy y _ => list_eqb Z.eqb x y && (hx =? hy)
  | IEmpty, IEmpty => true
  | IList ca _ _, IList cb _ _ =>
    (fix go (l : list item) (m : list item) : bool :=
       match l, m with
       | [], [] => true
       | x :: r, y :: s => equal x y && go r s
       | _, _ => false
       end) ca cb
  | _, _ => false
  end.

(** secs2.Equal including nil interface values *)
Definition equal_opt (a b : option item) : bool :=
  match a, b with
  | None, None => true
  | Some x, Some y => equal x y
  | _, _ => false
  end.

(** * Message gate and the send entry points *)

Inductive merr : Type := MStream | MItem (e : err) | MRsp.

Record msg : Type := {
  m_stream : Z; m_function : Z; m_wbit : bool; m_session : Z; m_sysbytes : Z; m_item : item }.

(** hsms.NewDataMessage *)
Definition new_data_message (stream function : Z) (w : bool) (session sysbytes : Z)
           (it : option item) : (merr + msg)%type :=
  if stream >? 127 then inl MStream else
  let x := match it with None => IEmpty | Some x => x end in
  match error x with
  | Some e => inl (MItem e)
  | None =>
    if w && (function mod 2 =? 0) then inl MRsp
    else inr {| m_stream := stream; m_function := function; m_wbit := w; m_session := session;
                m_sysbytes := sysbytes; m_item := x |}
  end.

(** DataMessageBuilder.Build after Derive().With...: the same gate *)
Definition build (stream function : Z) (w : bool) (session sysbytes : Z) (it : option item) :=
  new_data_message stream function w session sysbytes it.

(** The four item-taking send entry points of hsms/session.go. Each returns the error (if any) and
    the list of messages handed to the transport ("the wire"). *)
Inductive send_call : Type :=
| SendData (stream function : Z) (w : bool) (it : option item)       (* SendDataMessage *)
| SendAsync (stream function : Z) (w : bool) (it : option item)      (* SendDataMessageAsync *)
| SendSecs2 (stream function : Z) (w : bool) (it : option item)      (* SendSECS2Message(NewMessage(..)) *)
| Reply (pstream pfunction : Z) (psys : Z) (it : option item).      (* ReplyDataMessage *)

Definition send (session sysbytes : Z) (c : send_call) : option merr * list msg :=
  let r :=
    match c with
    | SendData s f w it => new_data_message s f w session sysbytes it
    | SendAsync s f w it => new_data_message s f w session sysbytes it
    | SendSecs2 s f w it => new_data_message (s mod 128) f w session sysbytes it
    | Reply ps pf psys it => new_data_message ps ((pf + 1) mod 256) false session psys it
    end in
  match r with
  | inl e => (Some e, [])
  | inr m => (None, [m])
  end.
